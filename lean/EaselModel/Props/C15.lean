import EaselModel.Msa.LemmasMsa
import EaselModel.Msa.LemmasConv
import EaselModel.Msa.LemmasGaps
import EaselModel.Msa.LemmasTags
import EaselModel.Msa.LemmasWuss
import EaselModel.Msa.LemmasRbb
import EaselModel.Msa.LemmasDyck
import EaselModel.Msa.LemmasFrag
import EaselModel.Msa.LemmasC2W
import EaselModel.Msa.LemmasSsCols
import EaselModel.Msa.LemmasNoPk
import EaselModel.Msa.LemmasC2WSimple
import EaselModel.Msa.LemmasFull
import EaselModel.Msa.LemmasPairs
import EaselModel.Msa.LemmasClass
import EaselModel.Msa.LemmasPk3
import EaselModel.Msa.LemmasRbbOk
import EaselModel.Msa.LemmasCmp
import EaselModel.Msa.LemmasConv2
import EaselModel.Msa.LemmasRbbSs
import EaselModel.Msa.LemmasPk4
import EaselModel.Msa.LemmasPk5
import EaselModel.Msa.LemmasFrag2
import EaselModel.Msa.LemmasRc
import EaselModel.Msa.LemmasWuss3
import EaselModel.Msa.LemmasRbbFew
import EaselModel.Msa.LemmasRfCons
import EaselModel.Msa.LemmasFull2
import EaselModel.Msa.LemmasFlushIP
import EaselModel.Msa.LemmasWf
import EaselModel.Msa.LemmasRf3
import EaselModel.Msa.LemmasSet
import EaselModel.Msa.LemmasSample
import EaselModel.Msa.LemmasHist
import EaselModel.Msa.LemmasHist2
import EaselModel.Msa.Expand
/-! # C15 — alignment transformations keep the alignment well formed and the residues intact; WUSS round trips

Property theorems only; proofs are glue on the lemmas of `EaselModel/Msa/Lemmas*.lean`.
The model (`EaselModel/Msa/Model.lean`, `Wuss.lean`) is tied to the working tree by the exact differential run of
`harness/h_msaops.c`; the alphabet tables (`Msa/AbcTables.lean`) are regenerated from the tree on every run. -/
namespace EaselModel.Props.C15
open EaselModel.Msa

/-! ## ColumnSubset: the in-place compaction loop is filter-by-mask on EVERY aligned field -/

/-- One buffer of the in-place loop `for (opos = 0, npos = 0; opos <= alen; opos++)` of `esl_msa_ColumnSubset`:
    for a field of `alen` cells followed by its terminator, what `strlen`/`esl_abc_dsqlen` sees afterwards is exactly
    the cells whose `useme` flag is set, in order (no out-of-bounds access: the result is `some`). -/
theorem compact_is_filter (useme : List Bool) (alen : Nat) (term : UInt8) (s : Bytes)
    (hm : useme.length = alen) (hs : s.length = alen) (hterm : ∀ c ∈ s, c ≠ term) :
    compactField useme alen term s = some (maskFilter useme s) :=
  compactField_eq useme alen term s hm hs hterm

/-- `esl_msa_ColumnSubset` on a well-formed alignment whose alphabet is not DNA/RNA (text mode, amino): status `eslOK`,
    no fault, and the result is `colFilter`: rows, SS/SA/PP, every GR line, SS_cons/SA_cons/PP_cons/RF/MM and every
    GC line went through the same column selection; `alen` is the number of kept columns; nothing else changed. -/
theorem columnSubset_is_filter (m : Msa) (mask : List Bool) (wf : m.WF) (hm : mask.length = m.alen)
    (hnuc : ∀ a, m.abc = some a → a.isNucleic = false) :
    columnSubset m mask = { msa := m.colFilter mask, st := .ok } := by
  have h := columnCompact_eq m mask wf hm
  unfold columnSubset
  cases habc : m.abc with
  | none => simp [h]
  | some a => simp [hnuc a habc, h]

/-- The compaction part for ANY well-formed alignment (for DNA/RNA it runs on the alignment returned by the base-pair
    repair; see `columnSubset_nucleic_partial`). -/
theorem columnCompact_is_filter (m : Msa) (mask : List Bool) (wf : m.WF) (hm : mask.length = m.alen) :
    columnCompact m mask = some (m.colFilter mask) :=
  columnCompact_eq m mask wf hm

/-- DNA/RNA alignments: `esl_msa_ColumnSubset` first repairs the base pairs (`esl_msa_RemoveBrokenBasepairs`, which
    rewrites only SS_cons and the per-sequence SS lines and keeps the alignment well formed) and then applies the
    same column filter to every aligned field of the repaired alignment; if the repair reports an error (an SS line
    that is not balanced WUSS) that status is returned and no column is removed. -/
theorem columnSubset_nucleic (m : Msa) (mask : List Bool) (a : Abc) (wf : m.WF) (habc : m.abc = some a)
    (hn : a.isNucleic = true) (hm : mask.length = m.alen) :
    ((removeBrokenBasepairs m mask).st = .ok →
        columnSubset m mask = { msa := (removeBrokenBasepairs m mask).msa.colFilter mask, st := .ok } ∧
        ((removeBrokenBasepairs m mask).msa.colFilter mask).WF ∧
        ∃ sc ss', (removeBrokenBasepairs m mask).msa = { m with ss_cons := sc, ss := ss' }) ∧
    ((removeBrokenBasepairs m mask).st ≠ .ok → columnSubset m mask = removeBrokenBasepairs m mask) := by
  constructor
  · intro hok
    obtain ⟨wf', hal, hform⟩ := removeBrokenBasepairs_wf m mask wf hok
    have hm' : mask.length = (removeBrokenBasepairs m mask).msa.alen := by rw [hal]; exact hm
    have h := columnCompact_eq _ mask wf' hm'
    exact ⟨by simp [columnSubset, habc, hn, hok, h], colFilter_wf _ mask wf' hm', hform⟩
  · intro hbad
    simp [columnSubset, habc, hn, hbad]

/-- UNCONDITIONAL DNA/RNA `esl_msa_ColumnSubset` for alignments whose SS_cons and per-sequence SS lines are balanced WUSS
    without pseudoknot letters: the base-pair repair cannot fail, the result is the column filter of the repaired
    alignment (only SS lines were rewritten), well formed -/
theorem columnSubset_nucleic_plain (m : Msa) (mask : List Bool) (a : Abc) (wf : m.WF) (habc : m.abc = some a)
    (hn : a.isNucleic = true) (hm : mask.length = m.alen)
    (hc : ∀ b, m.ss_cons = some b → PlainSS b) (hs : ∀ s b, s ∈ m.ss → s = some b → PlainSS b) :
    columnSubset m mask = { msa := (removeBrokenBasepairs m mask).msa.colFilter mask, st := .ok } ∧
    ((removeBrokenBasepairs m mask).msa.colFilter mask).WF ∧
    ∃ sc ss', (removeBrokenBasepairs m mask).msa = { m with ss_cons := sc, ss := ss' } :=
  (columnSubset_nucleic m mask a wf habc hn hm).1 (removeBrokenBasepairs_ok_plain m mask hc hs)

/-- well-formedness (every aligned length = the new `alen`, no embedded terminator, >= 1 sequence, table widths) is
    preserved by the column selection -/
theorem columnSubset_wellformed (m : Msa) (mask : List Bool) (wf : m.WF) (hm : mask.length = m.alen) :
    (m.colFilter mask).WF :=
  colFilter_wf m mask wf hm

/-- residues intact: if every removed column is a gap in a row, the row spells the same ungapped sequence -/
theorem columnSubset_dealign (isGap : UInt8 → Bool) (mask : List Bool) (row : Bytes)
    (hl : mask.length = row.length) (hg : removesOnlyGaps isGap mask row) :
    dealign isGap (maskFilter mask row) = dealign isGap row :=
  dealign_maskFilter isGap mask row hl hg

/-! ## MinimGaps / NoGaps -/

/-- text mode: `esl_msa_MinimGaps` removes exactly the columns that are a gap in every sequence, except (RF rule as
    coded) columns whose RF character is not a gap when `consider_rf` is set and RF is present -/
theorem minimGaps_text_removes_exactly (m : Msa) (gaps : Bytes) (considerRf : Bool) (apos : Nat) (h : apos < m.alen) :
    (minimGapsTextMask m gaps considerRf).getD apos true = false ↔
      ((colOf m.rows apos).all (inGaps gaps) = true ∧
       ¬ (considerRf = true ∧ ∃ rf, m.rf = some rf ∧ inGaps gaps (rf.getD apos 0) = false)) :=
  minimGapsTextMask_spec m gaps considerRf apos h

/-- digital mode: gap = `esl_abc_XIsGap || esl_abc_XIsMissing`; RF protected unless it digitizes to gap or missing -/
theorem minimGaps_digital_removes_exactly (m : Msa) (a : Abc) (considerRf : Bool) (apos : Nat) (h : apos < m.alen) :
    (minimGapsDigitalMask m a considerRf).getD apos true = false ↔
      ((colOf m.rows apos).all (fun x => a.xIsGap x || a.xIsMissing x) = true ∧
       ¬ (considerRf = true ∧ ∃ rf, m.rf = some rf ∧
            (a.cIsGap (rf.getD apos 0) || a.cIsMissing (rf.getD apos 0)) = false)) :=
  minimGapsDigitalMask_spec m a considerRf apos h

/-- `esl_msa_MinimGaps` (text mode, or amino digital): the result is the column filter by that mask, well formed, and
    every row spells the same ungapped sequence as before -/
theorem minimGaps_text_is_filter (m : Msa) (gaps : Bytes) (considerRf : Bool) (wf : m.WF) (hd : m.isDigital = false)
    (hnuc : ∀ a, m.abc = some a → a.isNucleic = false) :
    minimGaps m gaps considerRf = { msa := m.colFilter (minimGapsTextMask m gaps considerRf), st := .ok } ∧
    (m.colFilter (minimGapsTextMask m gaps considerRf)).WF ∧
    ∀ r ∈ m.rows, dealign (inGaps gaps) (maskFilter (minimGapsTextMask m gaps considerRf) r) = dealign (inGaps gaps) r := by
  have hl := minimGapsTextMask_length m gaps considerRf
  refine ⟨?_, colFilter_wf m _ wf hl, fun r hr => ?_⟩
  · simp only [minimGaps, hd, minimGapsText]
    simp [columnSubset_is_filter m _ wf hl hnuc]
  · exact dealign_maskFilter _ _ r (by rw [hl, (wf.rows_ok r hr).1]) (minimGapsTextMask_removesOnlyGaps m gaps considerRf r hr)

theorem minimGaps_digital_is_filter (m : Msa) (a : Abc) (gaps : Bytes) (considerRf : Bool) (wf : m.WF)
    (hd : m.isDigital = true) (habc : m.abc = some a) (hnuc : a.isNucleic = false) :
    minimGaps m gaps considerRf = { msa := m.colFilter (minimGapsDigitalMask m a considerRf), st := .ok } ∧
    (m.colFilter (minimGapsDigitalMask m a considerRf)).WF ∧
    ∀ r ∈ m.rows, dealign (fun x => a.xIsGap x || a.xIsMissing x) (maskFilter (minimGapsDigitalMask m a considerRf) r)
                  = dealign (fun x => a.xIsGap x || a.xIsMissing x) r := by
  have hl := minimGapsDigitalMask_length m a considerRf
  refine ⟨?_, colFilter_wf m _ wf hl, fun r hr => ?_⟩
  · simp only [minimGaps, hd, habc]
    exact columnSubset_is_filter m _ wf hl (fun a' ha' => by rw [habc] at ha'; injection ha' with e; rw [← e]; exact hnuc)
  · exact dealign_maskFilter _ _ r (by rw [hl, (wf.rows_ok r hr).1]) (minimGapsDigitalMask_removesOnlyGaps m a considerRf r hr)

/-- `esl_msa_NoGaps` keeps exactly the columns without any gap; every row of the result is gap free -/
theorem noGaps_text_keeps_exactly (m : Msa) (gaps : Bytes) (apos : Nat) (h : apos < m.alen) :
    (noGapsTextMask m gaps).getD apos false = true ↔ (colOf m.rows apos).any (inGaps gaps) = false :=
  noGapsTextMask_spec m gaps apos h

theorem noGaps_text_is_filter (m : Msa) (gaps : Bytes) (wf : m.WF) (hd : m.isDigital = false)
    (hnuc : ∀ a, m.abc = some a → a.isNucleic = false) :
    noGaps m gaps = { msa := m.colFilter (noGapsTextMask m gaps), st := .ok } ∧
    (m.colFilter (noGapsTextMask m gaps)).WF ∧
    ∀ r ∈ m.rows, ∀ c ∈ maskFilter (noGapsTextMask m gaps) r, inGaps gaps c = false := by
  have hl := noGapsTextMask_length m gaps
  refine ⟨?_, colFilter_wf m _ wf hl, fun r hr => ?_⟩
  · simp only [noGaps, hd, noGapsText]
    simp [columnSubset_is_filter m _ wf hl hnuc]
  · apply maskFilter_noGaps_row _ _ r (by rw [hl, (wf.rows_ok r hr).1])
    intro i hi hm
    rw [(wf.rows_ok r hr).1] at hi
    have := (noGapsTextMask_spec m gaps i hi).mp hm
    rw [List.any_eq_false] at this
    simpa using this _ (colOf_mem m.rows r hr i)

/-! ## esl_sq_FetchFromMSA (esl_sq.c): the ungapped sequence as the library itself extracts it -/

/-- the sequence fetched for a row is its ungapped residues (text: everything but `-_.~`; digital: everything but the
    gap and missing-data codes) -/
theorem fetch_is_ungapped_row (m : Msa) (which : Nat) (wf : m.WF) (hw : which < m.nseq) :
    (fetchFromMSA m which).map (·.seq) = some (dealign (fetchIsGap m) (m.rows.getD which [])) :=
  fetch_seq_eq m which wf hw

/-- residues intact, observed through `esl_sq_FetchFromMSA`: a column selection that removes only gap cells of a row
    (MinimGaps; `minimGaps*_removesOnlyGaps`) leaves the sequence fetched for that row unchanged -/
theorem fetch_after_gap_removal (m : Msa) (mask : List Bool) (which : Nat) (wf : m.WF) (hm : mask.length = m.alen)
    (hw : which < m.nseq) (hg : removesOnlyGaps (fetchIsGap m) mask (m.rows.getD which [])) :
    (fetchFromMSA (m.colFilter mask) which).map (·.seq) = (fetchFromMSA m which).map (·.seq) :=
  fetch_after_gap_removal' m mask which wf hm hw hg

/-! ## SequenceSubset, Clone -/

/-- `esl_msa_SequenceSubset` succeeds iff at least one sequence is selected, and then rows, names, weights, accessions,
    descriptions, SS, SA, PP of the retained sequences are kept in order (filter by the sequence mask), the per-column
    annotation, names and cutoffs are copied, and comments / GF / GC are dropped as documented. The input is unchanged
    (the operation is a function). -/
theorem sequenceSubset_keeps_rows (m : Msa) (useme : List Bool) (b : Msa) (wf : m.WF)
    (h : sequenceSubset m useme = .ok b) :
    b.nseq = countSelected m useme ∧ b.nseq ≠ 0 ∧ b.alen = m.alen ∧ b.flags = m.flags ∧ b.abc = m.abc ∧
    b.rows = maskFilter useme m.rows ∧ b.sqname = maskFilter useme m.sqname ∧ b.wgt = maskFilter useme m.wgt ∧
    b.sqacc = maskFilter useme m.sqacc ∧ b.sqdesc = maskFilter useme m.sqdesc ∧
    b.ss = maskFilter useme m.ss ∧ b.sa = maskFilter useme m.sa ∧ b.pp = maskFilter useme m.pp ∧
    b.ss_cons = m.ss_cons ∧ b.sa_cons = m.sa_cons ∧ b.pp_cons = m.pp_cons ∧ b.rf = m.rf ∧ b.mm = m.mm ∧
    b.name = m.name ∧ b.desc = m.desc ∧ b.acc = m.acc ∧ b.au = m.au ∧ b.cutoff = m.cutoff ∧ b.cutset = m.cutset ∧
    b.comment = [] ∧ b.gf = [] ∧ b.gc = [] := by
  obtain ⟨hn, rfl⟩ := sequenceSubset_ok m useme b h
  have hcut : ∀ (s : Option Bytes), optOk m.alen s → s.map (fun b => b.take m.alen) = s := by
    intro s hs
    cases s with
    | none => rfl
    | some b0 => simp [List.take_of_length_le (Nat.le_of_eq (hs b0 rfl).1)]
  simp [sequenceSubsetMsa, hn, hcut _ wf.ss_cons_ok, hcut _ wf.sa_cons_ok, hcut _ wf.pp_cons_ok, hcut _ wf.rf_ok,
        hcut _ wf.mm_ok]

theorem sequenceSubset_fails_iff_empty (m : Msa) (useme : List Bool) :
    (∃ e, sequenceSubset m useme = .error e) ↔ countSelected m useme = 0 := by
  unfold sequenceSubset
  by_cases h : countSelected m useme = 0 <;> simp [h]

/-- the subset of a well-formed alignment (distinct GS tags, distinct GR tags — what the keyhash of
    `esl_msa_AddGS`/`AppendGR` guarantees) is well formed, including the widths and lengths of the rebuilt tables -/
theorem sequenceSubset_wellformed (m : Msa) (useme : List Bool) (b : Msa) (wf : m.WF)
    (hgs : (m.gs.map (·.1)).Nodup) (hgr : (m.gr.map (·.1)).Nodup) (h : sequenceSubset m useme = .ok b) : b.WF := by
  obtain ⟨hn, rfl⟩ := sequenceSubset_ok m useme b h
  exact sequenceSubsetMsa_wf m useme wf hn hgs hgr

/-- names, weights, rows and per-sequence annotation stay attached to their sequence: the retained old sequence `o`
    is the new sequence `rankOf useme o` (= number of selected sequences before it) in every per-sequence array -/
theorem sequenceSubset_attached {α : Type} (d : α) (useme : List Bool) (xs : List α) (o : Nat) (ho : o < xs.length)
    (hu : useme.getD o false = true) : (maskFilter useme xs).getD (rankOf useme o) d = xs.getD o d :=
  maskFilter_getD_rank d useme xs o ho hu

/-- unparsed GS and GR markup of every retained sequence is carried over, tag by tag, to its new index, and nothing
    else appears there (an empty GR string, possible only when `alen = 0`, is dropped by `esl_strcat`) -/
theorem sequenceSubset_keeps_markup (m : Msa) (useme : List Bool) (b : Msa)
    (hgs : (m.gs.map (·.1)).Nodup) (hgr : (m.gr.map (·.1)).Nodup) (h : sequenceSubset m useme = .ok b)
    (o : Nat) (ho : o < m.nseq) (hu : useme.getD o false = true) (tag : Bytes) :
    tblLookup tag (rankOf useme o) b.gs = tblLookup tag o m.gs ∧
    tblLookup tag (rankOf useme o) b.gr = (tblLookup tag o m.gr).bind (fun v => if v.isEmpty then none else some v) := by
  obtain ⟨_, rfl⟩ := sequenceSubset_ok m useme b h
  exact (subset_tables m useme hgs hgr).2.2.2.2 o ho hu tag

/-- SPARSE markup at full strength, from the side of the NEW alignment: every slot `j < nseq'` of every GS / GR tag of the
    subset is the slot of exactly the retained sequence `o` with `rankOf useme o = j` — a sequence that did NOT carry a
    tag does not acquire one (`none` stays `none`), one that did keeps its own value, whatever the other sequences
    carry; and a tag none of whose values is retained has only empty slots -/
theorem sequenceSubset_markup_exact (m : Msa) (useme : List Bool) (b : Msa)
    (hgs : (m.gs.map (·.1)).Nodup) (hgr : (m.gr.map (·.1)).Nodup) (h : sequenceSubset m useme = .ok b)
    (j : Nat) (hj : j < b.nseq) :
    ∃ o, o < m.nseq ∧ useme.getD o false = true ∧ rankOf useme o = j ∧
      ∀ tag, tblLookup tag j b.gs = tblLookup tag o m.gs ∧
             tblLookup tag j b.gr = (tblLookup tag o m.gr).bind (fun v => if v.isEmpty then none else some v) := by
  obtain ⟨hn, rfl⟩ := sequenceSubset_ok m useme b h
  have hj' : j < rankOf useme m.nseq := by
    simpa [sequenceSubsetMsa, countSelected_eq_rank] using hj
  obtain ⟨o, ho, hu, hr⟩ := rank_surj useme m.nseq j hj'
  refine ⟨o, ho, hu, hr, fun tag => ?_⟩
  have := (subset_tables m useme hgs hgr).2.2.2.2 o ho hu tag
  rw [hr] at this
  exact this

/-- `esl_msa_Clone` / `esl_msa_Copy` duplicate every field (and, being functions, leave the input unchanged) -/
theorem clone_is_identity (m : Msa) : clone m = m := rfl

/-! ## text <-> digital, reverse complement (over the alphabet tables regenerated from the working tree) -/

/-- digital -> text -> digital is the identity (for any alphabet whose `sym`/`inmap` tables agree; the three
    generated alphabets do: `rna_symInmapOk`, `dna_symInmapOk`, `amino_symInmapOk`, by `decide` on the whole table) -/
theorem digital_text_digital (a : Abc) (m : Msa) (wf : m.WF) (hd : m.isDigital = true) (habc : m.abc = some a)
    (hc : m.codesOk a) (ht : a.symInmapOk) :
    (textize m).st = .ok ∧ digitize a (textize m).msa = { msa := m, st := .ok } :=
  digitize_textize a m wf hd habc hc ht

theorem generated_tables_consistent :
    Gen.rnaAbc.symInmapOk ∧ Gen.dnaAbc.symInmapOk ∧ Gen.aminoAbc.symInmapOk :=
  ⟨rna_symInmapOk, dna_symInmapOk, amino_symInmapOk⟩

/-- text -> digital -> text rewrites every residue `c` to the canonical symbol `sym[inmap[c]]` of its code and
    changes nothing else (`canonical_symbol_*` below say what that symbol is for the three alphabets) -/
theorem text_digital_text (a : Abc) (m : Msa) (wf : m.WF) (hd : m.isDigital = false) (habc : m.abc = none)
    (hv : (m.rows.all fun r => r.all a.cIsValid) = true) :
    (digitize a m).st = .ok ∧
    textize (digitize a m).msa =
      { msa := { m with rows := m.rows.map (fun r => r.map (fun c => a.sym.getD (a.digit c).toNat 0)) }, st := .ok } :=
  textize_digitize a m wf hd habc hv

/-- canonical forms: an upper-case symbol of the alphabet is unchanged, a lower-case one is upper-cased, and the gap
    symbols `-`, `.`, `_` all become `-`; `*` and `~` are kept (amino: whole table, by `decide`) -/
theorem canonical_symbol_amino : ∀ n, n < 128 → Gen.aminoAbc.cIsValid (UInt8.ofNat n) = true →
    let c := UInt8.ofNat n
    let r := Gen.aminoAbc.sym.getD (Gen.aminoAbc.digit c).toNat 0
    (isUpper c → r = c) ∧ (isLower c → r = toUpper c) ∧ (c = 0x2d ∨ c = 0x2e ∨ c = 0x5f → r = 0x2d) ∧
    (c = 0x2a ∨ c = 0x7e → r = c) := by decide +kernel

/-- RNA: as above, except for the documented synonyms `T -> U`, `X -> N`, `I -> A` -/
theorem canonical_symbol_rna : ∀ n, n < 128 → Gen.rnaAbc.cIsValid (UInt8.ofNat n) = true →
    let c := UInt8.ofNat n
    let r := Gen.rnaAbc.sym.getD (Gen.rnaAbc.digit c).toNat 0
    ((isUpper c && c != 0x54 && c != 0x58 && c != 0x49) = true → r = c) ∧
    ((isLower c && c != 0x74 && c != 0x78 && c != 0x69) = true → r = toUpper c) ∧
    (c = 0x2d ∨ c = 0x2e ∨ c = 0x5f → r = 0x2d) ∧ (c = 0x2a ∨ c = 0x7e → r = c) := by decide +kernel

/-- DNA: synonyms `U -> T`, `X -> N`, `I -> A` -/
theorem canonical_symbol_dna : ∀ n, n < 128 → Gen.dnaAbc.cIsValid (UInt8.ofNat n) = true →
    let c := UInt8.ofNat n
    let r := Gen.dnaAbc.sym.getD (Gen.dnaAbc.digit c).toNat 0
    ((isUpper c && c != 0x55 && c != 0x58 && c != 0x49) = true → r = c) ∧
    ((isLower c && c != 0x75 && c != 0x78 && c != 0x69) = true → r = toUpper c) ∧
    (c = 0x2d ∨ c = 0x2e ∨ c = 0x5f → r = 0x2d) ∧ (c = 0x2a ∨ c = 0x7e → r = c) := by decide +kernel

/-- reverse-complementing a digital nucleic alignment twice is the identity (rows, SS lines through
    `esl_wuss_reverse`, every other aligned annotation) — for an involutive complement table -/
theorem reverseComplement_twice (a : Abc) (compl : List UInt8) (m : Msa) (hd : m.isDigital = true)
    (habc : m.abc = some a) (hcompl : a.complement = some compl) (hinv : a.complInvolutive compl) (hc : m.codesOk a) :
    (reverseComplement m).st = .ok ∧ reverseComplement (reverseComplement m).msa = { msa := m, st := .ok } :=
  reverseComplement_twice' a compl m hd habc hcompl hinv hc

/-- `esl_msa_ReverseComplement` ONCE, field by field: on a digital alignment whose alphabet has a complement table it
    returns `eslOK`; every row is reversed and complemented cell by cell (cell `i` = complement of the old cell
    `alen-1-i`: residues intact up to the strand change), SS_cons and every per-sequence SS go through
    `esl_wuss_reverse`, SA/PP/RF/MM, every GC and every GR line are reversed, nothing else changes, and the alignment
    stays well formed. Text mode or an alphabet without complement: `eslEINCOMPAT`, alignment untouched. -/
theorem reverseComplement_spec (a : Abc) (compl : List UInt8) (m : Msa) (wf : m.WF) (hd : m.isDigital = true)
    (habc : m.abc = some a) (hcompl : a.complement = some compl) (hc : m.codesOk a)
    (hcl : ∀ x, x < a.Kp → (compl.getD x 0).toNat < a.Kp) (hKp : a.Kp ≤ 255) :
    reverseComplement m = { msa := rcMsa compl m, st := .ok } ∧ (rcMsa compl m).WF ∧
    (rcMsa compl m).rows = m.rows.map (revcompRow compl) ∧
    (∀ r ∈ m.rows, ∀ i, i < m.alen → (revcompRow compl r).getD i 0 = compl.getD (r.getD (m.alen - 1 - i) 0).toNat 0) ∧
    (rcMsa compl m).ss_cons = m.ss_cons.map wussReverse ∧ (rcMsa compl m).rf = m.rf.map List.reverse ∧
    (rcMsa compl m).gc = m.gc.map (fun t => (t.1, t.2.reverse)) ∧
    (rcMsa compl m).gr = m.gr.map (fun t => (t.1, t.2.map (Option.map List.reverse))) ∧
    (rcMsa compl m).gs = m.gs ∧ (rcMsa compl m).sqname = m.sqname ∧ (rcMsa compl m).wgt = m.wgt := by
  refine ⟨by simp [reverseComplement, hd, habc, hcompl], rcMsa_wf a compl m wf hd hc hcl hKp, rfl, ?_, rfl, rfl, rfl, rfl,
    rfl, rfl, rfl⟩
  intro r hr i hi
  have hlen := (wf.rows_ok r hr).1
  rw [← hlen] at hi ⊢
  exact revcompRow_getD compl r i hi

theorem reverseComplement_rejects (m : Msa) (h : m.isDigital = false ∨ ∃ a, m.abc = some a ∧ a.complement = none) :
    reverseComplement m = { msa := m, st := .eincompat, exc := true } := by
  rcases h with h | ⟨a, h1, h2⟩
  · simp [reverseComplement, h]
  · by_cases hd : m.isDigital = true
    · simp [reverseComplement, hd, h1, h2]
    · simp [reverseComplement, hd]

/-- the generated DNA and RNA complement tables are involutions on the valid codes -/
theorem generated_complement_involutive :
    (∃ c, Gen.rnaAbc.complement = some c ∧ Gen.rnaAbc.complInvolutive c) ∧
    (∃ c, Gen.dnaAbc.complement = some c ∧ Gen.dnaAbc.complInvolutive c) :=
  ⟨rna_complInvolutive, dna_complInvolutive⟩

/-! ## FlushLeftInserts, MarkFragments -/

/-- `esl_msa_FlushLeftInserts` rewrites every row to `flushRow`; on a well-formed alignment each row keeps its length,
    spells the same residues in the same order (only gaps moved), and every consensus (RF non-gap) column keeps its
    own cell; nothing but the rows changes -/
theorem flushLeftInserts_spec (m : Msa) (a : Abc) (rf : Bytes) (wf : m.WF) (hrf : m.rf = some rf) (habc : m.abc = some a)
    (hd : m.isDigital = true) (hg : a.xIsGap a.xGap = true) :
    flushLeftInserts m = { msa := { m with rows := m.rows.map (flushRow a rf m.alen) }, st := .ok } ∧
    ∀ r ∈ m.rows,
      (flushRow a rf m.alen r).length = m.alen ∧
      (flushRow a rf m.alen r).filter (fun x => !a.xIsGap x) = r.filter (fun x => !a.xIsGap x) ∧
      (∀ i, i < m.alen → a.cIsGap (rf.getD i 0) = false → (flushRow a rf m.alen r).getD i 0 = r.getD i 0) := by
  refine ⟨by simp [flushLeftInserts, hrf, habc], fun r hr => ?_⟩
  exact flushRow_spec a hg rf r m.alen (wf.rf_ok rf hrf).1 (wf.rows_ok r hr).1

/-- THE IN-PLACE LOOP. `esl_msa_FlushLeftInserts` rewrites each `ax[i]` in place with two counters `a` (read) and `b`
    (write); `flushIP` is that loop on the buffer itself, every `ax[a]` read being a read of the CURRENT buffer. Because
    `b <= a` is invariant, the cells from `a` on are still the original ones, and the loop computes exactly `flushRow`,
    the left-to-right function `flushLeftInserts_spec` speaks about; the driver runs the in-place version. -/
theorem flushLeftInserts_inplace (m : Msa) (wf : m.WF) :
    flushLeftInsertsIP m = flushLeftInserts m ∧
    ∀ (a : Abc) (rf row : Bytes), rf.length = m.alen → row.length = m.alen →
      flushIP a rf m.alen (m.alen + 1) 0 0 row = flushRow a rf m.alen row :=
  ⟨flushLeftInsertsIP_eq m wf, fun a rf row h1 h2 => flushIP_is_flushRow a rf row m.alen h1 h2⟩

/-- "... all yield a well-formed alignment", for the three transformations whose well-formedness was not yet stated:
    `esl_msa_FlushLeftInserts` (rows keep their length, every cell is an old cell or the gap code, never the sentinel),
    `esl_msa_MarkFragments_old` (cells are old cells or the missing-data symbol), `esl_msa_Digitize` on valid text (codes
    below `Kp`), `esl_msa_Textize` (every symbol of the alphabet is a non-NUL character) -/
theorem transformed_wellformed (m : Msa) (wf : m.WF) :
    (∀ (a : Abc) (rf : Bytes), m.rf = some rf → m.abc = some a → m.isDigital = true → a.xIsGap a.xGap = true → a.K < 255 →
      (flushLeftInserts m).st = .ok ∧ (flushLeftInserts m).msa.WF) ∧
    (∀ isFrag, (fragSyms m).2 ≠ m.rowTerm → (markFragmentsOld m isFrag).WF) ∧
    (∀ a : Abc, m.isDigital = false → (m.rows.all fun r => r.all a.cIsValid) = true → a.Kp ≤ 255 →
      (digitize a m).st = .ok ∧ (digitize a m).msa.WF) ∧
    (∀ a : Abc, m.isDigital = true → m.abc = some a → m.codesOk a → (∀ x, x < a.Kp → a.sym.getD x 0 ≠ 0) →
      (textize m).st = .ok ∧ (textize m).msa.WF) := by
  refine ⟨fun a rf hrf habc hd hg hK => ?_, fun isFrag h => markFragmentsOld_wf m isFrag wf h,
    fun a hd hv hK => digitize_wf a m wf hd hv hK, fun a hd habc hc hs => textize_wf a m wf hd habc hc hs⟩
  have e : flushLeftInserts m = { msa := { m with rows := m.rows.map (flushRow a rf m.alen) }, st := .ok } := by
    simp [flushLeftInserts, hrf, habc]
  rw [e]
  exact ⟨rfl, flushLeftInserts_wf m a rf wf hrf hd hg hK⟩

/-- the side conditions of `transformed_wellformed` hold for the three generated alphabets and for text mode -/
theorem generated_wf_side_conditions :
    (Gen.rnaAbc.K < 255 ∧ Gen.rnaAbc.Kp ≤ 255) ∧ (Gen.dnaAbc.K < 255 ∧ Gen.dnaAbc.Kp ≤ 255) ∧
    (Gen.aminoAbc.K < 255 ∧ Gen.aminoAbc.Kp ≤ 255) ∧
    Gen.rnaAbc.xMissing ≠ dsqSentinel ∧ Gen.dnaAbc.xMissing ≠ dsqSentinel ∧ Gen.aminoAbc.xMissing ≠ dsqSentinel ∧
    (0x7e : UInt8) ≠ 0 ∧
    (∀ x, x < Gen.rnaAbc.Kp → Gen.rnaAbc.sym.getD x 0 ≠ 0) ∧ (∀ x, x < Gen.dnaAbc.Kp → Gen.dnaAbc.sym.getD x 0 ≠ 0) ∧
    (∀ x, x < Gen.aminoAbc.Kp → Gen.aminoAbc.sym.getD x 0 ≠ 0) := by decide

/-- `esl_msa_MarkFragments(msa, fragthresh, &fragassign)` does not touch the alignment (it is a function of it) and flags
    sequence `i` iff the span from its first to its last residue is shorter than `minspan = ceil(fragthresh * alen)`
    (computed in binary32 by the caller of the model, L0): for a row whose first residue is at column `f` and last at
    column `l` the span is `l - f + 1`; a row without residues has span `-alen` (flagged iff `-alen < minspan`, i.e. for
    every positive threshold). Residue (`fragIsRes`) = `esl_abc_XIsResidue` in digital mode, `isalpha` in text mode. -/
theorem markFragments_spec (m : Msa) (minspan : Int) (wf : m.WF) :
    (markFragments m minspan).length = m.nseq ∧
    ∀ isRes, isRes = fragIsRes m →
    ∀ (i : Nat) (r : Bytes), m.rows[i]? = some r →
      (markFragments m minspan)[i]? = some (fragFlag isRes m.alen minspan r) ∧
      ((∀ c ∈ r, isRes c = false) → fragFlag isRes m.alen minspan r = decide (-(m.alen : Int) < minspan)) ∧
      (∀ f l, f < m.alen → l < m.alen → isRes (r.getD f 0) = true → (∀ k, k < f → isRes (r.getD k 0) = false) →
        isRes (r.getD l 0) = true → (∀ k, l < k → k < m.alen → isRes (r.getD k 0) = false) →
        fragFlag isRes m.alen minspan r = decide ((l : Int) - f + 1 < minspan)) := by
  refine ⟨by rw [markFragments_eq]; simp [wf.rows_len], ?_⟩
  intro isRes hres i r hr
  have hlen : r.length = m.alen := (wf.rows_ok r (List.mem_of_getElem? hr)).1
  refine ⟨by rw [markFragments_eq, ← hres]; simp [hr], ?_, ?_⟩
  · intro h; rw [← hlen]; exact fragFlag_empty isRes minspan r h
  · intro f l hf hl a b c d
    rw [← hlen] at hf hl d ⊢
    exact fragFlag_span isRes minspan r f l hf hl a b c d

/-- THE THRESHOLD of `esl_msa_MarkFragments`, exactly (ℚ in place of `float`): with `minspan = (int) ceil(fragthresh * alen)`
    the test the code makes, `rpos - lpos + 1 < minspan`, is `span < fragthresh * alen` — a sequence whose span is exactly
    `fragthresh * alen` is NOT a fragment (unlike `esl_msa_MarkFragments_old`, whose test is `rlen <= fragthresh * alen`) -/
theorem markFragments_threshold_exact (isRes : UInt8 → Bool) (alen : Nat) (t : Rat) (r : Bytes) :
    fragFlag isRes alen (t * (alen : Rat)).ceil r =
      decide ((((lastIdx1 isRes (r.take alen) : Nat) : Int) - ((firstIdx isRes (r.take alen) : Nat) + 1 : Int) + 1 : Int) < t * (alen : Rat)) := by
  unfold fragFlag
  rw [decide_eq_decide]
  exact Rat.lt_ceil_iff

example : fragFlag isAlpha 4 ((1/2 : Rat) * ((4 : Nat) : Rat)).ceil [0x2d, 0x41, 0x43, 0x2d] = false ∧
    fragFlag isAlpha 4 ((51/100 : Rat) * ((4 : Nat) : Rat)).ceil [0x2d, 0x41, 0x43, 0x2d] = true := by decide +kernel

/-- `esl_msa_MarkFragments_old` on one row (`maskEnds`): same length, same residues in the same order; every cell is
    an old cell or the missing-data symbol (leading / trailing non-residues only) -/
theorem markFragmentsOld_row_spec (isRes : UInt8 → Bool) (miss : UInt8) (hm : isRes miss = false) (r : Bytes) :
    (maskEnds isRes miss r).length = r.length ∧ (maskEnds isRes miss r).filter isRes = r.filter isRes ∧
    ∀ c ∈ maskEnds isRes miss r, c ∈ r ∨ c = miss :=
  maskEnds_spec isRes miss hm r

/-- ... and the operation touches nothing but the rows it flags (`fragSyms`: residue test and missing symbol of the mode) -/
theorem markFragmentsOld_rows (m : Msa) (isFrag : Nat → Bool) :
    markFragmentsOld m isFrag =
      { m with rows := m.rows.map fun r => if isFrag (rawLen m r) then maskEnds (fragSyms m).1 (fragSyms m).2 r else r } :=
  rfl

/-- in the three generated alphabets the gap code is a gap and the missing-data code is not a residue -/
theorem generated_gap_missing_codes :
    (Gen.rnaAbc.xIsGap Gen.rnaAbc.xGap = true ∧ Gen.rnaAbc.xIsResidue Gen.rnaAbc.xMissing = false) ∧
    (Gen.dnaAbc.xIsGap Gen.dnaAbc.xGap = true ∧ Gen.dnaAbc.xIsResidue Gen.dnaAbc.xMissing = false) ∧
    (Gen.aminoAbc.xIsGap Gen.aminoAbc.xGap = true ∧ Gen.aminoAbc.xIsResidue Gen.aminoAbc.xMissing = false) ∧
    isAlnum 0x7e = false := by decide

/-! ## WUSS -/

/-- `esl_wuss2ct` returns `eslOK` iff every symbol is a legal WUSS symbol and every one of the 27 bracket languages —
    class 0: `<>`, `()`, `[]`, `{}` on one stack with matching kinds; classes 1..26: the letter pairs `Aa`..`Zz` — is
    balanced and properly matched, each language judged on its own by the single-stack recogniser `dyckRun`
    (otherwise the status is `eslESYNTAX`) -/
theorem wuss2ct_accepts_iff (ss : Bytes) :
    (∃ ct, wuss2ct ss = some ct) ↔ ((∀ c ∈ ss, legalSym c = true) ∧ ∀ k, k < 27 → balancedClass k ss) :=
  wuss2ct_accepts_iff' ss

/-- `esl_wuss2ct` returned `eslOK`: the table has `len+1` cells and is an involution without fixed points on the
    paired positions, all of them within `1..len` -/
theorem wuss2ct_involution (ss : Bytes) (ct : List Nat) (h : wuss2ct ss = some ct) :
    ct.length = ss.length + 1 ∧
    ∀ i, ct.getD i 0 ≠ 0 →
      1 ≤ i ∧ i ≤ ss.length ∧ 1 ≤ ct.getD i 0 ∧ ct.getD i 0 ≤ ss.length ∧
      ct.getD (ct.getD i 0) 0 = i ∧ ct.getD i 0 ≠ i :=
  wuss2ct_involution' ss ct h

/-- every pair of the table joins an opening symbol with ITS closing symbol: `<>`, `()`, `[]`, `{}` or the same
    pseudoknot letter in upper (left) and lower (right) case — pairs never cross bracket kinds or letters -/
theorem wuss2ct_pairs_matched (ss : Bytes) (ct : List Nat) (h : wuss2ct ss = some ct) (i : Nat)
    (hi : ct.getD i 0 ≠ 0) (hlt : i < ct.getD i 0) : pairOk ss i (ct.getD i 0) :=
  wuss2ct_pairs_matched' ss ct h i hi hlt

/-- for a NESTED pair table (no two pairs cross) `esl_wuss2ct` reads back exactly that table from ANY bracket labelling
    of it (any mixture of the four bracket kinds, any unpaired symbols) -/
theorem wuss2ct_of_labels (ss : Bytes) (ct : List Nat) (hct : CtOk ss.length ct) (hn : Nested ct) (hl : Labels ct ss) :
    wuss2ct ss = some ct :=
  wuss2ct_of_labels' ss ct hct hn hl

/-- on a nested pair table `esl_ct2wuss` never enters its pseudoknot branch; when it returns `eslOK` the string has
    `n` symbols and is a bracket labelling of the table -/
theorem ct2wuss_nested_labels (n : Nat) (ct : List Nat) (hct : CtOk n ct) (hn : Nested ct) (ss : Bytes)
    (h : ct2wuss ct = .ok ss) : ss.length = n ∧ Labels ct ss :=
  ct2wuss_labels n ct hct hn ss h

/-- NESTED ROUND TRIP `wuss2ct (ct2wuss ct) = ct` for every symmetric non-pseudoknotted pair table -/
theorem nested_roundtrip (n : Nat) (ct : List Nat) (hct : CtOk n ct) (hn : Nested ct) (ss : Bytes)
    (h : ct2wuss ct = .ok ss) : wuss2ct ss = some ct :=
  nested_roundtrip' n ct hct hn ss h

/-- UNCONDITIONAL nested round trip: on every symmetric non-pseudoknotted pair table `esl_ct2wuss` succeeds (never
    enters the pseudoknot branch, finds every pair: `npairs == npairs_reached`) and `esl_wuss2ct` of its output is the
    table again -/
theorem nested_roundtrip_total (n : Nat) (ct : List Nat) (hct : CtOk n ct) (hn : Nested ct) :
    ∃ ss, ct2wuss ct = .ok ss ∧ wuss2ct ss = some ct :=
  nested_roundtrip_total' n ct hct hn

/-- the same for `esl_ct2simplewuss` (`<>` for every pair, `.` for unpaired residues): it succeeds on every symmetric
    nested table and `esl_wuss2ct` reads the table back -/
theorem simple_nested_roundtrip_total (n : Nat) (ct : List Nat) (hct : CtOk n ct) (hn : Nested ct) :
    ∃ ss, ct2simplewuss ct = .ok ss ∧ wuss2ct ss = some ct :=
  simple_nested_roundtrip_total' n ct hct hn

/-- NESTED structures, end to end on strings: `esl_msa_RemoveBrokenBasepairsFromSS` succeeds and the SS line it writes
    reads back as EXACTLY the original pairs whose two partners are both retained (`removeBroken_keeps_exactly`
    characterises that table) -/
theorem removeBroken_nested (ss : Bytes) (useme : List Bool) (ct : List Nat) (h : wuss2ct ss = some ct) (hn : Nested ct) :
    ∃ ss', removeBrokenFromSS ss useme = .ok ss' ∧ wuss2ct ss' = some (breakPairs useme 1 ss.length ct) :=
  removeBroken_nested' ss useme ct h hn

/-- "Secondary-structure annotation stays a balanced WUSS string", nested case, through BOTH steps of a DNA/RNA
    `esl_msa_ColumnSubset`: the base-pair repair succeeds, writes a line of the same length spelling exactly the pairs
    with both partners retained, every column that is then removed carries an unpaired symbol, and the compacted line
    is accepted by `esl_wuss2ct` again (that its pairs are the re-indexed retained pairs is checked by the monitors) -/
theorem repaired_then_compacted_balanced (ss : Bytes) (mask : List Bool) (ct : List Nat) (h : wuss2ct ss = some ct)
    (hn : Nested ct) (hm : mask.length = ss.length) :
    ∃ ss', removeBrokenFromSS ss mask = .ok ss' ∧ ss'.length = ss.length ∧
      wuss2ct ss' = some (breakPairs mask 1 ss.length ct) ∧ ∃ ct2, wuss2ct (maskFilter mask ss') = some ct2 :=
  repaired_then_compacted_balanced' ss mask ct h hn hm

/-- the pair table of a balanced WUSS string WITHOUT pseudoknot letters is nested -/
theorem wuss2ct_nopk_nested (ss : Bytes) (hnl : ∀ c ∈ ss, isAlpha c = false) (ct : List Nat) (h : wuss2ct ss = some ct) :
    Nested ct :=
  wuss2ct_nopk_nested' ss hnl ct h

/-- wuss -> ct -> wuss -> ct is the identity on pair tables for every balanced WUSS string without pseudoknot letters:
    `esl_ct2wuss` succeeds on its table and `esl_wuss2ct` reads the same table back -/
theorem nopk_wuss_roundtrip (ss : Bytes) (hnl : ∀ c ∈ ss, isAlpha c = false) (ct : List Nat) (h : wuss2ct ss = some ct) :
    ∃ ss2, ct2wuss ct = .ok ss2 ∧ wuss2ct ss2 = some ct :=
  nested_roundtrip_total' ss.length ct (wuss2ct_ctOk ss ct h) (wuss2ct_nopk_nested' ss hnl ct h)

/-- ... and for such an SS line a DNA/RNA ColumnSubset (repair, then compaction) succeeds, spells after the repair
    exactly the pairs with both partners retained, and leaves a balanced WUSS string -/
theorem nopk_repaired_then_compacted (ss : Bytes) (mask : List Bool) (hnl : ∀ c ∈ ss, isAlpha c = false) (ct : List Nat)
    (h : wuss2ct ss = some ct) (hm : mask.length = ss.length) :
    ∃ ss', removeBrokenFromSS ss mask = .ok ss' ∧ ss'.length = ss.length ∧
      wuss2ct ss' = some (breakPairs mask 1 ss.length ct) ∧ ∃ ct2, wuss2ct (maskFilter mask ss') = some ct2 :=
  repaired_then_compacted_balanced' ss mask ct h (wuss2ct_nopk_nested' ss hnl ct h) hm

/-- PSEUDOKNOTTED ROUND TRIP (any symmetric pair table, crossing pairs allowed): whenever `esl_ct2wuss` returns
    `eslOK`, `esl_wuss2ct` of its output is the same table. (`esl_ct2wuss` may refuse a table whose greedy lettering
    needs more than `A..Z`: documented `eslEINVAL`.) -/
theorem pk_roundtrip (n : Nat) (ct : List Nat) (hct : CtOk n ct) (ss : Bytes) (h : ct2wuss ct = .ok ss) :
    wuss2ct ss = some ct :=
  pk_roundtrip' n ct hct ss h

/-- TOTALITY of `esl_ct2wuss` on EVERY symmetric pair table (crossing pairs allowed): it returns `eslOK`, or its documented
    `eslEINVAL` "Don't have enough letters to describe all different pseudoknots" (`einvalLetters`, carrying the partial
    string left in the caller's buffer) — it never reads or writes outside `ct[] / cct[] / ss[] / rb[26]`, never reports
    "Cannot find left partner", never `eslEINCONCEIVABLE` "no such face code", never `eslFAIL` "found %d out of %d pairs" -/
theorem ct2wuss_total (n : Nat) (ct : List Nat) (hct : CtOk n ct) :
    (∃ ss, ct2wuss ct = .ok ss) ∨ (∃ p, ct2wuss ct = .error (.einvalLetters p)) :=
  ct2wuss_total' n ct hct

/-- TARGET STATEMENT for every pair table `esl_wuss2ct` can produce (nested brackets + any of the 26 pseudoknot letter
    classes): `esl_ct2wuss` either fails with its documented status ("not enough letters") or produces a string that
    `esl_wuss2ct` reads back as THE SAME pair table -/
theorem wuss_ct_wuss_ct_total (ss : Bytes) (ct : List Nat) (h : wuss2ct ss = some ct) :
    (∃ ss2, ct2wuss ct = .ok ss2 ∧ ss2.length = ss.length ∧ wuss2ct ss2 = some ct) ∨
    (∃ p, ct2wuss ct = .error (.einvalLetters p)) := by
  have hct := wuss2ct_ctOk ss ct h
  rcases ct2wuss_total' ss.length ct hct with ⟨ss2, h2⟩ | ⟨p, hp⟩
  · exact Or.inl ⟨ss2, h2, (ct2wuss_class_labels ss.length ct hct ss2 h2).1, pk_roundtrip' ss.length ct hct ss2 h2⟩
  · exact Or.inr ⟨p, hp⟩

/-- ... and `esl_msa_RemoveBrokenBasepairsFromSS` on ANY string: `eslESYNTAX` iff the line is not balanced WUSS; otherwise
    `eslOK` with a line of the same length that reads back as EXACTLY the pairs with both partners retained, or the
    documented "not enough letters" failure of `esl_ct2wuss` — nothing else -/
theorem removeBroken_total (ss : Bytes) (useme : List Bool) :
    (wuss2ct ss = none ∧ removeBrokenFromSS ss useme = .error .esyntax) ∨
    (∃ ct, wuss2ct ss = some ct ∧
      ((∃ ss', removeBrokenFromSS ss useme = .ok ss' ∧ ss'.length = ss.length ∧
          wuss2ct ss' = some (breakPairs useme 1 ss.length ct)) ∨
       (∃ p, removeBrokenFromSS ss useme = .error (.einvalLetters p)))) := by
  cases h : wuss2ct ss with
  | none => exact Or.inl ⟨rfl, by simp [removeBrokenFromSS, h]⟩
  | some ct =>
    right
    refine ⟨ct, rfl, ?_⟩
    have hct := wuss2ct_ctOk ss ct h
    have hb := (breakPairs_ctOk_nested useme ss.length ct hct).1
    simp only [removeBrokenFromSS, h]
    rcases ct2wuss_total' ss.length _ hb with ⟨ss2, h2⟩ | ⟨p, hp⟩
    · exact Or.inl ⟨ss2, h2, (ct2wuss_class_labels ss.length _ hb ss2 h2).1, pk_roundtrip' ss.length _ hb ss2 h2⟩
    · exact Or.inr ⟨p, hp⟩

/-- the decidable predicate "the pseudoknot lettering of `esl_ct2wuss` runs out of the letters `A..Z` on this table" -/
def lettersExhausted (ct : List Nat) : Bool :=
  match ct2wuss ct with
  | .error (.einvalLetters _) => true
  | _ => false

/-- `ct2wuss_ok_iff`: on a symmetric pair table `esl_ct2wuss` returns `eslOK` IF AND ONLY IF its greedy lettering does not
    run out of letters — there is no other obstacle (bounds, partners, face codes, pair count). The greedy lettering has no
    simpler closed form (a letter is re-used only past its right bound `rb[]`, and within one batch letters only grow), so
    the exact predicate is the lettering run itself; `ct2wuss_ok_of_few_pk` gives the combinatorial bound. -/
theorem ct2wuss_ok_iff (n : Nat) (ct : List Nat) (hct : CtOk n ct) :
    (∃ ss, ct2wuss ct = .ok ss) ↔ lettersExhausted ct = false := by
  unfold lettersExhausted
  rcases ct2wuss_total' n ct hct with ⟨ss, h⟩ | ⟨p, h⟩
  · rw [h]; exact ⟨fun _ => rfl, fun _ => ⟨ss, rfl⟩⟩
  · rw [h]; exact ⟨fun ⟨ss, h'⟩ => (by cases h'), fun h' => (by cases h')⟩

/-- COMBINATORIAL SUFFICIENT CONDITION. Call a pair `(p, ct[p])` pseudoknotted when some pair opened before it closes
    inside it (`q < p < ct[q] < ct[p]`, `isPkPair`; `pkPairs ct` lists them). A symmetric table with AT MOST 26
    pseudoknotted pairs is always converted, and the result reads back as the same table. Equivalently: "not enough
    letters" needs at least 27 pseudoknotted pairs. The bound is attained (`w27` below has exactly 27 and is refused) and
    is not necessary (one helix of 30 pseudoknotted pairs takes one letter, example below). -/
theorem ct2wuss_ok_of_few_pk (n : Nat) (ct : List Nat) (hct : CtOk n ct) (hfew : (pkPairs ct).length ≤ 26) :
    ∃ ss, ct2wuss ct = .ok ss ∧ wuss2ct ss = some ct := by
  obtain ⟨ss, h⟩ := ct2wuss_ok_of_few' n ct hct hfew
  exact ⟨ss, h, pk_roundtrip' n ct hct ss h⟩

theorem ct2wuss_fails_needs_27 (n : Nat) (ct : List Nat) (hct : CtOk n ct) (h : lettersExhausted ct = true) :
    27 ≤ (pkPairs ct).length := by
  rcases Nat.lt_or_ge (pkPairs ct).length 27 with hlt | hge
  · obtain ⟨ss, hok⟩ := ct2wuss_ok_of_few' n ct hct (by omega)
    simp [lettersExhausted, hok] at h
  · exact hge

/-- hence for WUSS strings: a balanced string with at most 26 pseudoknotted pairs always survives wuss -> ct -> wuss -> ct,
    and `esl_msa_RemoveBrokenBasepairsFromSS` (which only removes pairs) cannot fail on it -/
theorem wuss_few_pk_roundtrip (ss : Bytes) (ct : List Nat) (h : wuss2ct ss = some ct) (hfew : (pkPairs ct).length ≤ 26) :
    ∃ ss2, ct2wuss ct = .ok ss2 ∧ wuss2ct ss2 = some ct :=
  ct2wuss_ok_of_few_pk ss.length ct (wuss2ct_ctOk ss ct h) hfew

/-! ### likewise `esl_ct2simplewuss` (`<>` for the pairs found on the main stack, `Aa..Zz` for the pseudoknotted ones, `.` elsewhere) -/

/-- PSEUDOKNOTTED ROUND TRIP for `esl_ct2simplewuss`: on ANY symmetric pair table, when it returns `eslOK` the string has
    `n` symbols, is a class-nested labelling of the table and `esl_wuss2ct` reads the table back -/
theorem simple_pk_roundtrip (n : Nat) (ct : List Nat) (hct : CtOk n ct) (ss : Bytes) (h : ct2simplewuss ct = .ok ss) :
    ss.length = n ∧ ClassLabels ct ss ∧ ClassNested ct ss ∧ wuss2ct ss = some ct :=
  ⟨(ct2wussGen_class_labels true n ct hct ss h).1, (ct2wussGen_class_labels true n ct hct ss h).2.1,
   (ct2wussGen_class_labels true n ct hct ss h).2.2, pk_roundtripGen true n ct hct ss h⟩

/-- TOTALITY of `esl_ct2simplewuss`: `eslOK` or the documented "not enough letters", nothing else, no out-of-bounds access -/
theorem ct2simplewuss_total (n : Nat) (ct : List Nat) (hct : CtOk n ct) :
    (∃ ss, ct2simplewuss ct = .ok ss ∧ wuss2ct ss = some ct) ∨ (∃ p, ct2simplewuss ct = .error (.einvalLetters p)) := by
  rcases ct2wussGen_total true n ct hct with ⟨ss, h⟩ | ⟨p, h⟩
  · exact Or.inl ⟨ss, h, pk_roundtripGen true n ct hct ss h⟩
  · exact Or.inr ⟨p, h⟩

/-- ... and the same combinatorial sufficient condition: at most 26 pseudoknotted pairs ⇒ converted, read back identically -/
theorem ct2simplewuss_ok_of_few_pk (n : Nat) (ct : List Nat) (hct : CtOk n ct) (hfew : (pkPairs ct).length ≤ 26) :
    ∃ ss, ct2simplewuss ct = .ok ss ∧ wuss2ct ss = some ct := by
  obtain ⟨ss, h⟩ := ct2wussGen_ok_of_few true n ct hct hfew
  exact ⟨ss, h, pk_roundtripGen true n ct hct ss h⟩

/-- for every pair table `esl_wuss2ct` can produce: wuss -> ct -> simple wuss -> ct is the identity or the documented failure -/
theorem wuss_ct_simplewuss_ct_total (ss : Bytes) (ct : List Nat) (h : wuss2ct ss = some ct) :
    (∃ ss2, ct2simplewuss ct = .ok ss2 ∧ ss2.length = ss.length ∧ wuss2ct ss2 = some ct) ∨
    (∃ p, ct2simplewuss ct = .error (.einvalLetters p)) := by
  have hct := wuss2ct_ctOk ss ct h
  rcases ct2wussGen_total true ss.length ct hct with ⟨ss2, h2⟩ | ⟨p, hp⟩
  · exact Or.inl ⟨ss2, h2, (ct2wussGen_class_labels true ss.length ct hct ss2 h2).1, pk_roundtripGen true ss.length ct hct ss2 h2⟩
  · exact Or.inr ⟨p, hp⟩

/-- what `esl_ct2wuss` writes for an arbitrary table: `n` symbols; unpaired positions carry unpaired symbols, every
    pair a bracket pair or an upper/lower letter pair, and pairs that share a stack never cross -/
theorem ct2wuss_is_class_labelling (n : Nat) (ct : List Nat) (hct : CtOk n ct) (ss : Bytes) (h : ct2wuss ct = .ok ss) :
    ss.length = n ∧ ClassLabels ct ss ∧ ClassNested ct ss :=
  ct2wuss_class_labels n ct hct ss h

/-- THE PAIR-SET THEOREM: for ANY balanced WUSS string (pseudoknot letters included) wuss -> ct -> wuss -> ct returns
    the same pair table -/
theorem wuss_ct_wuss_ct_pk (ss ss2 : Bytes) (ct : List Nat) (h1 : wuss2ct ss = some ct) (h2 : ct2wuss ct = .ok ss2) :
    wuss2ct ss2 = some ct :=
  pk_roundtrip' ss.length ct (wuss2ct_ctOk ss ct h1) ss2 h2

/-- `esl_msa_RemoveBrokenBasepairsFromSS` on ANY balanced SS line: when it returns `eslOK`, the line it wrote reads
    back as exactly the original pairs whose two partners are both retained -/
theorem removeBroken_pairs_pk (ss ss' : Bytes) (useme : List Bool) (ct : List Nat) (h : wuss2ct ss = some ct)
    (h2 : removeBrokenFromSS ss useme = .ok ss') :
    wuss2ct ss' = some (breakPairs useme 1 ss.length ct) := by
  have hct := wuss2ct_ctOk ss ct h
  have hb := (breakPairs_ctOk_nested useme ss.length ct hct).1
  simp only [removeBrokenFromSS, h] at h2
  exact pk_roundtrip' ss.length _ hb ss' h2

/-- DNA/RNA `esl_msa_ColumnSubset` on ANY balanced SS line (pseudoknots included), both steps, pair sets included: if
    the repair returns `eslOK`, it spells exactly the retained pairs and the compacted line is read as those pairs
    renumbered to the new columns -/
theorem columnSubset_pairs_pk (ss ss' : Bytes) (mask : List Bool) (ct : List Nat) (h : wuss2ct ss = some ct)
    (hm : mask.length = ss.length) (h2 : removeBrokenFromSS ss mask = .ok ss') :
    ∃ ps, breakPairs mask 1 ss.length ct = tableOf (List.replicate (ss.length + 1) 0) ps ∧
      wuss2ct (maskFilter mask ss') =
        some (tableOf (List.replicate ((maskFilter mask ss').length + 1) 0) (relabelPs (newPos mask) ps)) := by
  have hct := wuss2ct_ctOk ss ct h
  have hb := (breakPairs_ctOk_nested mask ss.length ct hct).1
  have h2' := h2
  simp only [removeBrokenFromSS, h] at h2'
  obtain ⟨hlen, hlab, _⟩ := ct2wuss_class_labels ss.length _ hb ss' h2'
  have h3 := pk_roundtrip' ss.length _ hb ss' h2'
  have hrem : removesOnlyGaps isUnpairedSym mask ss' := by
    apply removesOnlyGaps_of_forall
    intro i h1' h2'' h3'
    have hz : (breakPairs mask 1 ss.length ct).getD (i+1) 0 = 0 := by
      rw [breakPairs_spec' mask ss.length ct hct (i+1), if_neg]
      intro hc
      have := hc.2.1
      simp only [Nat.add_sub_cancel] at this
      have h4 : mask.getD i false = false := by
        simp only [List.getD_eq_getElem?_getD, List.getElem?_eq_getElem h1', Option.getD_some] at h3' ⊢
        exact h3'
      rw [h4] at this; cases this
    have := (hlab (i+1) (by omega) (by omega)).1 hz
    simpa using this
  obtain ⟨ps, hp1, hp2⟩ := compacted_pairs' ss' mask (by rw [hm, hlen]) hrem _ h3
  rw [hlen] at hp1
  exact ⟨ps, hp1, hp2⟩

/-- READING HALF OF THE PSEUDOKNOTTED ROUND TRIP: for ANY symmetric pair table (crossing pairs allowed) and any string
    that labels every pair with a bracket pair or an upper/lower-case letter pair and every unpaired position with an
    unpaired symbol, such that pairs sharing a stack (all brackets; one letter) never cross, `esl_wuss2ct` returns
    exactly that table -/
theorem wuss2ct_of_class_labels (ss : Bytes) (ct : List Nat) (hct : CtOk ss.length ct) (hcn : ClassNested ct ss)
    (hl : ClassLabels ct ss) : wuss2ct ss = some ct :=
  wuss2ct_of_class_labels' ss ct hct hcn hl

/-- RE-INDEXED PAIR SET AFTER COMPACTION, for ANY balanced WUSS string (pseudoknot letters included): if every removed
    column carries an unpaired symbol, `esl_wuss2ct` reads from the compacted line exactly the pairs of the original
    line with each position `p` renumbered to `newPos mask p` (its rank among the kept columns).  `tableOf z ps` is the
    table `ct[l] = r, ct[r] = l` of the pair list `ps`. -/
theorem compacted_pairs (ss : Bytes) (mask : List Bool) (hm : mask.length = ss.length)
    (hrem : removesOnlyGaps isUnpairedSym mask ss) (ct : List Nat) (h : wuss2ct ss = some ct) :
    ∃ ps, ct = tableOf (List.replicate (ss.length + 1) 0) ps ∧
      wuss2ct (maskFilter mask ss) =
        some (tableOf (List.replicate ((maskFilter mask ss).length + 1) 0) (relabelPs (newPos mask) ps)) :=
  compacted_pairs' ss mask hm hrem ct h

/-- `newPos` sends every kept column to its new index (1-based): the first kept column to 1, the next to 2, ... -/
theorem newPos_agrees (mask : List Bool) : Agree (newPos mask) 1 1 mask := agree_newPosFrom mask 1 1

/-- DNA/RNA `esl_msa_ColumnSubset` on an SS line without pseudoknot letters, BOTH steps, pair sets included: the repair
    succeeds and spells exactly the pairs with both partners retained (`breakPairs`), and the compacted line is read
    as those same pairs renumbered to the new columns -/
theorem nopk_columnSubset_pairs (ss : Bytes) (mask : List Bool) (hnl : ∀ c ∈ ss, isAlpha c = false) (ct : List Nat)
    (h : wuss2ct ss = some ct) (hm : mask.length = ss.length) :
    ∃ ss' ps, removeBrokenFromSS ss mask = .ok ss' ∧ ss'.length = ss.length ∧
      breakPairs mask 1 ss.length ct = tableOf (List.replicate (ss.length + 1) 0) ps ∧
      wuss2ct (maskFilter mask ss') =
        some (tableOf (List.replicate ((maskFilter mask ss').length + 1) 0) (relabelPs (newPos mask) ps)) := by
  have hn := wuss2ct_nopk_nested' ss hnl ct h
  have hct := wuss2ct_ctOk ss ct h
  have hb := breakPairs_ctOk_nested mask ss.length ct hct
  obtain ⟨ss', h1⟩ := ct2wuss_nested_ok ss.length _ hb.1 (hb.2 hn)
  obtain ⟨hlen, hlab⟩ := ct2wuss_labels ss.length _ hb.1 (hb.2 hn) ss' h1
  have h2 := wuss2ct_of_labels' ss' _ (by rw [hlen]; exact hb.1) (hb.2 hn) hlab
  have hrem : removesOnlyGaps isUnpairedSym mask ss' := by
    apply removesOnlyGaps_of_forall
    intro i h1' h2' h3
    have hz : (breakPairs mask 1 ss.length ct).getD (i+1) 0 = 0 := by
      rw [breakPairs_spec' mask ss.length ct hct (i+1), if_neg]
      intro hc
      have := hc.2.1
      simp only [Nat.add_sub_cancel] at this
      have h4 : mask.getD i false = false := by
        simp only [List.getD_eq_getElem?_getD, List.getElem?_eq_getElem h1', Option.getD_some] at h3 ⊢
        exact h3
      rw [h4] at this; cases this
    have := (hlab (i+1) (by omega) (by omega)).1 hz
    simpa using this
  obtain ⟨ps, hp1, hp2⟩ := compacted_pairs' ss' mask (by rw [hm, hlen]) hrem _ h2
  rw [hlen] at hp1
  exact ⟨ss', ps, by simp [removeBrokenFromSS, h, h1], hlen, hp1, hp2⟩

/-- ... in particular for the table of any bracket-only WUSS string: wuss -> ct -> wuss -> ct returns the same table
    whenever the table of the string is nested (the hypothesis `hn`; with pseudoknot letters the tables need not be
    nested and the round trip is PARTIAL: compared on every run against an independent reader, not proved) -/
theorem wuss_ct_wuss_ct (ss ss2 : Bytes) (ct : List Nat) (h1 : wuss2ct ss = some ct) (hn : Nested ct)
    (h2 : ct2wuss ct = .ok ss2) : wuss2ct ss2 = some ct :=
  nested_roundtrip' ss.length ct (wuss2ct_ctOk ss ct h1) hn ss2 h2

/-- `esl_msa_RemoveBrokenBasepairsFromSS`: on a balanced WUSS string the pair table handed to `esl_ct2wuss` holds
    EXACTLY the original pairs whose two partners are both retained (every other position is unpaired).
    (That the re-encoded string spells the same table is the `ct2wuss` round trip: checked on every run by the
    monitors against an independent WUSS reader; not proved — see `level_note`.) -/
theorem removeBroken_keeps_exactly (ss : Bytes) (useme : List Bool) (ct : List Nat) (h : wuss2ct ss = some ct) :
    removeBrokenFromSS ss useme = ct2wuss (breakPairs useme 1 ss.length ct) ∧
    ∀ i, (breakPairs useme 1 ss.length ct).getD i 0 =
      if ct.getD i 0 ≠ 0 ∧ useme.getD (i-1) false = true ∧ useme.getD (ct.getD i 0 - 1) false = true
      then ct.getD i 0 else 0 := by
  refine ⟨by simp [removeBrokenFromSS, h], fun i => ?_⟩
  exact breakPairs_spec' useme ss.length ct (wuss2ct_ctOk ss ct h) i

/-- an unbalanced SS line is left untouched and reported as `eslESYNTAX` -/
theorem removeBroken_rejects_unbalanced (ss : Bytes) (useme : List Bool) (h : wuss2ct ss = none) :
    removeBrokenFromSS ss useme = .error .esyntax := by
  simp [removeBrokenFromSS, h]

/-- `esl_ct2wuss` / `esl_ct2simplewuss`, when they succeed, write exactly `n` symbols and no NUL -/
theorem ct2wuss_shape (simple : Bool) (ct : List Nat) (ss : Bytes) (h : ct2wussGen simple ct = .ok ss) :
    ss.length = ct.length - 1 ∧ ∀ c ∈ ss, c ≠ 0 :=
  ct2wussGen_shape simple ct ss h

/-- `esl_wuss_full` on a balanced WUSS string without pseudoknot letters: succeeds, same length, same pair table -/
theorem wussFull_nopk (ss : Bytes) (hnl : ∀ c ∈ ss, isAlpha c = false) (ct : List Nat) (h : wuss2ct ss = some ct) :
    ∃ full, wussFull ss = .ok full ∧ full.length = ss.length ∧ wuss2ct full = some ct :=
  wussFull_nopk' ss hnl ct h

/-- WHAT `esl_wuss2ct` RETURNS, COMPLETELY: `eslOK` with table `ct` IF AND ONLY IF `ct` is a symmetric pair table over
    `1..len` and the string is a class-nested labelling of it: unpaired positions carry unpaired symbols, every pair a
    bracket pair or an upper/lower-case letter pair, and pairs that share a stack (all brackets; one letter) never cross.
    (So the table is unique, and `wuss2ct_of_class_labels` / `ct2wuss_is_class_labelling` are exact converses.) -/
theorem wuss2ct_iff_class_labelling (ss : Bytes) (ct : List Nat) :
    wuss2ct ss = some ct ↔ (CtOk ss.length ct ∧ ClassLabels ct ss ∧ ClassNested ct ss) :=
  ⟨fun h => ⟨wuss2ct_ctOk ss ct h, wuss2ct_class_labels ss ct h⟩, fun ⟨a, b, c⟩ => wuss2ct_of_class_labels' ss ct a c b⟩

/-- `esl_wuss_reverse` MIRRORS THE PAIR SET of every balanced WUSS string (pseudoknot letters included): the reversed
    string is balanced and position `p` pairs with `len+1-q` exactly when `len+1-p` paired with `q` in the original -/
theorem wussReverse_pairs (ss : Bytes) (ct : List Nat) (h : wuss2ct ss = some ct) :
    wuss2ct (wussReverse ss) = some (mirrorCt ss.length ct) ∧
    ∀ p, 1 ≤ p → p ≤ ss.length → (mirrorCt ss.length ct).getD p 0 =
      if ct.getD (ss.length + 1 - p) 0 = 0 then 0 else ss.length + 1 - ct.getD (ss.length + 1 - p) 0 := by
  refine ⟨wussReverse_pairs' ss ct h, fun p h1 h2 => ?_⟩
  rw [mirrorCt_getD, if_neg (by omega)]

/-- hence after `esl_msa_ReverseComplement` SS_cons and EVERY per-sequence SS are still balanced WUSS strings, and their
    pairs are exactly the original pairs mirrored (column `c` <-> column `alen+1-c`) -/
theorem reverseComplement_ss_pairs (a : Abc) (compl : List UInt8) (m : Msa) (wf : m.WF) (hd : m.isDigital = true)
    (habc : m.abc = some a) (hcompl : a.complement = some compl) :
    (∀ ss ct, m.ss_cons = some ss → wuss2ct ss = some ct →
      ∃ ss2, (reverseComplement m).msa.ss_cons = some ss2 ∧ wuss2ct ss2 = some (mirrorCt m.alen ct)) ∧
    (∀ (i : Nat) s ct, m.ss[i]? = some (some s) → wuss2ct s = some ct →
      ∃ s2, (reverseComplement m).msa.ss[i]? = some (some s2) ∧ wuss2ct s2 = some (mirrorCt m.alen ct)) := by
  have hr : reverseComplement m = { msa := rcMsa compl m, st := .ok } := by simp [reverseComplement, hd, habc, hcompl]
  rw [hr]
  constructor
  · intro ss ct hss h
    have hlen : ss.length = m.alen := (wf.ss_cons_ok ss hss).1
    exact ⟨wussReverse ss, by simp [rcMsa, hss], by rw [← hlen]; exact wussReverse_pairs' ss ct h⟩
  · intro i s ct hs h
    have hlen : s.length = m.alen := (wf.ss_ok (some s) (List.mem_of_getElem? hs) s rfl).1
    exact ⟨wussReverse s, by simp [rcMsa, hs], by rw [← hlen]; exact wussReverse_pairs' s ct h⟩

/-- `esl_wuss_nopseudo` on a balanced WUSS string removes EXACTLY the pseudoknot-letter pairs: the result is balanced and
    its table is the original one with the positions that carried a letter unpaired (`nopkCt`) — a nested table -/
theorem wussNopseudo_pairs (ss : Bytes) (ct : List Nat) (h : wuss2ct ss = some ct) :
    wuss2ct (wussNopseudo ss) = some (nopkCt ss ct) ∧ Nested (nopkCt ss ct) ∧
    ∀ p, (nopkCt ss ct).getD p 0 = if isAlpha (ss.getD (p-1) 0) then 0 else ct.getD p 0 := by
  have hA := wussNopseudo_pairs' ss ct h
  refine ⟨hA, ?_, nopkCt_getD ss ct⟩
  apply wuss2ct_nopk_nested' (wussNopseudo ss) _ _ hA
  intro c hc
  simp only [wussNopseudo, List.mem_map] at hc
  obtain ⟨d, _, rfl⟩ := hc
  unfold nopseudoChar
  split
  · decide
  · rename_i hd; simpa using hd

/-- `esl_wuss_full` on EVERY balanced WUSS string (pseudoknot letters included; `wussFull_nopk` was the letter-free case):
    it returns `eslOK`, the full-format string has the same length and THE SAME pair table -/
theorem wussFull_total (ss : Bytes) (ct : List Nat) (h : wuss2ct ss = some ct) :
    ∃ full, wussFull ss = .ok full ∧ full.length = ss.length ∧ wuss2ct full = some ct :=
  wussFull_total' ss ct h

/-- `esl_wuss2kh` followed by `esl_kh2wuss` (WUSS -> old KHS notation -> WUSS) keeps the pair table of EVERY balanced WUSS
    string: brackets come back as `<>`, unpaired symbols as `.`, pseudoknot letters unchanged -/
theorem kh_roundtrip_pairs (ss : Bytes) (ct : List Nat) (h : wuss2ct ss = some ct) :
    wuss2ct (kh2wuss (wuss2kh ss)) = some ct :=
  kh_roundtrip_pairs' ss ct h

/-- `esl_wuss_reverse` is an involution on every string -/
theorem wussReverse_involutive (ss : Bytes) : wussReverse (wussReverse ss) = ss :=
  wussReverse_wussReverse ss

/-! ## the SS_cons of the ALIGNMENT after a DNA/RNA `esl_msa_ColumnSubset` (nested and pseudoknotted lines alike) -/

/-- THE PROPERTY'S LAST CLAUSE ON THE ALIGNMENT ITSELF: whenever `esl_msa_ColumnSubset` returns `eslOK` on a DNA/RNA
    alignment whose SS_cons is any balanced WUSS string (pseudoknot letters included), the SS_cons of the resulting
    alignment is a balanced WUSS string whose pairs are EXACTLY the original pairs with both partners retained
    (`breakPairs`, characterised by `removeBroken_keeps_exactly`), renumbered to the new columns (`newPos`). -/
theorem columnSubset_msa_sscons_pairs (m : Msa) (mask : List Bool) (a : Abc) (wf : m.WF) (habc : m.abc = some a)
    (hn : a.isNucleic = true) (hm : mask.length = m.alen) (ss : Bytes) (hss : m.ss_cons = some ss) (ct : List Nat)
    (h : wuss2ct ss = some ct) (hok : (columnSubset m mask).st = .ok) :
    ∃ ss2 ps, (columnSubset m mask).msa.ss_cons = some ss2 ∧ ss2.length = (columnSubset m mask).msa.alen ∧
      breakPairs mask 1 ss.length ct = tableOf (List.replicate (ss.length + 1) 0) ps ∧
      wuss2ct ss2 = some (tableOf (List.replicate (ss2.length + 1) 0) (relabelPs (newPos mask) ps)) := by
  have hrok : (removeBrokenBasepairs m mask).st = .ok := by
    by_cases hc : (removeBrokenBasepairs m mask).st = .ok
    · exact hc
    · rw [(columnSubset_nucleic m mask a wf habc hn hm).2 hc] at hok
      exact absurd hok hc
  obtain ⟨heq, hwf, _⟩ := (columnSubset_nucleic m mask a wf habc hn hm).1 hrok
  obtain ⟨ss', h1, h2⟩ := removeBrokenBasepairs_sscons' m mask ss hss hrok
  have hlen : ss.length = m.alen := (wf.ss_cons_ok ss hss).1
  obtain ⟨ps, hp1, hp2⟩ := columnSubset_pairs_pk ss ss' mask ct h (by rw [hm, hlen]) h1
  refine ⟨maskFilter mask ss', ps, ?_, ?_, hp1, hp2⟩
  · rw [heq]; simp [Msa.colFilter, h2]
  · rw [heq]
    have := hwf.ss_cons_ok (maskFilter mask ss') (by simp [Msa.colFilter, h2])
    exact this.1

/-- ... and the same for the per-sequence SS line of EVERY sequence that has one -/
theorem columnSubset_msa_ss_pairs (m : Msa) (mask : List Bool) (a : Abc) (wf : m.WF) (habc : m.abc = some a)
    (hn : a.isNucleic = true) (hm : mask.length = m.alen) (i : Nat) (s : Bytes) (hs : m.ss[i]? = some (some s)) (ct : List Nat)
    (h : wuss2ct s = some ct) (hok : (columnSubset m mask).st = .ok) :
    ∃ s2 ps, (columnSubset m mask).msa.ss[i]? = some (some s2) ∧
      breakPairs mask 1 s.length ct = tableOf (List.replicate (s.length + 1) 0) ps ∧
      wuss2ct s2 = some (tableOf (List.replicate (s2.length + 1) 0) (relabelPs (newPos mask) ps)) := by
  have hrok : (removeBrokenBasepairs m mask).st = .ok := by
    by_cases hc : (removeBrokenBasepairs m mask).st = .ok
    · exact hc
    · rw [(columnSubset_nucleic m mask a wf habc hn hm).2 hc] at hok
      exact absurd hok hc
  obtain ⟨heq, _, _⟩ := (columnSubset_nucleic m mask a wf habc hn hm).1 hrok
  obtain ⟨l', hl, hss⟩ := removeBrokenBasepairs_ss' m mask hrok
  obtain ⟨s', h1, h2⟩ := (rbbSeqs_getElem mask m.ss l' hl i).1 s hs
  have hlen : s.length = m.alen := (wf.ss_ok (some s) (List.mem_of_getElem? hs) s rfl).1
  obtain ⟨ps, hp1, hp2⟩ := columnSubset_pairs_pk s s' mask ct h (by rw [hm, hlen]) h1
  refine ⟨maskFilter mask s', ps, ?_, hp1, hp2⟩
  rw [heq]
  simp [Msa.colFilter, hss, h2]

/-- DNA/RNA digital `esl_msa_MinimGaps` (the case `minimGaps_digital_is_filter` excludes): it is `esl_msa_ColumnSubset`
    with the all-gap mask, i.e. base-pair repair followed by the column filter; when the repair succeeds the rows are the
    filtered ORIGINAL rows (the repair rewrites SS lines only), the result is well formed and every row spells the same
    ungapped sequence; when it fails its status is returned and no column is removed -/
theorem minimGaps_digital_nucleic (m : Msa) (a : Abc) (gaps : Bytes) (considerRf : Bool) (wf : m.WF)
    (hd : m.isDigital = true) (habc : m.abc = some a) (hn : a.isNucleic = true) :
    minimGaps m gaps considerRf = columnSubset m (minimGapsDigitalMask m a considerRf) ∧
    ((removeBrokenBasepairs m (minimGapsDigitalMask m a considerRf)).st = .ok →
      (minimGaps m gaps considerRf).st = .ok ∧ (minimGaps m gaps considerRf).msa.WF ∧
      (minimGaps m gaps considerRf).msa.rows = m.rows.map (maskFilter (minimGapsDigitalMask m a considerRf)) ∧
      ∀ r ∈ m.rows, dealign (fun x => a.xIsGap x || a.xIsMissing x) (maskFilter (minimGapsDigitalMask m a considerRf) r)
                    = dealign (fun x => a.xIsGap x || a.xIsMissing x) r) ∧
    ((removeBrokenBasepairs m (minimGapsDigitalMask m a considerRf)).st ≠ .ok →
      minimGaps m gaps considerRf = removeBrokenBasepairs m (minimGapsDigitalMask m a considerRf)) := by
  have hl := minimGapsDigitalMask_length m a considerRf
  have e : minimGaps m gaps considerRf = columnSubset m (minimGapsDigitalMask m a considerRf) := by
    simp only [minimGaps, hd, habc, if_true]
  refine ⟨e, fun hok => ?_, fun hbad => ?_⟩
  · obtain ⟨heq, hwf, sc, ss', hform⟩ := (columnSubset_nucleic m _ a wf habc hn hl).1 hok
    rw [e, heq]
    refine ⟨rfl, hwf, by rw [hform]; rfl, fun r hr => ?_⟩
    exact dealign_maskFilter _ _ r (by rw [hl, (wf.rows_ok r hr).1]) (minimGapsDigitalMask_removesOnlyGaps m a considerRf r hr)
  · rw [e]; exact (columnSubset_nucleic m _ a wf habc hn hl).2 hbad

/-! ## compaction_pairs_exact: repair + compaction, whichever entry point runs them -/

/-- THE TWO STEPS every column-removing entry point performs on a structure-carrying alignment — the documented repair
    `esl_msa_RemoveBrokenBasepairs(msa, useme)` followed by the in-place compaction — leave, for SS_cons AND for the SS
    line of EVERY sequence that has one, a balanced WUSS string whose pairs are EXACTLY the original pairs both of whose
    columns survive (`breakPairs`, characterised pointwise by `removeBroken_keeps_exactly`), renumbered by the column map
    `newPos` (old column -> its rank among the kept ones, `newPos_agrees`); the alignment is well formed and the rows are
    the filtered ORIGINAL rows. Pseudoknotted lines included. -/
theorem compaction_pairs_exact (m : Msa) (mask : List Bool) (wf : m.WF) (hm : mask.length = m.alen)
    (hrok : (removeBrokenBasepairs m mask).st = .ok) :
    ((removeBrokenBasepairs m mask).msa.colFilter mask).WF ∧
    ((removeBrokenBasepairs m mask).msa.colFilter mask).rows = m.rows.map (maskFilter mask) ∧
    (∀ ss ct, m.ss_cons = some ss → wuss2ct ss = some ct →
      ∃ ss2 ps, ((removeBrokenBasepairs m mask).msa.colFilter mask).ss_cons = some ss2 ∧
        ss2.length = ((removeBrokenBasepairs m mask).msa.colFilter mask).alen ∧
        breakPairs mask 1 ss.length ct = tableOf (List.replicate (ss.length + 1) 0) ps ∧
        wuss2ct ss2 = some (tableOf (List.replicate (ss2.length + 1) 0) (relabelPs (newPos mask) ps))) ∧
    (∀ (i : Nat) s ct, m.ss[i]? = some (some s) → wuss2ct s = some ct →
      ∃ s2 ps, ((removeBrokenBasepairs m mask).msa.colFilter mask).ss[i]? = some (some s2) ∧
        breakPairs mask 1 s.length ct = tableOf (List.replicate (s.length + 1) 0) ps ∧
        wuss2ct s2 = some (tableOf (List.replicate (s2.length + 1) 0) (relabelPs (newPos mask) ps))) ∧
    (m.ss_cons = none → ((removeBrokenBasepairs m mask).msa.colFilter mask).ss_cons = none) := by
  obtain ⟨wf', hal, sc, ss', hform⟩ := removeBrokenBasepairs_wf m mask wf hrok
  have hm' : mask.length = (removeBrokenBasepairs m mask).msa.alen := by rw [hal]; exact hm
  have hwf := colFilter_wf _ mask wf' hm'
  refine ⟨hwf, by rw [hform]; rfl, ?_, ?_, ?_⟩
  · intro ss ct hss h
    obtain ⟨ss1, h1, h2⟩ := removeBrokenBasepairs_sscons' m mask ss hss hrok
    have hlen : ss.length = m.alen := (wf.ss_cons_ok ss hss).1
    obtain ⟨ps, hp1, hp2⟩ := columnSubset_pairs_pk ss ss1 mask ct h (by rw [hm, hlen]) h1
    refine ⟨maskFilter mask ss1, ps, by simp [Msa.colFilter, h2], ?_, hp1, hp2⟩
    exact (hwf.ss_cons_ok (maskFilter mask ss1) (by simp [Msa.colFilter, h2])).1
  · intro i s ct hs h
    obtain ⟨l', hl, hss⟩ := removeBrokenBasepairs_ss' m mask hrok
    obtain ⟨s1, h1, h2⟩ := (rbbSeqs_getElem mask m.ss l' hl i).1 s hs
    have hlen : s.length = m.alen := (wf.ss_ok (some s) (List.mem_of_getElem? hs) s rfl).1
    obtain ⟨ps, hp1, hp2⟩ := columnSubset_pairs_pk s s1 mask ct h (by rw [hm, hlen]) h1
    exact ⟨maskFilter mask s1, ps, by simp [Msa.colFilter, hss, h2], hp1, hp2⟩
  · intro hnone
    have : (removeBrokenBasepairs m mask).msa.ss_cons = none := by
      simp only [removeBrokenBasepairs, hnone]
      cases hq : rbbSeqs mask m.ss with
      | mk l e => cases e <;> rfl
    simp [Msa.colFilter, this]

/-- the entry points that run exactly those two steps, so that `compaction_pairs_exact` speaks about their result:
    DNA/RNA `esl_msa_ColumnSubset`; digital DNA/RNA `esl_msa_MinimGaps` and `esl_msa_NoGaps` (= ColumnSubset with the
    all-gap / any-gap mask); text-mode `esl_msa_MinimGapsText` / `esl_msa_NoGapsText` with `fix_bps = TRUE`. When the
    repair reports an error (an SS line that is not balanced WUSS, or one `esl_ct2wuss` has not enough letters for) that
    status is returned and no column is removed. -/
theorem compaction_entry_points (m : Msa) (wf : m.WF) :
    (∀ a mask, m.abc = some a → a.isNucleic = true → mask.length = m.alen →
      columnSubset m mask = (if (removeBrokenBasepairs m mask).st = .ok
        then { msa := (removeBrokenBasepairs m mask).msa.colFilter mask, st := .ok } else removeBrokenBasepairs m mask)) ∧
    (∀ a gaps rf, m.isDigital = true → m.abc = some a → minimGaps m gaps rf = columnSubset m (minimGapsDigitalMask m a rf)) ∧
    (∀ a gaps, m.isDigital = true → m.abc = some a → noGaps m gaps = columnSubset m (noGapsDigitalMask m a)) ∧
    (∀ gaps rf, m.abc = none →
      minimGapsText m gaps rf true = (if (removeBrokenBasepairs m (minimGapsTextMask m gaps rf)).st = .ok
        then { msa := (removeBrokenBasepairs m (minimGapsTextMask m gaps rf)).msa.colFilter (minimGapsTextMask m gaps rf), st := .ok }
        else removeBrokenBasepairs m (minimGapsTextMask m gaps rf))) ∧
    (∀ gaps, m.abc = none →
      noGapsText m gaps true = (if (removeBrokenBasepairs m (noGapsTextMask m gaps)).st = .ok
        then { msa := (removeBrokenBasepairs m (noGapsTextMask m gaps)).msa.colFilter (noGapsTextMask m gaps), st := .ok }
        else removeBrokenBasepairs m (noGapsTextMask m gaps))) := by
  have text : ∀ mask : List Bool, mask.length = m.alen → m.abc = none → (removeBrokenBasepairs m mask).st = .ok →
      columnSubset (removeBrokenBasepairs m mask).msa mask = { msa := (removeBrokenBasepairs m mask).msa.colFilter mask, st := .ok } := by
    intro mask hm habc hok
    obtain ⟨wf', hal, sc, ss', hform⟩ := removeBrokenBasepairs_wf m mask wf hok
    apply columnSubset_is_filter _ mask wf' (by rw [hal]; exact hm)
    intro a ha
    rw [hform] at ha
    simp only [habc] at ha
    cases ha
  refine ⟨?_, ?_, ?_, ?_, ?_⟩
  · intro a mask habc hn hm
    by_cases hok : (removeBrokenBasepairs m mask).st = .ok
    · rw [if_pos hok]; exact ((columnSubset_nucleic m mask a wf habc hn hm).1 hok).1
    · rw [if_neg hok]; exact (columnSubset_nucleic m mask a wf habc hn hm).2 hok
  · intro a gaps rf hd habc; simp only [minimGaps, hd, habc, if_true]
  · intro a gaps hd habc; simp only [noGaps, hd, habc, if_true]
  · intro gaps rf habc
    have hl := minimGapsTextMask_length m gaps rf
    by_cases hok : (removeBrokenBasepairs m (minimGapsTextMask m gaps rf)).st = .ok
    · rw [if_pos hok]; simp only [minimGapsText, if_true, hok, bne_self_eq_false, Bool.false_eq_true, if_false]
      exact text _ hl habc hok
    · rw [if_neg hok]; simp [minimGapsText, hok]
  · intro gaps habc
    have hl := noGapsTextMask_length m gaps
    by_cases hok : (removeBrokenBasepairs m (noGapsTextMask m gaps)).st = .ok
    · rw [if_pos hok]; simp only [noGapsText, if_true, hok, bne_self_eq_false, Bool.false_eq_true, if_false]
      exact text _ hl habc hok
    · rw [if_neg hok]; simp [noGapsText, hok]

/-- UNCONDITIONAL FORM for structure annotation within the letter supply: when SS_cons and every per-sequence SS line is
    balanced WUSS with at most 26 pseudoknotted pairs (`FewPkSS`; every letter-free line qualifies), the repair
    `esl_msa_RemoveBrokenBasepairs` returns `eslOK` for EVERY mask — removing pairs never creates a pseudoknotted pair — so
    a DNA/RNA `esl_msa_ColumnSubset` (and MinimGaps / NoGaps through `compaction_entry_points`) returns `eslOK`, the result
    is well formed and carries exactly the surviving pairs (`compaction_pairs_exact`) -/
theorem columnSubset_ok_of_few_pk (m : Msa) (mask : List Bool) (a : Abc) (wf : m.WF) (habc : m.abc = some a)
    (hn : a.isNucleic = true) (hm : mask.length = m.alen)
    (hc : ∀ b, m.ss_cons = some b → FewPkSS b) (hs : ∀ s b, s ∈ m.ss → s = some b → FewPkSS b) :
    (removeBrokenBasepairs m mask).st = .ok ∧
    columnSubset m mask = { msa := (removeBrokenBasepairs m mask).msa.colFilter mask, st := .ok } ∧
    ((removeBrokenBasepairs m mask).msa.colFilter mask).WF := by
  have hok := removeBrokenBasepairs_ok_few m mask hc hs
  obtain ⟨h1, h2, _⟩ := (columnSubset_nucleic m mask a wf habc hn hm).1 hok
  exact ⟨hok, h1, h2⟩

/-! ## esl_msa_AddGS / AppendGR / AppendGC: the unparsed-markup constructors -/

/-- `esl_msa_AddGS(msa, tag, sqidx, value)`: slot (`tag`, `sqidx`) becomes the value (or `old \n value` when the sequence
    already has that tag), every other slot of every tag is unchanged, the table keeps one row per tag (a new tag is
    appended at the end), every row keeps `nseq` slots -/
theorem addGS_spec (n : Nat) (tbl : TagTable) (tag : Bytes) (i : Nat) (v : Bytes) (hi : i < n) (hw : tblWidth n tbl) :
    (∀ tag' j, tblLookup tag' j (addGS n tbl tag i v) =
        if tag' = tag ∧ j = i then gsStore v (tblLookup tag i tbl) else tblLookup tag' j tbl) ∧
    tblWidth n (addGS n tbl tag i v) ∧
    (addGS n tbl tag i v).map (·.1) = (if tag ∈ tbl.map (·.1) then tbl.map (·.1) else tbl.map (·.1) ++ [tag]) ∧
    ((tbl.map (·.1)).Nodup → ((addGS n tbl tag i v).map (·.1)).Nodup) :=
  ⟨fun tag' j => tblLookup_update n _ tag i hi tag' j tbl hw, tblUpdate_width n _ tag i tbl hw, tblUpdate_tags n _ tag i tbl,
   tblUpdate_nodup n _ tag i tbl⟩

/-- `esl_msa_AppendGR(msa, tag, sqidx, value)`: the value is appended to slot (`tag`, `sqidx`) (an empty value stores
    nothing), everything else as for `AddGS` -/
theorem appendGR_spec (n : Nat) (tbl : TagTable) (tag : Bytes) (i : Nat) (v : Bytes) (hi : i < n) (hw : tblWidth n tbl) :
    (∀ tag' j, tblLookup tag' j (appendGR n tbl tag i v) =
        if tag' = tag ∧ j = i then grStore v (tblLookup tag i tbl) else tblLookup tag' j tbl) ∧
    tblWidth n (appendGR n tbl tag i v) ∧
    (appendGR n tbl tag i v).map (·.1) = (if tag ∈ tbl.map (·.1) then tbl.map (·.1) else tbl.map (·.1) ++ [tag]) ∧
    ((tbl.map (·.1)).Nodup → ((appendGR n tbl tag i v).map (·.1)).Nodup) :=
  ⟨fun tag' j => tblLookup_update n _ tag i hi tag' j tbl hw, tblUpdate_width n _ tag i tbl hw, tblUpdate_tags n _ tag i tbl,
   tblUpdate_nodup n _ tag i tbl⟩

/-- `esl_msa_AddComment` / `esl_msa_AddGF` bookkeeping: the new line is the LAST one, the earlier lines keep their order
    and content, the counts grow by one, no other field changes — in particular the alignment stays well formed -/
theorem addComment_addGF_spec (m : Msa) (tag v : Bytes) (wf : m.WF) :
    (addComment m v).comment = m.comment ++ [v] ∧ (addComment m v).comment.length = m.comment.length + 1 ∧
    addComment m v = { m with comment := (addComment m v).comment } ∧ (addComment m v).WF ∧
    (addGF m tag v).gf = m.gf ++ [(tag, v)] ∧ (addGF m tag v).gf.length = m.gf.length + 1 ∧
    addGF m tag v = { m with gf := (addGF m tag v).gf } ∧ (addGF m tag v).WF :=
  ⟨rfl, by simp [addComment], rfl, { wf with }, rfl, by simp [addGF], rfl, { wf with }⟩

/-- `esl_msa_AppendGC`: a new tag gets a new line at the end of the table -/
theorem appendGC_new (tbl : List (Bytes × Bytes)) (tag v : Bytes) (h : tag ∉ tbl.map (·.1)) :
    appendGC tbl tag v = tbl ++ [(tag, v)] := by
  unfold appendGC
  have : tbl.findIdx? (fun t => t.1 == tag) = none := by
    rw [List.findIdx?_eq_none_iff]
    intro t ht
    simp only [beq_iff_eq, Bool.not_eq_true, beq_eq_false_iff_ne, ne_eq]
    intro e; exact h (List.mem_map.2 ⟨t, ht, e⟩)
  rw [this]

/-! ## esl_msa_Compare: the equality test other checks use as an oracle -/

/-- `esl_msa_Compare(a1, a2)` returns `eslOK` IF AND ONLY IF the two alignments agree in every field its documentation
    lists: `nseq`, `alen`, `flags`, sequence names, aligned rows, weights (up to `esl_DCompare_old(.., 0.001)`), name,
    description, accession, author, SS_cons, SA_cons, PP_cons, RF, MM, per-sequence accession / description / SS / SA /
    PP, which cutoffs are set and their values (up to `esl_FCompare_old(.., 0.01)`); `dcmp`, `fcmp` are those two
    tolerance tests (ANY functions: the theorem does not depend on floating-point arithmetic). -/
theorem compare_ok_iff (dcmp : UInt64 → UInt64 → Bool) (fcmp : UInt32 → UInt32 → Bool) (a b : Msa) (ha : a.Shape) (hb : b.Shape) :
    compare dcmp fcmp a b = .ok ↔ (SameMandatory dcmp a b ∧ SameOptional fcmp a b) :=
  (compare_spec dcmp fcmp a b ha hb).2

/-- ... otherwise it returns `eslFAIL`: no other status, and no read outside an array (`fault` unreachable) -/
theorem compare_ok_or_fail (dcmp : UInt64 → UInt64 → Bool) (fcmp : UInt32 → UInt32 → Bool) (a b : Msa) (ha : a.Shape) (hb : b.Shape) :
    compare dcmp fcmp a b = .ok ∨ compare dcmp fcmp a b = .efail :=
  (compare_spec dcmp fcmp a b ha hb).1

theorem compareMandatory_ok_iff (dcmp : UInt64 → UInt64 → Bool) (a b : Msa) (ha : a.Shape) (hb : b.Shape) :
    compareMandatory dcmp a b = .ok ↔ SameMandatory dcmp a b :=
  (compareMandatory_spec dcmp a b ha hb).2

theorem compareOptional_ok_iff (fcmp : UInt32 → UInt32 → Bool) (a b : Msa) (ha : a.Shape) (hb : b.Shape) (hn : a.nseq = b.nseq) :
    compareOptional fcmp a b = .ok ↔ SameOptional fcmp a b :=
  (compareOptional_spec fcmp a b ha hb hn).2

/-- what `esl_msa_Compare` does NOT look at ("unparsed Stockholm markup is not compared" — and the alphabet pointer):
    comments, GF, GS, GC, GR and `abc` of either argument are irrelevant -/
theorem compare_ignores_unparsed (dcmp : UInt64 → UInt64 → Bool) (fcmp : UInt32 → UInt32 → Bool) (a b : Msa)
    (abc' : Option Abc) (c' : List Bytes) (gf' : List (Bytes × Bytes)) (gs' gr' : TagTable) (gc' : List (Bytes × Bytes)) :
    compare dcmp fcmp a { b with abc := abc', comment := c', gf := gf', gs := gs', gc := gc', gr := gr' } = compare dcmp fcmp a b ∧
    compare dcmp fcmp { a with abc := abc', comment := c', gf := gf', gs := gs', gc := gc', gr := gr' } b = compare dcmp fcmp a b :=
  ⟨compare_congr dcmp fcmp _ _ _ _ rfl rfl, compare_congr dcmp fcmp _ _ _ _ rfl rfl⟩

/-- reflexive whenever the two tolerance tests are (both C functions accept `x, x` for every finite, infinite or NaN `x`) -/
theorem compare_refl (dcmp : UInt64 → UInt64 → Bool) (fcmp : UInt32 → UInt32 → Bool) (hd : ∀ x, dcmp x x = true)
    (hf : ∀ x, fcmp x x = true) (a : Msa) (ha : a.Shape) : compare dcmp fcmp a a = .ok :=
  (compare_spec dcmp fcmp a a ha ha).2.2
    ⟨⟨rfl, rfl, rfl, rfl, rfl, fun _ _ => hd _⟩,
     ⟨rfl, rfl, rfl, rfl, rfl, rfl, rfl, rfl, rfl, rfl, rfl, rfl, rfl, rfl, rfl, fun _ _ _ => hf _⟩⟩

/-- a clone compares equal; a well-formed alignment with its 6 cutoff slots has the shape `esl_msa_Compare` needs -/
theorem compare_clone (dcmp : UInt64 → UInt64 → Bool) (fcmp : UInt32 → UInt32 → Bool) (hd : ∀ x, dcmp x x = true)
    (hf : ∀ x, fcmp x x = true) (m : Msa) (wf : m.WF) (hc : m.cutoff.length = 6) (hs : m.cutset.length = 6) :
    compare dcmp fcmp m (clone m) = .ok :=
  compare_refl dcmp fcmp hd hf m (wf.shape hc hs)

/-! ## esl_msa_Hash / esl_msa_CheckUniqueNames, esl_msa_Checksum -/

/-- `esl_msa_Hash` returns `eslOK` iff the sequence names are pairwise distinct, `eslEDUP` otherwise;
    `esl_msa_CheckUniqueNames` returns `eslOK` / `eslFAIL` on the same condition -/
theorem hashNames_ok_iff (m : Msa) :
    (hashNames m = .ok ↔ (m.sqname.take m.nseq).Nodup) ∧ (hashNames m = .ok ∨ hashNames m = .edup) ∧
    (checkUniqueNames m = .ok ↔ (m.sqname.take m.nseq).Nodup) ∧ (checkUniqueNames m = .ok ∨ checkUniqueNames m = .efail) := by
  refine ⟨hashNames_ok_iff' m, hashNames_cases m, ?_, ?_⟩
  · rw [checkUniqueNames_eq, ← hashNames_ok_iff' m]
    rcases hashNames_cases m with h | h <;> simp [h]
  · rw [checkUniqueNames_eq]
    rcases hashNames_cases m with h | h <;> simp [h]

/-- `esl_msa_Checksum` on a well-formed alignment is Jenkins' one-at-a-time hash of the concatenated rows and of nothing
    else (names, weights, annotation and even the row boundaries are invisible to it) -/
theorem checksum_is_hash_of_rows (m : Msa) (wf : m.WF) :
    checksum m = jenkinsFinal (m.rows.flatten.foldl (fun v c => jenkinsStep v (cellWord m.isDigital c)) 0) :=
  checksum_flat m wf

/-- hence every operation that keeps the rows and the mode keeps the checksum (Clone, SetDefaultWeights, annotation edits) -/
theorem checksum_congr (m m' : Msa) (wf : m.WF) (wf' : m'.WF) (hr : m.rows = m'.rows) (hd : m.isDigital = m'.isDigital) :
    checksum m = checksum m' := by
  rw [checksum_flat m wf, checksum_flat m' wf', hr, hd]

/-! ## esl_msa_ConvertDegen2X, esl_msa_SymConvert, esl_msa_SetDefaultWeights, esl_msa_ReasonableRF -/

/-- `esl_msa_ConvertDegen2X` on a digital alignment: only the rows change; the alignment stays well formed; in every row
    the residue / gap / missing-data pattern is unchanged (the ungapped sequence keeps its length and register), a cell
    that was not a degenerate code is untouched, and the only degenerate code left is the unknown residue (`X` / `N`);
    applying it twice is applying it once -/
theorem convertDegen2X_spec (m : Msa) (a : Abc) (wf : m.WF) (hd : m.isDigital = true) (habc : m.abc = some a) (hk : a.degenOk) :
    convertDegen2X m = { msa := { m with rows := m.rows.map (degen2XRow a) }, st := .ok } ∧
    ({ m with rows := m.rows.map (degen2XRow a) } : Msa).WF ∧
    (∀ r ∈ m.rows, (degen2XRow a r).length = r.length ∧
      (degen2XRow a r).map a.xIsResidue = r.map a.xIsResidue ∧ (degen2XRow a r).map a.xIsGap = r.map a.xIsGap ∧
      (degen2XRow a r).map a.xIsMissing = r.map a.xIsMissing ∧
      (∀ i, a.xIsDegenerate (r.getD i 0) = false → (degen2XRow a r).getD i 0 = r.getD i 0) ∧
      (∀ y ∈ degen2XRow a r, a.xIsDegenerate y = true → y = a.xUnknown) ∧
      degen2XRow a (degen2XRow a r) = degen2XRow a r) := by
  refine ⟨by simp [convertDegen2X, hd, habc], convertDegen2X_wf a hk m wf hd, fun r _ => ?_⟩
  obtain ⟨p1, p2, p3⟩ := degen2XRow_pattern a hk r
  refine ⟨degen2XRow_length a r, p1, p2, p3, ?_, ?_, degen2XRow_idem a r⟩
  · intro i hi
    by_cases hlt : i < r.length
    · simp only [degen2XRow, List.getD_eq_getElem?_getD, List.getElem?_map, List.getElem?_eq_getElem hlt, Option.map_some,
        Option.getD_some] at hi ⊢
      exact (degen2X_cell a hk _).2.2.2.2.1 hi
    · simp [degen2XRow, List.getD_eq_getElem?_getD, List.getElem?_eq_none (Nat.le_of_not_lt hlt)]
  · intro y hy hdeg
    simp only [degen2XRow, List.mem_map] at hy
    obtain ⟨x, _, rfl⟩ := hy
    exact (degen2X_cell a hk x).2.2.2.1 hdeg

/-- the three generated alphabets have that shape -/
theorem generated_degen_ok : Gen.rnaAbc.degenOk ∧ Gen.dnaAbc.degenOk ∧ Gen.aminoAbc.degenOk := by
  unfold Abc.degenOk; decide

theorem convertDegen2X_text (m : Msa) (hd : m.isDigital = false) : convertDegen2X m = { msa := m, st := .einval, exc := true } := by
  simp [convertDegen2X, hd]

/-- `esl_msa_SymConvert` on a text alignment with a valid symbol pair (`|newsyms| = |oldsyms|` or `|newsyms| = 1`):
    only the rows change, each cell through `symConvChar` — a character not in `oldsyms` is kept, a character of
    `oldsyms` becomes the symbol at the position of its FIRST occurrence (or the single new symbol); the alignment stays
    well formed -/
theorem symConvert_spec (m : Msa) (olds news : Bytes) (wf : m.WF) (hd : m.isDigital = false)
    (hlen : olds.length = news.length ∨ news.length = 1) (hn : ∀ x ∈ news, x ≠ 0) :
    symConvert m olds news = { msa := { m with rows := m.rows.map (fun r => r.map (symConvChar olds news)) }, st := .ok } ∧
    ({ m with rows := m.rows.map (fun r => r.map (symConvChar olds news)) } : Msa).WF ∧
    (∀ c, c ∉ olds → symConvChar olds news c = c) ∧
    (∀ c ∈ olds, ∃ k, k < olds.length ∧ olds.getD k 0 = c ∧ (∀ j, j < k → olds.getD j 0 ≠ c) ∧
      symConvChar olds news c = if news.length == 1 then news.getD 0 0 else news.getD k 0) := by
  refine ⟨?_, ?_, symConvChar_not_mem olds news, symConvChar_mem olds news⟩
  · have hc : ¬ ((olds.length ≠ news.length && news.length ≠ 1) = true) := by
      rcases hlen with h | h <;> simp [h]
    simp only [symConvert, hd, Bool.false_eq_true, if_false, hc, symConvert_rows m wf olds news]
  · have ht : Msa.rowTerm { m with rows := m.rows.map (fun r => r.map (symConvChar olds news)) } = 0 := by
      simp [Msa.rowTerm, Msa.isDigital] at hd ⊢; simp [hd]
    have ht0 : m.rowTerm = 0 := by simp [Msa.rowTerm, hd]
    refine { wf with rows_len := by simp [wf.rows_len], rows_ok := ?_ }
    intro r hr
    simp only [List.mem_map] at hr
    obtain ⟨r0, hr0, rfl⟩ := hr
    have h0 := wf.rows_ok r0 hr0
    refine ⟨by simp [h0.1], ?_⟩
    intro c hc
    simp only [List.mem_map] at hc
    obtain ⟨x, hx, rfl⟩ := hc
    rw [ht]
    have := h0.2 x hx
    rw [ht0] at this
    exact symConvChar_ne_zero olds news hn hlen x this

/-- the two `eslEINVAL` exits leave the alignment untouched -/
theorem symConvert_rejects (m : Msa) (olds news : Bytes)
    (h : m.isDigital = true ∨ (olds.length ≠ news.length ∧ news.length ≠ 1)) :
    symConvert m olds news = { msa := m, st := .einval, exc := true } := by
  rcases h with h | h
  · simp [symConvert, h]
  · by_cases hd : m.isDigital = true
    · simp [symConvert, hd]
    · simp [symConvert, hd, h.1, h.2]

/-- `esl_msa_SetDefaultWeights`: every weight 1.0, `eslMSA_HASWGTS` down, mode and everything else unchanged -/
theorem setDefaultWeights_resets (m : Msa) :
    (setDefaultWeights m).wgt = List.replicate m.wgt.length 0x3ff0000000000000 ∧
    (setDefaultWeights m).hasWgts = false ∧ (setDefaultWeights m).isDigital = m.isDigital ∧
    setDefaultWeights m = { m with wgt := (setDefaultWeights m).wgt, flags := (setDefaultWeights m).flags } :=
  setDefaultWeights_spec m

/-- `esl_msa_ReasonableRF(msa, symfrac, FALSE, rfline)` (on DIGITAL alignments the C code used to store through NULL;
    repaired by 945fd6c, regression case in the corpus). PARTIAL: only `useconsseq = FALSE` is modelled, and only the
    shape of the line is stated (the threshold test itself is floating-point arithmetic, L0): the line has `alen`
    characters, each `x` or `.`, and a column in which no sequence has a residue is `.` for every threshold — for any
    weight arithmetic in which `0 > 0` is false -/
theorem reasonableRF_shape_partial {W : Type} (A : WArith W) (hA : ∀ t, A.isCons A.zero t = false) (m : Msa) (wgt : List W)
    (rf : Bytes) (h : reasonableRF A m wgt = some rf) :
    rf.length = m.alen ∧ (∀ c ∈ rf, c = 0x78 ∨ c = 0x2e) ∧
    ∀ isRes isGapLike, rfPreds m = some (isRes, isGapLike) → ∀ apos, apos < m.alen →
      (∀ r ∈ m.rows.take m.nseq, isRes (r.getD apos 0) = false) → rf.getD apos 0 = 0x2e := by
  unfold reasonableRF at h
  cases hp : rfPreds m with
  | none => rw [hp] at h; cases h
  | some pr =>
    obtain ⟨isRes, isGapLike⟩ := pr
    rw [hp] at h
    simp only [Option.some.injEq] at h
    subst h
    refine ⟨by simp, ?_, ?_⟩
    · intro c hc
      simp only [List.mem_map] at hc
      obtain ⟨apos, _, rfl⟩ := hc
      exact rfColumn_cases A isRes isGapLike _
    · intro isRes' isGapLike' he apos hlt hall
      simp only [Option.some.injEq, Prod.mk.injEq] at he
      obtain ⟨e1, e2⟩ := he
      subst e1; subst e2
      simp only [List.getD_eq_getElem?_getD, List.getElem?_map, List.getElem?_range hlt, Option.map_some, Option.getD_some]
      apply rfColumn_no_residue A hA
      intro cw hcw
      have := List.of_mem_zip hcw
      have h1 := this.1
      simp only [List.mem_map] at h1
      obtain ⟨r, hr, hre⟩ := h1
      rw [← hre]
      simpa [List.getD_eq_getElem?_getD] using hall r hr

/-- `esl_msa_ReasonableRF(msa, symfrac, TRUE, rfline)` on a DIGITAL alignment (`esl_abc_FCount` into binary32 counts,
    `esl_vec_FArgMax`; modelled line by line and compared exactly). PARTIAL: shape only (the threshold and the counts are
    floating-point arithmetic, L0): `alen` characters, each `.` or the symbol of one of the `K` canonical residues — never
    a gap, a degenerate or any other symbol. (`reasonableRFCons` is the digital branch; the whole repaired function, text branch
    included, is `reasonableRFConsX`: theorems `reasonableRF_cons_*` below.) -/
theorem reasonableRF_cons_shape_partial {W C : Type} (A : WArith W) (B : CArith W C) (m : Msa) (a : Abc) (wgt : List W)
    (rf : Bytes) (habc : m.abc = some a) (hK : 0 < a.K) (h : reasonableRFCons A B m wgt = some rf) :
    rf.length = m.alen ∧ ∀ c ∈ rf, c = 0x2e ∨ ∃ k, k < a.K ∧ c = a.sym.getD k 0 :=
  reasonableRFCons_shape A B m a wgt rf habc hK h

/-! ## esl_msa_ReasonableRF(useconsseq = TRUE) as repaired by 0c757a4: every branch -/

/-- no alphabet (every text-mode alignment the library builds; the former NULL dereference): `eslEINVAL`, for every
    alignment, threshold and weight vector -/
theorem reasonableRF_cons_no_alphabet {W C : Type} (A : WArith W) (B : CArith W C) (m : Msa) (wgt : List W) :
    reasonableRFConsX A B m none wgt = .einval := rfl

/-- on a digital alignment the repaired function is the digital branch modelled before -/
theorem reasonableRF_cons_digital {W C : Type} (A : WArith W) (B : CArith W C) (m : Msa) (wgt : List W)
    (hd : m.isDigital = true) :
    reasonableRFConsX A B m m.abc wgt = (match reasonableRFCons A B m wgt with | some rf => .ok rf | none => .einval) :=
  reasonableRFConsX_digital A B m wgt hd

/-- THE TEXT BRANCH (caller-supplied alphabet `a` on a text-mode alignment): when every cell of the first `alen` columns is
    a letter of the alphabet or one of its gap characters, the call succeeds and writes EXACTLY the line the digital branch
    writes for the digitized alignment (`esl_msa_Digitize`'s result) — same columns (`rfline[apos]`, not `apos-1`), counts
    reset per column — for every threshold, weight vector and arithmetic. -/
theorem reasonableRF_cons_text_eq_digital {W C : Type} (A : WArith W) (B : CArith W C) (a : Abc) (m : Msa) (wgt : List W)
    (htext : m.isDigital = false) (hok : RfTextOk a m) (hvalid : (m.rows.all fun r => (r.take m.alen).all a.cIsValid) = true) :
    (digitize a m).st = .ok ∧
    reasonableRFConsX A B m (some a) wgt = reasonableRFConsX A B (digitize a m).msa (digitize a m).msa.abc wgt := by
  have hd : digitize a m = { msa := { m with rows := m.rows.map (fun r => r.map a.digit), abc := some a, flags := m.flags ||| flagDigital },
                             st := .ok } := by
    unfold digitize; simp [htext, hvalid]
  refine ⟨by rw [hd], ?_⟩
  rw [reasonableRFConsX_text_eq_digital A B a m wgt htext hok, hd]
  have hdig : Msa.isDigital { m with rows := m.rows.map (fun r => r.map a.digit), abc := some a, flags := m.flags ||| flagDigital } = true := by
    have h0 : m.flags / 2 % 2 = 0 := by
      have := htext; unfold Msa.isDigital at this
      have h2 : m.flags / 2 % 2 < 2 := Nat.mod_lt _ (by decide)
      simp only [beq_eq_false_iff_ne, ne_eq] at this; omega
    unfold Msa.isDigital
    simp only [flagDigital, beq_iff_eq]
    have : (m.flags ||| 2) / 2 % 2 = 1 := by
      have e : (m.flags ||| 2).testBit 1 = true := by rw [Nat.testBit_or]; simp; right; decide
      rw [Nat.testBit_eq_decide_div_mod_eq] at e
      simpa using e
    exact this
  simp only [reasonableRFConsX, hdig, if_true]

/-- the text branch never leaves its arrays on such an alignment, and the line has `alen` characters, each `.` or the
    symbol of one of the `K` canonical residues -/
theorem reasonableRF_cons_text_shape {W C : Type} (A : WArith W) (B : CArith W C) (a : Abc) (hK : 0 < a.K) (m : Msa) (wgt : List W)
    (htext : m.isDigital = false) (hok : RfTextOk a m) :
    ∃ rf, reasonableRFConsX A B m (some a) wgt = .ok rf ∧ rf.length = m.alen ∧
      ∀ c ∈ rf, c = 0x2e ∨ ∃ k, k < a.K ∧ c = a.sym.getD k 0 := by
  refine ⟨_, reasonableRFConsX_text_eq_digital A B a m wgt htext hok, by simp, ?_⟩
  intro c hc
  simp only [List.mem_map] at hc
  obtain ⟨apos, _, rfl⟩ := hc
  exact rfDigitalColumn_shape A B a hK _

/-- the hypothesis of the two theorems above holds for the alphabets of the working tree (tables regenerated on every run):
    a 7-bit character that the alphabet accepts, other than its missing-data and nonresidue characters, is a letter standing
    for a residue or a non-letter standing for a gap -/
theorem generated_text_cells :
    ∀ a ∈ [Gen.rnaAbc, Gen.dnaAbc, Gen.aminoAbc], ∀ n, n < 128 → a.cIsValid (UInt8.ofNat n) = true →
      (a.digit (UInt8.ofNat n)).toNat < a.Kp - 2 → RfTextCell a (UInt8.ofNat n) := by
  unfold RfTextCell
  decide +kernel

/-- THE THRESHOLD, exactly (ℚ in place of `double`; the comparison the code makes: `r > 0. && r / totwgt >= symfrac`):
    a column is a consensus column iff the total weight `R` of the sequences with a residue is positive and
    `R / (R + G) >= symfrac`, `G` the weight of the sequences with a gap; missing-data cells of a digital alignment are in
    neither sum (text mode: every non-letter is a gap). -/
theorem reasonableRF_threshold_exact (symfrac : Rat) (isRes isGapLike : UInt8 → Bool) (cells : List (UInt8 × Rat)) :
    rfColumn (ratArith symfrac) isRes isGapLike cells =
      if 0 < wsum isRes cells ∧ symfrac ≤ wsum isRes cells / wsum (fun c => isRes c || isGapLike c) cells then 0x78 else 0x2e :=
  rfColumn_rat symfrac isRes isGapLike cells

/-- rows `ACGU` / `AC-U` (the former witness of the NULL dereference), weights 1, symfrac 1/2, exact arithmetic: no
    alphabet: `eslEINVAL`; alphabet lent: `ACGU` — column 2 has occupancy exactly 1/2 and `>=` makes it consensus; symfrac
    51/100 makes it `.` -/
def exRfText : Msa := { Msa.create 2 4 with rows := [[0x41, 0x43, 0x47, 0x55], [0x41, 0x43, 0x2d, 0x55]] }
example : reasonableRFConsX (ratArith (1/2)) ratCArith exRfText none [1, 1] = .einval := rfl
example : reasonableRFConsX (ratArith (1/2)) ratCArith exRfText (some Gen.rnaAbc) [1, 1] = .ok [0x41, 0x43, 0x47, 0x55] ∧
    reasonableRFConsX (ratArith (51/100)) ratCArith exRfText (some Gen.rnaAbc) [1, 1] = .ok [0x41, 0x43, 0x2e, 0x55] := by
  decide +kernel
example : (exRfText.rows.all fun r => (r.take exRfText.alen).all Gen.rnaAbc.cIsValid) = true := by decide
example : exRfText.isDigital = false ∧ RfTextOk Gen.rnaAbc exRfText := by
  refine ⟨rfl, ?_⟩
  unfold RfTextOk RfTextCell
  decide +kernel
/-- a letter outside the lent alphabet: `esl_abc_FCount` would read `abc->degen[255]`: the model faults (caller contract) -/
example : reasonableRFConsX (ratArith (1/2)) ratCArith { exRfText with rows := [[0x41, 0x45, 0x47, 0x55], [0x41, 0x43, 0x2d, 0x55]] }
    (some Gen.rnaAbc) [1, 1] = .fault := by decide +kernel
example : rfColumn (ratArith (1/2)) isAlpha (fun _ => true) [(0x47, 1), (0x2d, 1)] = 0x78 ∧
    wsum isAlpha [(0x47, (1 : Rat)), (0x2d, 1)] = 1 := by decide +kernel


/-! ## Histories -/

/-- the table facts the transformations use hold for the three alphabets of the working tree -/
theorem generated_abcOk : AbcOk Gen.rnaAbc ∧ AbcOk Gen.dnaAbc ∧ AbcOk Gen.aminoAbc := by
  refine ⟨⟨by decide, by decide, ?_, by decide, by decide, generated_degen_ok.1⟩,
    ⟨by decide, by decide, ?_, by decide, by decide, generated_degen_ok.2.1⟩,
    ⟨by decide, by decide, ?_, by decide, by decide, generated_degen_ok.2.2⟩⟩
  · intro compl h; cases h; decide
  · intro compl h; cases h; decide
  · intro compl h; cases h

/-- FOR EVERY HISTORY: whatever chain (any length, any order, mode switches in between) of successful
    `esl_msa_ColumnSubset` (hence MinimGaps / NoGaps / their text twins, `compaction_entry_points`),
    `esl_msa_RemoveBrokenBasepairs`, `esl_msa_Set*` / `esl_msa_Format*` (successful or refused), `esl_msa_Digitize`,
    `esl_msa_Textize`, `esl_msa_ReverseComplement`, `esl_msa_FlushLeftInserts`, `esl_msa_MarkFragments_old`,
    `esl_msa_SequenceSubset`, `esl_msa_ConvertDegen2X`, `esl_msa_SymConvert` and `esl_msa_SetDefaultWeights` calls is applied to a well-formed alignment (with distinct GS tags and distinct GR tags: what the
    keyhash of `esl_msa_AddGS` / `AppendGR` guarantees; the invariant carries it along), the alignment reached is
    well formed, a digital one carries an alphabet and only valid codes of it, a text one carries no alphabet. -/
theorem history_wellformed (m m' : Msa) (h : Steps m m') (inv : Inv m) :
    m'.WF ∧ (m'.isDigital = true → ∃ a, AbcOk a ∧ m'.abc = some a ∧ m'.codesOk a) ∧ (m'.isDigital = false → m'.abc = none) :=
  let i := steps_inv m m' h inv
  ⟨i.wf, i.dig, i.txt⟩

/-- a text alignment built by the library satisfies the invariant -/
theorem exRfText_inv : Inv exRfText := by
  refine ⟨?_, fun h => absurd h (by decide), fun _ => rfl, by decide, by decide⟩
  constructor <;> simp [exRfText, Msa.create, strOk, optOk, Msa.rowTerm, Msa.isDigital]

/-- a history of four transformations with two mode switches: digitize, drop column 1, reverse-complement, textize -/
example : Steps exRfText
    (textize (reverseComplement (columnSubset (digitize Gen.rnaAbc exRfText).msa [true, false, true, true]).msa).msa).msa :=
  .tail _ _ _ (.tail _ _ _ (.tail _ _ _ (.tail _ _ _ (.refl _)
    (.digitize _ _ generated_abcOk.1 (by decide))) (.col _ _ (by decide) (by decide))) (.revcomp _ (by decide))) (.textize _ (by decide))
example : (textize (reverseComplement (columnSubset (digitize Gen.rnaAbc exRfText).msa [true, false, true, true]).msa).msa).msa.rows =
    [[0x41, 0x43, 0x55], [0x41, 0x2d, 0x55]] := by decide

/-- HISTORIES WITH MARKUP: the chain may also contain `esl_msa_AddComment`, `esl_msa_AddGF`, `esl_msa_AddGS` (any tag,
    any sequence `i < nseq`, repeated tags concatenated), `esl_msa_AppendGR` (the value must complete its slot to exactly
    `alen` characters: `appendGR_contract_of_empty` — an empty slot and one full line) and `esl_msa_AppendGC` (a new tag,
    one full line) — what the Stockholm parser does between the transformations — in any order and number: the alignment
    reached is still well formed, the rebuilt tables keep their width `nseq`, tags stay distinct. -/
theorem history_wellformed_markup (m m' : Msa) (h : Steps2 m m') (inv : Inv m) :
    m'.WF ∧ (m'.isDigital = true → ∃ a, AbcOk a ∧ m'.abc = some a ∧ m'.codesOk a) ∧ (m'.isDigital = false → m'.abc = none) ∧
    (m'.gs.map (·.1)).Nodup ∧ (m'.gr.map (·.1)).Nodup :=
  let i := steps2_inv m m' h inv
  ⟨i.wf, i.dig, i.txt, i.gsND, i.grND⟩

/-- a GR line and a repeated GS tag added to a text alignment, then digitize and drop a column -/
example : Steps2 exRfText
    (columnSubset (digitize Gen.rnaAbc
      { ({ ({ exRfText with gr := appendGR 2 [] [0x50] 1 [0x31, 0x32, 0x33, 0x34] } : Msa) with gs := addGS 2 [] [0x44] 0 [0x78] } : Msa) with
          gs := addGS 2 (addGS 2 [] [0x44] 0 [0x78]) [0x44] 0 [0x79] }).msa [true, false, true, true]).msa :=
  .tail _ _ _ (.tail _ _ _ (.tail _ _ _ (.tail _ _ _ (.tail _ _ _ (.refl _)
    (.markup _ _ (.appendGR exRfText [0x50] 1 [0x31, 0x32, 0x33, 0x34] (by decide)
      (appendGR_contract_of_empty 4 [0x50] 1 _ [] rfl ⟨rfl, by decide⟩))))
    (.markup _ _ (.addGS _ [0x44] 0 [0x78] (by decide))))
    (.markup _ _ (.addGS _ [0x44] 0 [0x79] (by decide))))
    (.op _ _ (.digitize _ _ generated_abcOk.1 (by decide))))
    (.op _ _ (.col _ _ (by decide) (by decide)))
example : addGS 2 (addGS 2 [] [0x44] 0 [0x78]) [0x44] 0 [0x79] = [([0x44], [some [0x78, 0x0a, 0x79], none])] := by decide

/-! ## esl_msa_Expand -/

/-- `esl_msa_Expand` on a growable alignment all of whose per-sequence arrays have `sqalloc` slots: afterwards every array
    (names, weights, lengths, rows, each optional SS/SA/PP/accession/description array that exists, every `#=GS` and `#=GR`
    row) has exactly `2 * sqalloc` slots; the first `sqalloc` slots are the old ones, unchanged and in place — names,
    weights and annotation stay attached to their sequence —; every new slot is NULL / weight `-1.0` / length 0; an optional
    array that did not exist is not created; `k` calls give `2^k * sqalloc` slots. -/
theorem expand_spec (g : Grow) (wf : g.Wf) :
    (expandG g).Wf ∧ (expandG g).sqalloc = 2 * g.sqalloc ∧
    (expandG g).sqname.take g.sqalloc = g.sqname ∧ (expandG g).wgt.take g.sqalloc = g.wgt ∧
    (expandG g).sqlen.take g.sqalloc = g.sqlen ∧ (expandG g).rows.take g.sqalloc = g.rows ∧
    (expandG g).sqname.drop g.sqalloc = List.replicate g.sqalloc none ∧
    (expandG g).wgt.drop g.sqalloc = List.replicate g.sqalloc wgtUnset ∧
    (expandG g).sqlen.drop g.sqalloc = List.replicate g.sqalloc 0 ∧
    (∀ l, g.sqacc = some l → (expandG g).sqacc = some (l ++ List.replicate g.sqalloc none)) ∧
    (∀ l, g.sqdesc = some l → (expandG g).sqdesc = some (l ++ List.replicate g.sqalloc none)) ∧
    (∀ l, g.ss = some l → (expandG g).ss = some (l ++ List.replicate g.sqalloc (none, 0))) ∧
    (g.ss = none → (expandG g).ss = none) ∧ (g.sa = none → (expandG g).sa = none) ∧ (g.pp = none → (expandG g).pp = none) ∧
    (g.sqacc = none → (expandG g).sqacc = none) ∧ (g.sqdesc = none → (expandG g).sqdesc = none) ∧
    (expandG g).gs = g.gs.map (fun t => (t.1, t.2 ++ List.replicate g.sqalloc none)) ∧
    (expandG g).gr = g.gr.map (fun t => (t.1, t.2 ++ List.replicate g.sqalloc none)) ∧
    ∀ k, (expandN k g).Wf ∧ (expandN k g).sqalloc = 2 ^ k * g.sqalloc := by
  have e : 2 * g.sqalloc - g.sqalloc = g.sqalloc := by omega
  refine ⟨expandG_wf g wf, rfl, padTo_take _ _ _ _ wf.sqname, padTo_take _ _ _ _ wf.wgt, padTo_take _ _ _ _ wf.sqlen,
    padTo_take _ _ _ _ wf.rows, ?_, ?_, ?_, ?_, ?_, ?_, ?_, ?_, ?_, ?_, ?_, ?_, ?_, fun k => ⟨expandN_wf k g wf, expandN_sqalloc k g⟩⟩
  · rw [show (expandG g).sqname = padTo g.sqalloc (2 * g.sqalloc) none g.sqname from rfl, padTo_drop _ _ _ _ wf.sqname, e]
  · rw [show (expandG g).wgt = padTo g.sqalloc (2 * g.sqalloc) wgtUnset g.wgt from rfl, padTo_drop _ _ _ _ wf.wgt, e]
  · rw [show (expandG g).sqlen = padTo g.sqalloc (2 * g.sqalloc) 0 g.sqlen from rfl, padTo_drop _ _ _ _ wf.sqlen, e]
  · intro l h; simp [expandG, h, padTo, e]
  · intro l h; simp [expandG, h, padTo, e]
  · intro l h; simp [expandG, h, padTo, e]
  · intro h; simp [expandG, h]
  · intro h; simp [expandG, h]
  · intro h; simp [expandG, h]
  · intro h; simp [expandG, h]
  · intro h; simp [expandG, h]
  · simp [expandG, padTo, e]
  · simp [expandG, padTo, e]

example : (Grow.create 16).Wf ∧ (expandN 2 (Grow.create 16)).sqalloc = 64 ∧ (expandG (Grow.create 1)).wgt = [wgtUnset, wgtUnset] :=
  ⟨Grow.create_wf 16, by decide, by decide⟩

/-! ## esl_msa_Set{Name,Desc,Accession,Author,SeqName,SeqAccession,SeqDescription} and their esl_msa_Format* twins -/

/-- every call of the family — whatever the field, index, string and length, successful or refused — leaves the residues,
    weights, every aligned annotation line, per-sequence SS/SA/PP, cutoffs, comments and all unparsed markup untouched,
    keeps the shape, leaves the name / accession / description of every OTHER sequence where it was, and a refused call
    (index `>= nseq`, NULL sequence name) changes nothing at all -/
theorem setStr_frame (m : Msa) (hs : m.Shape) (f : StrField) (idx : Int) (s : Option Bytes) (n : Int) :
    SameButStrings (setStr m f idx s n).msa m ∧ (setStr m f idx s n).msa.Shape ∧
    ((setStr m f idx s n).st ≠ .ok → (setStr m f idx s n).msa = m) ∧
    ∀ j : Nat, (j : Int) ≠ idx →
      (setStr m f idx s n).msa.sqname[j]? = m.sqname[j]? ∧ (setStr m f idx s n).msa.sqacc[j]? = m.sqacc[j]? ∧
      (setStr m f idx s n).msa.sqdesc[j]? = m.sqdesc[j]? :=
  ⟨setStr_same m f idx s n, setStr_shape m hs f idx s n, setStr_fail_unchanged m f idx s n, setStr_others m f idx s n⟩

/-- a successful call stores exactly the first `n` bytes of the string (`n < 0`: all of it; NULL erases an optional field) -/
theorem setStr_stores (m : Msa) (hs : m.Shape) (f : StrField) (idx : Int) (s : Option Bytes) (n : Int)
    (h : (setStr m f idx s n).st = .ok) : strFieldGet (setStr m f idx s n).msa f idx.toNat = dupMem s n :=
  setStr_sets m hs f idx s n h

/-- `esl_msa_Format…` is `esl_msa_Set…` of the formatted string wherever it succeeds (its refusals carry `eslEINVAL`
    instead of `eslEINCONCEIVABLE`), with the same frame -/
theorem formatStr_is_setStr (m : Msa) (hs : m.Shape) (f : StrField) (idx : Int) (out : Option Bytes) :
    ((formatStr m f idx out).st = .ok → formatStr m f idx out = setStr m f idx out (-1)) ∧
    SameButStrings (formatStr m f idx out).msa m ∧ (formatStr m f idx out).msa.Shape ∧
    ((formatStr m f idx out).st ≠ .ok → (formatStr m f idx out).msa = m) ∧
    ∀ j : Nat, (j : Int) ≠ idx →
      (formatStr m f idx out).msa.sqname[j]? = m.sqname[j]? ∧ (formatStr m f idx out).msa.sqacc[j]? = m.sqacc[j]? ∧
      (formatStr m f idx out).msa.sqdesc[j]? = m.sqdesc[j]? :=
  ⟨formatStr_eq_setStr m f idx out, formatStr_same m f idx out, formatStr_shape m hs f idx out,
   formatStr_fail_unchanged m f idx out, formatStr_others m f idx out⟩

/-- "... all yield a well-formed alignment": every call of the Set / Format family, successful or refused, keeps the
    alignment well formed -/
theorem setStr_wellformed (m : Msa) (wf : m.WF) (f : StrField) (idx : Int) (s : Option Bytes) (n : Int) :
    (setStr m f idx s n).msa.WF ∧ (formatStr m f idx s).msa.WF :=
  ⟨setStr_wf m wf f idx s n, formatStr_wf m wf f idx s⟩

def exSet : Msa := { Msa.create 2 4 with sqname := [[0x61], [0x62]] }
example : exSet.Shape := by constructor <;> decide
example : (setStr exSet .sqname 1 (some [0x78, 0x79, 0x7a]) 2).msa.sqname = [[0x61], [0x78, 0x79]] ∧
    (setStr exSet .sqname 2 (some [0x78]) (-1)).st = .einconceivable ∧ (formatStr exSet .sqname 2 (some [0x78])).st = .einval ∧
    (setStr exSet .sqname 0 none (-1)).st = .einconceivable ∧
    (setStr exSet .sqdesc 0 (some [0x64]) (-1)).msa.sqdesc = [some [0x64], none] ∧
    (formatStr exSet .acc 0 (some [0x50, 0x46, 0x7c, 0x2d, 0x37])).msa.acc = some [0x50, 0x46, 0x7c, 0x2d, 0x37] := by decide

/-! ## esl_msa_Sample -/

/-- FOR EVERY SOURCE OF RANDOM WORDS AND EVERY STATE OF IT (in particular every seed of the Mersenne Twister the driver
    runs, bit-identical to `esl_random.c`): an alignment returned by `esl_msa_Sample(rng, abc, max_nseq, max_alen, &msa)`
    is a well-formed digital alignment over `abc` with `1..max_nseq` sequences and `1..max_alen` columns; every cell is a
    residue or the gap code (never missing data, the nonresidue code or the sentinel); every name is 1..30 graphic
    characters not starting with punctuation; the RF line consists of `x` and `.`; all weights are 1.0 and HASWGTS is
    down. (`nofuel`: a rejection loop of `esl_rnd_Roll` / of the name sampler outlasting the fuel — probability 0 in the
    limit — is the only other outcome: the model has no fault.) -/
theorem sample_wellformed {σ : Type} (next : σ → UInt32 × σ) (fu : Nat) (a : Abc) (hKp : a.Kp ≤ 255) (hK : a.K + 3 ≤ a.Kp)
    (maxNseq maxAlen : Nat) (s : σ) (m : Msa) (s' : σ) (h : sampleMsa next fu a maxNseq maxAlen s = .ok (m, s')) :
    m.WF ∧ m.isDigital = true ∧ m.abc = some a ∧ (1 ≤ m.nseq ∧ m.nseq ≤ maxNseq) ∧ (1 ≤ m.alen ∧ m.alen ≤ maxAlen) ∧
    (∀ r ∈ m.rows, ∀ x ∈ r, x.toNat < a.Kp - 2) ∧ (∀ nm ∈ m.sqname, NameOk nm) ∧
    (∃ rf, m.rf = some rf ∧ ∀ c ∈ rf, c = 0x78 ∨ c = 0x2e) ∧
    m.wgt = List.replicate m.nseq 0x3ff0000000000000 ∧ m.hasWgts = false :=
  sampleMsa_spec next fu a hKp hK maxNseq maxAlen s m s' h

/-- the side conditions hold for the generated alphabets; a constant source (every word 2^31) gives a 1 x 1 alignment -/
example : (Gen.rnaAbc.Kp ≤ 255 ∧ Gen.rnaAbc.K + 3 ≤ Gen.rnaAbc.Kp) ∧ (Gen.dnaAbc.Kp ≤ 255 ∧ Gen.dnaAbc.K + 3 ≤ Gen.dnaAbc.Kp) ∧
    (Gen.aminoAbc.Kp ≤ 255 ∧ Gen.aminoAbc.K + 3 ≤ Gen.aminoAbc.Kp) := by decide
example : (match sampleMsa (fun (s : Nat) => ((0x80000000 : UInt32), s + 1)) 5 Gen.rnaAbc 1 1 0 with
    | .ok (m, s) => (m.rows, m.sqname, m.rf, s)
    | _ => ([], [], none, 0)) = ([[2]], [List.replicate 16 0x50], some [0x78], 23) := by decide +kernel

/-! ## esl_sq.c: conversions of a sequence object taken from an alignment -/

/-- text -> digital -> text on a sequence (`esl_sq_Digitize`, `esl_sq_Textize`): every residue becomes the canonical
    symbol of its code, and name, accession, description, source, secondary structure, extra residue markup and
    coordinates are untouched -/
theorem sq_text_digital_text (a : Abc) (q : Sq) (hq : q.abc = none) (hv : q.f.seq.all a.cIsValid = true) :
    (sqDigitize a q).st = .ok ∧ (sqTextize (sqDigitize a q).sq).st = .ok ∧
    (sqTextize (sqDigitize a q).sq).sq = { q with f := { q.f with seq := q.f.seq.map (fun c => a.sym.getD (a.digit c).toNat 0) } } := by
  cases q with
  | mk f abc start stop =>
    simp only at hq hv
    subst hq
    simp [sqDigitize, sqTextize, hv, List.map_map, Function.comp_def]

/-- an invalid character: `eslEINVAL`, the sequence untouched -/
theorem sq_digitize_rejects (a : Abc) (q : Sq) (hq : q.abc = none) (hv : q.f.seq.all a.cIsValid = false) :
    sqDigitize a q = { sq := q, st := .einval } := by
  simp [sqDigitize, hq, hv]

/-- digital -> text -> digital on a sequence is the identity -/
theorem sq_digital_text_digital (a : Abc) (q : Sq) (hq : q.abc = some a) (ht : a.symInmapOk) (hc : ∀ x ∈ q.f.seq, x.toNat < a.Kp) :
    (sqTextize q).st = .ok ∧ sqDigitize a (sqTextize q).sq = { sq := q, st := .ok } := by
  cases q with
  | mk f abc start stop =>
    simp only at hq hc
    subst hq
    have hvalid : (f.seq.map (fun x => a.sym.getD x.toNat 0)).all a.cIsValid = true := by
      simp only [List.all_eq_true, List.mem_map]
      rintro _ ⟨x, hx, rfl⟩
      exact (digit_sym a ht x (hc x hx)).2
    have hback : (f.seq.map (fun x => a.sym.getD x.toNat 0)).map a.digit = f.seq := by
      rw [List.map_map]
      apply map_id_of_forall
      intro x hx
      exact (digit_sym a ht x (hc x hx)).1
    refine ⟨rfl, ?_⟩
    simp only [sqTextize, sqDigitize, hvalid, hback, Bool.not_true, Bool.false_eq_true, if_false]

/-- `esl_sq_ReverseComplement`: same number of residues, `start` and `end` swapped, structure and extra residue markup
    discarded ("revcomp invalidates ..."), everything else kept; in digital mode applying it twice restores the residues -/
theorem sq_revcomp_spec (q : Sq) (h : (sqReverseComplement q).st ≠ .eincompat) :
    (sqReverseComplement q).sq.f.seq.length = q.f.seq.length ∧
    (sqReverseComplement q).sq.start = q.stop ∧ (sqReverseComplement q).sq.stop = q.start ∧
    (sqReverseComplement q).sq.f.ss = none ∧ (sqReverseComplement q).sq.f.xr = [] ∧
    (sqReverseComplement q).sq.f.name = q.f.name ∧ (sqReverseComplement q).sq.f.acc = q.f.acc ∧
    (sqReverseComplement q).sq.f.desc = q.f.desc ∧ (sqReverseComplement q).sq.f.source = q.f.source ∧
    (sqReverseComplement q).sq.abc = q.abc := by
  unfold sqReverseComplement at h ⊢
  cases hq : q.abc with
  | none => simp
  | some a =>
    simp only [hq] at h ⊢
    cases hc : a.complement with
    | none => simp [hc] at h
    | some compl => simp [revcompRow]

theorem sq_revcomp_twice (a : Abc) (compl : List UInt8) (q : Sq) (hq : q.abc = some a) (hcompl : a.complement = some compl)
    (hinv : a.complInvolutive compl) (hc : ∀ x ∈ q.f.seq, x.toNat < a.Kp) :
    (sqReverseComplement q).st = .ok ∧ (sqReverseComplement (sqReverseComplement q).sq).st = .ok ∧
    (sqReverseComplement (sqReverseComplement q).sq).sq = { q with f := { q.f with ss := none, xr := [] } } := by
  cases q with
  | mk f abc start stop =>
    simp only at hq hc
    subst hq
    simp [sqReverseComplement, hcompl, revcompRow_twice a compl hinv f.seq hc]

/-- the text-mode complement `switch` is an involution on the symbols it knows, except `U -> A -> T` (and `u`) -/
theorem textCompl_involutive : ∀ n, n < 256 → ∀ d, textCompl (UInt8.ofNat n) = some d →
    (n ≠ 0x55 ∧ n ≠ 0x75 → textCompl d = some (UInt8.ofNat n)) := by decide +kernel

/-- text mode: the status is `eslEINVAL` exactly when some character is outside the `switch` (it becomes `N`) -/
theorem sq_revcomp_text_status (q : Sq) (hq : q.abc = none) :
    (sqReverseComplement q).st = (if q.f.seq.any (fun c => (textCompl c).isNone) then .einval else .ok) ∧
    (sqReverseComplement q).sq.f.seq = (q.f.seq.map fun c => (textCompl c).getD 0x4e).reverse := by
  simp [sqReverseComplement, hq]

/-- `esl_sq_ConvertDegen2X` touches only the residues, through the same map as `esl_msa_ConvertDegen2X` -/
theorem sq_convertDegen2X_spec (a : Abc) (q : Sq) (hq : q.abc = some a) :
    sqConvertDegen2X q = { sq := { q with f := { q.f with seq := degen2XRow a q.f.seq } }, st := .ok } := by
  simp [sqConvertDegen2X, hq]

/-! ## non-vacuity -/

def exMsa : Msa :=
  { Msa.create 2 4 with rows := [[0x41, 0x2d, 0x43, 0x47], [0x41, 0x2d, 0x2d, 0x47]],
                        ss_cons := some [0x3c, 0x2e, 0x2e, 0x3e], rf := some [0x78, 0x2e, 0x78, 0x78],
                        gc := [([0x66], [0x31, 0x32, 0x33, 0x34])] }

example : (columnSubset exMsa [true, false, true, true]).msa.rows = [[0x41, 0x43, 0x47], [0x41, 0x2d, 0x47]] := by decide
example : (columnSubset exMsa [true, false, true, true]).msa.gc = [([0x66], [0x31, 0x33, 0x34])] := by decide
example : removesOnlyGaps (· == 0x2d) [true, false, true, true] [0x41, 0x2d, 0x43, 0x47] := by simp [removesOnlyGaps]
example : (sequenceSubset exMsa [false, true]).toOption.map (·.rows) = some [[0x41, 0x2d, 0x2d, 0x47]] := by decide
example : wuss2ct [0x3c, 0x41, 0x3e, 0x61] = some [0, 3, 4, 1, 2] := by decide
example : (ct2wuss [0, 8, 3, 2, 0, 6, 5, 0, 1]).toOption = some [0x28, 0x3c, 0x3e, 0x2c, 0x3c, 0x3e, 0x2c, 0x29] ∧
    wuss2ct [0x28, 0x3c, 0x3e, 0x2c, 0x3c, 0x3e, 0x2c, 0x29] = some [0, 8, 3, 2, 0, 6, 5, 0, 1] := by decide
example : balancedClass 0 [0x3c, 0x41, 0x3e, 0x61] ∧ balancedClass 1 [0x3c, 0x41, 0x3e, 0x61] := by
  unfold balancedClass; decide
example : ¬ balancedClass 0 [0x3c, 0x29] := by unfold balancedClass; decide
example : (List.range 6).map (newPos [true, false, true, true, false]) = [0, 1, 2, 2, 3, 4] := by decide
example : (ct2wuss [0, 3, 4, 1, 2]).toOption = some [0x3c, 0x41, 0x3e, 0x61] := by decide

/-- a digital RNA alignment with a PSEUDOKNOTTED SS_cons `<A>a.` : dropping column 2 (the `A`) keeps only the `<>` pair -/
def exPk : Msa :=
  { Msa.create 1 5 with rows := [[0, 1, 2, 3, 0]], flags := 2, abc := some Gen.rnaAbc,
                        ss_cons := some [0x3c, 0x41, 0x3e, 0x61, 0x2e] }
example : (columnSubset exPk [true, false, true, true, true]).st = .ok ∧
    (columnSubset exPk [true, false, true, true, true]).msa.ss_cons = some [0x3c, 0x3e, 0x3a, 0x3a] := by decide
def exMsa2 : Msa := { exMsa with sqname := [[0x61], [0x62]] }
example : exMsa2.Shape := by constructor <;> decide
example : compare (· == ·) (· == ·) exMsa2 exMsa2 = .ok ∧
    compare (· == ·) (· == ·) exMsa2 { exMsa2 with rf := none } = .efail ∧
    compare (· == ·) (· == ·) exMsa2 { exMsa2 with gc := [] } = .ok := by decide
example : hashNames exMsa2 = .ok ∧ hashNames { exMsa2 with sqname := [[0x61], [0x61]] } = .edup := by decide
example : symConvChar [0x2e, 0x2d, 0x2e] [0x78, 0x79, 0x7a] 0x2e = 0x78 ∧ symConvChar [0x2e, 0x2d] [0x2a] 0x2d = 0x2a := by decide
example : degen2XRow Gen.rnaAbc [0, 4, 5, 15, 16, 17] = [0, 4, 15, 15, 16, 17] := by decide
def exFetched : Fetched :=
  { name := [0x73], acc := [], desc := [], source := [], seq := [0x41, 0x63, 0x55], ss := some [0x3c, 0x2e, 0x3e], xr := [] }
def exSq : Sq := { f := exFetched, abc := none, start := 1, stop := 3 }
example : exSq.f.seq.all Gen.rnaAbc.cIsValid = true := by decide
example : (sqReverseComplement exSq).sq.f.seq = [0x41, 0x67, 0x54] ∧ (sqReverseComplement exSq).st = .ok := by decide
example : (sqTextize (sqDigitize Gen.rnaAbc exSq).sq).sq.f.seq = [0x41, 0x43, 0x55] := by decide
example : checksum exMsa = checksum { exMsa with sqname := [[0x61], [0x62]], rf := none } := by decide

/-- both outcomes of `ct2wuss_total` occur, and the bound of `ct2wuss_ok_of_few_pk` is attained: `<A>` x 27 followed by
    `a` x 27 has exactly 27 pseudoknotted pairs, each needing its own letter, and is refused with "not enough letters" -/
def w27 : Bytes := (List.replicate 27 [0x3c, 0x41, 0x3e]).flatten ++ List.replicate 27 0x61
example : (wuss2ct w27).isSome = true ∧ lettersExhausted ((wuss2ct w27).getD []) = true := by decide +kernel
example : (pkPairs ((wuss2ct w27).getD [])).length = 27 := by decide +kernel
/-- ... and is not necessary: one pseudoknot helix of 27 pairs crossing `<>` has 27 pseudoknotted pairs, takes one letter
    and is converted (to itself) -/
def h27 : Bytes := [0x3c] ++ List.replicate 27 0x41 ++ [0x3e] ++ List.replicate 27 0x61
example : (pkPairs ((wuss2ct h27).getD [])).length = 27 ∧ (ct2wuss ((wuss2ct h27).getD [])).toOption = some h27 := by decide +kernel
example : CtOk 4 [0, 3, 4, 1, 2] ∧ (pkPairs [0, 3, 4, 1, 2]).length ≤ 26 :=
  ⟨wuss2ct_ctOk [0x3c, 0x41, 0x3e, 0x61] _ (by decide), by decide⟩

example : markFragments { exMsa with rows := [[0x41, 0x2d, 0x43, 0x47], [0x2d, 0x41, 0x43, 0x2d], [0x2d, 0x2d, 0x2d, 0x2d]] } 3
    = [false, true, true] := by decide
example : ∃ c, Gen.rnaAbc.complement = some c ∧ (∀ x, x < Gen.rnaAbc.Kp → (c.getD x 0).toNat < Gen.rnaAbc.Kp) ∧ Gen.rnaAbc.Kp ≤ 255 :=
  ⟨_, rfl, by decide, by decide⟩
example : (reverseComplement exPk).st = .ok ∧ (reverseComplement exPk).msa.rows = [[3, 0, 1, 2, 3]] ∧
    (reverseComplement exPk).msa.ss_cons = some [0x2e, 0x41, 0x3c, 0x61, 0x3e] := by decide

example : (ct2simplewuss [0, 3, 4, 1, 2]).toOption = some [0x3c, 0x41, 0x3e, 0x61] := by decide

example : wuss2ct (wussReverse [0x3c, 0x41, 0x3e, 0x61, 0x2e]) = some (mirrorCt 5 [0, 3, 4, 1, 2, 0]) ∧
    mirrorCt 5 [0, 3, 4, 1, 2, 0] = [0, 0, 4, 5, 2, 3] := by decide

/-- a letter-free balanced line has no pseudoknotted pair at all; `<A>a` has one -/
example : FewPkSS [0x3c, 0x3c, 0x2e, 0x3e, 0x3e] := ⟨[0, 5, 4, 0, 2, 1], by decide, by decide⟩
example : FewPkSS [0x3c, 0x41, 0x3e, 0x61] := ⟨[0, 3, 4, 1, 2], by decide, by decide⟩

example : (wussFull [0x3c, 0x41, 0x3e, 0x61, 0x2e]).toOption = some [0x3c, 0x41, 0x3e, 0x61, 0x3a] ∧
    wuss2ct (wussNopseudo [0x3c, 0x41, 0x3e, 0x61, 0x2e]) = some [0, 3, 0, 1, 0, 0] := by decide

example : flushIP Gen.rnaAbc [0x78, 0x2e, 0x2e, 0x78] 4 5 0 0 [0, 4, 1, 2] = [0, 1, 4, 2] ∧
    flushRow Gen.rnaAbc [0x78, 0x2e, 0x2e, 0x78] 4 [0, 4, 1, 2] = [0, 1, 4, 2] := by decide

example : kh2wuss (wuss2kh [0x28, 0x41, 0x2c, 0x29, 0x61]) = [0x3c, 0x41, 0x2e, 0x3e, 0x61] := by decide

end EaselModel.Props.C15
