import EaselModel.Msafile.AfaLemmas
import EaselModel.Msafile.AfaWritable
import EaselModel.Msafile.AfaIdem
import EaselModel.Msafile.Digitize
/-! # C03 — writing an alignment and reading it back preserves it: property theorems

Full statement (properties.jsonl): for every well-formed alignment, writing it in any of the ten formats and reading the
output back (declared or autodetected format, text or digital) yields an alignment equal to the original in everything
the format can represent; output is deterministic, accepted by the reader, and re-writing the re-read alignment
reproduces the same bytes.

PARTIAL at this revision: the theorems cover aligned FASTA (declared format), text mode and digital mode with the
generated amino/DNA/RNA alphabets, for alignments of ANY size. `AfaTextWritable` / `AfaDigitalWritable` say what AFA
can carry: ≥ 1 sequence, ≥ 1 column, names without blank/tab/NUL, descriptions that do not start with a blank and hold
no NUL, no LF inside / CR at the end of a name line, no separate accessions (AFA prints them into the description),
text residues graphic and not '>', digital rows well formed. `afaProject` is what AFA represents: names, rows,
descriptions, default weights.  The other nine formats and autodetection are covered by the harness monitors only. -/
namespace EaselModel.Props.C03
open EaselModel.Msafile

/-- the writer is a function of the alignment (no hidden state, no dependence on anything else) -/
theorem afa_write_deterministic (abc : Option Abc) (m₁ m₂ : Msa) (h : m₁ = m₂) : afaWrite abc m₁ = afaWrite abc m₂ := by rw [h]

/-- **AFA round trip, text mode**: `read (write m) = ok (project m)`, nothing left unread -/
theorem afa_roundtrip_text (m : Msa) (h : AfaTextWritable m) :
    afaRead (afaCfg none) (splitLines (afaWrite none m)) = (.ok (afaProject (afaCfg none) m), []) :=
  afaRead_write none (afaCfg none) id m (afaTextWritable_writable m h)

/-- **AFA round trip, digital mode** (amino, DNA, RNA): the digital rows come back code for code, sentinels included -/
theorem afa_roundtrip_digital (a : Abc) (ha : a = abcAmino ∨ a = abcDna ∨ a = abcRna) (m : Msa) (h : AfaDigitalWritable a m) :
    afaRead (afaCfg (some a)) (splitLines (afaWrite (some a) m)) = (.ok (afaProject (afaCfg (some a)) m), []) := by
  have hs : afaDigSymOk a = true := by
    rcases ha with h | h | h <;> subst h
    · exact afaDigSymOk_amino
    · exact afaDigSymOk_dna
    · exact afaDigSymOk_rna
  exact afaRead_write (some a) (afaCfg (some a)) (afaEnc a) m (afaDigitalWritable_writable a hs m h)

/-- the general form both are instances of (any alphabet / input map for which written symbols map back) -/
theorem afa_roundtrip (abc : Option Abc) (cfg : Cfg) (enc : UInt8 → UInt8) (m : Msa) (h : AfaWritable abc cfg enc m) :
    afaRead cfg (splitLines (afaWrite abc m)) = (.ok (afaProject cfg m), []) :=
  afaRead_write abc cfg enc m h

/-- library-written AFA output is accepted by the reader, holds exactly one alignment (the next read is eslEOF), and the
    alignment read back is well formed -/
theorem afa_write_accepted (m : Msa) (h : AfaTextWritable m) :
    (∃ m', (afaRead (afaCfg none) (splitLines (afaWrite none m))).1 = .ok m' ∧ m'.wellFormed = true) ∧
    (afaRead (afaCfg none) (afaRead (afaCfg none) (splitLines (afaWrite none m))).2).1 = .eof := by
  have hr := afa_roundtrip_text m h
  have hg := afaRead_good (afaCfg none) ⟨by decide +kernel, by decide +kernel⟩ (splitLines (afaWrite none m))
  rw [hr] at hg
  refine ⟨⟨_, by rw [hr], hg⟩, ?_⟩
  rw [hr]
  simp [afaRead, runLines, afaFinish]

/-- what AFA preserves: the names and the aligned rows, exactly -/
theorem afa_preserves_names_rows (m : Msa) (h : AfaTextWritable m) :
    (afaProject (afaCfg none) m).names = m.names ∧ (afaProject (afaCfg none) m).alen = m.alen ∧
    ∀ i, i < m.nseq → (afaProject (afaCfg none) m).aseq.getD i [] = m.aseq.getD i [] := by
  refine ⟨rfl, rfl, ?_⟩
  intro i hi
  simp [afaProject, afaCfg, Cfg.digital, Msa.stored, h.dig, List.getD_eq_getElem?_getD, hi]

/-- **re-writing the re-read alignment reproduces the same bytes** (text mode): `write (read (write m)) = write m` -/
theorem afa_rewrite_same_text (m : Msa) (h : AfaTextWritable m) :
    ∃ m', (afaRead (afaCfg none) (splitLines (afaWrite none m))).1 = .ok m' ∧ afaWrite none m' = afaWrite none m :=
  ⟨afaProject (afaCfg none) m, by rw [afa_roundtrip_text m h], afaWrite_project_text m h⟩

/-- … and in digital mode (amino, DNA, RNA) -/
theorem afa_rewrite_same_digital (a : Abc) (ha : a = abcAmino ∨ a = abcDna ∨ a = abcRna) (m : Msa) (h : AfaDigitalWritable a m) :
    ∃ m', (afaRead (afaCfg (some a)) (splitLines (afaWrite (some a) m))).1 = .ok m' ∧ afaWrite (some a) m' = afaWrite (some a) m := by
  have hs : afaDigSymOk a = true := by
    rcases ha with h | h | h <;> subst h
    · exact afaDigSymOk_amino
    · exact afaDigSymOk_dna
    · exact afaDigSymOk_rna
  exact ⟨afaProject (afaCfg (some a)) m, by rw [afa_roundtrip_digital a ha m h], afaWrite_project_digital a hs m h⟩

/-! ## non-vacuity -/

/-- names "a", "bb"; rows "AC-GT", "ACGTT"; description "d e" on the first -/
def exMsa : Msa :=
  { alen := 5, names := [[97], [98, 98]], aseq := [[65, 67, 45, 71, 84], [65, 67, 71, 84, 84]],
    wgt := [.dflt, .dflt], sqdesc := some [some [100, 32, 101], none] }

example : afaRead (afaCfg none) (splitLines (afaWrite none exMsa)) = (.ok (afaProject (afaCfg none) exMsa), []) := by decide +kernel
example : (afaProject (afaCfg none) exMsa).sqdesc = exMsa.sqdesc := by decide +kernel
example : afaWrite none (afaProject (afaCfg none) exMsa) = afaWrite none exMsa := by decide +kernel

end EaselModel.Props.C03
