import EaselModel.Msafile.AfaLemmas
import EaselModel.Msafile.AbcTables
import EaselModel.Msafile.Digitize
namespace EaselModel.Props.C03
open EaselModel.Msafile

/-- the writer is a function of the alignment: equal alignments give equal bytes -/
theorem afa_write_deterministic (abc : Option Abc) (m₁ m₂ : Msa) (h : m₁ = m₂) : afaWrite abc m₁ = afaWrite abc m₂ := by rw [h]

end EaselModel.Props.C03
