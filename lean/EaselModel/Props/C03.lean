import EaselModel.Msafile.AfaLemmas
import EaselModel.Msafile.AfaWritable
import EaselModel.Msafile.AfaIdem
import EaselModel.Msafile.Digitize
import EaselModel.Msafile.PhylipWritable
import EaselModel.Msafile.PhylipIdem
import EaselModel.Msafile.PhylipLemmas
import EaselModel.Msafile.WriteLemmas
import EaselModel.Msafile.StoWritable
import EaselModel.Msafile.StockholmLemmas
/-! # C03 — writing an alignment and reading it back preserves it: property theorems

Full statement (properties.jsonl): for every well-formed alignment, writing it in any of the ten formats and reading the
output back (declared or autodetected format, text or digital) yields an alignment equal to the original in everything
the format can represent; output is deterministic, accepted by the reader, and re-writing the re-read alignment
reproduces the same bytes.

PARTIAL at this revision: the round-trip theorems cover aligned FASTA, PHYLIP (sequential and interleaved) and Pfam / multi-block Stockholm for alignments that carry names and rows only (declared format), text mode and digital mode with the
generated amino/DNA/RNA alphabets, for alignments of ANY size. `AfaTextWritable` / `AfaDigitalWritable` say what AFA
can carry: ≥ 1 sequence, ≥ 1 column, names without blank/tab/NUL, descriptions that do not start with a blank and hold
no NUL, no LF inside / CR at the end of a name line, no separate accessions (AFA prints them into the description),
text residues graphic and not '>', digital rows well formed. `afaProject` is what AFA represents: names, rows,
descriptions, default weights.  The other nine formats and autodetection are covered by the harness monitors only. -/
namespace EaselModel.Props.C03
open EaselModel.Msafile

/-- the writer is a function of the alignment (no hidden state, no dependence on anything else) -/
theorem afa_write_deterministic (abc : Option Abc) (m₁ m₂ : Msa) (h : m₁ = m₂) : afaWrite abc m₁ = afaWrite abc m₂ := by rw [h]

/-- **AFA round trip, text mode**: `read (write m) = ok (project m)`, nothing left unread -/
theorem afa_roundtrip_text (m : Msa) (h : AfaTextWritable m) :
    afaRead (afaCfg none) (splitLines (afaWrite none m)) = (.ok (afaProject (afaCfg none) m), []) :=
  afaRead_write none (afaCfg none) id m (afaTextWritable_writable m h)

/-- **AFA round trip, digital mode** (amino, DNA, RNA): the digital rows come back code for code, sentinels included -/
theorem afa_roundtrip_digital (a : Abc) (ha : a = abcAmino ∨ a = abcDna ∨ a = abcRna) (m : Msa) (h : AfaDigitalWritable a m) :
    afaRead (afaCfg (some a)) (splitLines (afaWrite (some a) m)) = (.ok (afaProject (afaCfg (some a)) m), []) := by
  have hs : afaDigSymOk a = true := by
    rcases ha with h | h | h <;> subst h
    · exact afaDigSymOk_amino
    · exact afaDigSymOk_dna
    · exact afaDigSymOk_rna
  exact afaRead_write (some a) (afaCfg (some a)) (afaEnc a) m (afaDigitalWritable_writable a hs m h)

/-- the general form both are instances of (any alphabet / input map for which written symbols map back) -/
theorem afa_roundtrip (abc : Option Abc) (cfg : Cfg) (enc : UInt8 → UInt8) (m : Msa) (h : AfaWritable abc cfg enc m) :
    afaRead cfg (splitLines (afaWrite abc m)) = (.ok (afaProject cfg m), []) :=
  afaRead_write abc cfg enc m h

/-- library-written AFA output is accepted by the reader, holds exactly one alignment (the next read is eslEOF), and the
    alignment read back is well formed -/
theorem afa_write_accepted (m : Msa) (h : AfaTextWritable m) :
    (∃ m', (afaRead (afaCfg none) (splitLines (afaWrite none m))).1 = .ok m' ∧ m'.wellFormed = true) ∧
    (afaRead (afaCfg none) (afaRead (afaCfg none) (splitLines (afaWrite none m))).2).1 = .eof := by
  have hr := afa_roundtrip_text m h
  have hg := afaRead_good (afaCfg none) ⟨by decide +kernel, by decide +kernel⟩ (splitLines (afaWrite none m))
  rw [hr] at hg
  refine ⟨⟨_, by rw [hr], hg⟩, ?_⟩
  rw [hr]
  simp [afaRead, runLines, afaFinish]

/-- what AFA preserves: the names and the aligned rows, exactly -/
theorem afa_preserves_names_rows (m : Msa) (h : AfaTextWritable m) :
    (afaProject (afaCfg none) m).names = m.names ∧ (afaProject (afaCfg none) m).alen = m.alen ∧
    ∀ i, i < m.nseq → (afaProject (afaCfg none) m).aseq.getD i [] = m.aseq.getD i [] := by
  refine ⟨rfl, rfl, ?_⟩
  intro i hi
  simp [afaProject, afaCfg, Cfg.digital, Msa.stored, h.dig, List.getD_eq_getElem?_getD, hi]

/-- **re-writing the re-read alignment reproduces the same bytes** (text mode): `write (read (write m)) = write m` -/
theorem afa_rewrite_same_text (m : Msa) (h : AfaTextWritable m) :
    ∃ m', (afaRead (afaCfg none) (splitLines (afaWrite none m))).1 = .ok m' ∧ afaWrite none m' = afaWrite none m :=
  ⟨afaProject (afaCfg none) m, by rw [afa_roundtrip_text m h], afaWrite_project_text m h⟩

/-- … and in digital mode (amino, DNA, RNA) -/
theorem afa_rewrite_same_digital (a : Abc) (ha : a = abcAmino ∨ a = abcDna ∨ a = abcRna) (m : Msa) (h : AfaDigitalWritable a m) :
    ∃ m', (afaRead (afaCfg (some a)) (splitLines (afaWrite (some a) m))).1 = .ok m' ∧ afaWrite (some a) m' = afaWrite (some a) m := by
  have hs : afaDigSymOk a = true := by
    rcases ha with h | h | h <;> subst h
    · exact afaDigSymOk_amino
    · exact afaDigSymOk_dna
    · exact afaDigSymOk_rna
  exact ⟨afaProject (afaCfg (some a)) m, by rw [afa_roundtrip_digital a ha m h], afaWrite_project_digital a hs m h⟩

/-! ## non-vacuity -/

/-- names "a", "bb"; rows "AC-GT", "ACGTT"; description "d e" on the first -/
def exMsa : Msa :=
  { alen := 5, names := [[97], [98, 98]], aseq := [[65, 67, 45, 71, 84], [65, 67, 71, 84, 84]],
    wgt := [.dflt, .dflt], sqdesc := some [some [100, 32, 101], none] }

example : afaRead (afaCfg none) (splitLines (afaWrite none exMsa)) = (.ok (afaProject (afaCfg none) exMsa), []) := by decide +kernel
example : (afaProject (afaCfg none) exMsa).sqdesc = exMsa.sqdesc := by decide +kernel
example : afaWrite none (afaProject (afaCfg none) exMsa) = afaWrite none exMsa := by decide +kernel

/-! ## ===== PHYLIP (sequential `phylips`, interleaved `phylip`) — begin =====

`PhylipTextWritable` / `PhylipDigitalWritable` say what PHYLIP can carry through the strict reader (name width 10):
≥ 1 sequence, ≥ 1 column, `nseq`, `alen` ≤ INT32_MAX (the header is parsed by `esl_mem_strtoi32`), names not empty and
made of graphic characters (no blank), text residues upper-case letters / `-` / `*` / `?` (the characters the writer's
rectification leaves alone and the text input map sends to themselves), digital rows well formed.
`phylipProject` is what PHYLIP represents: names CUT TO TEN CHARACTERS (`%-10.10s`), the aligned rows, default weights. -/

theorem phylip_write_deterministic (seq : Bool) (abc : Option Abc) (m₁ m₂ : Msa) (h : m₁ = m₂) :
    phylipWrite seq abc m₁ = phylipWrite seq abc m₂ := by rw [h]

/-- `" %d"` is read back by `esl_mem_strtoi32` -/
theorem phylip_strtoi32_natDec (n : Nat) (h1 : 1 ≤ n) (hn : n ≤ 2147483647) : strtoi32 (natDec n) = .ok (n : Int) :=
  strtoi32_natDec n h1 hn

theorem phyDigSymOk_of (a : Abc) (ha : a = abcAmino ∨ a = abcDna ∨ a = abcRna) : phyDigSymOk a = true := by
  rcases ha with h | h | h <;> subst h
  · exact phyDigSymOk_amino
  · exact phyDigSymOk_dna
  · exact phyDigSymOk_rna

/-- **sequential PHYLIP round trip, text mode** -/
theorem phylips_roundtrip_text (m : Msa) (h : PhylipTextWritable m) :
    phylipRead true (phylipCfg none) (splitLines (phylipWrite true none m)) = (.ok (phylipProject (phylipCfg none) m), []) :=
  phylipsRead_write none (phylipCfg none) id _ m (phylipTextWritable_writable m h)

/-- **sequential PHYLIP round trip, digital mode** (amino, DNA, RNA) -/
theorem phylips_roundtrip_digital (a : Abc) (ha : a = abcAmino ∨ a = abcDna ∨ a = abcRna) (m : Msa) (h : PhylipDigitalWritable a m) :
    phylipRead true (phylipCfg (some a)) (splitLines (phylipWrite true (some a) m))
      = (.ok (phylipProject (phylipCfg (some a)) m), []) :=
  phylipsRead_write (some a) (phylipCfg (some a)) (phyEnc a) _ m (phylipDigitalWritable_writable a (phyDigSymOk_of a ha) m h)

/-- the general form -/
theorem phylips_roundtrip (abc : Option Abc) (cfg : Cfg) (enc : UInt8 → UInt8) (txt : Nat → Bytes) (m : Msa)
    (h : PhylipWritable abc cfg enc txt m) :
    phylipRead true cfg (splitLines (phylipWrite true abc m)) = (.ok (phylipProject cfg m), []) :=
  phylipsRead_write abc cfg enc txt m h

/-- library-written sequential PHYLIP is accepted, holds exactly one alignment (the next read is eslEOF), and the
    alignment read back is well formed -/
theorem phylips_write_accepted (m : Msa) (h : PhylipTextWritable m) :
    (∃ m', (phylipRead true (phylipCfg none) (splitLines (phylipWrite true none m))).1 = .ok m' ∧ m'.wellFormed = true) ∧
    (phylipRead true (phylipCfg none) (phylipRead true (phylipCfg none) (splitLines (phylipWrite true none m))).2).1 = .eof := by
  have hr := phylips_roundtrip_text m h
  have hg := phylipRead_good true (phylipCfg none) ⟨by decide +kernel, by decide +kernel⟩ (splitLines (phylipWrite true none m))
  rw [hr] at hg
  refine ⟨⟨_, by rw [hr], hg⟩, ?_⟩
  rw [hr]
  rfl

/-- **interleaved PHYLIP round trip, text mode** (first block with names, later blocks behind an empty line without) -/
theorem phylip_roundtrip_text (m : Msa) (h : PhylipTextWritable m) :
    phylipRead false (phylipCfg none) (splitLines (phylipWrite false none m)) = (.ok (phylipProject (phylipCfg none) m), []) :=
  phylipRead_write none (phylipCfg none) id _ m (phylipTextWritable_writable m h)

/-- **interleaved PHYLIP round trip, digital mode** (amino, DNA, RNA) -/
theorem phylip_roundtrip_digital (a : Abc) (ha : a = abcAmino ∨ a = abcDna ∨ a = abcRna) (m : Msa) (h : PhylipDigitalWritable a m) :
    phylipRead false (phylipCfg (some a)) (splitLines (phylipWrite false (some a) m))
      = (.ok (phylipProject (phylipCfg (some a)) m), []) :=
  phylipRead_write (some a) (phylipCfg (some a)) (phyEnc a) _ m (phylipDigitalWritable_writable a (phyDigSymOk_of a ha) m h)

/-- the general form -/
theorem phylip_roundtrip (abc : Option Abc) (cfg : Cfg) (enc : UInt8 → UInt8) (txt : Nat → Bytes) (m : Msa)
    (h : PhylipWritable abc cfg enc txt m) :
    phylipRead false cfg (splitLines (phylipWrite false abc m)) = (.ok (phylipProject cfg m), []) :=
  phylipRead_write abc cfg enc txt m h

/-- library-written interleaved PHYLIP is accepted, holds exactly one alignment, and the alignment read back is well formed -/
theorem phylip_write_accepted (m : Msa) (h : PhylipTextWritable m) :
    (∃ m', (phylipRead false (phylipCfg none) (splitLines (phylipWrite false none m))).1 = .ok m' ∧ m'.wellFormed = true) ∧
    (phylipRead false (phylipCfg none) (phylipRead false (phylipCfg none) (splitLines (phylipWrite false none m))).2).1 = .eof := by
  have hr := phylip_roundtrip_text m h
  have hg := phylipRead_good false (phylipCfg none) ⟨by decide +kernel, by decide +kernel⟩ (splitLines (phylipWrite false none m))
  rw [hr] at hg
  refine ⟨⟨_, by rw [hr], hg⟩, ?_⟩
  rw [hr]
  rfl

/-- **re-writing the re-read alignment reproduces the same bytes**, sequential and interleaved, text mode -/
theorem phylip_rewrite_same_text (seq : Bool) (m : Msa) (h : PhylipTextWritable m) :
    ∃ m', (phylipRead seq (phylipCfg none) (splitLines (phylipWrite seq none m))).1 = .ok m' ∧
      phylipWrite seq none m' = phylipWrite seq none m := by
  refine ⟨phylipProject (phylipCfg none) m, ?_, phylipWrite_project_text seq m h⟩
  cases seq
  · rw [phylip_roundtrip_text m h]
  · rw [phylips_roundtrip_text m h]

/-- … and in digital mode (amino, DNA, RNA) -/
theorem phylip_rewrite_same_digital (seq : Bool) (a : Abc) (ha : a = abcAmino ∨ a = abcDna ∨ a = abcRna) (m : Msa)
    (h : PhylipDigitalWritable a m) :
    ∃ m', (phylipRead seq (phylipCfg (some a)) (splitLines (phylipWrite seq (some a) m))).1 = .ok m' ∧
      phylipWrite seq (some a) m' = phylipWrite seq (some a) m := by
  refine ⟨phylipProject (phylipCfg (some a)) m, ?_, phylipWrite_project_digital seq a m h⟩
  cases seq
  · rw [phylip_roundtrip_digital a ha m h]
  · rw [phylips_roundtrip_digital a ha m h]

/-- what PHYLIP preserves: names up to ten characters, and the aligned rows exactly -/
theorem phylip_preserves_names_rows (m : Msa) (h : PhylipTextWritable m) :
    (phylipProject (phylipCfg none) m).names = m.names.map (·.take 10) ∧ (phylipProject (phylipCfg none) m).alen = m.alen ∧
    ∀ i, i < m.nseq → (phylipProject (phylipCfg none) m).aseq.getD i [] = m.aseq.getD i [] := by
  refine ⟨phylipProject_names _ m, rfl, ?_⟩
  intro i hi
  simp [phylipProject, phylipCfg, Cfg.digital, Msa.stored, h.dig, List.getD_eq_getElem?_getD, hi]

/-! ### non-vacuity: 2 sequences, 61 columns (two lines per sequence), one name longer than ten characters -/

def exPhy : Msa :=
  { alen := 61, names := [[115, 101, 113, 49], [97, 98, 99, 100, 101, 102, 103, 104, 105, 106, 107, 108]],
    aseq := [List.replicate 30 65 ++ [45] ++ List.replicate 30 67, List.replicate 60 71 ++ [63]],
    wgt := [.dflt, .dflt] }

theorem exPhy_writable : PhylipTextWritable exPhy :=
  { dig := rfl, n1 := by decide, alen1 := by decide, nmax := by decide, amax := by decide
    name_ok := by unfold phyNameOk; decide +kernel
    row_ok := by decide +kernel }

example : phylipRead true (phylipCfg none) (splitLines (phylipWrite true none exPhy))
    = (.ok (phylipProject (phylipCfg none) exPhy), []) := by decide +kernel
example : phylipRead false (phylipCfg none) (splitLines (phylipWrite false none exPhy))
    = (.ok (phylipProject (phylipCfg none) exPhy), []) := by decide +kernel
example : (phylipProject (phylipCfg none) exPhy).names = [[115, 101, 113, 49], [97, 98, 99, 100, 101, 102, 103, 104, 105, 106]] := by
  decide +kernel

/-- the same alignment digitised with the DNA alphabet (A=0 C=1 G=2 gap=4 missing=17) -/
def exPhyDna : Msa :=
  { digital := true, kp := 18, alen := 61, names := exPhy.names,
    ax := [255 :: (List.replicate 30 0 ++ [4] ++ List.replicate 30 1) ++ [255], 255 :: (List.replicate 60 2 ++ [17]) ++ [255]],
    wgt := [.dflt, .dflt] }

theorem exPhyDna_writable : PhylipDigitalWritable abcDna exPhyDna :=
  { dig := rfl, n1 := by decide, alen1 := by decide, nmax := by decide, amax := by decide
    name_ok := by unfold phyNameOk; decide +kernel
    row_ok := by decide +kernel }

example : phylipRead false (phylipCfg (some abcDna)) (splitLines (phylipWrite false (some abcDna) exPhyDna))
    = (.ok (phylipProject (phylipCfg (some abcDna)) exPhyDna), []) := by decide +kernel
example : (phylipProject (phylipCfg (some abcDna)) exPhyDna).ax = exPhyDna.ax := by decide +kernel

/-! ## ===== PHYLIP — end ===== -/

/-! ## ===== STOCKHOLM/PFAM — begin =====

Round trip through `stockholm_write` (`stockholmWrite pfam`, `pfam = true`: one block; `false`: 200-column blocks
separated by blank lines) and `esl_msafile_stockholm_Read`, for alignments of ANY size that carry names and aligned rows
ONLY (`StoPlain`: no weights, no cut-offs, no #=GF/#=GS/#=GC/#=GR annotation, no comments).
`StoTextWritable` / `StoDigitalWritable`: ≥ 1 sequence, ≥ 1 column, names pairwise distinct, non-empty, without
blank/tab/NUL/LF, not beginning with `#` nor `//`; text residues graphic; digital rows well formed.
`stoProject` = the alignment itself with the rows in the reader's mode and default weights.

PARTIAL with respect to the full statement ("Stockholm and Pfam preserve all of it"): annotation (Stage 4: #=GF ID/AC/DE/AU,
comments, #=GS, #=GC, #=GR, unparsed tags) is not covered by a theorem here; weights and cut-offs cannot be stated because the
reader model does not carry their numeric value.  The executable check covers them. -/

theorem stockholm_write_deterministic (pfam : Bool) (abc : Option Abc) (m₁ m₂ : Msa) (h : m₁ = m₂) :
    stockholmWrite pfam abc m₁ = stockholmWrite pfam abc m₂ := by rw [h]

theorem stoDigSymOk_of (a : Abc) (ha : a = abcAmino ∨ a = abcDna ∨ a = abcRna) : stoDigSymOk a = true := by
  rcases ha with h | h | h <;> subst h
  · exact stoDigSymOk_amino
  · exact stoDigSymOk_dna
  · exact stoDigSymOk_rna

/-- **Pfam round trip, text mode, names and rows** (Stage 1) -/
theorem pfam_roundtrip_plain_text (m : Msa) (h : StoTextWritable m) :
    stockholmRead (stockholmCfg none) (splitLines (stockholmWrite true none m)) = (.ok (stoProject (stockholmCfg none) m), []) :=
  stoRead_write true none (stockholmCfg none) id _ m (stoTextWritable_writable m h)

/-- **Pfam round trip, digital mode (amino, DNA, RNA), names and rows** (Stage 2) -/
theorem pfam_roundtrip_plain_digital (a : Abc) (ha : a = abcAmino ∨ a = abcDna ∨ a = abcRna) (m : Msa) (h : StoDigitalWritable a m) :
    stockholmRead (stockholmCfg (some a)) (splitLines (stockholmWrite true (some a) m))
      = (.ok (stoProject (stockholmCfg (some a)) m), []) :=
  stoRead_write true (some a) (stockholmCfg (some a)) (stoEnc a) _ m (stoDigitalWritable_writable a (stoDigSymOk_of a ha) m h)

/-- **Stockholm round trip (200-column blocks), text mode, names and rows** (Stage 3) -/
theorem stockholm_roundtrip_plain_text (m : Msa) (h : StoTextWritable m) :
    stockholmRead (stockholmCfg none) (splitLines (stockholmWrite false none m)) = (.ok (stoProject (stockholmCfg none) m), []) :=
  stoRead_write false none (stockholmCfg none) id _ m (stoTextWritable_writable m h)

/-- **Stockholm round trip (200-column blocks), digital mode, names and rows** (Stage 3) -/
theorem stockholm_roundtrip_plain_digital (a : Abc) (ha : a = abcAmino ∨ a = abcDna ∨ a = abcRna) (m : Msa) (h : StoDigitalWritable a m) :
    stockholmRead (stockholmCfg (some a)) (splitLines (stockholmWrite false (some a) m))
      = (.ok (stoProject (stockholmCfg (some a)) m), []) :=
  stoRead_write false (some a) (stockholmCfg (some a)) (stoEnc a) _ m (stoDigitalWritable_writable a (stoDigSymOk_of a ha) m h)

/-- the general form all four are instances of -/
theorem stockholm_roundtrip_plain (pfam : Bool) (abc : Option Abc) (cfg : Cfg) (enc : UInt8 → UInt8) (txt : Nat → Bytes) (m : Msa)
    (h : StoWritable abc cfg enc txt m) :
    stockholmRead cfg (splitLines (stockholmWrite pfam abc m)) = (.ok (stoProject cfg m), []) :=
  stoRead_write pfam abc cfg enc txt m h

/-- library-written Stockholm/Pfam output is accepted, holds exactly one alignment (nothing follows `//`: the next read is
    eslEOF), and the alignment read back is well formed -/
theorem stockholm_write_accepted (pfam : Bool) (m : Msa) (h : StoTextWritable m) :
    (∃ m', (stockholmRead (stockholmCfg none) (splitLines (stockholmWrite pfam none m))).1 = .ok m' ∧ m'.wellFormed = true) ∧
    (stockholmRead (stockholmCfg none) (stockholmRead (stockholmCfg none) (splitLines (stockholmWrite pfam none m))).2).1 = .eof := by
  have hr := stockholm_roundtrip_plain pfam none _ id _ m (stoTextWritable_writable m h)
  have hv : (stockholmCfg none).valid := ⟨by decide +kernel, by decide +kernel⟩
  have hni : (stockholmCfg none).inmap.noIgnore = true := by decide +kernel
  generalize splitLines (stockholmWrite pfam none m) = L at hr ⊢
  have hg : Good (stockholmRead (stockholmCfg none) L).1 := stockholmRead_good _ hv hni L
  rw [hr] at hg
  refine ⟨⟨_, by rw [hr], hg⟩, ?_⟩
  rw [hr]
  simp [stockholmRead, runLines, stoFinish]

/-- what Stockholm/Pfam preserve of such an alignment: names, width and the aligned rows, exactly -/
theorem stockholm_preserves_names_rows (m : Msa) (h : StoTextWritable m) :
    (stoProject (stockholmCfg none) m).names = m.names ∧ (stoProject (stockholmCfg none) m).alen = m.alen ∧
    ∀ i, i < m.nseq → (stoProject (stockholmCfg none) m).aseq.getD i [] = m.aseq.getD i [] := by
  refine ⟨rfl, rfl, ?_⟩
  intro i hi
  simp [stoProject, stockholmCfg, Cfg.digital, Msa.stored, h.dig, List.getD_eq_getElem?_getD, hi]

/-! ### non-vacuity -/

/-- names "a", "bb"; rows "AC-GT", "ACGTT" -/
def exSto : Msa :=
  { alen := 5, names := [[97], [98, 98]], aseq := [[65, 67, 45, 71, 84], [65, 67, 71, 84, 84]], wgt := [.dflt, .dflt] }

theorem exSto_plain : StoPlain exSto := by constructor <;> rfl

theorem exSto_writable : StoTextWritable exSto :=
  { dig := rfl, plain := exSto_plain, n1 := by decide, alen1 := by decide, nodup := by decide
    name_ok := by unfold stoNameOk nameOk; decide +kernel
    row_ok := by decide +kernel }

example : stockholmRead (stockholmCfg none) (splitLines (stockholmWrite true none exSto))
    = (.ok (stoProject (stockholmCfg none) exSto), []) := by decide +kernel
example : stoProject (stockholmCfg none) exSto = exSto := by decide +kernel

/-- the same digitised with the DNA alphabet (A=0 C=1 G=2 T=3 gap=4) -/
def exStoDna : Msa :=
  { digital := true, kp := 18, alen := 5, names := exSto.names,
    ax := [[255, 0, 1, 4, 2, 3, 255], [255, 0, 1, 2, 3, 3, 255]], wgt := [.dflt, .dflt] }

theorem exStoDna_writable : StoDigitalWritable abcDna exStoDna :=
  { dig := rfl, plain := by constructor <;> rfl, n1 := by decide, alen1 := by decide, nodup := by decide
    name_ok := by unfold stoNameOk nameOk; decide +kernel
    row_ok := by decide +kernel }

example : stockholmRead (stockholmCfg (some abcDna)) (splitLines (stockholmWrite true (some abcDna) exStoDna))
    = (.ok (stoProject (stockholmCfg (some abcDna)) exStoDna), []) := by decide +kernel
example : (stoProject (stockholmCfg (some abcDna)) exStoDna).ax = exStoDna.ax := by decide +kernel

/-- 2 sequences, 201 columns: two Stockholm blocks (200 + 1) -/
def exSto201 : Msa :=
  { alen := 201, names := [[115, 49], [115, 50]],
    aseq := [List.replicate 100 65 ++ [45] ++ List.replicate 100 67, List.replicate 200 71 ++ [84]], wgt := [.dflt, .dflt] }

theorem exSto201_writable : StoTextWritable exSto201 :=
  { dig := rfl, plain := by constructor <;> rfl, n1 := by decide, alen1 := by decide, nodup := by decide
    name_ok := by unfold stoNameOk nameOk; decide +kernel
    row_ok := by decide +kernel }

example : (blockStarts exSto201.alen (stoCpl false exSto201)).length = 2 := by decide +kernel
example : stockholmRead (stockholmCfg none) (splitLines (stockholmWrite false none exSto201))
    = (.ok (stoProject (stockholmCfg none) exSto201), []) := by decide +kernel

/-! ## ===== STOCKHOLM/PFAM — end ===== -/

end EaselModel.Props.C03
