import EaselModel.Msafile.AfaLemmas
import EaselModel.Msafile.AfaWritable
import EaselModel.Msafile.AfaIdem
import EaselModel.Msafile.Digitize
import EaselModel.Msafile.PhylipWritable
import EaselModel.Msafile.PhylipIdem
import EaselModel.Msafile.PhylipLemmas
import EaselModel.Msafile.WriteLemmas
import EaselModel.Msafile.StoWritable
import EaselModel.Msafile.StockholmLemmas
import EaselModel.Msafile.SelexWritable
import EaselModel.Msafile.SelexLemmas
import EaselModel.Msafile.A2mLemmas
import EaselModel.Msafile.A2mWritable
import EaselModel.Msafile.A2mIdem
import EaselModel.Msafile.ClustalIdem
import EaselModel.Msafile.ClustalLemmas
import EaselModel.Msafile.PsiblastIdem
import EaselModel.Msafile.PsiblastLemmas
import EaselModel.Msafile.GuessWritten
import EaselModel.Msafile.SelexAnnRoundTrip
import EaselModel.Msafile.StoIdem
import EaselModel.Msafile.A2mReadDomain
import EaselModel.Msafile.AfaReadDomain
import EaselModel.Msafile.ClustalReadDomain
import EaselModel.Msafile.PsiblastReadDomain
import EaselModel.Msafile.PhylipReadDomain
import EaselModel.Msafile.StoTokens
import EaselModel.Msafile.StoFirstMention
import EaselModel.Msafile.GuessPhylip
import EaselModel.Msafile.StoNumRoundTrip
/-! # C03 — writing an alignment and reading it back preserves it: property theorems

Full statement (properties.jsonl): for every well-formed alignment, writing it in any of the ten formats and reading the
output back (declared or autodetected format, text or digital) yields an alignment equal to the original in everything
the format can represent; output is deterministic, accepted by the reader, and re-writing the re-read alignment
reproduces the same bytes.

PARTIAL at this revision (see the sections below for A2M, Clustal, PSI-BLAST, SELEX and annotated Stockholm, each with its own `Writable`): the round-trip theorems cover aligned FASTA, PHYLIP (sequential and interleaved) and Pfam / multi-block Stockholm for alignments that carry names and rows only (declared format), text mode and digital mode with the
generated amino/DNA/RNA alphabets, for alignments of ANY size. `AfaTextWritable` / `AfaDigitalWritable` say what AFA
can carry: ≥ 1 sequence, ≥ 1 column, names without blank/tab/NUL, descriptions that do not start with a blank and hold
no NUL, no LF inside / CR at the end of a name line, no separate accessions (AFA prints them into the description),
text residues graphic and not '>', digital rows well formed. `afaProject` is what AFA represents: names, rows,
descriptions, default weights.  The other nine formats and autodetection are covered by the harness monitors only. -/
namespace EaselModel.Props.C03
open EaselModel.Msafile

/-- the writer is a function of the alignment (no hidden state, no dependence on anything else) -/
theorem afa_write_deterministic (abc : Option Abc) (m₁ m₂ : Msa) (h : m₁ = m₂) : afaWrite abc m₁ = afaWrite abc m₂ := by rw [h]

/-- **AFA round trip, text mode**: `read (write m) = ok (project m)`, nothing left unread -/
theorem afa_roundtrip_text (m : Msa) (h : AfaTextWritable m) :
    afaRead (afaCfg none) (splitLines (afaWrite none m)) = (.ok (afaProject (afaCfg none) m), []) :=
  afaRead_write none (afaCfg none) id m (afaTextWritable_writable m h)

/-- **AFA round trip, digital mode** (amino, DNA, RNA): the digital rows come back code for code, sentinels included -/
theorem afa_roundtrip_digital (a : Abc) (ha : a = abcAmino ∨ a = abcDna ∨ a = abcRna) (m : Msa) (h : AfaDigitalWritable a m) :
    afaRead (afaCfg (some a)) (splitLines (afaWrite (some a) m)) = (.ok (afaProject (afaCfg (some a)) m), []) := by
  have hs : afaDigSymOk a = true := by
    rcases ha with h | h | h <;> subst h
    · exact afaDigSymOk_amino
    · exact afaDigSymOk_dna
    · exact afaDigSymOk_rna
  exact afaRead_write (some a) (afaCfg (some a)) (afaEnc a) m (afaDigitalWritable_writable a hs m h)

/-- the general form both are instances of (any alphabet / input map for which written symbols map back) -/
theorem afa_roundtrip (abc : Option Abc) (cfg : Cfg) (enc : UInt8 → UInt8) (m : Msa) (h : AfaWritable abc cfg enc m) :
    afaRead cfg (splitLines (afaWrite abc m)) = (.ok (afaProject cfg m), []) :=
  afaRead_write abc cfg enc m h

/-- library-written AFA output is accepted by the reader, holds exactly one alignment (the next read is eslEOF), and the
    alignment read back is well formed -/
theorem afa_write_accepted (m : Msa) (h : AfaTextWritable m) :
    (∃ m', (afaRead (afaCfg none) (splitLines (afaWrite none m))).1 = .ok m' ∧ m'.wellFormed = true) ∧
    (afaRead (afaCfg none) (afaRead (afaCfg none) (splitLines (afaWrite none m))).2).1 = .eof := by
  have hr := afa_roundtrip_text m h
  have hg := afaRead_good (afaCfg none) ⟨by decide +kernel, by decide +kernel⟩ (splitLines (afaWrite none m))
  rw [hr] at hg
  refine ⟨⟨_, by rw [hr], hg⟩, ?_⟩
  rw [hr]
  simp [afaRead, runLines, afaFinish]

/-- what AFA preserves: the names and the aligned rows, exactly -/
theorem afa_preserves_names_rows (m : Msa) (h : AfaTextWritable m) :
    (afaProject (afaCfg none) m).names = m.names ∧ (afaProject (afaCfg none) m).alen = m.alen ∧
    ∀ i, i < m.nseq → (afaProject (afaCfg none) m).aseq.getD i [] = m.aseq.getD i [] := by
  refine ⟨rfl, rfl, ?_⟩
  intro i hi
  simp [afaProject, afaCfg, Cfg.digital, Msa.stored, h.dig, List.getD_eq_getElem?_getD, hi]

/-- **re-writing the re-read alignment reproduces the same bytes** (text mode): `write (read (write m)) = write m` -/
theorem afa_rewrite_same_text (m : Msa) (h : AfaTextWritable m) :
    ∃ m', (afaRead (afaCfg none) (splitLines (afaWrite none m))).1 = .ok m' ∧ afaWrite none m' = afaWrite none m :=
  ⟨afaProject (afaCfg none) m, by rw [afa_roundtrip_text m h], afaWrite_project_text m h⟩

/-- … and in digital mode (amino, DNA, RNA) -/
theorem afa_rewrite_same_digital (a : Abc) (ha : a = abcAmino ∨ a = abcDna ∨ a = abcRna) (m : Msa) (h : AfaDigitalWritable a m) :
    ∃ m', (afaRead (afaCfg (some a)) (splitLines (afaWrite (some a) m))).1 = .ok m' ∧ afaWrite (some a) m' = afaWrite (some a) m := by
  have hs : afaDigSymOk a = true := by
    rcases ha with h | h | h <;> subst h
    · exact afaDigSymOk_amino
    · exact afaDigSymOk_dna
    · exact afaDigSymOk_rna
  exact ⟨afaProject (afaCfg (some a)) m, by rw [afa_roundtrip_digital a ha m h], afaWrite_project_digital a hs m h⟩

/-! ## non-vacuity -/

/-- names "a", "bb"; rows "AC-GT", "ACGTT"; description "d e" on the first -/
def exMsa : Msa :=
  { alen := 5, names := [[97], [98, 98]], aseq := [[65, 67, 45, 71, 84], [65, 67, 71, 84, 84]],
    wgt := [.dflt, .dflt], sqdesc := some [some [100, 32, 101], none] }

example : afaRead (afaCfg none) (splitLines (afaWrite none exMsa)) = (.ok (afaProject (afaCfg none) exMsa), []) := by decide +kernel
example : (afaProject (afaCfg none) exMsa).sqdesc = exMsa.sqdesc := by decide +kernel
example : afaWrite none (afaProject (afaCfg none) exMsa) = afaWrite none exMsa := by decide +kernel

/-! ## ===== PHYLIP (sequential `phylips`, interleaved `phylip`) — begin =====

`PhylipTextWritable` / `PhylipDigitalWritable` say what PHYLIP can carry through the strict reader (name width 10):
≥ 1 sequence, ≥ 1 column, `nseq`, `alen` ≤ INT32_MAX (the header is parsed by `esl_mem_strtoi32`), names not empty and
made of graphic characters (no blank), text residues upper-case letters / `-` / `*` / `?` (the characters the writer's
rectification leaves alone and the text input map sends to themselves), digital rows well formed.
`phylipProject` is what PHYLIP represents: names CUT TO TEN CHARACTERS (`%-10.10s`), the aligned rows, default weights. -/

theorem phylip_write_deterministic (seq : Bool) (abc : Option Abc) (m₁ m₂ : Msa) (h : m₁ = m₂) :
    phylipWrite seq abc m₁ = phylipWrite seq abc m₂ := by rw [h]

/-- `" %d"` is read back by `esl_mem_strtoi32` -/
theorem phylip_strtoi32_natDec (n : Nat) (h1 : 1 ≤ n) (hn : n ≤ 2147483647) : strtoi32 (natDec n) = .ok (n : Int) :=
  strtoi32_natDec n h1 hn

theorem phyDigSymOk_of (a : Abc) (ha : a = abcAmino ∨ a = abcDna ∨ a = abcRna) : phyDigSymOk a = true := by
  rcases ha with h | h | h <;> subst h
  · exact phyDigSymOk_amino
  · exact phyDigSymOk_dna
  · exact phyDigSymOk_rna

/-- **sequential PHYLIP round trip, text mode** -/
theorem phylips_roundtrip_text (m : Msa) (h : PhylipTextWritable m) :
    phylipRead true (phylipCfg none) (splitLines (phylipWrite true none m)) = (.ok (phylipProject (phylipCfg none) m), []) :=
  phylipsRead_write none (phylipCfg none) id _ m (phylipTextWritable_writable m h)

/-- **sequential PHYLIP round trip, digital mode** (amino, DNA, RNA) -/
theorem phylips_roundtrip_digital (a : Abc) (ha : a = abcAmino ∨ a = abcDna ∨ a = abcRna) (m : Msa) (h : PhylipDigitalWritable a m) :
    phylipRead true (phylipCfg (some a)) (splitLines (phylipWrite true (some a) m))
      = (.ok (phylipProject (phylipCfg (some a)) m), []) :=
  phylipsRead_write (some a) (phylipCfg (some a)) (phyEnc a) _ m (phylipDigitalWritable_writable a (phyDigSymOk_of a ha) m h)

/-- the general form -/
theorem phylips_roundtrip (abc : Option Abc) (cfg : Cfg) (enc : UInt8 → UInt8) (txt : Nat → Bytes) (m : Msa)
    (h : PhylipWritable abc cfg enc txt m) :
    phylipRead true cfg (splitLines (phylipWrite true abc m)) = (.ok (phylipProject cfg m), []) :=
  phylipsRead_write abc cfg enc txt m h

/-- library-written sequential PHYLIP is accepted, holds exactly one alignment (the next read is eslEOF), and the
    alignment read back is well formed -/
theorem phylips_write_accepted (m : Msa) (h : PhylipTextWritable m) :
    (∃ m', (phylipRead true (phylipCfg none) (splitLines (phylipWrite true none m))).1 = .ok m' ∧ m'.wellFormed = true) ∧
    (phylipRead true (phylipCfg none) (phylipRead true (phylipCfg none) (splitLines (phylipWrite true none m))).2).1 = .eof := by
  have hr := phylips_roundtrip_text m h
  have hg := phylipRead_good true (phylipCfg none) ⟨by decide +kernel, by decide +kernel⟩ (splitLines (phylipWrite true none m))
  rw [hr] at hg
  refine ⟨⟨_, by rw [hr], hg⟩, ?_⟩
  rw [hr]
  rfl

/-- **interleaved PHYLIP round trip, text mode** (first block with names, later blocks behind an empty line without) -/
theorem phylip_roundtrip_text (m : Msa) (h : PhylipTextWritable m) :
    phylipRead false (phylipCfg none) (splitLines (phylipWrite false none m)) = (.ok (phylipProject (phylipCfg none) m), []) :=
  phylipRead_write none (phylipCfg none) id _ m (phylipTextWritable_writable m h)

/-- **interleaved PHYLIP round trip, digital mode** (amino, DNA, RNA) -/
theorem phylip_roundtrip_digital (a : Abc) (ha : a = abcAmino ∨ a = abcDna ∨ a = abcRna) (m : Msa) (h : PhylipDigitalWritable a m) :
    phylipRead false (phylipCfg (some a)) (splitLines (phylipWrite false (some a) m))
      = (.ok (phylipProject (phylipCfg (some a)) m), []) :=
  phylipRead_write (some a) (phylipCfg (some a)) (phyEnc a) _ m (phylipDigitalWritable_writable a (phyDigSymOk_of a ha) m h)

/-- the general form -/
theorem phylip_roundtrip (abc : Option Abc) (cfg : Cfg) (enc : UInt8 → UInt8) (txt : Nat → Bytes) (m : Msa)
    (h : PhylipWritable abc cfg enc txt m) :
    phylipRead false cfg (splitLines (phylipWrite false abc m)) = (.ok (phylipProject cfg m), []) :=
  phylipRead_write abc cfg enc txt m h

/-- library-written interleaved PHYLIP is accepted, holds exactly one alignment, and the alignment read back is well formed -/
theorem phylip_write_accepted (m : Msa) (h : PhylipTextWritable m) :
    (∃ m', (phylipRead false (phylipCfg none) (splitLines (phylipWrite false none m))).1 = .ok m' ∧ m'.wellFormed = true) ∧
    (phylipRead false (phylipCfg none) (phylipRead false (phylipCfg none) (splitLines (phylipWrite false none m))).2).1 = .eof := by
  have hr := phylip_roundtrip_text m h
  have hg := phylipRead_good false (phylipCfg none) ⟨by decide +kernel, by decide +kernel⟩ (splitLines (phylipWrite false none m))
  rw [hr] at hg
  refine ⟨⟨_, by rw [hr], hg⟩, ?_⟩
  rw [hr]
  rfl

/-- **re-writing the re-read alignment reproduces the same bytes**, sequential and interleaved, text mode -/
theorem phylip_rewrite_same_text (seq : Bool) (m : Msa) (h : PhylipTextWritable m) :
    ∃ m', (phylipRead seq (phylipCfg none) (splitLines (phylipWrite seq none m))).1 = .ok m' ∧
      phylipWrite seq none m' = phylipWrite seq none m := by
  refine ⟨phylipProject (phylipCfg none) m, ?_, phylipWrite_project_text seq m h⟩
  cases seq
  · rw [phylip_roundtrip_text m h]
  · rw [phylips_roundtrip_text m h]

/-- … and in digital mode (amino, DNA, RNA) -/
theorem phylip_rewrite_same_digital (seq : Bool) (a : Abc) (ha : a = abcAmino ∨ a = abcDna ∨ a = abcRna) (m : Msa)
    (h : PhylipDigitalWritable a m) :
    ∃ m', (phylipRead seq (phylipCfg (some a)) (splitLines (phylipWrite seq (some a) m))).1 = .ok m' ∧
      phylipWrite seq (some a) m' = phylipWrite seq (some a) m := by
  refine ⟨phylipProject (phylipCfg (some a)) m, ?_, phylipWrite_project_digital seq a m h⟩
  cases seq
  · rw [phylip_roundtrip_digital a ha m h]
  · rw [phylips_roundtrip_digital a ha m h]

/-- what PHYLIP preserves: names up to ten characters, and the aligned rows exactly -/
theorem phylip_preserves_names_rows (m : Msa) (h : PhylipTextWritable m) :
    (phylipProject (phylipCfg none) m).names = m.names.map (·.take 10) ∧ (phylipProject (phylipCfg none) m).alen = m.alen ∧
    ∀ i, i < m.nseq → (phylipProject (phylipCfg none) m).aseq.getD i [] = m.aseq.getD i [] := by
  refine ⟨phylipProject_names _ m, rfl, ?_⟩
  intro i hi
  simp [phylipProject, phylipCfg, Cfg.digital, Msa.stored, h.dig, List.getD_eq_getElem?_getD, hi]

/-! ### non-vacuity: 2 sequences, 61 columns (two lines per sequence), one name longer than ten characters -/

def exPhy : Msa :=
  { alen := 61, names := [[115, 101, 113, 49], [97, 98, 99, 100, 101, 102, 103, 104, 105, 106, 107, 108]],
    aseq := [List.replicate 30 65 ++ [45] ++ List.replicate 30 67, List.replicate 60 71 ++ [63]],
    wgt := [.dflt, .dflt] }

theorem exPhy_writable : PhylipTextWritable exPhy :=
  { dig := rfl, n1 := by decide, alen1 := by decide, nmax := by decide, amax := by decide
    name_ok := by unfold phyNameOk; decide +kernel
    row_ok := by decide +kernel }

example : phylipRead true (phylipCfg none) (splitLines (phylipWrite true none exPhy))
    = (.ok (phylipProject (phylipCfg none) exPhy), []) := by decide +kernel
example : phylipRead false (phylipCfg none) (splitLines (phylipWrite false none exPhy))
    = (.ok (phylipProject (phylipCfg none) exPhy), []) := by decide +kernel
example : (phylipProject (phylipCfg none) exPhy).names = [[115, 101, 113, 49], [97, 98, 99, 100, 101, 102, 103, 104, 105, 106]] := by
  decide +kernel

/-- the same alignment digitised with the DNA alphabet (A=0 C=1 G=2 gap=4 missing=17) -/
def exPhyDna : Msa :=
  { digital := true, kp := 18, alen := 61, names := exPhy.names,
    ax := [255 :: (List.replicate 30 0 ++ [4] ++ List.replicate 30 1) ++ [255], 255 :: (List.replicate 60 2 ++ [17]) ++ [255]],
    wgt := [.dflt, .dflt] }

theorem exPhyDna_writable : PhylipDigitalWritable abcDna exPhyDna :=
  { dig := rfl, n1 := by decide, alen1 := by decide, nmax := by decide, amax := by decide
    name_ok := by unfold phyNameOk; decide +kernel
    row_ok := by decide +kernel }

example : phylipRead false (phylipCfg (some abcDna)) (splitLines (phylipWrite false (some abcDna) exPhyDna))
    = (.ok (phylipProject (phylipCfg (some abcDna)) exPhyDna), []) := by decide +kernel
example : (phylipProject (phylipCfg (some abcDna)) exPhyDna).ax = exPhyDna.ax := by decide +kernel

/-! ## ===== PHYLIP — end ===== -/

/-! ## ===== STOCKHOLM/PFAM — begin =====

Round trip through `stockholm_write` (`stockholmWrite pfam`, `pfam = true`: one block; `false`: 200-column blocks
separated by blank lines) and `esl_msafile_stockholm_Read`, for alignments of ANY size that carry names, aligned rows and
the annotation `StoAnn` admits (Stage 4.1 + the first half of 4.2):
  * `#=GC SS_cons / SA_cons / PP_cons / RF / MM` (any subset): one character per column, none white space or NUL
    (`colTextOk`); they are written at the end of every block and wrapped with it;
  * `#=GF ID`, `#=GF AC`: one token, no blank/tab/NUL/LF, not ending in CR (`gfTokOk`);
    `#=GF DE`, `#=GF AU`: free text, may be empty and may hold blanks, does not BEGIN with blank/tab, no NUL/LF, not ending in
    CR (`gfTextOk`; trailing blanks ARE kept by the reader for #=GF).
`StoPlain` (names and rows only) is the special case `StoPlain.ann`.
`StoTextWritable` / `StoDigitalWritable`: ≥ 1 sequence, ≥ 1 column, names pairwise distinct, non-empty, without
blank/tab/NUL/LF, not beginning with `#` nor `//`; text residues graphic; digital rows well formed.
`stoProject` = the alignment itself (ALL annotation fields unchanged) with the rows in the reader's mode and default weights.

  * comment lines: no NUL/LF, not beginning with white space (the reader strips it), not ending in CR, and `#`+comment not
    beginning with `#=GF`, `#=GS`, `#=GC`, `#=GR` (`comOk`); unparsed `#=GF` tags: the tag a token other than
    `ID AC DE AU GA NC TC`, the value free text (`gfTagOk`, `gfTextOk`); score cut-offs `GA NC TC`: finite values
    (`finiteF32`; `inf`/`nan` are printed and then rejected by the reader).
`stoProject` = the alignment itself with the rows in the reader's mode, default weights, and of the cut-offs which are set.

  * unparsed `#=GC <tag>` lines (Stage 4.3, `stockholm_roundtrip_gc`): tags pairwise distinct, tokens (non-empty, no
    blank/tab/NUL/LF) other than the five parsed tags (`gcTagOk`), text `colTextOk`.

  * `#=GR` per-residue annotation (Stage 4.5, `stockholm_roundtrip_gr`): `ss sa pp` and the unparsed tags `gr`, any subset
    of the sequences; an array that is present has `nseq` entries, at least one set; unparsed tags pairwise distinct tokens
    other than `SS SA PP` (`grTagOk`); text `colTextOk`; first-mention order = order of `m.gr` (`grOrderOk`).

  * `#=GS <seqname> AC` / `DE` / unparsed `<tag>` (Stage 4.4, PARTIAL: `stockholm_roundtrip_gs_partial`): `sqacc`, `sqdesc`,
    `gs`, any subset of the sequences, under the first-mention-order hypothesis `gsOrderOk` (the first `#=GS` kind written
    covers every sequence; `exStoGsBad` shows the hypothesis is needed); unparsed tags pairwise distinct tokens other than
    `WT AC DE` (`gsTagOk`), their values non-empty, free text, no line feed.
`stockholm_roundtrip_full_partial` lists every field that comes back.

  * `#=GS <seqname> WT` weights (Stage 4.4 complete: `stockholm_roundtrip_gs`, `stockholm_roundtrip_full`): every printed
    weight `wgtTokOk` (`wgtTokOk_of_nonneg`: finite, sign bit clear); with weights `gsOrderOk` always holds
    (`gsOrderOk_of_hasw`).  `stoProject.wgt` = set/unset as the reader MODEL keeps it (`Wgt.val 0` when `hasw`).

Remaining restrictions with respect to the full statement: multi-line `#=GS` values (with line feeds) and optional arrays
without any entry are excluded; the numeric VALUE of weights/cut-offs is not in the reader model.  The executable check covers all of them
(field-by-field comparison on the real library, values included). -/

theorem stockholm_write_deterministic (pfam : Bool) (abc : Option Abc) (m₁ m₂ : Msa) (h : m₁ = m₂) :
    stockholmWrite pfam abc m₁ = stockholmWrite pfam abc m₂ := by rw [h]

theorem stoDigSymOk_of (a : Abc) (ha : a = abcAmino ∨ a = abcDna ∨ a = abcRna) : stoDigSymOk a = true := by
  rcases ha with h | h | h <;> subst h
  · exact stoDigSymOk_amino
  · exact stoDigSymOk_dna
  · exact stoDigSymOk_rna

/-- **Pfam round trip, text mode, names and rows** (Stage 1) -/
theorem pfam_roundtrip_plain_text (m : Msa) (h : StoTextWritable m) :
    stockholmRead (stockholmCfg none) (splitLines (stockholmWrite true none m)) = (.ok (stoProject (stockholmCfg none) m), []) :=
  stoRead_write true none (stockholmCfg none) id _ m (stoTextWritable_writable m h)

/-- **Pfam round trip, digital mode (amino, DNA, RNA), names and rows** (Stage 2) -/
theorem pfam_roundtrip_plain_digital (a : Abc) (ha : a = abcAmino ∨ a = abcDna ∨ a = abcRna) (m : Msa) (h : StoDigitalWritable a m) :
    stockholmRead (stockholmCfg (some a)) (splitLines (stockholmWrite true (some a) m))
      = (.ok (stoProject (stockholmCfg (some a)) m), []) :=
  stoRead_write true (some a) (stockholmCfg (some a)) (stoEnc a) _ m (stoDigitalWritable_writable a (stoDigSymOk_of a ha) m h)

/-- **Stockholm round trip (200-column blocks), text mode, names and rows** (Stage 3) -/
theorem stockholm_roundtrip_plain_text (m : Msa) (h : StoTextWritable m) :
    stockholmRead (stockholmCfg none) (splitLines (stockholmWrite false none m)) = (.ok (stoProject (stockholmCfg none) m), []) :=
  stoRead_write false none (stockholmCfg none) id _ m (stoTextWritable_writable m h)

/-- **Stockholm round trip (200-column blocks), digital mode, names and rows** (Stage 3) -/
theorem stockholm_roundtrip_plain_digital (a : Abc) (ha : a = abcAmino ∨ a = abcDna ∨ a = abcRna) (m : Msa) (h : StoDigitalWritable a m) :
    stockholmRead (stockholmCfg (some a)) (splitLines (stockholmWrite false (some a) m))
      = (.ok (stoProject (stockholmCfg (some a)) m), []) :=
  stoRead_write false (some a) (stockholmCfg (some a)) (stoEnc a) _ m (stoDigitalWritable_writable a (stoDigSymOk_of a ha) m h)

/-- the general form all four are instances of -/
theorem stockholm_roundtrip_plain (pfam : Bool) (abc : Option Abc) (cfg : Cfg) (enc : UInt8 → UInt8) (txt : Nat → Bytes) (m : Msa)
    (h : StoWritable abc cfg enc txt m) :
    stockholmRead cfg (splitLines (stockholmWrite pfam abc m)) = (.ok (stoProject cfg m), []) :=
  stoRead_write pfam abc cfg enc txt m h

/-- library-written Stockholm/Pfam output is accepted, holds exactly one alignment (nothing follows `//`: the next read is
    eslEOF), and the alignment read back is well formed -/
theorem stockholm_write_accepted (pfam : Bool) (m : Msa) (h : StoTextWritable m) :
    (∃ m', (stockholmRead (stockholmCfg none) (splitLines (stockholmWrite pfam none m))).1 = .ok m' ∧ m'.wellFormed = true) ∧
    (stockholmRead (stockholmCfg none) (stockholmRead (stockholmCfg none) (splitLines (stockholmWrite pfam none m))).2).1 = .eof := by
  have hr := stockholm_roundtrip_plain pfam none _ id _ m (stoTextWritable_writable m h)
  have hv : (stockholmCfg none).valid := ⟨by decide +kernel, by decide +kernel⟩
  have hni : (stockholmCfg none).inmap.noIgnore = true := by decide +kernel
  generalize splitLines (stockholmWrite pfam none m) = L at hr ⊢
  have hg : Good (stockholmRead (stockholmCfg none) L).1 := stockholmRead_good _ hv hni L
  rw [hr] at hg
  refine ⟨⟨_, by rw [hr], hg⟩, ?_⟩
  rw [hr]
  simp [stockholmRead, runLines, stoFinish]

/-- **annotated Stockholm/Pfam output is accepted**, general form: whatever `StoAnn` admits (comments, `#=GF`, `#=GC`, `#=GR`, `#=GS`
    `AC DE` and unparsed), the reader returns a well-formed alignment, holds exactly one alignment (nothing follows `//`: the
    next read is eslEOF) -/
theorem stockholm_ann_write_accepted_gen (pfam : Bool) (abc : Option Abc) (cfg : Cfg) (enc : UInt8 → UInt8) (txt : Nat → Bytes) (m : Msa)
    (hv : cfg.valid) (hni : cfg.inmap.noIgnore = true) (h : StoWritable abc cfg enc txt m) :
    (∃ m', (stockholmRead cfg (splitLines (stockholmWrite pfam abc m))).1 = .ok m' ∧ m'.wellFormed = true) ∧
    (stockholmRead cfg (stockholmRead cfg (splitLines (stockholmWrite pfam abc m))).2).1 = .eof := by
  have hr := stoRead_write pfam abc cfg enc txt m h
  generalize splitLines (stockholmWrite pfam abc m) = L at hr ⊢
  have hg : Good (stockholmRead cfg L).1 := stockholmRead_good _ hv hni L
  rw [hr] at hg
  refine ⟨⟨_, by rw [hr], hg⟩, ?_⟩
  rw [hr]
  simp [stockholmRead, runLines, stoFinish]

/-- … text mode -/
theorem stockholm_ann_write_accepted (pfam : Bool) (m : Msa) (h : StoTextWritable m) :
    (∃ m', (stockholmRead (stockholmCfg none) (splitLines (stockholmWrite pfam none m))).1 = .ok m' ∧ m'.wellFormed = true) ∧
    (stockholmRead (stockholmCfg none) (stockholmRead (stockholmCfg none) (splitLines (stockholmWrite pfam none m))).2).1 = .eof :=
  stockholm_ann_write_accepted_gen pfam none _ id _ m ⟨by decide +kernel, by decide +kernel⟩ (by decide +kernel)
    (stoTextWritable_writable m h)

/-- … digital mode (amino, DNA, RNA) -/
theorem stockholm_ann_write_accepted_digital (pfam : Bool) (a : Abc) (ha : a = abcAmino ∨ a = abcDna ∨ a = abcRna) (m : Msa)
    (h : StoDigitalWritable a m) :
    (∃ m', (stockholmRead (stockholmCfg (some a)) (splitLines (stockholmWrite pfam (some a) m))).1 = .ok m' ∧ m'.wellFormed = true) ∧
    (stockholmRead (stockholmCfg (some a)) (stockholmRead (stockholmCfg (some a)) (splitLines (stockholmWrite pfam (some a) m))).2).1
      = .eof := by
  have hv : (stockholmCfg (some a)).valid ∧ (stockholmCfg (some a)).inmap.noIgnore = true := by
    rcases ha with e | e | e <;> subst e <;> exact ⟨⟨by decide +kernel, by decide +kernel⟩, by decide +kernel⟩
  exact stockholm_ann_write_accepted_gen pfam (some a) _ (stoEnc a) _ m hv.1 hv.2
    (stoDigitalWritable_writable a (stoDigSymOk_of a ha) m h)

/-- what Stockholm/Pfam preserve of such an alignment: names, width and the aligned rows, exactly -/
theorem stockholm_preserves_names_rows (m : Msa) (h : StoTextWritable m) :
    (stoProject (stockholmCfg none) m).names = m.names ∧ (stoProject (stockholmCfg none) m).alen = m.alen ∧
    ∀ i, i < m.nseq → (stoProject (stockholmCfg none) m).aseq.getD i [] = m.aseq.getD i [] := by
  refine ⟨rfl, rfl, ?_⟩
  intro i hi
  simp [stoProject, stockholmCfg, Cfg.digital, Msa.stored, h.dig, List.getD_eq_getElem?_getD, hi]

/-- **Stage 4.1/4.2a, general form**: with `#=GC` consensus lines and `#=GF ID/AC/DE/AU` the alignment read back is the
    alignment written, annotation included, in Pfam (one block) and in Stockholm (the consensus lines are cut at the same
    columns as the rows and re-assembled) -/
theorem stockholm_roundtrip_gc_gf (pfam : Bool) (abc : Option Abc) (cfg : Cfg) (enc : UInt8 → UInt8) (txt : Nat → Bytes) (m : Msa)
    (h : StoWritable abc cfg enc txt m) :
    stockholmRead cfg (splitLines (stockholmWrite pfam abc m)) = (.ok (stoProject cfg m), []) ∧
    (stoProject cfg m).ssCons = m.ssCons ∧ (stoProject cfg m).saCons = m.saCons ∧ (stoProject cfg m).ppCons = m.ppCons ∧
    (stoProject cfg m).rf = m.rf ∧ (stoProject cfg m).mm = m.mm ∧ (stoProject cfg m).name = m.name ∧
    (stoProject cfg m).acc = m.acc ∧ (stoProject cfg m).desc = m.desc ∧ (stoProject cfg m).au = m.au :=
  ⟨stoRead_write pfam abc cfg enc txt m h, rfl, rfl, rfl, rfl, rfl, rfl, rfl, rfl, rfl⟩

/-- **the whole header section** (Stage 4.2b): comment lines, unparsed `#=GF` tags (in order, repeated tags kept apart) and
    the score cut-offs come back.  Of a cut-off the reader MODEL keeps whether it is set, not its value (the harness compares
    the values): what is set after the round trip is each first threshold that was set and each second threshold whose
    first was set too - `stockholm_write` prints `#=GF GA x y` or `#=GF GA x` and never a second threshold alone. -/
theorem stockholm_roundtrip_header (pfam : Bool) (abc : Option Abc) (cfg : Cfg) (enc : UInt8 → UInt8) (txt : Nat → Bytes) (m : Msa)
    (h : StoWritable abc cfg enc txt m) :
    stockholmRead cfg (splitLines (stockholmWrite pfam abc m)) = (.ok (stoProject cfg m), []) ∧
    (stoProject cfg m).comments = m.comments ∧ (stoProject cfg m).gf = m.gf ∧
    (stoProject cfg m).cutoff.map Option.isSome
      = (if (cutsetOf m).any id then cutsetOf m else []) ∧
    cutsetOf m = [(m.cutoff.getD 0 none).isSome, (m.cutoff.getD 0 none).isSome && (m.cutoff.getD 1 none).isSome,
                  (m.cutoff.getD 2 none).isSome, (m.cutoff.getD 2 none).isSome && (m.cutoff.getD 3 none).isSome,
                  (m.cutoff.getD 4 none).isSome, (m.cutoff.getD 4 none).isSome && (m.cutoff.getD 5 none).isSome] := by
  refine ⟨stoRead_write pfam abc cfg enc txt m h, rfl, rfl, ?_, cutsetOf_eq m⟩
  show (if (cutsetOf m).any id then (cutsetOf m).map (fun b => if b then some (0 : UInt32) else none) else []).map Option.isSome = _
  split
  · rw [List.map_map]
    conv => rhs; rw [← List.map_id (cutsetOf m)]
    apply List.map_congr_left
    intro b _; cases b <;> rfl
  · rfl

/-- **Stage 4.3: unparsed `#=GC <tag>` lines** (tags pairwise distinct tokens other than `SS_cons SA_cons PP_cons RF MM`, one
    non-blank, non-NUL character per column): written after the five parsed `#=GC` lines of every block and wrapped with it,
    the reader numbers the tags in the order of the first block and appends block by block; they come back in order -/
theorem stockholm_roundtrip_gc (pfam : Bool) (abc : Option Abc) (cfg : Cfg) (enc : UInt8 → UInt8) (txt : Nat → Bytes) (m : Msa)
    (h : StoWritable abc cfg enc txt m) :
    stockholmRead cfg (splitLines (stockholmWrite pfam abc m)) = (.ok (stoProject cfg m), []) ∧ (stoProject cfg m).gc = m.gc :=
  ⟨stoRead_write pfam abc cfg enc txt m h, rfl⟩

/-- **Stage 4.5: `#=GR` per-residue annotation**: `SS SA PP` (each an optional array, per sequence optional) and the unparsed
    tags `gr`, written behind the row of their sequence in every block and wrapped with it.  Admitted (`StoAnn`): an array
    that is present has one entry per sequence and at least one of them set (`per_ok`, `gr_tag_ok`, `gr_ne`: an all-absent
    array is not written, hence not read); unparsed tags pairwise distinct tokens other than `SS SA PP` (`grTagOk`); every string
    `colTextOk`; and `grOrderOk`: the reader numbers the unparsed tags in the order it meets them in the first block, which is the
    order of `m.gr` exactly when, wherever tag `t` annotates sequence `i`, every tag in front of `t` annotates a sequence `≤ i` -/
theorem stockholm_roundtrip_gr (pfam : Bool) (abc : Option Abc) (cfg : Cfg) (enc : UInt8 → UInt8) (txt : Nat → Bytes) (m : Msa)
    (h : StoWritable abc cfg enc txt m) :
    stockholmRead cfg (splitLines (stockholmWrite pfam abc m)) = (.ok (stoProject cfg m), []) ∧
    (stoProject cfg m).ss = m.ss ∧ (stoProject cfg m).sa = m.sa ∧ (stoProject cfg m).pp = m.pp ∧ (stoProject cfg m).gr = m.gr :=
  ⟨stoRead_write pfam abc cfg enc txt m h, rfl, rfl, rfl, rfl⟩

/-- **Stage 4.4 (PARTIAL: everything but the weights): `#=GS` per-sequence annotation**: accessions `sqacc`, descriptions
    `sqdesc` (each an optional array, per sequence optional) and the unparsed tags `gs`.  They are written in the header, in
    front of the first block, one kind after the other (`AC`, `DE`, then tag by tag); the reader numbers the sequences in the
    order it meets their names, so the rows come back in their order only under `gsOrderOk`: the first `#=GS` kind that is
    written at all is written for EVERY sequence (known finding C03:stockholm:first-mention-order, counter-example
    `exStoGsBad` below).  Admitted: an array that is present has `nseq` entries, at least one set (`gs_per_ok`, `gs_tag_ok`,
    `gs_ne`); accessions one token (`gfTokOk`); descriptions free text (`gfTextOk`, may be empty or hold blanks); unparsed tags
    pairwise distinct tokens other than `WT AC DE` (`gsTagOk`), their values non-empty free text without line feed (a value
    with line feeds is written as several lines and re-joined: not covered).
    NOT covered (still excluded by `StoAnn`): weights (`hasw = false`; the reader MODEL keeps of a weight only whether it is
    set).  Full statement: the same with `hasw` / `m.wgt` arbitrary (`wgt` back up to the value the model does not carry). -/
theorem stockholm_roundtrip_gs_partial (pfam : Bool) (abc : Option Abc) (cfg : Cfg) (enc : UInt8 → UInt8) (txt : Nat → Bytes) (m : Msa)
    (h : StoWritable abc cfg enc txt m) :
    stockholmRead cfg (splitLines (stockholmWrite pfam abc m)) = (.ok (stoProject cfg m), []) ∧
    (stoProject cfg m).sqacc = m.sqacc ∧ (stoProject cfg m).sqdesc = m.sqdesc ∧ (stoProject cfg m).gs = m.gs ∧
    (stoProject cfg m).names = m.names :=
  ⟨stoRead_write pfam abc cfg enc txt m h, rfl, rfl, rfl, rfl⟩

/-- **Stage 4.4 complete: `#=GS` with weights.**  `#=GS <seqname> WT <w>` lines (written for every sequence when
    `eslMSA_HASWGTS`, as the FIRST `#=GS` kind), then `AC`, `DE`, unparsed tags.  Hypotheses (`StoAnn`): every printed weight
    is `wgtTokOk` (one token `esl_mem_IsReal` accepts and `strtod` does not read as -1.0, the "unset" marker;
    `wgtTokOk_of_nonneg`: finite and sign bit clear suffices); `gsOrderOk` (with weights it holds for ANY sparse `AC/DE/tags`:
    `gsOrderOk_of_hasw`).  Of a weight the reader MODEL keeps whether it is set, not its value: `stoProject` has
    `wgt = Wgt.val 0` for every sequence when `hasw`, else the default weights (the harness compares the values). -/
theorem stockholm_roundtrip_gs (pfam : Bool) (abc : Option Abc) (cfg : Cfg) (enc : UInt8 → UInt8) (txt : Nat → Bytes) (m : Msa)
    (h : StoWritable abc cfg enc txt m) :
    stockholmRead cfg (splitLines (stockholmWrite pfam abc m)) = (.ok (stoProject cfg m), []) ∧
    (stoProject cfg m).hasw = m.hasw ∧
    (stoProject cfg m).wgt = (if m.hasw then List.replicate m.nseq (Wgt.val 0) else List.replicate m.nseq Wgt.dflt) ∧
    (stoProject cfg m).sqacc = m.sqacc ∧ (stoProject cfg m).sqdesc = m.sqdesc ∧ (stoProject cfg m).gs = m.gs ∧
    (stoProject cfg m).names = m.names :=
  ⟨stoRead_write pfam abc cfg enc txt m h, rfl, rfl, rfl, rfl, rfl, rfl⟩

/-- **Stockholm and Pfam preserve all of it**: names, rows, comments, `#=GF` parsed and unparsed, which cut-offs are set, `#=GC`
    parsed and unparsed, `#=GR SS SA PP` and unparsed, `#=GS WT AC DE` and unparsed - every annotation field comes back as it is;
    the numeric VALUE of weights and cut-offs is outside the reader model -/
theorem stockholm_roundtrip_full (pfam : Bool) (abc : Option Abc) (cfg : Cfg) (enc : UInt8 → UInt8) (txt : Nat → Bytes) (m : Msa)
    (h : StoWritable abc cfg enc txt m) :
    stockholmRead cfg (splitLines (stockholmWrite pfam abc m)) = (.ok (stoProject cfg m), []) ∧
    (stoProject cfg m).names = m.names ∧ (stoProject cfg m).alen = m.alen ∧
    (stoProject cfg m).name = m.name ∧ (stoProject cfg m).acc = m.acc ∧ (stoProject cfg m).desc = m.desc ∧ (stoProject cfg m).au = m.au ∧
    (stoProject cfg m).comments = m.comments ∧ (stoProject cfg m).gf = m.gf ∧
    (stoProject cfg m).ssCons = m.ssCons ∧ (stoProject cfg m).saCons = m.saCons ∧ (stoProject cfg m).ppCons = m.ppCons ∧
    (stoProject cfg m).rf = m.rf ∧ (stoProject cfg m).mm = m.mm ∧ (stoProject cfg m).gc = m.gc ∧
    (stoProject cfg m).ss = m.ss ∧ (stoProject cfg m).sa = m.sa ∧ (stoProject cfg m).pp = m.pp ∧ (stoProject cfg m).gr = m.gr ∧
    (stoProject cfg m).sqacc = m.sqacc ∧ (stoProject cfg m).sqdesc = m.sqdesc ∧ (stoProject cfg m).gs = m.gs ∧
    (stoProject cfg m).hasw = m.hasw ∧
    (stoProject cfg m).wgt = (if m.hasw then List.replicate m.nseq (Wgt.val 0) else List.replicate m.nseq Wgt.dflt) :=
  ⟨stoRead_write pfam abc cfg enc txt m h, rfl, rfl, rfl, rfl, rfl, rfl, rfl, rfl, rfl, rfl, rfl, rfl, rfl, rfl, rfl, rfl, rfl, rfl, rfl,
    rfl, rfl, rfl, rfl⟩

/-- **everything the theorems cover at once** (PARTIAL: all of the annotation except weights, see
    `stockholm_roundtrip_gs_partial`): names, rows, `#=GC` parsed and unparsed, `#=GF` parsed and unparsed, comments, which
    cut-offs are set, `#=GR SS SA PP` and unparsed, `#=GS AC DE` and unparsed come back; `stoProject` leaves every one of these
    fields as it is -/
theorem stockholm_roundtrip_full_partial (pfam : Bool) (abc : Option Abc) (cfg : Cfg) (enc : UInt8 → UInt8) (txt : Nat → Bytes) (m : Msa)
    (h : StoWritable abc cfg enc txt m) :
    stockholmRead cfg (splitLines (stockholmWrite pfam abc m)) = (.ok (stoProject cfg m), []) ∧
    (stoProject cfg m).names = m.names ∧ (stoProject cfg m).alen = m.alen ∧
    (stoProject cfg m).name = m.name ∧ (stoProject cfg m).acc = m.acc ∧ (stoProject cfg m).desc = m.desc ∧ (stoProject cfg m).au = m.au ∧
    (stoProject cfg m).comments = m.comments ∧ (stoProject cfg m).gf = m.gf ∧
    (stoProject cfg m).ssCons = m.ssCons ∧ (stoProject cfg m).saCons = m.saCons ∧ (stoProject cfg m).ppCons = m.ppCons ∧
    (stoProject cfg m).rf = m.rf ∧ (stoProject cfg m).mm = m.mm ∧ (stoProject cfg m).gc = m.gc ∧
    (stoProject cfg m).ss = m.ss ∧ (stoProject cfg m).sa = m.sa ∧ (stoProject cfg m).pp = m.pp ∧ (stoProject cfg m).gr = m.gr ∧
    (stoProject cfg m).sqacc = m.sqacc ∧ (stoProject cfg m).sqdesc = m.sqdesc ∧ (stoProject cfg m).gs = m.gs ∧
    (stoProject cfg m).hasw = m.hasw :=
  ⟨stoRead_write pfam abc cfg enc txt m h, rfl, rfl, rfl, rfl, rfl, rfl, rfl, rfl, rfl, rfl, rfl, rfl, rfl, rfl, rfl, rfl, rfl, rfl, rfl,
    rfl, rfl, rfl⟩

/-- **re-writing the re-read alignment reproduces the same bytes**, Stockholm and Pfam, general form: for ANY annotation
    (per-sequence `#=GS`/`#=GR` and unparsed tags included) as long as there are no weights and no cut-offs - the two fields
    whose numeric value the reader MODEL does not carry (with them the statement is about `strtod ∘ printf`, which the harness
    checks on the real library: `rw=same`) -/
theorem stockholm_rewrite_same (pfam : Bool) (abc : Option Abc) (cfg : Cfg) (m : Msa) (hw : m.hasw = false) (hc : m.cutoff = [])
    (hd : cfg.digital = m.digital) (ha : abc.isSome = m.digital) :
    stockholmWrite pfam abc (stoProject cfg m) = stockholmWrite pfam abc m :=
  stockholmWrite_project pfam abc cfg m hw hc hd ha

/-- … text mode -/
theorem stockholm_rewrite_same_text (pfam : Bool) (m : Msa) (h : StoTextWritable m) (hw : m.hasw = false) (hc : m.cutoff = []) :
    stockholmWrite pfam none (stoProject (stockholmCfg none) m) = stockholmWrite pfam none m :=
  stockholmWrite_project pfam none (stockholmCfg none) m hw hc (by rw [h.dig]; rfl) (by rw [h.dig]; rfl)

/-- … digital mode (amino, DNA, RNA) -/
theorem stockholm_rewrite_same_digital (pfam : Bool) (a : Abc) (m : Msa) (h : StoDigitalWritable a m) (hw : m.hasw = false)
    (hc : m.cutoff = []) :
    stockholmWrite pfam (some a) (stoProject (stockholmCfg (some a)) m) = stockholmWrite pfam (some a) m :=
  stockholmWrite_project pfam (some a) (stockholmCfg (some a)) m hw hc (by rw [h.dig]; rfl) (by rw [h.dig]; rfl)

/-- `printf("%.1f")` of a finite single-precision value is a token the cut-off parser accepts (`esl_mem_IsReal`) -/
theorem cutoff_token_accepted (b : UInt32) (h : finiteF32 b) : memIsReal (fmtF1 b) = true := (fmtF1_realTok b h).real

/-- … and the hypothesis is needed: an infinite cut-off is printed as `inf`, which the reader rejects -/
example : fmtF1 0x7f800000 = str "inf" ∧ memIsReal (fmtF1 0x7f800000) = false := by decide +kernel

/-! ### non-vacuity -/

/-- names "a", "bb"; rows "AC-GT", "ACGTT" -/
def exSto : Msa :=
  { alen := 5, names := [[97], [98, 98]], aseq := [[65, 67, 45, 71, 84], [65, 67, 71, 84, 84]], wgt := [.dflt, .dflt] }

theorem exSto_plain : StoPlain exSto := by constructor <;> rfl

theorem exSto_writable : StoTextWritable exSto :=
  { dig := rfl, ann := exSto_plain.ann, n1 := by decide, alen1 := by decide, nodup := by decide
    name_ok := by unfold stoNameOk nameOk; decide +kernel
    row_ok := by decide +kernel }

example : stockholmRead (stockholmCfg none) (splitLines (stockholmWrite true none exSto))
    = (.ok (stoProject (stockholmCfg none) exSto), []) := by decide +kernel
example : stoProject (stockholmCfg none) exSto = exSto := by decide +kernel

/-- the same digitised with the DNA alphabet (A=0 C=1 G=2 T=3 gap=4) -/
def exStoDna : Msa :=
  { digital := true, kp := 18, alen := 5, names := exSto.names,
    ax := [[255, 0, 1, 4, 2, 3, 255], [255, 0, 1, 2, 3, 3, 255]], wgt := [.dflt, .dflt] }

theorem exStoDna_writable : StoDigitalWritable abcDna exStoDna :=
  { dig := rfl, ann := StoPlain.ann (by constructor <;> rfl), n1 := by decide, alen1 := by decide, nodup := by decide
    name_ok := by unfold stoNameOk nameOk; decide +kernel
    row_ok := by decide +kernel }

example : stockholmRead (stockholmCfg (some abcDna)) (splitLines (stockholmWrite true (some abcDna) exStoDna))
    = (.ok (stoProject (stockholmCfg (some abcDna)) exStoDna), []) := by decide +kernel
example : (stoProject (stockholmCfg (some abcDna)) exStoDna).ax = exStoDna.ax := by decide +kernel

/-- 2 sequences, 201 columns: two Stockholm blocks (200 + 1) -/
def exSto201 : Msa :=
  { alen := 201, names := [[115, 49], [115, 50]],
    aseq := [List.replicate 100 65 ++ [45] ++ List.replicate 100 67, List.replicate 200 71 ++ [84]], wgt := [.dflt, .dflt] }

theorem exSto201_writable : StoTextWritable exSto201 :=
  { dig := rfl, ann := StoPlain.ann (by constructor <;> rfl), n1 := by decide, alen1 := by decide, nodup := by decide
    name_ok := by unfold stoNameOk nameOk; decide +kernel
    row_ok := by decide +kernel }

example : (blockStarts exSto201.alen (stoCpl false exSto201)).length = 2 := by decide +kernel
example : stockholmRead (stockholmCfg none) (splitLines (stockholmWrite false none exSto201))
    = (.ok (stoProject (stockholmCfg none) exSto201), []) := by decide +kernel

/-- 2 sequences, 201 columns (two Stockholm blocks) with `#=GC SS_cons`, `#=GC RF`, `#=GF ID`, `#=GF DE` ("a b"), two comment
    lines (the second empty), `#=GF TC 25.0 20.5`, `#=GF GA 21.0`, and the unparsed tags `CC` ("some text") and `DR` (empty) -/
def exStoAnn : Msa :=
  { exSto201 with ssCons := some (List.replicate 150 60 ++ List.replicate 51 62), rf := some (List.replicate 201 120),
                  name := some [105, 100], desc := some [97, 32, 98],
                  comments := [str "made by hand", []],
                  cutoff := [some 0x41C80000, some 0x41A40000, some 0x41A80000, none, none, none],
                  gf := [(str "CC", str "some text"), (str "DR", [])] }

theorem exStoAnn_writable : StoTextWritable exStoAnn :=
  { dig := rfl
    ann :=
      { gs_tag_ok := fun t ht => by cases ht
        gs_nodup := List.nodup_nil
        gs_ne := fun t ht => absurd ht (Nat.not_lt_zero t)
        gs_per_ok := fun q hq l hl => by
          rcases q with _ | _ | _ | _
          · cases hl
          · cases hl
          · cases hl
          · omega
        gs_order := fun q _ _ hex => by
          obtain ⟨i, _, hv⟩ := hex
          rw [grVal_plain (m := gsMsa _) rfl rfl rfl rfl] at hv; cases hv
        gs_val := fun q i s hs => by rw [grVal_plain (m := gsMsa _) rfl rfl rfl rfl] at hs; cases hs
        per_ok := fun q hq l hl => by
          rcases q with _ | _ | _ | _
          · cases hl
          · cases hl
          · cases hl
          · omega
        gr_tag_ok := fun t ht => by cases ht
        gr_nodup := List.nodup_nil
        gr_ne := fun t ht => absurd ht (Nat.not_lt_zero t)
        gr_order := fun t ht => absurd ht (Nat.not_lt_zero t)
        gr_col := fun q i s hs => by rw [grVal_plain rfl rfl rfl rfl] at hs; cases hs
        gc_ok := fun t ht => by cases ht
        gc_nodup := List.nodup_nil
        cons_ok := fun k s hs => by
          rcases k with _ | _ | _ | _ | _ | _
          · cases hs; unfold colTextOk; decide +kernel
          · cases hs
          · cases hs
          · cases hs; unfold colTextOk; decide +kernel
          · cases hs
          · cases hs
        name_ok := fun v hv => by cases hv; unfold gfTokOk nameOk; decide +kernel
        acc_ok := fun v hv => by cases hv
        desc_ok := fun v hv => by cases hv; unfold gfTextOk; decide +kernel
        au_ok := fun v hv => by cases hv
        cut_ok := fun k v hv => by
          rcases k with _ | _ | _ | _ | _ | _ | k
          · cases hv; unfold finiteF32; decide +kernel
          · cases hv; unfold finiteF32; decide +kernel
          · cases hv; unfold finiteF32; decide +kernel
          · cases hv
          · cases hv
          · cases hv
          · cases hv
        com_ok := fun c hc => by
          have : c = str "made by hand" ∨ c = [] := by simpa [exStoAnn] using hc
          rcases this with rfl | rfl <;> (unfold comOk; decide +kernel)
        gf_ok := fun t ht => by
          have : t = (str "CC", str "some text") ∨ t = (str "DR", []) := by simpa [exStoAnn] using ht
          rcases this with rfl | rfl <;> (unfold gfTagOk gfTextOk nameOk; decide +kernel) }
    n1 := by decide, alen1 := by decide, nodup := by decide
    name_ok := by unfold stoNameOk nameOk; decide +kernel
    row_ok := by decide +kernel }

example : stockholmRead (stockholmCfg none) (splitLines (stockholmWrite false none exStoAnn))
    = (.ok (stoProject (stockholmCfg none) exStoAnn), []) := by decide +kernel
/-- everything comes back except the numeric value of the cut-offs, which the reader MODEL does not carry -/
example : { stoProject (stockholmCfg none) exStoAnn with cutoff := exStoAnn.cutoff } = exStoAnn := by decide +kernel
example : (stoProject (stockholmCfg none) exStoAnn).cutoff = [some 0, some 0, some 0, none, none, none] := by decide +kernel
example : (stockholmLines false none exStoAnn).take 10 =
    [str "# STOCKHOLM 1.0", str "#made by hand", str "#", [], str "#=GF ID id", str "#=GF DE a b", str "#=GF GA 21.0",
     str "#=GF TC 25.0 20.5", str "#=GF CC some text", str "#=GF DR "] := by decide +kernel

/-- 2 sequences, 201 columns (two blocks) with `#=GC RF` and the unparsed tags `#=GC csq` and `#=GC X` -/
def exStoGc : Msa :=
  { exSto201 with rf := some (List.replicate 201 120),
                  gc := [(str "csq", List.replicate 100 97 ++ List.replicate 101 98), (str "X", List.replicate 201 46)] }

theorem exStoGc_writable : StoTextWritable exStoGc :=
  { dig := rfl
    ann :=
      { gs_tag_ok := fun t ht => by cases ht
        gs_nodup := List.nodup_nil
        gs_ne := fun t ht => absurd ht (Nat.not_lt_zero t)
        gs_per_ok := fun q hq l hl => by
          rcases q with _ | _ | _ | _
          · cases hl
          · cases hl
          · cases hl
          · omega
        gs_order := fun q _ _ hex => by
          obtain ⟨i, _, hv⟩ := hex
          rw [grVal_plain (m := gsMsa _) rfl rfl rfl rfl] at hv; cases hv
        gs_val := fun q i s hs => by rw [grVal_plain (m := gsMsa _) rfl rfl rfl rfl] at hs; cases hs
        per_ok := fun q hq l hl => by
          rcases q with _ | _ | _ | _
          · cases hl
          · cases hl
          · cases hl
          · omega
        gr_tag_ok := fun t ht => by cases ht
        gr_nodup := List.nodup_nil
        gr_ne := fun t ht => absurd ht (Nat.not_lt_zero t)
        gr_order := fun t ht => absurd ht (Nat.not_lt_zero t)
        gr_col := fun q i s hs => by rw [grVal_plain rfl rfl rfl rfl] at hs; cases hs
        gc_ok := by unfold gcTagOk colTextOk nameOk; decide +kernel
        gc_nodup := by decide +kernel
        cons_ok := fun k s hs => by
          rcases k with _ | _ | _ | _ | _ | _
          · cases hs
          · cases hs
          · cases hs
          · cases hs; unfold colTextOk; decide +kernel
          · cases hs
          · cases hs
        name_ok := fun v hv => by cases hv
        acc_ok := fun v hv => by cases hv
        desc_ok := fun v hv => by cases hv
        au_ok := fun v hv => by cases hv
        cut_ok := fun k v hv => by have e : exStoGc.cutoff = [] := rfl; rw [e] at hv; simp at hv
        com_ok := fun c hc => by cases hc
        gf_ok := fun t ht => by cases ht }
    n1 := by decide, alen1 := by decide, nodup := by decide
    name_ok := by unfold stoNameOk nameOk; decide +kernel
    row_ok := by decide +kernel }

example : stockholmRead (stockholmCfg none) (splitLines (stockholmWrite false none exStoGc))
    = (.ok (stoProject (stockholmCfg none) exStoGc), []) := by decide +kernel
example : stoProject (stockholmCfg none) exStoGc = exStoGc := by decide +kernel
example : (stockholmLines false none exStoGc).drop 2 =
    [str "s1       " ++ List.replicate 100 65 ++ [45] ++ List.replicate 99 67, str "s2       " ++ List.replicate 200 71,
     str "#=GC RF  " ++ List.replicate 200 120, str "#=GC csq " ++ List.replicate 100 97 ++ List.replicate 100 98,
     str "#=GC X   " ++ List.replicate 200 46, [],
     str "s1       C", str "s2       T", str "#=GC RF  x", str "#=GC csq b", str "#=GC X   .", str "//"] := by decide +kernel

/-- 2 sequences, 201 columns (two blocks): `#=GR SS` on the first sequence only, `#=GR PP` on the second only, the unparsed
    `#=GR` tags `tA` (both sequences) and `tB` (second sequence only), and `#=GC RF` -/
def exStoGr : Msa :=
  { exSto201 with rf := some (List.replicate 201 120),
                  ss := some [some (List.replicate 100 60 ++ List.replicate 101 62), none],
                  pp := some [none, some (List.replicate 201 57)],
                  gr := [(str "tA", [some (List.replicate 201 97), some (List.replicate 200 98 ++ [99])]),
                         (str "tB", [none, some (List.replicate 201 100)])] }

theorem exStoGr_writable : StoTextWritable exStoGr :=
  { dig := rfl
    ann :=
      { gs_tag_ok := fun t ht => by cases ht
        gs_nodup := List.nodup_nil
        gs_ne := fun t ht => absurd ht (Nat.not_lt_zero t)
        gs_per_ok := fun q hq l hl => by
          rcases q with _ | _ | _ | _
          · cases hl
          · cases hl
          · cases hl
          · omega
        gs_order := fun q _ _ hex => by
          obtain ⟨i, _, hv⟩ := hex
          rw [grVal_plain (m := gsMsa _) rfl rfl rfl rfl] at hv; cases hv
        gs_val := fun q i s hs => by rw [grVal_plain (m := gsMsa _) rfl rfl rfl rfl] at hs; cases hs
        per_ok := fun q hq l hl => by
          rcases q with _ | _ | _ | _
          · cases hl; exact ⟨rfl, 0, by decide, rfl⟩
          · cases hl
          · cases hl; exact ⟨rfl, 1, by decide, rfl⟩
          · omega
        gr_tag_ok := by unfold grTagOk nameOk; decide +kernel
        gr_nodup := by decide +kernel
        gr_ne := by decide +kernel
        gr_order := by unfold grOrderOk; decide +kernel
        gr_col := fun q i s hs => by
          rcases q with _ | _ | _ | _ | _ | q <;> rcases i with _ | _ | i <;>
            first
            | (cases hs; unfold colTextOk; decide +kernel)
            | cases hs
        gc_ok := fun t ht => by cases ht
        gc_nodup := List.nodup_nil
        cons_ok := fun k s hs => by
          rcases k with _ | _ | _ | _ | _ | _
          · cases hs
          · cases hs
          · cases hs
          · cases hs; unfold colTextOk; decide +kernel
          · cases hs
          · cases hs
        name_ok := fun v hv => by cases hv
        acc_ok := fun v hv => by cases hv
        desc_ok := fun v hv => by cases hv
        au_ok := fun v hv => by cases hv
        cut_ok := fun k v hv => by have e : exStoGr.cutoff = [] := rfl; rw [e] at hv; simp at hv
        com_ok := fun c hc => by cases hc
        gf_ok := fun t ht => by cases ht }
    n1 := by decide, alen1 := by decide, nodup := by decide
    name_ok := by unfold stoNameOk nameOk; decide +kernel
    row_ok := by decide +kernel }

example : stockholmRead (stockholmCfg none) (splitLines (stockholmWrite false none exStoGr))
    = (.ok (stoProject (stockholmCfg none) exStoGr), []) := by decide +kernel
example : stoProject (stockholmCfg none) exStoGr = exStoGr := by decide +kernel
example : (stockholmLines false none exStoGr).map (·.take 14) =
    [str "# STOCKHOLM 1.", [], str "s1         AAA", str "#=GR s1 SS <<<", str "#=GR s1 tA aaa", str "s2         GGG",
     str "#=GR s2 PP 999", str "#=GR s2 tA bbb", str "#=GR s2 tB ddd", str "#=GC RF    xxx", [], str "s1         C",
     str "#=GR s1 SS >", str "#=GR s1 tA a", str "s2         T", str "#=GR s2 PP 9", str "#=GR s2 tA c", str "#=GR s2 tB d",
     str "#=GC RF    x", str "//"] := by decide +kernel

/-- the hypothesis `grOrderOk` is needed too: `m.gr = [tA, tB]`, but `tB` annotates the first sequence and `tA` only the second;
    the reader meets `tB` first and returns the tags in the order `[tB, tA]` -/
def exStoGrBad : Msa :=
  { exSto with gr := [(str "tA", [none, some (str "11111")]), (str "tB", [some (str "22222"), none])] }

example : ¬ grOrderOk exStoGrBad := by unfold grOrderOk; decide +kernel
example : stockholmRead (stockholmCfg none) (splitLines (stockholmWrite true none exStoGrBad))
    = (.ok { stoProject (stockholmCfg none) exStoGrBad with
               gr := [(str "tB", [some (str "22222"), none]), (str "tA", [none, some (str "11111")])] }, []) := by decide +kernel
example : stockholmRead (stockholmCfg none) (splitLines (stockholmWrite true none exStoGrBad))
    ≠ (.ok (stoProject (stockholmCfg none) exStoGrBad), []) := by decide +kernel

/-- 2 sequences, 201 columns: `#=GS … AC` for both sequences (the first `#=GS` kind written covers every sequence), `#=GS … DE`
    for the second only ("a b", with a blank inside), the unparsed tags `OS` (both sequences) and `DR` (second only) -/
def exStoGs : Msa :=
  { exSto201 with sqacc := some [some (str "P1"), some (str "Q2.1")], sqdesc := some [none, some (str "a b")],
                  gs := [(str "OS", [some (str "Homo sapiens"), some (str "Mus")]), (str "DR", [none, some (str "PDB; 1abc")])] }

theorem exStoGs_writable : StoTextWritable exStoGs :=
  { dig := rfl
    ann :=
      { gs_tag_ok := by unfold gsTagOk nameOk; decide +kernel
        gs_nodup := by decide +kernel
        gs_ne := by decide +kernel
        gs_per_ok := fun q hq l hl => by
          rcases q with _ | _ | _ | _
          · cases hl
          · cases hl; exact ⟨rfl, 0, by decide, rfl⟩
          · cases hl; exact ⟨rfl, 1, by decide, rfl⟩
          · omega
        gs_order := by unfold gsOrderOk; decide +kernel
        gs_val := fun q i s hs => by
          rcases q with _ | _ | _ | _ | _ | q <;> rcases i with _ | _ | i <;>
            first
            | (cases hs; unfold wgtTokOk gfTokOk gfTextOk nameOk; decide +kernel)
            | cases hs
        per_ok := fun q hq l hl => by
          rcases q with _ | _ | _ | _
          · cases hl
          · cases hl
          · cases hl
          · omega
        gr_tag_ok := fun t ht => by cases ht
        gr_nodup := List.nodup_nil
        gr_ne := fun t ht => absurd ht (Nat.not_lt_zero t)
        gr_order := fun t ht => absurd ht (Nat.not_lt_zero t)
        gr_col := fun q i s hs => by rw [grVal_plain rfl rfl rfl rfl] at hs; cases hs
        gc_ok := fun t ht => by cases ht
        gc_nodup := List.nodup_nil
        cons_ok := fun k s hs => by
          rcases k with _ | _ | _ | _ | _ | _ <;> cases hs
        name_ok := fun v hv => by cases hv
        acc_ok := fun v hv => by cases hv
        desc_ok := fun v hv => by cases hv
        au_ok := fun v hv => by cases hv
        cut_ok := fun k v hv => by have e : exStoGs.cutoff = [] := rfl; rw [e] at hv; simp at hv
        com_ok := fun c hc => by cases hc
        gf_ok := fun t ht => by cases ht }
    n1 := by decide, alen1 := by decide, nodup := by decide
    name_ok := by unfold stoNameOk nameOk; decide +kernel
    row_ok := by decide +kernel }

example : stockholmRead (stockholmCfg none) (splitLines (stockholmWrite false none exStoGs))
    = (.ok (stoProject (stockholmCfg none) exStoGs), []) := by decide +kernel
example : stoProject (stockholmCfg none) exStoGs = exStoGs := by decide +kernel
example : (stockholmLines false none exStoGs).take 12 =
    [str "# STOCKHOLM 1.0", [], str "#=GS s1 AC P1", str "#=GS s2 AC Q2.1", [], str "#=GS s2 DE a b", [],
     str "#=GS s1 OS Homo sapiens", str "#=GS s2 OS Mus", [], str "#=GS s2 DR PDB; 1abc", []] := by decide +kernel

/-- 2 sequences, 201 columns, weights 0.5 and 1.0, an accession for the SECOND sequence only: `WT` is the first `#=GS` kind and
    covers every sequence, so `gsOrderOk` holds although `AC` is sparse -/
def exStoWt : Msa :=
  { exSto201 with hasw := true, wgt := [.val 0x3FE0000000000000, .dflt], sqacc := some [none, some (str "Q2")] }

theorem exStoWt_writable : StoTextWritable exStoWt :=
  { dig := rfl
    ann :=
      { gs_tag_ok := fun t ht => by cases ht
        gs_nodup := List.nodup_nil
        gs_ne := fun t ht => absurd ht (Nat.not_lt_zero t)
        gs_per_ok := fun q hq l hl => by
          rcases q with _ | _ | _ | _
          · cases hl; exact ⟨rfl, 0, by decide, rfl⟩
          · cases hl; exact ⟨rfl, 1, by decide, rfl⟩
          · cases hl
          · omega
        gs_order := gsOrderOk_of_hasw exStoWt rfl
        gs_val := fun q i s hs => by
          rcases q with _ | _ | _ | q <;> rcases i with _ | _ | i <;>
            first
            | (cases hs; unfold wgtTokOk gfTokOk gfTextOk nameOk; decide +kernel)
            | cases hs
        per_ok := fun q hq l hl => by
          rcases q with _ | _ | _ | _
          · cases hl
          · cases hl
          · cases hl
          · omega
        gr_tag_ok := fun t ht => by cases ht
        gr_nodup := List.nodup_nil
        gr_ne := fun t ht => absurd ht (Nat.not_lt_zero t)
        gr_order := fun t ht => absurd ht (Nat.not_lt_zero t)
        gr_col := fun q i s hs => by rw [grVal_plain rfl rfl rfl rfl] at hs; cases hs
        gc_ok := fun t ht => by cases ht
        gc_nodup := List.nodup_nil
        cons_ok := fun k s hs => by
          rcases k with _ | _ | _ | _ | _ | _ <;> cases hs
        name_ok := fun v hv => by cases hv
        acc_ok := fun v hv => by cases hv
        desc_ok := fun v hv => by cases hv
        au_ok := fun v hv => by cases hv
        cut_ok := fun k v hv => by have e : exStoWt.cutoff = [] := rfl; rw [e] at hv; simp at hv
        com_ok := fun c hc => by cases hc
        gf_ok := fun t ht => by cases ht }
    n1 := by decide, alen1 := by decide, nodup := by decide
    name_ok := by unfold stoNameOk nameOk; decide +kernel
    row_ok := by decide +kernel }

example : stockholmRead (stockholmCfg none) (splitLines (stockholmWrite false none exStoWt))
    = (.ok (stoProject (stockholmCfg none) exStoWt), []) := by decide +kernel
/-- everything comes back except the numeric value of the weights, which the reader MODEL does not carry -/
example : stoProject (stockholmCfg none) exStoWt = { exStoWt with wgt := [.val 0, .val 0] } := by decide +kernel
example : (stockholmLines false none exStoWt).take 7 =
    [str "# STOCKHOLM 1.0", [], str "#=GS s1 WT 0.50", str "#=GS s2 WT 1.00", [], str "#=GS s2 AC Q2", []] := by decide +kernel
example := stockholm_roundtrip_full false none _ id _ exStoWt (stoTextWritable_writable exStoWt exStoWt_writable)

/-- known finding C03:stockholm:first-mention-order: only the SECOND sequence has a `#=GS … AC` line; the reader meets `bb` first
    (in the `#=GS` section) and numbers it 0: the alignment comes back with its sequences in another order -/
def exStoGsBad : Msa := { exSto with sqacc := some [none, some (str "X1")] }

example : stockholmLines true none exStoGsBad =
    [str "# STOCKHOLM 1.0", [], str "#=GS bb AC X1", [], str "a  AC-GT", str "bb ACGTT", str "//"] := by decide +kernel
example : stockholmRead (stockholmCfg none) (splitLines (stockholmWrite true none exStoGsBad))
    = (.ok { stoProject (stockholmCfg none) exStoGsBad with
               names := [[98, 98], [97]], aseq := [[65, 67, 71, 84, 84], [65, 67, 45, 71, 84]], sqacc := some [some (str "X1"), none] }, []) := by
  decide +kernel
example : stockholmRead (stockholmCfg none) (splitLines (stockholmWrite true none exStoGsBad))
    ≠ (.ok (stoProject (stockholmCfg none) exStoGsBad), []) := by decide +kernel
/-- … and it is exactly `gsOrderOk` that this alignment violates -/
example : ¬ gsOrderOk exStoGsBad := by unfold gsOrderOk; decide +kernel

/-- re-writing: the annotated example without its cut-offs gives the same bytes; with them the MODEL's re-read alignment has
    lost the values (the real library has not: the harness compares `rw=same` on every case) -/
example : stockholmWrite false none (stoProject (stockholmCfg none) { exStoAnn with cutoff := [] })
    = stockholmWrite false none { exStoAnn with cutoff := [] } := by decide +kernel
example : stockholmWrite false none (stoProject (stockholmCfg none) exStoAnn) ≠ stockholmWrite false none exStoAnn := by decide +kernel

/-- non-vacuity of `stockholm_ann_write_accepted`: the example with `#=GS AC DE OS DR` (text), the DNA example (digital) -/
example := stockholm_ann_write_accepted false exStoGs exStoGs_writable
example := stockholm_ann_write_accepted false exStoGr exStoGr_writable
example := stockholm_ann_write_accepted_digital true abcDna (Or.inr (Or.inl rfl)) exStoDna exStoDna_writable

/-! ## ===== STOCKHOLM/PFAM — end ===== -/

/-! ## ===== SELEX / A2M — begin =====

SELEX: round trip through `esl_msafile_selex_Write` (`selexWrite`: 60-column blocks separated by one blank line, name field
`max 4 (longest name)` wide + one blank) and `esl_msafile_selex_Read`, for alignments of ANY size (any number of blocks)
that carry names and aligned rows only (`SelexPlain`: no `#=CS`/`#=RF`/`#=MM` line, no `#=SS`/`#=SA` line for any sequence).
`SelexTextWritable` / `SelexDigitalWritable`: ≥ 1 sequence, ≥ 1 column; names non-empty, without blank/tab/NUL/LF, not
beginning with `#` (`selexNameOk`); text residues graphic (so: no white space - a `.`/`-`/`~` gap is text); digital rows
well formed.  `selexProject` = names, rows in the reader's mode, `#=CS`/`#=RF`/`#=MM` as they are, per-sequence `#=SS`/`#=SA`
as the reader rebuilds them (no array when no sequence has one), default weights.

The theorems of THIS section assume `SelexPlain`; the annotation lines (stage 4) are covered by the section SELEX-ANN
further down (`selex_roundtrip_ann_text`, `selex_roundtrip_ann_digital`, …), which generalises them. -/

theorem selex_write_deterministic (abc : Option Abc) (m₁ m₂ : Msa) (h : m₁ = m₂) : selexWrite abc m₁ = selexWrite abc m₂ := by rw [h]

theorem selexDigSymOk_of (a : Abc) (ha : a = abcAmino ∨ a = abcDna ∨ a = abcRna) : selexDigSymOk a = true := by
  rcases ha with h | h | h <;> subst h
  · exact selexDigSymOk_amino
  · exact selexDigSymOk_dna
  · exact selexDigSymOk_rna

/-- **SELEX round trip, text mode, names and rows, any number of blocks** (stages 1, 2) -/
theorem selex_roundtrip_plain_text (m : Msa) (h : SelexTextWritable m) :
    selexRead (selexCfg none) (splitLines (selexWrite none m)) = (.ok (selexProject (selexCfg none) m), []) :=
  selexRead_write_text m h

/-- **SELEX round trip, digital mode (amino, DNA, RNA), names and rows** (stage 3): the rows come back code for code -/
theorem selex_roundtrip_plain_digital (a : Abc) (ha : a = abcAmino ∨ a = abcDna ∨ a = abcRna) (m : Msa) (h : SelexDigitalWritable a m) :
    selexRead (selexCfg (some a)) (splitLines (selexWrite (some a) m)) = (.ok (selexProject (selexCfg (some a)) m), []) :=
  selexRead_write_digital a (selexDigSymOk_of a ha) m h

/-- the general form both are instances of -/
theorem selex_roundtrip_plain (abc : Option Abc) (cfg : Cfg) (enc : UInt8 → UInt8) (txt : Nat → Bytes) (m : Msa)
    (h : SelexWritable abc cfg enc txt m) (name_lf : ∀ i, i < m.nseq → (10 : UInt8) ∉ m.names.getD i []) :
    selexRead cfg (splitLines (selexWrite abc m)) = (.ok (selexProject cfg m), []) :=
  selexRead_write abc cfg enc txt m h name_lf

/-- library-written SELEX output is accepted, holds exactly one alignment (the next read is eslEOF), and the alignment read
    back is well formed (stage 5) -/
theorem selex_write_accepted (m : Msa) (h : SelexTextWritable m) :
    (∃ m', (selexRead (selexCfg none) (splitLines (selexWrite none m))).1 = .ok m' ∧ m'.wellFormed = true) ∧
    (selexRead (selexCfg none) (selexRead (selexCfg none) (splitLines (selexWrite none m))).2).1 = .eof := by
  have hr := selex_roundtrip_plain_text m h
  have hg := selexRead_good (selexCfg none) ⟨by decide +kernel, by decide +kernel⟩ (by decide +kernel) (splitLines (selexWrite none m))
  rw [hr] at hg
  refine ⟨⟨_, by rw [hr], hg⟩, ?_⟩
  rw [hr]
  simp [selexRead, runLines, selexFinish, selexFinal]

theorem selex_write_accepted_digital (a : Abc) (ha : a = abcAmino ∨ a = abcDna ∨ a = abcRna) (m : Msa) (h : SelexDigitalWritable a m) :
    ∃ m', (selexRead (selexCfg (some a)) (splitLines (selexWrite (some a) m))).1 = .ok m' ∧ m'.wellFormed = true := by
  have hr := selex_roundtrip_plain_digital a ha m h
  have hv : (selexCfg (some a)).valid ∧ (selexCfg (some a)).selexOk = true := by
    rcases ha with h | h | h <;> subst h
    · exact ⟨⟨by decide +kernel, by decide +kernel⟩, by decide +kernel⟩
    · exact ⟨⟨by decide +kernel, by decide +kernel⟩, by decide +kernel⟩
    · exact ⟨⟨by decide +kernel, by decide +kernel⟩, by decide +kernel⟩
  have hg := selexRead_good (selexCfg (some a)) hv.1 hv.2 (splitLines (selexWrite (some a) m))
  rw [hr] at hg
  exact ⟨_, by rw [hr], hg⟩

/-- what SELEX preserves of such an alignment: names, width and the aligned rows, exactly -/
theorem selex_preserves_names_rows (m : Msa) (h : SelexTextWritable m) :
    (selexProject (selexCfg none) m).names = m.names ∧ (selexProject (selexCfg none) m).alen = m.alen ∧
    ∀ i, i < m.nseq → (selexProject (selexCfg none) m).aseq.getD i [] = m.aseq.getD i [] := by
  refine ⟨rfl, rfl, ?_⟩
  intro i hi
  simp [selexProject, selexCfg, Cfg.digital, Msa.stored, h.dig, List.getD_eq_getElem?_getD, hi]

/-- **re-writing the re-read alignment reproduces the same bytes** (text mode): `write (read (write m)) = write m` -/
theorem selex_rewrite_same (m : Msa) (h : SelexTextWritable m) :
    ∃ m', (selexRead (selexCfg none) (splitLines (selexWrite none m))).1 = .ok m' ∧ selexWrite none m' = selexWrite none m :=
  ⟨selexProject (selexCfg none) m, by rw [selex_roundtrip_plain_text m h], selexWrite_project_text m h⟩

/-- … and in digital mode (amino, DNA, RNA) -/
theorem selex_rewrite_same_digital (a : Abc) (ha : a = abcAmino ∨ a = abcDna ∨ a = abcRna) (m : Msa) (h : SelexDigitalWritable a m) :
    ∃ m', (selexRead (selexCfg (some a)) (splitLines (selexWrite (some a) m))).1 = .ok m' ∧
      selexWrite (some a) m' = selexWrite (some a) m :=
  ⟨selexProject (selexCfg (some a)) m, by rw [selex_roundtrip_plain_digital a ha m h], selexWrite_project_digital a m h⟩

/-! ### non-vacuity: 2 sequences, 61 columns (two blocks: 60 + 1); the second row starts and ends with gap characters -/

def exSlx : Msa :=
  { alen := 61, names := [[115, 101, 113, 49], [97, 98, 99, 100, 101, 102, 103]],
    aseq := [List.replicate 30 65 ++ [45] ++ List.replicate 30 67, [46] ++ List.replicate 59 71 ++ [45]],
    wgt := [.dflt, .dflt] }

theorem exSlx_plain : SelexPlain exSlx := by constructor <;> decide +kernel

theorem exSlx_writable : SelexTextWritable exSlx :=
  { dig := rfl, plain := exSlx_plain, n1 := by decide, alen1 := by decide
    name_ok := by unfold selexNameOk sqTagOk nameOk; decide +kernel
    row_ok := by decide +kernel }

example : (blockStarts exSlx.alen selexCpl).length = 2 := by decide +kernel
example : selexRead (selexCfg none) (splitLines (selexWrite none exSlx))
    = (.ok (selexProject (selexCfg none) exSlx), []) := by decide +kernel
example : selexProject (selexCfg none) exSlx = exSlx := by decide +kernel
example : selexWrite none (selexProject (selexCfg none) exSlx) = selexWrite none exSlx := by decide +kernel

/-- the same digitised with the DNA alphabet (A=0 C=1 G=2 gap=4 missing=17) -/
def exSlxDna : Msa :=
  { digital := true, kp := 18, alen := 61, names := exSlx.names,
    ax := [255 :: (List.replicate 30 0 ++ [4] ++ List.replicate 30 1) ++ [255], 255 :: ([17] ++ List.replicate 59 2 ++ [4]) ++ [255]],
    wgt := [.dflt, .dflt] }

theorem exSlxDna_writable : SelexDigitalWritable abcDna exSlxDna :=
  { dig := rfl, plain := by constructor <;> decide +kernel, n1 := by decide, alen1 := by decide
    name_ok := by unfold selexNameOk sqTagOk nameOk; decide +kernel
    row_ok := by decide +kernel }

example : selexRead (selexCfg (some abcDna)) (splitLines (selexWrite (some abcDna) exSlxDna))
    = (.ok (selexProject (selexCfg (some abcDna)) exSlxDna), []) := by decide +kernel
example : (selexProject (selexCfg (some abcDna)) exSlxDna).ax = exSlxDna.ax := by decide +kernel

/-- stage 4, by evaluation only: `#=CS`, `#=RF`, `#=MM`, `#=SS` on the second sequence, `#=SA` on the first, 5 columns -/
def exSlxAnn : Msa :=
  { alen := 5, names := [[97], [98, 98, 98, 98, 98, 98]], aseq := [[65, 67, 45, 71, 84], [45, 67, 71, 84, 46]],
    wgt := [.dflt, .dflt], rf := some [120, 120, 46, 120, 120], ssCons := some [60, 60, 46, 62, 62],
    mm := some [46, 46, 109, 46, 46], ss := some [none, some [60, 46, 46, 46, 62]], sa := some [some [49, 50, 51, 52, 53], none] }

example : selexRead (selexCfg none) (splitLines (selexWrite none exSlxAnn))
    = (.ok (selexProject (selexCfg none) exSlxAnn), []) := by decide +kernel

/-! ### A2M

Round trip through `esl_msafile_a2m_Write` (`a2mWrite`, dotless, 60 per line) and `esl_msafile_a2m_Read`.
`A2mTextWritable` / `A2mDigitalWritable` say which alignments are covered: ≥ 1 sequence, ≥ 1 column, names without
blank/tab/NUL, descriptions that do not start with a blank and hold no NUL, no LF inside / CR at the end of a name line,
no separate accessions (A2M prints them into the description), rows of `alen` symbols / well-formed digital rows, and
EVERY COLUMN A CONSENSUS COLUMN (`msa->rf` alphanumeric everywhere or, without `rf`, the first sequence a residue
everywhere), so that the dotless output has no insert columns.  Any size (`alen` > 60: several lines per record).
`a2mProject` is what A2M represents of such an alignment: names, descriptions, `rf` = `x` in every column, default
weights, and the rows AS WRITTEN: letters upper-cased, `O`/`o` (pyrrolysine) as `X` / the unknown residue, every
non-residue symbol (text: non-letters; digital: gap, `*`, `~`) as `-` / the gap (`a2mRow_text`, `a2mRow_digital`);
rows made of upper-case letters other than `O` and `-` come back unchanged (`a2m_preserves_names_rows`).
The theorems of this first part (`a2m_roundtrip…`, `a2m_write_accepted…`, `a2m_rewrite_same…`) are for alignments WITHOUT insert
columns.  Alignments WITH insert columns (any `msa->rf`, or none: first sequence as consensus) are covered by the second part
below ("A2M, alignments with insert columns"): `a2m_roundtrip_ins_text/_digital/_ins` (read ∘ write = `a2mProjectIns`, the
reader's padding phase included, any number of records and of 60-character lines), `a2m_ins_write_accepted(_digital)`,
`a2m_ins_rewrite_same_text/_digital` (write ∘ read ∘ write = write), and `a2m_ins_subsumes_text/_digital` (for an insert-free
alignment `a2mProjectIns = a2mProject`, so the second part subsumes the first).  Records that print no character at all are
covered too (`exA2mInsEmpty`).  Not covered: separate accessions (`msa->sqacc`; the writer prints them into the description),
and the non-dotless output (`do_dotless = FALSE` is not reachable through the API). -/

theorem a2m_write_deterministic (abc : Option Abc) (m₁ m₂ : Msa) (h : m₁ = m₂) : a2mWrite abc m₁ = a2mWrite abc m₂ := by rw [h]

theorem a2mDigSymOk_of (a : Abc) (ha : a = abcAmino ∨ a = abcDna ∨ a = abcRna) : a2mDigSymOk a = true := by
  rcases ha with h | h | h <;> subst h
  · exact a2mDigSymOk_amino
  · exact a2mDigSymOk_dna
  · exact a2mDigSymOk_rna

/-- **A2M round trip, text mode**: `read (write m) = ok (project m)`, nothing left unread -/
theorem a2m_roundtrip_text (m : Msa) (h : A2mTextWritable m) :
    a2mRead (a2mCfg none) (splitLines (a2mWrite none m)) = (.ok (a2mProject none (a2mCfg none) id m), []) :=
  a2mRead_write (a2mTextWritable_writable m h)

/-- **A2M round trip, digital mode** (amino, DNA, RNA) -/
theorem a2m_roundtrip_digital (a : Abc) (ha : a = abcAmino ∨ a = abcDna ∨ a = abcRna) (m : Msa) (h : A2mDigitalWritable a m) :
    a2mRead (a2mCfg (some a)) (splitLines (a2mWrite (some a) m))
      = (.ok (a2mProject (some a) (a2mCfg (some a)) (a2mEnc a) m), []) :=
  a2mRead_write (a2mDigitalWritable_writable a (a2mDigSymOk_of a ha) m h)

/-- the general form both are instances of -/
theorem a2m_roundtrip (abc : Option Abc) (cfg : Cfg) (enc : UInt8 → UInt8) (m : Msa) (h : A2mWritable abc cfg enc m) :
    a2mRead cfg (splitLines (a2mWrite abc m)) = (.ok (a2mProject abc cfg enc m), []) :=
  a2mRead_write h

/-- library-written A2M output is accepted by the reader, holds exactly one alignment (the next read is eslEOF), and the
    alignment read back is well formed (text mode) -/
theorem a2m_write_accepted (m : Msa) (h : A2mTextWritable m) :
    (∃ m', (a2mRead (a2mCfg none) (splitLines (a2mWrite none m))).1 = .ok m' ∧ m'.wellFormed = true) ∧
    (a2mRead (a2mCfg none) (a2mRead (a2mCfg none) (splitLines (a2mWrite none m))).2).1 = .eof := by
  have hr := a2m_roundtrip_text m h
  have hg := a2mRead_good (a2mCfg none) ⟨by decide +kernel, by decide +kernel⟩ ⟨by decide +kernel, by decide +kernel⟩
    (splitLines (a2mWrite none m))
  rw [hr] at hg
  refine ⟨⟨_, by rw [hr], hg⟩, ?_⟩
  rw [hr]
  simp [a2mRead, runLines, a2mFinish]

/-- … and in digital mode (amino, DNA, RNA) -/
theorem a2m_write_accepted_digital (a : Abc) (ha : a = abcAmino ∨ a = abcDna ∨ a = abcRna) (m : Msa) (h : A2mDigitalWritable a m) :
    (∃ m', (a2mRead (a2mCfg (some a)) (splitLines (a2mWrite (some a) m))).1 = .ok m' ∧ m'.wellFormed = true) ∧
    (a2mRead (a2mCfg (some a)) (a2mRead (a2mCfg (some a)) (splitLines (a2mWrite (some a) m))).2).1 = .eof := by
  have hr := a2m_roundtrip_digital a ha m h
  have hv : (a2mCfg (some a)).valid ∧ A2mValid (a2mCfg (some a)) := by
    rcases ha with h | h | h <;> subst h
    · exact ⟨⟨by decide +kernel, by decide +kernel⟩, ⟨by decide +kernel, by decide +kernel⟩⟩
    · exact ⟨⟨by decide +kernel, by decide +kernel⟩, ⟨by decide +kernel, by decide +kernel⟩⟩
    · exact ⟨⟨by decide +kernel, by decide +kernel⟩, ⟨by decide +kernel, by decide +kernel⟩⟩
  have hg := a2mRead_good (a2mCfg (some a)) hv.1 hv.2 (splitLines (a2mWrite (some a) m))
  rw [hr] at hg
  refine ⟨⟨_, by rw [hr], hg⟩, ?_⟩
  rw [hr]
  simp [a2mRead, runLines, a2mFinish]

/-- what comes back in text mode: names, `alen`, and each row with letters upper-cased, `O`/`o` as `X`, anything else as `-` -/
theorem a2m_rows_text (m : Msa) (h : A2mTextWritable m) :
    (a2mProject none (a2mCfg none) id m).names = m.names ∧ (a2mProject none (a2mCfg none) id m).alen = m.alen ∧
    ∀ i, i < m.nseq → (a2mProject none (a2mCfg none) id m).aseq.getD i [] = (m.aseq.getD i []).map a2mTextNorm := by
  refine ⟨rfl, rfl, ?_⟩
  intro i hi
  rw [← a2mRow_text m h i hi]
  simp [a2mProject, a2mCfg, Cfg.digital, List.getD_eq_getElem?_getD, hi]

/-- what A2M preserves exactly: names and rows made of upper-case letters other than `O` and of `-` -/
theorem a2m_preserves_names_rows (m : Msa) (h : A2mTextWritable m)
    (hr : ∀ i, i < m.nseq → ∀ t ∈ m.aseq.getD i [], consChar t) :
    (a2mProject none (a2mCfg none) id m).names = m.names ∧ (a2mProject none (a2mCfg none) id m).alen = m.alen ∧
    ∀ i, i < m.nseq → (a2mProject none (a2mCfg none) id m).aseq.getD i [] = m.aseq.getD i [] := by
  refine ⟨rfl, rfl, ?_⟩
  intro i hi
  rw [← a2mRow_text_exact m h i hi (hr i hi)]
  simp [a2mProject, a2mCfg, Cfg.digital, List.getD_eq_getElem?_getD, hi]

/-- what comes back in digital mode: code for code, except `O` → unknown residue and `*`, `~` → gap -/
theorem a2m_rows_digital (a : Abc) (ha : a = abcAmino ∨ a = abcDna ∨ a = abcRna) (m : Msa) (h : A2mDigitalWritable a m) :
    ∀ i, i < m.nseq → (a2mProject (some a) (a2mCfg (some a)) (a2mEnc a) m).ax.getD i []
      = dsqSENTINEL :: (List.range m.alen).map (fun p => a2mDigNorm a (axAt m i p)) ++ [dsqSENTINEL] := by
  intro i hi
  rw [← a2mRow_digital a (a2mDigSymOk_of a ha) m h i hi]
  simp [a2mProject, a2mCfg, Cfg.digital, List.getD_eq_getElem?_getD, hi]

/-- **re-writing the re-read alignment reproduces the same bytes** (text mode): `write (read (write m)) = write m` -/
theorem a2m_rewrite_same_text (m : Msa) (h : A2mTextWritable m) :
    ∃ m', (a2mRead (a2mCfg none) (splitLines (a2mWrite none m))).1 = .ok m' ∧ a2mWrite none m' = a2mWrite none m :=
  ⟨a2mProject none (a2mCfg none) id m, by rw [a2m_roundtrip_text m h], a2mWrite_project_text m h⟩

/-- … and in digital mode (amino, DNA, RNA) -/
theorem a2m_rewrite_same_digital (a : Abc) (ha : a = abcAmino ∨ a = abcDna ∨ a = abcRna) (m : Msa) (h : A2mDigitalWritable a m) :
    ∃ m', (a2mRead (a2mCfg (some a)) (splitLines (a2mWrite (some a) m))).1 = .ok m' ∧ a2mWrite (some a) m' = a2mWrite (some a) m := by
  have hf : a2mDigFixB a = true := by
    rcases ha with h | h | h <;> subst h
    · exact a2mDigFixB_amino
    · exact a2mDigFixB_dna
    · exact a2mDigFixB_rna
  exact ⟨a2mProject (some a) (a2mCfg (some a)) (a2mEnc a) m, by rw [a2m_roundtrip_digital a ha m h],
    a2mWrite_project_digital a (a2mDigSymOk_of a ha) hf m h⟩

/-! ## non-vacuity -/

/-- names "a", "bb"; rows "ACDGT", "A-gOT"; description "d e" on the first -/
def exA2m : Msa :=
  { alen := 5, names := [[97], [98, 98]], aseq := [[65, 67, 68, 71, 84], [65, 45, 103, 79, 84]],
    wgt := [.dflt, .dflt], sqdesc := some [some [100, 32, 101], none] }

example : a2mRead (a2mCfg none) (splitLines (a2mWrite none exA2m)) = (.ok (a2mProject none (a2mCfg none) id exA2m), []) := by
  decide +kernel
example : (a2mProject none (a2mCfg none) id exA2m).aseq = [[65, 67, 68, 71, 84], [65, 45, 71, 88, 84]] := by decide +kernel
example : (a2mProject none (a2mCfg none) id exA2m).sqdesc = exA2m.sqdesc := by decide +kernel
example : (a2mProject none (a2mCfg none) id exA2m).rf = some [120, 120, 120, 120, 120] := by decide +kernel

/-- 61 columns: two lines per record -/
def exA2mLong : Msa :=
  { alen := 61, names := [[97], [98]], aseq := [List.replicate 61 65, List.replicate 60 45 ++ [67]], wgt := [.dflt, .dflt] }

example : (a2mLines none exA2mLong).length = 6 := by decide +kernel
example : a2mRead (a2mCfg none) (splitLines (a2mWrite none exA2mLong))
    = (.ok (a2mProject none (a2mCfg none) id exA2mLong), []) := by decide +kernel
example : (a2mProject none (a2mCfg none) id exA2mLong).aseq = exA2mLong.aseq := by decide +kernel

/-- DNA: rows A C G T / A - N * ; the second comes back as A - N - -/
def exA2mDna : Msa :=
  { digital := true, kp := 18, alen := 4, names := [[97], [98]], ax := [[255, 0, 1, 2, 3, 255], [255, 0, 4, 15, 16, 255]],
    wgt := [.dflt, .dflt] }

example : a2mRead (a2mCfg (some abcDna)) (splitLines (a2mWrite (some abcDna) exA2mDna))
    = (.ok (a2mProject (some abcDna) (a2mCfg (some abcDna)) (a2mEnc abcDna) exA2mDna), []) := by decide +kernel
example : (a2mProject (some abcDna) (a2mCfg (some abcDna)) (a2mEnc abcDna) exA2mDna).ax
    = [[255, 0, 1, 2, 3, 255], [255, 0, 4, 15, 4, 255]] := by decide +kernel
example : a2mWrite (some abcDna) (a2mProject (some abcDna) (a2mCfg (some abcDna)) (a2mEnc abcDna) exA2mDna)
    = a2mWrite (some abcDna) exA2mDna := by decide +kernel
example : a2mWrite none (a2mProject none (a2mCfg none) id exA2m) = a2mWrite none exA2m := by decide +kernel

theorem lt_two_cases (i : Nat) (h : i < 2) : i = 0 ∨ i = 1 := by omega

/-- the hypotheses of the text-mode theorems hold of `exA2m` (which has a description, a gap, a lower-case letter and an `O`) -/
theorem exA2m_writable : A2mTextWritable exA2m :=
  { dig := rfl, n1 := by decide, alen1 := by decide, acc_none := rfl
    name_ok := fun i hi => by
      rcases lt_two_cases i hi with rfl | rfl
      · exact ⟨by decide, by decide⟩
      · exact ⟨by decide, by decide⟩
    desc_ok := fun i hi d hd => by
      rcases lt_two_cases i hi with rfl | rfl
      · have h0 : optAt exA2m.sqdesc 0 = some [100, 32, 101] := by decide +kernel
        rw [h0] at hd
        cases hd
        exact ⟨⟨100, [32, 101], rfl, by decide⟩, by decide⟩
      · have h1 : optAt exA2m.sqdesc 1 = none := by decide +kernel
        rw [h1] at hd
        cases hd
    hdr_line := fun i hi => by
      rcases lt_two_cases i hi with rfl | rfl
      · exact ⟨by decide +kernel, by decide +kernel⟩
      · exact ⟨by decide +kernel, by decide +kernel⟩
    row_len := fun i hi => by
      rcases lt_two_cases i hi with rfl | rfl <;> decide
    cons_ok := by decide +kernel }

/-- the hypotheses of the digital theorems hold of `exA2mDna` -/
theorem exA2mDna_writable : A2mDigitalWritable abcDna exA2mDna :=
  { dig := rfl, n1 := by decide, alen1 := by decide, acc_none := rfl
    name_ok := fun i hi => by
      rcases lt_two_cases i hi with rfl | rfl
      · exact ⟨by decide, by decide⟩
      · exact ⟨by decide, by decide⟩
    desc_ok := fun i hi d hd => by
      have h0 : optAt exA2mDna.sqdesc i = none := by
        rcases lt_two_cases i hi with rfl | rfl <;> decide +kernel
      rw [h0] at hd
      cases hd
    hdr_line := fun i hi => by
      rcases lt_two_cases i hi with rfl | rfl
      · exact ⟨by decide +kernel, by decide +kernel⟩
      · exact ⟨by decide +kernel, by decide +kernel⟩
    row_ok := fun i hi => by
      rcases lt_two_cases i hi with rfl | rfl <;> decide +kernel
    cons_ok := by decide +kernel }

/-! ### A2M, alignments with insert columns (the consensus / insert case convention)

`A2mInsTextWritable` / `A2mInsDigitalWritable a` drop the "every column a consensus column" and "≥ 1 column" conditions: any
`msa->rf` (or none), any mixture of consensus and insert columns, even none of either; a record may even print no character at
all (no consensus column and no residue in the row: the reader's `thislen == 0` edge case).  `a2mProjectIns` is what A2M represents of such an alignment (see its
definition in `A2mInsRoundTrip.lean`): the `ncons` consensus columns, and `ncons + 1` blocks of insert columns, block
`j` as wide as the longest run of inserted residues any sequence has between consensus columns `j-1` and `j`; inside a
block every sequence's inserted residues are left-justified and padded on the right with `.` (text) / the gap code
(digital); insert columns that hold no residue in any sequence vanish; `rf` is `x` on consensus columns, `.` on insert
columns; consensus residues upper case, inserted residues lower case, `O`/`o` as `X`/`x` (the unknown residue). -/

theorem a2mDigInsOk_of (a : Abc) (ha : a = abcAmino ∨ a = abcDna ∨ a = abcRna) : a2mDigInsOk a = true := by
  rcases ha with h | h | h <;> subst h
  · exact a2mDigInsOk_amino
  · exact a2mDigInsOk_dna
  · exact a2mDigInsOk_rna

/-- **A2M round trip with insert columns, text mode**: `read (write m) = ok (projectIns m)`, nothing left unread -/
theorem a2m_roundtrip_ins_text (m : Msa) (h : A2mInsTextWritable m) :
    a2mRead (a2mCfg none) (splitLines (a2mWrite none m)) = (.ok (a2mProjectIns none (a2mCfg none) id m), []) :=
  a2mRead_write_ins (a2mInsTextWritable_writable m h)

/-- **A2M round trip with insert columns, digital mode** (amino, DNA, RNA) -/
theorem a2m_roundtrip_ins_digital (a : Abc) (ha : a = abcAmino ∨ a = abcDna ∨ a = abcRna) (m : Msa) (h : A2mInsDigitalWritable a m) :
    a2mRead (a2mCfg (some a)) (splitLines (a2mWrite (some a) m))
      = (.ok (a2mProjectIns (some a) (a2mCfg (some a)) (a2mEnc a) m), []) :=
  a2mRead_write_ins (a2mInsDigitalWritable_writable a (a2mDigSymOk_of a ha) (a2mDigInsOk_of a ha) m h)

/-- the general form both are instances of -/
theorem a2m_roundtrip_ins (abc : Option Abc) (cfg : Cfg) (enc : UInt8 → UInt8) (m : Msa) (h : A2mInsWritable abc cfg enc m) :
    a2mRead cfg (splitLines (a2mWrite abc m)) = (.ok (a2mProjectIns abc cfg enc m), []) :=
  a2mRead_write_ins h

/-- library-written A2M output with insert columns is accepted by the reader, holds exactly one alignment (the next read is
    eslEOF), and the alignment read back is well formed (text mode) -/
theorem a2m_ins_write_accepted (m : Msa) (h : A2mInsTextWritable m) :
    (∃ m', (a2mRead (a2mCfg none) (splitLines (a2mWrite none m))).1 = .ok m' ∧ m'.wellFormed = true) ∧
    (a2mRead (a2mCfg none) (a2mRead (a2mCfg none) (splitLines (a2mWrite none m))).2).1 = .eof := by
  have hr := a2m_roundtrip_ins_text m h
  have hg := a2mRead_good (a2mCfg none) ⟨by decide +kernel, by decide +kernel⟩ ⟨by decide +kernel, by decide +kernel⟩
    (splitLines (a2mWrite none m))
  rw [hr] at hg
  refine ⟨⟨_, by rw [hr], hg⟩, ?_⟩
  rw [hr]
  simp [a2mRead, runLines, a2mFinish]

/-- … and in digital mode (amino, DNA, RNA) -/
theorem a2m_ins_write_accepted_digital (a : Abc) (ha : a = abcAmino ∨ a = abcDna ∨ a = abcRna) (m : Msa)
    (h : A2mInsDigitalWritable a m) :
    (∃ m', (a2mRead (a2mCfg (some a)) (splitLines (a2mWrite (some a) m))).1 = .ok m' ∧ m'.wellFormed = true) ∧
    (a2mRead (a2mCfg (some a)) (a2mRead (a2mCfg (some a)) (splitLines (a2mWrite (some a) m))).2).1 = .eof := by
  have hr := a2m_roundtrip_ins_digital a ha m h
  have hv : (a2mCfg (some a)).valid ∧ A2mValid (a2mCfg (some a)) := by
    rcases ha with h | h | h <;> subst h
    · exact ⟨⟨by decide +kernel, by decide +kernel⟩, ⟨by decide +kernel, by decide +kernel⟩⟩
    · exact ⟨⟨by decide +kernel, by decide +kernel⟩, ⟨by decide +kernel, by decide +kernel⟩⟩
    · exact ⟨⟨by decide +kernel, by decide +kernel⟩, ⟨by decide +kernel, by decide +kernel⟩⟩
  have hg := a2mRead_good (a2mCfg (some a)) hv.1 hv.2 (splitLines (a2mWrite (some a) m))
  rw [hr] at hg
  refine ⟨⟨_, by rw [hr], hg⟩, ?_⟩
  rw [hr]
  simp [a2mRead, runLines, a2mFinish]

/-! ## non-vacuity (insert columns) -/

/-- 3 sequences, 7 columns, `rf` = `x..x..x`: rows `A-cC..G`, `a..C.GT`, `-cdC..T`.
    Column 4 is an all-gap insert column (vanishes); `c` of the first row moves left and is padded (`c.`); the lower-case `a`
    in a consensus column comes back as `A`, the upper-case `G` in an insert column as `g`. -/
def exA2mIns : Msa :=
  { alen := 7, names := [[97], [98], [99]],
    aseq := [[65, 45, 99, 67, 46, 46, 71], [97, 46, 46, 67, 46, 71, 84], [45, 99, 100, 67, 46, 46, 84]],
    wgt := [.dflt, .dflt, .dflt], rf := some [120, 46, 46, 120, 46, 46, 120] }

example : a2mWrite none exA2mIns
    = [62, 97, 10, 65, 99, 67, 71, 10, 62, 98, 10, 65, 67, 103, 84, 10, 62, 99, 10, 45, 99, 100, 67, 84, 10] := by decide +kernel
example : a2mRead (a2mCfg none) (splitLines (a2mWrite none exA2mIns))
    = (.ok (a2mProjectIns none (a2mCfg none) id exA2mIns), []) := by decide +kernel
example : (a2mProjectIns none (a2mCfg none) id exA2mIns).alen = 6 := by decide +kernel
example : (a2mProjectIns none (a2mCfg none) id exA2mIns).aseq
    = [[65, 99, 46, 67, 46, 71], [65, 46, 46, 67, 103, 84], [45, 99, 100, 67, 46, 84]] := by decide +kernel
example : (a2mProjectIns none (a2mCfg none) id exA2mIns).rf = some [120, 46, 46, 120, 46, 120] := by decide +kernel
example : a2mNins none exA2mIns = [0, 2, 1, 0] := by decide +kernel

theorem lt_three_cases (i : Nat) (h : i < 3) : i = 0 ∨ i = 1 ∨ i = 2 := by omega

/-- the hypotheses of the text-mode theorems with insert columns hold of `exA2mIns` -/
theorem exA2mIns_writable : A2mInsTextWritable exA2mIns :=
  { dig := rfl, n1 := by decide, acc_none := rfl
    name_ok := fun i hi => by
      rcases lt_three_cases i hi with rfl | rfl | rfl
      · exact ⟨by decide, by decide⟩
      · exact ⟨by decide, by decide⟩
      · exact ⟨by decide, by decide⟩
    desc_ok := fun i hi d hd => by
      have h0 : optAt exA2mIns.sqdesc i = none := by
        rcases lt_three_cases i hi with rfl | rfl | rfl <;> decide +kernel
      rw [h0] at hd
      cases hd
    hdr_line := fun i hi => by
      rcases lt_three_cases i hi with rfl | rfl | rfl
      · exact ⟨by decide +kernel, by decide +kernel⟩
      · exact ⟨by decide +kernel, by decide +kernel⟩
      · exact ⟨by decide +kernel, by decide +kernel⟩
    row_len := fun i hi => by
      rcases lt_three_cases i hi with rfl | rfl | rfl <;> decide }

/-- DNA, `rf` = `x.x..x`: rows `A c G - - T`, `A - - - - T`, `- - G - t T`; column 3 vanishes, the pad is the gap code 4 -/
def exA2mInsDna : Msa :=
  { digital := true, kp := 18, alen := 6, names := [[97], [98], [99]],
    ax := [[255, 0, 1, 2, 4, 4, 3, 255], [255, 0, 4, 4, 4, 4, 3, 255], [255, 4, 4, 2, 4, 3, 3, 255]],
    wgt := [.dflt, .dflt, .dflt], rf := some [120, 46, 120, 46, 46, 120] }

example : a2mRead (a2mCfg (some abcDna)) (splitLines (a2mWrite (some abcDna) exA2mInsDna))
    = (.ok (a2mProjectIns (some abcDna) (a2mCfg (some abcDna)) (a2mEnc abcDna) exA2mInsDna), []) := by decide +kernel
example : (a2mProjectIns (some abcDna) (a2mCfg (some abcDna)) (a2mEnc abcDna) exA2mInsDna).ax
    = [[255, 0, 1, 2, 4, 3, 255], [255, 0, 4, 4, 4, 3, 255], [255, 4, 4, 2, 3, 3, 255]] := by decide +kernel
example : (a2mProjectIns (some abcDna) (a2mCfg (some abcDna)) (a2mEnc abcDna) exA2mInsDna).rf
    = some [120, 46, 120, 46, 120] := by decide +kernel

/-- the hypotheses of the digital theorems with insert columns hold of `exA2mInsDna` -/
theorem exA2mInsDna_writable : A2mInsDigitalWritable abcDna exA2mInsDna :=
  { dig := rfl, n1 := by decide, acc_none := rfl
    name_ok := fun i hi => by
      rcases lt_three_cases i hi with rfl | rfl | rfl
      · exact ⟨by decide, by decide⟩
      · exact ⟨by decide, by decide⟩
      · exact ⟨by decide, by decide⟩
    desc_ok := fun i hi d hd => by
      have h0 : optAt exA2mInsDna.sqdesc i = none := by
        rcases lt_three_cases i hi with rfl | rfl | rfl <;> decide +kernel
      rw [h0] at hd
      cases hd
    hdr_line := fun i hi => by
      rcases lt_three_cases i hi with rfl | rfl | rfl
      · exact ⟨by decide +kernel, by decide +kernel⟩
      · exact ⟨by decide +kernel, by decide +kernel⟩
      · exact ⟨by decide +kernel, by decide +kernel⟩
    row_ok := fun i hi => by
      rcases lt_three_cases i hi with rfl | rfl | rfl <;> decide +kernel }

/-- 62 columns, column 30 an insert column: two lines per record (60 + 2 and 60 + 1 characters) -/
def exA2mInsLong : Msa :=
  { alen := 62, names := [[97], [98]],
    aseq := [List.replicate 62 65, List.replicate 30 67 ++ [46] ++ List.replicate 31 67], wgt := [.dflt, .dflt],
    rf := some (List.replicate 30 120 ++ [46] ++ List.replicate 31 120) }

example : (a2mLines none exA2mInsLong).map List.length = [2, 60, 2, 2, 60, 1] := by decide +kernel
example : a2mRead (a2mCfg none) (splitLines (a2mWrite none exA2mInsLong))
    = (.ok (a2mProjectIns none (a2mCfg none) id exA2mInsLong), []) := by decide +kernel
example : (a2mProjectIns none (a2mCfg none) id exA2mInsLong).aseq
    = [List.replicate 30 65 ++ [97] ++ List.replicate 31 65, List.replicate 30 67 ++ [46] ++ List.replicate 31 67] := by
  decide +kernel

/-- no consensus column at all; the second record prints nothing (a name line only): rows `ac`, `..`, `.g` come back as
    `ac`, `..`, `g.`; and an alignment of zero columns -/
def exA2mInsEmpty : Msa :=
  { alen := 2, names := [[97], [98], [99]], aseq := [[97, 99], [46, 46], [46, 103]], wgt := [.dflt, .dflt, .dflt],
    rf := some [46, 46] }

example : a2mWrite none exA2mInsEmpty = [62, 97, 10, 97, 99, 10, 62, 98, 10, 62, 99, 10, 103, 10] := by decide +kernel
example : a2mRead (a2mCfg none) (splitLines (a2mWrite none exA2mInsEmpty))
    = (.ok (a2mProjectIns none (a2mCfg none) id exA2mInsEmpty), []) := by decide +kernel
example : (a2mProjectIns none (a2mCfg none) id exA2mInsEmpty).aseq = [[97, 99], [46, 46], [103, 46]] := by decide +kernel
example : (a2mProjectIns none (a2mCfg none) id exA2mInsEmpty).rf = some [46, 46] := by decide +kernel

theorem exA2mInsEmpty_writable : A2mInsTextWritable exA2mInsEmpty :=
  { dig := rfl, n1 := by decide, acc_none := rfl
    name_ok := fun i hi => by
      rcases lt_three_cases i hi with rfl | rfl | rfl
      · exact ⟨by decide, by decide⟩
      · exact ⟨by decide, by decide⟩
      · exact ⟨by decide, by decide⟩
    desc_ok := fun i hi d hd => by
      have h0 : optAt exA2mInsEmpty.sqdesc i = none := by
        rcases lt_three_cases i hi with rfl | rfl | rfl <;> decide +kernel
      rw [h0] at hd
      cases hd
    hdr_line := fun i hi => by
      rcases lt_three_cases i hi with rfl | rfl | rfl
      · exact ⟨by decide +kernel, by decide +kernel⟩
      · exact ⟨by decide +kernel, by decide +kernel⟩
      · exact ⟨by decide +kernel, by decide +kernel⟩
    row_len := fun i hi => by
      rcases lt_three_cases i hi with rfl | rfl | rfl <;> decide }

/-! ### A2M with insert columns: re-writing, and the insert-free case -/

theorem a2mDigCellFixB_of (a : Abc) (ha : a = abcAmino ∨ a = abcDna ∨ a = abcRna) : a2mDigCellFixB a = true := by
  rcases ha with h | h | h <;> subst h
  · exact a2mDigCellFixB_amino
  · exact a2mDigCellFixB_dna
  · exact a2mDigCellFixB_rna

/-- **re-writing the re-read alignment reproduces the same bytes** (text mode, insert columns allowed) -/
theorem a2m_ins_rewrite_same_text (m : Msa) (h : A2mInsTextWritable m) :
    ∃ m', (a2mRead (a2mCfg none) (splitLines (a2mWrite none m))).1 = .ok m' ∧ a2mWrite none m' = a2mWrite none m :=
  ⟨a2mProjectIns none (a2mCfg none) id m, by rw [a2m_roundtrip_ins_text m h], a2mWrite_projectIns_text m h⟩

/-- … and in digital mode (amino, DNA, RNA) -/
theorem a2m_ins_rewrite_same_digital (a : Abc) (ha : a = abcAmino ∨ a = abcDna ∨ a = abcRna) (m : Msa)
    (h : A2mInsDigitalWritable a m) :
    ∃ m', (a2mRead (a2mCfg (some a)) (splitLines (a2mWrite (some a) m))).1 = .ok m' ∧ a2mWrite (some a) m' = a2mWrite (some a) m :=
  ⟨a2mProjectIns (some a) (a2mCfg (some a)) (a2mEnc a) m, by rw [a2m_roundtrip_ins_digital a ha m h],
    a2mWrite_projectIns_digital a (a2mDigSymOk_of a ha) (a2mDigInsOk_of a ha) (a2mDigCellFixB_of a ha) m h⟩

/-- the general form: `write (projectIns m) = write m` whenever every printed character, read back and printed again in a
    column of its kind (`x` / `.`), is itself and the padding symbol prints as nothing in an insert column -/
theorem a2m_ins_rewrite_same (abc : Option Abc) (cfg : Cfg) (enc : UInt8 → UInt8) (m : Msa) (h : A2mInsWritable abc cfg enc m)
    (hd : cfg.digital = abc.isSome) (hpad : a2mCell abc 46 cfg.padSym = none)
    (hrow : ∀ i, i < m.nseq → ∀ t ∈ a2mWr abc m i, a2mCell abc (if isLower t then 46 else 120) (enc t) = some t) :
    a2mWrite abc (a2mProjectIns abc cfg enc m) = a2mWrite abc m :=
  a2mWrite_projectIns h hd hpad hrow

/-- the theorems with insert columns subsume the insert-free ones: an `A2mTextWritable` alignment is `A2mInsTextWritable`,
    and for it `a2mProjectIns` is `a2mProject` -/
theorem a2m_ins_subsumes_text (m : Msa) (h : A2mTextWritable m) :
    A2mInsTextWritable m ∧ a2mProjectIns none (a2mCfg none) id m = a2mProject none (a2mCfg none) id m :=
  ⟨a2mTextWritable_ins m h, a2mProjectIns_eq_project_text m h⟩

/-- … and in digital mode (amino, DNA, RNA) -/
theorem a2m_ins_subsumes_digital (a : Abc) (ha : a = abcAmino ∨ a = abcDna ∨ a = abcRna) (m : Msa) (h : A2mDigitalWritable a m) :
    A2mInsDigitalWritable a m ∧
    a2mProjectIns (some a) (a2mCfg (some a)) (a2mEnc a) m = a2mProject (some a) (a2mCfg (some a)) (a2mEnc a) m :=
  ⟨a2mDigitalWritable_ins a m h, a2mProjectIns_eq_project_digital a (a2mDigSymOk_of a ha) m h⟩

/-- the general form: every column a consensus column -/
theorem a2m_ins_subsumes (abc : Option Abc) (cfg : Cfg) (enc : UInt8 → UInt8) (m : Msa) (h : A2mWritable abc cfg enc m)
    (hc : ∀ pos, pos < m.alen → isConsensusCol abc m pos = true) :
    A2mInsWritable abc cfg enc m ∧ a2mProjectIns abc cfg enc m = a2mProject abc cfg enc m :=
  ⟨a2mWritable_ins h hc, a2mProjectIns_eq_project h hc⟩

example : a2mWrite none (a2mProjectIns none (a2mCfg none) id exA2mIns) = a2mWrite none exA2mIns := by decide +kernel
example : a2mWrite (some abcDna) (a2mProjectIns (some abcDna) (a2mCfg (some abcDna)) (a2mEnc abcDna) exA2mInsDna)
    = a2mWrite (some abcDna) exA2mInsDna := by decide +kernel
example : a2mWrite none (a2mProjectIns none (a2mCfg none) id exA2mInsLong) = a2mWrite none exA2mInsLong := by decide +kernel
example : a2mProjectIns none (a2mCfg none) id exA2m = a2mProject none (a2mCfg none) id exA2m := by decide +kernel
example : a2mProjectIns (some abcDna) (a2mCfg (some abcDna)) (a2mEnc abcDna) exA2mDna
    = a2mProject (some abcDna) (a2mCfg (some abcDna)) (a2mEnc abcDna) exA2mDna := by decide +kernel
example : ∃ m', (a2mRead (a2mCfg none) (splitLines (a2mWrite none exA2mIns))).1 = .ok m' ∧ a2mWrite none m' = a2mWrite none exA2mIns :=
  a2m_ins_rewrite_same_text exA2mIns exA2mIns_writable
example : A2mInsTextWritable exA2m ∧ a2mProjectIns none (a2mCfg none) id exA2m = a2mProject none (a2mCfg none) id exA2m :=
  a2m_ins_subsumes_text exA2m exA2m_writable

/-- what comes back (any mode): names, default weights, `alen` = consensus columns + the widths of the blocks of insert
    columns, `rf` = `.` over every block and `x` on every consensus column -/
theorem a2m_ins_shape (abc : Option Abc) (cfg : Cfg) (enc : UInt8 → UInt8) (m : Msa) :
    (a2mProjectIns abc cfg enc m).names = m.names ∧
    (a2mProjectIns abc cfg enc m).alen = a2mNcons abc m + (a2mNins abc m).sum ∧
    (a2mProjectIns abc cfg enc m).rf = some (rfOf (a2mNins abc m)) ∧
    (a2mProjectIns abc cfg enc m).wgt = List.replicate m.nseq Wgt.dflt ∧
    (a2mProjectIns abc cfg enc m).sqacc = none :=
  ⟨rfl, rfl, rfl, rfl, rfl⟩

/-- what comes back in text mode, row by row: the characters written for the row (`a2mWr`: letters of consensus columns upper
    case, other symbols of consensus columns `-`, letters of insert columns lower case, `O`/`o` as `X`/`x`, nothing else),
    cut at the consensus characters, every run of inserts padded with `.` to the width of its block -/
theorem a2m_ins_rows_text (m : Msa) (i : Nat) (hi : i < m.nseq) :
    (a2mProjectIns none (a2mCfg none) id m).aseq.getD i [] = padSegs 46 (a2mNins none m) (splitRow (a2mWr none m i)) :=
  a2mInsRow_text m i hi

/-- … and in digital mode: the codes the written characters are read back as, padded with the gap code -/
theorem a2m_ins_rows_digital (a : Abc) (m : Msa) (i : Nat) (hi : i < m.nseq) :
    (a2mProjectIns (some a) (a2mCfg (some a)) (a2mEnc a) m).ax.getD i []
      = dsqSENTINEL :: padSegs a.gap (a2mNins (some a) m) (segMap (a2mEnc a) (splitRow (a2mWr (some a) m i))) ++ [dsqSENTINEL] :=
  a2mInsRow_digital a m i hi

example : splitRow (a2mWr none exA2mIns 2) = ([], [(45, [99, 100]), (67, []), (84, [])]) := by decide +kernel
example : padSegs 46 [0, 2, 1, 0] ([], [(65, [99]), (67, []), (71, [])]) = [65, 99, 46, 67, 46, 71] := by decide +kernel

/-! ## ===== SELEX / A2M — end ===== -/

/-! ## ===== CLUSTAL / PSI-BLAST — begin =====

Clustal (`like = false`, header `CLUSTAL 2.1 multiple sequence alignment`) and Clustal-like (`like = true`, header
`EASEL (<version>) multiple sequence alignment`), any number of 60-column blocks.
`ClustalTextWritable` / `ClustalDigitalWritable` say what Clustal can carry through `esl_msafile_clustal_Read`:
≥ 1 sequence, ≥ 1 column, names not empty and without white space (the reader splits the line on `isspace`) or NUL,
text residues graphic, digital rows well formed, and no row AFTER THE FIRST of a block may look like a consensus line
(`esl_memspn(p, n, " .:*") == n` ends the block): its name holds a character outside `" .:*"`, or all its residues do
(digital: no `*` code in the row).  `clustalProject` is what Clustal represents: names, aligned rows, default weights. -/

theorem clustal_write_deterministic (like : Bool) (abc : Option Abc) (m₁ m₂ : Msa) (h : m₁ = m₂) :
    clustalWrite like abc m₁ = clustalWrite like abc m₂ := by rw [h]

theorem cluDigSymOk_of (a : Abc) (ha : a = abcAmino ∨ a = abcDna ∨ a = abcRna) : cluDigSymOk a = true := by
  rcases ha with h | h | h <;> subst h
  · exact cluDigSymOk_amino
  · exact cluDigSymOk_dna
  · exact cluDigSymOk_rna

/-- **Clustal / Clustal-like round trip, text mode** -/
theorem clustal_roundtrip_text (like : Bool) (m : Msa) (h : ClustalTextWritable m) :
    clustalRead like (clustalCfg none) (splitLines (clustalWrite like none m)) = (.ok (clustalProject (clustalCfg none) m), []) :=
  clustalRead_write like none (clustalCfg none) id _ m (clustalTextWritable_writable m h)

/-- **Clustal / Clustal-like round trip, digital mode** (amino, DNA, RNA) -/
theorem clustal_roundtrip_digital (like : Bool) (a : Abc) (ha : a = abcAmino ∨ a = abcDna ∨ a = abcRna) (m : Msa)
    (h : ClustalDigitalWritable a m) :
    clustalRead like (clustalCfg (some a)) (splitLines (clustalWrite like (some a) m))
      = (.ok (clustalProject (clustalCfg (some a)) m), []) :=
  clustalRead_write like (some a) (clustalCfg (some a)) (cluEnc a) _ m (clustalDigitalWritable_writable a (cluDigSymOk_of a ha) m h)

/-- the general form -/
theorem clustal_roundtrip (like : Bool) (abc : Option Abc) (cfg : Cfg) (enc : UInt8 → UInt8) (txt : Nat → Bytes) (m : Msa)
    (h : ClustalWritable abc cfg enc txt m) :
    clustalRead like cfg (splitLines (clustalWrite like abc m)) = (.ok (clustalProject cfg m), []) :=
  clustalRead_write like abc cfg enc txt m h

/-- library-written Clustal is accepted, holds exactly one alignment (the next read is eslEOF), and the alignment read
    back is well formed -/
theorem clustal_write_accepted (like : Bool) (m : Msa) (h : ClustalTextWritable m) :
    (∃ m', (clustalRead like (clustalCfg none) (splitLines (clustalWrite like none m))).1 = .ok m' ∧ m'.wellFormed = true) ∧
    (clustalRead like (clustalCfg none) (clustalRead like (clustalCfg none) (splitLines (clustalWrite like none m))).2).1 = .eof := by
  have hr := clustal_roundtrip_text like m h
  have hg := clustalRead_good like (clustalCfg none) ⟨by decide +kernel, by decide +kernel⟩ (splitLines (clustalWrite like none m))
  rw [hr] at hg
  refine ⟨⟨_, by rw [hr], hg⟩, ?_⟩
  rw [hr]
  rfl

/-- **re-writing the re-read alignment reproduces the same bytes**, text mode -/
theorem clustal_rewrite_same_text (like : Bool) (m : Msa) (h : ClustalTextWritable m) :
    ∃ m', (clustalRead like (clustalCfg none) (splitLines (clustalWrite like none m))).1 = .ok m' ∧
      clustalWrite like none m' = clustalWrite like none m :=
  ⟨clustalProject (clustalCfg none) m, by rw [clustal_roundtrip_text like m h], clustalWrite_project_text like m h⟩

/-- … and in digital mode (amino, DNA, RNA) -/
theorem clustal_rewrite_same_digital (like : Bool) (a : Abc) (ha : a = abcAmino ∨ a = abcDna ∨ a = abcRna) (m : Msa)
    (h : ClustalDigitalWritable a m) :
    ∃ m', (clustalRead like (clustalCfg (some a)) (splitLines (clustalWrite like (some a) m))).1 = .ok m' ∧
      clustalWrite like (some a) m' = clustalWrite like (some a) m :=
  ⟨clustalProject (clustalCfg (some a)) m, by rw [clustal_roundtrip_digital like a ha m h], clustalWrite_project_digital like a m h⟩

/-- what Clustal preserves: the names and the aligned rows exactly -/
theorem clustal_preserves_names_rows (m : Msa) (h : ClustalTextWritable m) :
    (clustalProject (clustalCfg none) m).names = m.names ∧ (clustalProject (clustalCfg none) m).alen = m.alen ∧
    ∀ i, i < m.nseq → (clustalProject (clustalCfg none) m).aseq.getD i [] = m.aseq.getD i [] := by
  refine ⟨rfl, rfl, ?_⟩
  intro i hi
  simp [clustalProject, clustalCfg, Cfg.digital, Msa.stored, h.dig, List.getD_eq_getElem?_getD, hi]

/-! ### non-vacuity: 2 sequences; 3 columns (one block) and 61 columns (two blocks); the second name is `*` -/

def exClu1 : Msa := { alen := 3, names := [str "seq1", str "b"], aseq := [str "ACG", str "A-G"], wgt := [.dflt, .dflt] }

theorem exClu1_writable : ClustalTextWritable exClu1 :=
  { dig := rfl, n1 := by decide, alen1 := by decide
    name_ok := by unfold cluNameOk; decide +kernel
    row_ok := by decide +kernel
    notcons := by decide +kernel }

example : clustalRead false (clustalCfg none) (splitLines (clustalWrite false none exClu1))
    = (.ok (clustalProject (clustalCfg none) exClu1), []) := by decide +kernel
example : clustalProject (clustalCfg none) exClu1 = exClu1 := by decide +kernel

/-- two blocks; the name of the second row is `*`: its residues keep it from being taken for a consensus line -/
def exClu : Msa :=
  { alen := 61, names := [[115, 101, 113, 49], [42]],
    aseq := [List.replicate 30 65 ++ [45] ++ List.replicate 30 67, List.replicate 60 71 ++ [63]],
    wgt := [.dflt, .dflt] }

theorem exClu_writable : ClustalTextWritable exClu :=
  { dig := rfl, n1 := by decide, alen1 := by decide
    name_ok := by unfold cluNameOk; decide +kernel
    row_ok := by decide +kernel
    notcons := by decide +kernel }

example : (blockStarts exClu.alen clustalCpl).length = 2 := by decide +kernel
example : clustalRead false (clustalCfg none) (splitLines (clustalWrite false none exClu))
    = (.ok (clustalProject (clustalCfg none) exClu), []) := by decide +kernel
example : clustalRead true (clustalCfg none) (splitLines (clustalWrite true none exClu))
    = (.ok (clustalProject (clustalCfg none) exClu), []) := by decide +kernel
example : clustalWrite true none (clustalProject (clustalCfg none) exClu) = clustalWrite true none exClu := by decide +kernel

/-- `notcons` is needed: with the name `*` and a row of `*` the second row of the FIRST block is taken for the consensus
    line, the real consensus line for a blank one, and the read returns eslOK with the first sequence only -/
example : (clustalRead false (clustalCfg none) (splitLines (clustalWrite false none
    { alen := 2, names := [[97], [42]], aseq := [[65, 67], [42, 42]], wgt := [.dflt, .dflt] }))).1
    = .ok { alen := 2, names := [[97]], aseq := [[65, 67]], wgt := [.dflt] } := by decide +kernel

/-- the same alignment digitised with the DNA alphabet (A=0 C=1 G=2 gap=4 missing=17) -/
def exCluDna : Msa :=
  { digital := true, kp := 18, alen := 61, names := exClu.names,
    ax := [255 :: (List.replicate 30 0 ++ [4] ++ List.replicate 30 1) ++ [255], 255 :: (List.replicate 60 2 ++ [17]) ++ [255]],
    wgt := [.dflt, .dflt] }

theorem exCluDna_writable : ClustalDigitalWritable abcDna exCluDna :=
  { dig := rfl, n1 := by decide, alen1 := by decide
    name_ok := by unfold cluNameOk; decide +kernel
    row_ok := by decide +kernel
    notcons := by decide +kernel }

example : clustalRead true (clustalCfg (some abcDna)) (splitLines (clustalWrite true (some abcDna) exCluDna))
    = (.ok (clustalProject (clustalCfg (some abcDna)) exCluDna), []) := by decide +kernel
example : (clustalProject (clustalCfg (some abcDna)) exCluDna).ax = exCluDna.ax := by decide +kernel

/-! ### PSI-BLAST

`esl_msafile_psiblast_Write` prints consensus columns (by `rf`, else by the first sequence) upper case, the others lower
case, everything that is not a residue as `-`, and `O` as the unknown residue; `esl_msafile_psiblast_Read` builds an RF line
from the case.  `PsiblastTextWritable` restricts to the alignments on which these conventions are the identity: residues
upper-case letters other than `O` or `-`, every column a consensus column or all `-`.  `psiblastProject cfg rf m` is what
comes back: names, rows, default weights, and the RF line `psiRf` (`x` where some row holds a residue, `-` elsewhere). -/

theorem psiblast_write_deterministic (abc : Option Abc) (m₁ m₂ : Msa) (h : m₁ = m₂) :
    psiblastWrite abc m₁ = psiblastWrite abc m₂ := by rw [h]

/-- **PSI-BLAST round trip, text mode**, any number of 60-column blocks -/
theorem psiblast_roundtrip_text (m : Msa) (h : PsiblastTextWritable m) :
    psiblastRead (psiblastCfg none) (splitLines (psiblastWrite none m))
      = (.ok (psiblastProject (psiblastCfg none) (psiRf (fun i => m.aseq.getD i []) m) m), []) :=
  psiblastRead_write none (psiblastCfg none) id _ m (psiblastTextWritable_writable m h)

theorem psiDigSymOk_of (a : Abc) (ha : a = abcAmino ∨ a = abcDna ∨ a = abcRna) : psiDigSymOk a = true := by
  rcases ha with h | h | h <;> subst h
  · exact psiDigSymOk_amino
  · exact psiDigSymOk_dna
  · exact psiDigSymOk_rna

/-- **PSI-BLAST round trip, digital mode** (amino, DNA, RNA): rows of residue codes (degenerate ones included, not
    pyrrolysine) and gaps, every column a consensus column or all gaps -/
theorem psiblast_roundtrip_digital (a : Abc) (ha : a = abcAmino ∨ a = abcDna ∨ a = abcRna) (m : Msa) (h : PsiblastDigitalWritable a m) :
    psiblastRead (psiblastCfg (some a)) (splitLines (psiblastWrite (some a) m))
      = (.ok (psiblastProject (psiblastCfg (some a)) (psiRf (psiDigTxt a m) m) m), []) :=
  psiblastRead_write (some a) (psiblastCfg (some a)) (psiEnc a) _ m (psiblastDigitalWritable_writable a (psiDigSymOk_of a ha) m h)

/-- the general form (`txt i` = the text written for row `i`, upper-case letters and `-`; `enc` = the input map on them) -/
theorem psiblast_roundtrip (abc : Option Abc) (cfg : Cfg) (enc : UInt8 → UInt8) (txt : Nat → Bytes) (m : Msa)
    (h : PsiblastWritable abc cfg enc txt m) :
    psiblastRead cfg (splitLines (psiblastWrite abc m)) = (.ok (psiblastProject cfg (psiRf txt m) m), []) :=
  psiblastRead_write abc cfg enc txt m h

/-- library-written PSI-BLAST is accepted, holds exactly one alignment, and the alignment read back is well formed -/
theorem psiblast_write_accepted (m : Msa) (h : PsiblastTextWritable m) :
    (∃ m', (psiblastRead (psiblastCfg none) (splitLines (psiblastWrite none m))).1 = .ok m' ∧ m'.wellFormed = true) ∧
    (psiblastRead (psiblastCfg none) (psiblastRead (psiblastCfg none) (splitLines (psiblastWrite none m))).2).1 = .eof := by
  have hr := psiblast_roundtrip_text m h
  have hg := psiblastRead_good (psiblastCfg none) ⟨by decide +kernel, by decide +kernel⟩ (splitLines (psiblastWrite none m))
  rw [hr] at hg
  refine ⟨⟨_, by rw [hr], hg⟩, ?_⟩
  rw [hr]
  rfl

/-- **re-writing the re-read alignment reproduces the same bytes**, text mode (although the re-read alignment carries
    an RF line the original need not have) -/
theorem psiblast_rewrite_same_text (m : Msa) (h : PsiblastTextWritable m) :
    ∃ m', (psiblastRead (psiblastCfg none) (splitLines (psiblastWrite none m))).1 = .ok m' ∧
      psiblastWrite none m' = psiblastWrite none m :=
  ⟨_, by rw [psiblast_roundtrip_text m h], psiblastWrite_project_text m h⟩

/-- what PSI-BLAST preserves: the names and the aligned rows exactly -/
theorem psiblast_preserves_names_rows (m : Msa) (h : PsiblastTextWritable m) (rf : Bytes) :
    (psiblastProject (psiblastCfg none) rf m).names = m.names ∧ (psiblastProject (psiblastCfg none) rf m).alen = m.alen ∧
    ∀ i, i < m.nseq → (psiblastProject (psiblastCfg none) rf m).aseq.getD i [] = m.aseq.getD i [] := by
  refine ⟨rfl, rfl, ?_⟩
  intro i hi
  simp [psiblastProject, psiblastCfg, Cfg.digital, Msa.stored, h.dig, List.getD_eq_getElem?_getD, hi]

/-! non-vacuity: 2 sequences; 3 columns, and 61 columns (two blocks) with an all-gap column and a gap in the second row -/

def exPsi1 : Msa := { alen := 3, names := [str "seq1", str "b"], aseq := [str "ACG", str "A-G"], wgt := [.dflt, .dflt] }

theorem exPsi1_writable : PsiblastTextWritable exPsi1 :=
  { dig := rfl, n1 := by decide, alen1 := by decide
    name_ok := by unfold cluNameOk; decide +kernel
    row_ok := by decide +kernel
    col_ok := by decide +kernel }

example : psiblastRead (psiblastCfg none) (splitLines (psiblastWrite none exPsi1))
    = (.ok (psiblastProject (psiblastCfg none) (psiRf (fun i => exPsi1.aseq.getD i []) exPsi1) exPsi1), []) := by decide +kernel
example : psiRf (fun i => exPsi1.aseq.getD i []) exPsi1 = str "xxx" := by decide +kernel

def exPsi : Msa :=
  { alen := 61, names := [[115, 101, 113, 49], [42]],
    aseq := [List.replicate 30 65 ++ [45] ++ List.replicate 30 67, List.replicate 29 71 ++ [45, 45] ++ List.replicate 30 84],
    wgt := [.dflt, .dflt] }

theorem exPsi_writable : PsiblastTextWritable exPsi :=
  { dig := rfl, n1 := by decide, alen1 := by decide
    name_ok := by unfold cluNameOk; decide +kernel
    row_ok := by decide +kernel
    col_ok := by decide +kernel }

example : (blockStarts exPsi.alen psiCpl).length = 2 := by decide +kernel
example : psiblastRead (psiblastCfg none) (splitLines (psiblastWrite none exPsi))
    = (.ok (psiblastProject (psiblastCfg none) (psiRf (fun i => exPsi.aseq.getD i []) exPsi) exPsi), []) := by decide +kernel
example : psiRf (fun i => exPsi.aseq.getD i []) exPsi = List.replicate 30 120 ++ [45] ++ List.replicate 30 120 := by decide +kernel
example : psiblastWrite none (psiblastProject (psiblastCfg none) (psiRf (fun i => exPsi.aseq.getD i []) exPsi) exPsi)
    = psiblastWrite none exPsi := by decide +kernel

/-- the same alignment digitised with the DNA alphabet (A=0 C=1 G=2 T=3 gap=4) -/
def exPsiDna : Msa :=
  { digital := true, kp := 18, alen := 61, names := exPsi.names,
    ax := [255 :: (List.replicate 30 0 ++ [4] ++ List.replicate 30 1) ++ [255],
           255 :: (List.replicate 29 2 ++ [4, 4] ++ List.replicate 30 3) ++ [255]],
    wgt := [.dflt, .dflt] }

theorem exPsiDna_writable : PsiblastDigitalWritable abcDna exPsiDna :=
  { dig := rfl, n1 := by decide, alen1 := by decide
    name_ok := by unfold cluNameOk; decide +kernel
    row_ok := by decide +kernel
    col_ok := by decide +kernel }

example : psiblastRead (psiblastCfg (some abcDna)) (splitLines (psiblastWrite (some abcDna) exPsiDna))
    = (.ok (psiblastProject (psiblastCfg (some abcDna)) (psiRf (psiDigTxt abcDna exPsiDna) exPsiDna) exPsiDna), []) := by decide +kernel
example : (psiblastProject (psiblastCfg (some abcDna)) (psiRf (psiDigTxt abcDna exPsiDna) exPsiDna) exPsiDna).ax = exPsiDna.ax := by
  decide +kernel

/-! ## ===== CLUSTAL / PSI-BLAST — end ===== -/

/-! ## ===== SELEX-ANN — begin ===== -/

/-! SELEX round trip WITH the annotation SELEX carries: `#=CS` (`ssCons`), `#=RF` (`rf`), `#=MM` (`mm`), per-sequence `#=SS`
(`ss[i]`) and `#=SA` (`sa[i]`), each independently present or absent (per sequence for SS/SA), any number of 60-column
blocks, text and digital mode.  `SelexAnnTextWritable` / `SelexAnnDigitalWritable` = the conditions of `SelexTextWritable` /
`SelexDigitalWritable` on names and rows, with `SelexPlain` replaced by `SelexAnn`: every annotation string present has one
character per column (`length = alen`) and holds no white space and no NUL (`annStrOk`).  (The reader copies annotation
characters unchanged, but takes leading and trailing white space of a 60-column chunk for padding: it comes back as `.`;
so white space is excluded, which is slightly stronger than needed: white space strictly inside every chunk would survive.)
The name field is `max 4 (longest name)` wide, so the 4-character tags `#=XX` fit also when every name is shorter.
`selexProject` says what comes back: names, rows, `ssCons`/`rf`/`mm` as they are, `ss`/`sa` as arrays of `nseq` entries
(no array when no sequence has one), default weights. -/

/-- **SELEX round trip with annotation lines, text mode** -/
theorem selex_roundtrip_ann_text (m : Msa) (h : SelexAnnTextWritable m) :
    selexRead (selexCfg none) (splitLines (selexWrite none m)) = (.ok (selexProject (selexCfg none) m), []) :=
  selexRead_write_ann_text m h

/-- **SELEX round trip with annotation lines, digital mode** (amino, DNA, RNA) -/
theorem selex_roundtrip_ann_digital (a : Abc) (ha : a = abcAmino ∨ a = abcDna ∨ a = abcRna) (m : Msa)
    (h : SelexAnnDigitalWritable a m) :
    selexRead (selexCfg (some a)) (splitLines (selexWrite (some a) m)) = (.ok (selexProject (selexCfg (some a)) m), []) :=
  selexRead_write_ann_digital a (selexDigSymOk_of a ha) m h

/-- the general form both are instances of -/
theorem selex_roundtrip_ann (abc : Option Abc) (cfg : Cfg) (enc : UInt8 → UInt8) (txt : Nat → Bytes) (m : Msa)
    (h : SelexAnnWritable abc cfg enc txt m) (name_lf : ∀ i, i < m.nseq → (10 : UInt8) ∉ m.names.getD i []) :
    selexRead cfg (splitLines (selexWrite abc m)) = (.ok (selexProject cfg m), []) :=
  selexRead_write_ann abc cfg enc txt m h name_lf

/-- library-written annotated SELEX output is accepted, holds exactly one alignment (the next read is eslEOF), and the
    alignment read back is well formed -/
theorem selex_ann_write_accepted (m : Msa) (h : SelexAnnTextWritable m) :
    (∃ m', (selexRead (selexCfg none) (splitLines (selexWrite none m))).1 = .ok m' ∧ m'.wellFormed = true) ∧
    (selexRead (selexCfg none) (selexRead (selexCfg none) (splitLines (selexWrite none m))).2).1 = .eof := by
  have hr := selex_roundtrip_ann_text m h
  have hg := selexRead_good (selexCfg none) ⟨by decide +kernel, by decide +kernel⟩ (by decide +kernel) (splitLines (selexWrite none m))
  rw [hr] at hg
  refine ⟨⟨_, by rw [hr], hg⟩, ?_⟩
  rw [hr]
  simp [selexRead, runLines, selexFinish, selexFinal]

theorem selex_ann_write_accepted_digital (a : Abc) (ha : a = abcAmino ∨ a = abcDna ∨ a = abcRna) (m : Msa)
    (h : SelexAnnDigitalWritable a m) :
    ∃ m', (selexRead (selexCfg (some a)) (splitLines (selexWrite (some a) m))).1 = .ok m' ∧ m'.wellFormed = true := by
  have hr := selex_roundtrip_ann_digital a ha m h
  have hv : (selexCfg (some a)).valid ∧ (selexCfg (some a)).selexOk = true := by
    rcases ha with h | h | h <;> subst h
    · exact ⟨⟨by decide +kernel, by decide +kernel⟩, by decide +kernel⟩
    · exact ⟨⟨by decide +kernel, by decide +kernel⟩, by decide +kernel⟩
    · exact ⟨⟨by decide +kernel, by decide +kernel⟩, by decide +kernel⟩
  have hg := selexRead_good (selexCfg (some a)) hv.1 hv.2 (splitLines (selexWrite (some a) m))
  rw [hr] at hg
  exact ⟨_, by rw [hr], hg⟩

/-- **re-writing the re-read alignment reproduces the same bytes**, annotation lines included (text mode) -/
theorem selex_ann_rewrite_same (m : Msa) (h : SelexAnnTextWritable m) :
    selexWrite none (selexProject (selexCfg none) m) = selexWrite none m :=
  selexWrite_project_ann_text m h

/-- … and in digital mode (amino, DNA, RNA) -/
theorem selex_ann_rewrite_same_digital (a : Abc) (m : Msa) (h : SelexAnnDigitalWritable a m) :
    selexWrite (some a) (selexProject (selexCfg (some a)) m) = selexWrite (some a) m :=
  selexWrite_project_ann_digital a m h

/-- what SELEX preserves of an annotated alignment: names, width, the aligned rows, `rf`, `ssCons`, `mm`, and for every
    sequence its `ss` and `sa` string (or their absence), exactly -/
theorem selex_ann_preserves (m : Msa) (h : SelexAnnTextWritable m) :
    (selexProject (selexCfg none) m).names = m.names ∧ (selexProject (selexCfg none) m).alen = m.alen ∧
    (∀ i, i < m.nseq → (selexProject (selexCfg none) m).aseq.getD i [] = m.aseq.getD i []) ∧
    (selexProject (selexCfg none) m).rf = m.rf ∧ (selexProject (selexCfg none) m).ssCons = m.ssCons ∧
    (selexProject (selexCfg none) m).mm = m.mm ∧
    (∀ i, i < m.nseq → optRow (selexProject (selexCfg none) m).ss i = optRow m.ss i) ∧
    (∀ i, i < m.nseq → optRow (selexProject (selexCfg none) m).sa i = optRow m.sa i) := by
  refine ⟨rfl, rfl, ?_, rfl, rfl, rfl, fun i hi => selexRowsProj_optRow m.nseq m.ss i hi,
    fun i hi => selexRowsProj_optRow m.nseq m.sa i hi⟩
  intro i hi
  simp [selexProject, selexCfg, Cfg.digital, Msa.stored, h.dig, List.getD_eq_getElem?_getD, hi]

/-! ### non-vacuity: 2 sequences (one name shorter than the `#=XX` tags), 61 columns (two blocks: 60 + 1), `#=CS` and `#=RF`
    present, `#=MM` absent, `#=SS` on the first sequence only, `#=SA` on the second only -/

def exSlxAnn2 : Msa :=
  { alen := 61, names := [[97], [98, 98, 98, 98, 98, 98]],
    aseq := [List.replicate 30 65 ++ [45] ++ List.replicate 30 67, [46] ++ List.replicate 59 71 ++ [45]],
    wgt := [.dflt, .dflt],
    rf := some (List.replicate 30 120 ++ [46] ++ List.replicate 30 120),
    ssCons := some (List.replicate 30 60 ++ [46] ++ List.replicate 30 62),
    ss := some [some (List.replicate 30 60 ++ [95] ++ List.replicate 30 62), none],
    sa := some [none, some (List.replicate 60 49 ++ [57])] }

theorem exSlxAnn2_ann : SelexAnn exSlxAnn2 := by constructor <;> decide +kernel

theorem exSlxAnn2_writable : SelexAnnTextWritable exSlxAnn2 :=
  { dig := rfl, ann := exSlxAnn2_ann, n1 := by decide, alen1 := by decide
    name_ok := by unfold selexNameOk sqTagOk nameOk; decide +kernel
    row_ok := by decide +kernel }

example : (blockStarts exSlxAnn2.alen selexCpl).length = 2 := by decide +kernel
example : selexRead (selexCfg none) (splitLines (selexWrite none exSlxAnn2))
    = (.ok (selexProject (selexCfg none) exSlxAnn2), []) := by decide +kernel
example : selexProject (selexCfg none) exSlxAnn2 = exSlxAnn2 := by decide +kernel
example : selexWrite none (selexProject (selexCfg none) exSlxAnn2) = selexWrite none exSlxAnn2 := by decide +kernel
example : (selexLines none exSlxAnn2).length = 13 := by decide +kernel

/-- the same digitised with the DNA alphabet (A=0 C=1 G=2 gap=4 missing=17) -/
def exSlxAnn2Dna : Msa :=
  { digital := true, kp := 18, alen := 61, names := exSlxAnn2.names,
    ax := [255 :: (List.replicate 30 0 ++ [4] ++ List.replicate 30 1) ++ [255], 255 :: ([17] ++ List.replicate 59 2 ++ [4]) ++ [255]],
    wgt := [.dflt, .dflt], rf := exSlxAnn2.rf, ssCons := exSlxAnn2.ssCons, ss := exSlxAnn2.ss, sa := exSlxAnn2.sa }

theorem exSlxAnn2Dna_writable : SelexAnnDigitalWritable abcDna exSlxAnn2Dna :=
  { dig := rfl, ann := by constructor <;> decide +kernel, n1 := by decide, alen1 := by decide
    name_ok := by unfold selexNameOk sqTagOk nameOk; decide +kernel
    row_ok := by decide +kernel }

example : selexRead (selexCfg (some abcDna)) (splitLines (selexWrite (some abcDna) exSlxAnn2Dna))
    = (.ok (selexProject (selexCfg (some abcDna)) exSlxAnn2Dna), []) := by decide +kernel
example : (selexProject (selexCfg (some abcDna)) exSlxAnn2Dna).ss = exSlxAnn2Dna.ss := by decide +kernel

/-- the white-space condition is needed: a `#=RF` string that begins with a blank comes back beginning with `.` -/
example : (selexRead (selexCfg none) (splitLines (selexWrite none
    { alen := 2, names := [[97]], aseq := [[65, 67]], wgt := [.dflt], rf := some [32, 120] }))).1
    = .ok { alen := 2, names := [[97]], aseq := [[65, 67]], wgt := [.dflt], rf := some [46, 120] } := by decide +kernel

/-! ## ===== SELEX-ANN — end ===== -/

/-! ## ===== PSI-DIGITAL — begin ===== -/

/-- library-written Clustal is accepted in digital mode too (amino, DNA, RNA), holds exactly one alignment (the next read
    is eslEOF), and the alignment read back is well formed -/
theorem clustal_write_accepted_digital (like : Bool) (a : Abc) (ha : a = abcAmino ∨ a = abcDna ∨ a = abcRna) (m : Msa)
    (h : ClustalDigitalWritable a m) :
    (∃ m', (clustalRead like (clustalCfg (some a)) (splitLines (clustalWrite like (some a) m))).1 = .ok m' ∧ m'.wellFormed = true) ∧
    (clustalRead like (clustalCfg (some a))
      (clustalRead like (clustalCfg (some a)) (splitLines (clustalWrite like (some a) m))).2).1 = .eof := by
  have hr := clustal_roundtrip_digital like a ha m h
  have hv : (clustalCfg (some a)).valid := by
    rcases ha with h | h | h <;> subst h
    · exact ⟨by decide +kernel, by decide +kernel⟩
    · exact ⟨by decide +kernel, by decide +kernel⟩
    · exact ⟨by decide +kernel, by decide +kernel⟩
  have hg := clustalRead_good like (clustalCfg (some a)) hv (splitLines (clustalWrite like (some a) m))
  rw [hr] at hg
  refine ⟨⟨_, by rw [hr], hg⟩, ?_⟩
  rw [hr]
  rfl

/-- library-written PSI-BLAST is accepted in digital mode too (amino, DNA, RNA), holds exactly one alignment, and the
    alignment read back is well formed -/
theorem psiblast_write_accepted_digital (a : Abc) (ha : a = abcAmino ∨ a = abcDna ∨ a = abcRna) (m : Msa)
    (h : PsiblastDigitalWritable a m) :
    (∃ m', (psiblastRead (psiblastCfg (some a)) (splitLines (psiblastWrite (some a) m))).1 = .ok m' ∧ m'.wellFormed = true) ∧
    (psiblastRead (psiblastCfg (some a))
      (psiblastRead (psiblastCfg (some a)) (splitLines (psiblastWrite (some a) m))).2).1 = .eof := by
  have hr := psiblast_roundtrip_digital a ha m h
  have hv : (psiblastCfg (some a)).valid := by
    rcases ha with h | h | h <;> subst h
    · exact ⟨by decide +kernel, by decide +kernel⟩
    · exact ⟨by decide +kernel, by decide +kernel⟩
    · exact ⟨by decide +kernel, by decide +kernel⟩
  have hg := psiblastRead_good (psiblastCfg (some a)) hv (splitLines (psiblastWrite (some a) m))
  rw [hr] at hg
  refine ⟨⟨_, by rw [hr], hg⟩, ?_⟩
  rw [hr]
  rfl

theorem psiDigResOk_of (a : Abc) (ha : a = abcAmino ∨ a = abcDna ∨ a = abcRna) : psiDigResOk a = true := by
  rcases ha with h | h | h <;> subst h
  · exact psiDigResOk_amino
  · exact psiDigResOk_dna
  · exact psiDigResOk_rna

/-- **re-writing the re-read alignment reproduces the same bytes**, digital mode (amino, DNA, RNA): the re-read alignment
    carries the RF line `psiRf (psiDigTxt a m) m` the original need not have, and the written characters coincide -/
theorem psiblast_rewrite_same_digital (a : Abc) (ha : a = abcAmino ∨ a = abcDna ∨ a = abcRna) (m : Msa)
    (h : PsiblastDigitalWritable a m) :
    ∃ m', (psiblastRead (psiblastCfg (some a)) (splitLines (psiblastWrite (some a) m))).1 = .ok m' ∧
      psiblastWrite (some a) m' = psiblastWrite (some a) m :=
  ⟨_, by rw [psiblast_roundtrip_digital a ha m h],
    psiblastWrite_project_digital a (psiDigSymOk_of a ha) (psiDigResOk_of a ha) m h⟩

/-- non-vacuity: the two-block DNA example (no RF line of its own) is written the same after the round trip -/
example : psiblastWrite (some abcDna) (psiblastProject (psiblastCfg (some abcDna)) (psiRf (psiDigTxt abcDna exPsiDna) exPsiDna) exPsiDna)
    = psiblastWrite (some abcDna) exPsiDna := by decide +kernel

/-! ## ===== PSI-DIGITAL — end ===== -/

/-! ## ===== READ-DOMAIN — begin ===== -/

/-! "Reformat stability": what a READER returns lies in the domain of the WRITER's round-trip theorem, so the round trip
applies to every alignment that was read from a file.  Where the reader does not guarantee a condition, the weakest
explicit extra hypothesis is stated (a decidable predicate on the alignment read) and a counterexample shows it is needed.

### A2M

`esl_msafile_a2m_Read` guarantees everything `A2mInsTextWritable` / `A2mInsDigitalWritable a` ask (≥ 1 sequence, names
without blank/tab/NUL, descriptions not empty / not starting with blank or tab / without NUL, no accessions, rows of `alen`
symbols / well-formed digital rows) EXCEPT `hdr_line`: the name line `>name desc` the writer will print must not end in CR
(it never holds a LF when the input lines come from `splitLines`).  `a2mHdrOkB m` is that condition.  It fails when the input
name line ends in CR CR LF (`esl_buffer_GetLine` strips one CR; the second stays in the description), or holds a NUL right
after a CR (the description is cut at the NUL): the re-written file then ends that line in CR LF and the re-read description
has lost its CR (`exA2mCrIn`, `exA2mNulIn` below). -/

theorem a2mCfg_valid_of (a : Abc) (ha : a = abcAmino ∨ a = abcDna ∨ a = abcRna) :
    (a2mCfg (some a)).valid ∧ A2mValid (a2mCfg (some a)) := by
  rcases ha with h | h | h <;> subst h
  · exact ⟨⟨by decide +kernel, by decide +kernel⟩, ⟨by decide +kernel, by decide +kernel⟩⟩
  · exact ⟨⟨by decide +kernel, by decide +kernel⟩, ⟨by decide +kernel, by decide +kernel⟩⟩
  · exact ⟨⟨by decide +kernel, by decide +kernel⟩, ⟨by decide +kernel, by decide +kernel⟩⟩

/-- what the A2M reader returns (text mode) is in the domain of the A2M round trip, provided its name lines survive -/
theorem a2m_read_in_domain_text (lines : List Bytes) (m : Msa) (rest : List Bytes)
    (h : a2mRead (a2mCfg none) lines = (.ok m, rest)) (hh : a2mHdrOkB m = true) : A2mInsTextWritable m :=
  a2mRead_domain_text lines m rest h hh

/-- … digital mode (amino, DNA, RNA) -/
theorem a2m_read_in_domain_digital (a : Abc) (ha : a = abcAmino ∨ a = abcDna ∨ a = abcRna) (lines : List Bytes) (m : Msa)
    (rest : List Bytes) (h : a2mRead (a2mCfg (some a)) lines = (.ok m, rest)) (hh : a2mHdrOkB m = true) :
    A2mInsDigitalWritable a m :=
  a2mRead_domain_digital a (a2mCfg_valid_of a ha).1 (a2mCfg_valid_of a ha).2 lines m rest h hh

/-- **A2M reformat stability, text mode**: an alignment read from any A2M input, written and read again, is its projection -/
theorem a2m_reformat_stable_text (lines : List Bytes) (m : Msa) (rest : List Bytes)
    (h : a2mRead (a2mCfg none) lines = (.ok m, rest)) (hh : a2mHdrOkB m = true) :
    a2mRead (a2mCfg none) (splitLines (a2mWrite none m)) = (.ok (a2mProjectIns none (a2mCfg none) id m), []) :=
  a2m_roundtrip_ins_text m (a2m_read_in_domain_text lines m rest h hh)

/-- **A2M reformat stability, digital mode** -/
theorem a2m_reformat_stable_digital (a : Abc) (ha : a = abcAmino ∨ a = abcDna ∨ a = abcRna) (lines : List Bytes) (m : Msa)
    (rest : List Bytes) (h : a2mRead (a2mCfg (some a)) lines = (.ok m, rest)) (hh : a2mHdrOkB m = true) :
    a2mRead (a2mCfg (some a)) (splitLines (a2mWrite (some a) m))
      = (.ok (a2mProjectIns (some a) (a2mCfg (some a)) (a2mEnc a) m), []) :=
  a2m_roundtrip_ins_digital a ha m (a2m_read_in_domain_digital a ha lines m rest h hh)

/-- … and re-writing that gives the same bytes again: `write (read (write (read input))) = write (read input)` -/
theorem a2m_reformat_idempotent_text (lines : List Bytes) (m : Msa) (rest : List Bytes)
    (h : a2mRead (a2mCfg none) lines = (.ok m, rest)) (hh : a2mHdrOkB m = true) :
    ∃ m', (a2mRead (a2mCfg none) (splitLines (a2mWrite none m))).1 = .ok m' ∧ a2mWrite none m' = a2mWrite none m :=
  a2m_ins_rewrite_same_text m (a2m_read_in_domain_text lines m rest h hh)

/-- non-vacuity: a dotted A2M input with inserts, `>s1 d e` / `AC.gT` / `>s2` / `A-cg` + `T` -/
def exA2mIn : Bytes := [62, 115, 49, 32, 100, 32, 101, 10, 65, 67, 46, 103, 84, 10, 62, 115, 50, 10, 65, 45, 99, 103, 10, 84, 10]

def exA2mInMsa : Msa :=
  { alen := 5, names := [[115, 49], [115, 50]], aseq := [[65, 67, 103, 46, 84], [65, 45, 99, 103, 84]], wgt := [.dflt, .dflt],
    rf := some [120, 120, 46, 46, 120], sqdesc := some [some [100, 32, 101], none] }

example : a2mRead (a2mCfg none) (splitLines exA2mIn) = (.ok exA2mInMsa, []) := by decide +kernel
example : a2mHdrOkB exA2mInMsa = true := by decide +kernel
example : a2mRead (a2mCfg none) (splitLines (a2mWrite none exA2mInMsa)) = (.ok exA2mInMsa, []) := by decide +kernel
example : A2mInsTextWritable exA2mInMsa :=
  a2m_read_in_domain_text (splitLines exA2mIn) exA2mInMsa [] (by decide +kernel) (by decide +kernel)

/-- COUNTEREXAMPLE (the hypothesis `a2mHdrOkB` is needed): `>a x` CR CR LF `AC` LF is read with description `x` CR; it is
    written as `>a x` CR LF `AC` LF, which reads back with description `x` -/
def exA2mCrIn : Bytes := [62, 97, 32, 120, 13, 13, 10, 65, 67, 10]

def exA2mCrMsa : Msa :=
  { alen := 2, names := [[97]], aseq := [[65, 67]], wgt := [.dflt], rf := some [120, 120], sqdesc := some [some [120, 13]] }

example : a2mRead (a2mCfg none) (splitLines exA2mCrIn) = (.ok exA2mCrMsa, []) := by decide +kernel
example : a2mHdrOkB exA2mCrMsa = false := by decide +kernel
example : a2mWrite none exA2mCrMsa = [62, 97, 32, 120, 13, 10, 65, 67, 10] := by decide +kernel
example : a2mRead (a2mCfg none) (splitLines (a2mWrite none exA2mCrMsa))
    = (.ok { exA2mCrMsa with sqdesc := some [some [120]] }, []) := by decide +kernel
example : a2mRead (a2mCfg none) (splitLines (a2mWrite none exA2mCrMsa))
    ≠ (.ok (a2mProjectIns none (a2mCfg none) id exA2mCrMsa), []) := by decide +kernel

/-- COUNTEREXAMPLE 2: `>a x` CR NUL `y` LF `AC` LF: the description is cut at the NUL and ends in CR, same effect -/
def exA2mNulIn : Bytes := [62, 97, 32, 120, 13, 0, 121, 10, 65, 67, 10]

example : a2mRead (a2mCfg none) (splitLines exA2mNulIn) = (.ok exA2mCrMsa, []) := by decide +kernel

/-! ### aligned FASTA

`esl_msafile_afa_Read` guarantees everything `AfaDigitalWritable a` asks except `hdr_line` (`afaHdrOkB`, as for A2M: a
description ending in CR).  In TEXT mode it guarantees everything `AfaTextWritable` asks (rows of graphic characters other than
`>`, `alen` ≥ 1) except `hdr_line`.  (Until the repair of C03:reformat:afa-gt-residue the text-mode input map accepted `>` as a
residue when it was not the first character of its line, and the writer, cutting rows into 60-column lines, could put it first;
`esl_msafile_afa_SetInmap` now maps `>` to `eslDSQ_ILLEGAL`: `exAfaGtIn` below, once read as one sequence of 61 residues and
written as a file the reader rejected, is itself rejected: regression example.) -/

theorem afaCfg_valid_of (a : Abc) (ha : a = abcAmino ∨ a = abcDna ∨ a = abcRna) : (afaCfg (some a)).valid := by
  rcases ha with h | h | h <;> subst h
  · exact ⟨by decide +kernel, by decide +kernel⟩
  · exact ⟨by decide +kernel, by decide +kernel⟩
  · exact ⟨by decide +kernel, by decide +kernel⟩

/-- what the AFA reader returns (digital mode) is in the domain of the AFA round trip, provided its name lines survive -/
theorem afa_read_in_domain_digital (a : Abc) (ha : a = abcAmino ∨ a = abcDna ∨ a = abcRna) (lines : List Bytes) (m : Msa)
    (rest : List Bytes) (h : afaRead (afaCfg (some a)) lines = (.ok m, rest)) (hh : afaHdrOkB m = true) :
    AfaDigitalWritable a m :=
  afaRead_domain_digital a (afaCfg_valid_of a ha) lines m rest h hh

/-- … text mode (no condition on the residues either: the input map rejects `>`) -/
theorem afa_read_in_domain_text (lines : List Bytes) (m : Msa) (rest : List Bytes)
    (h : afaRead (afaCfg none) lines = (.ok m, rest)) (hh : afaHdrOkB m = true) : AfaTextWritable m :=
  afaRead_domain_text lines m rest h hh

/-- **AFA reformat stability, digital mode** -/
theorem afa_reformat_stable_digital (a : Abc) (ha : a = abcAmino ∨ a = abcDna ∨ a = abcRna) (lines : List Bytes) (m : Msa)
    (rest : List Bytes) (h : afaRead (afaCfg (some a)) lines = (.ok m, rest)) (hh : afaHdrOkB m = true) :
    afaRead (afaCfg (some a)) (splitLines (afaWrite (some a) m)) = (.ok (afaProject (afaCfg (some a)) m), []) :=
  afa_roundtrip_digital a ha m (afa_read_in_domain_digital a ha lines m rest h hh)

/-- **AFA reformat stability, text mode** -/
theorem afa_reformat_stable_text (lines : List Bytes) (m : Msa) (rest : List Bytes)
    (h : afaRead (afaCfg none) lines = (.ok m, rest)) (hh : afaHdrOkB m = true) :
    afaRead (afaCfg none) (splitLines (afaWrite none m)) = (.ok (afaProject (afaCfg none) m), []) :=
  afa_roundtrip_text m (afa_read_in_domain_text lines m rest h hh)

/-- non-vacuity: `>s1 d e` / `AC-` + `gt` / `>s2` / `A.CGT` -/
def exAfaIn : Bytes := [62, 115, 49, 32, 100, 32, 101, 10, 65, 67, 45, 10, 103, 116, 10, 62, 115, 50, 10, 65, 46, 67, 71, 84, 10]

def exAfaInMsa : Msa :=
  { alen := 5, names := [[115, 49], [115, 50]], aseq := [[65, 67, 45, 103, 116], [65, 46, 67, 71, 84]], wgt := [.dflt, .dflt],
    sqdesc := some [some [100, 32, 101], none] }

example : afaRead (afaCfg none) (splitLines exAfaIn) = (.ok exAfaInMsa, []) := by decide +kernel
example : afaHdrOkB exAfaInMsa = true := by decide +kernel
example : afaRead (afaCfg none) (splitLines (afaWrite none exAfaInMsa)) = (.ok exAfaInMsa, []) := by decide +kernel
example : AfaTextWritable exAfaInMsa :=
  afa_read_in_domain_text (splitLines exAfaIn) exAfaInMsa [] (by decide +kernel) (by decide +kernel)

/-- digital (DNA) non-vacuity: `>s1` / `ACGT` / `>s2` / `A-NT` -/
def exAfaDnaIn : Bytes := [62, 115, 49, 10, 65, 67, 71, 84, 10, 62, 115, 50, 10, 65, 45, 78, 84, 10]

def exAfaDnaInMsa : Msa :=
  { digital := true, kp := 18, alen := 4, names := [[115, 49], [115, 50]],
    ax := [[255, 0, 1, 2, 3, 255], [255, 0, 4, 15, 3, 255]], wgt := [.dflt, .dflt] }

example : afaRead (afaCfg (some abcDna)) (splitLines exAfaDnaIn) = (.ok exAfaDnaInMsa, []) := by decide +kernel
example : AfaDigitalWritable abcDna exAfaDnaInMsa :=
  afa_read_in_domain_digital abcDna (Or.inr (Or.inl rfl)) (splitLines exAfaDnaIn) exAfaDnaInMsa [] (by decide +kernel)
    (by decide +kernel)
example : afaRead (afaCfg (some abcDna)) (splitLines (afaWrite (some abcDna) exAfaDnaInMsa)) = (.ok exAfaDnaInMsa, []) := by
  decide +kernel

/-- REGRESSION (repaired finding C03:reformat:afa-gt-residue): `>a` LF, then ONE line of 60 `A` followed by `>` - the text-mode
    reader used to store the `>` as residue 61, and the writer then started its third line with it -/
def exAfaGtIn : Bytes := [62, 97, 10] ++ List.replicate 60 65 ++ [62, 10]

/-- the reader now rejects that input ("one or more invalid sequence characters") -/
example : (match (afaRead (afaCfg none) (splitLines exAfaGtIn)).1 with
           | .eformat _ => true
           | _ => false) = true := by decide +kernel

/-- COUNTEREXAMPLE (`afaHdrOkB` is needed): `>a x` CR CR LF `AC` LF: the description `x` CR comes back as `x` -/
def exAfaCrIn : Bytes := [62, 97, 32, 120, 13, 13, 10, 65, 67, 10]

def exAfaCrMsa : Msa := { alen := 2, names := [[97]], aseq := [[65, 67]], wgt := [.dflt], sqdesc := some [some [120, 13]] }

example : afaRead (afaCfg none) (splitLines exAfaCrIn) = (.ok exAfaCrMsa, []) := by decide +kernel
example : afaHdrOkB exAfaCrMsa = false := by decide +kernel
example : afaRead (afaCfg none) (splitLines (afaWrite none exAfaCrMsa))
    = (.ok { exAfaCrMsa with sqdesc := some [some [120]] }, []) := by decide +kernel

/-! ### Clustal / Clustal-like

`esl_msafile_clustal_Read` guarantees `n1`, `alen1` (every block has ≥ 1 column), NON-EMPTY names without white space or NUL
(since the repair of C03:reformat:nul-in-name a NUL byte in the name field is eslEFORMAT; before, a name field starting with NUL was
stored as the empty C string and the writer's output was rejected: `exCluNulIn`, now a regression example), rows of `alen` graphic
characters / well-formed digital rows.  It does NOT guarantee
* `notcons` (`cluNotConsTextB` / `cluNotConsDigB a`): a row after the first whose name is made of `.:*` characters and whose
  residues include one of `.:*` can, once the writer cuts the alignment into 60-column blocks, stand alone as a line made of
  `" .:*"` only, which the reader takes for the consensus line: `exCluConsIn` (re-read REJECTED: "last block didn't contain
  same # of seqs as earlier blocks"). -/

theorem clustalCfg_valid_of (a : Abc) (ha : a = abcAmino ∨ a = abcDna ∨ a = abcRna) : (clustalCfg (some a)).valid := by
  rcases ha with h | h | h <;> subst h
  · exact ⟨by decide +kernel, by decide +kernel⟩
  · exact ⟨by decide +kernel, by decide +kernel⟩
  · exact ⟨by decide +kernel, by decide +kernel⟩

theorem clustal_read_in_domain_text (like : Bool) (lines : List Bytes) (m : Msa) (rest : List Bytes)
    (h : clustalRead like (clustalCfg none) lines = (.ok m, rest)) (hnc : cluNotConsTextB m = true) :
    ClustalTextWritable m :=
  clustalRead_domain_text like lines m rest h hnc

theorem clustal_read_in_domain_digital (like : Bool) (a : Abc) (ha : a = abcAmino ∨ a = abcDna ∨ a = abcRna) (lines : List Bytes)
    (m : Msa) (rest : List Bytes) (h : clustalRead like (clustalCfg (some a)) lines = (.ok m, rest))
    (hnc : cluNotConsDigB a m = true) : ClustalDigitalWritable a m :=
  clustalRead_domain_digital like a (clustalCfg_valid_of a ha) lines m rest h hnc

/-- **Clustal reformat stability, text mode** (read as Clustal or Clustal-like `like`, written as `like'`) -/
theorem clustal_reformat_stable_text (like like' : Bool) (lines : List Bytes) (m : Msa) (rest : List Bytes)
    (h : clustalRead like (clustalCfg none) lines = (.ok m, rest)) (hnc : cluNotConsTextB m = true) :
    clustalRead like' (clustalCfg none) (splitLines (clustalWrite like' none m)) = (.ok (clustalProject (clustalCfg none) m), []) :=
  clustal_roundtrip_text like' m (clustal_read_in_domain_text like lines m rest h hnc)

/-- **Clustal reformat stability, digital mode** -/
theorem clustal_reformat_stable_digital (like like' : Bool) (a : Abc) (ha : a = abcAmino ∨ a = abcDna ∨ a = abcRna)
    (lines : List Bytes) (m : Msa) (rest : List Bytes) (h : clustalRead like (clustalCfg (some a)) lines = (.ok m, rest))
    (hnc : cluNotConsDigB a m = true) :
    clustalRead like' (clustalCfg (some a)) (splitLines (clustalWrite like' (some a) m))
      = (.ok (clustalProject (clustalCfg (some a)) m), []) :=
  clustal_roundtrip_digital like' a ha m (clustal_read_in_domain_digital like a ha lines m rest h hnc)

/-- `CLUSTAL W alignment` -/
def exCluHdr : Bytes := [67, 76, 85, 83, 84, 65, 76, 32, 87, 32, 97, 108, 105, 103, 110, 109, 101, 110, 116]

/-- non-vacuity: header, blank, `s1 ACG-`, `s2 A.gT`, ` *  *` -/
def exCluIn : Bytes :=
  exCluHdr ++ [10, 10] ++ [115, 49, 32, 65, 67, 71, 45, 10] ++ [115, 50, 32, 65, 46, 103, 84, 10] ++ [32, 32, 32, 42, 32, 32, 42, 10]

def exCluInMsa : Msa :=
  { alen := 4, names := [[115, 49], [115, 50]], aseq := [[65, 67, 71, 45], [65, 46, 103, 84]], wgt := [.dflt, .dflt] }

example : clustalRead false (clustalCfg none) (splitLines exCluIn) = (.ok exCluInMsa, []) := by decide +kernel
example : cluNotConsTextB exCluInMsa = true := by decide +kernel
example : ClustalTextWritable exCluInMsa :=
  clustal_read_in_domain_text false (splitLines exCluIn) exCluInMsa [] (by decide +kernel) (by decide +kernel)
example : clustalRead false (clustalCfg none) (splitLines (clustalWrite false none exCluInMsa)) = (.ok exCluInMsa, []) := by
  decide +kernel

/-- REGRESSION (repaired finding C03:reformat:nul-in-name): the name field of the row is NUL `x`; it used to be stored as the EMPTY
    name (and the writer's output was then rejected); the reader now answers eslEFORMAT "NUL byte in sequence name" -/
def exCluNulIn : Bytes := exCluHdr ++ [10, 10] ++ [0, 120, 32, 65, 67, 71, 84, 10] ++ [32, 32, 32, 42, 42, 42, 42, 10]

example : (clustalRead false (clustalCfg none) (splitLines exCluNulIn)).1 = .eformat "NUL byte in sequence name" := by decide +kernel
/-- … also when the NUL is inside the name (`a` NUL `b`: was stored as `a`) -/
example : (clustalRead false (clustalCfg none)
    (splitLines (exCluHdr ++ [10, 10] ++ [97, 0, 98, 32, 65, 67, 71, 84, 10] ++ [32, 32, 32, 32, 42, 42, 42, 42, 10]))).1
      = .eformat "NUL byte in sequence name" := by decide +kernel

/-- COUNTEREXAMPLE (`cluNotConsTextB` is needed): rows `x` = 61 `A`, `*` = 60 `A` then `*`, in ONE block of 61 columns -/
def exCluConsIn : Bytes :=
  exCluHdr ++ [10, 10] ++ ([120, 32] ++ List.replicate 61 65 ++ [10]) ++ ([42, 32] ++ List.replicate 60 65 ++ [42, 10]) ++ [32, 10]

def exCluConsMsa : Msa :=
  { alen := 61, names := [[120], [42]], aseq := [List.replicate 61 65, List.replicate 60 65 ++ [42]], wgt := [.dflt, .dflt] }

example : clustalRead false (clustalCfg none) (splitLines exCluConsIn) = (.ok exCluConsMsa, []) := by decide +kernel
example : cluNotConsTextB exCluConsMsa = false := by decide +kernel
/-- written in two blocks; the second row of the second block is `*` + blanks + `*` -/
example : (match (clustalRead false (clustalCfg none) (splitLines (clustalWrite false none exCluConsMsa))).1 with
           | .eformat _ => true
           | _ => false) = true := by decide +kernel

/-! ### PSI-BLAST

`esl_msafile_psiblast_Read` guarantees `n1`, `alen1`, non-empty names without white space or NUL (a NUL byte in the name field is
eslEFORMAT since the repair of C03:reformat:nul-in-name; `exPsiNulIn` is a regression example), rows of `alen` symbols / well-formed
digital rows.  The domain of `psiblast_roundtrip_text/_digital` is the set of alignments on which the WRITER IS THE IDENTITY,
which is much narrower than what the reader returns; the missing conditions are hypotheses:
* `psiRowsUpperB` / `psiRowsDigB a`: no lower-case (insert) residue.  NOT a defect: an input with lower-case residues is
  reformatted faithfully on the model (`exPsiLowerIn`: read ∘ write ∘ read = read), but no round-trip theorem covers it yet;
* `psiColsOkB` / `psiColsOkDigB a`: the `rf` line the reader builds marks (`x`) every column that holds a residue.  This is
  believed to follow from the reader's `rf` loop when there is no lower-case residue, but is NOT proved here. -/

theorem psiblastCfg_valid_of (a : Abc) (ha : a = abcAmino ∨ a = abcDna ∨ a = abcRna) : (psiblastCfg (some a)).valid := by
  rcases ha with h | h | h <;> subst h
  · exact ⟨by decide +kernel, by decide +kernel⟩
  · exact ⟨by decide +kernel, by decide +kernel⟩
  · exact ⟨by decide +kernel, by decide +kernel⟩

theorem psiblast_read_in_domain_text (lines : List Bytes) (m : Msa) (rest : List Bytes)
    (h : psiblastRead (psiblastCfg none) lines = (.ok m, rest)) (hup : psiRowsUpperB m = true)
    (hcol : psiColsOkB m = true) : PsiblastTextWritable m :=
  psiblastRead_domain_text lines m rest h hup hcol

theorem psiblast_read_in_domain_digital (a : Abc) (ha : a = abcAmino ∨ a = abcDna ∨ a = abcRna) (lines : List Bytes) (m : Msa)
    (rest : List Bytes) (h : psiblastRead (psiblastCfg (some a)) lines = (.ok m, rest))
    (hup : psiRowsDigB a m = true) (hcol : psiColsOkDigB a m = true) : PsiblastDigitalWritable a m :=
  psiblastRead_domain_digital a (psiblastCfg_valid_of a ha) lines m rest h hup hcol

/-- **PSI-BLAST reformat stability, text mode** (PARTIAL: under the two hypotheses above) -/
theorem psiblast_reformat_stable_text_partial (lines : List Bytes) (m : Msa) (rest : List Bytes)
    (h : psiblastRead (psiblastCfg none) lines = (.ok m, rest)) (hup : psiRowsUpperB m = true)
    (hcol : psiColsOkB m = true) :
    psiblastRead (psiblastCfg none) (splitLines (psiblastWrite none m))
      = (.ok (psiblastProject (psiblastCfg none) (psiRf (fun i => m.aseq.getD i []) m) m), []) :=
  psiblast_roundtrip_text m (psiblast_read_in_domain_text lines m rest h hup hcol)

/-- **PSI-BLAST reformat stability, digital mode** (PARTIAL likewise) -/
theorem psiblast_reformat_stable_digital_partial (a : Abc) (ha : a = abcAmino ∨ a = abcDna ∨ a = abcRna) (lines : List Bytes)
    (m : Msa) (rest : List Bytes) (h : psiblastRead (psiblastCfg (some a)) lines = (.ok m, rest))
    (hup : psiRowsDigB a m = true) (hcol : psiColsOkDigB a m = true) :
    psiblastRead (psiblastCfg (some a)) (splitLines (psiblastWrite (some a) m))
      = (.ok (psiblastProject (psiblastCfg (some a)) (psiRf (psiDigTxt a m) m) m), []) :=
  psiblast_roundtrip_digital a ha m (psiblast_read_in_domain_digital a ha lines m rest h hup hcol)

/-- non-vacuity: `s1 ACG-` / `s2 A-GT` -/
def exPsiIn : Bytes := [115, 49, 32, 65, 67, 71, 45, 10, 115, 50, 32, 65, 45, 71, 84, 10]

def exPsiInMsa : Msa :=
  { alen := 4, names := [[115, 49], [115, 50]], aseq := [[65, 67, 71, 45], [65, 45, 71, 84]], wgt := [.dflt, .dflt],
    rf := some [120, 120, 120, 120] }

example : psiblastRead (psiblastCfg none) (splitLines exPsiIn) = (.ok exPsiInMsa, []) := by decide +kernel
example : psiRowsUpperB exPsiInMsa = true ∧ psiColsOkB exPsiInMsa = true := by decide +kernel
example : PsiblastTextWritable exPsiInMsa :=
  psiblast_read_in_domain_text (splitLines exPsiIn) exPsiInMsa [] (by decide +kernel) (by decide +kernel) (by decide +kernel)
example : psiblastRead (psiblastCfg none) (splitLines (psiblastWrite none exPsiInMsa)) = (.ok exPsiInMsa, []) := by decide +kernel

/-- outside the proved domain, yet stable on the model: `s1 ACgT` / `s2 AC-T` (a lower-case insert, `rf` = `xx.x`) -/
def exPsiLowerIn : Bytes := [115, 49, 32, 65, 67, 103, 84, 10, 115, 50, 32, 65, 67, 45, 84, 10]

def exPsiLowerMsa : Msa :=
  { alen := 4, names := [[115, 49], [115, 50]], aseq := [[65, 67, 103, 84], [65, 67, 45, 84]], wgt := [.dflt, .dflt],
    rf := some [120, 120, 46, 120] }

example : psiblastRead (psiblastCfg none) (splitLines exPsiLowerIn) = (.ok exPsiLowerMsa, []) := by decide +kernel
example : psiRowsUpperB exPsiLowerMsa = false := by decide +kernel
example : psiblastRead (psiblastCfg none) (splitLines (psiblastWrite none exPsiLowerMsa)) = (.ok exPsiLowerMsa, []) := by
  decide +kernel

/-- REGRESSION (repaired finding C03:reformat:nul-in-name): NUL `x ACGT` - the name used to be stored empty and the written line,
    starting with blanks, was rejected; the reader now answers eslEFORMAT -/
def exPsiNulIn : Bytes := [0, 120, 32, 65, 67, 71, 84, 10]

example : (psiblastRead (psiblastCfg none) (splitLines exPsiNulIn)).1 = .eformat "NUL byte in sequence name" := by decide +kernel

/-! ### A2M and aligned FASTA: the condition on the name lines, as a condition on the INPUT

`a2mHdrOkB` / `afaHdrOkB` hold whenever no input line (as delivered by `splitLines`: without its LF and without the CR of a
CR LF) holds a CR or a LF byte, i.e. the file has no CR other than in CR LF line ends. -/

theorem a2m_reformat_stable_text_of_lines (lines : List Bytes) (m : Msa) (rest : List Bytes)
    (h : a2mRead (a2mCfg none) lines = (.ok m, rest)) (hl : ∀ l ∈ lines, ∀ x ∈ l, notCrLf x = true) :
    a2mRead (a2mCfg none) (splitLines (a2mWrite none m)) = (.ok (a2mProjectIns none (a2mCfg none) id m), []) :=
  a2m_reformat_stable_text lines m rest h (a2mHdrOkB_of_lines _ lines m rest h hl)

theorem a2m_reformat_stable_digital_of_lines (a : Abc) (ha : a = abcAmino ∨ a = abcDna ∨ a = abcRna) (lines : List Bytes) (m : Msa)
    (rest : List Bytes) (h : a2mRead (a2mCfg (some a)) lines = (.ok m, rest)) (hl : ∀ l ∈ lines, ∀ x ∈ l, notCrLf x = true) :
    a2mRead (a2mCfg (some a)) (splitLines (a2mWrite (some a) m))
      = (.ok (a2mProjectIns (some a) (a2mCfg (some a)) (a2mEnc a) m), []) :=
  a2m_reformat_stable_digital a ha lines m rest h (a2mHdrOkB_of_lines _ lines m rest h hl)

theorem afa_reformat_stable_digital_of_lines (a : Abc) (ha : a = abcAmino ∨ a = abcDna ∨ a = abcRna) (lines : List Bytes) (m : Msa)
    (rest : List Bytes) (h : afaRead (afaCfg (some a)) lines = (.ok m, rest)) (hl : ∀ l ∈ lines, ∀ x ∈ l, notCrLf x = true) :
    afaRead (afaCfg (some a)) (splitLines (afaWrite (some a) m)) = (.ok (afaProject (afaCfg (some a)) m), []) :=
  afa_reformat_stable_digital a ha lines m rest h (afaHdrOkB_of_lines _ lines m rest h hl)

theorem afa_reformat_stable_text_of_lines (lines : List Bytes) (m : Msa) (rest : List Bytes)
    (h : afaRead (afaCfg none) lines = (.ok m, rest)) (hl : ∀ l ∈ lines, ∀ x ∈ l, notCrLf x = true) :
    afaRead (afaCfg none) (splitLines (afaWrite none m)) = (.ok (afaProject (afaCfg none) m), []) :=
  afa_reformat_stable_text lines m rest h (afaHdrOkB_of_lines _ lines m rest h hl)

example : ∀ l ∈ splitLines exA2mIn, ∀ x ∈ l, notCrLf x = true := by decide +kernel
example : ∀ l ∈ splitLines exAfaDnaIn, ∀ x ∈ l, notCrLf x = true := by decide +kernel
example : afaRead (afaCfg (some abcDna)) (splitLines (afaWrite (some abcDna) exAfaDnaInMsa))
    = (.ok (afaProject (afaCfg (some abcDna)) exAfaDnaInMsa), []) :=
  afa_reformat_stable_digital_of_lines abcDna (Or.inr (Or.inl rfl)) (splitLines exAfaDnaIn) exAfaDnaInMsa [] (by decide +kernel)
    (by decide +kernel)

/-! ### PHYLIP (interleaved and sequential, strict name width 10)

`esl_msafile_phylip_Read` guarantees `n1`, `alen1` (the header's `alen` ≥ 1 and the final length equals it), names made of
≤ 10 graphic characters (`phylip_rectify_input_name`: outer blanks stripped, inner blanks → `_`), rows of `alen` symbols /
well-formed digital rows, and `nseq`, `alen` ≤ 2^31-1 (`strtoi32_le`: `esl_mem_strtoi32` rejects larger values).  Side conditions (decidable predicates on the alignment read):
* `phyNamesNeB`: no EMPTY name (a name field of ten blanks is stored as ""); outside the domain of `phylip_roundtrip_*`
  (`phyNameOk` asks for a non-empty name) but NOT a defect: `exPhyEmptyIn` reformats faithfully on the model;
* text mode, `phyRowsSymB`: every residue is an upper-case letter, `-`, `*` or `?`.  The reader stores lower-case letters and `.`
  as they are, and the WRITER converts them (`phylip_rectify_output_seq_text`: upper case, `.` → `-`): by design the re-read
  alignment then differs from the one read (`exPhyLowerIn`: `acgt` comes back `ACGT`). -/

theorem phylipCfg_valid_of (a : Abc) (ha : a = abcAmino ∨ a = abcDna ∨ a = abcRna) : (phylipCfg (some a)).valid := by
  rcases ha with h | h | h <;> subst h
  · exact ⟨by decide +kernel, by decide +kernel⟩
  · exact ⟨by decide +kernel, by decide +kernel⟩
  · exact ⟨by decide +kernel, by decide +kernel⟩

theorem phylip_read_in_domain_digital (sequential : Bool) (a : Abc) (ha : a = abcAmino ∨ a = abcDna ∨ a = abcRna)
    (lines : List Bytes) (m : Msa) (rest : List Bytes) (h : phylipRead sequential (phylipCfg (some a)) lines = (.ok m, rest))
    (hne : phyNamesNeB m = true) : PhylipDigitalWritable a m :=
  phylipRead_domain_digital sequential a (phylipCfg_valid_of a ha) lines m rest h hne

theorem phylip_read_in_domain_text (sequential : Bool) (lines : List Bytes) (m : Msa) (rest : List Bytes)
    (h : phylipRead sequential (phylipCfg none) lines = (.ok m, rest)) (hne : phyNamesNeB m = true)
    (hsym : phyRowsSymB m = true) : PhylipTextWritable m :=
  phylipRead_domain_text sequential lines m rest h hne hsym

/-- **PHYLIP reformat stability, digital mode**: read as interleaved or sequential (`sequential`), written interleaved -/
theorem phylip_reformat_stable_digital (sequential : Bool) (a : Abc) (ha : a = abcAmino ∨ a = abcDna ∨ a = abcRna)
    (lines : List Bytes) (m : Msa) (rest : List Bytes) (h : phylipRead sequential (phylipCfg (some a)) lines = (.ok m, rest))
    (hne : phyNamesNeB m = true) :
    phylipRead false (phylipCfg (some a)) (splitLines (phylipWrite false (some a) m)) = (.ok (phylipProject (phylipCfg (some a)) m), []) :=
  phylip_roundtrip_digital a ha m (phylip_read_in_domain_digital sequential a ha lines m rest h hne)

/-- … written sequential -/
theorem phylips_reformat_stable_digital (sequential : Bool) (a : Abc) (ha : a = abcAmino ∨ a = abcDna ∨ a = abcRna)
    (lines : List Bytes) (m : Msa) (rest : List Bytes) (h : phylipRead sequential (phylipCfg (some a)) lines = (.ok m, rest))
    (hne : phyNamesNeB m = true) :
    phylipRead true (phylipCfg (some a)) (splitLines (phylipWrite true (some a) m)) = (.ok (phylipProject (phylipCfg (some a)) m), []) :=
  phylips_roundtrip_digital a ha m (phylip_read_in_domain_digital sequential a ha lines m rest h hne)

/-- **PHYLIP reformat stability, text mode**, written interleaved -/
theorem phylip_reformat_stable_text (sequential : Bool) (lines : List Bytes) (m : Msa) (rest : List Bytes)
    (h : phylipRead sequential (phylipCfg none) lines = (.ok m, rest)) (hne : phyNamesNeB m = true)
    (hsym : phyRowsSymB m = true) :
    phylipRead false (phylipCfg none) (splitLines (phylipWrite false none m)) = (.ok (phylipProject (phylipCfg none) m), []) :=
  phylip_roundtrip_text m (phylip_read_in_domain_text sequential lines m rest h hne hsym)

/-- … written sequential -/
theorem phylips_reformat_stable_text (sequential : Bool) (lines : List Bytes) (m : Msa) (rest : List Bytes)
    (h : phylipRead sequential (phylipCfg none) lines = (.ok m, rest)) (hne : phyNamesNeB m = true)
    (hsym : phyRowsSymB m = true) :
    phylipRead true (phylipCfg none) (splitLines (phylipWrite true none m)) = (.ok (phylipProject (phylipCfg none) m), []) :=
  phylips_roundtrip_text m (phylip_read_in_domain_text sequential lines m rest h hne hsym)

/-- non-vacuity: ` 2 4` / `s1        ACGT` / `s2        A-GT` -/
def exPhyIn : Bytes :=
  [32, 50, 32, 52, 10] ++ [115, 49, 32, 32, 32, 32, 32, 32, 32, 32, 65, 67, 71, 84, 10]
    ++ [115, 50, 32, 32, 32, 32, 32, 32, 32, 32, 65, 45, 71, 84, 10]

def exPhyInMsa : Msa :=
  { alen := 4, names := [[115, 49], [115, 50]], aseq := [[65, 67, 71, 84], [65, 45, 71, 84]], wgt := [.dflt, .dflt] }

example : phylipRead false (phylipCfg none) (splitLines exPhyIn) = (.ok exPhyInMsa, []) := by decide +kernel
example : phylipRead true (phylipCfg none) (splitLines exPhyIn) = (.ok exPhyInMsa, []) := by decide +kernel
example : phyNamesNeB exPhyInMsa = true ∧ phyRowsSymB exPhyInMsa = true := by decide +kernel
example : PhylipTextWritable exPhyInMsa :=
  phylip_read_in_domain_text true (splitLines exPhyIn) exPhyInMsa [] (by decide +kernel) (by decide +kernel) (by decide +kernel)
example : phylipRead false (phylipCfg none) (splitLines (phylipWrite false none exPhyInMsa)) = (.ok exPhyInMsa, []) := by
  decide +kernel

/-- the reader returns names of ≤ 10 characters: `phylipProject` (names cut to ten) is the identity on the names of an
    alignment read from a PHYLIP file, so the reformatted alignment has the same names -/
theorem phylip_reformat_keeps_names (sequential : Bool) (cfg cfg' : Cfg) (lines : List Bytes) (m : Msa) (rest : List Bytes)
    (h : phylipRead sequential cfg lines = (.ok m, rest)) : (phylipProject cfg' m).names = m.names :=
  phylipRead_project_names sequential cfg cfg' lines m rest h

example : (phylipProject (phylipCfg none) exPhyInMsa).names = exPhyInMsa.names :=
  phylip_reformat_keeps_names false (phylipCfg none) (phylipCfg none) (splitLines exPhyIn) exPhyInMsa [] (by decide +kernel)

/-- outside the proved domain, yet stable on the model: a name field of ten blanks is stored as the empty name -/
def exPhyEmptyIn : Bytes := [49, 32, 52, 10] ++ List.replicate 10 32 ++ [65, 67, 71, 84, 10]

def exPhyEmptyMsa : Msa := { alen := 4, names := [[]], aseq := [[65, 67, 71, 84]], wgt := [.dflt] }

example : phylipRead false (phylipCfg none) (splitLines exPhyEmptyIn) = (.ok exPhyEmptyMsa, []) := by decide +kernel
example : phyNamesNeB exPhyEmptyMsa = false := by decide +kernel
example : phylipRead false (phylipCfg none) (splitLines (phylipWrite false none exPhyEmptyMsa)) = (.ok exPhyEmptyMsa, []) := by
  decide +kernel

/-- `phyRowsSymB` is needed (by design, not a defect): `1 4` / `s1        acgt` is stored lower case and written upper case -/
def exPhyLowerIn : Bytes := [49, 32, 52, 10] ++ [115, 49, 32, 32, 32, 32, 32, 32, 32, 32, 97, 99, 103, 116, 10]

def exPhyLowerMsa : Msa := { alen := 4, names := [[115, 49]], aseq := [[97, 99, 103, 116]], wgt := [.dflt] }

example : phylipRead false (phylipCfg none) (splitLines exPhyLowerIn) = (.ok exPhyLowerMsa, []) := by decide +kernel
example : phyRowsSymB exPhyLowerMsa = false := by decide +kernel
example : phylipRead false (phylipCfg none) (splitLines (phylipWrite false none exPhyLowerMsa))
    = (.ok { exPhyLowerMsa with aseq := [[65, 67, 71, 84]] }, []) := by decide +kernel

/-! ## ===== READ-DOMAIN — end ===== -/

/-! ## ===== AUTODETECT — begin =====

Autodetection of library-written output (`esl_msafile_GuessFileFormat`, model `guessFormat` of the C01 open path;
`openBytes .auto …` is `msafile_OpenBuffer` with `format = eslMSAFILE_UNKNOWN`).  Stockholm/Pfam, Clustal, Clustal-like
and aligned FASTA are recognised from their first line, for EVERY alignment.  Two honest negatives, both documented
behaviour of the library: Pfam output is detected as Stockholm (same reader) unless the file is called `*.pfam`, and A2M
output is detected as aligned FASTA unless the file is called `*.a2m` (theorem `a2m_written_detected_as_afa`).  SELEX and
PSI-BLAST (deep check `msafile_check_selex`) and PHYLIP (`esl_msafile_phylip_CheckFileFormat`, documented as possibly
ambiguous) are exercised by the harness monitors only. -/

/-- Stockholm AND Pfam output is detected as Stockholm when the buffer has no file name (memory, stdin), whatever the
    alignment holds: the first line is `# STOCKHOLM 1.0` -/
theorem stockholm_autodetect (pfam : Bool) (abc : Option Abc) (m : Msa) :
    guessFormat none (splitLines (stockholmWrite pfam abc m)) = .ok (.stockholm, 0) := by
  rw [guess_stockholmWrite, fmtBySuffix_none]; rfl

/-- … and as Pfam when the file is called `*.pfam` -/
theorem pfam_autodetect_suffix (pfam : Bool) (abc : Option Abc) (m : Msa) :
    guessFormat (some (str "x.pfam")) (splitLines (stockholmWrite pfam abc m)) = .ok (.pfam, 0) := by
  rw [guess_stockholmWrite, fmtBySuffix_pfam]; rfl

/-- Clustal output is detected as Clustal, Clustal-like output as Clustal-like, whatever the file name and the alignment -/
theorem clustal_autodetect (fname : Option Bytes) (abc : Option Abc) (m : Msa) :
    guessFormat fname (splitLines (clustalWrite false abc m)) = .ok (.clustal, 0) :=
  guess_clustalWrite fname false abc m

theorem clustallike_autodetect (fname : Option Bytes) (abc : Option Abc) (m : Msa) :
    guessFormat fname (splitLines (clustalWrite true abc m)) = .ok (.clustallike, 0) :=
  guess_clustalWrite fname true abc m

/-- aligned FASTA output (≥ 1 sequence) is detected as aligned FASTA -/
theorem afa_autodetect (abc : Option Abc) (m : Msa) (h1 : 1 ≤ m.nseq) (hl : lineOk (afaHeader m 0)) :
    guessFormat none (splitLines (afaWrite abc m)) = .ok (.afa, 0) := by
  rw [guess_afaWrite none abc m h1 hl, fmtBySuffix_none]; rfl

/-- NOT selected: A2M output in a buffer without a file name is detected as aligned FASTA (the two begin alike and
    `esl_msafile_GuessFileFormat` decides for A2M only on the suffix `.a2m`) -/
theorem a2m_written_detected_as_afa (abc : Option Abc) (m : Msa) (h1 : 1 ≤ m.nseq) (hl : lineOk (a2mHeader m 0)) :
    guessFormat none (splitLines (a2mWrite abc m)) = .ok (.afa, 0) := by
  rw [guess_a2mWrite none abc m h1 hl, fmtBySuffix_none]; rfl

/-- … and as A2M when the file is called `*.a2m` -/
theorem a2m_autodetect_suffix (abc : Option Abc) (m : Msa) (h1 : 1 ≤ m.nseq) (hl : lineOk (a2mHeader m 0)) :
    guessFormat (some (str "x.a2m")) (splitLines (a2mWrite abc m)) = .ok (.a2m, 0) := by
  rw [guess_a2mWrite _ abc m h1 hl, fmtBySuffix_a2m]; rfl

/-- **write, open with the format autodetected (text mode), read**: Stockholm and Pfam -/
theorem stockholm_autodetect_roundtrip_text (pfam : Bool) (m : Msa) (h : StoTextWritable m) :
    openBytes .auto .text none (stockholmWrite pfam none m) = .ok ⟨.stockholm, none, 0⟩ ∧
    Opened.read ⟨.stockholm, none, 0⟩ (splitLines (stockholmWrite pfam none m)) = (.ok (stoProject (stockholmCfg none) m), []) := by
  refine ⟨?_, stoRead_write pfam none (stockholmCfg none) id _ m (stoTextWritable_writable m h)⟩
  simp only [openBytes, openModel, openFmt, stockholm_autodetect, openAbc]

/-- … and in digital mode with the alphabet given by the caller (`*byp_abc != NULL`) -/
theorem stockholm_autodetect_roundtrip_digital (pfam : Bool) (t : AbcType) (m : Msa) (h : StoDigitalWritable (abcOfType t) m) :
    openBytes .auto (.given t) none (stockholmWrite pfam (some (abcOfType t)) m) = .ok ⟨.stockholm, some t, 0⟩ ∧
    Opened.read ⟨.stockholm, some t, 0⟩ (splitLines (stockholmWrite pfam (some (abcOfType t)) m))
      = (.ok (stoProject (stockholmCfg (some (abcOfType t))) m), []) := by
  have ha : abcOfType t = abcAmino ∨ abcOfType t = abcDna ∨ abcOfType t = abcRna := by cases t <;> simp [abcOfType]
  refine ⟨?_, stoRead_write pfam _ (stockholmCfg (some (abcOfType t))) (stoEnc _) _ m
    (stoDigitalWritable_writable _ (stoDigSymOk_of _ ha) m h)⟩
  simp only [openBytes, openModel, openFmt, stockholm_autodetect, openAbc]

/-- Clustal and Clustal-like, text mode -/
theorem clustal_autodetect_roundtrip_text (like : Bool) (m : Msa) (h : ClustalTextWritable m) :
    openBytes .auto .text none (clustalWrite like none m) = .ok ⟨if like then .clustallike else .clustal, none, 0⟩ ∧
    Opened.read ⟨if like then .clustallike else .clustal, none, 0⟩ (splitLines (clustalWrite like none m))
      = (.ok (clustalProject (clustalCfg none) m), []) := by
  have hr := clustalRead_write like none (clustalCfg none) id _ m (clustalTextWritable_writable m h)
  constructor
  · simp only [openBytes, openModel, openFmt, guess_clustalWrite, openAbc]
  · cases like <;> exact hr

/-- Clustal and Clustal-like, digital mode with the alphabet given by the caller -/
theorem clustal_autodetect_roundtrip_digital (like : Bool) (t : AbcType) (m : Msa) (h : ClustalDigitalWritable (abcOfType t) m) :
    openBytes .auto (.given t) none (clustalWrite like (some (abcOfType t)) m)
      = .ok ⟨if like then .clustallike else .clustal, some t, 0⟩ ∧
    Opened.read ⟨if like then .clustallike else .clustal, some t, 0⟩ (splitLines (clustalWrite like (some (abcOfType t)) m))
      = (.ok (clustalProject (clustalCfg (some (abcOfType t))) m), []) := by
  have ha : abcOfType t = abcAmino ∨ abcOfType t = abcDna ∨ abcOfType t = abcRna := by cases t <;> simp [abcOfType]
  have hr := clustalRead_write like _ (clustalCfg (some (abcOfType t))) (cluEnc _) _ m
    (clustalDigitalWritable_writable _ (cluDigSymOk_of _ ha) m h)
  constructor
  · simp only [openBytes, openModel, openFmt, guess_clustalWrite, openAbc]
  · cases like <;> exact hr

/-- aligned FASTA, text mode -/
theorem afa_autodetect_roundtrip_text (m : Msa) (h : AfaTextWritable m) :
    openBytes .auto .text none (afaWrite none m) = .ok ⟨.afa, none, 0⟩ ∧
    Opened.read ⟨.afa, none, 0⟩ (splitLines (afaWrite none m)) = (.ok (afaProject (afaCfg none) m), []) := by
  refine ⟨?_, afa_roundtrip_text m h⟩
  simp only [openBytes, openModel, openFmt, afa_autodetect none m h.n1 (h.hdr_line 0 h.n1), openAbc]

/-- aligned FASTA, digital mode with the alphabet given by the caller -/
theorem afa_autodetect_roundtrip_digital (t : AbcType) (m : Msa) (h : AfaDigitalWritable (abcOfType t) m) :
    openBytes .auto (.given t) none (afaWrite (some (abcOfType t)) m) = .ok ⟨.afa, some t, 0⟩ ∧
    Opened.read ⟨.afa, some t, 0⟩ (splitLines (afaWrite (some (abcOfType t)) m))
      = (.ok (afaProject (afaCfg (some (abcOfType t))) m), []) := by
  have ha : abcOfType t = abcAmino ∨ abcOfType t = abcDna ∨ abcOfType t = abcRna := by cases t <;> simp [abcOfType]
  refine ⟨?_, afa_roundtrip_digital _ ha m h⟩
  simp only [openBytes, openModel, openFmt, afa_autodetect _ m h.n1 (h.hdr_line 0 h.n1), openAbc]

/-! non-vacuity: the examples of the sections above, evaluated -/
example : guessFormat none (splitLines (stockholmWrite false none exStoAnn)) = .ok (.stockholm, 0) := by decide +kernel
example : guessFormat none (splitLines (clustalWrite true none exClu)) = .ok (.clustallike, 0) := by decide +kernel
example : guessFormat none (splitLines (afaWrite none exMsa)) = .ok (.afa, 0) := by decide +kernel
example : guessFormat none (splitLines (a2mWrite none exA2m)) = .ok (.afa, 0) := by decide +kernel
example : openBytes .auto .guess none (afaWrite none exMsa) = .enoalphabet := by decide +kernel
/-- SELEX and PSI-BLAST output of the example alignments IS detected (evaluation only; PSI-BLAST output
    without a `.pb` suffix is SELEX to the autodetector: the two are told apart by the suffix alone) -/
example : guessFormat none (splitLines (selexWrite none exSlx)) = .ok (.selex, 0) := by decide +kernel
example : guessFormat none (splitLines (psiblastWrite none exPsi)) = .ok (.selex, 0) := by decide +kernel
example : guessFormat (some (str "x.pb")) (splitLines (psiblastWrite none exPsi)) = .ok (.psiblast, 0) := by decide +kernel

/-! ## ===== AUTODETECT — end ===== -/

/-! ## ===== WEIGHT AND CUT-OFF TOKENS (round 6) =====

"Stockholm and Pfam preserve … weights and score cut-offs to the two and one decimals the format prints."  The reader MODEL keeps of a
weight / cut-off whether it is set (the token → double conversion is modelled by C01).  Proved here about the tokens, for EVERY finite
binary64 weight / binary32 cut-off (negative values, zeros, subnormals included): well-formedness, the exact decimal value the token
denotes, its distance from the value printed, and that the reader's tokenizer hands `esl_memtod` exactly the printed bytes. -/

/-- every finite weight prints as `[-]d…d.dd`: two fraction digits, accepted by `esl_mem_IsReal`, one blank-free token -/
theorem weight_token_wellformed (b : UInt64) (h : finiteF64 b) :
    ∃ ip fp, fmtF2 b = (if f64Neg b then [45] else []) ++ (ip ++ 46 :: fp) ∧ ip ≠ [] ∧ allDig ip ∧ allDig fp ∧ fp.length = 2 ∧
      RealTok (fmtF2 b) := fmtF2_wellformed b h

/-- read by an independent decimal parser the weight token has the sign bit of the weight, two decimals, and denotes `fixedQ`
    hundredths, where the weight is `± f64Mant b * 2 ^ f64Exp b` -/
theorem weight_token_value (b : UInt64) (h : finiteF64 b) :
    (decTok (fmtF2 b)).1 = f64Neg b ∧ (decTok (fmtF2 b)).2.2.length = 2 ∧ decTokUnits (fmtF2 b) = fixedQ (f64Mant b) (f64Exp b) 2 :=
  fmtF2_value b h

/-- every finite cut-off prints as `[-]d…d.d` -/
theorem cutoff_token_wellformed (b : UInt32) (h : finiteF32 b) :
    ∃ ip fp, fmtF1 b = (if f32Neg b then [45] else []) ++ (ip ++ 46 :: fp) ∧ ip ≠ [] ∧ allDig ip ∧ allDig fp ∧ fp.length = 1 ∧
      RealTok (fmtF1 b) := fmtF1_wellformed b h

theorem cutoff_token_value (b : UInt32) (h : finiteF32 b) :
    (decTok (fmtF1 b)).1 = f32Neg b ∧ (decTok (fmtF1 b)).2.2.length = 1 ∧ decTokUnits (fmtF1 b) = fixedQ (f32Mant b) (f32Exp b) 1 :=
  fmtF1_value b h

/-- the printed integer of units is the value scaled by `10^prec`: exact for a non-negative binary exponent … -/
theorem printed_value_exact (mant : Nat) (e : Int) (prec : Nat) (he : 0 ≤ e) : fixedQ mant e prec = mant * 10 ^ prec * 2 ^ e.toNat :=
  fixedQ_exact mant e prec he

/-- … and otherwise within HALF a unit of the last printed decimal: `|q * 2^k - mant * 10^prec| ≤ 2^k / 2`, `k = -e` -/
theorem printed_value_half_unit (mant : Nat) (e : Int) (prec : Nat) (he : e < 0) :
    2 * (fixedQ mant e prec * 2 ^ (-e).toNat) ≤ 2 * (mant * 10 ^ prec) + 2 ^ (-e).toNat ∧
    2 * (mant * 10 ^ prec) ≤ 2 * (fixedQ mant e prec * 2 ^ (-e).toNat) + 2 ^ (-e).toNat := fixedQ_half_unit mant e prec he

/-- **token round trip**: under the three `esl_memtok` calls of `stockholm_parse_gs` the written line `#=GS <name> WT <token>` comes
    apart into `#=GS`, the name, `WT` and - byte for byte - the token `printf("%.2f")` produced, which `esl_mem_IsReal` accepts -/
theorem weight_token_roundtrip (m : Msa) (i : Nat) (hn : nameOk (m.names.getD i [])) (hf : finiteF64 ((m.wgt.getD i Wgt.unset).toBits)) :
    ∃ p1 p2, memtok (gsLine m 0 i (wtTok m i)) blankTab = some (bGS, p1) ∧ memtok p1 blankTab = some (m.names.getD i [], p2) ∧
      memtok p2 blankTab = some (bWT, wtTok m i) ∧ memtok (wtTok m i) blankTab = some (wtTok m i, []) ∧
      memIsReal (wtTok m i) = true := wt_line_weight_token m i hn hf

/-- **token round trip for cut-offs**: the value text `<tok1> <tok2>` of a two-threshold `#=GF GA|NC|TC` line comes apart under
    `esl_memtok` into exactly the two tokens `printf("%.1f")` produced; `esl_mem_IsReal` accepts both -/
theorem cutoff_token_roundtrip (a b : UInt32) (ha : finiteF32 a) (hb : finiteF32 b) :
    memtok (fmtF1 a ++ [32] ++ fmtF1 b) blankTab = some (fmtF1 a, fmtF1 b) ∧ memtok (fmtF1 b) blankTab = some (fmtF1 b, []) ∧
      memIsReal (fmtF1 a) = true ∧ memIsReal (fmtF1 b) = true := cutoff_value_tokens a b ha hb

/-- **which weights Stockholm / Pfam carry**: the hypothesis `wgtTokOk` of `stockholm_roundtrip_full` holds for EVERY finite weight
    except those that print as `-1.00` (a weight in about [-1.005, -0.995]: `strtod` reads the token as -1.0, the reader's marker for
    "no weight given" - inherent to the format's convention, not an artefact of the proof) -/
theorem weight_token_carried_iff (b : UInt64) (h : finiteF64 b) :
    wgtTokOk (fmtF2 b) ↔ ¬ (f64Neg b = true ∧ fixedQ (f64Mant b) (f64Exp b) 2 = 100) := wgtTokOk_iff b h

/-- -1.0 is the excluded weight; -1.01 is carried -/
example : ¬ wgtTokOk (fmtF2 0xbff0000000000000) := by
  rw [weight_token_carried_iff _ (by unfold finiteF64; decide)]; decide +kernel
example : wgtTokOk (fmtF2 0xbff028f5c28f5c29) := by
  rw [weight_token_carried_iff _ (by unfold finiteF64; decide)]; decide +kernel

/-- non-vacuity: 0.125 is finite, prints as `0.12` (tie to even) = 12 hundredths; -2.5 prints as `-2.50`; the smallest subnormal as `0.00` -/
example : finiteF64 0x3fc0000000000000 ∧ fmtF2 0x3fc0000000000000 = str "0.12" ∧ decTokUnits (fmtF2 0x3fc0000000000000) = 12 := by
  unfold finiteF64; decide +kernel
example : finiteF64 0xc004000000000000 ∧ fmtF2 0xc004000000000000 = str "-2.50" ∧ (decTok (fmtF2 0xc004000000000000)).1 = true := by
  unfold finiteF64; decide +kernel
example : finiteF64 1 ∧ fmtF2 1 = str "0.00" := by unfold finiteF64; decide +kernel
example : finiteF32 0x41c80000 ∧ fmtF1 0x41c80000 = str "25.0" ∧ decTokUnits (fmtF1 0x41c80000) = 250 := by unfold finiteF32; decide +kernel
example : nameOk (exStoWt.names.getD 0 []) ∧ finiteF64 ((exStoWt.wgt.getD 0 Wgt.unset).toBits) := by
  unfold nameOk finiteF64; decide +kernel

/-! ## ===== FIRST-MENTION ORDER (round 6): what the Stockholm reader DOES produce =====

Known finding C03:stockholm:first-mention-order as a specification.  `stoSeqOrder m` / `stoGrOrder m` are the orders in which the
reader numbers the sequences / unparsed `#=GR` tags of `write m`; `stoMention m` is `m` rearranged into them.

FULL statement (`StoMentionRoundTrip`): for every writable alignment, WITHOUT `gsOrderOk` / `grOrderOk`,
    `read (write m) = ok (stoProject (stoMention m))`.
Proved: the two orders are permutations for EVERY alignment; they are the identity under `gsOrderOk` / `grOrderOk`, and then `stoMention m`
projects to `m`: the full statement holds wherever the proved round trip does (`stockholm_roundtrip_mention_partial`); the full statement
at the witnesses of the finding (`decide`).  Not proved: the full statement in general (see `Msafile/StoFirstMention.lean`); the monitor
demands it of the real library on every generated case, inside the region of the finding too. -/

theorem stockholm_seq_order_perm (m : Msa) : (stoSeqOrder m).Perm (List.range m.nseq) := stoSeqOrder_perm m

theorem stockholm_gr_order_perm (m : Msa) : (stoGrOrder m).Perm (List.range m.gr.length) := stoGrOrder_perm m

theorem stockholm_seq_order_id (m : Msa) (h : gsOrderOk m) : stoSeqOrder m = List.range m.nseq := stoSeqOrder_id_of_gsOrderOk m h

theorem stockholm_gr_order_id (m : Msa) (h : grOrderOk m) : stoGrOrder m = List.range m.gr.length := stoGrOrder_id_of_grOrderOk m h

/-- PARTIAL: the full statement `StoMentionRoundTrip pfam abc cfg m` - read (write m) = ok (stoProject (stoMention m)) - is proved
    here under `StoWritable`, i.e. WITH its two order clauses `gsOrderOk` / `grOrderOk`, where both orders are the identity and
    `stoMention m` projects to `m` itself.  Missing: the same for every `m` that satisfies `StoWritable` without those two clauses. -/
theorem stockholm_roundtrip_mention_partial (pfam : Bool) (abc : Option Abc) (cfg : Cfg) (enc : UInt8 → UInt8) (txt : Nat → Bytes) (m : Msa)
    (h : StoWritable abc cfg enc txt m) :
    StoMentionRoundTrip pfam abc cfg m ∧ stoSeqOrder m = List.range m.nseq ∧ stoGrOrder m = List.range m.gr.length ∧
      stoProject cfg (stoMention m) = stoProject cfg m :=
  ⟨stoMentionRoundTrip_of_writable pfam abc cfg enc txt m h, stoSeqOrder_id_of_gsOrderOk m h.ann.gs_order,
    stoGrOrder_id_of_grOrderOk m h.ann.gr_order, stoMention_project abc cfg enc txt m h⟩

example := stockholm_roundtrip_mention_partial false none _ id _ exStoWt (stoTextWritable_writable exStoWt exStoWt_writable)
example : gsOrderOk exStoWt ∧ stoSeqOrder exStoWt = List.range exStoWt.nseq := ⟨gsOrderOk_of_hasw exStoWt rfl, by decide +kernel⟩

/-- the full statement AT the witnesses of the known finding: sparse `#=GS AC` (sequence order `[1, 0]`) … -/
example : stoSeqOrder exStoGsBad = [1, 0] ∧ stoGrOrder exStoGsBad = [] := by decide +kernel
example : StoMentionRoundTrip true none (stockholmCfg none) exStoGsBad := by unfold StoMentionRoundTrip; decide +kernel
example : StoMentionRoundTrip false none (stockholmCfg none) exStoGsBad := by unfold StoMentionRoundTrip; decide +kernel
/-- … `#=GR` tags first used by a later sequence (tag order `[1, 0]`) … -/
example : stoSeqOrder exStoGrBad = [0, 1] ∧ stoGrOrder exStoGrBad = [1, 0] := by decide +kernel
example : StoMentionRoundTrip true none (stockholmCfg none) exStoGrBad := by unfold StoMentionRoundTrip; decide +kernel

/-- … and both at once, three sequences: `DE` only for the second, `#=GS OS` only for the third, `#=GR tA` only on the third, `tB` only
    on the second: sequences come back in the order `[1, 2, 0]`, tags in the order `[1, 0]` -/
def exStoMention : Msa :=
  { alen := 3, names := [str "a", str "b", str "c"], aseq := [str "ACG", str "A-G", str "AAA"], wgt := [.dflt, .dflt, .dflt],
    sqdesc := some [none, some (str "foo"), none], gs := [(str "OS", [none, none, some (str "qq")])],
    gr := [(str "tA", [none, none, some (str "abc")]), (str "tB", [none, some (str "abc"), none])] }

example : stoSeqOrder exStoMention = [1, 2, 0] ∧ stoGrOrder exStoMention = [1, 0] := by decide +kernel
example : (stoMention exStoMention).names = [str "b", str "c", str "a"] ∧
    (stoMention exStoMention).gr = [(str "tB", [some (str "abc"), none, none]), (str "tA", [none, some (str "abc"), none])] := by decide +kernel
example : StoMentionRoundTrip false none (stockholmCfg none) exStoMention := by unfold StoMentionRoundTrip; decide +kernel

/-! ## ===== AUTODETECTION OF PHYLIP OUTPUT (round 6) =====

For Stockholm/Pfam, Clustal, Clustal-like and aligned FASTA `guess (write m) = fmt` holds for every alignment (section AUTODETECT).
PHYLIP: the header line ` <nseq> <alen>` is recognised for ALL numbers, so with a PHYLIP suffix the answer is the suffix's format, and
without one it is EXACTLY the verdict of the deep check `esl_msafile_phylip_CheckFileFormat` on the output: the exception set is
`{m | phyCheckFileFormat (write m) ≠ ok fmt}` (documented as heuristic: one sequence / one block make the two layouts the same bytes;
members below).  SELEX / PSI-BLAST output has no header: it is recognised by `msafile_check_selex` over the whole file - executable
model + monitor only, no theorem. -/

/-- the first line of PHYLIP output looks like a PHYLIP header, whatever `nseq` and `alen` -/
theorem phylip_header_recognised (n a : Nat) :
    lineOk (phyHdrLine n a) ∧ isBlankLine (phyHdrLine n a) = false ∧ fmtByFirstLine (phyHdrLine n a) = .phylip := phyHeader_first n a

/-- **autodetection of PHYLIP output** (interleaved or sequential, text or digital, any alignment with ≥ 1 column) -/
theorem phylip_autodetect (fname : Option Bytes) (sequential : Bool) (abc : Option Abc) (m : Msa) (h : 0 < m.alen) :
    guessFormat fname (splitLines (phylipWrite sequential abc m)) =
      if fmtBySuffix fname == some .phylip then .ok (.phylip, 0)
      else if fmtBySuffix fname == some .phylips then .ok (.phylips, 0)
      else phyCheckFileFormat (splitLines (phylipWrite sequential abc m)) := guess_phylipWrite fname sequential abc m h

/-- with the suffix `.phy` / `.phys` the format is the suffix's, for every alignment -/
theorem phylip_autodetect_suffix (sequential : Bool) (abc : Option Abc) (m : Msa) (h : 0 < m.alen) :
    guessFormat (some (str "x.phy")) (splitLines (phylipWrite sequential abc m)) = .ok (.phylip, 0) ∧
    guessFormat (some (str "x.phys")) (splitLines (phylipWrite sequential abc m)) = .ok (.phylips, 0) := by
  constructor
  · rw [guess_phylipWrite _ sequential abc m h, fmtBySuffix_phy]; rfl
  · rw [guess_phylipWrite _ sequential abc m h, fmtBySuffix_phys]; rfl

/-- non-vacuity and members of the exception set: two sequences, 61 columns (two blocks): interleaved output is detected … -/
example : 0 < exPhy.alen ∧ guessFormat none (splitLines (phylipWrite false none exPhy)) = .ok (.phylip, 10) := by decide +kernel
/-- … the sequential output of the same alignment is "consistent with both" (eslEAMBIGUOUS → eslENOFORMAT, documented) … -/
example : guessFormat none (splitLines (phylipWrite true none exPhy)) = .fail := by decide +kernel
/-- … and a single block is the same bytes in both layouts: detected as interleaved -/
example : guessFormat none (splitLines (phylipWrite true none { exPhy with alen := 5, aseq := exPhy.aseq.map (·.take 5) })) = .ok (.phylip, 10) ∧
    phylipWrite true none { exPhy with alen := 5, aseq := exPhy.aseq.map (·.take 5) }
      = phylipWrite false none { exPhy with alen := 5, aseq := exPhy.aseq.map (·.take 5) } := by decide +kernel

/-! ## ===== NUMERIC ROUND TRIP OF WEIGHTS AND CUT-OFFS (round 6b) =====

"Stockholm and Pfam preserve … weights and score cutoffs to the two and one decimals the format prints", as VALUES: C01's exact model
of `strtod` / `esl_memtof` (`Msafile/StoNum.lean`: `strtodBits`, `strtofBits`, tied to the library by C01's differential run) composed
with the exact model of `printf("%.2f" / "%.1f")` (`fmtF2`, `fmtF1`, tied byte for byte by this check), for EVERY finite value.  Together
with `weight_token_roundtrip` (the bytes handed to `esl_memtod` are the printed token) and `printed_value_half_unit` (the printed
number is within half a unit of the last decimal of the value) this is the full numeric statement: the weight read back is the
binary64 number nearest to a two-decimal number within 0.005 of the weight written. -/

/-- the double the reader stores for a printed weight: the weight's sign bit + the binary64 number nearest (ties to even) to the printed
    two-decimal value `q / 100`, `q = fixedQ (f64Mant b) (f64Exp b) 2` (0 for `q = 0`) -/
theorem weight_value_reread (b : UInt64) (h : finiteF64 b) :
    strtodBits (fmtF2 b) = UInt64.ofNat ((if f64Neg b then 2 ^ 63 else 0) +
      (if fixedQ (f64Mant b) (f64Exp b) 2 = 0 then 0 else round64 (fixedQ (f64Mant b) (f64Exp b) 2) 100)) := strtodBits_fmtF2 b h

/-- **numeric round trip of a weight**: `strtod (printf "%.2f" w) = w` bit for bit EXACTLY when `w` is the binary64 number nearest to the
    two-decimal number it prints as; otherwise the value read back is that nearest number (`weight_value_reread`) -/
theorem weight_value_roundtrip_iff (b : UInt64) (h : finiteF64 b) :
    strtodBits (fmtF2 b) = b ↔
      b = UInt64.ofNat ((if f64Neg b then 2 ^ 63 else 0) +
        (if fixedQ (f64Mant b) (f64Exp b) 2 = 0 then 0 else round64 (fixedQ (f64Mant b) (f64Exp b) 2) 100)) :=
  EaselModel.Msafile.weight_value_roundtrip_iff b h

/-- the float the reader stores for a printed cut-off: `(float)` of the binary64 number nearest to the printed one-decimal value -/
theorem cutoff_value_reread (c : UInt32) (h : finiteF32 c) :
    strtofBits (fmtF1 c) = f64ToF32 (UInt64.ofNat ((if f32Neg c then 2 ^ 63 else 0) +
      (if fixedQ (f32Mant c) (f32Exp c) 1 = 0 then 0 else round64 (fixedQ (f32Mant c) (f32Exp c) 1) 10))) := strtofBits_fmtF1 c h

/-- when the Stockholm reader accepts the written line `#=GS <name> WT <tok>` of sequence `i`, the recorder of C01's value-carrying reader
    `stockholmReadV` appends, for the sequence the line names, exactly `strtod` of the printed token (= the value of `weight_value_reread`) -/
theorem weight_value_recorded (ns : NumSt) (st st' : StoSt) (m : Msa) (i : Nat) (hl : st.lead = false)
    (hn : nameOk (m.names.getD i [])) (hf : finiteF64 ((m.wgt.getD i Wgt.unset).toBits)) :
    numUpd ns st st' (gsLine m 0 i (wtTok m i))
      = { ns with w := ns.w ++ [(st'.si - 1, strtodBits (fmtF2 ((m.wgt.getD i Wgt.unset).toBits)))] } :=
  numUpd_wt_line ns st st' m i hl hn hf

/-- … and for cut-offs: on the value text `<tok1> <tok2>` of a written `#=GF GA|NC|TC` line the recorder stores `(float) strtod` of exactly
    the two printed tokens (= the values of `cutoff_value_reread`) in the two slots -/
theorem cutoff_value_recorded (ns : NumSt) (a b : UInt32) (i1 i2 : Nat) (u : Bool) (ha : finiteF32 a) (hb : finiteF32 b) :
    numCutoffs ns (fmtF1 a ++ [32] ++ fmtF1 b) i1 i2 u
      = { ns with cut := (ns.cut.set i1 (some (strtofBits (fmtF1 a)))).set i2 (some (strtofBits (fmtF1 b))) } :=
  numCutoffs_written ns a b i1 i2 u ha hb

/-- non-vacuity, both directions: 1.5 and 0.1 come back exactly (they are the doubles nearest to 1.50 and 0.10); 0.125 comes back as
    the double nearest to 0.12, which prints as `0.12` again; cut-off 0.25 comes back as 0.2f -/
example : finiteF64 0x3ff8000000000000 ∧ strtodBits (fmtF2 0x3ff8000000000000) = 0x3ff8000000000000 := by unfold finiteF64; decide +kernel
example : strtodBits (fmtF2 0x3fb999999999999a) = 0x3fb999999999999a := by decide +kernel
example : strtodBits (fmtF2 0x3fc0000000000000) = 0x3fbeb851eb851eb8 ∧ fmtF2 0x3fbeb851eb851eb8 = fmtF2 0x3fc0000000000000 := by decide +kernel
example : finiteF32 0x3e800000 ∧ strtofBits (fmtF1 0x3e800000) = 0x3e4ccccd ∧ strtofBits (fmtF1 0x41c80000) = 0x41c80000 := by
  unfold finiteF32; decide +kernel

end EaselModel.Props.C03
