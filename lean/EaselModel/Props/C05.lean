import EaselModel.Buffer.Open
import EaselModel.Buffer.Partition
import EaselModel.Buffer.ReadFetch
import EaselModel.Buffer.TokenOps
import EaselModel.Buffer.KeepLines
import EaselModel.Buffer.History
import EaselModel.Buffer.AllLines
import EaselModel.Buffer.Quiet
import EaselModel.Buffer.TotalHist
import EaselModel.Buffer.MemExact
import EaselModel.Buffer.Stable
import EaselModel.Buffer.Pinned
import EaselModel.Buffer.Beyond
import EaselModel.Buffer.HistoryX
import EaselModel.Buffer.HistoryXF
import EaselModel.Buffer.Retired
import EaselModel.Buffer.MemRealLemmas  -- round4-mem
import EaselModel.Buffer.MemRealStart  -- round 6
import EaselModel.Buffer.OpenFileLemmas -- round4-open
/-! # C05 — the input buffer behaves as a byte array with a cursor in every mode and history

Property theorems only; the lemmas are in `EaselModel/Buffer/*`. `Buf` is the model of `ESL_BUFFER`
(`EaselModel/Buffer/Model.lean`, mirrored from `esl_buffer.c` and tied to it by the differential run of every check);
`Abs = (src, cursor)` is the specification (`EaselModel/Buffer/Spec.lean`). None of the theorems bounds the input, the
page size (any `pagesize ≥ 1`) or the number of steps. -/
namespace EaselModel.Props.C05
open EaselModel.Buffer

/-- Every opener (string, stream, pipe, paged file, slurped file, mmap), every page size ≥ 1, every input: the initial
    window is well formed, satisfies the page guarantee, and denotes `(src, 0)`. -/
theorem open_wf (mode : Mode) (ps : Nat) (src : Bytes) (hps : 0 < ps) :
    WF (openBuf mode ps src) ∧ PG (openBuf mode ps src) ∧ (openBuf mode ps src).abs = ⟨src, 0⟩ :=
  openBuf_wf mode ps src hps

/-- `buffer_refill` preserves the window invariant, never faults, does not move the cursor of the abstract state, and
    answers `eslEOF` only when nothing is loaded behind the cursor and nothing is left in the stream. -/
theorem refill_wf (b : Buf) (nmin : Nat) (h : WF b) :
    WF (refill b nmin).2 ∧ (refill b nmin).2.abs = b.abs ∧
    ((refill b nmin).1 = .ok ∨ (refill b nmin).1 = .eof) ∧
    ((refill b nmin).1 = .eof → (refill b nmin).2.abs.suffix = []) := by
  have p := refill_post b nmin h
  refine ⟨p.wf, abs_of_frame p.frame, p.status, fun he => ?_⟩
  obtain ⟨h1, h2⟩ := p.eof_imp he
  show (refill b nmin).2.src.drop ((refill b nmin).2.base + (refill b nmin).2.pos) = []
  rw [p.wf.suffix_win, h2]
  have : (refill b nmin).2.win = [] := by
    apply List.eq_nil_of_length_eq_zero; rw [win_length]; omega
  rw [this]; rfl

/-- One call of `buffer_refill` restores the page guarantee `n - pos ≥ nmin + pagesize` (or exhausts the stream)
    whenever `nmin` bytes were loaded before the call. -/
theorem refill_guarantee (b : Buf) (nmin : Nat) (h : WF b) (hn : nmin ≤ b.n - b.pos) :
    nmin + (refill b nmin).2.pagesize ≤ (refill b nmin).2.n - (refill b nmin).2.pos ∨ (refill b nmin).2.rest = [] :=
  (refill_post b nmin h).guarantee hn

/-- `esl_buffer_GetLine` refines `specGetLine`: same status, same line bytes, same new cursor — for every mode, every
    page size, lines of any length (longer than the page, CR at a page edge, no final newline …); the window
    invariant and the page guarantee hold again afterwards and no memory access is out of bounds (`St.fault` is not
    the status, since `specGetLine` never yields it). -/
theorem getLine_refines (b : Buf) (h : WF b) (hl : Loaded b) :
    WF (getLine b).2 ∧
    ((getLine b).1.st, (getLine b).1.bytes, (getLine b).2.abs) = specGetLine b.abs ∧
    (getLine b).1.n = (getLine b).1.bytes.length ∧ PG (getLine b).2 :=
  EaselModel.Buffer.getLine_refines b h hl

/-- `esl_buffer_FetchLine` / `FetchLineAsStr`: the same refinement (the copy is taken before the window may move);
    the `AsStr` variant reports the NUL terminator. -/
theorem fetchLine_refines (b : Buf) (asStr : Bool) (h : WF b) (hl : Loaded b) :
    WF (fetchLine b asStr).2 ∧
    ((fetchLine b asStr).1.st, (fetchLine b asStr).1.bytes, (fetchLine b asStr).2.abs) = specGetLine b.abs ∧
    (fetchLine b asStr).1.n = (fetchLine b asStr).1.bytes.length ∧ PG (fetchLine b asStr).2 ∧
    ((fetchLine b asStr).1.st = .ok → (fetchLine b asStr).1.z = asStr) :=
  EaselModel.Buffer.fetchLine_refines b asStr h hl

/-- `esl_buffer_Read` refines `specRead` for every byte count, page size and mode: `eslEOF` exactly when fewer than
    `k` bytes remain (cursor unchanged), otherwise exactly the next `k` bytes. -/
theorem read_refines (b : Buf) (k : Nat) (h : WF b) :
    WF (read b k).2 ∧
    ((read b k).1.st, (read b k).1.bytes, (read b k).2.abs) = specRead b.abs k ∧
    (read b k).1.n = (read b k).1.bytes.length ∧ PG (read b k).2 :=
  EaselModel.Buffer.read_refines b k h

/-- `esl_buffer_GetToken` refines `specToken sep`: separators skipped, `eslEOF` at end of input, `eslEOL` on LF/CRLF
    (also when the CR is the last loaded byte), else the token and the separators after it — every mode, every
    page size ≥ 1, every separator set (NUL always counts as a separator, as `strchr` makes it). The returned
    pointer is read after the last refill: the anchor set at the token start kept the token in the window. -/
theorem getToken_refines (b : Buf) (sep : Bytes) (h : WF b) :
    WF (getToken b sep).2 ∧
    ((getToken b sep).1.st, (getToken b sep).1.bytes, (getToken b sep).2.abs) = specToken b.abs sep ∧
    (getToken b sep).1.n = (getToken b sep).1.bytes.length ∧ PG (getToken b sep).2 :=
  EaselModel.Buffer.getToken_refines b sep h

/-- `esl_buffer_FetchToken` / `FetchTokenAsStr`: the same refinement. -/
theorem fetchToken_refines (b : Buf) (sep : Bytes) (asStr : Bool) (h : WF b) :
    WF (fetchToken b sep asStr).2 ∧
    ((fetchToken b sep asStr).1.st, (fetchToken b sep asStr).1.bytes, (fetchToken b sep asStr).2.abs) = specToken b.abs sep ∧
    (fetchToken b sep asStr).1.n = (fetchToken b sep asStr).1.bytes.length ∧ PG (fetchToken b sep asStr).2 ∧
    ((fetchToken b sep asStr).1.st = .ok → (fetchToken b sep asStr).1.z = asStr) :=
  EaselModel.Buffer.fetchToken_refines b sep asStr h

/-- Lines and their terminators partition the input exactly; bodies are LF-free; terminators are LF, CRLF, or (only
    for the last line) nothing; a body never ends in CR when the terminator is a bare LF: lines are the maximal runs
    between LF/CRLF terminators. `specLines` iterates `specLine`, the function `GetLine` was proved to compute. -/
theorem lines_partition (src : Bytes) :
    (specLines src).flatMap (fun l => l.body ++ l.term) = src ∧
    (∀ l ∈ specLines src, LF ∉ l.body ∧ (l.term = [LF] ∨ l.term = [CR, LF] ∨ l.term = [])) ∧
    (∀ l ∈ specLines src, l.term = [LF] → l.body.getLast? ≠ some CR) ∧
    (∀ i, i + 1 < (specLines src).length → ∀ l, (specLines src)[i]? = some l → l.term ≠ []) :=
  EaselModel.Buffer.lines_partition src

/-- The line operations leave the anchor (in input coordinates) and its count as they found them — exactly: an anchor at
    or before the cursor is kept (`brkAnchor b = absAnchor b`, every history inside the API contract); an anchor AHEAD of
    the cursor (accepted by `esl_buffer_SetAnchor`, or left behind by an in-window rewind) is replaced by the call's own
    bracket `SetAnchor(cursor) … RaiseAnchor(cursor)` and is gone afterwards (`brkAnchor b = none`). -/
theorem getLine_keeps_anchor (b : Buf) (h : WF b) (ha : AnchOK b) (hn : NoFpNoAnchor b) :
    KeepX b.brkAnchor b (getLine b).2 ∧ AnchOK (getLine b).2 ∧
    ((∀ a, b.anchor = some a → a ≤ b.pos) → KeepA b (getLine b).2) :=
  ⟨(getLine_keepX b h ha hn).1, (getLine_keepX b h ha hn).2, fun hle => (getLine_keep b h ha hn hle).1⟩

/-- `buffer_countline` = `esl_memnewline` of the whole rest of the input, independent of how the input is paged. -/
theorem countline_pagesize_independent (b : Buf) (h : WF b) (hlt : b.pos < b.n) :
    (countline b).1 = .ok ∧
    ((countline b).2.2.1, (countline b).2.2.2 - (countline b).2.2.1) = memnewline b.abs.suffix := by
  obtain ⟨_, _, _, c4⟩ := countline_spec b h
  obtain ⟨d1, d2, d3, _⟩ := c4 hlt
  refine ⟨d1, ?_⟩
  show _ = memnewline (b.src.drop (b.base + b.pos))
  rw [d2, d3]; simp

/-- **Refinement of whole histories** (the property at full strength, except pointer stability under stable anchors).
    For every input `src`, every opener, every page size `ps ≥ 1`, and every history of the 14 public operations
    (get/fetch line, get/fetch token, binary read, raw get/set, offset query and move, setting/raising plain and stable
    anchors, nested and re-set anchors, rewinds) that respects the API contract `ValidHist P` (anchors are set at the
    cursor or between the active anchor and the cursor; `SetOffset` targets a byte of the input ahead of the cursor or
    at/after the active anchor; `Set` stays within one guaranteed page `P ≤ ps` of the cursor): the sequence of
    (status, returned bytes, offset afterwards) observed on the model of `esl_buffer.c` equals that of the abstract
    specification "bytes + cursor" (`specStep`: `specLine`, `specTok`, `specRead` on the suffix at the cursor).
    In particular every reported offset is the true offset. -/
theorem history_spec (mode : Mode) (ps : Nat) (src : Bytes) (hps : 0 < ps) (P : Nat) (hP : P ≤ ps)
    (ops : List Op) (hv : ValidHist P (AState.init src) ops) :
    obsRun { b := openBuf mode ps src } ops = specRun (AState.init src) ops :=
  EaselModel.Buffer.history_spec mode ps src hps P hP ops hv

/-- **Mode and page-size independence**: two openings of the same bytes, in any two of the six modes and with any two
    page sizes, give identical results (statuses, lines, tokens, byte counts, EOL/EOF outcomes, offsets) on every
    valid history. -/
theorem history_mode_independent (src : Bytes) (m₁ m₂ : Mode) (ps₁ ps₂ P : Nat) (h₁ : 0 < ps₁) (h₂ : 0 < ps₂)
    (hP₁ : P ≤ ps₁) (hP₂ : P ≤ ps₂) (ops : List Op) (hv : ValidHist P (AState.init src) ops) :
    obsRun { b := openBuf m₁ ps₁ src } ops = obsRun { b := openBuf m₂ ps₂ src } ops :=
  EaselModel.Buffer.history_mode_independent src m₁ m₂ ps₁ ps₂ P h₁ h₂ hP₁ hP₂ ops hv

/-- Along every valid history no operation ends in `fault` (out-of-bounds access, cursor outside the window, anchor
    beyond the cursor, loop out of fuel) nor in an internal error: the statuses are `eslOK`, `eslEOF`, `eslEOL` only. -/
theorem history_no_fault (mode : Mode) (ps : Nat) (src : Bytes) (hps : 0 < ps) (P : Nat) (hP : P ≤ ps)
    (ops : List Op) (hv : ValidHist P (AState.init src) ops) :
    ∀ o ∈ obsRun { b := openBuf mode ps src } ops, o.st = .ok ∨ o.st = .eof ∨ o.st = .eol :=
  EaselModel.Buffer.history_no_fault mode ps src hps P hP ops hv

/-- **Re-reading under an anchor**: in any state reached by a valid history (`R P a s`), while an anchor is set at
    offset `A`, every `SetOffset o` with `A ≤ o ≤ length of the input` (the very end included) succeeds and the bytes then read at `o` are the
    bytes of the input at `o` — in every mode, also when the stream has long moved on. -/
theorem reread_under_anchor (P : Nat) (a : AState) (s : Sess) (r : R P a s) (A o k : Nat)
    (hA : a.anchor = some A) (hle : A ≤ o) (hlt : o ≤ a.src.length) :
    Valid P a (.setOffset o) ∧
    obsOf (.setOffset o) (s.step (.setOffset o)).1 (s.step (.setOffset o)).2 = ⟨.ok, [], o⟩ ∧
    (let s' := (s.step (.setOffset o)).2
     ((s'.step (.read k)).1.st, (s'.step (.read k)).1.bytes) =
       ((specRead ⟨a.src, o⟩ k).1, (specRead ⟨a.src, o⟩ k).2.1)) :=
  EaselModel.Buffer.reread_under_anchor P a s r A o k hA hle hlt

/-- What `esl_buffer_Get` exposes in any state reached by a valid history: a non-empty prefix of the rest of the input,
    at least one guaranteed page of it unless the input ends first (how much more is window policy; that is why
    `obsOf` compares only status and offset for `Get`). -/
theorem get_prefix (P : Nat) (a : AState) (s : Sess) (r : R P a s) (hlt : a.cur < a.src.length) :
    (get s.b).1.st = .ok ∧ (get s.b).1.bytes = a.abs.suffix.take (get s.b).1.n ∧ 0 < (get s.b).1.n ∧
    min P (a.src.length - a.cur) ≤ (get s.b).1.n :=
  EaselModel.Buffer.get_prefix r hlt

/-- **Reading a whole input line by line** (`while (esl_buffer_GetLine(..) == eslOK)`, with any mix of `GetLine`,
    `FetchLine`, `FetchLineAsStr`): on every opener, every page size ≥ 1 and every input, the lines returned until the
    first non-OK status are exactly the bodies of `specLines src`. This is the abstract line reader that the models of
    the alignment and sequence-file parsers (C01, C02, C04 …) are built on. -/
theorem readLines_eq_specLines (mode : Mode) (ps : Nat) (src : Bytes) (hps : 0 < ps) (pick : Nat → Op)
    (hpick : ∀ i, isLineOp (pick i)) :
    readLines pick (src.length + 1) { b := openBuf mode ps src } = (specLines src).map (·.body) :=
  EaselModel.Buffer.readLines_eq_specLines mode ps src hps pick hpick

/-- In the modes that hold the whole input (string, slurped file, mmap, short pipe) `Get` exposes all the rest of it. -/
theorem get_all_in_memory (P : Nat) (a : AState) (s : Sess) (r : R P a s) (hf : s.b.hasfp = false)
    (hlt : a.cur < a.src.length) :
    (get s.b).1.st = .ok ∧ (get s.b).1.bytes = a.abs.suffix ∧ (get s.b).1.n = a.src.length - a.cur :=
  EaselModel.Buffer.get_all_in_memory r hf hlt

/-- One step: any of the 14 operations, from any state related to a specification state, within the contract,
    yields the specification's observation and a related state again (anchor bookkeeping included). -/
theorem step_simulates (P : Nat) (op : Op) : SimStep P op := sim_all P op

/-- the model IS the repaired code (fix 188d0b6): `pinned b` is the C field `bf->stable` -/
theorem stable_repair_in_model : BufConsts.stableRetire = true ∧ ∀ b : Buf, pinned b = b.stab :=
  ⟨by decide, fun b => by unfold pinned; rw [show BufConsts.stableRetire = true by decide]; exact Bool.true_and _⟩

/-- **FULL STATEMENT** (true since fix 188d0b6; it was false of the code before, see `stable_ptr_valid_fails_at`): while a stable
    anchor is in force (`bf->stable` set) NO `buffer_refill` moves or frees a byte that was handed out — for every window,
    every `nmin`, however little room is left, no other hypothesis: the bytes loaded before are still there at the same place
    (`b.mem` is a prefix of the new window, `base` unchanged), the flag stays set, and `memgen` (bumped by every
    memmove/realloc/free of handed-out bytes) is unchanged. -/
theorem stable_ptr_valid (b : Buf) (nmin : Nat) (hs : b.stab = true) :
    (refill b nmin).2.memgen = b.memgen ∧ (refill b nmin).2.stab = b.stab ∧ (refill b nmin).2.base = b.base ∧
      b.mem <+: (refill b nmin).2.mem :=
  refill_pinned b nmin (by rw [stable_repair_in_model.2]; exact hs)

/-- the price of the repair is bounded: under a stable anchor the allocation at least doubles when it grows (so the retired
    blocks, each at most half of its successor, sum to less than the live block) and never exceeds twice the need -/
theorem stable_growth_bounded (b : Buf) (hs : b.stab = true) :
    (grow b).balloc ≤ max b.balloc (2 * (b.n + b.pagesize)) ∧ b.n + b.pagesize ≤ max b.balloc (grow b).balloc ∧
      (b.balloc < (grow b).balloc → 2 * b.balloc ≤ (grow b).balloc) :=
  grow_pinned_bound b (by rw [stable_repair_in_model.2]; exact hs)

-- non-vacuity: a state under a stable anchor that has to grow (2-byte window of a 4-byte stream, page 2, no room behind it)
example : stableWitness.stab = true ∧ stableWitness.n + stableWitness.pagesize > stableWitness.balloc := by decide

/-- **One operation under a stable anchor.** From any state in which an anchor is set, `bf->stable` is set (repaired tree) and
    the memory generation is `g` (`I true g b`; no well-formedness or contract hypothesis), every one of the 14 operations
    other than `SetStableAnchor` itself, with any argument, ends with the memory generation still `g` and the flag still
    set — unless it raised the last anchor (`I false g`: the conclusion is conditional on an anchor still being set). -/
theorem stable_ptr_valid_step (g : Nat) (b : Buf) (lp : Option Nat) (op : Op) (h : I true g b)
    (h1 : ∀ o, op ≠ .setStableAnchor o) : I false g (opRun b lp op).2 :=
  pinned_step b lp op h h1

/-- **The property's clause, for every history**: "pointers handed out under a stable anchor stay valid until it is
    raised". After a successful `SetStableAnchor` on a stream (`stable_anchor_establishes`), along EVERY history of the
    other 13 operations — any arguments, inside or outside the API contract, any page size, any amount of data read — as long
    as an anchor is still set after each operation (`Anchored`: it has not been raised yet), no byte that was handed out has been
    moved or freed (`memgen = g`) and the protection is still in force. -/
theorem stable_ptr_valid_history (g : Nat) (ops : List Op) (s : Sess) (h : I true g s.b)
    (hno : ∀ op ∈ ops, ∀ o, op ≠ .setStableAnchor o) (ha : Anchored s ops) :
    (runS s ops).b.memgen = g ∧ pinned (runS s ops).b = true ∧ (runS s ops).b.anchor ≠ none :=
  let r := pinned_history ops s h hno ha (Or.inl rfl)
  ⟨r.2.1, r.2.2, r.1⟩

/-- the hypothesis of `stable_ptr_valid_history` is what a successful `SetStableAnchor` on a stream leaves (repaired tree) -/
theorem stable_anchor_establishes (b : Buf) (o : Nat) (hf : b.hasfp = true)
    (hok : (setStableAnchor b o).1 = .ok) : I true (setStableAnchor b o).2.memgen (setStableAnchor b o).2 :=
  setStableAnchor_I b o stable_repair_in_model.1 hf hok

-- non-vacuity: stream "ab\ncd\nef\n", page 2, stable anchor at 0, then Get, GetLine, GetLine, GetToken (the window has to grow
-- three times): the hypotheses hold, and so does the conclusion by evaluation
example : Anchored { b := (setStableAnchor (openBuf .stream 2 [97, 98, 10, 99, 100, 10, 101, 102, 10]) 0).2 } [.get, .getLine, .getLine, .getToken [32]] := by
  refine ⟨?_, ?_, ?_, ?_, trivial⟩ <;> decide
example :
    (runS { b := (setStableAnchor (openBuf .stream 2 [97, 98, 10, 99, 100, 10, 101, 102, 10]) 0).2 } [.get, .getLine, .getLine, .getToken [32]]).b.memgen
      = (setStableAnchor (openBuf .stream 2 [97, 98, 10, 99, 100, 10, 101, 102, 10]) 0).2.memgen ∧
    (runS { b := (setStableAnchor (openBuf .stream 2 [97, 98, 10, 99, 100, 10, 101, 102, 10]) 0).2 } [.get, .getLine, .getLine, .getToken [32]]).b.balloc = 16 := by decide

/-! ### the blocks behind the window (round 6b): `bf->mem` and `bf->retired` as allocator state (Buffer/Retired.lean)

`refillH b nmin h` is what `buffer_refill` called in state `b` does to the allocator (same conditions, same order as `refill`):
free the retired blocks when no stable anchor holds, then either retire the block (under `bf->stable`) or realloc it. -/

/-- **While `bf->stable` is set a refill frees nothing**: the freed list is unchanged and every block that was `bf->mem` or on
    `bf->retired` before still is — so every pointer handed out since the stable anchor was set points into a live allocation
    (the memory-safety half of the clause; `stable_ptr_valid` is the "same bytes at the same place" half). -/
theorem retired_never_freed_under_stable (b : Buf) (nmin : Nat) (h : Heap) (hs : b.stab = true) :
    (refillH b nmin h).freed = h.freed ∧
    ∀ x, x ∈ h.live :: h.retired → x ∈ (refillH b nmin h).live :: (refillH b nmin h).retired :=
  refillH_pinned b nmin h (by rw [stable_repair_in_model.2]; exact hs)

/-- **Every block is freed exactly once**: after ANY sequence of `buffer_refill` calls, each in ANY state (a superset of what the
    14 operations can issue along any history), followed by `esl_buffer_Close`: no block is freed twice and every block ever
    allocated — in particular every block that went through `bf->retired` — has been freed. -/
theorem retired_freed_exactly_once (cs : List (Buf × Nat)) :
    (closeH (runH cs Heap.init)).Nodup ∧ ∀ x, x ∈ closeH (runH cs Heap.init) ↔ x < (runH cs Heap.init).next :=
  close_frees_exactly_once cs

-- the witness state (stable anchor, no room): the block is retired, not freed; the same state without the flag: realloc;
-- after the anchor is gone the next refill that reads frees the retired block (and, the window being full, reallocs the live one)
example : refillH stableWitness 1 Heap.init = ⟨1, [0], [], 2⟩ ∧
    refillH { stableWitness with stab := false } 1 Heap.init = ⟨1, [], [0], 2⟩ ∧
    refillH { (refill stableWitness 1).2 with stab := false, pos := 4 } 1 ⟨1, [0], [], 2⟩ = ⟨2, [], [0, 1], 3⟩ := by decide

/-- regression theorems about the code BEFORE fix 188d0b6 (`refill0`; `refill = refill0` on every state without the flag,
    `refill_without_flag`): there `∀ b nmin, b.anchor = some 0 → (refill0 b nmin).2.memgen = b.memgen` was false
    (`stable_ptr_valid_fails_at`, `stable_ptr_valid_iff`); what did hold, and still holds with or without the flag: no move as
    long as the next page fits behind the loaded bytes. -/
theorem stable_ptr_valid_partial (b : Buf) (nmin : Nat) (ha : b.anchor = some 0) (hroom : b.n + b.pagesize ≤ b.balloc) :
    (refill b nmin).2.memgen = b.memgen :=
  refill_stable_room b nmin ha hroom

/-- PROVED PART 2 — **pointer stability where it does hold.** Once nothing can be read any more (`Quiet`: the whole
    input is in memory — string, slurped file, mmap, short pipe — or the stream has reported end-of-file, e.g. any
    input shorter than a page), no operation other than `SetStableAnchor` itself (which rebases the window once, by
    design) and a `SetOffset` that repositions an unanchored FILE moves or reallocates the window: pointers handed
    out stay valid, with or without a stable anchor, and the state stays quiet. -/
theorem stable_ptr_valid_quiet (b : Buf) (lp : Option Nat) (op : Op) (q : Quiet b)
    (h1 : ∀ o, op ≠ .setStableAnchor o) (h2 : ∀ o, op = .setOffset o → ¬ (b.mode = .file ∧ b.anchor = none)) :
    (opRun b lp op).2.memgen = b.memgen ∧ Quiet (opRun b lp op).2 :=
  quiet_step b lp op q h1 h2

/-- the openers that are quiet from the start -/
theorem open_quiet (mode : Mode) (ps : Nat) (src : Bytes)
    (h : mode = .string ∨ mode = .mmap ∨ mode = .allfile ∨ src.length < ps) : Quiet (openBuf mode ps src) :=
  EaselModel.Buffer.open_quiet mode ps src h

/-- … and the pre-fix variant failed without that hypothesis: stable anchor at offset 0 of the stream "abcd" read with page
    size 2; the refill that `GetLine` issues reallocated the window (former known finding
    `C05:stable-anchor:realloc-in-refill`); the repaired `refill` keeps the pointers on the same state. -/
theorem stable_ptr_valid_fails_at :
    stableWitness.anchor = some 0 ∧ (refill0 stableWitness 1).2.memgen ≠ stableWitness.memgen ∧
      (refill stableWitness 1).2.memgen = stableWitness.memgen := by decide

/-- the repaired `buffer_refill` differs from the old one only under `bf->stable` -/
theorem refill_without_flag (b : Buf) (nmin : Nat) (hnp : b.stab = false) : refill b nmin = refill0 b nmin :=
  refill_eq_refill0 b nmin hnp

-- non-vacuity: the hypotheses of the theorems are met by the state every opener produces
example : WF (openBuf .stream 3 [97, 13, 10, 98]) ∧ Loaded (openBuf .stream 3 [97, 13, 10, 98]) :=
  let h := open_wf .stream 3 [97, 13, 10, 98] (by decide)
  ⟨h.1, h.2.1.loaded h.1⟩
example : (getLine (openBuf .stream 3 [97, 13, 10, 98])).1.bytes = [97] := by decide
example : (openBuf .stream 2 [97, 98, 99, 100]).pos < (openBuf .stream 2 [97, 98, 99, 100]).n := by decide
example : (getToken (openBuf .stream 3 [32, 32, 13, 10, 98, 10]) [32]).1.st = .eol := by decide
example : (specLines [97, 13, 10, 98]).map (·.body) = [[97], [98]] := by decide
-- a history inside the contract: anchor, read a line, rewind to the anchor, read it again, raise
example : ValidHist 1 (AState.init [97, 13, 10, 98]) [.setAnchor 0, .getLine, .setOffset 0, .getLine, .raiseAnchor 0] :=
  ⟨⟨Nat.le_refl _, Or.inl rfl⟩, trivial, ⟨by decide, Or.inr ⟨0, rfl, Nat.le_refl _⟩⟩, trivial, trivial, trivial⟩
example : (obsRun { b := openBuf .stream 1 [97, 13, 10, 98] } [.setAnchor 0, .getLine, .setOffset 0, .getLine, .raiseAnchor 0]).map (·.bytes)
    = [[], [97], [], [97], []] := by decide
example : isLineOp ((fun i => if i % 2 = 0 then Op.getLine else Op.fetchLineStr) 3) := Or.inr (Or.inr rfl)
example : readLines (fun _ => .getLine) 5 { b := openBuf .stream 1 [97, 13, 10, 98] } = [[97], [98]] := by decide
-- rewinding to an anchor that sits at the very end of the input (empty input) is inside the contract
example : ValidHist 1 (AState.init []) [.setAnchor 0, .getLine, .setOffset 0, .raiseAnchor 0] :=
  ⟨⟨Nat.le_refl _, Or.inl rfl⟩, trivial, ⟨Or.inr ⟨rfl, by decide⟩, Or.inl (Nat.le_refl _)⟩, trivial, trivial⟩
example : Quiet (openBuf .stream 8 [97, 10, 98]) := open_quiet .stream 8 [97, 10, 98] (Or.inr (Or.inr (Or.inr (by decide))))
example : ∃ b : Buf, b.anchor = some 0 ∧ b.n + b.pagesize ≤ b.balloc :=
  ⟨{ (openBuf .stream 2 [97]) with anchor := some 0, balloc := 8 }, by decide⟩

/-! ## Every history (rounds 3 and 4): the caller contract of `history_spec` is discharged

`CallerOk` (EaselModel/Buffer/Safe.lean) is the ONE thing still asked of the caller: `esl_buffer_Set(p, nused)` stays within
the bytes the preceding `Get*` call exposed — undefined by the documentation, unchecked by the code. Everything else has an
outcome defined by the code and proved here: `Total` (EaselModel/Buffer/Total.lean) lists what an operation may do: the
specification step, or one of the documented `eslEINVAL` outcomes with the state after it. Since round 4 this includes
anchors set AHEAD of the cursor and in-window rewinds to before the active anchor (b86a62d made the code cope with them;
the window invariant `WF` and the simulation relation `R` no longer assume anchor ≤ cursor; the specification says what
happens to such an anchor: `aBrk`). -/

/-- **One step, no contract**: from any state reached so far, any of the 14 operations with any argument (`CallerOk` only
    excludes the undefined `Set`) either simulates the specification step or answers `eslEINVAL` as `Total` describes, and
    the simulation relation holds again (so the next operation is covered too). -/
theorem step_total (P : Nat) (op : Op) (a : AState) (s : Sess) (r : R P a s) (hs : CallerOk s op) :
    ∃ a', Total a op (obsOf op (s.step op).1 (s.step op).2) a' ∧ R P a' (s.step op).2 :=
  EaselModel.Buffer.step_total P op a s r hs

/-- **Every history of the 14 operations on which the code defines the outcome**: every opener, every page size ≥ 1, every
    input, every argument of every call; the only hypothesis is `CallerOkRun` (no `Set` beyond the exposed bytes; that
    clause is necessary, see `unsafe_set_beyond_window`). -/
theorem history_total (mode : Mode) (ps : Nat) (src : Bytes) (hps : 0 < ps) (ops : List Op)
    (hs : CallerOkRun { b := openBuf mode ps src } ops) : TotalRun (AState.init src) { b := openBuf mode ps src } ops :=
  EaselModel.Buffer.history_total mode ps src hps ops hs

/-- … and no operation of such a history faults or ends in an internal error: `eslOK`, `eslEOF`, `eslEOL`, `eslEINVAL` only. -/
theorem history_total_no_fault (mode : Mode) (ps : Nat) (src : Bytes) (hps : 0 < ps) (ops : List Op)
    (hs : CallerOkRun { b := openBuf mode ps src } ops) :
    ∀ o ∈ obsRun { b := openBuf mode ps src } ops, o.st = .ok ∨ o.st = .eof ∨ o.st = .eol ∨ o.st = .einval :=
  EaselModel.Buffer.history_total_no_fault mode ps src hps ops hs

/-- A history without `Set` needs no hypothesis at all. -/
theorem history_total_no_set (mode : Mode) (ps : Nat) (src : Bytes) (hps : 0 < ps) (ops : List Op)
    (hns : ∀ op ∈ ops, ∀ k, op ≠ .set k) :
    TotalRun (AState.init src) { b := openBuf mode ps src } ops ∧
    ∀ o ∈ obsRun { b := openBuf mode ps src } ops, o.st = .ok ∨ o.st = .eof ∨ o.st = .eol ∨ o.st = .einval :=
  have h := callerOkRun_of_no_set ops hns { b := openBuf mode ps src }
  ⟨EaselModel.Buffer.history_total mode ps src hps ops h, EaselModel.Buffer.history_total_no_fault mode ps src hps ops h⟩

/-- The error outcomes of `Total` occur only outside the API contract (inside it: `step_simulates`). -/
theorem error_only_outside_contract (P : Nat) (a a' : AState) (op : Op) (o : Obs) (h : Total a op o a') (he : o.st = .einval) :
    ¬ Valid P a op :=
  h.error_outside he

/-- `CallerOk` asks nothing beyond the API contract. -/
theorem contract_implies_callerOk (P : Nat) (a : AState) (s : Sess) (r : R P a s) (op : Op) (hv : Valid P a op) : CallerOk s op :=
  valid_safe r op hv

/-- `CallerOk` is decidable, by the test the driver and the harness apply before every `tryset` operation. -/
theorem callerOk_decidable (s : Sess) (op : Op) : callerOkB s op = true ↔ CallerOk s op := callerOkB_iff s op

/-- In the specification an anchor ahead of the cursor survives exactly until the next line/token call brackets the
    cursor: the bracket changes nothing when the anchor is at or before its offset, and removes it otherwise. -/
theorem spec_bracket (a : AState) (t : Nat) :
    ((∀ A, a.anchor = some A → A ≤ t) → aBrk a t = a) ∧
    (∀ A, a.anchor = some A → t < A → (aBrk a t).anchor = none) := by
  refine ⟨aBrk_of_le a t, fun A hA hlt => ?_⟩
  unfold aBrk; rw [hA]; simp only []; rw [if_neg (by omega)]

/-! ### the clause of `CallerOk`, and the two defects that the total statement exposed (both repaired in /repo:
4515997, b86a62d; the histories below are the regression inputs, compared exactly with the real code on every run) -/

def srcW : Bytes := [97, 98, 10, 99, 100, 10, 101, 102, 10, 103, 104, 10]    -- "ab\ncd\nef\ngh\n"

/-- `Set(p, nused)` beyond the loaded bytes (a caller error by the documentation of `esl_buffer_Set`) is necessary: the
    stream answers `eslEINCONCEIVABLE`, the cursor stays outside the window and the next `Read` copies from beyond it. -/
theorem unsafe_set_beyond_window :
    callerOkRunB { b := openBuf .stream 2 srcW } [.get, .set 5] = false ∧
    (obsRun { b := openBuf .stream 2 srcW } [.get, .set 5, .read 1]).map (·.st) = [.ok, .einconceivable, .fault] := by decide

/-- REGRESSION (4515997): `SetOffset` beyond the end in a whole-input mode used to answer `eslOK` and leave the cursor
    outside the buffer (the next `GetLine` read out of bounds); now it is the documented `eslEINVAL`, nothing changes
    (`Total.beyond_end_whole`). -/
theorem fixed_setoffset_beyond_end_in_memory :
    callerOkRunB { b := openBuf .string 4 [97, 98] } [.setOffset 3, .getLine] = true ∧
    (obsRun { b := openBuf .string 4 [97, 98] } [.setOffset 3, .getLine]).map (fun o => (o.st, o.bytes, o.off))
      = [(.einval, [], 0), (.ok, [97, 98], 2)] := by decide

/-- REGRESSION (b86a62d): an anchor inside the window but ahead of the cursor; the next shifting refill used to move the
    cursor to a negative position (`St.fault` in the model of the old code, heap-buffer-overflow in the code). Now
    everything from `min(anchor, pos)` on is kept and the reads are the specification's. Since round 4 such histories are
    inside `history_total` (instances of the theorem, no longer only checked). -/
theorem fixed_anchor_ahead_of_cursor :
    callerOkRunB { b := openBuf .stream 2 srcW } [.setAnchor 2, .read 1, .get, .getLine] = true ∧
    (obsRun { b := openBuf .stream 2 srcW } [.setAnchor 2, .read 1, .get, .getLine]).map (fun o => (o.st, o.bytes, o.off))
      = [(.ok, [], 0), (.ok, [97], 1), (.ok, [], 1), (.ok, [98], 3)] ∧
    (specRun (AState.init srcW) [.setAnchor 2, .read 1, .get, .getLine]).map (fun o => (o.st, o.bytes, o.off))
      = [(.ok, [], 0), (.ok, [97], 1), (.ok, [], 1), (.ok, [98], 3)] ∧
    (obsRun { b := openBuf .stream 2 srcW } [.setStableAnchor 2, .get, .getLine]).map (fun o => (o.st, o.bytes, o.off))
      = [(.ok, [], 0), (.ok, [], 0), (.ok, [97, 98], 3)] := by decide

/-- REGRESSION (b86a62d): rewinding inside the window to a byte before the active anchor, then a multi-page `Read`. -/
theorem fixed_rewind_before_anchor :
    callerOkRunB { b := openBuf .stream 2 srcW } [.setAnchor 0, .read 3, .raiseAnchor 0, .setAnchor 3, .setOffset 2, .read 6] = true ∧
    (obsRun { b := openBuf .stream 2 srcW } [.setAnchor 0, .read 3, .raiseAnchor 0, .setAnchor 3, .setOffset 2, .read 6]).map
        (fun o => (o.st, o.bytes, o.off))
      = [(.ok, [], 0), (.ok, [97, 98, 10], 3), (.ok, [], 3), (.ok, [], 3), (.ok, [], 2), (.ok, [10, 99, 100, 10, 101, 102], 8)] := by
  decide

-- non-vacuity of `history_total`: a history far outside the contract, with each documented outcome
example : callerOkRunB { b := openBuf .stream 2 srcW } [.read 6, .setOffset 1, .setAnchor 2, .setOffset 40, .setOffset 3, .getLine] = true := by decide
example : (obsRun { b := openBuf .stream 2 srcW } [.read 6, .setOffset 1, .setAnchor 2, .setOffset 40, .setOffset 3, .getLine]).map (fun o => (o.st, o.off))
    = [(.ok, 6), (.einval, 6), (.einval, 6), (.einval, 12), (.einval, 12), (.eof, 12)] := by decide
-- the fseeko branch: beyond the end of an unanchored FILE the cursor is left at the requested offset; rewinding from there works
example : (obsRun { b := openBuf .file 2 srcW } [.setOffset 14, .getLine, .read 0, .setOffset 3, .getLine]).map (fun o => (o.st, o.bytes, o.off))
    = [(.einval, [], 14), (.eof, [], 14), (.ok, [], 14), (.ok, [], 3), (.ok, [99, 100], 6)] := by decide
example : CallerOkRun { b := openBuf .file 2 srcW } [.setOffset 14, .getLine, .read 0, .setOffset 3, .getLine] :=
  (callerOkRunB_iff _ _).mp (by decide)
-- non-vacuity of `CallerOk`: a `Get`/`Set` pair inside it that is NOT inside the API contract `Valid 2` (the stream happens to
-- have 4 bytes loaded), and the anchor-ahead / rewind-before-anchor histories (outside `Valid`, inside `CallerOkRun`)
example : CallerOkRun { b := openBuf .string 2 srcW } [.get, .set 7, .getLine] := (callerOkRunB_iff _ _).mp (by decide)
example : validB 2 (specStep (AState.init srcW) .get).2 (.set 7) = false := by decide
example : CallerOkRun { b := openBuf .stream 4 srcW } [.setAnchor 3, .getLine, .setAnchor 3, .setOffset 1, .getToken [32], .raiseAnchor 3] :=
  (callerOkRunB_iff _ _).mp (by decide)
example : (obsRun { b := openBuf .stream 4 srcW } [.setAnchor 3, .getLine, .setAnchor 3, .setOffset 1, .getToken [32], .raiseAnchor 3]).map
    (fun o => (o.st, o.bytes, o.off)) = [(.ok, [], 0), (.ok, [97, 98], 3), (.ok, [], 3), (.ok, [], 1), (.ok, [98], 2), (.ok, [], 2)] := by decide
example : (aBrk { src := srcW, cur := 1, anchor := some 2, nanchor := 1 } 1).anchor = none ∧
    (aBrk { src := srcW, cur := 3, anchor := some 2, nanchor := 1 } 3).anchor = some 2 := by decide

/-! ### the whole-input modes: an equation for every history (round 4) -/

/-- **Whole-input modes (string, slurped file, mmap, short pipe), EVERY history, no API contract.** The observations are
    those of `memRun`: the specification "bytes + cursor" made total — anchors are the documented no-ops, `SetOffset` goes
    anywhere up to the end of the input and answers `eslEINVAL` beyond it (leaving everything as it was). Here the relation
    `Total` of `history_total` collapses to a function of the input bytes and the history. -/
theorem history_memory_exact (mode : Mode) (ps : Nat) (src : Bytes) (hps : 0 < ps) (hm : wholeInput mode ps src) (ops : List Op)
    (hs : CallerOkRun { b := openBuf mode ps src } ops) :
    obsRun { b := openBuf mode ps src } ops = memRun (AState.init src) ops :=
  EaselModel.Buffer.history_memory_exact mode ps src hps hm ops hs

/-- … hence any two whole-input openings of the same bytes agree on every history, whatever the arguments. -/
theorem history_memory_mode_independent (src : Bytes) (m₁ m₂ : Mode) (ps₁ ps₂ : Nat) (h₁ : 0 < ps₁) (h₂ : 0 < ps₂)
    (hm₁ : wholeInput m₁ ps₁ src) (hm₂ : wholeInput m₂ ps₂ src) (ops : List Op)
    (hs₁ : CallerOkRun { b := openBuf m₁ ps₁ src } ops) (hs₂ : CallerOkRun { b := openBuf m₂ ps₂ src } ops) :
    obsRun { b := openBuf m₁ ps₁ src } ops = obsRun { b := openBuf m₂ ps₂ src } ops := by
  rw [EaselModel.Buffer.history_memory_exact m₁ ps₁ src h₁ hm₁ ops hs₁, EaselModel.Buffer.history_memory_exact m₂ ps₂ src h₂ hm₂ ops hs₂]

-- non-vacuity: a history far outside the contract on a string and on a short pipe
example : wholeInput .cmdpipe 64 srcW ∧ wholeInput .string 1 srcW := ⟨Or.inr (Or.inr (Or.inr ⟨rfl, by decide⟩)), Or.inl rfl⟩
example : CallerOkRun { b := openBuf .cmdpipe 64 srcW } [.setOffset 40, .setAnchor 7, .setOffset 7, .getLine, .raiseAnchor 3, .setOffset 12, .getLine, .get, .set 0] :=
  (callerOkRunB_iff _ _).mp (by decide)
example : (memRun (AState.init srcW) [.setOffset 40, .setAnchor 7, .setOffset 7, .getLine, .raiseAnchor 3, .setOffset 12, .getLine]).map
    (fun o => (o.st, o.bytes, o.off)) = [(.einval, [], 0), (.ok, [], 0), (.ok, [], 7), (.ok, [102], 9), (.ok, [], 9), (.ok, [], 12), (.eof, [], 12)] := by decide

/-! ## Outside the contract, yet deterministic (round 6) -/

/-- **`SetOffset` beyond the end of the input, ahead of the cursor, on a paged buffer that cannot `fseeko`** (stream, pipe, FILE
    with an anchor set) is outside `Valid`, but its outcome does not depend on the page size or on what is loaded: from every
    state reached so far it answers `eslEINVAL`, returns nothing, leaves the cursor at `max cur |src|` (the stream has been read
    to its end) and the anchors as they were; the simulation continues from the specification state with the cursor moved
    there — so `history_spec`'s conclusion extends to histories that contain such calls. (Whole-input modes: `eslEINVAL`,
    nothing changes — `history_memory_exact`; unanchored FILE: the cursor is left at the requested offset — `Total.beyond_end_seek`.) -/
theorem setoffset_beyond_end_deterministic (P o : Nat) (a : AState) (s : Sess) (r : R P a s) (hm : ¬ memMode s.b.mode)
    (hnf : ¬ (s.b.mode = .file ∧ s.b.anchor = none)) (hlen : a.src.length < o) (hcur : a.cur < o) :
    obsOf (.setOffset o) (s.step (.setOffset o)).1 (s.step (.setOffset o)).2 = ⟨.einval, [], max a.cur a.src.length⟩ ∧
    R P { a with cur := max a.cur a.src.length, lastp := none } (s.step (.setOffset o)).2 :=
  step_beyond_end_deterministic P o a s r hm hnf hlen hcur

-- instances on the three paged openers, page sizes 1 and 4: the same answer, then end-of-file
example : ∀ m ∈ [Mode.stream, Mode.cmdpipe, Mode.file], ∀ ps ∈ [1, 4],
    (obsRun { b := openBuf m ps [97, 98, 10, 99, 100, 10, 101, 102, 10, 103] } [.read 1, .setAnchor 1, .setOffset 40, .getLine, .getOffset]).map
      (fun o => (o.st, o.bytes, o.off)) = [(.ok, [97], 1), (.ok, [], 1), (.einval, [], 10), (.eof, [], 10), (.ok, [], 10)] := by decide

/-- **`history_spec` beyond the API contract** (streams and pipes read in pages): for every input, every page size, and every
    history in the LARGER class `ValidHistX` — the contract `Valid`, or a `SetOffset` beyond the end of the input ahead of the
    cursor, any number of times, anywhere in the history — the (status, bytes, offset) sequence of the model equals the
    extended deterministic specification `specRunX` (such a call: `eslEINVAL`, cursor at the end of the input, anchors kept). -/
theorem history_spec_x (mode : Mode) (hm : mode = .stream ∨ mode = .cmdpipe) (ps : Nat) (src : Bytes) (hps : 0 < ps) (P : Nat) (hP : P ≤ ps)
    (hopen : (openBuf mode ps src).mode = mode ∧ (openBuf mode ps src).hasfp = true)
    (ops : List Op) (hv : ValidHistX P (AState.init src) ops) :
    obsRun { b := openBuf mode ps src } ops = specRunX (AState.init src) ops :=
  history_refines_x P mode hm ops _ _ (open_R mode ps src hps P hP) hopen hv

/-- … hence page-size independence on streams for that larger class of histories -/
theorem history_x_pagesize_independent (src : Bytes) (ps₁ ps₂ P : Nat) (h₁ : 0 < ps₁) (h₂ : 0 < ps₂) (hP₁ : P ≤ ps₁) (hP₂ : P ≤ ps₂)
    (ops : List Op) (hv : ValidHistX P (AState.init src) ops) :
    obsRun { b := openBuf .stream ps₁ src } ops = obsRun { b := openBuf .stream ps₂ src } ops := by
  rw [history_spec_x .stream (Or.inl rfl) ps₁ src h₁ P hP₁ ⟨rfl, rfl⟩ ops hv,
      history_spec_x .stream (Or.inl rfl) ps₂ src h₂ P hP₂ ⟨rfl, rfl⟩ ops hv]

/-- **Round 6b — the same on EVERY paged opener, FILE included**: for every input, page size and opener whose buffer reads in
    pages (stream, pipe with at least a page of output, paged FILE), and every history in `ValidHistXA` — the contract, or a
    `SetOffset` beyond the end of the input ahead of the cursor WHILE AN ANCHOR IS SET (then a FILE cannot `fseeko` and
    fast-forwards like a stream) — the observations equal the extended deterministic specification `specRunX`. -/
theorem history_spec_xa (mode : Mode) (ps : Nat) (src : Bytes) (hps : 0 < ps) (P : Nat) (hP : P ≤ ps)
    (hopen : (openBuf mode ps src).hasfp = true) (ops : List Op) (hv : ValidHistXA P (AState.init src) ops) :
    obsRun { b := openBuf mode ps src } ops = specRunX (AState.init src) ops :=
  history_refines_xa P ops _ _ (open_R mode ps src hps P hP) hopen hv

/-- … hence mode and page-size independence across the paged openers for that class of histories -/
theorem history_xa_mode_independent (src : Bytes) (m₁ m₂ : Mode) (ps₁ ps₂ P : Nat) (h₁ : 0 < ps₁) (h₂ : 0 < ps₂) (hP₁ : P ≤ ps₁) (hP₂ : P ≤ ps₂)
    (ho₁ : (openBuf m₁ ps₁ src).hasfp = true) (ho₂ : (openBuf m₂ ps₂ src).hasfp = true)
    (ops : List Op) (hv : ValidHistXA P (AState.init src) ops) :
    obsRun { b := openBuf m₁ ps₁ src } ops = obsRun { b := openBuf m₂ ps₂ src } ops := by
  rw [history_spec_xa m₁ ps₁ src h₁ P hP₁ ho₁ ops hv, history_spec_xa m₂ ps₂ src h₂ P hP₂ ho₂ ops hv]

-- non-vacuity: a FILE read in pages of 2, the record anchored, SetOffset far beyond the end, then on
example : (openBuf .file 2 [97, 98, 10, 99]).hasfp = true ∧
    ValidHistXA 1 (AState.init [97, 98, 10, 99]) [.setAnchor 0, .read 1, .setOffset 40, .getLine, .setOffset 0, .getLine, .raiseAnchor 0] := by
  refine ⟨rfl, Or.inr ⟨Nat.le_refl _, Or.inl rfl⟩, Or.inr trivial, Or.inl (by decide), Or.inr trivial,
    Or.inr ⟨Or.inl (by decide), Or.inr ⟨0, by decide, Nat.le_refl _⟩⟩, Or.inr trivial, Or.inr trivial, trivial⟩
example : (obsRun { b := openBuf .file 2 [97, 98, 10, 99] } [.setAnchor 0, .read 1, .setOffset 40, .getLine, .setOffset 0, .getLine, .raiseAnchor 0]).map
    (fun o => (o.st, o.bytes, o.off)) = [(.ok, [], 0), (.ok, [97], 1), (.einval, [], 4), (.eof, [], 4), (.ok, [], 0), (.ok, [97, 98], 3), (.ok, [], 3)] := by decide

/-- the mode and the stream handle of a buffer never change after it is opened (any operation, any arguments, any state) -/
theorem mode_fixed (s : Sess) (op : Op) : (s.step op).2.b.mode = s.b.mode ∧ (s.step op).2.b.hasfp = s.b.hasfp :=
  step_mode s op s.b.mode s.b.hasfp ⟨rfl, rfl⟩

-- non-vacuity: a history of the larger class that is NOT in the contract, and its extended specification
example : ValidHistX 1 (AState.init [97, 98, 10, 99]) [.read 1, .setOffset 40, .getLine, .setOffset 41, .getOffset] ∧
    ¬ ValidHist 1 (AState.init [97, 98, 10, 99]) [.read 1, .setOffset 40, .getLine, .setOffset 41, .getOffset] := by
  refine ⟨⟨Or.inr trivial, Or.inl (by decide), Or.inr trivial, Or.inl (by decide), Or.inr trivial, trivial⟩, ?_⟩
  rintro ⟨_, ⟨h | ⟨h, _⟩, _⟩, _⟩ <;> revert h <;> decide
example : (specRunX (AState.init [97, 98, 10, 99]) [.read 1, .setOffset 40, .getLine, .setOffset 41, .getOffset]).map (fun o => (o.st, o.bytes, o.off))
    = [(.ok, [97], 1), (.einval, [], 4), (.eof, [], 4), (.einval, [], 4), (.ok, [], 4)] := by decide

/-! ## Stable anchors, exactly (round 3) -/

/-- **Regression theorem about the code before fix 188d0b6, and about an anchor at the window start that is NOT stable today**
    (`b.stab = false`: there `refill = refill0`, the old `buffer_refill`): such a refill keeps every pointer handed out valid
    if and only if it reads nothing (no stream, stream at EOF, enough loaded) or the next page fits behind the loaded bytes,
    `n + pagesize ≤ balloc`. Before the fix this was all that held under a STABLE anchor too (`stable_ptr_valid_fails_at`). -/
theorem stable_ptr_valid_iff (b : Buf) (nmin : Nat) (hnp : b.stab = false) (hp : b.pos ≤ b.n) (ha : b.anchor = some 0) :
    (refill0 b nmin).2.memgen = b.memgen ↔
      (b.hasfp = false ∨ b.eof = true ∨ nmin + b.pagesize ≤ b.n - b.pos ∨ b.n + b.pagesize ≤ b.balloc) := by
  rw [← refill_eq_refill0 b nmin hnp]
  exact refill_stable_iff b nmin (by unfold pinned; rw [hnp]; exact Bool.and_false _) hp ha

/-- **Plain anchors never promise pointer validity**: a refill that has to shift under a plain anchor `a > 0` keeps the
    bytes from the anchor on but moves them, so pointers handed out since the anchor was set dangle. -/
theorem plain_anchor_no_promise (b : Buf) (nmin a : Nat) (hst : b.stab = false) (hf : b.hasfp = true) (he : b.eof = false) (ha : b.anchor = some a)
    (ha0 : 0 < a) (hap : a ≤ b.pos) (hpn : b.pos < b.n) (hneed : b.n - b.pos < nmin + b.pagesize)
    (hfull : b.balloc - b.n < b.pagesize) : (refill b nmin).2.memgen ≠ b.memgen :=
  plain_anchor_moves b nmin a (by unfold pinned; rw [hst]; exact Bool.and_false _) hf he ha ha0 hap hpn hneed hfull

-- non-vacuity: both sides of the iff occur, and the hypotheses of `plain_anchor_no_promise` are met in a reachable state
example : ({ stableWitness with stab := false } : Buf).stab = false ∧ ({ stableWitness with stab := false } : Buf).anchor = some 0 ∧
    (refill0 { stableWitness with stab := false } 1).2.memgen ≠ stableWitness.memgen := by decide
example : stableWitness.pos ≤ stableWitness.n ∧ stableWitness.anchor = some 0 ∧
    ¬ (stableWitness.hasfp = false ∨ stableWitness.eof = true ∨ 1 + stableWitness.pagesize ≤ stableWitness.n - stableWitness.pos ∨
       stableWitness.n + stableWitness.pagesize ≤ stableWitness.balloc) := by decide
example : ({ stableWitness with balloc := 8 } : Buf).n + ({ stableWitness with balloc := 8 } : Buf).pagesize ≤ ({ stableWitness with balloc := 8 } : Buf).balloc := by decide
example : plainWitness.stab = false ∧ plainWitness.hasfp = true ∧ plainWitness.eof = false ∧ plainWitness.anchor = some 1 ∧ 1 ≤ plainWitness.pos ∧
    plainWitness.pos < plainWitness.n ∧ plainWitness.n - plainWitness.pos < 0 + plainWitness.pagesize ∧
    plainWitness.balloc - plainWitness.n < plainWitness.pagesize := by decide
example : (refill plainWitness 0).2.memgen ≠ plainWitness.memgen := by decide

-- BEGIN round4-mem
/-! ## The string/number helpers of `esl_mem.c` that every parser applies to buffer lines

Model `EaselModel/Buffer/Mem.lean` (loops and index expressions of the C code, every access bounds-checked, signed
overflow = fault), specification `EaselModel/Buffer/MemSpec.lean`. Every theorem is for every byte string (bytes ≥ 0x80 and
embedded NULs included), every base, no bound on lengths. "`= some …`" includes "never faults". -/

/-- **`esl_mem_strtoi32`** satisfies the specification `Mem.StrtoiSpec` (see there: EINVAL / EFORMAT / ERANGE / OK each
    characterised by an iff on the independent parse, `nc` and `val` in every case, never a fault). -/
theorem strtoi32_spec (p : Bytes) (base : Int) : Mem.StrtoiSpec Mem.i32min Mem.i32max p base (Mem.strtoi32 p base) :=
  Mem.strtoi_spec (by decide) (by decide) p base

/-- **`esl_mem_strtoi64`**: the same specification with the bounds of `int64_t`. -/
theorem strtoi64_spec (p : Bytes) (base : Int) : Mem.StrtoiSpec Mem.i64min Mem.i64max p base (Mem.strtoi64 p base) :=
  Mem.strtoi_spec (by decide) (by decide) p base

/-- The same code for any integer type `[lo, hi]` that holds the digit values −36 … 35 (`esl_mem_strtoi` on any `int`). -/
theorem strtoi_spec_any_width (lo hi : Int) (hlo : lo ≤ -36) (hhi : 35 ≤ hi) (p : Bytes) (base : Int) :
    Mem.StrtoiSpec lo hi p base (Mem.strtoi lo hi p base) :=
  Mem.strtoi_spec hlo hhi p base

/-- The answer in closed form: the model equals the specification function `Mem.specRes` (structural recursion only). -/
theorem strtoi_eq_specRes (lo hi : Int) (hlo : lo ≤ -36) (hhi : 35 ≤ hi) (p : Bytes) (base : Int) :
    Mem.strtoi lo hi p base = Mem.specRes lo hi p base :=
  Mem.strtoi_eq_spec hlo hhi p base

/-- **`esl_memspn`** = length of the longest prefix of bytes in the C-string set (the terminating NUL is a member, the way
    `strchr` sees it; the set ends at its first NUL). -/
theorem memspn_spec (p set : Bytes) : Mem.memspn p set = some (p.takeWhile (Mem.inSet set)).length :=
  Mem.memspn_eq p set

/-- **`esl_memcspn`** = length of the longest prefix of bytes not in the set. -/
theorem memcspn_spec (p set : Bytes) : Mem.memcspn p set = some (p.takeWhile (fun c => !Mem.inSet set c)).length :=
  Mem.memcspn_eq p set

/-- **`esl_memtok`** answers `Mem.tokSpec`: with `S = tokSplit delim p` (leading delimiters, maximal delimiter-free run,
    the delimiters after it, remainder — cut by `takeWhile`/`dropWhile`): `eslEOL`, token NULL/0, `*p`/`*n` untouched if the
    token is empty; else `eslOK`, token = `(|skipped|, |tok|)`, `*p` advanced by `|skipped|+|tok|+|trail|`, `*n = |rest|`. -/
theorem memtok_spec (p delim : Bytes) : Mem.memtok p delim = some (Mem.tokSpec delim p) :=
  Mem.memtok_eq p delim

/-- the four pieces are the input in order; the pieces have the stated classes; the token is maximal; the remainder starts
    with a non-delimiter; the token pointer/length and the advanced `*p` denote `tok` and `rest` -/
theorem memtok_split_meaning (p delim : Bytes) :
    (Mem.tokSplit delim p).skipped ++ (Mem.tokSplit delim p).tok ++ (Mem.tokSplit delim p).trail ++ (Mem.tokSplit delim p).rest = p ∧
    (∀ c ∈ (Mem.tokSplit delim p).skipped, Mem.inSet delim c = true) ∧
    (∀ c ∈ (Mem.tokSplit delim p).tok, Mem.inSet delim c = false) ∧
    (∀ c ∈ (Mem.tokSplit delim p).trail, Mem.inSet delim c = true) ∧
    (∀ c, ((Mem.tokSplit delim p).trail ++ (Mem.tokSplit delim p).rest).head? = some c → Mem.inSet delim c = true) ∧
    (∀ c, (Mem.tokSplit delim p).rest.head? = some c → Mem.inSet delim c = false) ∧
    (p.drop (Mem.tokSplit delim p).skipped.length).take (Mem.tokSplit delim p).tok.length = (Mem.tokSplit delim p).tok ∧
    p.drop ((Mem.tokSplit delim p).skipped.length + (Mem.tokSplit delim p).tok.length + (Mem.tokSplit delim p).trail.length)
      = (Mem.tokSplit delim p).rest :=
  ⟨Mem.tokSplit_concat delim p, (Mem.tokSplit_classes delim p).1, (Mem.tokSplit_classes delim p).2.1,
   (Mem.tokSplit_classes delim p).2.2.1, (Mem.tokSplit_classes delim p).2.2.2.1, (Mem.tokSplit_classes delim p).2.2.2.2,
   (Mem.tokSplit_slices delim p).1, (Mem.tokSplit_slices delim p).2⟩

/-- **`esl_memtok` returns `eslEOL` iff only delimiters remain.** -/
theorem memtok_eol_iff (p delim : Bytes) :
    (Mem.memtok p delim).map (·.st) = some .eol ↔ ∀ c ∈ p, Mem.inSet delim c = true := by
  rw [Mem.memtok_eq, ← Mem.tokSplit_tok_nil_iff]
  unfold Mem.tokSpec
  by_cases h : (Mem.tokSplit delim p).tok = [] <;> simp [h]

/-- **`esl_memstrcmp(p, n, s)`** on non-NULL arguments is TRUE iff the `n` bytes equal the C string `s` (so: FALSE whenever
    the line contains a NUL). NULL conventions: `(NULL, 0, NULL)` TRUE; `(NULL, 0, s)` TRUE iff `s` is empty; `(p, n, NULL)` FALSE. -/
theorem memstrcmp_spec (p s : Bytes) :
    Mem.memstrcmp (some p) (some s) = some (decide (p = Mem.cstr s)) ∧
    Mem.memstrcmp none none = some true ∧ Mem.memstrcmp none (some s) = some (decide (Mem.cstr s = [])) ∧
    Mem.memstrcmp (some p) none = some false := by
  refine ⟨?_, (Mem.memstrcmpF_null id p s).1, (Mem.memstrcmpF_null id p s).2.1, (Mem.memstrcmpF_null id p s).2.2⟩
  have := Mem.memstrcmpF_some id p s
  simp only [List.map_id] at this; exact this

/-- **`esl_memstrpfx`** is TRUE iff the C string `s` is a prefix of the line; FALSE if either pointer is NULL. -/
theorem memstrpfx_spec (p s : Bytes) :
    Mem.memstrpfx (some p) (some s) = some (decide (Mem.cstr s <+: p)) ∧
    Mem.memstrpfx none (some s) = some false ∧ Mem.memstrpfx (some p) none = some false := by
  refine ⟨?_, rfl, rfl⟩
  have := Mem.memstrpfxF_some id p s
  simp only [List.map_id] at this; exact this

/-- **`esl_memstrcmp_case` / `esl_memstrpfx_case`**: the same after `toupper` (C locale: only `a`–`z` change) on both sides. -/
theorem memstr_case_spec (p s : Bytes) :
    Mem.memstrcmp_case (some p) (some s) = some (decide (p.map Mem.toupperB = (Mem.cstr s).map Mem.toupperB)) ∧
    Mem.memstrpfx_case (some p) (some s) = some (decide ((Mem.cstr s).map Mem.toupperB <+: p.map Mem.toupperB)) :=
  ⟨Mem.memstrcmpF_some _ p s, Mem.memstrpfxF_some _ p s⟩

/-- **`esl_memstrcontains`** is TRUE iff the line is not empty and the C string occurs in it. (On an empty line the code
    answers FALSE even for the empty string, which every `strstr` finds.) FALSE if either pointer is NULL. -/
theorem memstrcontains_spec (p s : Bytes) :
    Mem.memstrcontains (some p) (some s) = some (decide (p ≠ [] ∧ Mem.cstr s <:+: p)) ∧
    Mem.memstrcontains none (some s) = some false ∧ Mem.memstrcontains (some p) none = some false :=
  ⟨Mem.memstrcontains_some p s, rfl, rfl⟩

/-- **`esl_memstrdup` / `esl_memstrcpy`** produce the bytes followed by a terminating NUL in a block of `n+1` bytes
    (no write outside it); `esl_memstrdup(NULL, …)` yields NULL. -/
theorem memstrdup_spec (p : Bytes) :
    Mem.memstrdup (some p) = some (some (p ++ [0])) ∧ Mem.memstrdup none = some none ∧ Mem.memstrcpy p = some (p ++ [0]) :=
  ⟨Mem.memstrdup_some p, rfl, Mem.memstrcpy_eq p⟩

/-- **`esl_mem_IsReal`** never reads outside the line, and accepts exactly `Mem.isRealSpec`: blanks, an optional sign, a
    blank-free body with at most one `.`, at most one `e`/`E`, no `.` after the `e`/`E` and at least one digit, blanks.
    This is a statement about the code, weaker than its header ("convertible … by the rules of atof()"): bytes of the body
    that are neither digit, `.`, `e`, `E` are passed over (witnesses below). -/
theorem memIsReal_spec (p : Bytes) : Mem.memIsReal (some p) = some (Mem.isRealSpec p) ∧ Mem.memIsReal none = some false :=
  ⟨Mem.memIsReal_eq p, rfl⟩

theorem memIsReal_no_fault (p : Option Bytes) : Mem.memIsReal p ≠ none :=
  Mem.memIsReal_ne_none p

/-- **`esl_mem_IsReal` after fix C05-mem-isreal-garbage** (model `Mem.memIsRealL`, selected by the regenerated constant
    `MemConsts.isRealStart`): for every byte string it answers `isRealSpecL p = isRealSpec p && startsNum (…)` — what it
    accepted before, provided a number STARTS right after the blanks and one optional sign (a digit, or `.` and a digit:
    exactly when `strtod`/`atof` convert a non-empty decimal prefix); NULL is FALSE; it never reads outside the `n` bytes. -/
theorem memIsRealL_spec (p : Bytes) : Mem.memIsRealL (some p) = some (Mem.isRealSpecL p) ∧ Mem.memIsRealL none = some false :=
  ⟨Mem.memIsRealL_eq p, rfl⟩

theorem memIsRealL_no_fault (p : Option Bytes) : Mem.memIsRealL p ≠ none :=
  Mem.memIsRealL_ne_none p

/-- soundness against the header ("TRUE iff convertible by the rules of atof()"), which the old code lacked: whatever the
    repaired function accepts has a number right after the blanks and the sign; and the repair only removes answers -/
theorem memIsRealL_sound (p : Bytes) (h : Mem.memIsRealL (some p) = some true) :
    Mem.startsNum (Mem.stripSign (p.dropWhile Mem.isspaceB)) = true ∧ Mem.memIsReal (some p) = some true :=
  ⟨Mem.memIsRealL_true_starts p h, Mem.memIsRealL_le p h⟩

-- "abc1", "--1", "e5", ".e1" are refused now; "1x" and "25.00;" (Pfam) are still accepted — trailing bytes as with atof(); " -.5e3 " is accepted
example : Mem.memIsRealL (some [97, 98, 99, 49]) = some false := by rw [Mem.memIsRealL_eq]; decide
example : Mem.memIsRealL (some [45, 45, 49]) = some false := by rw [Mem.memIsRealL_eq]; decide
example : Mem.memIsRealL (some [101, 53]) = some false := by rw [Mem.memIsRealL_eq]; decide
example : Mem.memIsRealL (some [46, 101, 49]) = some false := by rw [Mem.memIsRealL_eq]; decide
example : Mem.memIsRealL (some [49, 120]) = some true := by rw [Mem.memIsRealL_eq]; decide
example : Mem.memIsRealL (some [50, 53, 46, 48, 48, 59]) = some true := by rw [Mem.memIsRealL_eq]; decide
example : Mem.memIsRealL (some [32, 45, 46, 53, 101, 51, 32]) = some true := by rw [Mem.memIsRealL_eq]; decide

-- accepted although not numbers: "1x", "abc1", "--1"; "1e-5" is accepted only through the same accident; "1.2.3" is refused
example : Mem.memIsReal (some [49, 120]) = some true := by rw [Mem.memIsReal_eq]; decide
example : Mem.memIsReal (some [97, 98, 99, 49]) = some true := by rw [Mem.memIsReal_eq]; decide
example : Mem.memIsReal (some [45, 45, 49]) = some true := by rw [Mem.memIsReal_eq]; decide
example : Mem.memIsReal (some [49, 101, 45, 53]) = some true := by rw [Mem.memIsReal_eq]; decide
example : Mem.memIsReal (some [49, 46, 50, 46, 51]) = some false := by rw [Mem.memIsReal_eq]; decide
example : Mem.memIsReal (some [32, 45, 49, 46, 53, 101, 51, 32]) = some true := by rw [Mem.memIsReal_eq]; decide

-- non-vacuity: the width hypotheses hold for the three C types, and concrete instances on each branch
example : Mem.i32min ≤ -36 ∧ 35 ≤ Mem.i32max ∧ Mem.i64min ≤ -36 ∧ 35 ≤ Mem.i64max := by decide
-- "2147483647" / "2147483648" / "-2147483648" / "-2147483649" in base 10
example : Mem.strtoi32 [50,49,52,55,52,56,51,54,52,55] 10 = ⟨.ok, some 10, some 2147483647⟩ := by
  rw [Mem.strtoi32, Mem.strtoi_eq_spec (by decide) (by decide)]; decide
example : Mem.strtoi32 [50,49,52,55,52,56,51,54,52,56] 10 = ⟨.erange, some 10, some 2147483647⟩ := by
  rw [Mem.strtoi32, Mem.strtoi_eq_spec (by decide) (by decide)]; decide
example : Mem.strtoi32 [45,50,49,52,55,52,56,51,54,52,56] 10 = ⟨.ok, some 11, some (-2147483648)⟩ := by
  rw [Mem.strtoi32, Mem.strtoi_eq_spec (by decide) (by decide)]; decide
example : Mem.strtoi32 [45,50,49,52,55,52,56,51,54,52,57,57] 10 = ⟨.erange, some 11, some (-2147483648)⟩ := by
  rw [Mem.strtoi32, Mem.strtoi_eq_spec (by decide) (by decide)]; decide
-- " -0x1fz" base 0; "0x" base 0 (prefix without digit: EFORMAT); "0" base 0 (octal zero); "0X1" base 16 (capital X is no prefix); base 37
example : Mem.strtoi32 [32,45,48,120,49,102,122] 0 = ⟨.ok, some 6, some (-31)⟩ := by
  rw [Mem.strtoi32, Mem.strtoi_eq_spec (by decide) (by decide)]; decide
example : Mem.strtoi32 [48,120] 0 = ⟨.eformat, some 0, some 0⟩ := by
  rw [Mem.strtoi32, Mem.strtoi_eq_spec (by decide) (by decide)]; decide
example : Mem.strtoi32 [48] 0 = ⟨.ok, some 1, some 0⟩ := by
  rw [Mem.strtoi32, Mem.strtoi_eq_spec (by decide) (by decide)]; decide
example : Mem.strtoi32 [48,88,49] 16 = ⟨.ok, some 1, some 0⟩ := by
  rw [Mem.strtoi32, Mem.strtoi_eq_spec (by decide) (by decide)]; decide
example : Mem.strtoi32 [49] 37 = ⟨.einval, none, none⟩ := by
  rw [Mem.strtoi32, Mem.strtoi_eq_spec (by decide) (by decide)]; decide
-- "9223372036854775808" overflows int64 at its last digit
example : Mem.strtoi64 [57,50,50,51,51,55,50,48,51,54,56,53,52,55,55,53,56,48,56] 10 = ⟨.erange, some 19, some 9223372036854775807⟩ := by
  rw [Mem.strtoi64, Mem.strtoi_eq_spec (by decide) (by decide)]; decide
-- " ab  c" with delimiter " ": token "ab" at 1, two trailing blanks skipped, 1 byte left; "  " → EOL; NUL is always a delimiter
example : Mem.memtok [32,97,98,32,32,99] [32] = some ⟨.ok, some (1, 2), 5, 1⟩ := by rw [Mem.memtok_eq]; decide
example : Mem.memtok [32,32] [32] = some ⟨.eol, none, 0, 2⟩ := by rw [Mem.memtok_eq]; decide
example : Mem.memspn [0,32,97] [32] = some 2 ∧ Mem.memcspn [97,98,0,99] [120] = some 2 := by
  rw [Mem.memspn_eq, Mem.memcspn_eq]; decide
-- "ab" vs "ab", "ab\0c"; "a\0" never equals; contains on the empty line is FALSE even for ""
example : Mem.memstrcmp (some [97,98]) (some [97,98,0,99]) = some true ∧ Mem.memstrcmp (some [97,0]) (some [97]) = some false := by
  rw [(memstrcmp_spec _ _).1, (memstrcmp_spec _ _).1]; decide
example : Mem.memstrcontains (some []) (some []) = some false ∧ Mem.memstrcontains (some [120,97,98]) (some [97,98]) = some true := by
  rw [(memstrcontains_spec _ _).1, (memstrcontains_spec _ _).1]; decide
-- END round4-mem

-- BEGIN round4-open
/-! ## Opening and closing (round 4): `esl_buffer_Open`, `OpenFile`, `OpenPipe`, `Close`, the `AsStr` results

The operating system is a parameter of every statement: `fs` (finite map path → contents of the readable regular files),
`env` (`getenv`), `gunzip` (what `gzip -dc` writes for a file content, and whether it exits 0), `cfg` (`st_blksize`,
`_POSIX_VERSION`, the verification hooks), `stdin`. `openAny usesPath` is `esl_buffer_Open` with the `.gz` test on
`filename` (`usesPath = false`, the working tree's text, see `OpenConsts.gzTestUsesPath`) or on `path` (the proposed fix). -/
section Round4Open
open EaselModel.Buffer.OpenFile

/-- **(1) The search.** `esl_buffer_Open` finds a file iff it exists under the name given (current directory) or in one of
    the directories listed in the variable; the path it settles on is the FIRST of the candidates `filename, d₁/filename,
    d₂/filename, …` (in the order of the list) that exists. -/
theorem open_finds_iff (fs : FS) (env : Env) (filename : CStr) (envvar : Option CStr) :
    ((findPath fs env filename envvar).1.isSome = true ↔
        (fileExists fs filename = true ∨ ∃ d ∈ listedDirs env envvar, fileExists fs (envPath d filename) = true)) ∧
    (findPath fs env filename envvar).1 = (candidates env filename envvar).find? (fun p => fileExists fs p) ∧
    (fileExists fs filename = true → (findPath fs env filename envvar).1 = some filename) := by
  refine ⟨?_, findPath_eq_find fs env filename envvar, findPath_cwd fs env filename envvar⟩
  rw [findPath_isSome_iff]
  simp only [candidates, List.mem_cons, List.mem_map]
  constructor
  · rintro ⟨p, hp | ⟨d, hd, hp⟩, hx⟩
    · rw [hp] at hx; exact Or.inl hx
    · rw [← hp] at hx; exact Or.inr ⟨d, hd, hx⟩
  · rintro (hx | ⟨d, hd, hx⟩)
    · exact ⟨filename, Or.inl rfl, hx⟩
    · exact ⟨_, Or.inr ⟨d, hd, rfl⟩, hx⟩

/-- … and when none of them exists: `eslENOTFOUND`, and the buffer handed back is in the UNSET state (no memory, no
    stream, no file name) with an error message. -/
theorem open_not_found (usesPath : Bool) (cfg : Cfg) (fs : FS) (env : Env) (gunzip : Bytes → Bytes × Bool) (stdin : Bytes)
    (filename : CStr) (envvar : Option CStr) (hd : filename ≠ dash)
    (h : ∀ p ∈ candidates env filename envvar, fileExists fs p = false) :
    (openAny usesPath cfg fs env gunzip stdin filename envvar).st = .enotfound ∧
    (openAny usesPath cfg fs env gunzip stdin filename envvar).c =
      some { mode_is := .unset, mem := false, fp := false, filename := none, cmdline := false, pagesize := 4096, errmsg := true } ∧
    (openAny usesPath cfg fs env gunzip stdin filename envvar).b = none := by
  have hn : (findPath fs env filename envvar).1 = none := by
    rw [findPath_eq_find, List.find?_eq_none]
    intro p hp; simp [h p hp]
  exact openAny_not_found usesPath cfg fs env gunzip stdin filename envvar hd hn

/-- … and when `p` is the first existing candidate, Open is `OpenPipe(p, "gzip -dc %s")` or `OpenFile(p)` as the `.gz`
    test decides (status, buffer handed back, initial window) — or the out-of-bounds read of theorem (6). -/
theorem open_uses_first (usesPath : Bool) (cfg : Cfg) (fs : FS) (env : Env) (gunzip : Bytes → Bytes × Bool) (stdin : Bytes)
    (filename : CStr) (envvar : Option CStr) (hd : filename ≠ dash) (p : CStr)
    (h : (candidates env filename envvar).find? (fun p => fileExists fs p) = some p) :
    let r := openAny usesPath cfg fs env gunzip stdin filename envvar
    let d : OpenOut := match gzTest usesPath filename p with
      | none => { st := .fault }
      | some true => openPipe cfg fs gunzip (some p)
      | some false => openFile cfg fs p
    r.st = d.st ∧ r.c = d.c ∧ r.b = d.b :=
  openAny_found usesPath cfg fs env gunzip stdin filename envvar hd p (by rw [findPath_eq_find]; exact h)

/-- the directory list is the value of the variable cut at every `:` — empty pieces included, nothing normalised -/
theorem splitColon_spec (s : CStr) :
    (∀ d ∈ splitColon s, COLON ∉ d) ∧ List.intercalate [COLON] (splitColon s) = s :=
  EaselModel.Buffer.OpenFile.splitColon_spec s

/-- **(2) Mode choice of `esl_buffer_OpenFile`** (no forcing hook): with `fstat`, a file of at most 4194304 bytes
    (`eslBUFFER_SLURPSIZE`) is slurped (`eslBUFFER_ALLFILE`; an empty file has `mem = NULL`), a larger one is memory
    mapped; without `fstat` it is read page by page (`eslBUFFER_FILE`). The window is the existing `openBuf` of that mode. -/
theorem openFile_mode_spec (cfg : Cfg) (fs : FS) (f : CStr) (src : Bytes) (h : fsRead fs f = some src) (hf : cfg.force = none) :
    (cfg.posix = true →
      (openFile cfg fs f).st = .ok ∧
      (openFile cfg fs f).b = some (openBuf (if src.length ≤ 4194304 then Mode.allfile else Mode.mmap) (filePs cfg) src, src) ∧
      (openFile cfg fs f).c = some { mode_is := (if src.length ≤ 4194304 then ModeIs.allfile else ModeIs.mmap),
                                     mem := decide (0 < src.length), filename := some f, pagesize := filePs cfg }) ∧
    (cfg.posix = false →
      (openFile cfg fs f).st = .ok ∧ (openFile cfg fs f).b = some (openBuf .file (filePs cfg) src, src)) :=
  ⟨openFile_posix cfg fs f src h hf, openFile_noposix cfg fs f src h⟩

/-- the page size of `esl_buffer_OpenFile`: `st_blksize` clamped to [512, 4194304] (4096 without `fstat`), unless the hook overrides -/
theorem openFile_pagesize_clamp (cfg : Cfg) :
    filePs cfg = (if cfg.hookPs > 0 then cfg.hookPs else if cfg.posix then max 512 (min cfg.blksize 4194304) else 4096) ∧
    0 < filePs cfg := by
  refine ⟨?_, filePs_pos cfg⟩
  unfold filePs
  rw [clampPs_eq, pageSize_val]

theorem openFile_not_found (cfg : Cfg) (fs : FS) (f : CStr) (h : fsRead fs f = none) :
    (openFile cfg fs f).st = .enotfound ∧ (openFile cfg fs f).c = some (unsetErr 4096) ∧ (openFile cfg fs f).b = none := by
  rw [EaselModel.Buffer.OpenFile.openFile_not_found cfg fs f h]
  exact ⟨rfl, rfl, rfl⟩

/-- `esl_buffer_OpenPipe(filename, cmdfmt)`: `eslENOTFOUND` if the file does not exist; else the command's output `out`
    through the pipe opener — unless the first read is short AND the command exited non-zero: `eslFAIL`. A failure behind
    a full first page goes unnoticed (as the documentation says). -/
theorem openPipe_spec (cfg : Cfg) (fs : FS) (run : Bytes → Bytes × Bool) (f : CStr) :
    (fsRead fs f = none → (openPipe cfg fs run (some f)).st = .enotfound ∧
        (openPipe cfg fs run (some f)).c = some (unsetErr (createPs cfg)) ∧ (openPipe cfg fs run (some f)).b = none) ∧
    (∀ input, fsRead fs f = some input →
      ((run input).1.length < createPs cfg ∧ (run input).2 = false →
          (openPipe cfg fs run (some f)).st = .fail ∧ (openPipe cfg fs run (some f)).c = some (unsetErr (createPs cfg)) ∧
          (openPipe cfg fs run (some f)).b = none) ∧
      (¬ ((run input).1.length < createPs cfg ∧ (run input).2 = false) →
          (openPipe cfg fs run (some f)).st = .ok ∧
          (openPipe cfg fs run (some f)).b = some (openBuf .cmdpipe (createPs cfg) (run input).1, (run input).1))) := by
  refine ⟨fun h => ?_, fun input h => ?_⟩
  · rw [openPipe_not_found cfg fs run f h]; exact ⟨rfl, rfl, rfl⟩
  · obtain ⟨h1, h2⟩ := openPipe_found cfg fs run f input h
    exact ⟨h1, fun hn => ⟨(h2 hn).1, (h2 hn).2.1⟩⟩

/-- **(3) Whatever path and mode Open chooses**, the buffer it hands back on the bytes `src` behaves on every valid history
    exactly as the specification "bytes + cursor" on `src` — and therefore exactly as the string opener
    (`esl_buffer_OpenMem`) on the same bytes, with any page size. -/
theorem open_semantics_mode_independent (usesPath : Bool) (cfg : Cfg) (fs : FS) (env : Env) (gunzip : Bytes → Bytes × Bool)
    (stdin : Bytes) (filename : CStr) (envvar : Option CStr) (b : Buf) (src : Bytes)
    (h : (openAny usesPath cfg fs env gunzip stdin filename envvar).b = some (b, src))
    (P : Nat) (hP : P ≤ b.pagesize) (ps' : Nat) (hps' : 0 < ps') (hP' : P ≤ ps')
    (ops : List Op) (hv : ValidHist P (AState.init src) ops) :
    obsRun { b := b } ops = specRun (AState.init src) ops ∧
    obsRun { b := b } ops = obsRun { b := openBuf .string ps' src } ops := by
  have h1 := openAny_semantics usesPath cfg fs env gunzip stdin filename envvar b src h P hP ops hv
  exact ⟨h1, by rw [h1, EaselModel.Buffer.history_spec .string ps' src hps' P hP' ops hv]⟩

/-- … where `src` is the content of the file at the path found, or — when the `.gz` test holds — what `gzip -dc` writes
    for that content. -/
theorem open_gz_semantics (usesPath : Bool) (cfg : Cfg) (fs : FS) (env : Env) (gunzip : Bytes → Bytes × Bool) (stdin : Bytes)
    (filename : CStr) (envvar : Option CStr) (hd : filename ≠ dash) (b : Buf) (src : Bytes)
    (h : (openAny usesPath cfg fs env gunzip stdin filename envvar).b = some (b, src)) :
    ∃ p raw, (candidates env filename envvar).find? (fun p => fileExists fs p) = some p ∧ fsRead fs p = some raw ∧
      ((gzTest usesPath filename p = some true ∧ src = (gunzip raw).1) ∨
       (gzTest usesPath filename p = some false ∧ src = raw)) := by
  obtain ⟨p, raw, h1, h2, h3⟩ := openAny_src usesPath cfg fs env gunzip stdin filename envvar hd b src h
  exact ⟨p, raw, by rw [← findPath_eq_find]; exact h1, h2, h3⟩

/-- **(4) `esl_buffer_Close` releases every resource exactly once.** For every outcome of `esl_buffer_Open` other than
    the out-of-bounds read — success in any mode, `eslENOTFOUND`/`eslFAIL` with an UNSET buffer, an exception with NULL —
    the actions of Open followed by those of `Close(*ret_bf)` acquire and release each resource (the ESL_BUFFER, the
    malloc'ed or mmap'ed memory, the FILE* from fopen or popen, filename, cmdline, the temporaries `cmd`, `path`,
    `dirlist`) exactly once, release nothing they did not acquire, and leave nothing. -/
theorem close_releases_exactly_once (usesPath : Bool) (cfg : Cfg) (fs : FS) (env : Env) (gunzip : Bytes → Bytes × Bool)
    (stdin : Bytes) (filename : CStr) (envvar : Option CStr)
    (hst : (openAny usesPath cfg fs env gunzip stdin filename envvar).st ≠ .fault) :
    balanced ((openAny usesPath cfg fs env gunzip stdin filename envvar).trace ++
              closeOpt (openAny usesPath cfg fs env gunzip stdin filename envvar).c) = true :=
  (balanced_iff _).mpr (openAny_close usesPath cfg fs env gunzip stdin filename envvar hst)

/-- the same for each opener called directly (hooks and forced modes included; `OpenMem`/`OpenStream` leave the caller's
    memory / stream alone) -/
theorem openers_release_exactly_once (cfg : Cfg) (fs : FS) (run : Bytes → Bytes × Bool) (f : CStr) (fo : Option CStr) (src : Bytes) :
    balanced ((openFile cfg fs f).trace ++ closeOpt (openFile cfg fs f).c) = true ∧
    balanced ((openPipe cfg fs run fo).trace ++ closeOpt (openPipe cfg fs run fo).c) = true ∧
    balanced ((openStream cfg src).trace ++ closeOpt (openStream cfg src).c) = true ∧
    balanced ((openMem cfg src).trace ++ closeOpt (openMem cfg src).c) = true :=
  ⟨(balanced_iff _).mpr (openFile_close cfg fs f).1, (balanced_iff _).mpr (openPipe_close cfg fs run fo).1,
   (balanced_iff _).mpr (openStream_close cfg src), (balanced_iff _).mpr (openMem_close cfg src)⟩

/-- **(5) The strings of `FetchLineAsStr` / `FetchTokenAsStr`**: status and new cursor as the specification says; on
    `eslOK` the allocation holds the line (token) followed by one NUL — `n + 1` bytes, the last one 0, the first `n` the
    line — and `*opt_n = n`; otherwise NULL and 0. -/
theorem asStr_nul_terminated (b : Buf) (sep : Bytes) (h : WF b) (hl : Loaded b) :
    (((fetchLineAsStr b).1, (fetchLineAsStr b).2.2.2.abs) = ((specGetLine b.abs).1, (specGetLine b.abs).2.2) ∧
     ((fetchLineAsStr b).1 = .ok →
        (fetchLineAsStr b).2.1 = some ((specGetLine b.abs).2.1 ++ [0]) ∧
        (fetchLineAsStr b).2.2.1 = (specGetLine b.abs).2.1.length) ∧
     ((fetchLineAsStr b).1 ≠ .ok → (fetchLineAsStr b).2.1 = none ∧ (fetchLineAsStr b).2.2.1 = 0)) ∧
    (((fetchTokenAsStr b sep).1, (fetchTokenAsStr b sep).2.2.2.abs) = ((specToken b.abs sep).1, (specToken b.abs sep).2.2) ∧
     ((fetchTokenAsStr b sep).1 = .ok →
        (fetchTokenAsStr b sep).2.1 = some ((specToken b.abs sep).2.1 ++ [0]) ∧
        (fetchTokenAsStr b sep).2.2.1 = (specToken b.abs sep).2.1.length) ∧
     ((fetchTokenAsStr b sep).1 ≠ .ok → (fetchTokenAsStr b sep).2.1 = none ∧ (fetchTokenAsStr b sep).2.2.1 = 0)) ∧
    (∀ l : Bytes, (l ++ [(0 : UInt8)]).length = l.length + 1 ∧ (l ++ [(0 : UInt8)])[l.length]? = some 0 ∧
        (l ++ [(0 : UInt8)]).take l.length = l ∧ (l ++ [(0 : UInt8)]).getLast? = some 0) :=
  ⟨fetchLineAsStr_spec b h hl, fetchTokenAsStr_spec b sep h, asStrAlloc_spec⟩

/-- `strlen(result) = n` iff the line (token) has no embedded NUL; in every case `strlen` stops inside the allocation -/
theorem asStr_strlen_iff (l : Bytes) :
    (strlenIn (l ++ [0]) = some l.length ↔ (0 : UInt8) ∉ l) ∧
    (∃ k, strlenIn (l ++ [0]) = some k ∧ k ≤ l.length ∧ (l ++ [(0 : UInt8)])[k]? = some 0) :=
  ⟨strlen_asStr_iff l, strlen_asStr_le l⟩

/-- **(6) The `.gz` test of the working tree, `strcmp(filename + strlen(path) - 3, ".gz")`.** Found in the current
    directory (`path = filename`) Open never reads out of bounds, and the test is the documented one (the name ends in `.gz`). -/
theorem open_cwd_never_faults (usesPath : Bool) (cfg : Cfg) (fs : FS) (env : Env) (gunzip : Bytes → Bytes × Bool) (stdin : Bytes)
    (filename : CStr) (envvar : Option CStr) (h : fileExists fs filename = true) :
    (openAny usesPath cfg fs env gunzip stdin filename envvar).st ≠ .fault ∧
    gzTest usesPath filename filename = some (decide (3 < filename.length ∧ filename.drop (filename.length - 3) = dotGz)) := by
  refine ⟨fun hf => ?_, gzTest_self usesPath filename⟩
  obtain ⟨_, p, hp, hg⟩ := (openAny_fault_iff usesPath cfg fs env gunzip stdin filename envvar).mp hf
  rw [findPath_cwd fs env filename envvar h] at hp
  cases hp
  exact gzTest_cwd_ne_none usesPath filename hg

/-- Found through the directory list, in directory `d` (so `path = d/filename`): Open reads out of bounds — behind the
    terminator of `filename` — exactly when `d` is 3 bytes or longer. In general: iff `strlen(path) - 3 > strlen(filename)`. -/
theorem open_gz_fault_iff (cfg : Cfg) (fs : FS) (env : Env) (gunzip : Bytes → Bytes × Bool) (stdin : Bytes)
    (filename : CStr) (envvar : Option CStr) :
    ((openAny false cfg fs env gunzip stdin filename envvar).st = .fault ↔
      filename ≠ dash ∧ ∃ p, (candidates env filename envvar).find? (fun p => fileExists fs p) = some p ∧
        3 < p.length ∧ filename.length < p.length - 3) ∧
    (∀ d, filename ≠ dash → (candidates env filename envvar).find? (fun p => fileExists fs p) = some (envPath d filename) →
      ((openAny false cfg fs env gunzip stdin filename envvar).st = .fault ↔ 3 ≤ d.length)) := by
  have key := openAny_fault_iff false cfg fs env gunzip stdin filename envvar
  rw [findPath_eq_find] at key
  refine ⟨?_, fun d hd hf => ?_⟩
  · rw [key]
    constructor
    · rintro ⟨hd, p, hp, hg⟩; exact ⟨hd, p, hp, (gzTest_none_iff filename p).mp hg⟩
    · rintro ⟨hd, p, hp, hg⟩; exact ⟨hd, p, hp, (gzTest_none_iff filename p).mpr hg⟩
  · rw [key]
    constructor
    · rintro ⟨_, p, hp, hg⟩
      rw [hf] at hp; cases hp
      rw [gzTest_env] at hg
      by_cases h3 : 3 ≤ d.length
      · exact h3
      · rw [if_neg h3] at hg; simp at hg
    · intro h3
      exact ⟨hd, envPath d filename, hf, by rw [gzTest_env, if_pos h3]⟩

def gzWitnessFS : FS := [([100, 105, 114, 47, 97, 46, 103, 122], [31, 139, 8, 0])]      -- "dir/a.gz"
def gzWitnessEnv : Env := [([80], [100, 105, 114])]                                      -- P=dir

/-- the witness of the known finding `C05:open:gz-suffix-indexes-filename`: `esl_buffer_Open("a.gz", "P")` with `P=dir`
    and the file `dir/a.gz`: `n = 8`, the read starts at `filename[5]` of the 5-byte object `"a.gz\0"` -/
theorem open_gz_fault_witness :
    (openAny false {} gzWitnessFS gzWitnessEnv (fun _ => ([], false)) [] [97, 46, 103, 122] (some [80])).st = .fault := by
  decide

/-- … and when it does not fault (directory names of at most 2 bytes) the test answers "not gzip" whatever the name: a
    `.gz` file found through the directory list is never decompressed; it is opened as a plain file. -/
theorem open_gz_env_never_recognised (d filename : CStr) :
    gzTest false filename (envPath d filename) = (if 3 ≤ d.length then none else some false) ∧
    gzTest false filename (envPath d filename) ≠ some true := by
  refine ⟨gzTest_env d filename, ?_⟩
  rw [gzTest_env]; split <;> simp

/-- With the proposed fix (`strcmp(path + n - 3, ".gz")`) Open never reads out of bounds … -/
theorem open_fixed_never_faults (cfg : Cfg) (fs : FS) (env : Env) (gunzip : Bytes → Bytes × Bool) (stdin : Bytes)
    (filename : CStr) (envvar : Option CStr) :
    (openAny true cfg fs env gunzip stdin filename envvar).st ≠ .fault := by
  intro hf
  obtain ⟨_, p, _, hg⟩ := (openAny_fault_iff true cfg fs env gunzip stdin filename envvar).mp hf
  exact gzTest_fixed_ne_none filename p hg

/-- … and the test is the documented one wherever the file was found: the path (equivalently the name) ends in `.gz`. -/
theorem open_fixed_gz_iff_suffix (filename path : CStr) :
    gzTest true filename path = some (decide (3 < path.length ∧ path.drop (path.length - 3) = dotGz)) :=
  gzTest_fixed filename path

-- non-vacuity
private def exFS : FS := [([102], [97, 10]), ([97, 47, 103], [98, 10]), ([98, 47, 103], [99, 10]), ([122, 46, 103, 122], [1, 2])]
private def exEnv : Env := [([80], [120, 58, 58, 97, 58, 98])]                            -- P=x::a:b
private def exGunzip : Bytes → Bytes × Bool := fun raw => if raw = [1, 2] then ([104, 105, 10], true) else ([], false)
-- cwd; second-but-first-existing listed directory (x, "" do not have it; a wins over b); nowhere; .gz in cwd through the pipe
example : (findPath exFS exEnv [102] (some [80])).1 = some [102] := by decide
example : splitColon [120, 58, 58, 97, 58, 98] = [[120], [], [97], [98]] := by decide
example : (findPath exFS exEnv [103] (some [80])).1 = some [97, 47, 103] := by decide
example : ∀ p ∈ candidates exEnv [113] (some [80]), fileExists exFS p = false := by decide
example : (openAny false {} exFS exEnv exGunzip [] [113] (some [80])).st = .enotfound := by decide
example : (openAny false {} exFS exEnv exGunzip [] [103] none).st = .enotfound := by decide
example : ((openAny false {} exFS exEnv exGunzip [] [103] (some [80])).b.map (·.2)) = some [98, 10] := by decide
example : ((openAny false {} exFS exEnv exGunzip [] [122, 46, 103, 122] none).b.map (·.2)) = some [104, 105, 10] := by decide
example : ((openAny false { hookPs := 2 } exFS exEnv exGunzip [] [122, 46, 103, 122] none).b.map (·.1.mode)) = some Mode.cmdpipe := by decide
example : (openAny false {} exFS exEnv (fun _ => ([], false)) [] [122, 46, 103, 122] none).st = .fail := by decide
example : ((openAny false {} exFS exEnv exGunzip [5, 10] dash none).b.map (·.1.mode)) = some Mode.stream := by decide
example : fsRead exFS [102] = some [97, 10] ∧ ({} : Cfg).force = none ∧ ({} : Cfg).posix = true := by decide
example : filePs { blksize := 100 } = 512 ∧ filePs { blksize := 65536 } = 65536 ∧ filePs { blksize := 8388608 } = 4194304 ∧
    filePs { blksize := 100, hookPs := 3 } = 3 ∧ filePs { posix := false, blksize := 100 } = 4096 := by decide
example : chooseMode true 4194304 = .allfile ∧ chooseMode true 4194305 = .mmap ∧ chooseMode true 0 = .allfile ∧
    chooseMode false (-1) = .file := by decide
example : (openFile { force := some .mmap } [([102], [])] [102]).st = .esys ∧
    balanced (openFile { force := some .mmap } [([102], [])] [102]).trace = true := by decide
example : balanced [.acq .bf, .acq .mem, .rel .bf] = false ∧ balanced [.acq .bf, .rel .bf, .rel .bf] = false ∧
    balanced [.rel .mem] = false := by decide
example : (openAny false {} exFS exEnv exGunzip [] [103] (some [80])).st ≠ .fault := by decide
example : strlenIn ([97, 0, 98] ++ [0]) = some 1 ∧ strlenIn ([97, 98] ++ [0]) = some 2 := by decide
example : gzTest false [97, 46, 103, 122] (envPath [100] [97, 46, 103, 122]) = some false ∧
    gzTest true [97, 46, 103, 122] (envPath [100, 105, 114] [97, 46, 103, 122]) = some true ∧
    gzTest false [46, 103, 122] [46, 103, 122] = some false := by decide
end Round4Open
-- END round4-open

end EaselModel.Props.C05
