import EaselModel.Sqio.DriverLogic
namespace EaselModel.Props.C02
end EaselModel.Props.C02
