import EaselModel.Sqio.NoFault
import EaselModel.Sqio.DriverLogic
import EaselModel.Sqio.Totality
import EaselModel.Sqio.BlockSpec
import EaselModel.Sqio.WindowSpec
import EaselModel.Sqio.WindowTotal
import EaselModel.Sqio.EmblTotal
import EaselModel.Sqio.EmblTotalAll
import EaselModel.Sqio.MsaSeqMode
import EaselModel.Sqio.MsaSeqWindow
import EaselModel.Sqio.MsaSeqBlock
import EaselModel.Sqio.MsaSeqSto
import EaselModel.Sqio.MsaSeqPhy
import EaselModel.Sqio.MsaSeqAll
import EaselModel.Sqio.EmblSeqTotal
import EaselModel.Sqio.EmblInfoTotal
import EaselModel.Sqio.EmblHistory
/-! # C02 — sequence-file input is total: any bytes give a normal outcome

Property theorems only (proofs are glue on `Sqio/Refine.lean`, `Sqio/NoFault.lean`).
Model: `Sqio/Model.lean`; every `buf[i]` goes through `Ascii.bufGet` (`none` = outside the buffer = `Status.fault`), every
store into the `ESL_SQ` checks the allocation the C code made; so "never touches memory outside its objects" is
"`Status.fault` is not an outcome".

Full statement (DESIGN §5 C02): for every byte string, format selection, text/digital mode, read call and block size `B`, the
outcome is `ok rec | eof | eformat` (message + line number), `fault`/exception unreachable, every returned record well formed.
Proved here for every byte string and every `B ≥ 1` (block mode, FASTA-family input maps): the block loader keeps its window
inside the file and inside `mem` (`loadbuf_total`), `nextchar` — the only primitive of the header parsers — never faults and
never skips or repeats a byte (`nextchar_total`), `seebuf` — the residue scanner of all five read calls — never faults, never
leaves the buffer and rejects every byte ≥ 0x80 before it is used as an index (`seebuf_total`), and the two input maps that
`seebuf` and the digital `addbuf` use classify every symbol consistently (`inmaps_agree`, re-checked against the regenerated
tables on every run); and, composed through `header_fasta` / `seebuf` / `addbuf` / `end_fasta`: `sqascii_Read`, `ReadInfo`, `ReadSequence` and the
whole-sequence `ReadBlock` are total for EVERY byte string (`read_total`, `readInfo_total`, `readSequence_total`, `read_all_total`,
`readBlock_total`): status `eslOK` / `eslEOF` / `eslEFORMAT` (with a message), never `fault`, every record well formed; `read_nres` and
the forward `ReadWindow` are total for EVERY byte string too — illegal bytes included — (`read_nres_total_any`, `readWindow_total`):
`eslOK` / `eslEOD` / `eslEOF` / `eslEFORMAT` with a message, no exception, never `fault`. NOT proved (tied by the differential run +
sanitizer build + record monitor): reverse-strand windows on malformed data, long-target `ReadBlock`, daemon / hmmpgmd, the guessers and
the alignment-as-sequences branch. EMBL / UniProt / GenBank / DDBJ: `sqascii_Read`, `ReadSequence` and `ReadInfo` are total for every byte string (`read_linebased_total`,
`readSequence_linebased_total`, `readInfo_linebased_total`). -/
namespace EaselModel.Props.C02
open EaselModel.Sqio EaselModel.Sqio.Refine EaselModel.Sqio.NoFault

/-- after open / Position (nothing buffered): one `fread`; the handle is well formed, the cursor is at the file position, and
    the status is `eslEOF` exactly at the end of the file — for every file, position and `B ≥ 1` -/
theorem loadbuf_total (a : Ascii) (h : Pre a) :
    WF (loadbuf a).1 ∧ (loadbuf a).1.bpos = 0 ∧ (loadbuf a).1.file = a.file ∧ (loadbuf a).1.B = a.B ∧ pos (loadbuf a).1 = a.fpos ∧
    ((loadbuf a).2 = .ok ∧ 0 < (loadbuf a).1.nc ∧ a.fpos < a.file.size ∨
     (loadbuf a).2 = .eof ∧ (loadbuf a).1.nc = 0 ∧ a.fpos = a.file.size) := loadbuf_wf a h

/-- `nextchar` never faults: it returns `eslOK` with the next byte of the *file* (block boundaries are invisible), or `eslEOF`
    exactly when the cursor was on the last byte; the handle stays well formed. For every `B ≥ 1`. -/
theorem nextchar_total (a : Ascii) (c : UInt8) (h : WF a) (hb : a.bpos < a.nc) :
    WF (nextchar a c).1 ∧ (nextchar a c).1.file = a.file ∧ (nextchar a c).1.B = a.B ∧
    (((nextchar a c).2.1 = .ok ∧ (nextchar a c).1.bpos < (nextchar a c).1.nc ∧ pos (nextchar a c).1 = pos a + 1 ∧
        a.file[(pos a + 1).toNat]? = some (nextchar a c).2.2) ∨
     ((nextchar a c).2.1 = .eof ∧ (nextchar a c).2.2 = c ∧ pos a + 1 = a.file.size ∧ (nextchar a c).1.nc = 0 ∧
        (nextchar a c).1.bpos = 0 ∧ pos (nextchar a c).1 = pos a + 1)) := nextchar_refines a c h hb

/-- in particular `fault` is not an outcome of `nextchar` -/
theorem nextchar_no_fault (a : Ascii) (c : UInt8) (h : WF a) (hb : a.bpos < a.nc) : (nextchar a c).2.1 ≠ .fault := by
  rcases (nextchar_refines a c h hb).2.2.2 with h1 | h1 <;> simp [h1.1]

/-- `seebuf` (any residue limit): never a fault, the reported end position lies inside the buffer, the handle stays well formed;
    only bookkeeping (line geometry, line number, error flag) changes -/
theorem seebuf_total (a : Ascii) (h : WF a) (hm : a.inmap.size = 128) (maxn : Option Nat) :
    (seebuf a maxn).2.st ≠ .fault ∧ a.bpos ≤ (seebuf a maxn).2.endpos ∧ (seebuf a maxn).2.endpos ≤ a.nc ∧
    WF (seebuf a maxn).1 ∧ (seebuf a maxn).1.bpos = a.bpos ∧ (seebuf a maxn).1.nc = a.nc ∧ (seebuf a maxn).1.boff = a.boff ∧
    (seebuf a maxn).1.file = a.file := seebuf_safe a h hm maxn

/-- the input maps `seebuf` (file map) and digital `addbuf` (alphabet map) agree on what a residue is, for DNA, RNA and amino;
    and the file maps have 128 entries (so every validated byte is a valid index) -/
theorem inmaps_agree :
    ∀ abc ∈ [1, 2, 3], ∀ c : Fin 128,
      ((inmapFasta abc).getD c.val 0 ≤ 127 → (abcInmap abc).getD c.val 255 ≤ 127) ∧
      (((inmapFasta abc).getD c.val 0 = Tables.dsqIgnored ∨ (inmapFasta abc).getD c.val 0 = Tables.dsqEol) → (abcInmap abc).getD c.val 0 > 127) ∧
      (inmapFasta abc).size = 128 := tables_residue_class_agree

/-- non-vacuity: the state right after opening a 5-byte file with B = 2 satisfies `Pre`, and after `loadbuf` the cursor is on a byte -/
example : Pre { file := #[62, 97, 10, 65, 10], B := 2 } := ⟨rfl, by decide, by decide, by decide, by decide⟩
example : (loadbuf { file := #[62, 97, 10, 65, 10], B := 2 }).2 = .ok ∧ (loadbuf { file := #[62, 97, 10, 65, 10], B := 2 }).1.nc = 2 := by decide


/-! ## Totality at the level of the reading calls (round 3) — corollaries of the closed forms (`Sqio/ReadSpec.lean`, `Sqio/Totality.lean`) -/

open EaselModel.Sqio.ReadSpec EaselModel.Sqio.Totality in
/-- **`sqascii_Read` (FASTA) is total, as a theorem about the call**: from every ready handle — any file bytes, any cursor position, any
    block size `B ≥ 1`, text or digital — the outcome is `eslOK`, `eslEOF` or `eslEFORMAT`; in particular never `fault` (no `buf[i]`
    outside the buffer, no store outside an allocation of the `ESL_SQ`, through `loadbuf` / `nextchar` / `header_fasta` / `seebuf` /
    `addbuf` / `end_fasta` composed); `eslEFORMAT` comes with a message; on `eslOK` the record is well formed (non-empty name, strings and
    residues inside their allocations with room for the terminator, `start = 1`, `end = W = L = n`, `C = 0`, `0 ≤ roff < hoff ≤ doff ≤
    eoff + 1`), at least one byte was consumed, and the handle is ready for the next call. -/
theorem read_total (a : Ascii) (sq : Sq) (R : Ready a sq) :
    ((read a sq).2.2 = .ok ∨ (read a sq).2.2 = .eof ∨ (read a sq).2.2 = .eformat) ∧
    ((read a sq).2.2 = .eformat → (read a sq).1.haveErr = true) ∧
    ((read a sq).2.2 = .ok → WellFormed (read a sq).2.1 ∧ Ready (read a sq).1 (read a sq).2.1.reuse ∧
       (DataScan.fileFrom (read a sq).1).length < (DataScan.fileFrom a).length) := Totality.read_total a sq R

open EaselModel.Sqio.ReadSpec in
theorem read_no_fault (a : Ascii) (sq : Sq) (R : Ready a sq) : (read a sq).2.2 ≠ .fault := by
  rcases (Totality.read_total a sq R).1 with h | h | h <;> rw [h] <;> decide

open EaselModel.Sqio.ReadSpec in
/-- the info-only call: `eslOK` / `eslEOF` / `eslEFORMAT` (with a message), never `fault` -/
theorem readInfo_total (a : Ascii) (sq : Sq) (R : Ready a sq) (hsa : 2 ≤ sq.salloc) :
    ((readInfo a sq).2.2 = .ok ∨ (readInfo a sq).2.2 = .eof ∨ (readInfo a sq).2.2 = .eformat) ∧
    ((readInfo a sq).2.2 = .eformat → (readInfo a sq).1.haveErr = true) := Totality.readInfo_total a sq R hsa

open EaselModel.Sqio.ReadSpec in
/-- the sequence-only call: `eslOK` / `eslEOF` / `eslEFORMAT` (with a message), never `fault` -/
theorem readSequence_total (a : Ascii) (sq : Sq) (R : Ready a sq) :
    ((readSequence a sq).2.2 = .ok ∨ (readSequence a sq).2.2 = .eof ∨ (readSequence a sq).2.2 = .eformat) ∧
    ((readSequence a sq).2.2 = .eformat → (readSequence a sq).1.haveErr = true) := Totality.readSequence_total a sq R

open EaselModel.Sqio.ParseFasta EaselModel.Sqio.Totality in
/-- **The whole FASTA reader is total, for EVERY byte string and EVERY block size `B ≥ 1`** (text, DNA, RNA, amino): opening the file
    and reading records until the first non-`eslOK` status ends within `size + 2` calls with `eslEOF` or `eslEFORMAT` — never `fault` —
    and every record returned on the way is well formed. -/
theorem read_all_total (bytes : Bytes) (B abc : Nat) (hB : 1 ≤ B) (habc : abc ∈ [0, 1, 2, 3]) :
    ((readAllM (bytes.size + 2) (openFasta bytes B abc) (freshSq abc)).2 = .eof ∨
     (readAllM (bytes.size + 2) (openFasta bytes B abc) (freshSq abc)).2 = .eformat) ∧
    ∀ s ∈ (readAllM (bytes.size + 2) (openFasta bytes B abc) (freshSq abc)).1, WellFormed s :=
  Totality.read_all_total bytes B abc hB habc

open EaselModel.Sqio.ParseFasta EaselModel.Sqio.ReadSpec in
/-- non-vacuity of `Ready`: every file, every `B ≥ 1`, every mode, right after open -/
example (bytes : Bytes) (B abc : Nat) (hB : 1 ≤ B) (habc : abc ∈ [0, 1, 2, 3]) : Ready (openFasta bytes B abc) (freshSq abc).reuse :=
  (openFasta_ready bytes B abc hB habc).1

/-- a malformed file (`>` `\n` `A`: a record without a name) with B = 1 in text mode: the closed form says `eslEFORMAT` -/
example : (ParseFasta.parseFasta 0 #[62, 10, 65]).2 = Status.eformat ∧ (ParseFasta.parseFasta 0 #[62, 10, 65]).1.length = 0 := by
  decide +kernel


open EaselModel.Sqio.BlockSpec in
/-- **`sqascii_ReadBlock` (whole-sequence mode) is total for every byte string and every block size**: from a ready handle and a block
    of reused slots it never faults (no access outside a buffer or an allocation, in any of the `sqascii_Read` calls it makes), and it
    reports the block as complete -/
theorem readBlock_total (dig : Bool) (abc : Nat) (a : Ascii) (b : Block) (maxRes maxSeq : Int) (maxInit : Bool)
    (H : HReady a (if dig then abcInmap abc else a.inmap)) (hls : b.listSize ≤ b.list.size)
    (hslot : ∀ j, j < blockMaxSeq b maxSeq → SlotOk dig abc (b.list.getD j {})) :
    (readBlock a b maxRes maxSeq maxInit false).2.2 ≠ .fault ∧ (readBlock a b maxRes maxSeq maxInit false).2.1.complete = true := by
  obtain ⟨_, _, _, h4, h5, _⟩ := BlockSpec.readBlock_short_spec dig abc a b maxRes maxSeq maxInit H hls hslot
  exact ⟨h5, h4⟩

open EaselModel.Sqio.BodySpec EaselModel.Sqio.WindowSpec in
/-- **`read_nres(sqfp, sq, 0, W)` — the residue reader of `ReadWindow` — on clean data, for every block size**: status `eslOK` or
    `eslEOD`, never `fault`; the handle stays well formed (the cursor inside the file and the buffer) -/
theorem read_nres_total (a : Ascii) (sq : Sq) (W : Nat) (hW : 1 ≤ W) (w : Refine.WF a) (tok : Fold.Track.Ok a.trk) (hm : a.inmap.size = 128)
    (heof : a.eofIsOk = true) (hmap : MapOk a.inmap (mapOf a sq)) (hclean : Clean a.inmap (DataScan.fileFrom a))
    (hcap : sq.seq.size + W + (if sq.digital then 2 else 1) ≤ sq.salloc) :
    ((readNres a sq 0 W).2.2.1 = .ok ∨ (readNres a sq 0 W).2.2.1 = .eod) ∧ Refine.WF (readNres a sq 0 W).1 := by
  obtain ⟨_, _, r3, r4, _⟩ := WindowSpec.readNres_zero_spec a sq W hW w tok hm heof hmap hclean hcap
  refine ⟨?_, r4⟩
  rw [r3]
  split
  · exact Or.inr rfl
  · exact Or.inl rfl


open EaselModel.Sqio.BodySpec EaselModel.Sqio.Cursor in
/-- **`read_nres(sqfp, sq, 0, W)` is total for EVERY byte string, every block size, every `W`**: whatever bytes follow the cursor —
    illegal symbols, bytes ≥ 0x80, a truncated record — the status is `eslOK`, `eslEOD` or `eslEFORMAT` (then a message was written),
    never `fault` (no access outside the buffer, no store outside the `W` residues of room), no exception; the handle stays well formed;
    at most `W` residues are appended and nothing else of the `ESL_SQ` changes. -/
theorem read_nres_total_any (a : Ascii) (sq : Sq) (W : Nat) (w : Refine.WF a) (tok : Fold.Track.Ok a.trk) (hm : a.inmap.size = 128)
    (hmap : MapOk a.inmap (mapOf a sq)) (hcap : sq.seq.size + W + (if sq.digital then 2 else 1) ≤ sq.salloc) :
    ((readNres a sq 0 W).2.2.1 = .ok ∨ (readNres a sq 0 W).2.2.1 = .eod ∨ (readNres a sq 0 W).2.2.1 = .eformat) ∧
    ((readNres a sq 0 W).2.2.1 = .eformat → (readNres a sq 0 W).1.haveErr = true) ∧
    Refine.WF (readNres a sq 0 W).1 ∧ stat (readNres a sq 0 W).1 = stat a ∧ (readNres a sq 0 W).1.exc = a.exc ∧
    (∃ d : Bytes, (readNres a sq 0 W).2.1 = { sq with seq := sq.seq ++ d } ∧ d.size ≤ W) ∧ (readNres a sq 0 W).2.2.2 ≤ W := by
  obtain ⟨t1, t2, _, t4, t5, t6, _, _, _, t10, _, t12⟩ := WindowTotal.readNres_zero_total a sq W w tok hm hmap hcap
  exact ⟨t1, t2, t4, t5, t6, t10, t12⟩

open EaselModel.Sqio.BodySpec EaselModel.Sqio.ReadSpec EaselModel.Sqio.WindowSeries in
/-- **forward `sqascii_ReadWindow` is total for EVERY byte string and every block size**: the first call on a record (from a ready handle,
    `ESL_SQ` as after `esl_sq_Reuse`) and every later call (`sq->start ≠ 0`, whatever residues the window holds) return `eslOK`,
    `eslEOD`, `eslEOF` or `eslEFORMAT` — the latter with a message —, raise no exception and never fault, for every context `C ≥ 0` and
    width `W ≥ 1`. -/
theorem readWindow_total (a : Ascii) (sq : Sq) (C W : Int) (hC : 0 ≤ C) (hW : 1 ≤ W)
    (h : (sq.start = 0 ∧ sq.seq = #[] ∧ Ready a sq) ∨ (sq.start ≠ 0 ∧ HOk a ∧ MapOk a.inmap (mapOf a sq))) :
    ((readWindow a sq C W).2.2 = .ok ∨ (readWindow a sq C W).2.2 = .eod ∨ (readWindow a sq C W).2.2 = .eof ∨
      (readWindow a sq C W).2.2 = .eformat) ∧
    ((readWindow a sq C W).2.2 = .eformat → (readWindow a sq C W).1.haveErr = true) ∧ (readWindow a sq C W).1.exc = a.exc :=
  WindowTotal.readWindow_fwd_total a sq C W hC hW h

open EaselModel.Sqio.ParseFasta in
/-- non-vacuity on the executable model: `>a\nAC1GT\n` (`1` is illegal), B = 2: a window of 3 residues reports `eslEFORMAT` with a
    message and no exception; a window of 2 succeeds with `AC` -/
example :
    (readWindow (openFasta #[62, 97, 10, 65, 67, 49, 71, 84, 10] 2 0) (freshSq 0).reuse 0 3).2.2 = Status.eformat ∧
    (readWindow (openFasta #[62, 97, 10, 65, 67, 49, 71, 84, 10] 2 0) (freshSq 0).reuse 0 3).1.haveErr = true ∧
    (readWindow (openFasta #[62, 97, 10, 65, 67, 49, 71, 84, 10] 2 0) (freshSq 0).reuse 0 2).2.2 = Status.ok ∧
    (readWindow (openFasta #[62, 97, 10, 65, 67, 49, 71, 84, 10] 2 0) (freshSq 0).reuse 0 2).2.1.seq = #[65, 67] := by
  decide +kernel


open EaselModel.Sqio.BodySpec EaselModel.Sqio.LineSpec EaselModel.Sqio.EmblAll in
/-- **`sqascii_Read` on the line-based formats (EMBL / UniProt / GenBank / DDBJ) is total for EVERY byte string and every block size**: from
    any line-mode handle (`LWF`: what `esl_sqfile_Open` yields and every call preserves) the outcome is `eslOK`, `eslEOF` or `eslEFORMAT`
    — the latter with a message —, no exception, never `fault`: `skipLinesWhile` / `emblScan` / `genbankScan` never run away (every
    iteration consumes a line of the file), `strtok` / the `LOCUS` / `VERSION` / `DEFINITION` column accesses stay inside the line (the
    742bef8 guards), the residue loop reads only `line[0..nc)` and stores inside the allocation `esl_sq_GrowTo` made, `end_embl` looks at
    the line start only; the handle stays a line-mode handle on the same file. No hypothesis on the bytes, on `B`, or on the `ESL_SQ`'s
    allocations. -/
theorem read_linebased_total (a : Ascii) (sq : Sq) (w : LWF a) (hf : LineFmt a) (tok : Fold.Track.Ok a.trk) (hm : a.inmap.size = 128)
    (hmap : MapOk a.inmap (mapOf a sq)) :
    ((read a sq).2.2 = .ok ∨ (read a sq).2.2 = .eof ∨ (read a sq).2.2 = .eformat) ∧
    ((read a sq).2.2 = .eformat → (read a sq).1.haveErr = true) ∧ (read a sq).1.exc = a.exc ∧ LWF (read a sq).1 ∧
    (read a sq).1.fmt = a.fmt ∧ (read a sq).1.file = a.file ∧ (read a sq).1.inmap = a.inmap :=
  EmblTotal.read_linebased_total a sq w hf tok hm hmap


open EaselModel.Sqio.BodySpec EaselModel.Sqio.LineSpec EaselModel.Sqio.EmblAll in
/-- **`sqascii_ReadSequence` on the line-based formats (EMBL / UniProt / GenBank / DDBJ) is total for EVERY byte string and every block
    size** (round 6b): `skip_header` (the header scanners with nothing stored) + the residue loop + the record end: `eslOK`, `eslEOF` or
    `eslEFORMAT` with a message, no exception, never `fault`; the handle stays a line-mode handle on the same file. No hypothesis on the
    bytes, on `B`, or on the `ESL_SQ`'s allocations. -/
theorem readSequence_linebased_total (a : Ascii) (sq : Sq) (w : LWF a) (hf : LineFmt a) (tok : Fold.Track.Ok a.trk) (hm : a.inmap.size = 128)
    (hmap : MapOk a.inmap (mapOf a sq)) :
    ((readSequence a sq).2.2 = .ok ∨ (readSequence a sq).2.2 = .eof ∨ (readSequence a sq).2.2 = .eformat) ∧
    ((readSequence a sq).2.2 = .eformat → (readSequence a sq).1.haveErr = true) ∧ (readSequence a sq).1.exc = a.exc ∧ LWF (readSequence a sq).1 ∧
    (readSequence a sq).1.fmt = a.fmt ∧ (readSequence a sq).1.file = a.file ∧ (readSequence a sq).1.inmap = a.inmap :=
  EmblTotal.readSequence_linebased_total a sq w hf tok hm hmap

open EaselModel.Sqio.BodySpec EaselModel.Sqio.LineSpec EaselModel.Sqio.EmblAll in
/-- **`sqascii_ReadInfo` on the line-based formats (EMBL / UniProt / GenBank / DDBJ) is total for EVERY byte string and every block
    size** (round 6b): `parse_header` + the residue loop without storing (`seebuf` only) + the record end + the info-only coordinates:
    `eslOK`, `eslEOF` or `eslEFORMAT` with a message, no exception, never `fault` (the loop never runs away: every pass consumes a line;
    the terminator store of the info record fits: header parsers and loop never touch the residue allocation); the handle stays a
    line-mode handle on the same file. The only hypothesis on the `ESL_SQ`: the two bytes every `esl_sq_Create*` allocates. -/
theorem readInfo_linebased_total (a : Ascii) (sq : Sq) (w : LWF a) (hf : LineFmt a) (tok : Fold.Track.Ok a.trk) (hm : a.inmap.size = 128)
    (hsa : 2 ≤ sq.salloc) :
    ((readInfo a sq).2.2 = .ok ∨ (readInfo a sq).2.2 = .eof ∨ (readInfo a sq).2.2 = .eformat) ∧
    ((readInfo a sq).2.2 = .eformat → (readInfo a sq).1.haveErr = true) ∧ (readInfo a sq).1.exc = a.exc ∧ LWF (readInfo a sq).1 ∧
    (readInfo a sq).1.fmt = a.fmt ∧ (readInfo a sq).1.file = a.file ∧ (readInfo a sq).1.inmap = a.inmap :=
  EmblTotal.readInfo_linebased_total a sq w hf tok hm hsa

open EaselModel.Sqio.BodySpec EaselModel.Sqio.EmblAll in
/-- **The whole reader of the line-based formats is total, for EVERY byte string and EVERY block size `B ≥ 1`**: from `esl_sqfile_Open` on
    (`openLine` = the handle open yields for EMBL / UniProt / GenBank / DDBJ), reading records with `sqascii_Read` until the first
    non-`eslOK` status ends within `size + 2` calls with `eslEOF` or `eslEFORMAT` — never `fault`; every successful call consumes at least
    one line of the file. -/
theorem read_all_linebased_total (file : Bytes) (B abc fmt : Nat) (eofOk : Bool) (inmap0 inmap1 : Bytes) (hB : 1 ≤ B)
    (hf : fmt = 2 ∨ fmt = 3 ∨ fmt = 4 ∨ fmt = 5) (hm : inmap1.size = 128) (sq : Sq)
    (hmap : MapOk inmap1 (if sq.digital then abcInmap sq.abc else inmap1)) :
    (ParseFasta.readAllM (file.size + 2) (openLine file B abc fmt eofOk inmap0 inmap1) sq).2 = .eof ∨
    (ParseFasta.readAllM (file.size + 2) (openLine file B abc fmt eofOk inmap0 inmap1) sq).2 = .eformat :=
  EmblTotalAll.read_all_linebased_open_total file B abc fmt eofOk inmap0 inmap1 hB hf hm sq hmap


/-! ## Alignment files read sequentially as sequences (round 6)

Model `Sqio/MsaSeq.lean`: the `esl_sqio_IsAlignment` branches of `sqascii_Read` / `ReadInfo` / `ReadSequence` / `ReadWindow` /
`ReadBlock`, `esl_sq_FetchFromMSA` and the dealigning, on top of the C01 models of `msafile_OpenBuffer` (declared format or
autodetection) and of the ten alignment readers (imported, not re-modelled). Lemmas `Sqio/MsaSeqLemmas.lean`, `Sqio/MsaSeqMode.lean`.
Everything below holds for EVERY byte string: the bytes only enter through `Opened.read`, whose outcome is good for every list of lines
(C01 `opened_read_good`). `Inv` = the alignment held by the handle (if any) is one the reader returned; it holds after open and every
call keeps it, so the statements hold after every history of calls. `ModeOk o` = the reader delivers alignments in the handle's mode
(digital iff an alphabet was set, with that alphabet's `Kp`) is a theorem for every opened file (`msa_mode_ok`), so no statement below
carries a hypothesis on the reader. -/

open EaselModel.Sqio.MsaSeq EaselModel.Msafile in
/-- **opening an alignment file as a sequence file is total** (declared alignment format, or autodetection that found no unaligned
    format), for every byte string, file name and alphabet: `eslOK` with a handle that satisfies the invariant (`idx = 0`, no exception
    pending, the alphabet handed to `esl_msafile_SetDigital`), or `eslEFORMAT`; never a fault. -/
theorem msa_open_total (file : Sqio.Bytes) (fname : LBytes) (fsel : FmtSel) (abc : Nat) :
    (((openMsa file fname fsel abc).2 = .ok ∧ (openMsa file fname fsel abc).1.isSome = true) ∨
     ((openMsa file fname fsel abc).2 = .eformat ∧ (openMsa file fname fsel abc).1 = none)) ∧
    (∀ h, (openMsa file fname fsel abc).1 = some h → Inv h ∧ h.idx = 0 ∧ h.exc = false ∧ h.o.abc = abcTypeOf abc) :=
  ⟨openMsa_total file fname fsel abc, fun h ho => openMsa_inv file fname fsel abc h ho⟩

open EaselModel.Sqio.MsaSeq EaselModel.Msafile in
/-- **`esl_sq_FetchFromMSA` is total on every alignment a reader can return**: `eslEOD` exactly when `which` is not a row; otherwise a
    well-formed record in the alignment's mode - name / description inside their allocations, residue array of exactly the reported
    length with room for the terminator, `start = 1`, `end = W = L = n`, `C = 0`, at most `alen` residues, text residues never NUL and
    never a gap character, digital codes `< Kp` and never a sentinel. Never a fault. -/
theorem msa_fetch_total (abc : Option AbcType) (m : Msa) (which : Int) (hw : m.wellFormed = true) (hd : m.digital = abc.isSome) :
    (((which ≥ (m.nseq : Int) ∨ which < 0) ∧ fetchFromMSA abc m which = (none, .eod)) ∨
     (0 ≤ which ∧ which < (m.nseq : Int) ∧ ∃ t, fetchFromMSA abc m which = (some t, .ok) ∧ RowWF m.kp t ∧ t.digital = m.digital ∧
        t.n ≤ m.alen)) := fetchFromMSA_total abc m which hw hd

open EaselModel.Sqio.MsaSeq EaselModel.Msafile in
/-- **`sqascii_Read` (= `sqascii_ReadSequence`) on an alignment file is total, for every byte string and every history**: `eslOK` with
    a well-formed record of the handle's mode (at most `alen` residues of the alignment now held), `eslEOF`, or `eslEFORMAT` with a
    message; never a fault, no exception; the invariant and `0 ≤ idx` are kept. -/
theorem msa_read_total (h : MsaH) (sq : Sq) (hi : Inv h) (hidx : 0 ≤ h.idx) (hsq : sq.digital = h.o.abc.isSome) :
    Inv (MsaSeq.read h sq).1 ∧ (MsaSeq.read h sq).1.o = h.o ∧ (MsaSeq.read h sq).1.exc = h.exc ∧ 0 ≤ (MsaSeq.read h sq).1.idx ∧
    (((MsaSeq.read h sq).2.2 = .ok ∧ (MsaSeq.read h sq).2.1.digital = sq.digital ∧
        ∃ m, (MsaSeq.read h sq).1.msa = some m ∧ RowWF m.kp (MsaSeq.read h sq).2.1 ∧ (MsaSeq.read h sq).2.1.n ≤ m.alen) ∨
     (MsaSeq.read h sq).2.2 = .eof ∨ ((MsaSeq.read h sq).2.2 = .eformat ∧ (MsaSeq.read h sq).1.haveErr = true)) :=
  MsaSeq.read_total h sq hi (modeOk_every h.o) hidx hsq

open EaselModel.Sqio.MsaSeq EaselModel.Msafile in
theorem msa_readSequence_total (h : MsaH) (sq : Sq) (hi : Inv h) (hidx : 0 ≤ h.idx) (hsq : sq.digital = h.o.abc.isSome) :
    (MsaSeq.readSequence h sq).2.2 = .ok ∨ (MsaSeq.readSequence h sq).2.2 = .eof ∨
    ((MsaSeq.readSequence h sq).2.2 = .eformat ∧ (MsaSeq.readSequence h sq).1.haveErr = true) := by
  rcases (MsaSeq.read_total h sq hi (modeOk_every h.o) hidx hsq).2.2.2.2 with h1 | h1 | h1
  · exact Or.inl h1.1
  · exact Or.inr (Or.inl h1)
  · exact Or.inr (Or.inr h1)

open EaselModel.Sqio.MsaSeq EaselModel.Msafile in
/-- **`sqascii_ReadInfo` on an alignment file is total**: `eslOK` with a well-formed info record (no residues, `start = end = C = W = 0`,
    `L ≥ 0`, strings inside their allocations), `eslEOF`, or `eslEFORMAT` with a message; never a fault, no exception. -/
theorem msa_readInfo_total (h : MsaH) (sq : Sq) (hi : Inv h) (hidx : 0 ≤ h.idx) (hsq : sq.digital = h.o.abc.isSome) :
    Inv (MsaSeq.readInfo h sq).1 ∧ (MsaSeq.readInfo h sq).1.o = h.o ∧ (MsaSeq.readInfo h sq).1.exc = h.exc ∧ 0 ≤ (MsaSeq.readInfo h sq).1.idx ∧
    (((MsaSeq.readInfo h sq).2.2 = .ok ∧ InfoWF (MsaSeq.readInfo h sq).2.1) ∨
     (MsaSeq.readInfo h sq).2.2 = .eof ∨ ((MsaSeq.readInfo h sq).2.2 = .eformat ∧ (MsaSeq.readInfo h sq).1.haveErr = true)) :=
  MsaSeq.readInfo_total h sq hi (modeOk_every h.o) hidx hsq

open EaselModel.Sqio.MsaSeq EaselModel.Msafile in
/-- **every alignment reader delivers alignments in the handle's mode** (digital iff an alphabet was set, with that alphabet's `Kp`) - all
    ten formats, every alphabet selection, every PHYLIP name width, every list of lines: each reader returns `eslOK` only through its
    finishing function, which builds the alignment with `digital := cfg.digital, kp := cfg.kp` (Stockholm / Pfam: none of the 33 helper
    functions of the reader model ever fails with "eslOK", `Sqio/MsaSeqSto.lean`; PHYLIP: only `phyDone`, `Sqio/MsaSeqPhy.lean`; SELEX:
    `selexStep_notOk`; the others: the C03 read-domain lemmas). This discharges the mode hypothesis of the lemmas in
    `Sqio/MsaSeqLemmas.lean`: the theorems of this section carry NO hypothesis on the reader or on the bytes. -/
theorem msa_mode_ok (o : Opened) : ModeOk o := modeOk_every o

open EaselModel.Sqio.MsaSeq EaselModel.Msafile in
/-- **an alignment file read as sequences, end to end, for EVERY byte string** - the property's statement for this path: whatever the
    bytes, the file name, the format selection (one of the ten alignment formats or autodetection) and the mode (text, DNA, RNA, amino;
    `callerSq abc` = the `ESL_SQ` made by `esl_sq_Create*`), `esl_sqfile_Open*` answers `eslOK` or `eslEFORMAT`; after `eslOK`, any number
    `n` of `esl_sqio_Read` calls (`readN`: the caller's loop with `esl_sq_Reuse`) ends with `eslOK` (all `n` succeeded), `eslEOF`, or
    `eslEFORMAT` with a message - never a fault, never an exception. No hypothesis beyond `abc ∈ {0,1,2,3}`. -/
theorem msa_file_read_total (file : Sqio.Bytes) (fname : LBytes) (fsel : FmtSel) (abc n : Nat) (habc : abc ≤ 3) :
    (((openMsa file fname fsel abc).2 = .ok ∧ (openMsa file fname fsel abc).1.isSome = true) ∨
     ((openMsa file fname fsel abc).2 = .eformat ∧ (openMsa file fname fsel abc).1 = none)) ∧
    ∀ h, (openMsa file fname fsel abc).1 = some h →
      (readN n h (callerSq abc)).1.exc = false ∧
      ((readN n h (callerSq abc)).2 = .ok ∨ (readN n h (callerSq abc)).2 = .eof ∨
       ((readN n h (callerSq abc)).2 = .eformat ∧ (readN n h (callerSq abc)).1.haveErr = true)) :=
  file_read_total file fname fsel abc n habc

open EaselModel.Sqio.MsaSeq EaselModel.Msafile in
/-- … so for a Stockholm file (the alignment format the property names) the totality of `sqascii_Read` holds without any hypothesis on
    the reader: from open on, for every byte string, alphabet and history -/
theorem msa_read_total_stockholm (h : MsaH) (sq : Sq) (hf : h.o.fmt = .stockholm ∨ h.o.fmt = .pfam) (hi : Inv h) (hidx : 0 ≤ h.idx)
    (hsq : sq.digital = h.o.abc.isSome) :
    Inv (MsaSeq.read h sq).1 ∧ 0 ≤ (MsaSeq.read h sq).1.idx ∧ (MsaSeq.read h sq).1.exc = h.exc ∧
    (((MsaSeq.read h sq).2.2 = .ok ∧ ∃ m, (MsaSeq.read h sq).1.msa = some m ∧ RowWF m.kp (MsaSeq.read h sq).2.1) ∨
     (MsaSeq.read h sq).2.2 = .eof ∨ ((MsaSeq.read h sq).2.2 = .eformat ∧ (MsaSeq.read h sq).1.haveErr = true)) := by
  have hm : ModeOk h.o := modeOk_all h.o (by intro hp; rcases hf with hf | hf <;> rcases hp with hp | hp <;> rw [hf] at hp <;> cases hp)
  obtain ⟨r1, _, r3, r4, r5⟩ := MsaSeq.read_total h sq hi (modeOk_every h.o) hidx hsq
  refine ⟨r1, r4, r3, ?_⟩
  rcases r5 with ⟨a, _, m, b, c, _⟩ | a | a
  · exact Or.inl ⟨a, m, b, c⟩
  · exact Or.inr (Or.inl a)
  · exact Or.inr (Or.inr a)

open EaselModel.Sqio.MsaSeq in
/-- **forward windows over an alignment row** (`sqascii_ReadWindow`, alignment branch, `W > 0`): from a fresh `ESL_SQ` or one holding the
    previous window, context `0 ≤ C' ≤ C`, `0 ≤ W' ≤ W` new residues starting right after the previous window (`start + C' = end0 + 1`,
    `end = end0 + W'`), `n = C' + W'`, the slice `start..end` inside `1..L`; `W' = 0` - the `eslEOD` answer - exactly when the previous
    window ended at `L`; the state after a window is again a forward state (so the windows tile `1..L` exactly once). -/
theorem msa_fwd_window_coords (n0 start0 end0 L C W : Int) (hL : 0 ≤ L) (hC : 0 ≤ C) (hW : 1 ≤ W) (hs : FwdState n0 start0 end0 L) :
    0 ≤ (fwdCoords n0 end0 L C W).1 ∧ (fwdCoords n0 end0 L C W).1 ≤ C ∧
    (fwdCoords n0 end0 L C W).2.1 + (fwdCoords n0 end0 L C W).1 = end0 + 1 ∧
    (fwdCoords n0 end0 L C W).2.2.2.1 = (fwdCoords n0 end0 L C W).1 + (fwdCoords n0 end0 L C W).2.2.2.2 ∧
    0 ≤ (fwdCoords n0 end0 L C W).2.2.2.2 ∧ (fwdCoords n0 end0 L C W).2.2.2.2 ≤ W ∧
    ((fwdCoords n0 end0 L C W).2.2.2.2 = 0 ↔ end0 = L) ∧
    1 ≤ (fwdCoords n0 end0 L C W).2.1 ∧
    (fwdCoords n0 end0 L C W).2.1 + (fwdCoords n0 end0 L C W).2.2.2.1 = (fwdCoords n0 end0 L C W).2.2.1 + 1 ∧
    (fwdCoords n0 end0 L C W).2.2.1 ≤ L ∧
    (fwdCoords n0 end0 L C W).2.2.1 = end0 + (fwdCoords n0 end0 L C W).2.2.2.2 ∧
    ((fwdCoords n0 end0 L C W).2.2.2.2 ≠ 0 →
      FwdState (fwdCoords n0 end0 L C W).2.2.2.1 (fwdCoords n0 end0 L C W).2.1 (fwdCoords n0 end0 L C W).2.2.1 L) :=
  fwdCoords_spec n0 start0 end0 L C W hL hC hW hs

open EaselModel.Sqio.MsaSeq in
/-- **reverse-strand windows over an alignment row, as repaired by 46b16f4** (`W < 0`): context `0 ≤ C' ≤ C` from the previous window,
    `0 ≤ W' ≤ |W|` new residues going down from `end0 - 1` (from `L` on the first window), `n = C' + W'`, the slice inside `1..L`;
    `W' = 0` - `eslEOD` - exactly when the strand is finished; after the swap of `esl_sq_ReverseComplement` the state is again a reverse
    state (so the windows tile `L..1` exactly once). The known finding C02:readwindow-msa:reverse-strand-coordinates is retired. -/
theorem msa_rev_window_coords (n0 start0 end0 L C W : Int) (hL : 0 ≤ L) (hC : 0 ≤ C) (hW : W ≤ -1) (hs : RevState n0 start0 end0 L) :
    0 ≤ (revCoords n0 start0 end0 L C W).1 ∧ (revCoords n0 start0 end0 L C W).1 ≤ C ∧
    (start0 = 0 → (revCoords n0 start0 end0 L C W).2.2.1 = L) ∧
    (start0 ≠ 0 → (revCoords n0 start0 end0 L C W).2.2.1 - (revCoords n0 start0 end0 L C W).1 = end0 - 1) ∧
    (revCoords n0 start0 end0 L C W).2.2.2.1 = (revCoords n0 start0 end0 L C W).1 + (revCoords n0 start0 end0 L C W).2.2.2.2 ∧
    0 ≤ (revCoords n0 start0 end0 L C W).2.2.2.2 ∧ (revCoords n0 start0 end0 L C W).2.2.2.2 ≤ -W ∧
    ((revCoords n0 start0 end0 L C W).2.2.2.2 = 0 ↔ (start0 = 0 ∧ L = 0) ∨ (start0 ≠ 0 ∧ end0 = 1)) ∧
    1 ≤ (revCoords n0 start0 end0 L C W).2.1 ∧
    (revCoords n0 start0 end0 L C W).2.1 + (revCoords n0 start0 end0 L C W).2.2.2.1 = (revCoords n0 start0 end0 L C W).2.2.1 + 1 ∧
    (revCoords n0 start0 end0 L C W).2.2.1 ≤ L ∧
    ((revCoords n0 start0 end0 L C W).2.2.2.2 ≠ 0 →
      RevState (revCoords n0 start0 end0 L C W).2.2.2.1 (revCoords n0 start0 end0 L C W).2.2.1 (revCoords n0 start0 end0 L C W).2.1 L) :=
  revCoords_spec n0 start0 end0 L C W hL hC hW hs

open EaselModel.Sqio.MsaSeq EaselModel.Msafile in
/-- **`sqascii_ReadWindow` on an alignment file is total, for every byte string, both strands, from every consistent window state**: the
    caller's `ESL_SQ` is fresh (after `esl_sq_Reuse` / `eslEOD`) or holds the previous window of the row being read (`FwdState` /
    `RevState`; on the reverse strand `sq->L` is the row's length, as the forward `eslEOD` left it; a digital reverse strand needs an
    alphabet with a complement: DNA or RNA). Then the call answers `eslOK` with a well-formed window (`n = C' + W'`, `0 ≤ C' ≤ C`,
    `1 ≤ W' ≤ |W|`, strings and residues inside their allocations) AND a state the next call accepts (so the statement holds along
    every series of windows), `eslEOD` with an empty record carrying `L ≥ 0`, `eslEOF`, `eslEFORMAT` with a message, or - reverse strand
    of a text-mode sequence holding a symbol that is not nucleic - `eslEINVAL` with a message. Never a fault (the slice copied from the
    row lies inside it; every digital code is inside the complement table), no exception, handle invariant kept. -/
theorem msa_readWindow_total (h : MsaH) (sq : Sq) (C W : Int) (hi : Inv h) (hsq : sq.digital = h.o.abc.isSome)
    (hC : 0 ≤ C) (hW0 : W ≠ 0) (hidx : 0 ≤ (adjIdx h sq W).idx)
    (hcomp : W < 0 → sq.digital = true → (sq.abc = 1 ∧ h.o.abc = some .dna) ∨ (sq.abc = 2 ∧ h.o.abc = some .rna))
    (hstate : ∀ t, (nextRow (adjIdx h sq W)).2.1 = some t →
        (0 < W → FwdState sq.n sq.start sq.end_ t.L) ∧ (W < 0 → RevState sq.n sq.start sq.end_ sq.L ∧ sq.L = t.L)) :
    Inv (MsaSeq.readWindow h sq C W).1 ∧ (MsaSeq.readWindow h sq C W).1.o = h.o ∧ (MsaSeq.readWindow h sq C W).1.exc = h.exc ∧
    (((MsaSeq.readWindow h sq C W).2.2 = .ok ∧ (MsaSeq.readWindow h sq C W).2.1.digital = sq.digital ∧
        (∃ c w, WinWF c w (MsaSeq.readWindow h sq C W).2.1 ∧ 0 ≤ c ∧ c ≤ C ∧ 1 ≤ w ∧ (0 < W → w ≤ W) ∧ (W < 0 → w ≤ -W)) ∧
        (∃ t, (nextRow (adjIdx h sq W)).2.1 = some t ∧
          (0 < W → FwdState (MsaSeq.readWindow h sq C W).2.1.n (MsaSeq.readWindow h sq C W).2.1.start (MsaSeq.readWindow h sq C W).2.1.end_ t.L) ∧
          (W < 0 → RevState (MsaSeq.readWindow h sq C W).2.1.n (MsaSeq.readWindow h sq C W).2.1.start (MsaSeq.readWindow h sq C W).2.1.end_
                      (MsaSeq.readWindow h sq C W).2.1.L ∧ (MsaSeq.readWindow h sq C W).2.1.L = t.L))) ∨
     ((MsaSeq.readWindow h sq C W).2.2 = .eod ∧ (MsaSeq.readWindow h sq C W).2.1.seq = #[] ∧ (MsaSeq.readWindow h sq C W).2.1.start = 0 ∧
        (MsaSeq.readWindow h sq C W).2.1.end_ = 0 ∧ 0 ≤ (MsaSeq.readWindow h sq C W).2.1.L) ∨
     (MsaSeq.readWindow h sq C W).2.2 = .eof ∨
     ((MsaSeq.readWindow h sq C W).2.2 = .eformat ∧ (MsaSeq.readWindow h sq C W).1.haveErr = true) ∨
     (W < 0 ∧ sq.digital = false ∧ (MsaSeq.readWindow h sq C W).2.2 = .einval ∧ (MsaSeq.readWindow h sq C W).1.haveErr = true)) :=
  MsaSeq.readWindow_total h sq C W hi (modeOk_every h.o) hsq hC hW0 hidx hcomp hstate

open EaselModel.Sqio.MsaSeq EaselModel.Msafile in
/-- non-vacuity of the window hypotheses on the executable model (`# STOCKHOLM 1.0\ns1 ACGU-ACGUAC\n//\n`, RNA): the fresh `ESL_SQ` is a
    forward state; the first window of 4 holds `ACGU`; after `eslEOD` the first reverse window `C=0 W=-3` holds residues `10..8`
    reverse-complemented (`G U A` = codes 2 3 0) with no context and 3 new residues - the retired finding's witness -/
example :
    let file : Sqio.Bytes := (str "# STOCKHOLM 1.0\ns1 ACGU-ACGUAC\n//\n").toArray
    ∃ h, (openMsa file (str "t.sto") (.decl .stockholm) 2).1 = some h ∧
      (MsaSeq.readWindow h (freshSq 2) 0 4).2.2 = .ok ∧ (MsaSeq.readWindow h (freshSq 2) 0 4).2.1.seq = #[0, 1, 2, 3] ∧
      (let r1 := MsaSeq.readWindow h (freshSq 2) 0 100
       let r2 := MsaSeq.readWindow r1.1 r1.2.1 0 100
       let r3 := MsaSeq.readWindow r2.1 r2.2.1 0 (-3)
       r2.2.2 = .eod ∧ r3.2.2 = .ok ∧ r3.2.1.seq = #[2, 3, 0] ∧ r3.2.1.start = 10 ∧ r3.2.1.end_ = 8 ∧ r3.2.1.C = 0 ∧ r3.2.1.W = 3) := by
  decide +kernel

open EaselModel.Sqio.MsaSeq EaselModel.Msafile in
/-- **`sqascii_ReadBlock` (whole-sequence mode) on an alignment file is total, for every byte string**: from a handle satisfying the
    invariant and a block whose slots are `ESL_SQ`s of the handle's mode (`esl_sq_CreateBlock` / `esl_sq_CreateDigitalBlock`): `eslOK`
    with a complete block, `eslEOF` (nothing could be read), or `eslEFORMAT` with a message - never a fault, no exception, in any of the
    `sqascii_Read` calls it makes; slots and handle invariant are kept (so the statement holds for every series of blocks). -/
theorem msa_readBlock_total (h : MsaH) (b : Block) (maxSeq : Int) (hi : Inv h) (hidx : 0 ≤ h.idx)
    (hs : SlotsOk h.o b.list) (hls : b.listSize ≤ b.list.size) :
    Inv (MsaSeq.readBlock h b maxSeq).1 ∧ (MsaSeq.readBlock h b maxSeq).1.o = h.o ∧ (MsaSeq.readBlock h b maxSeq).1.exc = h.exc ∧
    0 ≤ (MsaSeq.readBlock h b maxSeq).1.idx ∧ SlotsOk h.o (MsaSeq.readBlock h b maxSeq).2.1.list ∧
    (((MsaSeq.readBlock h b maxSeq).2.2 = .ok ∧ (MsaSeq.readBlock h b maxSeq).2.1.complete = true) ∨ (MsaSeq.readBlock h b maxSeq).2.2 = .eof ∨
     ((MsaSeq.readBlock h b maxSeq).2.2 = .eformat ∧ (MsaSeq.readBlock h b maxSeq).1.haveErr = true)) :=
  MsaSeq.readBlock_total h b maxSeq hi (modeOk_every h.o) hidx hs hls

open EaselModel.Sqio.MsaSeq EaselModel.Msafile in
/-- **`esl_sqfile_GuessAlphabet` on an alignment file is total** (it hands the file to `esl_msafile_GuessAlphabet`, which looks at the
    lines not yet read and keeps the read position): an alphabet type or `eslENOALPHABET`, never a fault - for every handle, i.e. every
    format, name width and remaining input -/
theorem msa_guessAlphabet_total (h : MsaH) :
    (∃ t, guessAlphabet h.o.fmt h.o.namewidth h.lines = .ok t) ∨ guessAlphabet h.o.fmt h.o.namewidth h.lines = .fail :=
  MsaSeq.guessAlphabet_total h

open EaselModel.Sqio.MsaSeq EaselModel.Msafile in
/-- non-vacuity: a block of two fresh RNA slots over the two-row Stockholm file: both rows come back dealigned, the block is complete -/
example :
    let file : Sqio.Bytes := (str "# STOCKHOLM 1.0\ns1 AC-GU\ns2 -CCC-\n//\n").toArray
    ∃ h, (openMsa file (str "t.sto") (.decl .stockholm) 2).1 = some h ∧
      (MsaSeq.readBlock h { listSize := 2, list := #[freshSq 2, freshSq 2] } (-1)).2.2 = .ok ∧
      (MsaSeq.readBlock h { listSize := 2, list := #[freshSq 2, freshSq 2] } (-1)).2.1.count = 2 ∧
      ((MsaSeq.readBlock h { listSize := 2, list := #[freshSq 2, freshSq 2] } (-1)).2.1.list.map (·.seq)) = #[#[0, 1, 2, 3], #[1, 1, 1]] := by
  decide +kernel

open EaselModel.Sqio.MsaSeq in
example : FwdState (freshSq 2).n (freshSq 2).start (freshSq 2).end_ 10 ∧ RevState (freshSq 2).n (freshSq 2).start (freshSq 2).end_ 10 :=
  ⟨Or.inl ⟨rfl, rfl, rfl⟩, Or.inl ⟨rfl, rfl, rfl⟩⟩

open EaselModel.Sqio.MsaSeq in
/-- the arithmetic before the repair at the retired finding's witness (fresh state after `eslEOD`, `L = 10`, `C = 0`, `W = -3`):
    context `-1`, 4 residues, "5 new" - and what the repaired code computes there: residues `8..10`, no context, 3 new -/
theorem msa_rev_window_old_illformed :
    revCoordsOld 0 0 0 10 0 (-3) = (-1, 7, 10, 4, 5) ∧ revCoords 0 0 0 10 0 (-3) = (0, 8, 10, 3, 3) :=
  ⟨revCoordsOld_illformed, revCoords_witness⟩

open EaselModel.Sqio.MsaSeq EaselModel.Msafile in
/-- non-vacuity on the executable model: the Stockholm file `# STOCKHOLM 1.0\ns1 AC-GU\n//\n` opened as RNA: the handle satisfies the
    hypotheses, the first `sqascii_Read` returns `ACGU` dealigned (codes 0 1 2 3), the second `eslEOF` -/
example :
    let file : Sqio.Bytes := (str "# STOCKHOLM 1.0\ns1 AC-GU\n//\n").toArray
    ∃ h, (openMsa file (str "t.sto") (.decl .stockholm) 2).1 = some h ∧ 0 ≤ h.idx ∧
      (MsaSeq.read h (freshSq 2)).2.2 = .ok ∧ (MsaSeq.read h (freshSq 2)).2.1.seq = #[0, 1, 2, 3] ∧
      (MsaSeq.read (MsaSeq.read h (freshSq 2)).1 (freshSq 2)).2.2 = .eof := by
  decide +kernel

open EaselModel.Sqio.BodySpec EaselModel.Sqio.EmblAll EaselModel.Sqio.EmblTotalAll in
/-- **every history of whole-record calls on a line-based file is total** (round 6b): from `esl_sqfile_Open` on (`openLine`), for EVERY
    byte string, every block size `B ≥ 1` and EVERY list `cs` of calls (`false` = `sqascii_Read`, `true` = `sqascii_ReadSequence`, each on
    the reused `ESL_SQ`, stopping at the first status that is not `eslOK`): the series ends with `eslOK` (all succeeded), `eslEOF`, or
    `eslEFORMAT` with a message - never a fault, no exception. -/
theorem linebased_history_total (file : Sqio.Bytes) (B abc fmt : Nat) (eofOk : Bool) (inmap0 inmap1 : Sqio.Bytes) (hB : 1 ≤ B)
    (hf : fmt = 2 ∨ fmt = 3 ∨ fmt = 4 ∨ fmt = 5) (hm : inmap1.size = 128) (sq : Sq)
    (hmap : MapOk inmap1 (if sq.digital then abcInmap sq.abc else inmap1)) (cs : List Bool) :
    ((runCalls cs (openLine file B abc fmt eofOk inmap0 inmap1) sq).2 = .ok ∨
     (runCalls cs (openLine file B abc fmt eofOk inmap0 inmap1) sq).2 = .eof ∨
     (runCalls cs (openLine file B abc fmt eofOk inmap0 inmap1) sq).2 = .eformat) ∧
    ((runCalls cs (openLine file B abc fmt eofOk inmap0 inmap1) sq).2 = .eformat →
      (runCalls cs (openLine file B abc fmt eofOk inmap0 inmap1) sq).1.haveErr = true) ∧
    (runCalls cs (openLine file B abc fmt eofOk inmap0 inmap1) sq).1.exc = false :=
  runCalls_open_total file B abc fmt eofOk inmap0 inmap1 hB hf hm sq hmap cs

end EaselModel.Props.C02
