import EaselModel.Sqio.NoFault
import EaselModel.Sqio.DriverLogic
/-! # C02 — sequence-file input is total: any bytes give a normal outcome

Property theorems only (proofs are glue on `Sqio/Refine.lean`, `Sqio/NoFault.lean`).
Model: `Sqio/Model.lean`; every `buf[i]` goes through `Ascii.bufGet` (`none` = outside the buffer = `Status.fault`), every
store into the `ESL_SQ` checks the allocation the C code made; so "never touches memory outside its objects" is
"`Status.fault` is not an outcome".

Full statement (DESIGN §5 C02): for every byte string, format selection, text/digital mode, read call and block size `B`, the
outcome is `ok rec | eof | eformat` (message + line number), `fault`/exception unreachable, every returned record well formed.
Proved here for every byte string and every `B ≥ 1` (block mode, FASTA-family input maps): the block loader keeps its window
inside the file and inside `mem` (`loadbuf_total`), `nextchar` — the only primitive of the header parsers — never faults and
never skips or repeats a byte (`nextchar_total`), `seebuf` — the residue scanner of all five read calls — never faults, never
leaves the buffer and rejects every byte ≥ 0x80 before it is used as an index (`seebuf_total`), and the two input maps that
`seebuf` and the digital `addbuf` use classify every symbol consistently (`inmaps_agree`, re-checked against the regenerated
tables on every run). NOT proved (named here, tied by the differential run + sanitizer build + record monitor): the composition
of these primitives through `header_fasta` / `read_nres` / `sqascii_Read*` (fuel-bounded loops in the model), the line-based
formats, the guessers and the alignment-as-sequences branch. -/
namespace EaselModel.Props.C02
open EaselModel.Sqio EaselModel.Sqio.Refine EaselModel.Sqio.NoFault

/-- after open / Position (nothing buffered): one `fread`; the handle is well formed, the cursor is at the file position, and
    the status is `eslEOF` exactly at the end of the file — for every file, position and `B ≥ 1` -/
theorem loadbuf_total (a : Ascii) (h : Pre a) :
    WF (loadbuf a).1 ∧ (loadbuf a).1.bpos = 0 ∧ (loadbuf a).1.file = a.file ∧ (loadbuf a).1.B = a.B ∧ pos (loadbuf a).1 = a.fpos ∧
    ((loadbuf a).2 = .ok ∧ 0 < (loadbuf a).1.nc ∧ a.fpos < a.file.size ∨
     (loadbuf a).2 = .eof ∧ (loadbuf a).1.nc = 0 ∧ a.fpos = a.file.size) := loadbuf_wf a h

/-- `nextchar` never faults: it returns `eslOK` with the next byte of the *file* (block boundaries are invisible), or `eslEOF`
    exactly when the cursor was on the last byte; the handle stays well formed. For every `B ≥ 1`. -/
theorem nextchar_total (a : Ascii) (c : UInt8) (h : WF a) (hb : a.bpos < a.nc) :
    WF (nextchar a c).1 ∧ (nextchar a c).1.file = a.file ∧ (nextchar a c).1.B = a.B ∧
    (((nextchar a c).2.1 = .ok ∧ (nextchar a c).1.bpos < (nextchar a c).1.nc ∧ pos (nextchar a c).1 = pos a + 1 ∧
        a.file[(pos a + 1).toNat]? = some (nextchar a c).2.2) ∨
     ((nextchar a c).2.1 = .eof ∧ (nextchar a c).2.2 = c ∧ pos a + 1 = a.file.size ∧ (nextchar a c).1.nc = 0 ∧
        (nextchar a c).1.bpos = 0 ∧ pos (nextchar a c).1 = pos a + 1)) := nextchar_refines a c h hb

/-- in particular `fault` is not an outcome of `nextchar` -/
theorem nextchar_no_fault (a : Ascii) (c : UInt8) (h : WF a) (hb : a.bpos < a.nc) : (nextchar a c).2.1 ≠ .fault := by
  rcases (nextchar_refines a c h hb).2.2.2 with h1 | h1 <;> simp [h1.1]

/-- `seebuf` (any residue limit): never a fault, the reported end position lies inside the buffer, the handle stays well formed;
    only bookkeeping (line geometry, line number, error flag) changes -/
theorem seebuf_total (a : Ascii) (h : WF a) (hm : a.inmap.size = 128) (maxn : Option Nat) :
    (seebuf a maxn).2.st ≠ .fault ∧ a.bpos ≤ (seebuf a maxn).2.endpos ∧ (seebuf a maxn).2.endpos ≤ a.nc ∧
    WF (seebuf a maxn).1 ∧ (seebuf a maxn).1.bpos = a.bpos ∧ (seebuf a maxn).1.nc = a.nc ∧ (seebuf a maxn).1.boff = a.boff ∧
    (seebuf a maxn).1.file = a.file := seebuf_safe a h hm maxn

/-- the input maps `seebuf` (file map) and digital `addbuf` (alphabet map) agree on what a residue is, for DNA, RNA and amino;
    and the file maps have 128 entries (so every validated byte is a valid index) -/
theorem inmaps_agree :
    ∀ abc ∈ [1, 2, 3], ∀ c : Fin 128,
      ((inmapFasta abc).getD c.val 0 ≤ 127 → (abcInmap abc).getD c.val 255 ≤ 127) ∧
      (((inmapFasta abc).getD c.val 0 = Tables.dsqIgnored ∨ (inmapFasta abc).getD c.val 0 = Tables.dsqEol) → (abcInmap abc).getD c.val 0 > 127) ∧
      (inmapFasta abc).size = 128 := tables_residue_class_agree

/-- non-vacuity: the state right after opening a 5-byte file with B = 2 satisfies `Pre`, and after `loadbuf` the cursor is on a byte -/
example : Pre { file := #[62, 97, 10, 65, 10], B := 2 } := ⟨rfl, by decide, by decide, by decide, by decide⟩
example : (loadbuf { file := #[62, 97, 10, 65, 10], B := 2 }).2 = .ok ∧ (loadbuf { file := #[62, 97, 10, 65, 10], B := 2 }).1.nc = 2 := by decide

end EaselModel.Props.C02
