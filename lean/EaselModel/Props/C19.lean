import EaselModel.Containers.KeyhashLemmas
import EaselModel.Containers.KeyhashBounds
import EaselModel.Containers.KeyhashInt32
import EaselModel.Containers.KeyhashReuse
import EaselModel.Containers.KeyhashGrowthVariant
import EaselModel.Containers.KeyhashApiLemmas
import EaselModel.Containers.KeyhashFixedLemmas
import EaselModel.Containers.HeapLemmas
import EaselModel.Containers.HeapHistory
import EaselModel.Containers.RedBlackLemmas
import EaselModel.Containers.RedBlackPtrLemmas
import EaselModel.Containers.RedBlackPtrInsert
import EaselModel.Containers.RedBlackPtrHistory
import EaselModel.Containers.RedBlackPtrPool
import EaselModel.Containers.StackLemmas
import EaselModel.Containers.StackHistory
import EaselModel.Containers.StackThreadsLemmas
import EaselModel.Containers.StackThreadsTerm
import EaselModel.Containers.QuicksortLemmas
import EaselModel.Containers.AllocBounds
import EaselModel.Containers.Extras
/-! # C19 — key tables, heaps, trees, stacks and index sorts behave as their abstract types

Statements + glue only; the lemmas live in `EaselModel/Containers/*Lemmas.lean`. Every theorem quantifies over all
histories / inputs / generator states; none is bounded. In all models `none` (resp. `.fault`, `.nofuel`) is the outcome
"out-of-bounds access, `esl_fatal`, or a loop that does not end": a conclusion `… = some …` therefore also says that
these do not happen. -/
namespace EaselModel.Props.C19
open EaselModel.Containers

/-! ## Key hash

Full statement (properties.jsonl): for every history and every initial table size the key hash behaves as the
insertion-ordered map from *arbitrary* byte strings to 0,1,2,… .  That statement is FALSE for the code as written
when a key stored by explicit length contains a NUL byte (`keyhash_embedded_nul_counterexample`, known finding
`C19:keyhash:embedded-nul`).  Proved: the statement for NUL-free keys (`_partial`), for every hash function into
`[0, size)`, every initial `hashsize/kalloc/salloc > 0` (a power of two is not needed), across every growth, `Reuse`, `Clone`. -/
section Keyhash
open Keyhash

/-- the key hash refines the insertion-ordered list of distinct keys: same outputs for every history
    (`stored dup idx` / `found idx` / `notfound` / `key k` / `num n`), and it faults exactly when the abstract type
    is undefined (`Get` of an index that was never assigned). -/
theorem keyhash_refines_partial (H : Key → Nat → Nat) (hH : HashOK H) (size kalloc salloc : Nat)
    (h1 : 0 < size) (h2 : 0 < kalloc) (h3 : 0 < salloc) (ops : List Op) (hnul : ∀ op ∈ ops, op.NulFree) :
    run H (create size kalloc salloc) ops = specRun [] ops :=
  run_spec hH ops _ [] (inv_create H size kalloc salloc h1 h2 h3) hnul

/-- no out-of-bounds access, no endless chain walk, whatever the history (histories without `Get`, whose index
    precondition is the caller's; with `Get`s of assigned indices the same follows from `keyhash_refines_partial`) -/
theorem keyhash_never_faults_partial (H : Key → Nat → Nat) (hH : HashOK H) (size kalloc salloc : Nat)
    (h1 : 0 < size) (h2 : 0 < kalloc) (h3 : 0 < salloc) (ops : List Op) (hnul : ∀ op ∈ ops, op.NulFree)
    (hget : ∀ op ∈ ops, ∀ i, op ≠ .get i) :
    (run H (create size kalloc salloc) ops).isSome = true := by
  rw [keyhash_refines_partial H hH size kalloc salloc h1 h2 h3 ops hnul]
  exact specRun_isSome_of_no_get ops [] hget

/-- FULL statement for the C-string API (`n = -1`: `storeStr`, `lookupStr`; any argument bytes, read up to the first NUL):
    no hypothesis on the keys is needed — the restriction only concerns keys passed by explicit length -/
theorem keyhash_refines_cstrings (H : Key → Nat → Nat) (hH : HashOK H) (size kalloc salloc : Nat)
    (h1 : 0 < size) (h2 : 0 < kalloc) (h3 : 0 < salloc) (ops : List Op)
    (hstr : ∀ op ∈ ops, ∀ k, op ≠ .store k ∧ op ≠ .lookup k) :
    run H (create size kalloc salloc) ops = specRun [] ops := by
  apply keyhash_refines_partial H hH size kalloc salloc h1 h2 h3 ops
  intro op hop
  cases op with
  | store k => exact absurd rfl (hstr _ hop k).1
  | lookup k => exact absurd rfl (hstr _ hop k).2
  | _ => trivial

/-- THE COMPLETE PUBLIC API IN ONE HISTORY: `Store`/`Lookup` with `n = -1` on arbitrary bytes (read up to the first NUL),
    `Store` by explicit length of NUL-free keys, `Lookup` by explicit length of ARBITRARY bytes (embedded NULs included),
    `Get`, `GetNumber`, `Reuse`, `Clone`, mixed in any order. The embedded-NUL finding affects exactly one kind of call:
    a `Store` by explicit length whose key contains a NUL (and whatever follows it in that history); everything else
    refines the insertion-ordered map. -/
theorem keyhash_refines_mixed (H : Key → Nat → Nat) (hH : HashOK H) (size kalloc salloc : Nat)
    (h1 : 0 < size) (h2 : 0 < kalloc) (h3 : 0 < salloc) (ops : List Op) (hst : ∀ op ∈ ops, op.StoreNulFree) :
    run H (create size kalloc salloc) ops = specRun [] ops :=
  run_spec_mixed hH ops _ [] (inv_create H size kalloc salloc h1 h2 h3) hst

/-- … and the first offending `Store` itself still ANSWERS as the abstract type does (new key, next index) whenever it
    returns; its damage is to the state: the arena then holds a string that reads back as a proper prefix of the key
    (`keyhash_embedded_nul_counterexample` shows the next answers going wrong) -/
theorem keyhash_nul_store_answer (H : Key → Nat → Nat) (hH : HashOK H) (kh : KH) (keys : List Key) (hi : Inv H kh keys)
    (key : Key) (h0 : (0 : UInt8) ∈ key) (r : KH × Status × Nat) (hr : store H kh key = some r) :
    key ∉ keys ∧ r.2 = (.ok, keys.length) := store_nul_answer hi hH key h0 r hr

/-- the `n = -1` code paths AS WRITTEN — `jenkins_hash`'s string loop, `strlen`, the `strcmp` chain walk of `Lookup` — are
    the buffer paths applied to the bytes before the first NUL (so `storeStr`/`lookupStr` above are the C-string calls) -/
theorem keyhash_string_paths (kh : KH) (k : Key) :
    lookupStrC jenkinsStr kh k = lookup jenkins kh (cstrOf k) ∧
    storeStrC jenkinsStr jenkins kh k = store jenkins kh (cstrOf k) ∧
    (∀ sz, jenkinsStr k sz = jenkins (cstrOf k) sz) ∧ strlen k = (cstrOf k).length ∧
    (∀ m pos, strcmpAt k m pos = memstrcmpAt (cstrOf k) m pos) :=
  ⟨lookupStrC_jenkins kh k, storeStrC_jenkins kh k, jenkinsStr_eq k, strlen_eq k, strcmpAt_eq k⟩

/-- `esl_keyhash_Dump` (and with it `GetNumber`, `Sizeof`, which only read fields) on every reachable table: all its chain
    walks end, no index is out of bounds; it reports the abstract key count and arena use Σ(len+1) -/
theorem keyhash_dump (H : Key → Nat → Nat) (kh : KH) (keys : List Key) (hi : Inv H kh keys) :
    ∃ d, dump kh = some d ∧ d.nkeys = keys.length ∧ d.hashsize = kh.hashsize ∧
      d.sn = (keys.map (fun k => k.length + 1)).sum := dump_spec hi

-- non-vacuity: a mixed history with a by-length lookup of a NUL-containing key, in a table of 3 slots (not a power of two)
example : run jenkins (create 3 1 1)
    [.store [0x61, 0x62], .storeStr [0x61, 0x62, 0, 9], .lookup [0x61, 0, 0x62], .lookup [0x61, 0x62, 0], .lookupStr [0x61, 0x62, 0, 7],
     .store [1], .store [2], .store [3], .store [4], .store [5], .store [6], .store [7], .store [8], .store [9], .lookup [9], .number]
    = some [.stored false 0, .stored true 0, .notfound, .notfound, .found 0,
            .stored false 1, .stored false 2, .stored false 3, .stored false 4, .stored false 5, .stored false 6, .stored false 7,
            .stored false 8, .stored false 9, .found 9, .num 10] := by decide +kernel
example : Op.StoreNulFree (.lookup [0x61, 0, 0x62]) := trivial
example : (dump (create 3 1 1)).map (fun d => (d.nempty, d.maxkeys, d.minkeys)) = some (3, 0, 0) := by decide

/-- the two APIs agree on NUL-free keys -/
theorem keyhash_cstr_of_nulfree (k : Key) (h : (0 : UInt8) ∉ k) : cstrOf k = k := cstrOf_eq_self k h

/-- … in particular with Jenkins' one-at-a-time hash as written in `jenkins_hash` (signed `char` arithmetic) -/
theorem keyhash_refines_jenkins_partial (size kalloc salloc : Nat) (h1 : 0 < size) (h2 : 0 < kalloc) (h3 : 0 < salloc)
    (ops : List Op) (hnul : ∀ op ∈ ops, op.NulFree) :
    run jenkins (create size kalloc salloc) ops = specRun [] ops :=
  keyhash_refines_partial jenkins jenkins_ok size kalloc salloc h1 h2 h3 ops hnul

/-- what the abstract type answers, spelled out: new key ↦ next index, known key ↦ duplicate + original index -/
theorem spec_store (keys : List Key) (k : Key) :
    specStep keys (.store k) =
      if k ∈ keys then some (keys, .stored true (keys.idxOf k)) else some (keys ++ [k], .stored false keys.length) := rfl

theorem spec_lookup (keys : List Key) (k : Key) :
    specStep keys (.lookup k) = if k ∈ keys then some (keys, .found (keys.idxOf k)) else some (keys, .notfound) := rfl

theorem spec_get (keys : List Key) (i : Nat) : specStep keys (.get i) = (keys[i]?).map fun k => (keys, .key k) := rfl

/-- per-operation form on any state related to an abstract key list by the invariant (which `create` establishes and
    every operation preserves, including the 8-fold `key_upsize`, `Reuse`, `Clone`) -/
theorem keyhash_ops_partial (H : Key → Nat → Nat) (hH : HashOK H) (kh : KH) (keys : List Key) (hi : Inv H kh keys)
    (key : Key) (h0 : (0 : UInt8) ∉ key) :
    (key ∈ keys → store H kh key = some (kh, .edup, keys.idxOf key)) ∧
    (key ∉ keys → ∃ kh', store H kh key = some (kh', .ok, keys.length) ∧ Inv H kh' (keys ++ [key])) ∧
    lookup H kh key = some (if key ∈ keys then (.ok, keys.idxOf key) else (.enotfound, 0)) ∧
    (∀ i, get kh i = keys[i]?) ∧ Inv H (reuse kh) [] ∧ Inv H (clone kh) keys :=
  ⟨(store_spec hi hH key h0).1, (store_spec hi hH key h0).2, lookup_spec hi hH key, get_spec hi, reuse_inv hi, clone_inv hi⟩

/-- the table growth alone: `key_upsize` succeeds and keeps the abstract content -/
theorem keyhash_upsize (H : Key → Nat → Nat) (hH : HashOK H) (kh : KH) (keys : List Key) (hi : Inv H kh keys) :
    ∃ kh', upsize H kh = some kh' ∧ Inv H kh' keys := upsize_spec hi hH

/-- the model computes in `Nat`; the C fields are `int` / `uint32_t`. For every history during which the table never
    holds more than `2^30-1` keys nor more than `2^30-1` arena bytes (Σ (length+1)) — a condition on the ABSTRACT content —
    every reachable state has `salloc, kalloc, hashsize ≤ 2^31-1` and `nkeys, sn ≤ 2^30-1`: none of `kalloc *= 2`,
    `salloc *= 2`, `sn += n+1`, `hashsize << 3`, `3*hashsize` can overflow, so the `Nat` model is the C arithmetic there. -/
theorem keyhash_fields_in_range_partial (H : Key → Nat → Nat) (hH : HashOK H) (size kalloc salloc : Nat)
    (h1 : 0 < size) (h2 : 0 < kalloc) (h3 : 0 < salloc) (hle : salloc ≤ M31 ∧ kalloc ≤ M31 ∧ size ≤ M31)
    (ops : List Op) (hnul : ∀ op ∈ ops, op.NulFree) (hfit : FitsRun [] ops)
    (kh' : KH) (h : finalKh H (create size kalloc salloc) ops = some kh') :
    Within kh' ∧ kh'.nkeys ≤ B30 ∧ kh'.smem.size ≤ B30 :=
  run_within hH ops _ [] (inv_create H size kalloc salloc h1 h2 h3) hnul hle hfit kh' h

example : FitsRun [] [.store [1, 2], .lookup [3], .reuse] := by
  simp [FitsRun, Fits, specStep, B30]

theorem jenkins_in_range : HashOK jenkins := jenkins_ok

/-- counter-example to the full statement at the witness of the known finding: `"a\0b"` stored by length (n=3) twice
    gets two indices and is not found afterwards (for Jenkins, and for any other hash: here also the constant one) -/
theorem keyhash_embedded_nul_counterexample :
    run jenkins (create 2 1 1) [.store [0x61, 0, 0x62], .store [0x61, 0, 0x62], .lookup [0x61, 0, 0x62]]
        = some [.stored false 0, .stored false 1, .notfound] ∧
    specRun [] [.store [0x61, 0, 0x62], .store [0x61, 0, 0x62], .lookup [0x61, 0, 0x62]]
        = some [.stored false 0, .stored true 0, .found 0] ∧
    run (fun _ _ => 0) (create 2 1 1) [.store [0x61, 0, 0x62], .store [0x61, 0, 0x62], .lookup [0x61, 0, 0x62]]
        = some [.stored false 0, .stored false 1, .notfound] := by
  refine ⟨by decide +kernel, by decide, by decide⟩

-- non-vacuity: a NUL-free history through a tiny table that grows (1 → 8 slots at the 4th key), with a duplicate,
-- an absent key, Reuse and Clone
example : run jenkins (create 1 1 1)
    [.store [1], .store [2], .store [1], .store [3], .store [4], .lookup [3], .lookup [9], .get 3, .clone, .store [4], .reuse, .store [4], .number]
    = some [.stored false 0, .stored false 1, .stored true 0, .stored false 2, .stored false 3, .found 2, .notfound, .key [4], .done,
            .stored true 3, .done, .stored false 0, .num 1] := by decide +kernel
example : Op.NulFree (.store [1, 2]) := by simp [Op.NulFree]
example : run jenkins (create 1 1 1) [.storeStr [7, 0, 9], .lookupStr [7], .lookupStr [7, 0, 1], .storeStr [7], .get 0]
    = some [.stored false 0, .found 0, .found 0, .stored true 0, .key [7]] := by decide +kernel
example : HashOK (fun _ _ => 0) := fun _ _ h => h
end Keyhash

/-! ## Key hash after the repair of `C19:keyhash:embedded-nul` (`KeyhashFixed.lean`: stored keys delimited by their
offsets — `key_length()`, `key_matches()` — in `Store`, `Lookup` and the re-hash of `key_upsize`)

Which variant the working tree contains is regenerated on every run (`KeyhashVariant.repaired`); the driver runs the matching
model against the code. For the repaired code the FULL statement of the property holds: no hypothesis on the key bytes. -/
section KeyhashRepaired
open Keyhash

/-- FULL STATEMENT: for ANY hash function into `[0, size)`, any initial sizes `> 0`, ANY history over ARBITRARY byte strings
    (embedded NULs, stored by length or as C strings, in any mixture) the table answers exactly as the insertion-ordered list
    of distinct keys — new key ↦ next index, known key ↦ duplicate + original index, lookup ↦ index / not found, `Get i` ↦ the
    i-th key, `Reuse`, `Clone` — across every 8-fold growth and both reallocations, with no out-of-bounds access and no
    endless chain walk (`none`), and it is undefined exactly where the abstract type is (`Get` of an unassigned index). -/
theorem keyhash_refines (H : Key → Nat → Nat) (hH : HashOK H) (size kalloc salloc : Nat)
    (h1 : 0 < size) (h2 : 0 < kalloc) (h3 : 0 < salloc) (ops : List Op) :
    runF H (create size kalloc salloc) ops = specRun [] ops :=
  runF_spec hH ops _ [] (invF_create H size kalloc salloc h1 h2 h3)

theorem keyhash_never_faults (H : Key → Nat → Nat) (hH : HashOK H) (size kalloc salloc : Nat)
    (h1 : 0 < size) (h2 : 0 < kalloc) (h3 : 0 < salloc) (ops : List Op) (hget : ∀ op ∈ ops, ∀ i, op ≠ .get i) :
    (runF H (create size kalloc salloc) ops).isSome = true := by
  rw [keyhash_refines H hH size kalloc salloc h1 h2 h3 ops]
  exact specRun_isSome_of_no_get ops [] hget

theorem keyhash_refines_jenkins (size kalloc salloc : Nat) (h1 : 0 < size) (h2 : 0 < kalloc) (h3 : 0 < salloc) (ops : List Op) :
    runF jenkins (create size kalloc salloc) ops = specRun [] ops :=
  keyhash_refines jenkins jenkins_ok size kalloc salloc h1 h2 h3 ops

/-- per operation, on any state related to an abstract key list by the invariant `InvF` (arena = the keys, each followed
    by one NUL; `key_offset[i]` = where key `i` starts; chains = buckets) — ANY key bytes -/
theorem keyhash_ops (H : Key → Nat → Nat) (hH : HashOK H) (kh : KH) (keys : List Key) (hi : InvF H kh keys) (key : Key) :
    (key ∈ keys → storeF H kh key = some (kh, .edup, keys.idxOf key)) ∧
    (key ∉ keys → ∃ kh', storeF H kh key = some (kh', .ok, keys.length) ∧ InvF H kh' (keys ++ [key])) ∧
    lookupF H kh key = some (if key ∈ keys then (.ok, keys.idxOf key) else (.enotfound, 0)) ∧
    (∀ i, getF kh i = keys[i]?) ∧ InvF H (reuse kh) [] ∧ InvF H (clone kh) keys ∧
    (∃ kh', upsizeF H kh = some kh' ∧ InvF H kh' keys) := by
  refine ⟨(storeF_spec_full hi hH key).1, fun hm => ?_, lookupF_spec hi hH key, getF_spec hi, reuse_invF hi, clone_invF hi,
    upsizeF_spec hi hH⟩
  obtain ⟨kh', a, b, _⟩ := (storeF_spec_full hi hH key).2 hm
  exact ⟨kh', a, b⟩

/-- `key_length(kh, i)` is the length of key `i`, `key_matches` is equality of byte strings, and the bytes `key_upsize`
    re-hashes are the key — on every reachable table -/
theorem keyhash_key_length (H : Key → Nat → Nat) (kh : KH) (keys : List Key) (hi : InvF H kh keys) (i : Nat) (k : Key)
    (hk : keys[i]? = some k) :
    keyLen kh i = some (offOf keys i, (k.length : Int)) ∧ (∀ key, keyMatches kh i key = some (decide (key = k))) ∧
    keyBytes kh i = some k ∧ offOf keys i + k.length + 1 ≤ kh.smem.size := by
  refine ⟨keyLen_inv hi.arenaOK i k hk, keyMatches_inv hi.arenaOK i k hk, keyBytes_inv hi.arenaOK i k hk, ?_⟩
  have := offOf_bound keys i k hk
  have hsz : kh.smem.size = (flat keys).length := by rw [← hi.arena]; simp
  omega

/-- `esl_keyhash_Get(kh, i)` for an assigned index, read as a C string by a caller who does not know the length: the read
    stays inside the key's own `length + 1` arena bytes and yields the key up to its first NUL (the whole key iff NUL-free);
    an index that was never assigned is outside the function's contract (`none`) -/
theorem keyhash_get_cstring (H : Key → Nat → Nat) (kh : KH) (keys : List Key) (hi : InvF H kh keys) (i : Nat) :
    get kh i = (keys[i]?).map cstrOf := get_cstr_spec hi i

/-- the `n = -1` calls of the repaired code as written (string hash loop, `n = strlen(key)`, then the buffer code) are the
    buffer calls on the bytes before the first NUL -/
theorem keyhash_string_paths_repaired (kh : KH) (k : Key) :
    lookupStrCF jenkinsStr kh k = lookupF jenkins kh (cstrOf k) ∧
    storeStrCF jenkinsStr jenkins kh k = storeF jenkins kh (cstrOf k) :=
  ⟨lookupStrCF_eq jenkins jenkinsStr jenkinsStr_eq kh k, storeStrCF_eq jenkins jenkinsStr jenkinsStr_eq kh k⟩

theorem keyhash_dump_repaired (H : Key → Nat → Nat) (kh : KH) (keys : List Key) (hi : InvF H kh keys) :
    ∃ d, dump kh = some d ∧ d.nkeys = keys.length ∧ d.hashsize = kh.hashsize ∧
      d.sn = (keys.map (fun k => k.length + 1)).sum := dumpF_spec hi

/-- no `int` / `uint32_t` overflow while the ABSTRACT content stays below 2^30 keys / arena bytes — any key bytes -/
theorem keyhash_fields_in_range (H : Key → Nat → Nat) (hH : HashOK H) (size kalloc salloc : Nat)
    (h1 : 0 < size) (h2 : 0 < kalloc) (h3 : 0 < salloc) (hle : salloc ≤ M31 ∧ kalloc ≤ M31 ∧ size ≤ M31)
    (ops : List Op) (hfit : FitsRun [] ops) (kh' : KH) (h : finalKhF H (create size kalloc salloc) ops = some kh') :
    Within kh' ∧ kh'.nkeys ≤ B30 ∧ kh'.smem.size ≤ B30 :=
  runF_within hH ops _ [] (invF_create H size kalloc salloc h1 h2 h3) hle hfit kh' h

/-- the witness of the former finding, on the repaired code: `"a\0b"` stored by length twice is one key, found again (also
    after the growth 2 → 16 slots re-hashed it), distinct from `"a"` and from `"a\0c"`; its C-string view is `"a"` -/
theorem keyhash_embedded_nul_repaired :
    runF jenkins (create 2 1 1)
      [.store [0x61, 0, 0x62], .store [0x61, 0, 0x62], .lookup [0x61, 0, 0x62], .lookupStr [0x61], .store [0x61, 0, 0x63], .store [0x61],
       .store [1], .store [2], .store [3], .store [4], .lookup [0x61, 0, 0x62], .lookup [0x61, 0, 0x63], .lookupStr [0x61, 0, 0x62], .get 0]
    = some [.stored false 0, .stored true 0, .found 0, .notfound, .stored false 1, .stored false 2,
            .stored false 3, .stored false 4, .stored false 5, .stored false 6, .found 0, .found 1, .found 2, .key [0x61, 0, 0x62]] ∧
    (finalKhF jenkins (create 2 1 1) [.store [0x61, 0, 0x62], .store [1], .store [2], .store [3], .store [4], .store [5], .store [6]]).map
      (fun kh => (kh.hashsize, get kh 0)) = some (16, some [0x61]) := by
  refine ⟨by decide +kernel, by decide +kernel⟩

example : InvF jenkins (create 3 1 1) [] := invF_create _ _ _ _ (by decide) (by decide) (by decide)
end KeyhashRepaired

/-! ## Integer heap -/
section HeapS
open Heap

/-- `esl_heap_IInsert` on a valid heap: no fault, still a valid heap (heap order, `n ≤ nalloc`), multiset + the value -/
theorem heap_insert (h : Heap.Heap) (v : Int) (hi : Heap.Inv h) :
    ∃ h', insert h v = some h' ∧ Heap.Inv h' ∧ h'.isMax = h.isMax ∧ h'.data.toList.Perm (v :: h.data.toList) :=
  insert_spec h v hi

/-- `esl_heap_IExtractTop` on a non-empty valid heap: returns an element no other element is better than (the minimum,
    resp. maximum), removes exactly it, leaves a valid heap; on an empty heap: `eslEOD`, value 0 -/
theorem heap_extract (h : Heap.Heap) (hi : Heap.Inv h) :
    (h.data.size = 0 → extractTop h = some (h, false, 0)) ∧
    (0 < h.data.size → ∃ h' v, extractTop h = some (h', true, v) ∧ Heap.Inv h' ∧ h'.isMax = h.isMax ∧
        (v :: h'.data.toList).Perm h.data.toList ∧ (∀ x ∈ h.data.toList, ¬ better h.isMax x v = true)) :=
  ⟨extractTop_empty h, extractTop_spec h hi⟩

/-- `esl_heap_IExtractTop(hp, NULL)` (delete the top value without retrieving it): on a non-empty valid heap it deletes
    exactly a best element; on an empty heap it returns `eslEOD` and leaves the heap alone (no store through NULL) -/
theorem heap_extract_null (h : Heap.Heap) (hi : Heap.Inv h) :
    (h.data.size = 0 → extractTopNull h = some (h, false)) ∧
    (0 < h.data.size → ∃ h' v, extractTopNull h = some (h', true) ∧ Heap.Inv h' ∧ h'.isMax = h.isMax ∧
      (v :: h'.data.toList).Perm h.data.toList ∧ (∀ x ∈ h.data.toList, ¬ better h.isMax x v = true)) := by
  constructor
  · intro he
    simp [extractTopNull, extractTop_empty h he]
  · intro hne
    obtain ⟨h', v, h1, h2, h3, h4, h5⟩ := extractTop_spec h hi hne
    exact ⟨h', v, by simp [extractTopNull, h1], h2, h3, h4, h5⟩

/-- regression: the code before the fix (`*opt_val = 0` with `opt_val == NULL` in the empty-heap branch) faults -/
theorem heap_extract_null_unguarded_faults (isMax : Bool) : extractTopNullUnguarded (create isMax) = none := by
  simp [extractTopNullUnguarded, create]

/-- FOR EVERY HISTORY (any interleaving of insertions, extractions with or without a result pointer, peeks, counts,
    reuse), min and max heaps: no fault, and every answer is the one of the abstract priority queue (the multiset kept as
    a best-first sorted list: extraction returns its head, i.e. the minimum resp. maximum of what is currently inside) -/
theorem heap_history (isMax : Bool) (ops : List HOp) : runH (create isMax) ops = some (specRunH isMax [] ops) :=
  heap_history_refines isMax ops

/-- extracting everything yields the sorted multiset of what was inserted (min-heap: ascending, max-heap: descending),
    for every input list (duplicates, sorted, reverse sorted, …) -/
theorem heap_sorts (isMax : Bool) (vs : List Int) :
    ∃ h l, insertAll (create isMax) vs = some h ∧ drain h.data.size h = some l ∧ l.Perm vs ∧
      (if isMax then l.Pairwise (· ≥ ·) else l.Pairwise (· ≤ ·)) := by
  obtain ⟨h, l, h1, h2, h3, h4⟩ := heapsort_spec isMax vs
  refine ⟨h, l, h1, h2, h3, ?_⟩
  cases isMax
  · simpa using (sortedBy_min l).mp h4
  · simpa using (sortedBy_max l).mp h4

/-- DUPLICATE VALUES are kept with their multiplicity: `n` insertions of the same value come out as `n` copies
    (and mixed with other values each multiplicity is preserved: `l.Perm vs` in `heap_sorts`, the multiset in `heap_history`) -/
theorem heap_duplicates (isMax : Bool) (v : Int) (n : Nat) :
    ∃ h l, insertAll (create isMax) (List.replicate n v) = some h ∧ drain h.data.size h = some l ∧ l = List.replicate n v := by
  obtain ⟨h, l, h1, h2, h3, _⟩ := heapsort_spec isMax (List.replicate n v)
  exact ⟨h, l, h1, h2, List.perm_replicate.mp h3⟩

/-- … from any valid heap state (any interleaving of inserts and extractions before) -/
theorem heap_drain (h : Heap.Heap) (hi : Heap.Inv h) :
    ∃ l, drain h.data.size h = some l ∧ l.Perm h.data.toList ∧ SortedBy h.isMax l := drain_spec h hi

/-- the `int nalloc` of a heap is the initial 128 or at most twice the largest element count: no overflow of
    `nalloc*2` as long as the heap holds fewer than 2^30 elements -/
theorem heap_nalloc_in_range (h h' : Heap.Heap) (v : Int) (B : Nat) (hi : insert h v = some h')
    (hs : h.data.size ≤ B) (hn : h.nalloc ≤ max 128 (2 * B)) : h'.nalloc ≤ max 128 (2 * B) :=
  Heap.insert_nalloc_le h h' v B hi hs hn

/-- `heap_grow` (the doubling reallocation) preserves the heap: same cells, same order, same direction, the invariant
    holds with the doubled `nalloc`, and the cell the pending insertion writes (`idata[n]`) is inside the new allocation;
    `IInsert` on a full heap is exactly `heap_grow` followed by the insertion, and `nalloc` changes at no other time -/
theorem heap_grow (h : Heap.Heap) (hi : Heap.Inv h) :
    Heap.Inv (grow h) ∧ (grow h).data = h.data ∧ (grow h).isMax = h.isMax ∧ (grow h).nalloc = 2 * h.nalloc ∧
      h.data.size < (grow h).nalloc ∧
    (∀ v, h.data.size = h.nalloc → insert h v = insert (grow h) v) ∧
    (∀ v h', insert h v = some h' → h'.nalloc = if h.data.size = h.nalloc then 2 * h.nalloc else h.nalloc) := by
  obtain ⟨a, b, c, d, e⟩ := grow_inv h hi
  exact ⟨a, b, c, d, e, fun v hf => insert_full_eq h v hi hf, fun v h' hh => insert_nalloc h h' v hh⟩

/-- `esl_heap_Validate` accepts exactly the heap-ordered arrays -/
theorem heap_validate (h : Heap.Heap) :
    validate h = true ↔ (∀ i, 0 < i → i < h.data.size → ¬ better h.isMax (h.data[i]!) (h.data[parent i]!) = true) :=
  validate_iff h

example : Heap.Inv (create true) := inv_create true
example : (insertAll (create false) [5, 3, 8, 1, 9, 2, 3]).bind (fun h => drain h.data.size h) = some [1, 2, 3, 3, 5, 8, 9] := by
  decide +kernel
end HeapS


/-! ### at the bound: the `int` / `uint32_t` arithmetic of `esl_keyhash_Store` and `key_upsize` as C computes it

`keyhash_fields_in_range` excludes overflow BELOW `2^30 - 1` keys / arena bytes. Here the growth code is modelled in the C
types (`Keyhash.growC`, `doubleC`: `int`; `upsize_*`: `uint32_t`), for both variants of the code: `g = false` is the doubling
as written (`kh->salloc *= 2`), `g = true` the one guarded by `if (kh->salloc > INT_MAX/2) ESL_XEXCEPTION(eslEMEM, …)`. -/
section KeyhashAtBound
open Keyhash

/-- the arena growth loop, every start value `0 < salloc ≤ INT_MAX` and every need: EITHER a doubling `salloc·2^k ≤ INT_MAX`
    covers the need — then the loop ends at the least such doubling, no overflow, exactly where the `Nat` model ends — OR the loop
    reaches the last representable doubling (still `< need`) and executes `salloc *= 2` there: signed `int` overflow in the code
    as written (undefined behaviour; NOT the documented `eslEMEM`), `eslEMEM` with `salloc` unchanged in the guarded code -/
theorem keyhash_at_bound (g : Bool) (need s : Nat) (h0 : 0 < s) (h1 : s ≤ INT_MAX) :
    (∃ k, growC g need 32 s = .ok (s * 2 ^ k) ∧ growTo need 32 s = some (s * 2 ^ k) ∧ need ≤ s * 2 ^ k ∧ s * 2 ^ k ≤ INT_MAX ∧
      ∀ j, j < k → s * 2 ^ j < need) ∨
    (∃ k, growC g need 32 s = (if g then .emem (s * 2 ^ k) else .overflow (s * 2 ^ k)) ∧ s * 2 ^ k < need ∧
      s * 2 ^ k ≤ INT_MAX ∧ INT_MAX < s * 2 ^ (k + 1)) := by
  have hbig : INT_MAX < s * 2 ^ 32 := by
    have : 2 ^ 32 ≤ s * 2 ^ 32 := Nat.le_mul_of_pos_left _ h0
    simp only [INT_MAX]; omega
  rcases growC_char g need 32 s h0 h1 hbig with ⟨k, e1, e2, e3, e4⟩ | h
  · exact Or.inl ⟨k, e1, growC_ok_model g need 32 s _ e1, e2, e3, e4⟩
  · exact Or.inr h

/-- no overflow and no throw whenever some representable doubling covers the need (for the default table, `salloc` =
    2048·2^k: whenever the arena needs at most `2^30` bytes) -/
theorem keyhash_below_bound (g : Bool) (need s : Nat) (h0 : 0 < s) (h1 : s ≤ INT_MAX)
    (hfit : ∃ k, need ≤ s * 2 ^ k ∧ s * 2 ^ k ≤ INT_MAX) :
    ∃ r, growC g need 32 s = .ok r ∧ growTo need 32 s = some r ∧ need ≤ r ∧ r ≤ INT_MAX := growC_ok_of_fits g need s h0 h1 hfit

/-- THE DEFECT AT THE BOUND (genuine, reachable with ~3 GiB; found by this modelling, repaired in the tree by 6d58328):
    the default table (`salloc` 2048) asked for one byte more than `2^30` arena bytes doubles 19 times and then executes
    `kh->salloc *= 2` with `salloc = 2^30` — signed overflow; the guarded code throws `eslEMEM` there -/
theorem keyhash_at_bound_default :
    growC false (2 ^ 30 + 1) 32 2048 = .overflow (2 ^ 30) ∧ growC true (2 ^ 30 + 1) 32 2048 = .emem (2 ^ 30) ∧
    growC false (2 ^ 30) 32 2048 = .ok (2 ^ 30) ∧ growC true (2 ^ 30) 32 2048 = .ok (2 ^ 30) := by decide

/-- the index arrays (`kalloc *= 2` when `nkeys == kalloc`): exact up to `kalloc = 2^30 - 1`; from `2^30` on signed overflow
    as written / `eslEMEM` guarded (needs 2^30 keys, i.e. ≥ 9 GiB: out of reach of the differential run, stated only) -/
theorem keyhash_kalloc_at_bound (g : Bool) (kalloc : Nat) :
    (kalloc * 2 ≤ INT_MAX → doubleC g kalloc = .ok (kalloc * 2)) ∧
    (INT_MAX < kalloc * 2 → doubleC g kalloc = if g then .emem kalloc else .overflow kalloc) := doubleC_char g kalloc

/-- `uint32_t` side: below the growth stop `3*hashsize` and `hashsize << 3` do not wrap (the `Nat` model's test and new size
    are the C ones; the new size stays `< 2^31`, so the `int` loop counter of `key_upsize` reaches it); at `hashsize ≥ 2^28`
    `key_upsize` returns `eslOK` without growing ("quasi-success"), so a wrapped comparison there changes nothing: the table
    keeps working with longer chains, which `keyhash_refines` covers (it holds for ANY table size) -/
theorem keyhash_hashsize_at_bound (h : UInt32) (hh : h.toNat < 2 ^ 28) (H : Key → Nat → Nat) (kh : KH) :
    (3 * h).toNat = 3 * h.toNat ∧ (h <<< 3).toNat = 8 * h.toNat ∧ 8 * h.toNat < 2 ^ 31 ∧
    (2 ^ 28 ≤ kh.hashsize → upsize H kh = some kh) :=
  ⟨upsize_trigger_exact h hh, (upsize_shift_exact h hh).1, (upsize_shift_exact h hh).2, upsize_stops H kh⟩


/-- THE TREE'S CODE: `Keyhash.growthGuarded` is regenerated from the working tree's `esl_keyhash_Store` on every run (`true` since
    6d58328: each doubling is preceded by `if (… > INT_MAX / 2) ESL_XEXCEPTION(eslEMEM, …)`). For the variant in the tree, every
    start value and every need: the arena loop ends at the least covering doubling exactly as the `Nat` model, or — no
    representable doubling covers the need — it stops at the last representable one with `eslEMEM` and `salloc` unchanged (guarded
    tree) / with a signed overflow (a tree without the guard); the same for the index arrays -/
theorem keyhash_growth_in_tree (need s : Nat) (h0 : 0 < s) (h1 : s ≤ INT_MAX) (kalloc : Nat) :
    ((∃ k, growC growthGuarded need 32 s = .ok (s * 2 ^ k) ∧ growTo need 32 s = some (s * 2 ^ k) ∧ need ≤ s * 2 ^ k ∧
        s * 2 ^ k ≤ INT_MAX ∧ ∀ j, j < k → s * 2 ^ j < need) ∨
     (∃ k, growC growthGuarded need 32 s = (if growthGuarded then .emem (s * 2 ^ k) else .overflow (s * 2 ^ k)) ∧ s * 2 ^ k < need ∧
        s * 2 ^ k ≤ INT_MAX ∧ INT_MAX < s * 2 ^ (k + 1))) ∧
    (kalloc * 2 ≤ INT_MAX → doubleC growthGuarded kalloc = .ok (kalloc * 2)) ∧
    (INT_MAX < kalloc * 2 → doubleC growthGuarded kalloc = if growthGuarded then .emem kalloc else .overflow kalloc) ∧
    (growthGuarded = true → ∀ r, growC growthGuarded need 32 s ≠ .overflow r ∧ doubleC growthGuarded kalloc ≠ .overflow r) :=
  ⟨keyhash_at_bound growthGuarded need s h0 h1, (doubleC_char growthGuarded kalloc).1, (doubleC_char growthGuarded kalloc).2,
    fun hg r => by rw [hg]; exact ⟨growC_guarded_no_overflow need 32 s r, doubleC_guarded_no_overflow kalloc r⟩⟩

/-- the guarded code (the one in the tree) never executes an overflowing doubling, for any start value, need and fuel: the
    outcome is a covering `salloc` or the documented `eslEMEM` -/
theorem keyhash_growth_guarded_never_overflows (need fuel s kalloc r : Nat) :
    growC true need fuel s ≠ .overflow r ∧ doubleC true kalloc ≠ .overflow r :=
  ⟨growC_guarded_no_overflow need fuel s r, doubleC_guarded_no_overflow kalloc r⟩

-- non-vacuity of `keyhash_below_bound`'s hypothesis: need 5000 from 2048 is covered by 2048·2^2
example : ∃ k, 5000 ≤ 2048 * 2 ^ k ∧ 2048 * 2 ^ k ≤ INT_MAX := ⟨2, by decide, by decide⟩
end KeyhashAtBound


/-! ### `esl_keyhash_Reuse` empties EVERY slot, at any fill (round 6b) -/
section KeyhashReuse
open Keyhash

/-- for ANY table state (any fill: 0 keys, fewer than hashsize/4, more than 3·hashsize; any stale content of `nxt[]`,
    `key_offset[]`, the arena): after `esl_keyhash_Reuse` the table has its `hashsize` slots, EVERY one is `-1`, `nkeys = 0`,
    `sn = 0`; a direct walk over `hashtable[]` (`slotStats`, the driver/harness op `kh_slots`) finds no used slot, no chained
    record, no pointer outside `[0,nkeys)`, no cycle -/
theorem keyhash_reuse_empties_every_slot (kh : KH) :
    (reuse kh).hashtable.size = kh.hashsize ∧ (reuse kh).hashsize = kh.hashsize ∧ (reuse kh).nkeys = 0 ∧
    (reuse kh).smem.size = 0 ∧ (∀ i, i < kh.hashsize → (reuse kh).hashtable[i]? = some none) ∧
    slotStats (reuse kh) = SlotStats.zero :=
  ⟨(reuse_slots_empty kh).1, (reuse_slots_empty kh).2.1, (reuse_slots_empty kh).2.2.1, (reuse_slots_empty kh).2.2.2.1,
    (reuse_slots_empty kh).2.2.2.2, reuse_slotStats kh⟩

/-- … hence after `Reuse` a lookup of any key (any bytes, embedded NULs included, any hash function into the table) answers
    `eslENOTFOUND` at once, reading no record: whatever `nxt[]` and the arena still hold cannot be found again and no chain walk
    can run on. (What the re-stored keys then get — 0, 1, 2, … — is `keyhash_refines`, whose histories contain `Reuse`.) -/
theorem keyhash_reuse_lookup_immediate (H : Key → Nat → Nat) (hH : HashOK H) (kh : KH) (h0 : 0 < kh.hashsize) (key : Key) :
    lookupF H (reuse kh) key = some (.enotfound, 0) := reuse_lookup_notfound H hH kh h0 key

-- non-vacuity: a 4-slot table whose slot 2 is occupied (a stale chain head) is clean after Reuse
example : slotStats (reuse { (create 4 2 8) with hashtable := #[none, none, some 0, none], nkeys := 1, nxt := #[none, none] }) = SlotStats.zero := by decide
example : slotStats { (create 4 2 8) with hashtable := #[none, none, some 0, none], nkeys := 0, nxt := #[some 0, none] } = ⟨1, 0, 0, 1⟩ := by decide
end KeyhashReuse

/-! ## Red-black tree (insertion with recolouring and the four rotations as coded; keys: any integers) -/
section RB
open RedBlack RedBlack.Tree

/-- after every insertion: never `esl_fatal`; BST order (in-order keys strictly increasing); root black; no red node
    with a red child; equal black height on all paths; the key is present; nothing else changes; a duplicate is
    refused (`NULL`) and leaves the tree untouched -/
theorem rb_insert (t : Tree Int) (k : Int) (h : WF t) :
    ∃ t' b, Tree.insert t k = some (t', b) ∧ WF t' ∧ (b = false ↔ k ∈ toList t) ∧ (k ∈ toList t → t' = t) ∧
      (∀ x, x ∈ toList t' ↔ x = k ∨ x ∈ toList t) := insert_spec t k h

/-- for every insertion history from the empty tree: invariants hold and every inserted distinct key is present -/
theorem rb_history (ks : List Int) : ∃ t, insertAll .nil ks = some t ∧ WF t ∧ ∀ x, x ∈ toList t ↔ x ∈ ks :=
  insertAll_spec ks

/-- the invariant, unfolded: sorted in-order list, and `Balanced t black n` (root black, no red-red, black height n) -/
theorem rb_wf_iff (t : Tree Int) : WF t ↔ ((toList t).Pairwise (· < ·) ∧ ∃ n, Balanced t .black n) := Iff.rfl

/-- balance: the height is at most 2·log2(size+1) -/
theorem rb_height (t : Tree Int) (h : WF t) : 2 ^ ((height t + 1) / 2) ≤ size t + 1 := WF.height_le h

theorem rb_lookup (t : Tree Int) (h : WF t) (k : Int) : lookup k t = true ↔ k ∈ toList t := lookup_iff t h.1 k

/-- `convert_to_sorted_linked`: from `head` along `small` the keys come in strictly descending order and are exactly the
    inserted distinct keys (so from `tail` along `large`: ascending) -/
theorem rb_sorted_linked (ks : List Int) :
    ∃ t, insertAll .nil ks = some t ∧ (toLinkedDesc t []).Pairwise (· > ·) ∧ ∀ x, x ∈ toLinkedDesc t [] ↔ x ∈ ks :=
  insertAll_linked ks

theorem rb_linked_is_reverse_inorder (t : Tree Int) : toLinkedDesc t [] = (toList t).reverse := by
  simpa using toLinkedDesc_eq t []

example : WF (.nil : Tree Int) := wf_nil
-- a non-trivial tree satisfying the hypothesis of `rb_insert`
example : ∃ t, insertAll (.nil : Tree Int) [1, 2, 3] = some t ∧ WF t ∧ toList t = [1, 2, 3] := by
  obtain ⟨t, h1, h2, _⟩ := rb_history [1, 2, 3]
  have h : (insertAll (.nil : Tree Int) [1, 2, 3]).map toList = some [1, 2, 3] := by decide
  rw [h1] at h
  exact ⟨t, h1, h2, by simpa using h⟩
example : (insertAll (.nil : Tree Int) [5, 3, 8, 1, 4, 7, 9, 2, 6, 3]).map toList = some [1, 2, 3, 4, 5, 6, 7, 8, 9] := by decide
/-- lookup after ANY insertion history (duplicates, any order) finds exactly the inserted keys: the tree refines the
    sorted association list / set of the distinct inserted keys -/
theorem rb_lookup_history (ks : List Int) :
    ∃ t, insertAll .nil ks = some t ∧ (∀ k, lookup k t = true ↔ k ∈ ks) ∧ (toList t).Pairwise (· < ·) := by
  obtain ⟨t, h1, h2, h3⟩ := insertAll_spec ks
  exact ⟨t, h1, fun k => (lookup_iff t h2.1 k).trans (h3 k), h2.1⟩

/-- FOR EVERY HISTORY of insertions and lookups (duplicates, any order, lookups of absent keys in between): no `esl_fatal`,
    `insert` answers "inserted" exactly for new keys (NULL for duplicates), `lookup` finds exactly the keys inserted so far -/
theorem rb_ops_history (ops : List RedBlack.RbOp) : RedBlack.runRb .nil ops = some (RedBlack.specRunRb [] ops) :=
  RedBlack.runRb_spec ops .nil [] wf_nil (fun x => by simp [toList])

example : RedBlack.runRb .nil [.insert 5, .lookup 5, .lookup 3, .insert 3, .insert 5, .lookup 3]
    = some [true, true, false, true, false, true] := by decide
end RB

/-! ## Red-black tree, pointer level (`RedBlackPtr`): the records, their `small`/`large`/`parent` pointers, the node pool -/
section RBPtr
open RedBlackPtr

/-- `esl_red_black_doublekey_pool_Create(number)` followed by `number` takes from the free list: the `number` records of
    the block, pairwise DISTINCT, none of them in use before, then the free list is `NULL` — no record is handed out twice -/
theorem rb_pool_never_twice (st : Store) (number : Nat) (hn : 0 < number) :
    (poolCreate st number).2 = some st.size ∧
    ∃ l, takeN (poolCreate st number).1 number (poolCreate st number).2 = some (l, none) ∧
      l = List.range' st.size number ∧ l.Nodup ∧ l.length = number ∧ ∀ x ∈ l, st.size ≤ x := pool_take_all st number hn

/-- the pointer loop of `esl_red_black_doublekey_lookup` on any tree laid out in the store (`Repr`): it terminates without
    touching anything outside the store, answers as the lookup on the abstract tree, and the record it returns is a record
    of the tree carrying that key -/
theorem rb_ptr_lookup (st : Store) (t : Shape) (p : Ptr) (key : Int) (fuel : Nat) (h : Repr st t p) (hf : t.height ≤ fuel) :
    ∃ r, RedBlackPtr.lookup st key fuel p = some r ∧ r.isSome = RedBlack.Tree.lookup key (absTree st t) ∧
      (∀ i, r = some i → i ∈ t.ids ∧ ∃ nd, rd st i = some nd ∧ nd.key = key) := lookup_repr key fuel h hf

/-- `esl_red_black_doublekey_convert_to_sorted_linked` on ANY tree laid out in the store over distinct records (no balance
    or order assumption): it returns `eslOK`; `head` is the last, `tail` the first record in in-order; walking from `tail`
    along `large` visits exactly the in-order sequence of records, walking from `head` along `small` its reverse;
    consecutive records point at each other (`a.large = b ∧ b.small = a`: prev/next are inverse), both ends are
    NULL-terminated; keys, colours, parents and every record outside the tree are untouched, and the keys along the list
    are the in-order keys of the tree (ascending whenever the tree was a search tree) -/
theorem rb_convert_doubly_linked (st : Store) (t : Shape) (root : Nat) (hrep : Repr st t (some root)) (hnd : t.ids.Nodup) :
    ∃ st' head tail, convert st (some root) = some (some (st', some head, some tail)) ∧
      t.ids.getLast? = some head ∧ t.ids.head? = some tail ∧
      follow st' (·.large) (st'.size + 1) (some tail) = t.ids ∧
      follow st' (·.small) (st'.size + 1) (some head) = t.ids.reverse ∧
      Linked st' t.ids ∧ smallOf st' tail = some none ∧ largeOf st' head = some none ∧
      SameData st st' ∧ (∀ j, j ∉ t.ids → rd st' j = rd st j) ∧
      t.ids.filterMap (fun i => (rd st' i).map (·.key)) = RedBlack.Tree.toList (absTree st t) := convert_spec hrep hnd

/-- … and the library's own checker `esl_red_black_doublekey_linked_list_test(&head, &tail)` (both walks, the order tests,
    the back-pointer tests, the two counts) returns `eslOK` on the result whenever the tree was a search tree -/
theorem rb_convert_passes_list_test (st : Store) (t : Shape) (root : Nat) (hrep : Repr st t (some root)) (hnd : t.ids.Nodup)
    (hbst : (RedBlack.Tree.toList (absTree st t)).Pairwise (· < ·)) :
    ∃ st' head tail, convert st (some root) = some (some (st', some head, some tail)) ∧
      linkedListTest st' (some head) (some tail) = some .ok := convert_then_test hrep hnd hbst

/-- a NULL tree is refused with `eslFAIL` -/
theorem rb_convert_null (st : Store) : convert st none = some none := rfl

-- non-vacuity: a three-record tree (root 0 with key 5, small child 1 with key 3, large child 2 with key 8)
example : Repr (#[⟨5, .black, none, some 1, some 2⟩, ⟨3, .red, some 0, none, none⟩, ⟨8, .red, some 0, none, none⟩] : Store)
    (.node (.node .nil 1 .nil) 0 (.node .nil 2 .nil)) (some 0) := by
  refine ⟨rfl, _, rfl, ⟨rfl, _, rfl, rfl, rfl⟩, ⟨rfl, _, rfl, rfl, rfl⟩⟩
example : (convert (#[⟨5, .black, none, some 1, some 2⟩, ⟨3, .red, some 0, none, none⟩, ⟨8, .red, some 0, none, none⟩] : Store) (some 0)).map
    (fun r => r.map fun (st, h, t) => (h, t, follow st (·.large) 4 t, follow st (·.small) 4 h))
    = some (some (some 2, some 1, [1, 0, 2], [2, 0, 1])) := by decide
/-- the descent loop of `esl_red_black_doublekey_insert` on any tree laid out in the store: it ends inside the tree; it answers
    "an equal key exists" exactly when the lookup on the abstract tree finds the key; otherwise it stops at a record of the
    tree whose child pointer on the key's side is `NULL` (there the new record is attached) -/
theorem rb_ptr_descend (st : Store) (key : Int) (a : Shape) (i : Nat) (b : Shape) (fuel : Nat)
    (h : Repr st (.node a i b) (some i)) (hf : (Shape.node a i b).height ≤ fuel) :
    ∃ r, descend st key fuel i = some r ∧ (r = none ↔ RedBlack.Tree.lookup key (absTree st (.node a i b)) = true) ∧
      (∀ p, r = some p → p ∈ (Shape.node a i b).ids ∧ ∃ nd, rd st p = some nd ∧ key ≠ nd.key ∧
        (if key > nd.key then nd.large = none else nd.small = none)) := descend_repr key fuel h hf

/-- DUPLICATE KEY, exactly as the C function answers it: `insert(tree, node)` with a key the tree already holds returns
    `NULL`; no record of the tree is written (same shape, colours, keys, pointers; the caller's root stays valid); the only
    write is the reset of the offered record itself (red, no children), which the caller still owns (and may give back to
    its pool: `rb_pool_never_twice`) -/
theorem rb_ptr_insert_duplicate (st : Store) (a : Shape) (root : Nat) (b : Shape) (node : Nat) (nn : Node)
    (hrep : Repr st (.node a root b) (some root)) (hnd : (Shape.node a root b).ids.Nodup)
    (hnode : node ∉ (Shape.node a root b).ids) (hr : rd st node = some nn)
    (hdup : RedBlack.Tree.lookup nn.key (absTree st (.node a root b)) = true) :
    ∃ st', insert st (some root) node = some (st', none) ∧ (∀ j, j ≠ node → rd st' j = rd st j) ∧
      rd st' node = some { nn with color := .red, small := none, large := none } ∧
      Repr st' (.node a root b) (some root) ∧ absTree st' (.node a root b) = absTree st (.node a root b) :=
  insert_duplicate hrep hnd hnode hr hdup

/-- NEW KEY, BLACK PARENT (the path of `insert` that needs no rebalancing): for a key the tree does not hold the descent ends
    at a record `p` of the tree with a `NULL` child pointer on the key's side; if `p` is black, `insert` returns the unchanged
    root, the store lays out the tree with the record hung there (`attachShape`), exactly the records `node` (red leaf whose
    parent is `p`) and `p` (one new child pointer) were written. With a red `p` the function goes on into `rebalance`: that path,
    and the whole function, is `rb_ptr_insert_refines` below. -/
theorem rb_ptr_insert_black_parent (st : Store) (a : Shape) (root : Nat) (b : Shape) (node : Nat) (nn : Node)
    (hrep : Repr st (.node a root b) (some root)) (hnd : (Shape.node a root b).ids.Nodup)
    (hnode : node ∉ (Shape.node a root b).ids) (hr : rd st node = some nn)
    (hnew : RedBlack.Tree.lookup nn.key (absTree st (.node a root b)) = false) :
    ∃ p pn, p ∈ (Shape.node a root b).ids ∧ rd st p = some pn ∧ nn.key ≠ pn.key ∧
      (if nn.key > pn.key then pn.large = none else pn.small = none) ∧
      (pn.color = .black → ∃ st', insert st (some root) node = some (st', some root) ∧
        Repr st' (attachShape st nn.key node (.node a root b)) (some root) ∧
        (∀ j, j ≠ p → j ≠ node → rd st' j = rd st j) ∧
        rd st' node = some { nn with color := .red, small := none, large := none, parent := some p } ∧
        rd st' p = some (if nn.key > pn.key then { pn with large := some node } else { pn with small := some node })) :=
  insert_black_parent hrep hnd hnode hr hnew

-- non-vacuity: key 4 offered to the tree {5(black): 3(black), 8(black)} goes under the black 3 as its large child
example : (insert (#[⟨5, .black, none, some 1, some 2⟩, ⟨3, .black, some 0, none, none⟩, ⟨8, .black, some 0, none, none⟩,
      ⟨4, .black, none, some 7, some 9⟩] : Store) (some 0) 3).map (fun r => (r.2, r.1.toList.map (fun nd => (nd.key, nd.small, nd.large))))
    = some (some 0, [(5, some 1, some 2), (3, none, some 3), (8, none, none), (4, none, none)]) := by decide

/-- REUSE OF A REFUSED RECORD (the node-reuse path after c81655a): a record given back to the pool's free list after `insert`
    returned `NULL` is the next one taken, and taking it restores the free list as it was -/
theorem rb_pool_give_take (st : Store) (pool : Ptr) (n : Nat) (nd : Node) (hr : rd st n = some nd) :
    ∃ st', poolGive st pool n = some (st', some n) ∧ poolTake st' (some n) = some (n, pool) ∧
      (∀ j, j ≠ n → rd st' j = rd st j) ∧ rd st' n = some { nd with large := pool } := poolGive_take hr

/-- the first record becomes the black root -/
theorem rb_ptr_insert_first (st : Store) (node : Nat) (nn : Node) (hr : rd st node = some nn) :
    ∃ st', insert st none node = some (st', some node) ∧ (∀ j, j ≠ node → rd st' j = rd st j) ∧
      rd st' node = some { nn with color := .black, small := none, large := none } := insert_empty hr

-- non-vacuity: offering a fourth record with key 3 to the three-record tree {5, 3, 8} is refused, the tree is untouched
example : (insert (#[⟨5, .black, none, some 1, some 2⟩, ⟨3, .red, some 0, none, none⟩, ⟨8, .red, some 0, none, none⟩,
      ⟨3, .black, none, some 7, some 9⟩] : Store) (some 0) 3).map (fun r => (r.2, (r.1.toList.take 3).map (fun nd => (nd.key, nd.small, nd.large))))
    = some (none, [(5, some 1, some 2), (3, none, none), (8, none, none)]) := by decide
end RBPtr


/-! ### the pointer-level insert WITH `rebalance` refines the inductive-tree insert — every path, every history

`ReprP st t p par`: pointer `p` is the root of a tree of shape `t` laid out in the store, `small`/`large` AND `parent`
pointers (`par` = the root record's `parent`). `absTree st t` = its keys and colours. -/
section RBPtrRefine
open RedBlackPtr

/-- ONE CALL, ALL CASES (duplicate, black parent, red parent → `rebalance`: recolouring with its recursion up the `parent`
    pointers, the four rotations incl. the root / great-grandparent relinking): for ANY tree laid out in the store over
    distinct records (no order or balance assumption) and any offered record outside it,
    `esl_red_black_doublekey_insert(tree, node)`
    * fails (`esl_fatal` / NULL dereference / endless loop) exactly when `Tree.insert` on the abstract tree answers `none`;
    * for a key already present returns `NULL`, writes no record but the offered one, the abstract tree is unchanged;
    * otherwise returns the root of a tree laid out — child and parent pointers — over exactly the old records plus the new
      one (a permutation: none lost, none twice) whose keys and colours are those `Tree.insert` computes (to which
      `rb_insert` applies: ordered, balanced, key added); no record outside the tree and the offered one is written. -/
theorem rb_ptr_insert_refines (st : Store) (t : Shape) (root node : Nat) (nn : Node)
    (hrep : ReprP st t (some root) none) (hnd : t.ids.Nodup) (hnode : node ∉ t.ids) (hr : rd st node = some nn) :
    (RedBlack.Tree.insert (absTree st t) nn.key = none → insert st (some root) node = none) ∧
    (∀ T', RedBlack.Tree.insert (absTree st t) nn.key = some (T', false) →
      T' = absTree st t ∧ ∃ st', insert st (some root) node = some (st', none) ∧ (∀ j, j ≠ node → rd st' j = rd st j)) ∧
    (∀ T', RedBlack.Tree.insert (absTree st t) nn.key = some (T', true) →
      ∃ st' root' t', insert st (some root) node = some (st', some root') ∧ ReprP st' t' (some root') none ∧
        absTree st' t' = T' ∧ t'.ids.Perm (node :: t.ids) ∧ (∀ j, j ∉ node :: t.ids → rd st' j = rd st j)) :=
  insert_refines_insert hrep hnd hnode hr

/-- `rebalance` itself (entered through `fixup`: what `insert` and the recolouring branch do with a freshly red record `n`):
    for every path `fs` from `n` up to the root, every colouring and every store, it computes what the unwinding of
    `Tree.ins` (`upPath` = one `Tree.up` per ancestor) answers — same failure set, same tree, same records -/
theorem rb_ptr_rebalance_refines (fuel : Nat) (fs : List Frame) (st : Store) (s : Shape) (n : Nat) (par root : Ptr) (tree : Nat)
    (nn : Node) (hf : fs.length ≤ 2 * fuel) (hfoc : ReprP st s (some n) par) (hctx : ReprCtx st fs (some n) par root)
    (hroot : root = some tree) (hnd : (s.ids ++ pathIds fs).Nodup) (hn : rd st n = some nn) (hred : nn.color = .red) :
    SimGoal fuel st tree n (upPath st fs (.check (absTree st s))) (s.ids ++ pathIds fs) :=
  fixup_sim fuel fs st s n par root tree nn hf hfoc hctx hroot hnd hn hred

/-- on a well-formed tree the pointer-level insert never fails, and the tree it lays out is again well-formed (ordered,
    root black, no red-red, equal black heights) and holds exactly the old keys plus the new one -/
theorem rb_ptr_insert_wf (st : Store) (t : Shape) (root node : Nat) (nn : Node)
    (hrep : ReprP st t (some root) none) (hnd : t.ids.Nodup) (hnode : node ∉ t.ids) (hr : rd st node = some nn)
    (hwf : RedBlack.Tree.WF (absTree st t)) :
    (nn.key ∈ RedBlack.Tree.toList (absTree st t) → ∃ st', insert st (some root) node = some (st', none)) ∧
    (nn.key ∉ RedBlack.Tree.toList (absTree st t) →
      ∃ st' root' t', insert st (some root) node = some (st', some root') ∧ ReprP st' t' (some root') none ∧
        t'.ids.Perm (node :: t.ids) ∧ RedBlack.Tree.WF (absTree st' t') ∧
        ∀ x, x ∈ RedBlack.Tree.toList (absTree st' t') ↔ x = nn.key ∨ x ∈ RedBlack.Tree.toList (absTree st t)) := by
  obtain ⟨T1, b, hins, hwf1, hb, _, hmem⟩ := RedBlack.Tree.insert_spec (absTree st t) nn.key hwf
  obtain ⟨_, h2, h3⟩ := insert_refines_insert hrep hnd hnode hr
  constructor
  · intro hk
    have : b = false := hb.mpr hk
    subst this
    obtain ⟨_, st', h, _⟩ := h2 T1 hins
    exact ⟨st', h⟩
  · intro hk
    have : b = true := by cases b with
      | false => exact absurd (hb.mp rfl) hk
      | true => rfl
    subst this
    obtain ⟨st', root', t', k1, k2, k3, k4, _⟩ := h3 T1 hins
    exact ⟨st', root', t', k1, k2, k4, k3 ▸ hwf1, k3 ▸ hmem⟩

/-- EVERY HISTORY from the empty tree, on the pointers: offering any distinct fresh records (as `_Create` / the pool hand
    them out: `parent == NULL`) in any order, with any keys (duplicates are refused and skipped), never fails; the final
    store lays out — `small`, `large` and `parent` pointers — over distinct records taken from the offered ones exactly the
    tree `Tree.insertAll` computes from the keys: ordered, balanced, holding every offered key; nothing else is written -/
theorem rb_ptr_history (st : Store) (nodes : List Nat) (hnodes : nodes.Nodup)
    (hread : ∀ n ∈ nodes, ∃ nd, rd st n = some nd ∧ nd.parent = none) :
    ∃ st' tree' t', insertAllPtr st none nodes = some (st', tree') ∧ ReprP st' t' tree' none ∧ t'.ids.Nodup ∧
      RedBlack.Tree.insertAll .nil (keysOf st nodes) = some (absTree st' t') ∧ RedBlack.Tree.WF (absTree st' t') ∧
      (∀ x, x ∈ RedBlack.Tree.toList (absTree st' t') ↔ x ∈ keysOf st nodes) ∧
      (∀ j ∈ t'.ids, j ∈ nodes) ∧ (∀ j, j ∉ nodes → rd st' j = rd st j) := by
  obtain ⟨st', tree', t', h1, h2, h3, h4, h5, h6, h7⟩ :=
    insertAllPtr_refines nodes st none .nil rfl List.nodup_nil RedBlack.Tree.wf_nil hnodes (fun _ _ h => by cases h) hread
  obtain ⟨T, e1, _, e3⟩ := RedBlack.Tree.insertAll_spec (keysOf st nodes)
  have h4' : RedBlack.Tree.insertAll .nil (keysOf st nodes) = some (absTree st' t') := h4
  have : T = absTree st' t' := by rw [e1] at h4'; exact Option.some.inj h4'
  refine ⟨st', tree', t', h1, h2, h3, h4, h5, this ▸ e3, fun j hj => ?_, fun j hj => h7 j (fun h => by cases h) hj⟩
  rcases h6 j hj with h | h
  · cases h
  · exact h

/-- … and the tree built by any such history converts to a doubly linked list that passes the library's own list test -/
theorem rb_ptr_history_converts (st : Store) (nodes : List Nat) (hnodes : nodes.Nodup) (hne : nodes ≠ [])
    (hread : ∀ n ∈ nodes, ∃ nd, rd st n = some nd ∧ nd.parent = none) :
    ∃ st' root st'' head tail, insertAllPtr st none nodes = some (st', some root) ∧
      convert st' (some root) = some (some (st'', some head, some tail)) ∧
      linkedListTest st'' (some head) (some tail) = some .ok := by
  obtain ⟨st', tree', t', h1, h2, h3, _, h5, h6, _, _⟩ := rb_ptr_history st nodes hnodes hread
  cases nodes with
  | nil => exact absurd rfl hne
  | cons n ns =>
    cases t' with
    | nil =>
      exfalso
      have hx : ∃ x, x ∈ keysOf st (n :: ns) := by
        simp only [keysOf, List.map_cons]; exact ⟨_, List.mem_cons_self⟩
      obtain ⟨x, hx⟩ := hx
      have := (h6 x).mpr hx
      simp [absTree, RedBlack.Tree.toList] at this
    | node a r b =>
      have hr : tree' = some r := h2.1
      subst hr
      obtain ⟨st'', head, tail, c1, c2⟩ := convert_then_test h2.toRepr h3 h5.1
      exact ⟨st', r, st'', head, tail, h1, c1, c2⟩


/-- END TO END through the pool, for EVERY key list `ks` (any length ≥ 0, any integers, duplicates allowed) and any store:
    `esl_red_black_doublekey_pool_Create(|ks|)`, the caller's `node->key = k` on the block's records, then
    `tree = insert(tree, node)` for each: no call fails, and the store lays out — child and parent pointers, distinct records —
    exactly `Tree.insertAll .nil ks`: ordered, balanced, holding precisely the keys of `ks`; records that existed before the
    block was created are untouched. (No hypothesis: the statement is its own non-vacuity.) -/
theorem rb_ptr_pool_history (st : Store) (ks : List Int) :
    ∃ st' tree' t', insertAllPtr (setKeys (poolCreate st ks.length).1 (List.range' st.size ks.length) ks) none
        (List.range' st.size ks.length) = some (st', tree') ∧ ReprP st' t' tree' none ∧ t'.ids.Nodup ∧
      RedBlack.Tree.insertAll .nil ks = some (absTree st' t') ∧ RedBlack.Tree.WF (absTree st' t') ∧
      (∀ x, x ∈ RedBlack.Tree.toList (absTree st' t') ↔ x ∈ ks) ∧ (∀ j, j < st.size → rd st' j = rd st j) :=
  pool_history st ks

-- non-vacuity: three fresh records with keys 1, 2, 3 offered in ascending order: the third insert finds a RED parent
-- (record 1 under the black root 0), `rebalance` rotates (node large of parent, parent large of grandparent) and record 1
-- becomes the root with children 0 and 2, parent pointers included
example : (insertAllPtr (#[⟨1, .red, none, none, none⟩, ⟨2, .red, none, none, none⟩, ⟨3, .red, none, none, none⟩] : Store)
      none [0, 1, 2]).map (fun r => (r.2, r.1.toList.map (fun nd => (nd.parent, nd.small, nd.large))))
    = some (some 1, [(some 1, none, none), (none, some 0, some 2), (some 1, none, none)]) := by decide
example : (insertAllPtr (#[⟨1, .red, none, none, none⟩, ⟨2, .red, none, none, none⟩, ⟨3, .red, none, none, none⟩] : Store)
      none [0, 1, 2]).map (fun r => r.1.toList.map (fun nd => decide (nd.color = .red)))
    = some [true, false, true] := by decide
example : ReprP (#[⟨1, .red, some 1, none, none⟩, ⟨2, .black, none, some 0, some 2⟩, ⟨3, .red, some 1, none, none⟩] : Store)
    (.node (.node .nil 0 .nil) 1 (.node .nil 2 .nil)) (some 1) none :=
  ⟨rfl, _, rfl, rfl, ⟨rfl, _, rfl, rfl, rfl, rfl⟩, ⟨rfl, _, rfl, rfl, rfl, rfl⟩⟩
end RBPtrRefine


/-! ### pointer histories WITH the node pool and give-back (round 6b) -/
section RBPtrPool
open RedBlackPtr

/-- the caller's loop `node = pool; pool = pool->large; node->key = k; ret = insert(tree, node); if (ret == NULL) { node->large =
    pool; pool = node; } else tree = ret;` for ANY well-formed tree laid out in the store, ANY free list (`FreeList`: a `large`-chain
    of distinct unlinked records) disjoint from it and ANY key list no longer than the free list: never fails; the store then lays
    out exactly `Tree.insertAll` of the keys; the free list is again a chain of unlinked records; tree records ++ free records
    are a PERMUTATION of what they were — no record lost, none both in the tree and in the pool, none handed out twice (a refused
    record is the next one taken); no other record is written -/
theorem rb_ptr_pool_giveback (ks : List Int) (st : Store) (tree pool : Ptr) (t : Shape) (l : List Nat)
    (hrep : ReprP st t tree none) (hnd : (t.ids ++ l).Nodup) (hwf : RedBlack.Tree.WF (absTree st t)) (hfree : FreeList st pool l)
    (hlen : ks.length ≤ l.length) :
    ∃ st' tree' pool' t' l', insertPool st tree pool ks = some (st', tree', pool') ∧ ReprP st' t' tree' none ∧
      FreeList st' pool' l' ∧ (t'.ids ++ l').Perm (t.ids ++ l) ∧
      RedBlack.Tree.insertAll (absTree st t) ks = some (absTree st' t') ∧ RedBlack.Tree.WF (absTree st' t') ∧
      (∀ j, j ∉ t.ids ++ l → rd st' j = rd st j) := insertPool_refines ks st tree pool t l hrep hnd hwf hfree hlen

/-- … from a fresh block, for EVERY key list, no hypothesis (its own non-vacuity): `pool_Create(|ks|)` then the loop above -/
theorem rb_ptr_pool_giveback_history (st : Store) (ks : List Int) :
    ∃ st' tree' pool' t' l', insertPool (poolCreate st ks.length).1 none (poolCreate st ks.length).2 ks = some (st', tree', pool') ∧
      ReprP st' t' tree' none ∧ FreeList st' pool' l' ∧ (t'.ids ++ l').Perm (List.range' st.size ks.length) ∧
      RedBlack.Tree.insertAll .nil ks = some (absTree st' t') ∧ RedBlack.Tree.WF (absTree st' t') ∧
      (∀ j, j < st.size → rd st' j = rd st j) := pool_giveback_history st ks

-- keys 5, 5, 3 from a block of three: the second 5 is refused, its record (1) is given back and carries the 3; record 2 stays free
example : (insertPool (poolCreate #[] 3).1 none (poolCreate #[] 3).2 [5, 5, 3]).map (fun r => r.2) = some (some 0, some 2) := by decide
example : (insertPool (poolCreate #[] 3).1 none (poolCreate #[] 3).2 [5, 5, 3]).map
    (fun r => r.1.toList.map (fun nd => (nd.key, nd.parent, nd.large))) =
    some [(5, none, none), (3, some 0, none), (0, none, none)] := by decide
end RBPtrPool

section RB2

end RB2

/-! ## Stacks (int / char / pointer stacks share the code shape; one model) -/
section StackS
open Stack

/-- Push never faults (reallocation by doubling keeps `n ≤ nalloc`), and Pop returns the last pushed element and
    restores the previous content; Pop on an empty stack is `eslEOD` -/
theorem stack_push_pop {α : Type} (s : Stack.Stack α) (x : α) (h : Stack.Inv s) :
    ∃ s', push s x = some s' ∧ Stack.Inv s' ∧ pop s' = ({ s' with data := s.data }, some x) := by
  obtain ⟨s', h1, h2, h3⟩ := push_spec s x h
  exact ⟨s', h1, h2, pop_push s s' x h3⟩

theorem stack_pop_empty {α : Type} (s : Stack.Stack α) (h : s.data.size = 0) : pop s = (s, none) := pop_empty s h

/-- LIFO for whole histories: after pushing `xs`, popping everything returns `xs` reversed followed by what was there -/
theorem stack_lifo {α : Type} (s : Stack.Stack α) (xs : List α) (h : Stack.Inv s) :
    ∃ s', pushAll s xs = some s' ∧ Stack.Inv s' ∧ popAll s' = xs.reverse ++ popAll s := by
  obtain ⟨s', h1, h2, h3⟩ := pushAll_spec s xs h
  exact ⟨s', h1, h2, popAll_pushAll s s' xs h3⟩

/-- `popAll` is the sequence of values successive `Pop`s return -/
theorem stack_popAll_unfold {α : Type} (s s' : Stack.Stack α) (x : α) (h : pop s = (s', some x)) :
    popAll s = x :: popAll s' := popAll_cons_of_pop s x s' h

/-- DiscardTopN removes the `n` newest elements (all of them if `n ≥` count); what is left pops as before -/
theorem stack_discardTopN {α : Type} (s : Stack.Stack α) (n : Nat) :
    (discardTopN s n).data.toList = s.data.toList.take (s.data.size - n) := discardTopN_toList s n

/-- DiscardSelected never faults and keeps exactly the elements not selected, in their order -/
theorem stack_discardSelected {α : Type} (s : Stack.Stack α) (discard : α → Bool) :
    ∃ s', discardSelected s discard = some s' ∧ s'.nalloc = s.nalloc ∧
      s'.data.toList = s.data.toList.filter (fun x => !discard x) := discardSelected_spec s discard

/-- Shuffle keeps the multiset, for every state of the generator (`Rng` is the C09 model of `esl_random`) -/
theorem stack_shuffle {α : Type} (rollFuel : Nat) (r r' : EaselModel.Random.Rng) (s s' : Stack.Stack α)
    (h : shuffle rollFuel r s = some (s', r')) : s'.data.toList.Perm s.data.toList ∧ s'.nalloc = s.nalloc :=
  shuffle_perm rollFuel r r' s s' h

/-- FOR EVERY HISTORY without shuffle (push, pop, DiscardTopN, DiscardSelected with any predicate, Reuse, count) from any
    valid stack: no fault, and every answer is the one of the abstract LIFO list -/
theorem stack_history {α : Type} (rollFuel : Nat) (s : Stack.Stack α) (hi : Stack.Inv s) (ops : List (SOp α))
    (hns : ∀ op ∈ ops, op.isShuffle = false) : runS rollFuel s ops = some (specRunS s.data.toList ops) :=
  stack_history_refines rollFuel s hi ops hns

/-- histories with shuffles (generators in arbitrary states) mixed with pushes, selective discards, reuse, counts: whenever
    the run returns, the content is a permutation of what the abstract list predicts, and all answers agree -/
theorem stack_history_shuffles {α : Type} (rollFuel : Nat) (s : Stack.Stack α) (hi : Stack.Inv s) (l : List α)
    (hp : s.data.toList.Perm l) (ops : List (SOp α)) (hof : ∀ op ∈ ops, op.orderFree = true) :
    (∀ s', finalS rollFuel s ops = some s' → s'.data.toList.Perm (specFinalS l ops) ∧ Stack.Inv s') ∧
    (∀ outs, runS rollFuel s ops = some outs → outs = specRunS l ops) :=
  ⟨fun s' h => stack_history_multiset rollFuel s hi l hp ops hof s' h,
   fun outs h => stack_history_multiset_outputs rollFuel s hi l hp ops hof outs h⟩

/-- the mutex mode (`esl_stack_UseMutex`, `UseCond`, `ReleaseCond`) is MODELLED AS ATOMIC OPERATIONS (each public function
    runs between lock and unlock; not proved about the pthread calls): then for any two threads' operation sequences and
    any interleaving the scheduler produces, every answer is the LIFO list's answer on that interleaving -/
theorem stack_threads_atomic {α : Type} (rollFuel : Nat) (s : Stack.Stack α) (hi : Stack.Inv s) (a b l : List (SOp α))
    (hl : Interleave a b l) (ha : ∀ op ∈ a, op.isShuffle = false) (hb : ∀ op ∈ b, op.isShuffle = false) :
    runS rollFuel s l = some (specRunS s.data.toList l) := threads_atomic rollFuel s hi a b l hl ha hb

example : Interleave [SOp.push 1, SOp.pop] [SOp.push (2 : Nat)] [.push 1, .push 2, .pop] :=
  .left _ (.right _ (.left _ .nil))

/-- the only way an operation does not return on a valid stack is the Roll loop of a shuffle running out of fuel -/
theorem stack_no_fault {α : Type} (rollFuel : Nat) (s : Stack.Stack α) (hi : Stack.Inv s) (op : SOp α) :
    stepS rollFuel s op = none ↔ ∃ r, op = .shuffle r ∧ shuffle rollFuel r s = none := stepS_none_iff rollFuel s hi op

/-- the `int nalloc` of a stack is the initial 128 or at most twice the largest element count -/
theorem stack_nalloc_in_range {α : Type} (s s' : Stack.Stack α) (x : α) (B : Nat) (h : push s x = some s')
    (hs : s.data.size ≤ B) (hn : s.nalloc ≤ max 128 (2 * B)) : s'.nalloc ≤ max 128 (2 * B) :=
  Stack.push_nalloc_le s s' x B h hs hn

/-- Convert2String gives the pushed characters in push order (C string: up to the first NUL, if one was pushed) -/
theorem stack_convert2String (s : Stack.Stack UInt8) (h : (0 : UInt8) ∉ s.data.toList) :
    convert2String s = s.data.toList := convert2String_eq s h

example : Stack.Inv (create : Stack.Stack Int) := inv_create
-- the hypothesis of `stack_shuffle` is satisfiable (here with the LCG generator, which the kernel can run)
example : (shuffle 100 (EaselModel.Random.Rng.create .fast 7) ({ data := #[1, 2, 3, 4], nalloc := 128 } : Stack.Stack Nat)).map (·.1.data)
    = some #[3, 4, 1, 2] := by decide +kernel
-- discards on a concrete stack
example : (discardSelected ({ data := #[1, 2, 3, 4, 5], nalloc := 128 } : Stack.Stack Nat) (fun x => x % 2 == 0)).map (·.data)
    = some #[1, 3, 5] := by decide
example : (pushAll (create : Stack.Stack Nat) [1, 2, 3]).map popAll = some [3, 2, 1] := by decide
end StackS

/-! ## Stacks used for communication between threads (`esl_stack_UseMutex`, `esl_stack_UseCond`, `esl_stack_ReleaseCond`)

`StackThreads`: an interleaving transition system. Threads run programs of `Push x` / `Pop` / "pop until eslEOD" /
`ReleaseCond`; the scheduler picks `acquire t` (the thread gets the mutex), `body t` (it runs its critical section up to the
`pthread_mutex_unlock` — or up to the `pthread_cond_wait` of a `Pop` that finds the stack empty while `do_cond` is set, which
gives the mutex up and sleeps), `wake t` (a sleeper wakes: signal, broadcast or spurious; it must re-acquire the mutex and
re-test). The theorems quantify over EVERY schedule (`acts`), any number of threads, any programs, any starting content. -/
section StackThreadsS
open StackThreads

/-- NO ITEM IS LOST OR DUPLICATED, whatever the interleaving of pushers and poppers: at every reachable state the starting
    content plus everything pushed so far is (as a multiset) what is still on the stack plus everything popped so far; what
    has been pushed plus what the programs still have to push is what the programs push in total; so once every thread has
    finished, stack ∪ popped = start ∪ all pushes. The run never hits an out-of-bounds access (`Stack.Inv` is kept). -/
theorem stack_threads_conservation {α : Type} (s : Stack.Stack α) (hi : Stack.Inv s) (progs : List (List (TOp α)))
    (acts : List Act) (st' : TS α) (h : runSched (initial s progs) acts = some st') :
    (s.data.toList ++ st'.pushed).Perm (st'.stack.data.toList ++ st'.popped) ∧
    (st'.pushed ++ pending st'.threads).Perm (progs.flatMap pushesOf) ∧ Stack.Inv st'.stack ∧
    (finished st' → (st'.stack.data.toList ++ st'.popped).Perm (s.data.toList ++ progs.flatMap pushesOf)) := by
  have hw := runSched_wf acts (wf_initial s hi progs) h
  refine ⟨hw.cons, hw.pend, hw.inv, fun hf => ?_⟩
  have hp := hw.pend
  rw [pending_finished st' hf, List.append_nil] at hp
  exact hw.cons.symm.trans (List.Perm.append_left _ hp)

/-- a `Pop` returns `eslEOD` only after `esl_stack_ReleaseCond`: while `do_cond` is still set no thread has ever been
    answered `eslEOD` (a `Pop` on the empty stack waits instead) -/
theorem stack_threads_eod_only_after_release {α : Type} (s : Stack.Stack α) (hi : Stack.Inv s) (progs : List (List (TOp α)))
    (acts : List Act) (st' : TS α) (h : runSched (initial s progs) acts = some st') (hd : st'.doCond = true) :
    ∀ th ∈ st'.threads, TOut.eod ∉ th.outs :=
  (runSched_wf acts (wf_initial s hi progs) h).eod hd

/-- mutual exclusion, and no deadlock from the locking discipline: exactly the owner of the mutex is inside a critical
    section; and as long as some thread has calls left, some action is enabled (the holder can always finish its critical
    section — `Push` never faults —, a free mutex can be taken, a sleeper can be woken) -/
theorem stack_threads_mutex_progress {α : Type} (s : Stack.Stack α) (hi : Stack.Inv s) (progs : List (List (TOp α)))
    (acts : List Act) (st' : TS α) (h : runSched (initial s progs) acts = some st') :
    (∀ (t : Nat) (th : Thread α), st'.threads[t]? = some th → (th.phase = .holding ↔ st'.lock = some t)) ∧
    (∀ (t : Nat) (th : Thread α), st'.threads[t]? = some th → th.prog ≠ [] → ∃ a, (fire st' a).isSome = true) := by
  have hw := runSched_wf acts (wf_initial s hi progs) h
  exact ⟨hw.excl, fun t th hth hp => progress st' hw t th hth hp⟩

/-- A WAITING `Pop` RETURNS AN ITEM PUSHED LATER, OR `eslEOD` AFTER `ReleaseCond`: from any reachable state in which thread `t`
    sleeps in `pthread_cond_wait`, the mutex is free, and an item has arrived or `do_cond` has been cleared, the three steps
    "wake up, re-acquire the mutex, run the critical section" are all enabled and the call returns — one more answer, the
    thread is back between calls, the mutex is free again; it does not go back to sleep -/
theorem stack_threads_waiting_pop_completes {α : Type} (s : Stack.Stack α) (hi : Stack.Inv s) (progs : List (List (TOp α)))
    (acts : List Act) (st : TS α) (h : runSched (initial s progs) acts = some st) (t : Nat) (th : Thread α)
    (hth : st.threads[t]? = some th) (hph : th.phase = .waiting) (hlock : st.lock = none)
    (hready : st.doCond = false ∨ 0 < st.stack.data.size) :
    ∃ st' th', runSched st [.wake t, .acquire t, .body t] = some st' ∧ st'.threads[t]? = some th' ∧
      th'.phase = .start ∧ th'.outs.length = th.outs.length + 1 ∧ st'.lock = none :=
  waiting_pop_completes st (runSched_wf acts (wf_initial s hi progs) h) t th hth hph hlock hready

/-- AFTER `esl_stack_ReleaseCond` EVERY THREAD CAN RUN TO COMPLETION: from every reachable state in which `do_cond` is clear there
    is a schedule after which all threads have finished all their calls (pushers, poppers, workers that pop until `eslEOD`,
    sleepers in `pthread_cond_wait`) — and then, by `stack_threads_conservation`, what was popped plus what is left on the stack
    is exactly the starting content plus everything the programs push. Nobody is left waiting for ever. -/
theorem stack_threads_completes_after_release {α : Type} (s : Stack.Stack α) (hi : Stack.Inv s) (progs : List (List (TOp α)))
    (acts : List Act) (st : TS α) (h : runSched (initial s progs) acts = some st) (hd : st.doCond = false) :
    ∃ acts' st', runSched st acts' = some st' ∧ finished st' ∧
      (st'.stack.data.toList ++ st'.popped).Perm (s.data.toList ++ progs.flatMap pushesOf) := by
  obtain ⟨acts', st', h1, h2⟩ := completes_after_release (mu st) st (Nat.le_refl _) (runSched_wf acts (wf_initial s hi progs) h) hd
  have h3 : runSched (initial s progs) (acts ++ acts') = some st' := by rw [runSched_append, h]; exact h1
  exact ⟨acts', st', h1, h2, (stack_threads_conservation s hi progs (acts ++ acts') st' h3).2.2.2 h2⟩

/-- THE ONLY WAY TO GET STUCK: in every reachable state either all threads have finished, or an action that makes real progress
    is enabled (a critical section, taking the free mutex, waking a sleeper that will not go straight back to sleep), or
    every unfinished thread sleeps in `pthread_cond_wait` on an EMPTY stack with `do_cond` still set and the mutex free —
    the situation the documented idiom resolves by `esl_stack_ReleaseCond`, after which every sleeper can return
    (`stack_threads_waiting_pop_completes`). There is no other deadlock. -/
theorem stack_threads_stuck_only_when_all_asleep {α : Type} (s : Stack.Stack α) (hi : Stack.Inv s) (progs : List (List (TOp α)))
    (acts : List Act) (st : TS α) (h : runSched (initial s progs) acts = some st) :
    finished st ∨ (∃ a, (fire st a).isSome = true ∧ Useful st a) ∨
    ((∀ (t : Nat) (th : Thread α), st.threads[t]? = some th → th.prog ≠ [] → th.phase = .waiting) ∧ st.lock = none ∧
      st.doCond = true ∧ st.stack.data.size = 0) :=
  stuck_only_when_all_asleep st (runSched_wf acts (wf_initial s hi progs) h)

-- a waiting `Pop` returns an item pushed LATER by another thread …
example : (runSched (initial (Stack.create : Stack.Stack Nat) [[.pop], [.push 7]])
      [.acquire 0, .body 0, .acquire 1, .body 1, .wake 0, .acquire 0, .body 0]).map (fun st => st.threads.map (·.outs))
    = some [[.val 7], [.done]] := by decide
-- … after the first `body 0` thread 0 sleeps in `pthread_cond_wait` and the mutex is free
example : (runSched (initial (Stack.create : Stack.Stack Nat) [[.pop], [.push 7]]) [.acquire 0, .body 0]).map
      (fun st => (st.threads.map (·.phase), st.lock)) = some ([.waiting, .start], none) := by decide
-- … or `eslEOD` after `ReleaseCond` (a second `ReleaseCond` is refused with `eslESYS`)
example : (runSched (initial (Stack.create : Stack.Stack Nat) [[.pop], [.release, .release]])
      [.acquire 0, .body 0, .acquire 1, .body 1, .wake 0, .acquire 0, .body 0, .acquire 1, .body 1]).map (fun st => st.threads.map (·.outs))
    = some [[.eod], [.done, .esys]] := by decide
-- a spurious wake-up changes nothing: the popper re-tests and sleeps again
example : (runSched (initial (Stack.create : Stack.Stack Nat) [[.pop], [.push 7]]) [.acquire 0, .body 0, .wake 0, .acquire 0, .body 0]).map
      (fun st => (st.threads.map (·.phase), st.threads.map (·.outs))) = some ([.waiting, .start], [[], []]) := by decide
-- an action that is not enabled (a second thread taking the held mutex) is refused
example : (runSched (initial (Stack.create : Stack.Stack Nat) [[.pop], [.push 7]]) [.acquire 0, .acquire 1]).isNone = true := by decide
end StackThreadsS

/-! ## Index quicksort (`esl_quicksort` with the guard `if (n > 1)`, `partition` as written incl. the no-op first swap) -/
section QS
open Quicksort

/-- for any total preorder comparison callback, every `n ≥ 0`, fuel ≥ n (termination: the recursion depth and every loop
    are bounded by `n`): no out-of-bounds access, and the result is a permutation of `0..n-1` that orders the data -/
theorem quicksort_sorts (cmp : Nat → Nat → Int) (hc : TotalPreorder cmp) (n : Nat) (fuel : Nat) (hf : n ≤ fuel) :
    ∃ ord, quicksort cmp n fuel = .ok ord ∧ ord.size = n ∧ ord.toList.Perm (List.range n) ∧
      ∀ i j, i < j → j < n → cmp (ord[i]!) (ord[j]!) ≤ 0 := quicksort_spec cmp hc n fuel hf

/-- regression: without the guard (`partition(0,-1)` entered for `n = 0`, the code before the fix) the model faults:
    `sorted_at[-1]` is read -/
theorem quicksort_unguarded_n0_faults (cmp : Nat → Nat → Int) (fuel : Nat) : quicksortUnguarded cmp 0 (fuel + 1) = .fault :=
  quicksort_zero_faults cmp fuel

-- non-vacuity: comparing by a data array with ties is a total preorder
example : TotalPreorder (fun a b => ((a / 2 : Nat) : Int) - (b / 2 : Nat)) :=
  ⟨fun a b => by omega, fun a b c h1 h2 => by omega⟩
end QS

end EaselModel.Props.C19
