import EaselModel.Getopts.Outcomes
import EaselModel.Getopts.Indices
import EaselModel.Getopts.Abbrev
import EaselModel.Getopts.Ranges
import EaselModel.Getopts.RealOrder
import EaselModel.Getopts.Tokens
import EaselModel.Getopts.WfCheck
import EaselModel.Getopts.AllocHist
import EaselModel.Getopts.IllFormed
import EaselModel.Getopts.HelpLemmas
import EaselModel.Getopts.RoundLemmas
import EaselModel.Getopts.EmptyArg
import EaselModel.Getopts.RealRoundLemmas
import EaselModel.Getopts.DumpText
/-! # C14 — option processing resolves every configuration by the documented rules

Property theorems about the executable model `EaselModel.Getopts` of `esl_getopts.c` (tied to the working tree by
the differential run of `harness/h_getopts.c`).  Proofs here are glue on the named lemmas of
`EaselModel/Getopts/{Lemmas,Total,Abbrev,Verify,History,Sources}.lean`.

Full statement (properties.jsonl) and where each clause is proved, for every well-formed option table (`WF`)
and every sequence of sources:
* (a) value = last source that set it, default otherwise; second setting by the same source is a usage error:
  `sources_are_setting_sequences_*`, `spoof_is_cmdline_of_its_words`, `cfg_line_*`, `cfgfile_is_its_settings`, `long_option_*_form`, `long_flag_form`, `short_option_*_form`, `concatenated_short_flags`, `successful_*_is_history`, `cmdline_success_is_history`, `cfgfile_success_is_history`, `environment_success_is_history`, `parsed_settings_are_in_table`, `cmdline_last_setter_wins`, `cmdline_untouched_keeps_state`, `last_setter_wins`, `untouched_keeps_state`, `fresh_object_all_default`, `reuse_restores_defaults`,
  `same_source_twice_is_usage_error`, `set_after_toggle_by_same_source_is_usage_error`
* (b) toggles: `set_option_spec`, `toggle_switches_others_off`, `optlist_element_denotes_named_option`, `optlist_reads_back_names`
* (c) abbreviations: `abbrev_full_name_resolves`, `abbrev_resolves_iff_unique`, `abbrev_ambiguous_iff`, `abbrev_unknown_iff`
* (d) `--`, arguments in order: `dashdash_ends_options`, `first_nonoption_ends_options`, `options_end_where_documented`, `remaining_args_in_order`, `args_returned_in_order`, `getArg_spec`
* "plus/minus-prefixed booleans": no such feature exists in this version; `plus_word_is_argument` states what the code does.
* (e) usage errors, never a crash: `every_history_ends_cleanly`, `cmdline_ends_cleanly`, `spoof_ends_cleanly`, `environment_ends_cleanly`,
  `configfile_ends_cleanly`, `setting_succeeds_iff`, `integer_argument_syntax`, `real_argument_syntax`, `real_argument_syntax_iff`, `wf_is_computable`, `strict_tables_are_wf`, `created_object_every_history_clean`, `char_argument_syntax`, `rejected_setting_changes_nothing`, `unknown_long_option`, `ambiguous_long_option`,
  `unknown_short_option`, `argument_to_flag`, `missing_argument_long`, `verifyConfig_spec`
* allocation layer of `set_option` (`do_alloc`, `valloc[]`, block reuse across config files; `Alloc.lean`): `alloc_store_exact`,
  `alloc_set_option_refines`, `alloc_valloc_after_set`, `alloc_source_refines`, `alloc_cfg_text_args`, `alloc_history_refines`,
  `alloc_created_history`, `alloc_reuse_is_fresh`, `history_after_reuse_is_history_on_fresh_object`
* tables that are NOT well formed (no hypothesis on the table): `create_on_any_table`, `create_never_crashes`,
  `create_does_not_check_lists`, `unknown_name_in_toggle_list`, `unknown_name_in_required_list`, `set_option_crash_site_unreachable`
* text produced from table / configuration: `displayHelp_fails_iff`, `displayHelp_output_documented`,
  `spoofed_cmdline_lists_set_and_on_options`, `spoofCmdline_never_crashes`, `defaultApp_returns_iff`; integers beyond `int`:
  `accepted_integer_satisfies_range_as_getter_returns_it`
* `strtod` rounding (decimal → nearest binary64, `Round.lean`, bit-exact against glibc in the differential run):
  `strtod_rounds_to_nearest`, `strtod_exact_on_representable`, `strtod_rounding_monotone_in_binade`, `strtod_monotone`,
  `real_range_test_monotone`, `inclusive_real_bound_accepts_every_true_member`
* `--name=` with an EMPTY attached value (`EmptyArg.lean`): `flag_with_empty_value_is_usage_error`, `empty_attached_value_is_the_argument`,
  `empty_attached_value_consumes_nothing`, `empty_value_rejected_by_numeric_types`, `empty_value_stored_by_string_types`, `empty_value_char_is_terminator`
* real ranges over the ROUNDED values (`RealRound.lean`: what `verify_real_range` really compares; any number of digits):
  `real_range_two_sided_on_doubles`, `real_range_two_sided_literal_on_doubles`, `real_range_lower_on_doubles`, `real_range_upper_on_doubles`,
  `rounding_never_reorders_magnitudes`, `lower_bound_on_doubles_is_monotone`
* `esl_getopts_Dump` (`DumpText.lean`): `dump_tells_setters_apart`, `dump_boolean_setting_is_IsOn`, `dump_never_crashes`
* (f) queries: `isUsed_iff`, `isDefault_of_default_setter`, `not_default_has_setter`

Not proved here (checked by the differential run only): that the decimal `strtod`/`strtol` models agree with glibc;
the full `strtod` syntax: proved are acceptance and value of plain decimal literals (no exponent) and of integer syntax; exponent forms are covered by examples and the differential run. -/
namespace EaselModel.Props.C14
open EaselModel.Getopts

/-! ## (a) sources are sequences of settings; the last one wins -/

theorem sources_are_setting_sequences_env (g : G) (env : Str → Option Str) :
    processEnvironment g env = runEvs g (envEvents env 0 g.opts) := processEnvironment_eq g env

theorem sources_are_setting_sequences_cfg (g : G) (content : Str) :
    processConfigfile g content = runCfg (byCfgfile + g.nfiles) g ((fileLines content).filterMap (cfgItem g.opts)) :=
  processConfigfile_eq g content

theorem sources_are_setting_sequences_cmdline (g : G) (argv : List Str) :
    processCmdline g argv = runCmd (fun g' => .done g' .ok false) { g with argv := argv, optind := 1 }
      (parseCmd g.opts 1 (argv.drop 1) false) := processCmdline_eq g argv

/-- a spoofed command line of plain words separated by single blanks is processed exactly like that argv -/
theorem spoof_is_cmdline_of_its_words (g : G) (ws : List Str) (hs : g.spoofed = false) (hw : ∀ w ∈ ws, SpoofWord w) :
    processSpoof g (joinSp ws) = processCmdline { g with spoofed := true } ws := processSpoof_words g ws hs hw

/-- config-file lines: `name arg` sets option `name` to `arg`; `name` alone switches a boolean on, is a usage error
    for an option that takes an argument, and is a usage error when `name` is not (exactly) an option of the table -/
theorem cfg_line_name_arg {opts : List Opt} {name arg : Str} {i : Nat} (hn : Plain wsDelim name) (ha : Plain wsDelim arg)
    (hq : arg.head? ≠ some '"') (hdash : name.head? = some '-') (hi : optidxExactly opts name = some i)
    (ht : (opts.getD i default).type ≠ 0) :
    cfgItem opts (name ++ ' ' :: (arg ++ ['\n'])) = some (.set i (some arg)) := cfgItem_name_arg hn ha hq hdash hi ht

theorem cfg_line_flag {opts : List Opt} {name : Str} {i : Nat} (hn : Plain wsDelim name) (hdash : name.head? = some '-')
    (hi : optidxExactly opts name = some i) (ht : (opts.getD i default).type = 0) :
    cfgItem opts (name ++ ['\n']) = some (.set i none) := cfgItem_flag hn hdash hi ht

theorem cfg_line_missing_argument {opts : List Opt} {name : Str} {i : Nat} (hn : Plain wsDelim name) (hdash : name.head? = some '-')
    (hi : optidxExactly opts name = some i) (ht : (opts.getD i default).type ≠ 0) :
    cfgItem opts (name ++ ['\n']) = some .usage := cfgItem_missing_arg hn hdash hi ht

theorem cfg_line_unknown_option {opts : List Opt} {name : Str} (hn : Plain wsDelim name) (hdash : name.head? = some '-')
    (hi : optidxExactly opts name = none) : cfgItem opts (name ++ ['\n']) = some .usage := cfgItem_unknown hn hdash hi

/-- a config file written as one correctly spelled setting per line (exact option name; an argument iff the option
    takes one) is parsed into exactly those settings, in order — with `sources_are_setting_sequences_cfg` and
    `cfgfile_success_is_history`: processing it is the history of those settings -/
theorem cfgfile_is_its_settings (opts : List Opt) (es : List CfgEntry) (h : ∀ e ∈ es, e.Good opts) :
    (fileLines (es.flatMap (fun e => e.line ++ ['\n']))).filterMap (cfgItem opts) = es.map (fun e => CfgItem.set e.i e.arg) :=
  cfgfile_items opts es h

/-- the documented command-line forms: `--name=value`, `--name value`, `--flag`, `-Wvalue`, `-W value`, and
    concatenated booleans `-abc` = `-a -b -c` (each is the `set_option` call one expects) -/
theorem long_option_eq_form {opts : List Opt} {name v : Str} {i : Nat} (k : Nat) (next : Option Str) (hne : '=' ∉ name)
    (hi : optidxAbbrev opts name = .found i) (ht : (opts.getD i default).type ≠ 0) :
    parseLong opts k (name ++ '=' :: v) next = ([.set i (some v) (k + 1)], some false) := parseLong_eq_form k next hne hi ht

theorem long_option_sep_form {opts : List Opt} {name v : Str} {i : Nat} (k : Nat) (hne : '=' ∉ name)
    (hi : optidxAbbrev opts name = .found i) (ht : (opts.getD i default).type ≠ 0)
    (hv : (isStringy (opts.getD i default).type && startsWithDash v) = false) :
    parseLong opts k name (some v) = ([.set i (some v) (k + 2)], some true) := parseLong_sep_form k hne hi ht hv

theorem long_flag_form {opts : List Opt} {name : Str} {i : Nat} (k : Nat) (next : Option Str) (hne : '=' ∉ name)
    (hi : optidxAbbrev opts name = .found i) (ht : (opts.getD i default).type = 0) :
    parseLong opts k name next = ([.set i none (k + 1)], some false) := parseLong_flag k next hne hi ht

theorem short_option_attached_form {opts : List Opt} {c : Char} {v : Str} {i : Nat} (k : Nat) (next : Option Str)
    (hf : findShort opts c = some i) (ht : (opts.getD i default).type ≠ 0) (hv : v ≠ []) :
    parseStd opts k (c :: v) next = ([.set i (some v) (k + 1)], some false) := parseStd_attached k next hf ht hv

theorem short_option_sep_form {opts : List Opt} {c : Char} {v : Str} {i : Nat} (k : Nat)
    (hf : findShort opts c = some i) (ht : (opts.getD i default).type ≠ 0)
    (hv : (isStringy (opts.getD i default).type && startsWithDash v) = false) :
    parseStd opts k [c] (some v) = ([.set i (some v) (k + 2)], some true) := parseStd_sep k hf ht hv

theorem concatenated_short_flags {opts : List Opt} {c : Char} {cs : Str} {i : Nat} (k : Nat) (next : Option Str)
    (hf : findShort opts c = some i) (ht : (opts.getD i default).type = 0) (hcs : cs ≠ []) :
    parseStd opts k (c :: cs) next = (.set i none (k + 1) :: (parseStd opts k cs next).1, (parseStd opts k cs next).2) :=
  parseStd_cluster_flag k next hf ht hcs

/-- a run of settings that succeeds is a history in the sense of `runSets` -/
theorem successful_run_is_history (es : List Ev) (g g' : G) (m : Bool) (h : runEvs g es = .done g' .ok m) :
    runSets g es = some g' := runEvs_ok_runSets es g g' m h

/-- a config file processed successfully is the history of its settings (file counter advanced afterwards) -/
theorem successful_cfgfile_is_history (src : Nat) (is : List CfgItem) (g g' : G) (m : Bool) (h : runCfg src g is = .done g' .ok m) :
    ∃ g0, runSets g (cfgEvs src is) = some g0 ∧ g' = { g0 with nfiles := g0.nfiles + 1 } := runCfg_ok_runSets src is g g' m h

/-- a command line processed successfully is the history of its settings (`optind` recorded afterwards) -/
theorem successful_cmdline_is_history (is : List CmdItem) (g g' : G) (m : Bool)
    (h : runCmd (fun g' => .done g' .ok false) g is = .done g' .ok m) :
    ∃ g0, runSets g (cmdEvs is) = some g0 ∧ g'.val = g0.val ∧ g'.setby = g0.setby ∧ g'.opts = g0.opts :=
  runCmd_ok_runSets is g g' m h

/-- composed: a command line / config file / environment that is processed successfully is a `set_option` history over
    the settings parsed from it, so `last_setter_wins`, `untouched_keeps_state`, `toggle_switches_others_off` apply to
    it; since they hold for an arbitrary initial object, they apply to every source of a sequence in turn -/
theorem cmdline_success_is_history (g g' : G) (argv : List Str) (m : Bool) (h : processCmdline g argv = .done g' .ok m) :
    ∃ g0, runSets { g with argv := argv, optind := 1 } (cmdEvs (parseCmd g.opts 1 (argv.drop 1) false)) = some g0 ∧
      g'.val = g0.val ∧ g'.setby = g0.setby ∧ g'.opts = g0.opts := by
  rw [processCmdline_eq] at h
  exact runCmd_ok_runSets _ _ g' m h

theorem cfgfile_success_is_history (g g' : G) (content : Str) (m : Bool) (h : processConfigfile g content = .done g' .ok m) :
    ∃ g0, runSets g (cfgEvs (byCfgfile + g.nfiles) ((fileLines content).filterMap (cfgItem g.opts))) = some g0 ∧
      g' = { g0 with nfiles := g0.nfiles + 1 } := by
  rw [processConfigfile_eq] at h
  exact runCfg_ok_runSets _ _ g g' m h

theorem environment_success_is_history (g g' : G) (env : Str → Option Str) (m : Bool) (h : processEnvironment g env = .done g' .ok m) :
    runSets g (envEvents env 0 g.opts) = some g' := by
  rw [processEnvironment_eq] at h
  exact runEvs_ok_runSets _ g g' m h

/-- the settings parsed from any source refer to options of the table: the index hypothesis of the history theorems
    below is discharged for real sources -/
theorem parsed_settings_are_in_table (opts : List Opt) :
    (∀ (ws : List Str) (k : Nat), ∀ e ∈ cmdEvs (parseCmd opts k ws false), e.i < opts.length) ∧
    (∀ (src : Nat) (lines : List Str), ∀ e ∈ cfgEvs src (lines.filterMap (cfgItem opts)), e.i < opts.length) ∧
    (∀ (env : Str → Option Str), ∀ e ∈ envEvents env 0 opts, e.i < opts.length) :=
  ⟨fun ws k => cmdline_events_in_table opts ws k, fun src lines => cfgfile_events_in_table opts src lines,
   fun env => env_events_in_table env opts⟩

/-- (a) for a real command line, with no side hypotheses left: if it is processed successfully and `e` is the last of its
    settings that touches option `e.i`, then afterwards that option holds `e`'s value and names the command line as setter -/
theorem cmdline_last_setter_wins (g g' : G) (argv : List Str) (m : Bool) (hinv : Inv g)
    (h : processCmdline g argv = .done g' .ok m) (pre post : List Ev) (e : Ev)
    (hsplit : cmdEvs (parseCmd g.opts 1 (argv.drop 1) false) = pre ++ e :: post)
    (hlast : ∀ e' ∈ post, touches g.opts e' e.i = false) :
    g'.valOf e.i = newVal (g.opt e.i) e.arg ∧ g'.setter e.i = e.src := by
  obtain ⟨g0, h1, hv, hs, _⟩ := cmdline_success_is_history g g' argv m h
  have hin := cmdline_events_in_table g.opts (argv.drop 1) 1
  rw [hsplit] at h1 hin
  have := runSets_last_set pre post e { g with argv := argv, optind := 1 } g0 ⟨hinv.hv, hinv.hs⟩ hin h1 hlast
  have e1 : g'.valOf e.i = g0.valOf e.i := by simp [G.valOf, hv]
  have e2 : g'.setter e.i = g0.setter e.i := by simp [G.setter, hs]
  rw [e1, e2]
  exact this

/-- … and an option that none of its settings touches keeps the value and setter it had before the command line -/
theorem cmdline_untouched_keeps_state (g g' : G) (argv : List Str) (m : Bool) (hinv : Inv g)
    (h : processCmdline g argv = .done g' .ok m) (j : Nat)
    (ht : ∀ e ∈ cmdEvs (parseCmd g.opts 1 (argv.drop 1) false), touches g.opts e j = false) :
    g'.valOf j = g.valOf j ∧ g'.setter j = g.setter j := by
  obtain ⟨g0, h1, hv, hs, _⟩ := cmdline_success_is_history g g' argv m h
  have hin := cmdline_events_in_table g.opts (argv.drop 1) 1
  obtain ⟨a, b, _, _⟩ := runSets_untouched _ { g with argv := argv, optind := 1 } g0 j ⟨hinv.hv, hinv.hs⟩ hin h1 ht
  have e1 : g'.valOf j = g0.valOf j := by simp [G.valOf, hv]
  have e2 : g'.setter j = g0.setter j := by simp [G.setter, hs]
  rw [e1, e2]
  exact ⟨a, b⟩

theorem last_setter_wins (pre post : List Ev) (e : Ev) (g g' : G) (hinv : Inv g)
    (hi : ∀ e' ∈ pre ++ e :: post, e'.i < g.opts.length)
    (h : runSets g (pre ++ e :: post) = some g') (hlast : ∀ e' ∈ post, touches g.opts e' e.i = false) :
    g'.valOf e.i = newVal (g.opt e.i) e.arg ∧ g'.setter e.i = e.src :=
  runSets_last_set pre post e g g' hinv hi h hlast

theorem untouched_keeps_state (es : List Ev) (g g' : G) (j : Nat) (hinv : Inv g) (hi : ∀ e ∈ es, e.i < g.opts.length)
    (h : runSets g es = some g') (ht : ∀ e ∈ es, touches g.opts e j = false) :
    g'.valOf j = g.valOf j ∧ g'.setter j = g.setter j :=
  let ⟨a, b, _, _⟩ := runSets_untouched es g g' j hinv hi h ht; ⟨a, b⟩

theorem fresh_object_all_default {opts : List Opt} {g : G} (h : create opts = some g) :
    g.opts = opts ∧ Inv g ∧ g.spoofed = false ∧ g.nfiles = 0 ∧
    ∀ i, i < opts.length → g.setter i = byDefault ∧ isDefault g i = true ∧
      g.valOf i = (match (g.opt i).defval with | some d => Val.str d | none => Val.null) := create_spec h

/-- `esl_getopts_Reuse` = back to the freshly created object: histories start over -/
theorem reuse_restores_defaults {opts : List Opt} {g0 g : G} (h : create opts = some g0) (hg : g.opts = opts) : reuse g = g0 :=
  reuse_eq_create h hg

theorem same_source_twice_is_usage_error {g g1 : G} {i src : Nat} {arg arg' : Option Str} {m : Bool} (hinv : Inv g)
    (hi : i < g.opts.length) (h : setOption g i arg src = .done g1 .ok m) :
    setOption g1 i arg' src = .done g1 .esyntax true := same_source_twice hinv hi h

theorem set_after_toggle_by_same_source_is_usage_error {g g1 : G} {i j src : Nat} {arg arg' : Option Str} {m : Bool}
    (hinv : Inv g) (hi : i < g.opts.length) (h : setOption g i arg src = .done g1 .ok m) (hj : j ≠ i)
    (hmem : j ∈ listIdx g.opts (g.opt i).toggle) (hon : (g.valOf j).isNull = false) :
    setOption g1 j arg' src = .done g1 .esyntax true := set_after_toggle_same_source hinv hi h hj hmem hon

/-! ## (b) toggle groups -/

/-- a successful `set_option(i, arg, src)`: option `i` gets the value and `src`; every *other* member of `i`'s toggle
    list that was on is switched off and records `src`; every other option is untouched; no message -/
theorem set_option_spec {g g' : G} {i src : Nat} {arg : Option Str} {m : Bool} (hinv : Inv g) (hi : i < g.opts.length)
    (h : setOption g i arg src = .done g' .ok m) :
    m = false ∧ Inv g' ∧ SameFrame g g' ∧ g.setter i ≠ src ∧ verifyTypeRange (g.opt i) arg src = .good ∧
    ∀ j, (g'.valOf j, g'.setter j) = setSpec g i arg src j :=
  let ⟨a, b, c, d, e, _, f⟩ := setOption_ok hinv hi h; ⟨a, b, c, d, e, f⟩

/-- an element of a toggle / required / incompatible list denotes the option of exactly that name (no earlier row
    may have a name that merely starts with it), and a comma-separated list is read back name by name: under these
    two conditions `listIdx` — used in (b) and in `verifyConfig_ok_iff_consistent` — is the list of the named options -/
theorem optlist_element_denotes_named_option {opts : List Opt} {i : Nat} {o : Opt} (hi : opts[i]? = some o)
    (hfirst : ∀ (j : Nat) (o' : Opt), j < i → opts[j]? = some o' → o.name.isPrefixOf o'.name = false) :
    optlistResolve opts o.name = some i := optlistResolve_named hi hfirst

theorem optlist_reads_back_names (names : List Str) (h : ∀ n ∈ names, ',' ∉ n ∧ n ≠ []) :
    optlistElems (some (joinComma names)) = names := optlistElems_joinComma names h

theorem toggle_switches_others_off (pre post : List Ev) (e : Ev) (j : Nat) (g g' : G) (hinv : Inv g)
    (hi : ∀ e' ∈ pre ++ e :: post, e'.i < g.opts.length)
    (h : runSets g (pre ++ e :: post) = some g') (hj : j ≠ e.i) (hmem : j ∈ listIdx g.opts (g.opt e.i).toggle)
    (hlast : ∀ e' ∈ post, touches g.opts e' j = false) :
    isOn g' j = false ∧
    ∃ g1, runSets g pre = some g1 ∧ (if isOn g1 j then g'.setter j = e.src else g'.setter j = g1.setter j) :=
  runSets_toggled pre post e j g g' hinv hi h hj hmem hlast

/-! ## (c) abbreviated long options -/

theorem abbrev_full_name_resolves {opts : List Opt} {key : Str} {e : Nat} {o : Opt} (he : opts[e]? = some o)
    (hname : o.name = key) (hfirst : ∀ j o', j < e → opts[j]? = some o' → o'.name ≠ key) :
    optidxAbbrev opts key = .found e := abbrev_exact he hname hfirst

theorem abbrev_resolves_iff_unique {opts : List Opt} {key : Str} (hne : ∀ o' ∈ opts, o'.name ≠ key) (u : Nat) :
    optidxAbbrev opts key = .found u ↔
    ∃ o, opts[u]? = some o ∧ isAbbr key o = true ∧ ∀ (j : Nat) (o' : Opt), opts[j]? = some o' → isAbbr key o' = true → j = u :=
  abbrev_resolves_iff hne u

theorem abbrev_ambiguous_iff_two {opts : List Opt} {key : Str} (hne : ∀ o' ∈ opts, o'.name ≠ key) :
    optidxAbbrev opts key = .ambiguous ↔
    ∃ (i j : Nat) (a b : Opt), i < j ∧ opts[i]? = some a ∧ opts[j]? = some b ∧ isAbbr key a = true ∧ isAbbr key b = true :=
  abbrev_ambiguous_iff hne

theorem abbrev_unknown_iff {opts : List Opt} {key : Str} :
    optidxAbbrev opts key = .notfound ↔ ∀ o ∈ opts, isAbbr key o = false := abbrev_notfound_iff

/-! ## (d) end of options, arguments -/

theorem dashdash_ends_options (g : G) (k : Nat) (rest : List Str) :
    cmdLoop g k (['-', '-'] :: rest) false = .done { g with optind := k + 1 } .ok false := cmdLoop_dashdash g k rest

theorem first_nonoption_ends_options (g : G) (k : Nat) (w : Str) (rest : List Str) (h : isArgWord w = true) :
    cmdLoop g k (w :: rest) false = .done { g with optind := k } .ok false := cmdLoop_argword g k w rest h

/-- the clause "plus/minus-prefixed booleans set and unset" of the statement has no counterpart in this version of the
    code: a word beginning with `+` ends the options like any other non-option word -/
theorem plus_word_is_argument (g : G) (k : Nat) (r : Str) (rest : List Str) :
    cmdLoop g k (('+' :: r) :: rest) false = .done { g with optind := k } .ok false :=
  cmdLoop_argword g k _ rest (plus_is_argword r)

/-- a successfully processed command line stops at the end of argv, at the first non-option word (no leading `-`,
    or `-` alone), or immediately after a `--`; `optind` is that position and `argv` is kept -/
theorem options_end_where_documented (g g' : G) (argv : List Str) (m : Bool) (h : processCmdline g argv = .done g' .ok m) :
    g'.argv = argv ∧ StopsAt 1 (argv.drop 1) g'.optind := processCmdline_stops g g' argv m h

theorem args_returned_in_order (g : G) (pre rest : List Str) (hargv : g.argv = pre ++ rest) (hk : g.optind = pre.length) (n : Nat) :
    getArg g ((n : Int) + 1) = rest[n]? ∧ argNumber g = rest.length := getArg_of_split g pre rest hargv hk n

/-- (d) **remaining arguments are returned in order**: after a successful `esl_opt_ProcessCmdline`, `GetArg(1), GetArg(2), …`
    are exactly the words of `argv` from the position where the options ended (see `options_end_where_documented`),
    and `ArgNumber` is their count -/
theorem remaining_args_in_order (g g' : G) (argv : List Str) (m : Bool) (h : processCmdline g argv = .done g' .ok m) (n : Nat) :
    getArg g' ((n : Int) + 1) = (argv.drop g'.optind)[n]? := by
  rw [getArg_drop, (processCmdline_stops g g' argv m h).1]

theorem getArg_is_argv_from_optind (g : G) (n : Nat) :
    getArg g ((n : Int) + 1) = if g.optind + n < g.argc then g.argv[g.optind + n]? else none := getArg_spec g n

/-! ## (e) usage errors, never a crash -/

theorem cmdline_ends_cleanly (g : G) (argv : List Str) (hinv : Inv g) (hw : WF g.opts) : Good g (processCmdline g argv) :=
  processCmdline_good g argv hinv hw

theorem spoof_ends_cleanly (g : G) (s : Str) (hinv : Inv g) (hw : WF g.opts) (hs : g.spoofed = false) : Good g (processSpoof g s) :=
  processSpoof_good g s hinv hw hs

theorem environment_ends_cleanly (g : G) (env : Str → Option Str) (hinv : Inv g) (hw : WF g.opts) : Good g (processEnvironment g env) :=
  processEnvironment_good g env hinv hw

theorem configfile_ends_cleanly (g : G) (content : Str) (hinv : Inv g) (hw : WF g.opts) : Good g (processConfigfile g content) :=
  processConfigfile_good g content hinv hw

/-- **every history of API calls ends cleanly** (statement's "never accepted silently and never a crash", over all
    sequences of sources in any order) -/
theorem every_history_ends_cleanly (ss : List Src) (g : G) (hinv : Inv g) (hw : WF g.opts) :
    ∃ outs g', runAll g ss = some (outs, g') ∧ outs.length = ss.length ∧ Inv g' ∧ g'.opts = g.opts ∧
      ∀ o ∈ outs, Clean o.1 o.2 ∨ o = (.einval, true) := runAll_clean ss g hinv hw

/-- exactly when a setting succeeds: not yet set by this source, right type, in range, and no toggle partner that is
    on was set or toggled by the same source; in every other case: usage error with a message -/
theorem setting_succeeds_iff {g : G} {i src : Nat} {arg : Option Str} (hinv : Inv g)
    (hw : WFOpt g.opts (g.opt i)) (harg : arg.isSome ∨ (g.opt i).type ≠ 3) :
    ((∃ g', setOption g i arg src = .done g' .ok false) ↔
      (g.setter i ≠ src ∧ verifyTypeRange (g.opt i) arg src = .good ∧ ¬ Conflict g i src (listIdx g.opts (g.opt i).toggle))) ∧
    ((∃ g', setOption g i arg src = .done g' .esyntax true) ↔
      ¬ (g.setter i ≠ src ∧ verifyTypeRange (g.opt i) arg src = .good ∧ ¬ Conflict g i src (listIdx g.opts (g.opt i).toggle))) :=
  setOption_ok_iff hinv hw harg

/-- "a value of the wrong type", integers: accepted iff blanks, optional sign, at least one digit, blanks -/
theorem integer_argument_syntax (s : Str) : isInteger s = true ↔ IntSyntax s := isInteger_iff s

/-- "a value of the wrong type", reals: whatever is accepted as a real (in the modelled decimal grammar) consists of
    blanks, optional sign, digits with an optional point (at least one digit), optional exponent, blanks -/
theorem real_argument_syntax (s : Str) (h : isReal s = true) : RealSyntax s := isReal_sound s h

/-- … and conversely everything of that shape is accepted: an exact characterisation -/
theorem real_argument_syntax_iff (s : Str) : isReal s = true ↔ RealSyntax s := isReal_iff s

/-- "a value of the wrong type", characters: accepted iff at most one character (then the range is consulted) -/
theorem char_argument_syntax (o : Opt) (v : Str) (src : Nat) (ht : o.type = 3) :
    verifyTypeRange o (some v) src = .good ↔ (v.length ≤ 1 ∧ charRangeOk v o.range = true) := by
  unfold verifyTypeRange
  have h0 : (src == byDefault && (some v).isNone) = false := by simp
  simp only [h0, Bool.false_eq_true, ↓reduceIte, ht]
  by_cases hl : v.length > 1
  · simp [hl]
  · cases hr : charRangeOk v o.range <;> simp [hl, hr] <;> omega

/-- the hypothesis `WF` of the theorems is computable (`wfB`), and so is the stricter class of tables following the
    documented conventions (`wfStrictB`: distinct `-c`/`--word` names, list elements resolving to exactly the named
    options, toggle lists naming only boolean/string options, valid defaults); the driver evaluates `wfStrictB` on every
    table of the correspondence run, so the generator provably stays inside the hypothesis -/
theorem wf_is_computable (opts : List Opt) : wfB opts = true ↔ WF opts := wfB_iff opts

theorem strict_tables_are_wf {opts : List Opt} (h : wfStrictB opts = true) : WF opts := wfStrictB_wf h

/-- from `esl_getopts_Create` on: for a table passing the computable check, every sequence of sources ends cleanly -/
theorem created_object_every_history_clean {opts : List Opt} {g : G} (hc : create opts = some g) (hw : wfB opts = true) (ss : List Src) :
    ∃ outs g', runAll g ss = some (outs, g') ∧ outs.length = ss.length ∧ Inv g' ∧ g'.opts = opts ∧
      ∀ o ∈ outs, Clean o.1 o.2 ∨ o = (.einval, true) := by
  obtain ⟨ho, hinv, _⟩ := create_spec hc
  obtain ⟨outs, g', h1, h2, h3, h4, h5⟩ := runAll_clean ss g hinv (by rw [ho]; exact (wfB_iff opts).mp hw)
  exact ⟨outs, g', h1, h2, h3, h4.trans ho, h5⟩

/-- already set by this source, wrong type, out of range: usage error with a message, object untouched -/
theorem rejected_setting_changes_nothing {g : G} {i src : Nat} {arg : Option Str}
    (h : g.setter i = src ∨ verifyTypeRange (g.opt i) arg src = .bad) : setOption g i arg src = .done g .esyntax true :=
  setOption_rejected h

theorem unknown_long_option (g : G) (k : Nat) (r : Str) (tl : List Str) (hr : r ≠ [])
    (h : optidxAbbrev g.opts (splitEq ('-' :: '-' :: r)).1 = .notfound) :
    cmdLoop g k (('-' :: '-' :: r) :: tl) false = .done { g with optind := k } .esyntax true := by
  have h2 : (('-' :: '-' :: r) == ['-', '-']) = false := by
    cases r with
    | nil => exact absurd rfl hr
    | cons a b => rfl
  rw [cmdLoop_afterStep g k _ tl (by simp [isArgWord, startsWithDash]) h2]
  simp [optStep, longOpt, h, afterStep]

theorem ambiguous_long_option (g : G) (k : Nat) (r : Str) (tl : List Str) (hr : r ≠ [])
    (h : optidxAbbrev g.opts (splitEq ('-' :: '-' :: r)).1 = .ambiguous) :
    cmdLoop g k (('-' :: '-' :: r) :: tl) false = .done { g with optind := k } .esyntax true := by
  have h2 : (('-' :: '-' :: r) == ['-', '-']) = false := by
    cases r with
    | nil => exact absurd rfl hr
    | cons a b => rfl
  rw [cmdLoop_afterStep g k _ tl (by simp [isArgWord, startsWithDash]) h2]
  simp [optStep, longOpt, h, afterStep]

/-- `--flag=value` for an option that takes no argument -/
theorem argument_to_flag (g : G) (k i : Nat) (r a : Str) (tl : List Str) (hr : r ≠ [])
    (h : optidxAbbrev g.opts (splitEq ('-' :: '-' :: r)).1 = .found i) (ha : (splitEq ('-' :: '-' :: r)).2 = some a)
    (ht : (g.opt i).type = 0) :
    cmdLoop g k (('-' :: '-' :: r) :: tl) false = .done { g with optind := k + 1 } .esyntax true := by
  have h2 : (('-' :: '-' :: r) == ['-', '-']) = false := by
    cases r with
    | nil => exact absurd rfl hr
    | cons a b => rfl
  rw [cmdLoop_afterStep g k _ tl (by simp [isArgWord, startsWithDash]) h2]
  simp [optStep, longOpt, h, ha, ht, afterStep]

/-- a long option that takes an argument, at the end of the command line, without `=value` -/
theorem missing_argument_long (g : G) (k i : Nat) (r : Str) (hr : r ≠ [])
    (h : optidxAbbrev g.opts (splitEq ('-' :: '-' :: r)).1 = .found i) (ha : (splitEq ('-' :: '-' :: r)).2 = none)
    (ht : (g.opt i).type ≠ 0) :
    cmdLoop g k [('-' :: '-' :: r)] false = .done { g with optind := k + 1 } .esyntax true := by
  have h2 : (('-' :: '-' :: r) == ['-', '-']) = false := by
    cases r with
    | nil => exact absurd rfl hr
    | cons a b => rfl
  rw [cmdLoop_afterStep g k _ [] (by simp [isArgWord, startsWithDash]) h2]
  simp [optStep, longOpt, h, ha, ht, afterStep]

/-- an option character that is no single-character option — in particular a `-` inside a cluster (fix: DESIGN §7
    item 2) — is a usage error; options set earlier in the same cluster stay set (documented: processing is in order) -/
theorem unknown_short_option (g : G) (c : Char) (cs : Str) (next : Option Str) (h : findShort g.opts c = none) :
    stdLoop g (c :: cs) next = .stop g .esyntax true 1 := by
  simp [stdLoop, h]

/-- "outside its declared range", two-sided integer range `lo<[=]n<[=]hi` (`lo` an integer literal): accepted iff
    between the bounds, inclusive or exclusive as the `=` signs say -/
theorem int_range_two_sided (v lo hi : Str) (geq leq : Bool) (hlo : IntLit lo) (hhi : leq = false → hi.head? ≠ some '=') :
    intRangeOk v (some (twoSided 'n' lo geq leq hi)) =
      ((if geq then decide (atoi v ≥ atoi lo) else decide (atoi v > atoi lo)) &&
       (if leq then decide (atoi v ≤ atoi hi) else decide (atoi v < atoi hi))) := intRangeOk_twoSided v lo hi geq leq hlo hhi

theorem int_range_lower (v a : Str) (incl : Bool) (h : incl = false → a.head? ≠ some '=') :
    intRangeOk v (some ('n' :: '>' :: ((if incl then ['='] else []) ++ a))) =
      (if incl then decide (atoi v ≥ atoi a) else decide (atoi v > atoi a)) := intRangeOk_lower v a incl h

theorem int_range_upper (v b : Str) (incl : Bool) (h : incl = false → b.head? ≠ some '=') :
    intRangeOk v (some ('n' :: '<' :: ((if incl then ['='] else []) ++ b))) =
      (if incl then decide (atoi v ≤ atoi b) else decide (atoi v < atoi b)) := intRangeOk_upper v b incl h

/-- the documented two-sided range form is parsed as intended for every marker (`n`, `x`, `c`) -/
theorem range_string_two_sided (c : Char) (lo hi : Str) (geq leq : Bool) (hc : c ∉ lo) (hc1 : c ≠ '<') (hc2 : c ≠ '=')
    (hhi : leq = false → hi.head? ≠ some '=') :
    parseRange (twoSided c lo geq leq hi) c =
      some { lower := some (twoSided c lo geq leq hi), geq := geq, upper := some hi, leq := leq } :=
  parseRange_twoSided c lo hi geq leq hc hc1 hc2 hhi

/-- real-valued ranges: the comparison is the order of the rationals that the decimal spellings denote
    (`Dec.value`); the lower bound of a two-sided range is what `atof` reads at the start of the range string -/
theorem real_range_two_sided (v lo hi : Str) (geq leq : Bool) (hc : 'x' ∉ lo) (hhi : leq = false → hi.head? ≠ some '=') :
    realRangeOk v (some (twoSided 'x' lo geq leq hi)) = true ↔
      ((if geq then (atof (twoSided 'x' lo geq leq hi)).value ≤ (atof v).value
                else (atof (twoSided 'x' lo geq leq hi)).value < (atof v).value) ∧
       (if leq then (atof v).value ≤ (atof hi).value else (atof v).value < (atof hi).value)) :=
  realRangeOk_twoSided_iff v lo hi geq leq hc hhi

/-- … and when the lower bound is written as a plain decimal literal (as in all documented examples) it is that
    literal's value -/
theorem real_range_two_sided_literal (v lo hi : Str) (geq leq : Bool) {neg : Bool} {ip fp : Str} {dot : Bool}
    (hlo : RealLit lo neg ip fp dot) (hhi : leq = false → hi.head? ≠ some '=') :
    realRangeOk v (some (twoSided 'x' lo geq leq hi)) = true ↔
      ((if geq then (atof lo).value ≤ (atof v).value else (atof lo).value < (atof v).value) ∧
       (if leq then (atof v).value ≤ (atof hi).value else (atof v).value < (atof hi).value)) :=
  realRangeOk_twoSided_lit v lo hi geq leq hlo hhi

/-- a plain decimal literal (optional `-`, digits, optional `.` digits) is accepted as a real argument and denotes the
    expected rational -/
theorem plain_decimal_is_real {s : Str} {neg : Bool} {ip fp : Str} {dot : Bool} (h : RealLit s neg ip fp dot) :
    isReal s = true ∧
    (atof s).value = (if neg then -1 else 1) * (digitsVal (ip ++ fp) : ℚ) * (10 : ℚ) ^ (-(fp.length : Int)) :=
  ⟨isReal_lit h, value_of_lit h⟩

theorem real_range_lower (v a : Str) (incl : Bool) (h : incl = false → a.head? ≠ some '=') :
    realRangeOk v (some ('x' :: '>' :: ((if incl then ['='] else []) ++ a))) = true ↔
      (if incl then (atof a).value ≤ (atof v).value else (atof a).value < (atof v).value) := realRangeOk_lower_iff v a incl h

theorem real_range_upper (v b : Str) (incl : Bool) (h : incl = false → b.head? ≠ some '=') :
    realRangeOk v (some ('x' :: '<' :: ((if incl then ['='] else []) ++ b))) = true ↔
      (if incl then (atof v).value ≤ (atof b).value else (atof v).value < (atof b).value) := realRangeOk_upper_iff v b incl h

theorem char_range_two_sided (v lo hi : Str) (geq leq : Bool) (hc : 'c' ∉ lo) (hne : lo ≠ []) (hhi : leq = false → hi.head? ≠ some '=') :
    charRangeOk v (some (twoSided 'c' lo geq leq hi)) =
      ((if geq then decide ((v.getD 0 '\x00').toNat ≥ (lo.getD 0 '\x00').toNat) else decide ((v.getD 0 '\x00').toNat > (lo.getD 0 '\x00').toNat)) &&
       (if leq then decide ((v.getD 0 '\x00').toNat ≤ (hi.getD 0 '\x00').toNat) else decide ((v.getD 0 '\x00').toNat < (hi.getD 0 '\x00').toNat))) :=
  charRangeOk_twoSided v lo hi geq leq hc hne hhi

theorem verifyConfig_ok_iff_consistent (g : G) (hw : WF g.opts) :
    (verifyConfig g = (.ok, false) ∧ ∀ j, j < g.opts.length → g.isSetOn j = true → ReqOk g j ∧ IncOk g j) ∨
    (verifyConfig g = (.esyntax, true) ∧ ∃ j, j < g.opts.length ∧ g.isSetOn j = true ∧ (¬ ReqOk g j ∨ ¬ IncOk g j)) :=
  verifyConfig_spec g hw

/-! ## (f) queries -/

theorem isUsed_iff (g : G) (i : Nat) : isUsed g i = (!isDefault g i && isOn g i) := isUsed_eq g i

theorem isDefault_of_default_setter (g : G) (i : Nat) (h : g.setter i = byDefault) : isDefault g i = true :=
  isDefault_of_setter g i h

theorem not_default_has_setter (g : G) (i : Nat) (h : isDefault g i = false) : g.setter i ≠ byDefault :=
  setter_of_not_default g i h

/-! ## non-vacuity: a concrete well-formed table and concrete runs -/

def s (x : String) : Str := x.toList

/-- `-a`, `-b`/`--no-b` toggle group, `-n` integer in `0<=n<10`, `--lown` requires `-a`, `--hin` incompatible with `--no-b`,
    `--multi`/`--mul` share a prefix -/
def demo : List Opt := [
  { name := s "-a", type := 0 },
  { name := s "-b", type := 0, toggle := some (s "-b,--no-b") },
  { name := s "--no-b", type := 0, defval := some (s "TRUE"), toggle := some (s "-b,--no-b") },
  { name := s "-n", type := 1, defval := some (s "0"), range := some (s "0<=n<10") },
  { name := s "--lown", type := 1, defval := some (s "42"), range := some (s "n>0"), required := some (s "-a") },
  { name := s "--hin", type := 1, defval := some (s "-1"), range := some (s "n<0"), incompat := some (s "--no-b") },
  { name := s "--multi", type := 4 },
  { name := s "--mul", type := 0 } ]

def demoG : G := (create demo).getD default

example : create demo = some demoG := by decide
example : wfStrictB demo = true := by decide
example : Inv demoG := ⟨by decide, by decide⟩

theorem demo_wf : WF demo := by
  intro o ho
  simp only [demo, List.mem_cons, List.not_mem_nil, or_false] at ho
  rcases ho with rfl | rfl | rfl | rfl | rfl | rfl | rfl | rfl <;>
    exact ⟨by decide, by decide, by decide, by decide, by decide⟩

/-- `-ab` (cluster) then `--mu` is ambiguous? no: `--mul` and `--multi` both start with `--mu` -/
example : optidxAbbrev demo (s "--mu") = .ambiguous := by decide
example : optidxAbbrev demo (s "--mul") = .found 7 := by decide
example : optidxAbbrev demo (s "--mult") = .found 6 := by decide
example : optidxAbbrev demo (s "--zzz") = .notfound := by decide

/-- cluster `-ab`, value `-n9`, then `--`, then two arguments one of which looks like an option -/
def run1 : G := match processCmdline demoG [s "prog", s "-ab", s "-n9", s "--", s "-x", s "+y"] with
  | .done g .ok false => g
  | _ => default
example : (run1.optind, run1.valOf 0, run1.valOf 1, run1.valOf 2, run1.setter 2) = (4, .one, .one, .null, 1) := by decide
example : (run1.valOf 3, getArg run1 1, getArg run1 2, getArg run1 3) = (.str (s "9"), some (s "-x"), some (s "+y"), none) := by decide

/-- range and type errors, unmet requirement, violated incompatibility -/
example : (match processCmdline demoG [s "prog", s "-n", s "10"] with | .done g st m => (st, m, g.valOf 3) | .fault => default)
    = (.esyntax, true, .str (s "0")) := by decide
example : (match processCmdline demoG [s "prog", s "-n", s "x"] with | .done _ st m => (st, m) | .fault => default) = (.esyntax, true) := by decide
example : (match processCmdline demoG [s "prog", s "--lown", s "5"] with | .done g _ _ => verifyConfig g | .fault => default) = (.esyntax, true) := by decide
example : (match processCmdline demoG [s "prog", s "--lown", s "5", s "-a"] with | .done g _ _ => verifyConfig g | .fault => default) = (.ok, false) := by decide
example : (match processCmdline demoG [s "prog", s "--hin=-3"] with | .done g _ _ => verifyConfig g | .fault => default) = (.ok, false) := by decide
/-- `-a-`: the `-` inside the cluster is not an option (it used to select the first long option) -/
example : (match processCmdline demoG [s "prog", s "-a-"] with | .done g st m => (st, m, g.valOf 0, g.valOf 4) | .fault => default)
    = (.esyntax, true, .one, .str (s "42")) := by decide
/-- config file then command line: the later source wins, the toggle partner is switched off and records the setter -/
def run2 : G := match processConfigfile demoG (s "-b\n-n 3 # comment\n") with
  | .done g .ok false => (match processCmdline g [s "prog", s "--no-b", s "-n", s "7"] with
      | .done g' .ok false => g'
      | _ => default)
  | _ => default
example : (run2.valOf 1, run2.setter 1, run2.valOf 2, run2.setter 2) = (.null, 1, .str (s "TRUE"), 1) := by decide
example : (run2.valOf 3, run2.setter 3, run2.nfiles) = (.str (s "7"), 1, 1) := by decide
/-- a config-file line naming an argument-taking option without argument (fix 8d4fde4) -/
example : (match processConfigfile demoG (s "-n\n") with | .done g st m => (st, m, g.nfiles) | .fault => default) = (.esyntax, true, 0) := by decide

/-- histories: config file 1 sets `-b` (setter 3), the command line then sets `--no-b` (setter 1): `--no-b` is the last
    call touching both options; instances of `last_setter_wins` and `toggle_switches_others_off` -/
def hist : List Ev := [⟨1, none, 3⟩, ⟨3, some (s "5"), 3⟩, ⟨2, none, 1⟩]
def histG : G := (runSets demoG hist).getD default
example : runSets demoG hist = some histG := by decide
example : ∀ e' ∈ ([] : List Ev), touches demoG.opts e' 2 = false := by decide
example : (histG.valOf 2, histG.setter 2) = (newVal (demoG.opt 2) none, 1) := by decide
example : 1 ∈ listIdx demoG.opts (demoG.opt 2).toggle ∧ isOn histG 1 = false ∧ histG.setter 1 = 1 := by decide
example : touches demoG.opts ⟨2, none, 1⟩ 3 = false ∧ (histG.valOf 3, histG.setter 3) = (.str (s "5"), 3) := by decide
/-- a toggle conflict: `-b` and `--no-b` from the same source -/
example : Conflict ((runSets demoG [⟨1, none, 1⟩]).getD default) 2 1 (listIdx demo (demoG.opt 2).toggle) :=
  ⟨1, by decide, by decide, by decide, by decide⟩
example : (match setOption ((runSets demoG [⟨1, none, 1⟩]).getD default) 2 none 1 with | .done _ st m => (st, m) | .fault => (.ok, false))
    = (.esyntax, true) := by decide
example : CfgEntry.Good demo ⟨3, s "-n", some (s "7")⟩ ∧ CfgEntry.Good demo ⟨0, s "-a", none⟩ :=
  ⟨⟨⟨by decide, by decide⟩, by decide, by decide, ⟨⟨by decide, by decide⟩, by decide, by decide⟩⟩,
   ⟨⟨by decide, by decide⟩, by decide, by decide, by decide⟩⟩
/-- command-line forms on the demo table -/
example : parseCmd demo 1 [s "-ab", s "-n9", s "--lown=5", s "--hin", s "-3", s "--", s "x"] false =
    [.set 0 none 2, .set 1 none 2, .set 3 (some (s "9")) 3, .set 4 (some (s "5")) 4, .set 5 (some (s "-3")) 6, .stop .ok false 7] := by decide
/-- spoofed command line = argv of its words; config-file line forms -/
example : SpoofWord (s "--lown=5") ∧ SpoofWord (s "-a") ∧ joinSp [s "prog", s "-a", s "--lown=5"] = s "prog -a --lown=5" := by
  refine ⟨⟨⟨by decide, by decide⟩, by decide⟩, ⟨⟨by decide, by decide⟩, by decide⟩, by decide⟩
example : cfgItem demo (s "-n 7\n") = some (.set 3 (some (s "7"))) ∧ cfgItem demo (s "-a\n") = some (.set 0 none) ∧
    cfgItem demo (s "-n\n") = some .usage ∧ cfgItem demo (s "--mu\n") = some .usage := by decide
/-- `every_history_ends_cleanly` on a concrete history (bad value, then config file, then `--` handling) -/
example : (runAll demoG [.cmdline [s "prog", s "-n", s "99"], .cfg (s "-b\n-n 3\n"), .cmdline [s "prog", s "--no-b", s "--", s "-a"]]).map (·.1)
    = some [(.esyntax, true), (.ok, false), (.ok, false)] := by decide

/-- documented range strings -/
example : RealLit (s "-1.5") true (s "1") (s "5") true := ⟨by decide, by decide, by decide, by decide, by decide⟩
example : RealLit (s "0") false (s "0") [] false := ⟨by decide, by decide, by decide, by decide, by decide⟩
example : twoSided 'n' (s "0") true false (s "10") = s "0<=n<10" := by decide
example : IntLit (s "-100") := ⟨true, s "100", by decide, by decide, by decide⟩
example : intRangeOk (s "9") (some (s "0<=n<10")) = true ∧ intRangeOk (s "10") (some (s "0<=n<10")) = false ∧
    intRangeOk (s "-1") (some (s "0<=n<10")) = false := by decide
example : realRangeOk (s "0.5") (some (s "0<x<1")) = true ∧ realRangeOk (s "1") (some (s "0<x<1")) = false ∧
    realRangeOk (s "1e-3") (some (s "0<x<1")) = true ∧ realRangeOk (s "0.0") (some (s "0<x<1")) = false := by decide
example : charRangeOk (s "y") (some (s "a<=c<=z")) = true ∧ charRangeOk (s "A") (some (s "a<=c<=z")) = false := by decide

/-! ## the allocation layer: config-file values live in blocks that are reused (`do_alloc`, `valloc[]`)

The byte-level object `GC` of `Alloc.lean` is what the driver runs.  These theorems say that erasing its allocation
layer gives the abstract model all other theorems are about — so "the value is the one the last source gave" holds for
the *stored bytes* whatever the lengths of the values successive config files gave — that no block is overrun or read
without terminator, and what `valloc` is. -/

/-- the store step of `set_option`, either mode, any previous content of the cell: nothing is overrun, the invariant
    is kept, the stored C string is exactly the argument, and `valloc` is `max(old, strlen+1)` for a copied
    config-file argument and `0` for every pointer assignment -/
theorem alloc_store_exact {c : GC} (hinv : InvC c) (i : Nat) (arg : Option Str) (da : Bool)
    (hnf : da = true → ∀ a, arg = some a → NulFree a) :
    ∃ c1, storeC c i arg da = some c1 ∧ InvC c1 ∧
      c1.abs = { c.abs with val := c.abs.val.set i (newVal (c.opt i) arg) } ∧
      c1.setby = c.setby ∧ c1.opts = c.opts ∧
      (i < c.val.length → c1.vallocOf i = storeValloc (c.opt i) (c.vallocOf i) arg da) := storeC_spec hinv i arg da hnf

theorem alloc_set_option_refines {c : GC} (hinv : InvC c) (i : Nat) (arg : Option Str) (src : Nat) (da : Bool)
    (hnf : da = true → ∀ a, arg = some a → NulFree a) :
    (setOptionC c i arg src da).abs = setOption c.abs i arg src ∧ (setOptionC c i arg src da).Inv :=
  setOptionC_abs hinv i arg src da hnf

theorem alloc_valloc_after_set {c c' : GC} (hinv : InvC c) {i : Nat} (hi : i < c.val.length) {arg : Option Str} {src : Nat} {da : Bool}
    {st : Status} {m : Bool} (hnf : da = true → ∀ a, arg = some a → NulFree a)
    (h : setOptionC c i arg src da = .done c' st m) (hgood : verifyTypeRange (c.opt i) arg src = .good) (hs : c.setter i ≠ src) :
    c'.vallocOf i = storeValloc (c.opt i) (c.vallocOf i) arg da := setOptionC_ok_valloc hinv hi hnf h hgood hs

/-- every source, run on the byte-level object, is the abstract source on the erased object -/
theorem alloc_source_refines {c : GC} (h : InvC c) (s : Src) (hs : SrcText s) :
    (applySrcC c s).abs = applySrc c.abs s ∧ (applySrcC c s).Inv := applySrcC_abs h s hs

/-- a config file without NUL bytes hands only C strings to `set_option` -/
theorem alloc_cfg_text_args (opts : List Opt) (content : Str) (h : NulFree content) :
    CfgArgsOk ((fileLines content).filterMap (cfgItem opts)) := cfgArgsOk_of_text opts content h

theorem alloc_history_refines (ss : List Src) (c : GC) (hinv : InvC c) (htxt : ∀ s ∈ ss, SrcText s) :
    (runAllC c ss).map (fun r => (r.1, r.2.abs)) = runAll c.abs ss ∧
    ∀ outs c', runAllC c ss = some (outs, c') → InvC c' := runAllC_abs ss c hinv htxt

/-- from `esl_getopts_Create` on, for every table passing the computable check and every history of sources (config
    files being texts): the byte-level run never crashes, returns the statuses of the abstract run, ends in an object
    whose erasure is the abstract result, and every stored value can be read back (no getter leaves its block) -/
theorem alloc_created_history {opts : List Opt} {c : GC} (hc : createC opts = some c) (hw : wfB opts = true) (ss : List Src)
    (htxt : ∀ s ∈ ss, SrcText s) :
    ∃ outs c', runAllC c ss = some (outs, c') ∧ runAll c.abs ss = some (outs, c'.abs) ∧ InvC c' ∧ c'.readable = true ∧
      ∀ o ∈ outs, Clean o.1 o.2 ∨ o = (.einval, true) := by
  have hca : create opts = some c.abs := by rw [← createC_abs, hc]; rfl
  obtain ⟨outs, g', h1, _, _, _, h5⟩ := created_object_every_history_clean hca hw ss
  obtain ⟨ha, hi⟩ := runAllC_abs ss c (createC_inv hc) htxt
  rw [h1] at ha
  cases hr : runAllC c ss with
  | none => rw [hr] at ha; cases ha
  | some r =>
    rw [hr] at ha
    simp only [Option.map_some, Option.some.injEq, Prod.mk.injEq] at ha
    have hinv' := hi r.1 r.2 (by rw [hr])
    exact ⟨r.1, r.2, rfl, by rw [h1, ← ha.1, ← ha.2], hinv', hinv'.readable, by rw [ha.1]; exact h5⟩

/-- `esl_getopts_Reuse` frees every block: the object is the freshly created one, so a history after `Reuse` is a
    history on a fresh object -/
theorem alloc_reuse_is_fresh {opts : List Opt} {c0 c : GC} (hc : createC opts = some c0) (ho : c.opts = opts) : reuseC c = c0 := by
  rcases reuseC_eq_createC c with h | h
  · rw [ho, hc] at h; exact (Option.some.inj h).symm
  · rw [ho, hc] at h; cases h


/-- … so any history of sources after `Reuse` is that history on a fresh object, statuses and final bytes alike -/
theorem history_after_reuse_is_history_on_fresh_object {opts : List Opt} {c0 c : GC} (hc : createC opts = some c0) (ho : c.opts = opts)
    (ss : List Src) : runAllC (reuseC c) ss = runAllC c0 ss := by rw [alloc_reuse_is_fresh hc ho]

/-- the allocation layer on the demo table: two config files give `-n` a longer, then a shorter value; the block (4 bytes)
    is reused, the stored string is exactly the second value, the tail of the first survives beyond the terminator -/
def allocDemo : Option GC := (createC demo).bind fun c =>
  match processConfigfileC c (s "-n 007\n") with
  | .done c1 .ok false => (match processConfigfileC c1 (s "-n 3\n") with
      | .done c2 .ok false => some c2
      | _ => none)
  | _ => none
example : (allocDemo.map fun c => (c.valOf 3, c.vallocOf 3, (c.valOf 3).abs, c.setter 3, c.readable)) =
    some (.heap ['3', NUL, '7', NUL], 4, .str (s "3"), 4, true) := by decide
example : NulFree (s "-n 007\n") := by unfold NulFree; decide
example : SrcText (.cfg (s "-n 3\n")) ∧ SrcText (.cmdline [s "prog"]) := ⟨by show NulFree _; unfold NulFree; decide, trivial⟩
example : (createC demo).isSome = true ∧ wfB demo = true := by decide
/-- then the command line sets `-n`: the block is freed (`valloc = 0`), the value points into `argv` -/
example : (allocDemo.bind fun c => match processCmdlineC c [s "prog", s "-n", s "5"] with
    | .done c' .ok false => some (c'.valOf 3, c'.vallocOf 3) | _ => none) = some (.stat (s "5"), 0) := by decide

/-! ## option tables that are not well formed: the documented error, never a crash -/

/-- `esl_getopts_Create` on ANY table: NULL (`eslEINVAL`) iff a name lacks its `-` or a default fails its own
    type/range check; otherwise the all-default object -/
theorem create_on_any_table (opts : List Opt) :
    (create opts = none ↔ (∃ o ∈ opts, o.name.head? ≠ some '-') ∨ (∃ o ∈ opts, verifyTypeRange o o.defval byDefault ≠ .good)) ∧
    (∀ g, create opts = some g → g.opts = opts ∧ g.val = opts.map defaultVal ∧ g.setby = opts.map (fun _ => byDefault) ∧
      g.nfiles = 0 ∧ g.spoofed = false ∧ g.optind = 1 ∧ g.argv = []) := create_any_table opts

/-- the default check — the only code `Create` runs on table content — cannot reach `strlen(NULL)` -/
theorem create_never_crashes (o : Opt) : verifyTypeRange o o.defval byDefault ≠ .fault := verify_default_never_faults o

/-- duplicate names, unknown names in toggle/required/incompatible lists, ranges on string options: not looked at by `Create` -/
theorem create_does_not_check_lists (opts : List Opt) (h1 : ∀ o ∈ opts, o.name.head? = some '-') (h2 : ∀ o ∈ opts, o.defval = none) :
    (create opts).isSome = true := create_accepts_unchecked_defects opts h1 h2

/-- … they are reported as `eslEINVAL` when the list is walked: by `set_option` -/
theorem unknown_name_in_toggle_list (g : G) (i src : Nat) (e : Str) (es : List Str) (h : optlistResolve g.opts e = none) :
    toggleLoop g i src (e :: es) = .done g .einval false := unknown_toggle_name_is_einval g i src e es h

/-- … and by `esl_opt_VerifyConfig` -/
theorem unknown_name_in_required_list (g : G) (e : Str) (es : List Str) (h : optlistResolve g.opts e = none) :
    reqLoop g (e :: es) = some (.einval, false) ∧ ∀ i, incLoop g i (e :: es) = some (.einval, false) :=
  unknown_required_name_is_einval g e es h

/-- on any table `set_option` has a single crash site (`strlen(NULL)`: character option, no argument) and no source reaches it -/
theorem set_option_crash_site_unreachable (g : G) (i : Nat) (arg : Option Str) (src : Nat) (h : arg.isSome ∨ (g.opt i).type ≠ 3) :
    setOption g i arg src ≠ .fault := set_option_any_table_no_fault g i arg src h

/-- ill-formed tables: two options named `-a`, a toggle list naming `--zz`, a range on a string option — accepted by
    `Create`; an integer default `x`, a malformed range `=n<5` (fix 843fbc5), a name without `-` — refused -/
def illT : List Opt := [{ name := s "-a", type := 0, toggle := some (s "--zz") }, { name := s "-a", type := 4, range := some (s "s<3") }]
example : (create illT).isSome = true ∧ (∀ o ∈ illT, o.name.head? = some '-') ∧ (∀ o ∈ illT, o.defval = none) := by decide
example : create [{ name := s "-n", type := 1, defval := some (s "x") }] = none ∧
    create [{ name := s "-n", type := 1, defval := some (s "3"), range := some (s "=n<5") }] = none ∧
    create [{ name := s "n", type := 0 }] = none ∧ create [{ name := s "-t", type := 9, defval := some (s "v") }] = none := by decide
example : (match (create illT).map (fun g => processCmdline g [s "prog", s "-a"]) with | some (.done _ st m) => some (st, m) | _ => none)
    = some (.einval, false) := by decide
example : optlistResolve illT (s "--zz") = none := by decide

/-! ## `esl_opt_DisplayHelp`, `esl_opt_SpoofCmdline`, integers as `esl_opt_GetInteger` returns them -/

theorem displayHelp_fails_iff (rows : List HelpRow) (docgroup indent textwidth : Nat) :
    displayHelp rows docgroup indent textwidth = none ↔
      textwidth < indent + maxOf HelpRow.optWidth (rows.filter (·.selected docgroup)) + maxOf HelpRow.w2 (rows.filter (·.selected docgroup)) :=
  displayHelp_none_iff rows docgroup indent textwidth

/-- one line per option of the docgroup in table order, common column for ` :`, defaults / ranges shown for all lines
    or none, every line at most `textwidth + 2` characters -/
theorem displayHelp_output_documented (rows : List HelpRow) (docgroup indent textwidth : Nat) (lines : List Str)
    (h : displayHelp rows docgroup indent textwidth = some lines) :
    lines.length = (rows.filter (·.selected docgroup)).length ∧
    (∀ l ∈ lines, l.length ≤ textwidth + 2) ∧
    ∃ showDef showRange, ∀ k (hk : k < (rows.filter (·.selected docgroup)).length),
      lines[k]? = some (helpLine indent (maxOf HelpRow.optWidth (rows.filter (·.selected docgroup))) showDef showRange
                          ((rows.filter (·.selected docgroup))[k])) ∧
      (helpLine indent (maxOf HelpRow.optWidth (rows.filter (·.selected docgroup))) showDef showRange
          ((rows.filter (·.selected docgroup))[k])).take (indent + maxOf HelpRow.optWidth (rows.filter (·.selected docgroup)) + 2) =
        spaces indent ++ (((rows.filter (·.selected docgroup))[k]).name ++ argTag ((rows.filter (·.selected docgroup))[k]).type) ++
          spaces (maxOf HelpRow.optWidth (rows.filter (·.selected docgroup)) -
                    (((rows.filter (·.selected docgroup))[k]).name ++ argTag ((rows.filter (·.selected docgroup))[k]).type).length) ++ [' ', ':'] :=
  displayHelp_documented rows docgroup indent textwidth lines h

theorem spoofed_cmdline_lists_set_and_on_options (g : G) (i : Nat) (ws : List Str) (h : spoofOptWords g i = some ws) :
    ws ≠ [] ↔ (g.setter i ≠ byDefault ∧ isOn g i = true) := spoofOptWords_listed_iff g i ws h

theorem spoofCmdline_never_crashes (g : G) (hargv : g.argv ≠ []) (hval : ∀ i, (g.opt i).type ≠ 0 → g.valOf i ≠ .one) :
    (spoofCmdline g).isSome = true := spoofCmdline_total g hargv hval

theorem accepted_integer_satisfies_range_as_getter_returns_it {g g' : G} {i src : Nat} {v : Str} {m : Bool} (hinv : Inv g)
    (hi : i < g.opts.length) (ht : (g.opt i).type = 1) (h : setOption g i (some v) src = .done g' .ok m) :
    g'.valOf i = .str v ∧ getInteger g' i = atoi v ∧ isInteger v = true ∧ intRangeOk v (g.opt i).range = true :=
  accepted_integer_read_consistently hinv hi ht h

/-- help for a two-row table at three widths: everything, defaults only, bare, too narrow -/
def helpRows : List HelpRow := [⟨s "-n", 1, some (s "count"), some (s "3"), some (s "n>0"), 1⟩, ⟨s "--all", 0, some (s "everything"), none, none, 2⟩]
example : displayHelp helpRows 0 2 26 = some [s "  -n <n> : count  [3]  (n>0)", s "  --all  : everything"] := by decide
example : displayHelp helpRows 0 2 25 = some [s "  -n <n> : count  [3]", s "  --all  : everything"] := by decide
example : displayHelp helpRows 0 2 19 = some [s "  -n <n> : count  [3]", s "  --all  : everything"] := by decide
example : displayHelp helpRows 0 2 18 = none ∧ displayHelp helpRows 2 2 18 = some [s "  --all : everything"] := by decide
/-- the separator is not counted: a line of 21 characters for `textwidth = 19` (the bound `textwidth + 2` is attained) -/
example : (s "  --all  : everything").length = 21 := by decide
/-- `prog -b x`: `--no-b` was toggled off by `-b` and is not listed (fix af97bd9); integers beyond `int` -/
example : ((match processCmdline demoG [s "prog", s "-b", s "-n", s "7", s "x"] with | .done g .ok _ => spoofCmdline g | _ => none)) =
    some (s "prog -b -n 7 x ") := by decide
example : atoi (s "4294967301") = 5 ∧ atoi (s "2147483648") = -2147483648 ∧ atoi (s "9223372036854775808") = -1 ∧
    intRangeOk (s "4294967296") (some (s "n>0")) = false ∧ intRangeOk (s "4294967301") (some (s "n>0")) = true := by decide

/-! ## `strtod`: decimal → binary64 -/

/-- the significand the conversion delivers is a nearest integer to the scaled value (`|q·d − n| ≤ d/2`; ties go to
    the even neighbour by `roundDiv`'s last branch) -/
theorem strtod_rounds_to_nearest (n d : Nat) (hd : 0 < d) :
    2 * n ≤ 2 * (roundDiv n d * d) + d ∧ 2 * (roundDiv n d * d) ≤ 2 * n + d := roundDiv_nearest n d hd

/-- **exact on every decimal whose value is a binary64 number**: if `N/D = q₀·2^(s₀−1126)` with `q₀ < 2^53` and
    `s₀ ≥ 52` (at most 53 significant bits, nothing below `2^−1074`), the conversion returns that value -/
theorem strtod_exact_on_representable (N D q0 s0 : Nat) (hD : 0 < D) (hq : q0 < 2 ^ 53) (hs : 52 ≤ s0)
    (h : N * 2 ^ SCALE = q0 * 2 ^ s0 * D) : (toDbl N D).1 * 2 ^ (toDbl N D).2 = q0 * 2 ^ s0 := toDbl_exact N D q0 s0 hD hq hs h

/-- at a fixed scale (within one binade, or in the subnormal range) rounding is monotone: a larger value never gets a
    smaller significand — so a range test on the rounded values never orders two arguments against their true order -/
theorem strtod_rounding_monotone_in_binade (n n' d : Nat) (hd : 0 < d) (h : n ≤ n') : roundDiv n d ≤ roundDiv n' d :=
  roundDiv_mono n n' d hd h

/-- 0.5 = 2^1125·2^−1126 is representable; 0.1 is not (its nearest double is 0x3fb999999999999a); a tie goes to even -/
example : (5 : Nat) * 2 ^ SCALE = 1 * 2 ^ 1125 * 10 ∧ (1 : Nat) < 2 ^ 53 ∧ 52 ≤ 1125 := by
  refine ⟨?_, by decide, by decide⟩
  have : SCALE = 1125 + 1 := rfl
  rw [this, Nat.pow_succ]; ring
example : hex16 (atofBits (s "0.5")) = "3fe0000000000000" ∧ hex16 (atofBits (s "0.1")) = "3fb999999999999a" ∧
    hex16 (atofBits (s "9007199254740993")) = "4340000000000000" ∧ hex16 (atofBits (s "1e309")) = "7ff0000000000000" ∧
    hex16 (atofBits (s "4.9e-324")) = "0000000000000001" := by decide +kernel

/-- **`strtod` is monotone**: `N/D ≤ N'/D'` implies double(`N/D`) ≤ double(`N'/D'`) — across binades, through the
    subnormal range and at the carry into the next binade -/
theorem strtod_monotone (N D N' D' : Nat) (hD : 0 < D) (hD' : 0 < D') (h : N * D' ≤ N' * D) :
    (toDbl N D).1 * 2 ^ (toDbl N D).2 ≤ (toDbl N' D').1 * 2 ^ (toDbl N' D').2 := toDbl_mono N D N' D' hD hD' h

/-- monotonicity of the real range test as the C code performs it (on the rounded doubles), for arguments of any
    number of digits: a lower bound that accepts `x` accepts every `y ≥ x` -/
theorem real_range_test_monotone (lo x y : Nat × Nat) (hx : 0 < x.2) (hy : 0 < y.2) (hxy : x.1 * y.2 ≤ y.1 * x.2)
    (h : dblLe lo x = true) : dblLe lo y = true := dblLe_mono_right lo x y hx hy hxy h

/-- an inclusive bound never rejects a value that really is inside: exact `lo ≤ x` implies the test on doubles accepts -/
theorem inclusive_real_bound_accepts_every_true_member (lo x : Nat × Nat) (hl : 0 < lo.2) (hx : 0 < x.2)
    (h : lo.1 * x.2 ≤ x.1 * lo.2) : dblLe lo x = true := dblLe_of_le lo x hl hx h

/-- 1/10 ≤ 3/10 as fractions; the converse direction can fail by rounding: 0.1 and 0.1000000000000000055 are one double -/
example : (0 : Nat) < 10 ∧ (1 : Nat) * 10 ≤ 3 * 10 := by decide
example : atofBits (s "0.1") = atofBits (s "0.1000000000000000055") := by decide +kernel

/-- `esl_getopts_CreateDefaultApp` hands the object back exactly when the command line parses, the configuration
    verifies, `-h` is off and the argument count is the required one; in every other case it ends the program
    (`exit(0)` after the help page, `exit(1)` otherwise) -/
theorem defaultApp_returns_iff (opts : List Opt) (nargs : Int) (argv : List Str) (g : G) :
    createDefaultApp opts nargs argv = some (.returned g) ↔
      ∃ g0 m i, create opts = some g0 ∧ processCmdline g0 argv = .done g .ok m ∧ (verifyConfig g).1 = .ok ∧
        optidxExactly opts ['-', 'h'] = some i ∧ (g.opt i).type = 0 ∧ (g.valOf i).isNull = true ∧
        (nargs = -1 ∨ argNumber g = nargs) := createDefaultApp_returns_iff opts nargs argv g

def appT : List Opt := [{ name := s "-h", type := 0 }, { name := s "-n", type := 1, defval := some (s "0"), range := some (s "0<=n<10") }]
example : createDefaultApp appT 1 [s "prog", s "-n", s "3", s "file"] ≠ none ∧ createDefaultApp appT 1 [s "prog", s "-h"] = some .exitHelp ∧
    createDefaultApp appT 1 [s "prog"] = some .exitNargs ∧ createDefaultApp appT 1 [s "prog", s "-n", s "10", s "file"] = some .exitParse ∧
    (match createDefaultApp appT (-1) [s "prog", s "a", s "b"] with | some (.returned g) => argNumber g | _ => 0) = 2 := by decide

/-! ## `--name=` : an empty attached value -/

theorem flag_with_empty_value_is_usage_error {opts : List Opt} {name : Str} {i : Nat} (k : Nat) (next : Option Str) (hne : '=' ∉ name)
    (hi : optidxAbbrev opts name = .found i) (ht : (opts.getD i default).type = 0) :
    parseLong opts k (name ++ ['=']) next = ([.stop .esyntax true (k + 1)], none) := parseLong_flag_empty_value k next hne hi ht

theorem empty_attached_value_is_the_argument {opts : List Opt} {name : Str} {i : Nat} (k : Nat) (next : Option Str) (hne : '=' ∉ name)
    (hi : optidxAbbrev opts name = .found i) (ht : (opts.getD i default).type ≠ 0) :
    parseLong opts k (name ++ ['=']) next = ([.set i (some []) (k + 1)], some false) := parseLong_empty_value k next hne hi ht

/-- the word after `--name=` is not swallowed: it is parsed as the next element of the command line -/
theorem empty_attached_value_consumes_nothing {opts : List Opt} {r : Str} {i : Nat} (k : Nat) (tl : List Str) (hr : r ≠ []) (hne : '=' ∉ r)
    (hi : optidxAbbrev opts ('-' :: '-' :: r) = .found i) (ht : (opts.getD i default).type ≠ 0) :
    parseCmd opts k (('-' :: '-' :: r ++ ['=']) :: tl) false = .set i (some []) (k + 1) :: parseCmd opts (k + 1) tl false :=
  parseCmd_empty_value k tl hr hne hi ht

theorem empty_value_rejected_by_numeric_types (o : Opt) (src : Nat) (hs : src ≠ byDefault) (ht : o.type = 1 ∨ o.type = 2) :
    verifyTypeRange o (some []) src = .bad := empty_value_not_a_number o src hs ht

theorem empty_value_stored_by_string_types (o : Opt) (src : Nat) (ht : o.type = 4 ∨ o.type = 5 ∨ o.type = 6) (hr : o.range = none) :
    verifyTypeRange o (some []) src = .good ∧ newVal o (some []) = .str [] := empty_value_is_a_string o src ht hr

theorem empty_value_char_is_terminator (o : Opt) (src : Nat) (ht : o.type = 3) :
    verifyTypeRange o (some []) src = (if charRangeOk [] o.range then .good else .bad) := empty_value_char o src ht

/-- on the demo table: `--multi= x` stores "" and leaves `x` as the first argument; `--mul=` (a flag) and `--lown=` (an
    integer) are usage errors -/
example : (match processCmdline demoG [s "prog", s "--multi=", s "x"] with | .done g st _ => some (st, g.valOf 6, getArg g 1, argNumber g) | .fault => none)
    = some (.ok, .str [], some (s "x"), 1) := by decide
example : (match processCmdline demoG [s "prog", s "--mul=", s "x"] with | .done _ st m => some (st, m) | .fault => none) = some (.esyntax, true) ∧
    (match processCmdline demoG [s "prog", s "--lown=", s "5"] with | .done g st m => some (st, m, g.valOf 4) | .fault => none)
      = some (.esyntax, true, .str (s "42")) := by decide
example : '=' ∉ s "--multi" ∧ optidxAbbrev demo (s "--multi") = .found 6 ∧ (demo.getD 6 default).type ≠ 0 := by decide

/-! ## real ranges on the values the C code compares: the doubles -/

theorem real_range_two_sided_on_doubles (v lo hi : Str) (geq leq : Bool) (hc : 'x' ∉ lo) (hhi : leq = false → hi.head? ≠ some '=') :
    realRangeOkD v (some (twoSided 'x' lo geq leq hi)) =
      ((if geq then Dec.dle (atof (twoSided 'x' lo geq leq hi)) (atof v) else Dec.dlt (atof (twoSided 'x' lo geq leq hi)) (atof v)) &&
       (if leq then Dec.dle (atof v) (atof hi) else Dec.dlt (atof v) (atof hi))) := realRangeOkD_twoSided v lo hi geq leq hc hhi

theorem real_range_two_sided_literal_on_doubles (v lo hi : Str) (geq leq : Bool) {neg : Bool} {ip fp : Str} {dot : Bool}
    (hlo : RealLit lo neg ip fp dot) (hhi : leq = false → hi.head? ≠ some '=') :
    realRangeOkD v (some (twoSided 'x' lo geq leq hi)) =
      ((if geq then Dec.dle (atof lo) (atof v) else Dec.dlt (atof lo) (atof v)) &&
       (if leq then Dec.dle (atof v) (atof hi) else Dec.dlt (atof v) (atof hi))) := realRangeOkD_twoSided_lit v lo hi geq leq hlo hhi

theorem real_range_lower_on_doubles (v a : Str) (incl : Bool) (h : incl = false → a.head? ≠ some '=') :
    realRangeOkD v (some ('x' :: '>' :: ((if incl then ['='] else []) ++ a))) =
      (if incl then Dec.dle (atof a) (atof v) else Dec.dlt (atof a) (atof v)) := realRangeOkD_lower v a incl h

theorem real_range_upper_on_doubles (v b : Str) (incl : Bool) (h : incl = false → b.head? ≠ some '=') :
    realRangeOkD v (some ('x' :: '<' :: ((if incl then ['='] else []) ++ b))) =
      (if incl then Dec.dle (atof v) (atof b) else Dec.dlt (atof v) (atof b)) := realRangeOkD_upper v b incl h

theorem rounding_never_reorders_magnitudes (a b : Dec) (ha : a.mant ≠ 0) (hb : b.mant ≠ 0) (ha1 : ¬ a.exp > 5000) (ha2 : ¬ a.exp < -5000)
    (hb1 : ¬ b.exp > 5000) (hb2 : ¬ b.exp < -5000) (h : a.frac.1 * b.frac.2 ≤ b.frac.1 * a.frac.2) : a.dmag ≤ b.dmag :=
  dmag_mono a b ha hb ha1 ha2 hb1 hb2 h

theorem lower_bound_on_doubles_is_monotone (lo x y : Dec) (hxn : x.neg = false) (hyn : y.neg = false) (h : x.dmag ≤ y.dmag)
    (hacc : Dec.dle lo x = true) : Dec.dle lo y = true := dle_mono_right lo x y hxn hyn h hacc

/-- where exact decimals and doubles part: `0.1000000000000000055` is above 0.1 as a decimal but the same double, so
    `x>0.1` refuses it (as the C code does) while the exact-decimal test would accept; `x>=0.1` accepts it either way -/
example : realRangeOkD (s "0.1000000000000000055") (some (s "x>0.1")) = false ∧ realRangeOk (s "0.1000000000000000055") (some (s "x>0.1")) = true ∧
    realRangeOkD (s "0.1000000000000000055") (some (s "x>=0.1")) = true ∧
    realRangeOkD (s "0.99999999999999999999") (some (s "0<x<1")) = false ∧ realRangeOkD (s "1e400") (some (s "x<=1.7e308")) = false ∧ realRangeOkD (s "1e400") (some (s "x<=1.8e308")) = true := by decide +kernel

/-! ## `esl_getopts_Dump` -/

theorem dump_tells_setters_apart (k : Nat) : setterText k = "(default) ".toList ↔ k = byDefault := setterText_default_iff k

theorem dump_boolean_setting_is_IsOn (g : G) (i : Nat) (ht : (g.opt i).type = 0) :
    settingText g i = some (if isOn g i then "on".toList else "off".toList) := settingText_boolean g i ht

theorem dump_never_crashes (g : G) (hval : ∀ i, (g.opt i).type ≠ 0 → g.valOf i ≠ .one) : (dumpText g).isSome = true :=
  dumpText_total g hval

example : (match processCmdline demoG [s "prog", s "-b", s "f"] with
    | .done g .ok _ => (dumpText g).map (fun t =>
        (s "argv[0]:                prog\nargument  1 (argv[ 2]): f\n\n      Option      Setting    Set by\n------------ ------------ ---------\n-a           off          (default) \n-b           on           cmdline   \n").isPrefixOf t)
    | _ => none) = some true := by decide +kernel

end EaselModel.Props.C14
