import EaselModel.Getopts.Model
/-! C14 property theorems (being filled in). -/
namespace EaselModel.Props.C14
open EaselModel.Getopts

/-- (f) `IsUsed` is exactly "not default and on" -/
theorem isUsed_iff (g : G) (i : Nat) : isUsed g i = (!isDefault g i && isOn g i) := by
  unfold isUsed isOn
  cases isDefault g i <;> cases (g.valOf i).isNull <;> rfl

end EaselModel.Props.C14
