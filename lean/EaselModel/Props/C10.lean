import EaselModel.Dist.ExpThm
import EaselModel.Dist.GumbelThm
import EaselModel.Dist.WeiThm
import EaselModel.Dist.GevThm
import EaselModel.Dist.SpecialFamThm
import EaselModel.Dist.NormalThm
import EaselModel.Dist.MixGen
import EaselModel.Dist.MixLogGen
import EaselModel.Dist.IntegralThm
import EaselModel.Dist.BisectThm
import EaselModel.Dist.BisectTerm
import EaselModel.Dist.BisectGen
import EaselModel.Dist.BisectReal
import EaselModel.Dist.BisectCarrier
import EaselModel.Dist.Edge
import EaselModel.Dist.GamSxpThm
import EaselModel.Dist.MixDeriv
import EaselModel.Dist.SampleThm
import EaselModel.Dist.QuantileThm
import EaselModel.Dist.GevDist
import EaselModel.Dist.MixLogClose
import EaselModel.Dist.MixgevLog
import EaselModel.Dist.HxpQuantile
import EaselModel.Dist.MixgevAll
import EaselModel.Dist.InvRight
import EaselModel.Dist.InvTotal
import EaselModel.Dist.GamSampleGen
import EaselModel.Dist.DLogSumAll
import EaselModel.Dist.Limits
import EaselModel.Dist.SeriesConv
import EaselModel.Dist.EdgeAtMu
import EaselModel.Dist.EdgeLimits
/-! # C10 — each distribution's pdf, cdf, survival, log and inverse functions agree

Full statement (properties.jsonl): for every supported continuous distribution and all valid parameters and arguments
inside the documented dynamic range the functions agree with the closed-form definition and with each other: cdf is
non-decreasing from 0 to 1, cdf + survival = 1, the log versions equal the logarithms, the inverse cdf (and inverse
survival) inverts the cdf, the pdf is the derivative of the cdf; outside the support the density is 0 and the cdf is 0
or 1; a sample drawn with a generator equals the inverse cdf of the uniform deviate that generator yields.

Layers (DESIGN §3.4).  **L2**: the textbook closed forms (`Dist/Spec.lean`) satisfy the laws.  **L1**: the C code *as a
real function* — `EaselModel.Dist.Gen.esl_*`, regenerated from the working tree by `translate/c2lean.py` on every run,
instantiated at `ℝ` — equals the textbook form within an explicit ε, across its `eslSMALLX1` branch switches.
**Edge**: out-of-support values exactly, for every carrier.  **L0** (binary64 rounding of those real functions) is NOT
proved here: it is supported by the bit-exact run of the same definitions at `Float` against the C functions and by the
50-digit monitors of `props/c10.py`.

Round 4 added: gamma / stretched exponential relative to the incomplete gamma function defined as an INTEGRAL (laws, unique
quantiles, bisection-on-textbook total and accurate, code-vs-textbook identities with the two special-function discrepancies
explicit); mixtures at full strength for every `K` (derivative off the support bounds, normalised forms, hyperexponential
quantiles, log versions incl. the GEV mixture, GEV mixture at every argument); the GEV's Gumbel branch bounded against the
GEV with the actual `α` for all eight functions; every sampler TRANSLATED (or hand-modelled: `esl_gam_Sample`) with its
transformation theorem; the repaired bracketing loop (55bbf88) returns on every carrier that reaches `+inf`.

Only statements and one-line glue here; the lemmas live in `EaselModel/Dist/*.lean`. -/
noncomputable section
namespace EaselModel.Props.C10
open Real EaselModel.Dist EaselModel.Dist.Gen EaselModel.Dist.Spec

/-! ## Exponential -/

/-- L2: the exponential cdf is non-decreasing, stays in `[0,1)`, is `0` below `μ` and tends to `1`. -/
theorem exp_cdf_monotone_0_to_1 {μ l : ℝ} (hl : 0 < l) :
    Monotone (expCdf μ l) ∧ (∀ x, 0 ≤ expCdf μ l x ∧ expCdf μ l x < 1) ∧ (∀ x, x < μ → expCdf μ l x = 0) ∧
      Filter.Tendsto (expCdf μ l) Filter.atTop (nhds 1) :=
  ⟨ExpThm.expCdf_mono hl.le, fun x => ⟨ExpThm.expCdf_nonneg hl.le x, ExpThm.expCdf_lt_one μ l x⟩,
    fun _ h => ExpThm.expCdf_below h, ExpThm.expCdf_tendsto_one hl⟩

/-- L2: cdf + survival = 1; both inverses invert on the support; pdf is the derivative of the cdf away from `μ`. -/
theorem exp_textbook_laws {μ l : ℝ} (hl : l ≠ 0) :
    (∀ x, expCdf μ l x + expSurv μ l x = 1) ∧ (∀ x, μ ≤ x → expInvCdf μ l (expCdf μ l x) = x) ∧
      (∀ x, μ ≤ x → expInvSurv μ l (expSurv μ l x) = x) ∧ (∀ x, x ≠ μ → HasDerivAt (expCdf μ l) (expPdf μ l x) x) :=
  ⟨ExpThm.expCdf_add_expSurv μ l, fun _ h => ExpThm.expInvCdf_expCdf hl h, fun _ h => ExpThm.expInvSurv_expSurv hl h,
    fun _ h => (lt_or_gt_of_ne h).elim ExpThm.expCdf_hasDerivAt_below ExpThm.expCdf_hasDerivAt⟩

/-- L1: `esl_exp_pdf`, `esl_exp_surv`, `esl_exp_invcdf`, `esl_exp_invsurv` ARE the textbook functions; `esl_exp_cdf` is
    within `2.5e-17` of the textbook cdf for every `x` (the `y < eslSMALLX1` branch returns `y` for `1 - e^{-y}`). -/
theorem exp_code_eq_textbook {μ l : ℝ} (hl : 0 ≤ l) (x : ℝ) :
    esl_exp_pdf x μ l = expPdf μ l x ∧ esl_exp_surv x μ l = expSurv μ l x ∧ esl_exp_invcdf x μ l = expInvCdf μ l x ∧
      esl_exp_invsurv x μ l = expInvSurv μ l x ∧ |esl_exp_cdf x μ l - expCdf μ l x| ≤ 2.5e-17 :=
  ⟨ExpThm.code_pdf x μ l, ExpThm.code_surv x μ l, ExpThm.code_invcdf x, ExpThm.code_invsurv x, ExpThm.code_cdf hl x⟩

/-- L1: the code's own cdf and survival add up to 1 within `2.5e-17`, for every argument. -/
theorem exp_code_cdf_add_surv {μ l : ℝ} (hl : 0 ≤ l) (x : ℝ) : |esl_exp_cdf x μ l + esl_exp_surv x μ l - 1| ≤ 2.5e-17 :=
  ExpThm.code_cdf_add_surv hl x

/-- L1: the log versions are the logarithms: exactly for `logsurv` (all `x`) and `logpdf` (finite `l`), within `1e-8`
    for `logcdf` on `x > μ` (branches `log y`, `-e^{-y}`, `log(1 - e^{-y})`). -/
theorem exp_code_logs {μ l x : ℝ} (hl : 0 < l) (hfin : l ≠ (Num.inf : ℝ)) :
    (μ ≤ x → esl_exp_logsurv x μ l = log (expSurv μ l x)) ∧ (x < μ → esl_exp_logsurv x μ l = log (expSurv μ l x)) ∧
      (μ ≤ x → esl_exp_logpdf x μ l = log (expPdf μ l x)) ∧ (μ < x → |esl_exp_logcdf x μ l - log (expCdf μ l x)| ≤ 1e-8) :=
  ⟨ExpThm.code_logsurv, ExpThm.code_logsurv_below, ExpThm.code_logpdf hl hfin, ExpThm.code_logcdf hl⟩

/-- Edge, every carrier: below `μ` density `0`, cdf `0`, survival `1`, log versions `-inf`, `-inf`, `0`. -/
theorem exp_outside_support {α : Type} [Add α] [Sub α] [Mul α] [Div α] [Neg α] [OfScientific α] [LT α] [LE α]
    [DecidableLT α] [DecidableLE α] [Num α] {x mu l : α} (h : x < mu) :
    esl_exp_pdf x mu l = 0.0 ∧ esl_exp_cdf x mu l = 0.0 ∧ esl_exp_surv x mu l = 1.0 ∧ esl_exp_logpdf x mu l = -Num.inf ∧
      esl_exp_logcdf x mu l = -Num.inf ∧ esl_exp_logsurv x mu l = 0.0 :=
  ⟨Edge.exp_pdf_below h, Edge.exp_cdf_below h, Edge.exp_surv_below h, Edge.exp_logpdf_below h, Edge.exp_logcdf_below h,
    Edge.exp_logsurv_below h⟩

-- non-vacuity: the hypotheses are satisfiable and the small-x branch is really taken
example : |esl_exp_cdf (1e-9 : ℝ) 0 1 + esl_exp_surv (1e-9 : ℝ) 0 1 - 1| ≤ 2.5e-17 := exp_code_cdf_add_surv (by norm_num) _
example : esl_exp_cdf (1e-9 : ℝ) 0 1 = 1e-9 := by
  unfold esl_exp_cdf; norm_num

/-! ## Gumbel -/

/-- L2: the Gumbel cdf is non-decreasing, strictly inside `(0,1)`, with limits `0` and `1`. -/
theorem gumbel_cdf_monotone_0_to_1 {μ l : ℝ} (hl : 0 < l) :
    Monotone (gumbelCdf μ l) ∧ (∀ x, 0 < gumbelCdf μ l x ∧ gumbelCdf μ l x < 1) ∧
      Filter.Tendsto (gumbelCdf μ l) Filter.atBot (nhds 0) ∧ Filter.Tendsto (gumbelCdf μ l) Filter.atTop (nhds 1) :=
  ⟨GumbelThm.gumbelCdf_mono hl.le, fun x => ⟨GumbelThm.gumbelCdf_pos μ l x, GumbelThm.gumbelCdf_lt_one μ l x⟩,
    GumbelThm.gumbelCdf_tendsto_zero hl, GumbelThm.gumbelCdf_tendsto_one hl⟩

/-- L2: cdf + survival = 1, both inverses invert everywhere, the pdf is the derivative of the cdf everywhere. -/
theorem gumbel_textbook_laws {μ l : ℝ} (hl : l ≠ 0) (x : ℝ) :
    gumbelCdf μ l x + gumbelSurv μ l x = 1 ∧ gumbelInvCdf μ l (gumbelCdf μ l x) = x ∧
      gumbelInvSurv μ l (gumbelSurv μ l x) = x ∧ HasDerivAt (gumbelCdf μ l) (gumbelPdf μ l x) x :=
  ⟨GumbelThm.gumbelCdf_add_surv μ l x, GumbelThm.gumbelInvCdf_cdf hl x, GumbelThm.gumbelInvSurv_surv hl x,
    GumbelThm.gumbelCdf_hasDerivAt μ l x⟩

/-- L1: `esl_gumbel_{pdf,cdf,logcdf,logpdf,invcdf}` ARE the textbook functions (resp. their logarithms). -/
theorem gumbel_code_eq_textbook {l : ℝ} (hl : 0 < l) (x μ : ℝ) :
    esl_gumbel_pdf x μ l = gumbelPdf μ l x ∧ esl_gumbel_cdf x μ l = gumbelCdf μ l x ∧
      esl_gumbel_logcdf x μ l = log (gumbelCdf μ l x) ∧ esl_gumbel_logpdf x μ l = log (gumbelPdf μ l x) ∧
      esl_gumbel_invcdf x μ l = gumbelInvCdf μ l x :=
  ⟨GumbelThm.code_pdf x μ l, GumbelThm.code_cdf x μ l, GumbelThm.code_logcdf x μ l, GumbelThm.code_logpdf hl x μ,
    GumbelThm.code_invcdf x μ l⟩

/-- L1: the two-way switch of `esl_gumbel_surv` and the three-way switch of `esl_gumbel_logsurv` at `eslSMALLX1`:
    within `2.5e-17` of `1 - cdf`, resp. `1e-8` of `log (1 - cdf)`, for every argument. -/
theorem gumbel_code_surv_switches (x μ l : ℝ) :
    |esl_gumbel_surv x μ l - gumbelSurv μ l x| ≤ 2.5e-17 ∧ |esl_gumbel_logsurv x μ l - log (gumbelSurv μ l x)| ≤ 1e-8 :=
  ⟨GumbelThm.code_surv x μ l, GumbelThm.code_logsurv x μ l⟩

/-- L1: repaired `esl_gumbel_invsurv` (`log p` below `eslSMALLX1`, `log(-log(1-p))` above) is within `1e-8 / l` of the
    textbook inverse survival for every `p > 0` (DESIGN §7 item 4; the former `(p^p - 1)/p` was an L0 defect). -/
theorem gumbel_code_invsurv {p μ l : ℝ} (hl : 0 < l) (hp : 0 < p) :
    |esl_gumbel_invsurv p μ l - gumbelInvSurv μ l p| ≤ 1e-8 / l := GumbelThm.code_invsurv hl hp

example : |esl_gumbel_invsurv (1e-12 : ℝ) (-20) 0.7 - gumbelInvSurv (-20) 0.7 1e-12| ≤ 1e-8 / 0.7 :=
  gumbel_code_invsurv (by norm_num) (by norm_num)

/-! ## Weibull -/

/-- L2: cdf non-decreasing in `[0,1)`, cdf + surv = 1, the inverse inverts on the support, the pdf is the derivative of
    the cdf on the interior of the support. -/
theorem wei_textbook_laws {μ l τ : ℝ} (hl : 0 < l) (hτ : 0 < τ) :
    Monotone (weiCdf μ l τ) ∧ (∀ x, 0 ≤ weiCdf μ l τ x ∧ weiCdf μ l τ x < 1) ∧ (∀ x, weiCdf μ l τ x + weiSurv μ l τ x = 1) ∧
      (∀ x, μ < x → weiInvCdf μ l τ (weiCdf μ l τ x) = x) ∧ (∀ x, μ < x → HasDerivAt (weiCdf μ l τ) (weiPdf μ l τ x) x) :=
  ⟨WeiThm.weiCdf_mono hl hτ.le, fun x => ⟨WeiThm.weiCdf_nonneg μ l τ x, WeiThm.weiCdf_lt_one μ l τ x⟩,
    WeiThm.weiCdf_add_weiSurv μ l τ, fun _ h => WeiThm.weiInvCdf_weiCdf hl (ne_of_gt hτ) h, fun _ h => WeiThm.weiCdf_hasDerivAt hl h⟩

/-- L1 (repaired guard, DESIGN §7 item 12): `esl_wei_cdf` within `2.5e-17` of the textbook cdf for EVERY argument — in
    particular at `y = 1`, where the old guard `|τ log y| < eslSMALLX1` returned `1.0` for `1 - 1/e`; survival, log
    survival, the inverse, the density and the log density are exact; cdf + surv = 1 within `2.5e-17`; `logcdf` within
    `1e-8` of `log cdf`. -/
theorem wei_code_eq_textbook (x μ l τ : ℝ) :
    |esl_wei_cdf x μ l τ - weiCdf μ l τ x| ≤ 2.5e-17 ∧ esl_wei_surv x μ l τ = weiSurv μ l τ x ∧
      esl_wei_logsurv x μ l τ = log (weiSurv μ l τ x) ∧ esl_wei_invcdf x μ l τ = weiInvCdf μ l τ x ∧
      |esl_wei_cdf x μ l τ + esl_wei_surv x μ l τ - 1| ≤ 2.5e-17 ∧ (μ < x → |esl_wei_logcdf x μ l τ - log (weiCdf μ l τ x)| ≤ 1e-8) ∧
      (x ≠ μ → esl_wei_pdf x μ l τ = weiPdf μ l τ x) ∧ (0 < l → 0 < τ → μ < x → esl_wei_logpdf x μ l τ = log (weiPdf μ l τ x)) :=
  ⟨WeiThm.code_cdf x μ l τ, WeiThm.code_surv x μ l τ, WeiThm.code_logsurv x μ l τ, WeiThm.code_invcdf x μ l τ,
    WeiThm.code_cdf_add_surv x μ l τ, WeiThm.code_logcdf l τ, WeiThm.code_pdf l τ, WeiThm.code_logpdf⟩

/-- the former failing input: `esl_wei_cdf(1, 0, 1, 0.7)` is now within `2.5e-17` of `1 - e⁻¹` -/
example : |esl_wei_cdf (1 : ℝ) 0 1 0.7 - (1 - exp (-1))| ≤ 2.5e-17 := by
  have h := (wei_code_eq_textbook 1 0 1 0.7).1
  have e : weiCdf 0 1 0.7 1 = 1 - exp (-1) := by simp [weiCdf, weiZ]
  rwa [e] at h

/-- Edge, every carrier: at and below `μ` cdf `0`, surv `1`, `logcdf = -inf`, `logsurv = 0`; below `μ` density `0`. -/
theorem wei_outside_support {α : Type} [Add α] [Sub α] [Mul α] [Div α] [Neg α] [OfScientific α] [LT α] [LE α]
    [DecidableLT α] [DecidableLE α] [Num α] {x mu l t : α} :
    (x ≤ mu → esl_wei_cdf x mu l t = 0.0 ∧ esl_wei_surv x mu l t = 1.0 ∧ esl_wei_logcdf x mu l t = -Num.inf ∧
      esl_wei_logsurv x mu l t = 0.0) ∧ (x < mu → esl_wei_pdf x mu l t = 0.0 ∧ esl_wei_logpdf x mu l t = -Num.inf) :=
  ⟨fun h => ⟨Edge.wei_cdf_below h, Edge.wei_surv_below h, Edge.wei_logcdf_below h, Edge.wei_logsurv_below h⟩,
    fun h => ⟨Edge.wei_pdf_below h, Edge.wei_logpdf_below h⟩⟩

/-! ## Generalised extreme value -/

/-- L2: the GEV cdf (either sign of `α`) is non-decreasing within `[0,1]` across both ends of its support; cdf + surv = 1;
    on the support (`1 + α l (x-μ) > 0`) the inverse inverts and the pdf is the derivative of the cdf. -/
theorem gev_textbook_laws {μ l α : ℝ} (hl : 0 < l) (hα : α ≠ 0) :
    Monotone (gevCdf μ l α) ∧ (∀ x, 0 ≤ gevCdf μ l α x ∧ gevCdf μ l α x ≤ 1) ∧ (∀ x, gevCdf μ l α x + gevSurv μ l α x = 1) ∧
      (∀ x, 0 < gevArg μ l α x → gevInvCdf μ l α (gevCdf μ l α x) = x) ∧
      (∀ x, 0 < gevArg μ l α x → HasDerivAt (gevCdf μ l α) (gevPdf μ l α x) x) :=
  ⟨GevThm.gevCdf_mono hl hα, fun x => ⟨GevThm.gevCdf_nonneg μ l α x, GevThm.gevCdf_le_one μ l α x⟩,
    GevThm.gevCdf_add_gevSurv μ l α, fun _ => GevThm.gevInvCdf_gevCdf (ne_of_gt hl) hα, fun _ => GevThm.gevCdf_hasDerivAt hα⟩

/-- L1, GEV branch (`¬ |α y| < 1e-12`): `esl_gev_cdf` and `esl_gev_pdf` ARE the textbook functions including both
    out-of-support sides; on the support `logcdf`, `logpdf` are their logarithms; `esl_gev_surv` is within `2.3e-16`
    of `1 - cdf` (switch at `-½ log DBL_EPSILON`); the inverse is the textbook inverse when `¬ |α| < 1e-12`. -/
theorem gev_code_eq_textbook {x μ l α : ℝ} (hl : 0 < l) (hg : ¬ |l * (x - μ) * α| < 1e-12) :
    esl_gev_cdf x μ l α = gevCdf μ l α x ∧ esl_gev_pdf x μ l α = gevPdf μ l α x ∧
      (0 < gevArg μ l α x → esl_gev_logcdf x μ l α = log (gevCdf μ l α x) ∧ esl_gev_logpdf x μ l α = log (gevPdf μ l α x)) ∧
      |esl_gev_surv x μ l α - gevSurv μ l α x| ≤ 2.3e-16 ∧ (¬ |α| < 1e-12 → ∀ p, esl_gev_invcdf p μ l α = gevInvCdf μ l α p) :=
  ⟨GevThm.code_cdf hl hg, GevThm.code_pdf hg, fun h => ⟨GevThm.code_logcdf hg h, GevThm.code_logpdf hl hg h⟩,
    GevThm.code_surv hl hg, fun h _ => GevThm.code_invcdf h⟩

/-- L1, GEV branch, on the support: the three-way switch of `esl_gev_logsurv` (`-lya1` beyond `-½ log DBL_EPSILON`,
    `-exp(-e^{-lya1})` below `-2.9`, the plain formula between) stays within `3e-8` of `log (1 - cdf)`. -/
theorem gev_code_logsurv {x μ l α : ℝ} (hg : ¬ |l * (x - μ) * α| < 1e-12) (hx : 0 < gevArg μ l α x) :
    |esl_gev_logsurv x μ l α - log (gevSurv μ l α x)| ≤ 3e-8 := GevThm.code_logsurv hg hx

example : |esl_gev_logsurv (30 : ℝ) 0 1 0.5 - log (gevSurv 0 1 0.5 30)| ≤ 3e-8 :=
  gev_code_logsurv (by norm_num [abs_of_pos]) (by unfold gevArg; norm_num)

/-- L1, Gumbel branch (`|α y| < 1e-12`, resp. `|α| < 1e-12` for the inverse): the code is literally the Gumbel code, to
    which the `gumbel_code_*` theorems apply; `surv`/`logsurv` have their own switches there and stay within `2.3e-16`
    resp. `3e-8` of the Gumbel survival.
    (Round 4: no longer `_partial` — the distance `|Gumbel(y) − GEV_α(y)|` of every one of these functions to the GEV with
    the actual `α` is bounded in `gev_gumbel_branch_distance`.) -/
theorem gev_gumbel_branch_is_gumbel_code {x μ l α : ℝ} :
    (|l * (x - μ) * α| < 1e-12 → esl_gev_cdf x μ l α = esl_gumbel_cdf x μ l ∧ esl_gev_logcdf x μ l α = esl_gumbel_logcdf x μ l ∧
      esl_gev_pdf x μ l α = esl_gumbel_pdf x μ l ∧ esl_gev_logpdf x μ l α = esl_gumbel_logpdf x μ l) ∧
    (|α| < 1e-12 → esl_gev_invcdf x μ l α = esl_gumbel_invcdf x μ l) ∧
    (|l * (x - μ) * α| < 1e-12 → |esl_gev_surv x μ l α - gumbelSurv μ l x| ≤ 2.3e-16 ∧
      |esl_gev_logsurv x μ l α - log (gumbelSurv μ l x)| ≤ 3e-8) :=
  ⟨fun h => ⟨GevThm.gumbel_branch_cdf h, GevThm.gumbel_branch_logcdf h, GevThm.gumbel_branch_pdf h, GevThm.gumbel_branch_logpdf h⟩,
    GevThm.gumbel_branch_invcdf, fun h => ⟨GevThm.gumbel_branch_surv h, GevThm.gumbel_branch_logsurv h⟩⟩

/-- Edge, every carrier, outside the support (`1 + α y ≤ 0`, GEV branch): Fréchet side (`x < μ`) density `0`, cdf `0`,
    surv `1`, `logcdf = -inf`, **`logsurv = 0`** (repaired, DESIGN §7 item 13); Weibull side cdf `1`, surv `0`,
    `logcdf = 0`, `logsurv = -inf`. -/
theorem gev_outside_support {α : Type} [Add α] [Sub α] [Mul α] [Div α] [Neg α] [OfScientific α] [LT α] [LE α]
    [DecidableLT α] [DecidableLE α] [Num α] {x mu l a : α}
    (hg : ¬ Num.fabs (l * (x - mu) * a) < 1.0e-12) (h : 1.0 + a * (l * (x - mu)) ≤ 0.0) :
    esl_gev_pdf x mu l a = 0.0 ∧ esl_gev_logpdf x mu l a = -Num.inf ∧
    (x < mu → esl_gev_cdf x mu l a = 0.0 ∧ esl_gev_surv x mu l a = 1.0 ∧ esl_gev_logcdf x mu l a = -Num.inf ∧
      esl_gev_logsurv x mu l a = 0.0) ∧
    (¬ x < mu → esl_gev_cdf x mu l a = 1.0 ∧ esl_gev_surv x mu l a = 0.0 ∧ esl_gev_logcdf x mu l a = 0.0 ∧
      esl_gev_logsurv x mu l a = -Num.inf) :=
  ⟨Edge.gev_pdf_out hg h, Edge.gev_logpdf_out hg h,
    fun hx => ⟨Edge.gev_cdf_frechet hg h hx, Edge.gev_surv_frechet hg h hx, Edge.gev_logcdf_frechet hg h hx, Edge.gev_logsurv_frechet hg h hx⟩,
    fun hx => ⟨Edge.gev_cdf_weibull hg h hx, Edge.gev_surv_weibull hg h hx, Edge.gev_logcdf_weibull hg h hx, Edge.gev_logsurv_weibull hg h hx⟩⟩

/-- non-vacuity at the former failing input `esl_gev_logsurv(-10, 0, 1, 0.5)` (over `ℝ`): the hypotheses hold -/
example : esl_gev_logsurv (-10 : ℝ) 0 1 0.5 = 0.0 :=
  (gev_outside_support (x := (-10 : ℝ)) (mu := 0) (l := 1) (a := 0.5) (by simp; norm_num) (by norm_num)).2.2.1
    (by norm_num) |>.2.2.2

/-! ## Families on the special functions: gamma, stretched exponential, normal, log-normal

`esl_stats_LogGamma` / `esl_stats_IncompleteGamma` enter as the hand model of `Dist/Special.lean` read over `ℝ`
(`realIncGamma`, `some (P,Q)` where the C function returns `eslOK`); `erfc` is the complementary error function.
`gam_laws_partial` / `sxp_laws_partial` are the laws that hold of the code's own outputs whatever the special functions do;
since round 4 the FULL laws are proved for the textbook forms built on the incomplete gamma function defined as an
integral (`gam_sxp_textbook_laws`), and `gam_sxp_code_vs_textbook` identifies the translated code with them up to the
two special-function discrepancies, unconditionally.  What stays `_partial` (L0, monitored against mpmath): the SIZE of
`esl_stats_LogGamma − log Γ` and of `esl_stats_IncompleteGamma − (P, Q)` (the series / continued fraction is not proved
to converge to the integral), and the bisection inverse's distance from the true quantile (`bisection_inverses_accuracy`
bounds it relative to the code's own cdf). -/

/-- gamma: cdf + surv = 1 exactly wherever `IncompleteGamma` converges (it forms `Q = 1 - P` or `P = 1 - Q`), the log
    versions are the logarithms of the plain versions, `pdf = exp logpdf` on the interior of the support (repaired: the
    code tested `x < 0` instead of `x < μ`), and at `x = μ`, `τ = 1` the density is `λ` (repaired: was NaN). -/
theorem gam_laws_partial {x μ l τ : ℝ} :
    ((0 < l * (x - μ) → (realIncGamma τ (l * (x - μ))).isSome) → esl_gam_cdf x μ l τ + esl_gam_surv x μ l τ = 1) ∧
      (0 < l * (x - μ) → esl_gam_logcdf x μ l τ = log (esl_gam_cdf x μ l τ)) ∧
      esl_gam_logsurv x μ l τ = log (esl_gam_surv x μ l τ) ∧
      (0 < l * (x - μ) → esl_gam_pdf x μ l τ = exp (esl_gam_logpdf x μ l τ)) ∧
      (esl_gam_pdf μ μ l 1 = l ∧ esl_gam_logpdf μ μ l 1 = log l) :=
  ⟨SpecialFamThm.gam_cdf_add_surv, SpecialFamThm.gam_logcdf, SpecialFamThm.gam_logsurv, SpecialFamThm.gam_pdf_eq_exp_logpdf,
    SpecialFamThm.gam_pdf_at_mu_tau1 μ l⟩

/-- Round 6: the convergence hypothesis of `gam_laws_partial` / `sxp_laws_partial` DISCHARGED on the series branch, for the
    property's shape range.  `esl_stats_IncompleteGamma(a, x)` (hand model of the C algorithm read over `ℝ`) sums
    `Σ_n x^n / (a (a+1) ⋯ (a+n))` for `x ≤ a + 1` and stops when the last term is below `1e-7` of the sum (≤ 9999 terms): for
    `0 < a ≤ 20` and `0 ≤ x ≤ a + 1` the loop returns within 45 terms (the `k`-th term relative to the sum is at most
    `Π_{j≤k} x/(a+j)`; every factor is `≤ 1`, from `j = 22` on `≤ 1/2`), so the function yields `some (P, Q)`.  Hence, with NO
    hypothesis on the special functions: `esl_gam_cdf + esl_gam_surv = 1` for `τ ≤ 20` wherever `λ(x−μ) ≤ τ + 1` (including
    everything at and below the support edge), and `esl_sxp_cdf + esl_sxp_surv = 1` for `τ ≥ 1/20` wherever
    `(λ(x−μ))^τ ≤ 1/τ + 1`.  Still conditional (named hypothesis `(realIncGamma a x).isSome`): the continued-fraction branch
    `x > a + 1`, and shapes above 20. -/
theorem incomplete_gamma_series_converges {a y x μ l τ : ℝ} :
    (0 < a → a ≤ 20 → 0 ≤ y → y ≤ a + 1 → (realIncGamma a y).isSome) ∧
    (0 < τ → τ ≤ 20 → l * (x - μ) ≤ τ + 1 → esl_gam_cdf x μ l τ + esl_gam_surv x μ l τ = 1) ∧
    (0 < τ → 1 / τ ≤ 20 → (μ < x → exp (τ * log (l * (x - μ))) ≤ 1 / τ + 1) →
      esl_sxp_cdf x μ l τ + esl_sxp_surv x μ l τ = 1) :=
  ⟨fun ha ha20 hy0 hy => SeriesConv.realIncGamma_isSome_series ha ha20 hy0 hy,
    fun hτ hτ20 hy => SeriesConv.gam_cdf_add_surv_series hτ hτ20 hy,
    fun hτ hτ20 hy => SeriesConv.sxp_cdf_add_surv_series hτ hτ20 hy⟩

/-- non-vacuity: `Gamma(τ = 2)` at `y = 1 ≤ τ + 1`, inside the support -/
example : esl_gam_cdf (1 : ℝ) 0 1 2 + esl_gam_surv (1 : ℝ) 0 1 2 = 1 :=
  (incomplete_gamma_series_converges (a := 1) (y := 1) (x := 1) (μ := 0) (l := 1) (τ := 2)).2.1 (by norm_num) (by norm_num) (by norm_num)

/-- stretched exponential: cdf + surv = 1 wherever `IncompleteGamma` converges; log versions are the logarithms. -/
theorem sxp_laws_partial {x μ l τ : ℝ} (hl : 0 < l) (hτ : 0 < τ) :
    ((μ < x → (realIncGamma (1 / τ) (exp (τ * log (l * (x - μ))))).isSome) → esl_sxp_cdf x μ l τ + esl_sxp_surv x μ l τ = 1) ∧
      (μ < x → esl_sxp_logcdf x μ l τ = log (esl_sxp_cdf x μ l τ)) ∧ esl_sxp_logsurv x μ l τ = log (esl_sxp_surv x μ l τ) ∧
      (μ ≤ x → esl_sxp_logpdf x μ l τ = log (esl_sxp_pdf x μ l τ)) :=
  ⟨SpecialFamThm.sxp_cdf_add_surv, SpecialFamThm.sxp_logcdf, SpecialFamThm.sxp_logsurv, SpecialFamThm.sxp_logpdf hl hτ⟩

/-- normal (and log-normal log density).  `erfc` over `ℝ` is the complementary error function
    `(2/√π) ∫_t^∞ e^{-x²} dx` built on Mathlib's Gaussian integral (`Dist/ErfcGauss.lean`; Mathlib 4.33 has no `erfc`) —
    the round-2 hypotheses "`erfc (-t) = 2 - erfc t`, `erfc` antitone" are now PROVED for it.
    L2, textbook `Φ(x) = ½ erfc(−(x−μ)/(σ√2))`: non-decreasing, within `[0,1]`, limits `0` and `1`, cdf + surv = 1, the
    density `e^{−z²/2}/(σ√(2π))` is its derivative everywhere and integrates to cdf differences.
    L1: `esl_normal_cdf`, `esl_normal_surv` ARE the textbook functions (so cdf + surv = 1 exactly), `esl_normal_pdf`
    equals the textbook density up to the factor `√(π / eslCONST_PI)` with `|eslCONST_PI − π| ≤ 1e-20`,
    `logpdf = log pdf`; log-normal: `logpdf = log pdf` on `x > 0`.
    What stays L0 (monitored, `1e-9` relative against mpmath): that `esl_stats_erfc` — Sun's rational approximation,
    hand model `erfcSun`, bit-exact at `Float` — agrees with the mathematical `erfc`. -/
theorem normal_laws {μ σ : ℝ} (hσ : 0 < σ) :
    (Monotone (NormalThm.normalCdf μ σ) ∧ (∀ x, 0 ≤ NormalThm.normalCdf μ σ x ∧ NormalThm.normalCdf μ σ x ≤ 1) ∧
      Filter.Tendsto (NormalThm.normalCdf μ σ) Filter.atBot (nhds 0) ∧ Filter.Tendsto (NormalThm.normalCdf μ σ) Filter.atTop (nhds 1) ∧
      (∀ x, NormalThm.normalCdf μ σ x + NormalThm.normalSurv μ σ x = 1) ∧
      (∀ x, HasDerivAt (NormalThm.normalCdf μ σ) (NormalThm.normalPdf μ σ x) x) ∧
      (∀ a b, a ≤ b → ∫ x in a..b, NormalThm.normalPdf μ σ x = NormalThm.normalCdf μ σ b - NormalThm.normalCdf μ σ a)) ∧
    (∀ x, esl_normal_cdf x μ σ = NormalThm.normalCdf μ σ x ∧ esl_normal_surv x μ σ = NormalThm.normalSurv μ σ x ∧
      esl_normal_cdf x μ σ + esl_normal_surv x μ σ = 1 ∧
      esl_normal_pdf x μ σ * √(2 * 3.14159265358979323846264338328) = NormalThm.normalPdf μ σ x * √(2 * π) ∧
      esl_normal_logpdf x μ σ = log (esl_normal_pdf x μ σ)) ∧
    |(3.14159265358979323846264338328 : ℝ) - π| ≤ 1e-20 ∧
    (∀ x, 0 < x → esl_lognormal_logpdf x μ σ = log (esl_lognormal_pdf x μ σ)) :=
  ⟨⟨NormalThm.normalCdf_mono hσ, NormalThm.normalCdf_range μ σ, NormalThm.normalCdf_tendsto_zero hσ,
      NormalThm.normalCdf_tendsto_one hσ, NormalThm.normalCdf_add_surv μ σ, NormalThm.normalCdf_hasDerivAt (ne_of_gt hσ),
      fun _ _ hab => NormalThm.normal_integral_pdf hσ hab⟩,
    fun x => ⟨NormalThm.code_cdf x μ σ, NormalThm.code_surv x μ σ,
      by rw [NormalThm.code_cdf, NormalThm.code_surv]; exact NormalThm.normalCdf_add_surv μ σ x,
      NormalThm.code_pdf x μ σ, SpecialFamThm.normal_logpdf hσ⟩,
    NormalThm.pi_literal, fun _ hx => SpecialFamThm.lognormal_logpdf hx hσ⟩

/-- log-normal (`X = e^N`; the library has only its density): the textbook cdf `Φ((ln x − μ)/σ)` is non-decreasing on
    `x > 0`, the textbook density `φ((ln x − μ)/σ)/(σ x)` is its derivative there and integrates to cdf differences;
    `esl_lognormal_pdf` is that density up to the factor `√(π / eslCONST_PI)`. -/
theorem lognormal_laws {μ σ : ℝ} (hσ : 0 < σ) :
    MonotoneOn (NormalThm.lognormalCdf μ σ) (Set.Ioi 0) ∧
    (∀ x, 0 < x → HasDerivAt (NormalThm.lognormalCdf μ σ) (NormalThm.lognormalPdf μ σ x) x) ∧
    (∀ a b, 0 < a → a ≤ b → ∫ x in a..b, NormalThm.lognormalPdf μ σ x = NormalThm.lognormalCdf μ σ b - NormalThm.lognormalCdf μ σ a) ∧
    (∀ x, 0 < x → esl_lognormal_pdf x μ σ * √(2 * 3.14159265358979323846264338328) = NormalThm.lognormalPdf μ σ x * √(2 * π)) :=
  ⟨NormalThm.lognormalCdf_mono_on hσ, fun _ hx => NormalThm.lognormalCdf_hasDerivAt (ne_of_gt hσ) hx,
    fun _ _ ha hab => NormalThm.lognormal_integral_pdf hσ ha hab, fun _ hx => NormalThm.code_lognormal_pdf hx⟩

/-- gamma and stretched exponential: on the interior of the support the translated densities ARE the closed forms up to
    the `esl_stats_LogGamma` symbol — `pdf · e^{LogGamma τ} = λ^τ (x−μ)^{τ−1} e^{−λ(x−μ)}` (textbook density × `Γ(τ)`), resp.
    `pdf · e^{LogGamma(1/τ)} = λ τ e^{−(λ(x−μ))^τ}` — and the cdfs are `P(τ, λ(x−μ))`, resp. `P(1/τ, (λ(x−μ))^τ)` of the
    `esl_stats_IncompleteGamma` model.  (That `LogGamma ≈ log Γ` and `P ≈` the regularised incomplete gamma function is L0.) -/
theorem gam_sxp_closed_forms {x μ l τ : ℝ} (hl : 0 < l) (hx : μ < x) :
    esl_gam_pdf x μ l τ * exp (Num.logGamma τ) = l ^ τ * (x - μ) ^ (τ - 1) * exp (-(l * (x - μ))) ∧
    esl_sxp_pdf x μ l τ * exp (Num.logGamma (1 / τ)) = l * τ * exp (-(l * (x - μ)) ^ τ) ∧
    esl_gam_cdf x μ l τ = Num.incGammaP τ (l * (x - μ)) ∧
    esl_sxp_cdf x μ l τ = Num.incGammaP (1 / τ) ((l * (x - μ)) ^ τ) := by
  have hy : 0 < l * (x - μ) := mul_pos hl (by linarith)
  refine ⟨SpecialFamThm.gam_pdf_closed hl hx, SpecialFamThm.sxp_pdf_closed hl hx, ?_, ?_⟩
  · unfold esl_gam_cdf; simp only [lit_zero]; rw [if_neg (not_le.mpr hy)]
  · unfold esl_sxp_cdf; simp only [lit_one, num_exp, num_log]; rw [if_neg (not_le.mpr hx), Real.rpow_def_of_pos hy, mul_comm τ]

/-- gamma and stretched exponential, L2 at full strength, relative to the incomplete gamma function DEFINED AS AN INTEGRAL
    over Mathlib's Gamma kernel (`IncGammaInt.P a x = (∫_0^x e^{-t} t^{a-1} dt)/Γ(a)`, `Q` the upper integral; proved there:
    `P + Q = 1`, monotone, limits, `HasDerivAt`): textbook cdf `P(τ, λ(x−μ))`, resp. `P(1/τ, (λ(x−μ))^τ)`, is non-decreasing,
    within `[0,1]`, `0` up to `μ`, tends to 1, cdf + surv = 1, the density `λ^τ (x−μ)^{τ−1} e^{−λ(x−μ)}/Γ(τ)`, resp.
    `λ τ e^{−(λ(x−μ))^τ}/Γ(1/τ)`, is its derivative on `x > μ` and integrates to cdf differences.  No hypothesis on any
    special function. -/
theorem gam_sxp_textbook_laws {μ l τ : ℝ} (hl : 0 < l) (hτ : 0 < τ) :
    (Monotone (GamSxpThm.gamCdf μ l τ) ∧ (∀ x, 0 ≤ GamSxpThm.gamCdf μ l τ x ∧ GamSxpThm.gamCdf μ l τ x ≤ 1) ∧
      (∀ x, x ≤ μ → GamSxpThm.gamCdf μ l τ x = 0) ∧ Filter.Tendsto (GamSxpThm.gamCdf μ l τ) Filter.atTop (nhds 1) ∧
      (∀ x, GamSxpThm.gamCdf μ l τ x + GamSxpThm.gamSurv μ l τ x = 1) ∧
      (∀ x, μ < x → HasDerivAt (GamSxpThm.gamCdf μ l τ) (GamSxpThm.gamPdf μ l τ x) x) ∧
      (∀ a b, μ < a → a ≤ b → ∫ x in a..b, GamSxpThm.gamPdf μ l τ x = GamSxpThm.gamCdf μ l τ b - GamSxpThm.gamCdf μ l τ a)) ∧
    (Monotone (GamSxpThm.sxpCdf μ l τ) ∧ (∀ x, 0 ≤ GamSxpThm.sxpCdf μ l τ x ∧ GamSxpThm.sxpCdf μ l τ x ≤ 1) ∧
      (∀ x, x ≤ μ → GamSxpThm.sxpCdf μ l τ x = 0) ∧ Filter.Tendsto (GamSxpThm.sxpCdf μ l τ) Filter.atTop (nhds 1) ∧
      (∀ x, GamSxpThm.sxpCdf μ l τ x + GamSxpThm.sxpSurv μ l τ x = 1) ∧
      (∀ x, μ < x → HasDerivAt (GamSxpThm.sxpCdf μ l τ) (GamSxpThm.sxpPdf μ l τ x) x) ∧
      (∀ a b, μ < a → a ≤ b → ∫ x in a..b, GamSxpThm.sxpPdf μ l τ x = GamSxpThm.sxpCdf μ l τ b - GamSxpThm.sxpCdf μ l τ a)) :=
  ⟨⟨GamSxpThm.gamCdf_mono hl hτ μ, GamSxpThm.gamCdf_range hl hτ μ, fun _ h => by simp [GamSxpThm.gamCdf, h],
      GamSxpThm.gamCdf_tendsto_one hl hτ μ, GamSxpThm.gamCdf_add_surv hl hτ μ, fun _ h => GamSxpThm.gamCdf_hasDerivAt hl hτ h,
      fun _ _ ha hab => GamSxpThm.gam_integral_pdf hl hτ ha hab⟩,
    ⟨GamSxpThm.sxpCdf_mono hl hτ μ, GamSxpThm.sxpCdf_range hl hτ μ, fun _ h => by simp [GamSxpThm.sxpCdf, h],
      GamSxpThm.sxpCdf_tendsto_one hl hτ μ, GamSxpThm.sxpCdf_add_surv hl hτ μ, fun _ h => GamSxpThm.sxpCdf_hasDerivAt hl hτ h,
      fun _ _ ha hab => GamSxpThm.sxp_integral_pdf hl hτ ha hab⟩⟩

/-- gamma and stretched exponential, "the inverse cdf inverts the cdf" at L2: the textbook cdf is strictly increasing on
    `[μ, ∞)`; every `p ∈ (0,1)` has EXACTLY ONE quantile `q > μ`; and the bracketing + bisection ALGORITHM of `esl_gam_invcdf` /
    `esl_sxp_invcdf` (`Bisect.invcdfGam` / `Bisect.invcdfRight`, which the translated functions are instances of —
    `bisection_inverses_generated`), run on the textbook cdf, terminates for all sufficiently large fuel and returns a
    value within `1e-6·(r − μ)` of that quantile (six digits of the offset from `μ`, the stop rule of the C code).
    (What is not proved: the same with the code's cdf — the `esl_stats_IncompleteGamma` algorithm — in place of the textbook
    one; `bisection_inverses_accuracy` bounds the result relative to the code's own cdf, `gam_sxp_code_vs_textbook` says
    how the two cdfs differ.) -/
theorem gam_sxp_inverse_laws {μ l τ p : ℝ} (hl : 0 < l) (hτ : 0 < τ) (hp0 : 0 < p) (hp1 : p < 1) :
    ((∀ s t, μ ≤ s → s < t → GamSxpThm.gamCdf μ l τ s < GamSxpThm.gamCdf μ l τ t) ∧
      (∃! q, μ < q ∧ GamSxpThm.gamCdf μ l τ q = p) ∧
      ∃ q, (μ < q ∧ GamSxpThm.gamCdf μ l τ q = p) ∧ ∃ N : Nat, ∀ fuel, N ≤ fuel →
        ∃ r, Bisect.invcdfGam fuel (GamSxpThm.gamCdf μ l τ) p μ l τ = some r ∧ |r - q| ≤ 1e-6 * (r - μ)) ∧
    ((∀ s t, μ ≤ s → s < t → GamSxpThm.sxpCdf μ l τ s < GamSxpThm.sxpCdf μ l τ t) ∧
      (∃! q, μ < q ∧ GamSxpThm.sxpCdf μ l τ q = p) ∧
      ∃ q, (μ < q ∧ GamSxpThm.sxpCdf μ l τ q = p) ∧ ∃ N : Nat, ∀ fuel, N ≤ fuel →
        ∃ r, Bisect.invcdfRight fuel (GamSxpThm.sxpCdf μ l τ) p μ = some r ∧ |r - q| ≤ 1e-6 * (r - μ)) :=
  ⟨⟨fun _ _ hs hst => QuantileThm.gamCdf_strictMonoOn hl hτ hs hst, QuantileThm.gam_quantile hl hτ hp0 hp1,
      QuantileThm.gam_bisection_inverts hl hτ hp0 hp1⟩,
    ⟨fun _ _ hs hst => QuantileThm.sxpCdf_strictMonoOn hl hτ hs hst, QuantileThm.sxp_quantile hl hτ hp0 hp1,
      QuantileThm.sxp_bisection_inverts hl hτ hp0 hp1⟩⟩

example : ∃! q, (0 : ℝ) < q ∧ GamSxpThm.gamCdf 0 1 2 q = 1 / 2 :=
  (gam_sxp_inverse_laws (μ := 0) (l := 1) (τ := 2) (p := 1 / 2) (by norm_num) (by norm_num) (by norm_num) (by norm_num)).1.2.1

/-- gamma and stretched exponential, L1, UNCONDITIONAL: on `x > μ` the translated density is the textbook density times
    `e^{log Γ(a) − esl_stats_LogGamma(a)}` and the translated cdf / survival differ from the textbook ones exactly by
    `esl_stats_IncompleteGamma(a, y) − (P a y, Q a y)` (`a = τ, y = λ(x−μ)`, resp. `a = 1/τ, y = (λ(x−μ))^τ`): the two
    special-function discrepancies are the only way the code can differ from the textbook. -/
theorem gam_sxp_code_vs_textbook {x μ l τ : ℝ} (hl : 0 < l) (hτ : 0 < τ) (hx : μ < x) :
    (esl_gam_pdf x μ l τ = GamSxpThm.gamPdf μ l τ x * exp (log (Gamma τ) - Num.logGamma τ) ∧
      esl_gam_cdf x μ l τ - GamSxpThm.gamCdf μ l τ x = Num.incGammaP τ (l * (x - μ)) - IncGammaInt.P τ (l * (x - μ)) ∧
      esl_gam_surv x μ l τ - GamSxpThm.gamSurv μ l τ x = Num.incGammaQ τ (l * (x - μ)) - IncGammaInt.Q τ (l * (x - μ))) ∧
    (esl_sxp_pdf x μ l τ = GamSxpThm.sxpPdf μ l τ x * exp (log (Gamma (1 / τ)) - Num.logGamma (1 / τ)) ∧
      esl_sxp_cdf x μ l τ - GamSxpThm.sxpCdf μ l τ x =
        Num.incGammaP (1 / τ) ((l * (x - μ)) ^ τ) - IncGammaInt.P (1 / τ) ((l * (x - μ)) ^ τ) ∧
      esl_sxp_surv x μ l τ - GamSxpThm.sxpSurv μ l τ x =
        Num.incGammaQ (1 / τ) ((l * (x - μ)) ^ τ) - IncGammaInt.Q (1 / τ) ((l * (x - μ)) ^ τ)) :=
  ⟨GamSxpThm.gam_code_vs_textbook hl hτ hx, GamSxpThm.sxp_code_vs_textbook hl hτ hx⟩

/-- …with explicit tolerances: `|LogGamma − log Γ| ≤ ε` and `|IncompleteGamma − (P, Q)| ≤ δ` at the arguments used give
    density within relative `e^ε − 1`, cdf and survival within `δ`, and the code's cdf + surv within `2δ` of 1.
    (`ε`, `δ` are parameters: the hypotheses are satisfiable for every instance, e.g. with the discrepancies themselves;
    the monitors measure `ε ≈ 1e-9`, `δ ≈ 1e-7` against mpmath.) -/
theorem gam_sxp_code_close {x μ l τ ε δ : ℝ} (hl : 0 < l) (hτ : 0 < τ) (hx : μ < x) :
    (|Num.logGamma τ - log (Gamma τ)| ≤ ε → |Num.incGammaP τ (l * (x - μ)) - IncGammaInt.P τ (l * (x - μ))| ≤ δ →
      |Num.incGammaQ τ (l * (x - μ)) - IncGammaInt.Q τ (l * (x - μ))| ≤ δ →
      |esl_gam_pdf x μ l τ - GamSxpThm.gamPdf μ l τ x| ≤ (exp ε - 1) * GamSxpThm.gamPdf μ l τ x ∧
      |esl_gam_cdf x μ l τ - GamSxpThm.gamCdf μ l τ x| ≤ δ ∧ |esl_gam_surv x μ l τ - GamSxpThm.gamSurv μ l τ x| ≤ δ ∧
      |esl_gam_cdf x μ l τ + esl_gam_surv x μ l τ - 1| ≤ 2 * δ) ∧
    (|Num.logGamma (1 / τ) - log (Gamma (1 / τ))| ≤ ε →
      |Num.incGammaP (1 / τ) ((l * (x - μ)) ^ τ) - IncGammaInt.P (1 / τ) ((l * (x - μ)) ^ τ)| ≤ δ →
      |Num.incGammaQ (1 / τ) ((l * (x - μ)) ^ τ) - IncGammaInt.Q (1 / τ) ((l * (x - μ)) ^ τ)| ≤ δ →
      |esl_sxp_pdf x μ l τ - GamSxpThm.sxpPdf μ l τ x| ≤ (exp ε - 1) * GamSxpThm.sxpPdf μ l τ x ∧
      |esl_sxp_cdf x μ l τ - GamSxpThm.sxpCdf μ l τ x| ≤ δ ∧ |esl_sxp_surv x μ l τ - GamSxpThm.sxpSurv μ l τ x| ≤ δ ∧
      |esl_sxp_cdf x μ l τ + esl_sxp_surv x μ l τ - 1| ≤ 2 * δ) :=
  ⟨GamSxpThm.gam_code_close hl hτ hx, GamSxpThm.sxp_code_close hl hτ hx⟩

-- non-vacuity: the tolerance hypotheses hold with the discrepancies themselves
example : |esl_gam_cdf (3 : ℝ) 0 1 2 - GamSxpThm.gamCdf 0 1 2 3| ≤
    max |Num.incGammaP (2 : ℝ) (1 * (3 - 0)) - IncGammaInt.P 2 (1 * (3 - 0))| |Num.incGammaQ (2 : ℝ) (1 * (3 - 0)) - IncGammaInt.Q 2 (1 * (3 - 0))| :=
  ((gam_sxp_code_close (x := 3) (μ := 0) (l := 1) (τ := 2) (ε := |Num.logGamma (2 : ℝ) - log (Gamma 2)|) (by norm_num) (by norm_num)
    (by norm_num)).1 le_rfl (le_max_left _ _) (le_max_right _ _)).2.1

/-- `esl_stats_IncompleteGamma` (hand model read over `ℝ`), the facts that need no analysis: it fails (C: `eslERANGE`) for
    `a ≤ 0` or `x < 0`; a result `(P, Q)` implies `a > 0`, `x ≥ 0`, `P + Q = 1`, and it is `P` that is formed as `1 − Q` on
    the continued-fraction branch `x > a + 1`, `Q` as `1 − P` on the series branch. -/
theorem incomplete_gamma_structure {a x : ℝ} :
    ((a ≤ 0 ∨ x < 0) → realIncGamma a x = none) ∧
    (∀ P Q, realIncGamma a x = some (P, Q) → 0 < a ∧ 0 ≤ x ∧ P + Q = 1 ∧ (a + 1 < x → P = 1 - Q) ∧ (¬ a + 1 < x → Q = 1 - P)) :=
  ⟨SpecialFamThm.realIncGamma_range_error, fun _ _ h => SpecialFamThm.realIncGamma_branches h⟩

/-- Edge, every carrier: gamma below the support (`λ(x-μ) < 0`, resp. `≤ 0`), stretched exponential below `μ`, log-normal
    at `0`: density `0`, cdf `0`, surv `1`, log versions `-inf`, `-inf`, `0`. -/
theorem gam_sxp_outside_support {α : Type} [Add α] [Sub α] [Mul α] [Div α] [Neg α] [OfScientific α] [LT α] [LE α]
    [DecidableLT α] [DecidableLE α] [Num α] {x mu l t : α} :
    (l * (x - mu) < 0.0 → esl_gam_pdf x mu l t = 0.0 ∧ esl_gam_logpdf x mu l t = -Num.inf) ∧
    (l * (x - mu) ≤ 0.0 → esl_gam_cdf x mu l t = 0.0 ∧ esl_gam_surv x mu l t = 1.0 ∧ esl_gam_logcdf x mu l t = -Num.inf ∧
      esl_gam_logsurv x mu l t = 0.0) ∧
    (x < mu → esl_sxp_pdf x mu l t = 0.0 ∧ esl_sxp_logpdf x mu l t = -Num.inf) ∧
    (x ≤ mu → esl_sxp_cdf x mu l t = 0.0 ∧ esl_sxp_surv x mu l t = 1.0 ∧ esl_sxp_logcdf x mu l t = -Num.inf ∧
      esl_sxp_logsurv x mu l t = 0.0) ∧
    (Num.eqb x 0.0 = true → esl_lognormal_pdf x mu l = 0.0 ∧ esl_lognormal_logpdf x mu l = -Num.inf) :=
  ⟨fun h => ⟨Edge.gam_pdf_below h, Edge.gam_logpdf_below h⟩,
    fun h => ⟨Edge.gam_cdf_below h, Edge.gam_surv_below h, Edge.gam_logcdf_below h, Edge.gam_logsurv_below h⟩,
    fun h => ⟨Edge.sxp_pdf_below h, Edge.sxp_logpdf_below h⟩,
    fun h => ⟨Edge.sxp_cdf_below h, Edge.sxp_surv_below h, Edge.sxp_logcdf_below h, Edge.sxp_logsurv_below h⟩,
    fun h => ⟨Edge.lognormal_pdf_zero h, Edge.lognormal_logpdf_zero h⟩⟩

/-! ## Mixtures (`esl_hxp_*`, `esl_mixgev_*`, TRANSLATED since round 3: counted loops = finite sums over the components)

`MixGen.hxpCdf h x = Σ_{k<K} q_k · expCdf μ λ_k x` etc. are the textbook mixtures; `HxpOK` / `MixgevOK` say: coefficients
`≥ 0`, rates/scales `> 0` (GEV shapes `≠ 0`) for the `K` components in use.  `hxpQ` / `mixgevQ` is `Σ q_k` (1 when
normalised; the code never normalises). -/

/-- hyperexponential, L2 + L1: the textbook mixture cdf is non-decreasing from `0` (below `μ`) to `Σq`, cdf + surv = `Σq`;
    the translated code's cdf is within `2.5e-17·Σq` of it for every argument, survival and density are exact, the
    code's own cdf + surv is within `2.5e-17·Σq` of `Σq` (exactly 1 below `μ`), and `cdf μ = 0`. -/
theorem hxp_mixture_laws {h : ESL_HYPEREXP ℝ} (ok : MixGen.HxpOK h) :
    (Monotone (MixGen.hxpCdf h) ∧ (∀ x, x < h.mu → MixGen.hxpCdf h x = 0) ∧
      (∀ x, 0 ≤ MixGen.hxpCdf h x ∧ MixGen.hxpCdf h x ≤ MixGen.hxpQ h) ∧
      Filter.Tendsto (MixGen.hxpCdf h) Filter.atTop (nhds (MixGen.hxpQ h)) ∧
      (∀ x, MixGen.hxpCdf h x + MixGen.hxpSurv h x = MixGen.hxpQ h)) ∧
    (∀ x, |esl_hxp_cdf x h - MixGen.hxpCdf h x| ≤ 2.5e-17 * MixGen.hxpQ h ∧
      esl_hxp_surv x h = (if x < h.mu then 1 else MixGen.hxpSurv h x) ∧ esl_hxp_pdf x h = MixGen.hxpPdf h x) ∧
    (∀ x, (x < h.mu → esl_hxp_cdf x h + esl_hxp_surv x h = 1) ∧
      (h.mu ≤ x → |esl_hxp_cdf x h + esl_hxp_surv x h - MixGen.hxpQ h| ≤ 2.5e-17 * MixGen.hxpQ h)) ∧
    esl_hxp_cdf h.mu h = 0 :=
  ⟨MixGen.hxp_textbook_laws ok, MixGen.hxp_code_eq_textbook ok, MixGen.hxp_cdf_add_surv ok, MixGen.hxp_cdf_at_mu h⟩

/-- a two-component hyperexponential satisfying `HxpOK` -/
example : MixGen.HxpOK ({ mu := 0, K := 2, q := [0.25, 0.75], lambda := [1, 2], wrk := [0, 0] } : ESL_HYPEREXP ℝ) := by
  intro k hk
  have : k = 0 ∨ k = 1 := by simp only at hk; omega
  rcases this with rfl | rfl <;> simp [MixGen.hq, MixGen.hl] <;> norm_num

/-- mixture of GEVs: the textbook mixture cdf is non-decreasing within `[0, Σq]`, cdf + surv = `Σq`; at every `x` outside
    the components' `|α y| < 1e-12` Gumbel slivers the translated cdf and density ARE the textbook mixture, the
    survival is within `2.3e-16·Σq` of it and cdf + surv within `2.3e-16·Σq` of `Σq`. -/
theorem mixgev_mixture_laws {g : ESL_MIXGEV ℝ} (ok : MixGen.MixgevOK g) :
    (Monotone (MixGen.mixgevCdf g) ∧ (∀ x, 0 ≤ MixGen.mixgevCdf g x ∧ MixGen.mixgevCdf g x ≤ MixGen.mixgevQ g) ∧
      (∀ x, MixGen.mixgevCdf g x + MixGen.mixgevSurv g x = MixGen.mixgevQ g)) ∧
    (∀ x, MixGen.GevBranch g x → esl_mixgev_cdf x g = MixGen.mixgevCdf g x ∧ esl_mixgev_pdf x g = MixGen.mixgevPdf g x ∧
      |esl_mixgev_surv x g - MixGen.mixgevSurv g x| ≤ 2.3e-16 * MixGen.mixgevQ g ∧
      |esl_mixgev_cdf x g + esl_mixgev_surv x g - MixGen.mixgevQ g| ≤ 2.3e-16 * MixGen.mixgevQ g) :=
  ⟨MixGen.mixgev_textbook_laws ok, fun _ hb => MixGen.mixgev_code_eq_textbook ok hb⟩

/-- mixture of GEVs at EVERY argument (no `GevBranch` hypothesis; `y_k = λ_k (x − μ_k)`, `|y_k| ≤ 1e11`): a component inside
    its `|α y| < 1e-12` Gumbel sliver contributes its Gumbel-vs-GEV distance, one outside contributes nothing — the translated
    mixture cdf is within `Σ_k q_k·4e-12·|y_k|·e^{-y_k}` of the textbook mixture cdf, the survival within that plus `2.3e-16·Σq`. -/
theorem mixgev_code_close_everywhere {g : ESL_MIXGEV ℝ} (ok : MixGen.MixgevOK g) {x : ℝ} (hy : ∀ k < g.K, |MixgevAll.yk g x k| ≤ 1e11) :
    |esl_mixgev_cdf x g - MixGen.mixgevCdf g x| ≤
      ∑ k ∈ Finset.range g.K, MixGen.gq g k * (4e-12 * |MixgevAll.yk g x k| * exp (-(MixgevAll.yk g x k))) ∧
    |esl_mixgev_surv x g - MixGen.mixgevSurv g x| ≤ 2.3e-16 * MixGen.mixgevQ g +
      ∑ k ∈ Finset.range g.K, MixGen.gq g k * (4e-12 * |MixgevAll.yk g x k| * exp (-(MixgevAll.yk g x k))) :=
  MixgevAll.mixgev_close_everywhere ok hy

/-- mixtures at full strength, for EVERY number of components `K`: the mixture density is the derivative of the mixture
    cdf at every point that is not a support boundary of a component — hyperexponential: every `x ≠ μ`; GEV mixture:
    every `x` with `1 + α_k λ_k (x − μ_k) ≠ 0` for all `k` (outside a component's support its cdf is locally constant and
    its density `0`) — and for normalised coefficients (`Σ q = 1`): cdf + surv = 1, cdf within `[0,1]`, and the
    hyperexponential cdf tends to 1. -/
theorem mixture_full_laws :
    (∀ h : ESL_HYPEREXP ℝ, (∀ x, x ≠ h.mu → HasDerivAt (MixGen.hxpCdf h) (MixGen.hxpPdf h x) x) ∧
      (MixGen.HxpOK h → MixGen.hxpQ h = 1 → Monotone (MixGen.hxpCdf h) ∧
        (∀ x, MixGen.hxpCdf h x + MixGen.hxpSurv h x = 1) ∧ (∀ x, 0 ≤ MixGen.hxpCdf h x ∧ MixGen.hxpCdf h x ≤ 1) ∧
        Filter.Tendsto (MixGen.hxpCdf h) Filter.atTop (nhds 1))) ∧
    (∀ g : ESL_MIXGEV ℝ, MixGen.MixgevOK g →
      (∀ x, (∀ k < g.K, gevArg (MixGen.gm g k) (MixGen.gl g k) (MixGen.ga g k) x ≠ 0) →
        HasDerivAt (MixGen.mixgevCdf g) (MixGen.mixgevPdf g x) x) ∧
      (MixGen.mixgevQ g = 1 → Monotone (MixGen.mixgevCdf g) ∧ (∀ x, MixGen.mixgevCdf g x + MixGen.mixgevSurv g x = 1) ∧
        (∀ x, 0 ≤ MixGen.mixgevCdf g x ∧ MixGen.mixgevCdf g x ≤ 1))) :=
  ⟨fun h => ⟨fun _ hx => MixDeriv.hxp_hasDerivAt_ne h hx, fun ok hQ => by
      obtain ⟨h1, _, h3, h4, h5⟩ := MixGen.hxp_textbook_laws ok
      rw [hQ] at h3 h4 h5
      exact ⟨h1, h5, h3, h4⟩⟩,
    fun g ok => ⟨fun _ hx => MixDeriv.mixgev_hasDerivAt ok hx, fun hQ => by
      obtain ⟨h1, h2, h3⟩ := MixGen.mixgev_textbook_laws ok
      rw [hQ] at h2 h3
      exact ⟨h1, h3, h2⟩⟩⟩

/-- a normalised three-component hyperexponential satisfies the hypotheses (`K = 3`, `Σ q = 1`) -/
example : MixGen.HxpOK ({ mu := 1, K := 3, q := [0.25, 0.25, 0.5], lambda := [1, 2, 3], wrk := [0, 0, 0] } : ESL_HYPEREXP ℝ) ∧
    MixGen.hxpQ ({ mu := 1, K := 3, q := [0.25, 0.25, 0.5], lambda := [1, 2, 3], wrk := [0, 0, 0] } : ESL_HYPEREXP ℝ) = 1 := by
  constructor
  · intro k hk
    have : k = 0 ∨ k = 1 ∨ k = 2 := by simp only at hk; omega
    rcases this with rfl | rfl | rfl <;> simp [MixGen.hq, MixGen.hl] <;> norm_num
  · simp [MixGen.hxpQ, MixGen.hq, Finset.sum_range_succ]; norm_num

/-- hyperexponential, "the inverse cdf inverts the cdf" at L2, every `K`: rates `> 0`, coefficients `≥ 0`, at least one
    `> 0` ⇒ the textbook mixture cdf is strictly increasing on `[μ, ∞)`, every `p ∈ (0, Σq)` has exactly one quantile `q > μ`,
    and the bracketing + bisection algorithm of `esl_hxp_invcdf` (`Bisect.invcdfRightLim`, which the translated function is an
    instance of) run on the textbook cdf returns, for all sufficiently large fuel, within `1e-6·(r − μ)` of that quantile.
    (For `p ≥ Σq` see `bisection_bracket_returns_at_infinity`.) -/
theorem hxp_inverse_laws {h : ESL_HYPEREXP ℝ} (ok : MixGen.HxpOK h) (hsome : ∃ k < h.K, 0 < MixGen.hq h k) {p : ℝ}
    (hp0 : 0 < p) (hp1 : p < MixGen.hxpQ h) :
    (∀ s t, h.mu ≤ s → s < t → MixGen.hxpCdf h s < MixGen.hxpCdf h t) ∧ (∃! q, h.mu < q ∧ MixGen.hxpCdf h q = p) ∧
    ∃ q, (h.mu < q ∧ MixGen.hxpCdf h q = p) ∧ ∃ N : Nat, ∀ fuel, N ≤ fuel →
      ∃ r, Bisect.invcdfRightLim fuel (MixGen.hxpCdf h) p h.mu = some r ∧ |r - q| ≤ 1e-6 * (r - h.mu) :=
  ⟨fun _ _ hs hst => HxpQuantile.hxpCdf_strictMono ok hsome hs hst, HxpQuantile.hxp_quantile ok hsome hp0 hp1,
    HxpQuantile.hxp_bisection_inverts ok hsome hp0 hp1⟩

/-- `esl_vec_DMax` / `esl_vec_DMin` (translated) return an entry of `vec[0..n-1]` that bounds all of them — so the left
    bracket of `esl_mixgev_invcdf` starts at the smallest component location. -/
theorem vec_extremes (vec : List ℝ) {n : ℕ} (hn : 1 ≤ n) :
    ((∀ i < n, vec.getD i 0 ≤ esl_vec_DMax vec n) ∧ ∃ i < n, esl_vec_DMax vec n = vec.getD i 0) ∧
    ((∀ i < n, esl_vec_DMin vec n ≤ vec.getD i 0) ∧ ∃ i < n, esl_vec_DMin vec n = vec.getD i 0) :=
  MixGen.vec_dmax_dmin vec hn

/-- mixture log versions: the translated `esl_vec_DLogSum` IS `log Σ exp v_i` whenever all entries lie in its 500-window
    below the maximum (what it drops otherwise is below `e^{-500}` of the largest term); and for positive coefficients
    whose stored log-terms `log q_k + log f_k(x)` lie within 500 of each other, `esl_hxp_logsurv = log esl_hxp_surv` and
    `esl_hxp_logpdf = log esl_hxp_pdf` exactly on `x ≥ μ` (through the loop that fills `h->wrk`).
    `esl_hxp_logcdf` is within `1e-8` of `log` of the textbook mixture cdf on `x > μ` (round 4: log-sum-exp is 1-Lipschitz
    in the sup norm, so the components' `1e-8` is inherited, not accumulated).
    `_partial`: the out-of-window remainder (terms below `e^{-500}` of the largest) is monitored only.  The log versions of
    the GEV mixture: `mixgev_log_versions` below. -/
theorem mixture_log_versions_partial :
    (∀ (vec : List ℝ) (n : ℕ), 1 ≤ n → esl_vec_DMax vec n ≠ (Num.inf : ℝ) → (∀ i < n, esl_vec_DMax vec n - 500 < vec.getD i 0) →
      esl_vec_DLogSum vec n = log (∑ i ∈ Finset.range n, exp (vec.getD i 0))) ∧
    (∀ (h : ESL_HYPEREXP ℝ) (x : ℝ), h.mu ≤ x → 1 ≤ h.K → h.K ≤ h.wrk.length → (∀ k < h.K, 0 < MixGen.hq h k) →
      (∀ k < h.K, MixLogGen.entry h (fun l => esl_exp_logsurv x h.mu l) k ≠ (Num.inf : ℝ)) →
      (∀ i < h.K, ∀ j < h.K, MixLogGen.entry h (fun l => esl_exp_logsurv x h.mu l) j - 500 <
        MixLogGen.entry h (fun l => esl_exp_logsurv x h.mu l) i) →
      esl_hxp_logsurv x h = log (esl_hxp_surv x h)) ∧
    (∀ (h : ESL_HYPEREXP ℝ) (x : ℝ), h.mu ≤ x → 1 ≤ h.K → h.K ≤ h.wrk.length →
      (∀ k < h.K, 0 < MixGen.hq h k ∧ 0 < MixGen.hl h k ∧ MixGen.hl h k ≠ (Num.inf : ℝ)) →
      (∀ k < h.K, MixLogGen.entry h (fun l => esl_exp_logpdf x h.mu l) k ≠ (Num.inf : ℝ)) →
      (∀ i < h.K, ∀ j < h.K, MixLogGen.entry h (fun l => esl_exp_logpdf x h.mu l) j - 500 <
        MixLogGen.entry h (fun l => esl_exp_logpdf x h.mu l) i) →
      esl_hxp_logpdf x h = log (esl_hxp_pdf x h)) ∧
    (∀ (h : ESL_HYPEREXP ℝ) (x : ℝ), h.mu < x → 1 ≤ h.K → h.K ≤ h.wrk.length → (∀ k < h.K, 0 < MixGen.hq h k ∧ 0 < MixGen.hl h k) →
      (∀ k < h.K, MixLogGen.entry h (fun l => esl_exp_logcdf x h.mu l) k ≠ (Num.inf : ℝ)) →
      (∀ i < h.K, ∀ j < h.K, MixLogGen.entry h (fun l => esl_exp_logcdf x h.mu l) j - 500 <
        MixLogGen.entry h (fun l => esl_exp_logcdf x h.mu l) i) →
      |esl_hxp_logcdf x h - log (MixGen.hxpCdf h x)| ≤ 1e-8) :=
  ⟨fun vec _ hn hfin hwin => MixGen.vec_dlogsum vec hn hfin hwin,
    fun _ _ hx hK hw hpos hfin hwin => MixLogGen.hxp_logsurv_eq hx hK hw hpos hfin hwin,
    fun _ _ hx hK hw hpos hfin hwin => MixLogGen.hxp_logpdf_eq hx hK hw hpos hfin hwin,
    fun _ _ hx hK hw hpos hfin hwin => MixLogClose.hxp_logcdf_close hx hK hw hpos hfin hwin⟩

/-- Round 6 — the `_partial` above made full: mixture log versions with NO window hypothesis.
    `esl_vec_DLogSum` (translated) adds `exp (v_i − max)` only for entries inside the 500-window below the maximum; for
    EVERY vector (`n ≥ 1`, maximum not the infinity symbol) the result lies below `log Σ_{i<n} exp v_i` by at most
    `n · e^{-500}` (`≈ n · 7e-218`: far below one ulp of any representable result).  Consequently, for positive coefficients
    and EVERY spread of the rates, on `x ≥ μ`: `log esl_hxp_surv − K e^{-500} ≤ esl_hxp_logsurv ≤ log esl_hxp_surv`, and the
    same for `esl_hxp_logpdf` (finite rates); `esl_hxp_logcdf` within `1e-8 + K e^{-500}` of `log` of the textbook mixture cdf on `x > μ`;
    for the GEV mixture (`MixgevLog.Inside g x`, as in `mixgev_log_versions`, but WITHOUT
    its window hypothesis): `logcdf`, `logpdf` within `K e^{-500}` below the logarithm of the textbook mixture, `logsurv` within
    `3e-8 + K e^{-500}`. -/
theorem mixture_log_versions :
    (∀ (vec : List ℝ) (n : ℕ), 1 ≤ n → esl_vec_DMax vec n ≠ (Num.inf : ℝ) →
      esl_vec_DLogSum vec n ≤ log (∑ i ∈ Finset.range n, exp (vec.getD i 0)) ∧
      log (∑ i ∈ Finset.range n, exp (vec.getD i 0)) ≤ esl_vec_DLogSum vec n + n * exp (-500)) ∧
    (∀ (h : ESL_HYPEREXP ℝ) (x : ℝ), h.mu ≤ x → 1 ≤ h.K → h.K ≤ h.wrk.length → (∀ k < h.K, 0 < MixGen.hq h k) →
      (∀ k < h.K, MixLogGen.entry h (fun l => esl_exp_logsurv x h.mu l) k ≠ (Num.inf : ℝ)) →
      esl_hxp_logsurv x h ≤ log (esl_hxp_surv x h) ∧ log (esl_hxp_surv x h) ≤ esl_hxp_logsurv x h + h.K * exp (-500)) ∧
    (∀ (h : ESL_HYPEREXP ℝ) (x : ℝ), h.mu ≤ x → 1 ≤ h.K → h.K ≤ h.wrk.length →
      (∀ k < h.K, 0 < MixGen.hq h k ∧ 0 < MixGen.hl h k ∧ MixGen.hl h k ≠ (Num.inf : ℝ)) →
      (∀ k < h.K, MixLogGen.entry h (fun l => esl_exp_logpdf x h.mu l) k ≠ (Num.inf : ℝ)) →
      esl_hxp_logpdf x h ≤ log (esl_hxp_pdf x h) ∧ log (esl_hxp_pdf x h) ≤ esl_hxp_logpdf x h + h.K * exp (-500)) ∧
    (∀ (h : ESL_HYPEREXP ℝ) (x : ℝ), h.mu < x → 1 ≤ h.K → h.K ≤ h.wrk.length → (∀ k < h.K, 0 < MixGen.hq h k ∧ 0 < MixGen.hl h k) →
      (∀ k < h.K, MixLogGen.entry h (fun l => esl_exp_logcdf x h.mu l) k ≠ (Num.inf : ℝ)) →
      |esl_hxp_logcdf x h - log (MixGen.hxpCdf h x)| ≤ 1e-8 + h.K * exp (-500)) ∧
    (∀ (g : ESL_MIXGEV ℝ) (x : ℝ), MixgevLog.Inside g x →
      ((∀ k < g.K, MixgevLog.entryG g (fun k => esl_gev_logcdf x (MixGen.gm g k) (MixGen.gl g k) (MixGen.ga g k)) k ≠ (Num.inf : ℝ)) →
        esl_mixgev_logcdf x g ≤ log (MixGen.mixgevCdf g x) ∧ log (MixGen.mixgevCdf g x) ≤ esl_mixgev_logcdf x g + g.K * exp (-500)) ∧
      ((∀ k < g.K, MixgevLog.entryG g (fun k => esl_gev_logpdf x (MixGen.gm g k) (MixGen.gl g k) (MixGen.ga g k)) k ≠ (Num.inf : ℝ)) →
        esl_mixgev_logpdf x g ≤ log (MixGen.mixgevPdf g x) ∧ log (MixGen.mixgevPdf g x) ≤ esl_mixgev_logpdf x g + g.K * exp (-500)) ∧
      ((∀ k < g.K, MixgevLog.entryG g (fun k => esl_gev_logsurv x (MixGen.gm g k) (MixGen.gl g k) (MixGen.ga g k)) k ≠ (Num.inf : ℝ)) →
        |esl_mixgev_logsurv x g - log (MixGen.mixgevSurv g x)| ≤ 3e-8 + g.K * exp (-500))) :=
  ⟨fun vec _ hn hfin => DLogSumAll.dlogsum_bound vec hn hfin,
    fun _ _ hx hK hw hpos hfin => DLogSumAll.hxp_logsurv_all hx hK hw hpos hfin,
    fun _ _ hx hK hw hpos hfin => DLogSumAll.hxp_logpdf_all hx hK hw hpos hfin,
    fun _ _ hx hK hw hpos hfin => DLogSumAll.hxp_logcdf_all hx hK hw hpos hfin,
    fun _ _ hi => DLogSumAll.mixgev_log_all hi⟩

/-- non-vacuity: an entry 600 below the maximum is OUTSIDE the window (the round-4 theorem does not apply), the new bound
    does; `c` is any real number other than the opaque infinity symbol -/
example : ∃ c : ℝ, esl_vec_DLogSum [c, c - 600] 2 ≤ log (∑ i ∈ Finset.range 2, exp (([c, c - 600] : List ℝ).getD i 0)) ∧
    ¬ (esl_vec_DMax [c, c - 600] 2 - 500 < ([c, c - 600] : List ℝ).getD 1 0) := by
  have key : ∀ c : ℝ, esl_vec_DMax [c, c - 600] 2 = c := by
    intro c
    obtain ⟨⟨hmax, j, hj, hjm⟩, _⟩ := MixGen.vec_dmax_dmin [c, c - 600] (n := 2) (by norm_num)
    have h0 := hmax 0 (by norm_num)
    have : j = 0 ∨ j = 1 := by omega
    rcases this with rfl | rfl
    · simpa using hjm
    · simp at hjm h0; linarith
  obtain ⟨c, hc⟩ : ∃ c : ℝ, c ≠ (Num.inf : ℝ) := by
    by_cases h : (0 : ℝ) = Num.inf
    · exact ⟨1, by rw [← h]; norm_num⟩
    · exact ⟨0, h⟩
  refine ⟨c, (mixture_log_versions.1 [c, c - 600] 2 (by norm_num) (by rw [key]; exact hc)).1, ?_⟩
  rw [key]; simp; linarith

/-- log versions of the GEV mixture (TRANSLATED loops + `esl_vec_DLogSum`; `MixgevLog.Inside g x`: `K ≥ 1`, the scratch
    vector has `K` slots, coefficients and scales positive, every component in its GEV branch and `x` inside every support;
    the stored log-terms finite and within the 500-window): `esl_mixgev_logcdf = log cdf` and `esl_mixgev_logpdf = log pdf`
    of the textbook mixture exactly, `esl_mixgev_logsurv` within `3e-8` of `log surv` (the components' switch error is
    inherited, not accumulated).  `esl_mixgev_logsurv`'s loop differs from the other two (`wrk[k] = log q[k]; wrk[k] += …`,
    no `q == 0` test): the theorem needs the `K` slots for its read-back. -/
theorem mixgev_log_versions {g : ESL_MIXGEV ℝ} {x : ℝ} (hi : MixgevLog.Inside g x) :
    ((∀ k < g.K, MixgevLog.entryG g (fun k => esl_gev_logcdf x (MixGen.gm g k) (MixGen.gl g k) (MixGen.ga g k)) k ≠ (Num.inf : ℝ)) →
      (∀ i < g.K, ∀ j < g.K, MixgevLog.entryG g (fun k => esl_gev_logcdf x (MixGen.gm g k) (MixGen.gl g k) (MixGen.ga g k)) j - 500 <
        MixgevLog.entryG g (fun k => esl_gev_logcdf x (MixGen.gm g k) (MixGen.gl g k) (MixGen.ga g k)) i) →
      esl_mixgev_logcdf x g = log (MixGen.mixgevCdf g x)) ∧
    ((∀ k < g.K, MixgevLog.entryG g (fun k => esl_gev_logpdf x (MixGen.gm g k) (MixGen.gl g k) (MixGen.ga g k)) k ≠ (Num.inf : ℝ)) →
      (∀ i < g.K, ∀ j < g.K, MixgevLog.entryG g (fun k => esl_gev_logpdf x (MixGen.gm g k) (MixGen.gl g k) (MixGen.ga g k)) j - 500 <
        MixgevLog.entryG g (fun k => esl_gev_logpdf x (MixGen.gm g k) (MixGen.gl g k) (MixGen.ga g k)) i) →
      esl_mixgev_logpdf x g = log (MixGen.mixgevPdf g x)) ∧
    ((∀ k < g.K, MixgevLog.entryG g (fun k => esl_gev_logsurv x (MixGen.gm g k) (MixGen.gl g k) (MixGen.ga g k)) k ≠ (Num.inf : ℝ)) →
      (∀ i < g.K, ∀ j < g.K, MixgevLog.entryG g (fun k => esl_gev_logsurv x (MixGen.gm g k) (MixGen.gl g k) (MixGen.ga g k)) j - 500 <
        MixgevLog.entryG g (fun k => esl_gev_logsurv x (MixGen.gm g k) (MixGen.gl g k) (MixGen.ga g k)) i) →
      |esl_mixgev_logsurv x g - log (MixGen.mixgevSurv g x)| ≤ 3e-8) :=
  ⟨MixgevLog.mixgev_logcdf_close hi, MixgevLog.mixgev_logpdf_close hi, MixgevLog.mixgev_logsurv_close hi⟩

/-- `Inside` is satisfiable: one Fréchet-type component (`α = 0.5`) at `x = 1` -/
example : MixgevLog.Inside ({ K := 1, q := [1], mu := [0], lambda := [1], alpha := [0.5], wrk := [0] } : ESL_MIXGEV ℝ) 1 where
  K1 := le_refl 1
  wrk := le_refl 1
  pos := fun k hk => by
    have : k = 0 := by simp only at hk; omega
    subst this; simp [MixGen.gq, MixGen.gl]
  branch := fun k hk => by
    have : k = 0 := by simp only at hk; omega
    subst this; simp [MixGen.gl, MixGen.gm, MixGen.ga]; norm_num
  supp := fun k hk => by
    have : k = 0 := by simp only at hk; omega
    subst this; simp [MixGen.gl, MixGen.gm, MixGen.ga, gevArg]; norm_num

/-! ## Gumbel-vs-GEV distance inside the Gumbel branch -/

/-- For `α ≠ 0` with `|α y| < 1e-12` the code evaluates the Gumbel `log cdf = -e^{-y}`; the GEV with that `α` has
    exponent `s = log(1+αy)/α` with `|s - y| ≤ 2e-12·|y|`, and its `log cdf` differs from the returned value by at most
    `4e-12·|y|·e^{-y}`, i.e. relative `4e-12·|y|` (`|y| ≤ 1e11`); the cdf by the same amount (exp is 1-Lipschitz on `(-∞,0]`)
    and the survival by that plus the `2.3e-16` of its own switch; the log density (GEV: `log λ − (1+α)s − e^{-s}`)
    by at most `2e-12·|y| + 4e-12·|y|·e^{-y} + 2e-12`, the density by the corresponding relative amount; `logsurv` by `3e-8` (its own three-way switch) plus `7e-12·|y|`
    (`|log(1−e^{−a}) − log(1−e^{−b})| ≤ |a−b|/min(a,b)`).  Round 4: with this all eight x-functions are bounded against the
    GEV with the actual `α` inside the Gumbel branch — the former `gev_gumbel_branch_partial` is complete. -/
theorem gev_gumbel_branch_distance {x μ l α : ℝ} (hα : α ≠ 0) (hg : |l * (x - μ) * α| < 1e-12) :
    |log (1 + α * (l * (x - μ))) / α - l * (x - μ)| ≤ 2e-12 * |l * (x - μ)| ∧
      (|l * (x - μ)| ≤ 1e11 →
        |esl_gev_logcdf x μ l α - log (gevCdf μ l α x)| ≤ 4e-12 * |l * (x - μ)| * exp (-(l * (x - μ))) ∧
        |esl_gev_cdf x μ l α - gevCdf μ l α x| ≤ 4e-12 * |l * (x - μ)| * exp (-(l * (x - μ))) ∧
        |esl_gev_surv x μ l α - gevSurv μ l α x| ≤ 2.3e-16 + 4e-12 * |l * (x - μ)| * exp (-(l * (x - μ))) ∧
        |esl_gev_logsurv x μ l α - log (gevSurv μ l α x)| ≤ 3e-8 + 7e-12 * |l * (x - μ)| ∧
        (0 < l → |esl_gev_logpdf x μ l α - log (gevPdf μ l α x)| ≤
            2e-12 * |l * (x - μ)| + 4e-12 * |l * (x - μ)| * exp (-(l * (x - μ))) + 2e-12 ∧
          |esl_gev_pdf x μ l α - gevPdf μ l α x| ≤
            (exp (2e-12 * |l * (x - μ)| + 4e-12 * |l * (x - μ)| * exp (-(l * (x - μ))) + 2e-12) - 1) * gevPdf μ l α x)) :=
  ⟨GevThm.gumbel_branch_exponent hα hg, fun hy => ⟨GevThm.gumbel_branch_logcdf_dist hα hg hy,
    GevDist.gumbel_branch_cdf_dist hα hg hy, GevDist.gumbel_branch_surv_dist hα hg hy, GevDist.gumbel_branch_logsurv_dist hα hg hy,
    fun hl => ⟨GevDist.gumbel_branch_logpdf_dist hl hα hg hy, GevDist.gumbel_branch_pdf_dist hl hα hg hy⟩⟩⟩

example : |esl_gev_logcdf (2 : ℝ) 0 1 1e-13 - log (gevCdf 0 1 1e-13 2)| ≤ 4e-12 * |(1 : ℝ) * (2 - 0)| * exp (-((1 : ℝ) * (2 - 0))) :=
  ((gev_gumbel_branch_distance (by norm_num) (by norm_num [abs_of_pos])).2 (by norm_num [abs_of_pos])).1

/-! ## Bracketing + bisection inverses (`esl_sxp_invcdf`, `esl_gam_invcdf`, `esl_hxp_invcdf`, `esl_mixgev_invcdf`)

Since round 3 the four functions are TRANSLATED from the working tree on every run (each `do … while` becomes a helper
recursing on a fuel argument, `none` = fuel exhausted = the C loop would still be running; the driver executes these
generated functions against the C code).  `bisection_inverses_generated` identifies them, for every carrier, with the
generic loops of `Dist/Bisect.lean`; the theorems below are proved once on the generic loops (`BisectThm`, `BisectTerm`)
and stated on the generated functions. -/

/-- the translated inverses ARE the generic bracketing + bisection at their own (translated) cdf -/
theorem bisection_inverses_generated {α : Type} [Add α] [Sub α] [Mul α] [Div α] [Neg α] [OfScientific α] [LT α] [LE α]
    [DecidableLT α] [DecidableLE α] [Num α] (fuel : Nat) (p mu l t : α) (h : ESL_HYPEREXP α) (mg : ESL_MIXGEV α) :
    esl_sxp_invcdf fuel p mu l t = Bisect.invcdfRight fuel (fun x => esl_sxp_cdf x mu l t) p mu ∧
    esl_gam_invcdf fuel p mu l t = Bisect.invcdfGam fuel (fun x => esl_gam_cdf x mu l t) p mu l t ∧
    esl_hxp_invcdf fuel p h = Bisect.invcdfRightLim fuel (fun x => esl_hxp_cdf x h) p h.mu ∧
    esl_mixgev_invcdf fuel p mg = Bisect.invcdfMix fuel (fun x => esl_mixgev_cdf x mg) p (esl_vec_DMin mg.mu mg.K) :=
  ⟨BisectGen.sxp_invcdf fuel p mu l t, BisectGen.gam_invcdf fuel p mu l t, BisectGen.hxp_invcdf fuel p h,
    BisectGen.mixgev_invcdf fuel p mg⟩

/-- Bracket invariant: whatever the cdf does, a returned value `r` lies inside a bracket `[a, b]` with
    `cdf a ≤ p ≤ cdf b` (right of `μ` for the one-sided families) — every iteration keeps `cdf x1 ≤ p ≤ cdf x2`. -/
theorem bisection_inverses_bracket {p μ l τ r : ℝ} (hp : 0 ≤ p) (fuel : Nat) :
    (esl_sxp_invcdf fuel p μ l τ = some r →
      ∃ a b, μ ≤ a ∧ a ≤ r ∧ r ≤ b ∧ esl_sxp_cdf a μ l τ ≤ p ∧ p ≤ esl_sxp_cdf b μ l τ) ∧
    (0 ≤ τ / l → esl_gam_invcdf fuel p μ l τ = some r →
      ∃ a b, μ ≤ a ∧ a ≤ r ∧ r ≤ b ∧ esl_gam_cdf a μ l τ ≤ p ∧ p ≤ esl_gam_cdf b μ l τ) ∧
    (∀ h : ESL_HYPEREXP ℝ, esl_hxp_invcdf fuel p h = some r →
      ∃ a b, h.mu ≤ a ∧ a ≤ r ∧ r ≤ b ∧ esl_hxp_cdf a h ≤ p ∧ p ≤ esl_hxp_cdf b h) ∧
    (∀ mg : ESL_MIXGEV ℝ, esl_mixgev_invcdf fuel p mg = some r →
      ∃ a b, a ≤ r ∧ r ≤ b ∧ esl_mixgev_cdf a mg ≤ p ∧ p ≤ esl_mixgev_cdf b mg) :=
  ⟨fun h => BisectThm.invcdfRight_brackets (cdf := fun x => esl_sxp_cdf x μ l τ)
      (by show esl_sxp_cdf μ μ l τ ≤ p; rw [Edge.sxp_cdf_below (le_refl μ)]; simpa using hp) (BisectGen.sxp_invcdf fuel p μ l τ ▸ h),
    fun hlt h => BisectThm.invcdfGam_brackets (cdf := fun x => esl_gam_cdf x μ l τ)
      (by show esl_gam_cdf μ μ l τ ≤ p; rw [Edge.gam_cdf_below (by simp)]; simpa using hp) hlt (BisectGen.gam_invcdf fuel p μ l τ ▸ h),
    fun hx h => BisectThm.invcdfRight_brackets (cdf := fun x => esl_hxp_cdf x hx)
      (by show esl_hxp_cdf hx.mu hx ≤ p; rw [MixGen.hxp_cdf_at_mu]; exact hp) (BisectReal.hxp_invcdf_real fuel p hx ▸ h),
    fun mg h => BisectThm.invcdfMix_brackets (cdf := fun x => esl_mixgev_cdf x mg) (BisectGen.mixgev_invcdf fuel p mg ▸ h)⟩

/-- Accuracy on exit: the returned `r` is the midpoint of a final bracket no wider than the stop rule, so the point `q`
    where the cdf crosses `p` (`cdf < p` left of it, `> p` right of it — no monotonicity needed beyond that) satisfies
    `|r − q| ≤ 1e-6 · (r − μ)` (six digits of the offset from `μ`) for `sxp`, `gam`, `hxp`, and
    `|r − q| ≤ 1.01e-6 · (|r| + 1e-9)` for `mixgev`. -/
theorem bisection_inverses_accuracy {p μ l τ r q : ℝ} (hp : 0 ≤ p) (fuel : Nat) :
    (esl_sxp_invcdf fuel p μ l τ = some r → (∀ x, x < q → esl_sxp_cdf x μ l τ < p) → (∀ x, q < x → p < esl_sxp_cdf x μ l τ) →
      |r - q| ≤ 1e-6 * (r - μ)) ∧
    (0 ≤ τ / l → esl_gam_invcdf fuel p μ l τ = some r → (∀ x, x < q → esl_gam_cdf x μ l τ < p) →
      (∀ x, q < x → p < esl_gam_cdf x μ l τ) → |r - q| ≤ 1e-6 * (r - μ)) ∧
    (∀ h : ESL_HYPEREXP ℝ, esl_hxp_invcdf fuel p h = some r → (∀ x, x < q → esl_hxp_cdf x h < p) →
      (∀ x, q < x → p < esl_hxp_cdf x h) → |r - q| ≤ 1e-6 * (r - h.mu)) ∧
    (∀ mg : ESL_MIXGEV ℝ, esl_mixgev_invcdf fuel p mg = some r → (∀ x, x < q → esl_mixgev_cdf x mg < p) →
      (∀ x, q < x → p < esl_mixgev_cdf x mg) → |r - q| ≤ 1.01e-6 * (|r| + 1e-9)) :=
  ⟨fun h hlo hhi => by
      obtain ⟨x2, hf⟩ := BisectTerm.invcdfRight_final (cdf := fun x => esl_sxp_cdf x μ l τ)
        (by show esl_sxp_cdf μ μ l τ ≤ p; rw [Edge.sxp_cdf_below (le_refl μ)]; simpa using hp) (BisectGen.sxp_invcdf fuel p μ l τ ▸ h)
      exact BisectTerm.final_accuracy hf hlo hhi,
    fun hlt h hlo hhi => by
      obtain ⟨x2, hf⟩ := BisectTerm.invcdfGam_final (cdf := fun x => esl_gam_cdf x μ l τ)
        (by show esl_gam_cdf μ μ l τ ≤ p; rw [Edge.gam_cdf_below (by simp)]; simpa using hp) hlt (BisectGen.gam_invcdf fuel p μ l τ ▸ h)
      exact BisectTerm.final_accuracy hf hlo hhi,
    fun hx h hlo hhi => by
      obtain ⟨x2, hf⟩ := BisectTerm.invcdfRight_final (cdf := fun x => esl_hxp_cdf x hx)
        (by show esl_hxp_cdf hx.mu hx ≤ p; rw [MixGen.hxp_cdf_at_mu]; exact hp) (BisectReal.hxp_invcdf_real fuel p hx ▸ h)
      exact BisectTerm.final_accuracy hf hlo hhi,
    fun mg h hlo hhi => by
      obtain ⟨x1, x2, hf⟩ := BisectTerm.invcdfMix_final (cdf := fun x => esl_mixgev_cdf x mg) (BisectGen.mixgev_invcdf fuel p mg ▸ h)
      exact BisectTerm.finalMix_accuracy hf hlo hhi⟩

/-- Termination with an explicit iteration bound (the defect class of 7f8f7fd / 3a05169: three of these loops never
    returned).  For `sxp`/`gam`/`hxp`: if the cdf is still below `p` on `[μ, μ+δ]` and at least `p` from `X` on, every
    loop returns within `fuel` iterations once `fuel > N1, N2`, `3^(N1+1)` (gamma: `2^(N1+1)·τ/λ`) reaches `X − μ` and
    `2^N2 ≥ reach / (1e-6 δ)`.  **Without the first hypothesis (`p = 0`, or `p` attained at `μ`) the real-number bisection
    never stops** — the stop rule is relative to `x1 + x2 − 2μ` — and the C code then relies on its binary64
    no-progress `break`.  For `mixgev` (absolute floor `1e-15` in the stop rule) only the two bracketing points are needed.
    In binary64 `δ ≥ 2^-1074`, reach `≤ 2^1024`: `fuel = 5000` (the driver's) covers every input. -/
theorem bisection_inverses_terminate {p μ l τ δ X : ℝ} {N1 N2 fuel : Nat} (hδ : 0 < δ) (hf1 : N1 + 1 ≤ fuel) (hf2 : N2 + 1 ≤ fuel) :
    ((∀ x, x ≤ μ + δ → esl_sxp_cdf x μ l τ < p) → (∀ x, X ≤ x → p ≤ esl_sxp_cdf x μ l τ) → X ≤ μ + 3 ^ (N1 + 1) →
      (3 : ℝ) ^ (N1 + 1) ≤ 1e-6 * δ * 2 ^ N2 → (esl_sxp_invcdf fuel p μ l τ).isSome) ∧
    (0 ≤ τ / l → (∀ x, x ≤ μ + δ → esl_gam_cdf x μ l τ < p) → (∀ x, X ≤ x → p ≤ esl_gam_cdf x μ l τ) →
      X ≤ μ + 2 ^ (N1 + 1) * (τ / l) → (2 : ℝ) ^ (N1 + 1) * (τ / l) ≤ 1e-6 * δ * 2 ^ N2 → (esl_gam_invcdf fuel p μ l τ).isSome) ∧
    (∀ h : ESL_HYPEREXP ℝ, (∀ x, x ≤ h.mu + δ → esl_hxp_cdf x h < p) → (∀ x, X ≤ x → p ≤ esl_hxp_cdf x h) →
      X ≤ h.mu + 3 ^ (N1 + 1) → (3 : ℝ) ^ (N1 + 1) ≤ 1e-6 * δ * 2 ^ N2 → (esl_hxp_invcdf fuel p h).isSome) ∧
    (∀ (mg : ESL_MIXGEV ℝ) (XL : ℝ) (N0 : Nat), N0 + 1 ≤ fuel → (∀ x, x ≤ XL → esl_mixgev_cdf x mg ≤ p) →
      (∀ x, X ≤ x → p ≤ esl_mixgev_cdf x mg) → esl_vec_DMin mg.mu mg.K - 3 ^ (N0 + 1) ≤ XL →
      X ≤ esl_vec_DMin mg.mu mg.K + 3 ^ (N1 + 1) - 1 → (3 : ℝ) ^ (N1 + 1) * 3 ^ (N0 + 1) ≤ 1e-15 * 2 ^ N2 →
      (esl_mixgev_invcdf fuel p mg).isSome) :=
  ⟨fun hlow hX h1 h2 => BisectGen.sxp_invcdf fuel p μ l τ ▸ BisectTerm.invcdfRight_terminates hδ hlow hX h1 h2 hf1 hf2,
    fun hlt hlow hX h1 h2 => BisectGen.gam_invcdf fuel p μ l τ ▸ BisectTerm.invcdfGam_terminates hδ hlt hlow hX h1 h2 hf1 hf2,
    fun hx hlow hX h1 h2 => BisectReal.hxp_invcdf_real fuel p hx ▸ BisectTerm.invcdfRight_terminates hδ hlow hX h1 h2 hf1 hf2,
    fun mg XL N0 hf0 hL hR h0 h1 h2 => BisectGen.mixgev_invcdf fuel p mg ▸ BisectTerm.invcdfMix_terminates hL hR h0 h1 h2 hf0 hf1 hf2⟩

/-- The ℝ READING of `esl_hxp_invcdf` still hangs above the supremum (former known finding
    `C10:mixture_invcdf:p-above-cdf-max`, repaired in 55bbf88): over `ℝ` the repaired loop's second test
    `x2 < eslINFINITY` is always true (`Num.ltInf ≡ true`: every real number is below +infinity), so when `p` lies above
    every value the translated mixture cdf takes, the real-number function returns for NO fuel.  This is a statement about
    the ℝ instance ONLY — it says why the termination theorem above needs "`p ≤ cdf x` from some `X` on" — and no
    longer describes the C function: in binary64 the tripling bracket reaches `+inf` after ≤ 647 passes and the loop
    stops there (`bisection_bracket_returns_at_infinity` below). -/
theorem bisection_inverses_real_reading_hangs_above_sup {p : ℝ} (h : ESL_HYPEREXP ℝ) (hsup : ∀ x, esl_hxp_cdf x h < p) (fuel : Nat) :
    esl_hxp_invcdf fuel p h = none :=
  BisectReal.hxp_invcdf_real fuel p h ▸ BisectTerm.invcdfRight_never (cdf := fun x => esl_hxp_cdf x h) hsup fuel

/-- **The repaired bracketing loop returns** (55bbf88), for EVERY carrier, cdf and `p`.  Carrier facts used, as
    hypotheses: (R) the tripling sequence `x2 ← x2 + 2·(x2 − x1)` started by the C code leaves `< eslINFINITY` after
    `k + 1 ≤ fuel` passes (`BisectCarrier.reachInf … = some k` computes that `k`); (A) at the point reached,
    `x2 ≤ (x1 + x2)/2` (binary64: `(μ + inf)/2 = inf`).
    1. under (R) the right bracketing loop of `esl_hxp_invcdf` and of `esl_mixgev_invcdf` (`Bisect.bracketRightLim` at
       their translated cdf, see `bisection_inverses_generated`) returns a point `r` of the tripling sequence after at
       most `k + 1` passes, with `¬ cdf r < p` or `r` not below `eslINFINITY`;
    2. under (R) + (A), for the input class of the repaired defect (`cdf < p` everywhere) the TRANSLATED `esl_hxp_invcdf`
       returns `(μ + x2)/2` at that point (binary64: `+inf`) — exactly where its ℝ reading never returns.
    Binary64 satisfies (R) with `k ≤ 646` and (A) whenever `|μ| < 2^53` (from `2^53` on `μ + 1. == μ`: the bracket has
    width 0, never moves, (R) fails and the C loop does not end either — far outside the property's location range
    `±10^3`): evaluated by the driver at `Float` and compared with the C loop on
    every run (`bracketlim` op, monitor `bracketlim`); a kernel-checked instance on a 4-point saturating carrier is in
    `Dist/BisectCarrier.lean`. -/
theorem bisection_bracket_returns_at_infinity {α : Type} [Add α] [Sub α] [Mul α] [Div α] [Neg α] [OfScientific α] [LT α] [LE α]
    [DecidableLT α] [DecidableLE α] [Num α] :
    (∀ (cdf : α → α) (p x1 x2 : α) (fuel k : Nat), k < fuel → Num.ltInf (BisectCarrier.tripled x1 (k + 1) x2) = false →
      ∃ j r, j ≤ k ∧ r = BisectCarrier.tripled x1 (j + 1) x2 ∧ Bisect.bracketRightLim cdf p x1 fuel x2 = some r ∧
        (¬ cdf r < p ∨ Num.ltInf r = false)) ∧
    (∀ (p : α) (h : ESL_HYPEREXP α) (fuel k : Nat), (∀ x, esl_hxp_cdf x h < p) →
      BisectCarrier.reachInf h.mu (fuel + 1) (h.mu + 1.0) = some k →
      BisectCarrier.tripled h.mu (k + 1) (h.mu + 1.0) ≤ (h.mu + BisectCarrier.tripled h.mu (k + 1) (h.mu + 1.0)) / 2.0 →
      esl_hxp_invcdf (fuel + 1) p h = some ((h.mu + BisectCarrier.tripled h.mu (k + 1) (h.mu + 1.0)) / 2.0)) :=
  ⟨fun cdf p x1 x2 fuel k hk hinf => BisectCarrier.bracketRightLim_returns cdf p x1 fuel k x2 hk hinf,
    fun p h fuel k hsup hreach habs =>
      (BisectGen.hxp_invcdf (fuel + 1) p h).trans (BisectCarrier.invcdfRightLim_above_sup _ p h.mu hsup hreach habs)⟩

/-- over `ℝ` hypothesis (R) is unsatisfiable — which is the whole point: `reachInf` never finds a real number that is
    not below +infinity -/
example (x1 x2 : ℝ) (fuel : Nat) : BisectCarrier.reachInf x1 fuel x2 = none := by
  induction fuel generalizing x2 with
  | zero => rfl
  | succ n ih => simp [BisectCarrier.reachInf, ih]

/-- the hypothesis is satisfiable: a one-component "mixture" with coefficient `0.5` never reaches `p = 1` -/
example (fuel : Nat) : esl_hxp_invcdf fuel 1 ({ mu := 0, K := 1, q := [0.5], lambda := [1], wrk := [0] } : ESL_HYPEREXP ℝ) = none := by
  have ok : MixGen.HxpOK ({ mu := 0, K := 1, q := [0.5], lambda := [1], wrk := [0] } : ESL_HYPEREXP ℝ) := by
    intro k hk
    have : k = 0 := by simp only at hk; omega
    subst this; simp [MixGen.hq, MixGen.hl]; norm_num
  apply bisection_inverses_real_reading_hangs_above_sup
  intro x
  have h1 := (MixGen.hxp_code_eq_textbook ok x).1
  have h2 := ((MixGen.hxp_textbook_laws ok).2.2.1 x).2
  have hQ : MixGen.hxpQ ({ mu := 0, K := 1, q := [0.5], lambda := [1], wrk := [0] } : ESL_HYPEREXP ℝ) = 0.5 := by
    simp [MixGen.hxpQ, MixGen.hq]
  rw [hQ] at h1 h2
  rw [abs_le] at h1
  norm_num at h1 h2 ⊢
  linarith [h1.2]

/-- The generic loops on a genuine cdf (uniform on `[0,1]`, `μ = 0`, `p = 1/2`): the hypotheses of the termination and
    accuracy theorems are satisfiable, 25 iterations per loop suffice, and the result is within `1e-6 · r` of `1/2`. -/
example : (Bisect.invcdfRight 25 (fun x : ℝ => max 0 (min x 1)) (1 / 2) 0).isSome :=
  BisectTerm.invcdfRight_terminates (δ := 1 / 4) (X := 1 / 2) (N1 := 0) (N2 := 24) (by norm_num)
    (fun x hx => max_lt (by norm_num) (lt_of_le_of_lt (min_le_left _ _) (by linarith)))
    (fun x hx => le_max_of_le_right (le_min hx (by norm_num))) (by norm_num) (by norm_num) (by norm_num) (by norm_num)

example {r : ℝ} (h : Bisect.invcdfRight 25 (fun x : ℝ => max 0 (min x 1)) (1 / 2) 0 = some r) : |r - 1 / 2| ≤ 1e-6 * (r - 0) := by
  obtain ⟨x2, hf⟩ := BisectTerm.invcdfRight_final (cdf := fun x : ℝ => max 0 (min x 1)) (by norm_num) h
  exact BisectTerm.final_accuracy hf (fun x hx => max_lt (by norm_num) (lt_of_le_of_lt (min_le_left _ _) hx))
    (fun x hx => lt_max_of_lt_right (lt_min hx (by norm_num)))

/-- …and the bisection over `ℝ` really does not stop when `p` is attained at the support edge: with `p = 0` on the
    uniform cdf every iteration continues (the bracket `[0, x2]` keeps relative width 1), whatever the fuel. -/
example : ∀ (n : Nat) (x2 : ℝ), 0 < x2 → x2 ≤ 1 → Bisect.bisect (fun x : ℝ => max 0 (min x 1)) 0 0 n 0 x2 = none := by
  intro n
  induction n with
  | zero => intro x2 _ _; rfl
  | succ n ih =>
    intro x2 h0 h1
    have hm : (0 : ℝ) < max 0 (min ((0 + x2) / 2) 1) := lt_max_of_lt_right (lt_min (by linarith) (by norm_num))
    simp only [Bisect.bisect, BisectThm.lit_two, BisectTerm.lit_tol]
    have e1 : (0 + x2) / 2 - 0 = x2 / 2 := by ring
    have e2 : 0 + (0 + x2) / 2 - 2 * 0 = x2 / 2 := by ring
    rw [if_neg (not_or.mpr ⟨not_le.mpr (by linarith), not_le.mpr (by linarith)⟩), if_pos hm, if_pos (by
      rw [e1, e2, div_self (by linarith)]; norm_num)]
    exact ih _ (by linarith) (by linarith)

/-! ## Round 6: the bisection inverses as TOTAL functions over `ℝ` — the fuel argument disappears

`BisectTotal.fuelRight reach δ`, `fuelGam reach δ s`, `fuelMix left right` are explicit numbers of loop passes
(`⌈log₃ reach⌉` resp. `⌈log₂ (reach/s)⌉` bracketing passes; `⌈log₂ (width / (1e-6 δ))⌉` bisection passes — the bracket
halves, and the code's stop rule `(x2−x1)/(x1+x2−2μ) ≤ 1e-6` holds as soon as the width is below `1e-6 δ`).  From that fuel
on the translated function returns ONE value, independent of the fuel: `none` (= "still running") cannot occur. -/

/-- generic form (`Bisect.invcdfRight / invcdfGam / invcdfMix`, which the translated functions ARE —
    `bisection_inverses_generated`): the cdf in use may be ANY function within `ε` of a monotone reference `F`
    (it need not be monotone itself — `esl_exp_cdf` over `ℝ` drops by `1.25e-17` at its `eslSMALLX1` switch);
    `F (μ+δ) < p − ε` and `p + ε ≤ F X` ⇒ one value `r` for every `fuel ≥ fuelRight (X−μ) δ`, the midpoint of a final
    bracket `[a, b] ⊂ [μ, ∞)` with `b − a ≤ 1e-6 (a + b − 2μ)`, `F a ≤ p + ε`, `p − ε ≤ F b`.  The `mixgev` loop
    (absolute floor in the stop rule) needs only two bracketing points of the cdf itself. -/
theorem bisection_total_generic {cdf F : ℝ → ℝ} {μ l t p ε δ X : ℝ} (hclose : ∀ x, |cdf x - F x| ≤ ε) (hF : Monotone F)
    (h0 : cdf μ ≤ p) (hδ : 0 < δ) (hlow : F (μ + δ) < p - ε) (hX : p + ε ≤ F X) :
    (∃ r, (∀ fuel, BisectTotal.fuelRight (X - μ) δ ≤ fuel → Bisect.invcdfRight fuel cdf p μ = some r) ∧
      BisectTotal.Result F p μ ε r) ∧
    (0 < t / l → ∃ r, (∀ fuel, BisectTotal.fuelGam (X - μ) δ (t / l) ≤ fuel → Bisect.invcdfGam fuel cdf p μ l t = some r) ∧
      BisectTotal.Result F p μ ε r) ∧
    (∀ (g : ℝ → ℝ) (m XL XR : ℝ), (∀ x, x ≤ XL → g x ≤ p) → (∀ x, XR ≤ x → p ≤ g x) →
      ∃ r, (∀ fuel, BisectTotal.fuelMix (m - XL) (XR - m) ≤ fuel → Bisect.invcdfMix fuel g p m = some r) ∧
        ∃ x1 x2, BisectTerm.FinalMix g p x1 x2 r) :=
  ⟨BisectTotal.invcdfRight_total hclose hF h0 hδ hlow hX, fun hs => BisectTotal.invcdfGam_total hclose hF h0 hs hδ hlow hX,
    fun _ _ _ _ hL hR => BisectTotal.invcdfMix_total hL hR⟩

/-- non-vacuity (uniform cdf on `[0,1]`, `p = 1/2`, `ε = 0`, `δ = 1/4`, `X = 1/2`): one value for every fuel from
    `fuelRight (1/2) (1/4)` on -/
example : ∃ r, (∀ fuel, BisectTotal.fuelRight (1 / 2 - 0) (1 / 4) ≤ fuel →
    Bisect.invcdfRight fuel (fun x : ℝ => max 0 (min x 1)) (1 / 2) 0 = some r) ∧
    BisectTotal.Result (fun x : ℝ => max 0 (min x 1)) (1 / 2) 0 0 r :=
  (bisection_total_generic (l := 1) (t := 1) (cdf := fun x : ℝ => max 0 (min x 1)) (F := fun x : ℝ => max 0 (min x 1)) (ε := 0)
    (fun x => by simp) (fun a b hab => max_le_max le_rfl (min_le_min hab le_rfl)) (by norm_num) (by norm_num : (0 : ℝ) < 1 / 4)
    (by norm_num) (by norm_num)).1

/-- The driver's fuel is enough: a bracket that fits binary64 — reach `X − μ ≤ 2^1024` (above the largest finite double),
    edge distance `δ ≥ 2^-1074` (the smallest positive double) — needs at most `2123` passes per loop, below
    `Bisect.defaultFuel = 5000` with which the driver runs the translated inverses against the C code; so (by
    `bisection_total_generic`) on every such bracket the real-number reading of `esl_sxp_invcdf` / `esl_hxp_invcdf` at the
    driver's fuel is a value, never `none`.  Likewise `esl_mixgev_invcdf`: bracketing points within `2^1024` of `min μ_k` need
    at most `2107` passes per loop (no edge distance enters); `esl_gam_invcdf` with starting reach `τ/λ ∈ [2^-1074, 2^1024]`: at most `2122`. -/
theorem bisection_fuel_covers_binary64 {reach δ : ℝ} (h0 : 0 < reach) (hr : reach ≤ 2 ^ 1024) (hδ : 1 ≤ δ * 2 ^ 1074) :
    (BisectTotal.fuelRight reach δ ≤ 2123 ∧ BisectTotal.fuelRight reach δ ≤ Bisect.defaultFuel) ∧
    (∀ right : ℝ, 0 ≤ right → right + 1 ≤ 2 ^ 1024 →
      BisectTotal.fuelMix reach right ≤ 2107 ∧ BisectTotal.fuelMix reach right ≤ Bisect.defaultFuel) ∧
    (∀ s : ℝ, 1 ≤ s * 2 ^ 1074 → s ≤ 2 ^ 1024 →
      BisectTotal.fuelGam reach δ s ≤ 2122 ∧ BisectTotal.fuelGam reach δ s ≤ Bisect.defaultFuel) :=
  ⟨BisectTotal.fuelRight_le h0 hr hδ, fun _ hr0 hr1 => BisectTotal.fuelMix_le h0 hr hr0 hr1,
    fun _ hs1 hs2 => BisectTotal.fuelGam_le h0 hr hδ hs1 hs2⟩

example : BisectTotal.fuelRight 1 1 ≤ Bisect.defaultFuel :=
  (bisection_fuel_covers_binary64 (reach := 1) (δ := 1) (by norm_num) (one_le_pow₀ (by norm_num)) (by
    rw [one_mul]; exact one_le_pow₀ (by norm_num))).1.2

/-- **`esl_hxp_invcdf` is total and accurate** (TRANSLATED function on its TRANSLATED cdf, every `K`, unconditional):
    rates `> 0`, coefficients `≥ 0` with one `> 0`, `ε = 2.5e-17·Σq < p < Σq − ε`.  With `d`, `q₋`, `q₊` the (unique)
    textbook quantiles of `(p−ε)/2`, `p−ε`, `p+ε`: for EVERY `fuel ≥ fuelRight (q₊−μ) (d−μ)` the function returns the same
    `r`, and `q₋ − 1e-6 (r−μ) ≤ r ≤ q₊ + 1e-6 (r−μ)` — six digits of the offset from `μ` around a quantile band whose
    width is the code-vs-textbook distance of the cdf. -/
theorem hxp_invcdf_total {h : ESL_HYPEREXP ℝ} (ok : MixGen.HxpOK h) (hsome : ∃ k < h.K, 0 < MixGen.hq h k) {p : ℝ}
    (hp0 : InvTotal.hxpEps h < p) (hp1 : p + InvTotal.hxpEps h < MixGen.hxpQ h) :
    ∃ d qlo qhi r, (h.mu < d ∧ MixGen.hxpCdf h d = (p - InvTotal.hxpEps h) / 2) ∧
      (h.mu < qlo ∧ MixGen.hxpCdf h qlo = p - InvTotal.hxpEps h) ∧ (h.mu < qhi ∧ MixGen.hxpCdf h qhi = p + InvTotal.hxpEps h) ∧
      (∀ fuel, BisectTotal.fuelRight (qhi - h.mu) (d - h.mu) ≤ fuel → esl_hxp_invcdf fuel p h = some r) ∧
      qlo - 1e-6 * (r - h.mu) ≤ r ∧ r ≤ qhi + 1e-6 * (r - h.mu) ∧ h.mu ≤ r :=
  InvTotal.hxp_invcdf_total ok hsome hp0 hp1

/-- …and at the DRIVER's fuel: whenever those textbook quantiles fit binary64 (`q₊ − μ ≤ 2^1024`, `d − μ ≥ 2^-1074`) the
    real-number reading of the translated `esl_hxp_invcdf` run with `Bisect.defaultFuel` (what the driver executes at `Float`
    against the C function) IS that value `r` — never `none`. -/
theorem hxp_invcdf_at_driver_fuel {h : ESL_HYPEREXP ℝ} (ok : MixGen.HxpOK h) (hsome : ∃ k < h.K, 0 < MixGen.hq h k) {p : ℝ}
    (hp0 : InvTotal.hxpEps h < p) (hp1 : p + InvTotal.hxpEps h < MixGen.hxpQ h) :
    ∃ d qlo qhi r, (h.mu < d ∧ MixGen.hxpCdf h d = (p - InvTotal.hxpEps h) / 2) ∧
      (h.mu < qlo ∧ MixGen.hxpCdf h qlo = p - InvTotal.hxpEps h) ∧ (h.mu < qhi ∧ MixGen.hxpCdf h qhi = p + InvTotal.hxpEps h) ∧
      (qhi - h.mu ≤ 2 ^ 1024 → 1 ≤ (d - h.mu) * 2 ^ 1074 → esl_hxp_invcdf Bisect.defaultFuel p h = some r) ∧
      qlo - 1e-6 * (r - h.mu) ≤ r ∧ r ≤ qhi + 1e-6 * (r - h.mu) := by
  obtain ⟨d, qlo, qhi, r, hd, hlo, hhi, hr, b1, b2, _⟩ := hxp_invcdf_total ok hsome hp0 hp1
  exact ⟨d, qlo, qhi, r, hd, hlo, hhi,
    fun h1 h2 => hr _ (bisection_fuel_covers_binary64 (by linarith [hhi.1]) h1 h2).1.2, b1, b2⟩

/-- non-vacuity: the normalised three-component hyperexponential above at `p = 1/2` -/
example : ∃ d qhi r : ℝ, ∀ fuel, BisectTotal.fuelRight (qhi - 1) (d - 1) ≤ fuel →
    esl_hxp_invcdf fuel (1 / 2) ({ mu := 1, K := 3, q := [0.25, 0.25, 0.5], lambda := [1, 2, 3], wrk := [0, 0, 0] } : ESL_HYPEREXP ℝ) = some r := by
  have hQ : MixGen.hxpQ ({ mu := 1, K := 3, q := [0.25, 0.25, 0.5], lambda := [1, 2, 3], wrk := [0, 0, 0] } : ESL_HYPEREXP ℝ) = 1 := by
    simp [MixGen.hxpQ, MixGen.hq, Finset.sum_range_succ]; norm_num
  obtain ⟨d, _, qhi, r, _, _, _, hr, _⟩ := hxp_invcdf_total
    (h := { mu := 1, K := 3, q := [0.25, 0.25, 0.5], lambda := [1, 2, 3], wrk := [0, 0, 0] }) (p := 1 / 2)
    (by
      intro k hk
      have : k = 0 ∨ k = 1 ∨ k = 2 := by simp only at hk; omega
      rcases this with rfl | rfl | rfl <;> simp [MixGen.hq, MixGen.hl] <;> norm_num)
    ⟨0, by simp, by simp [MixGen.hq]; norm_num⟩ (by rw [InvTotal.hxpEps, hQ]; norm_num) (by rw [InvTotal.hxpEps, hQ]; norm_num)
  exact ⟨d, qhi, r, hr⟩

/-- `esl_sxp_invcdf` / `esl_gam_invcdf` total and accurate (TRANSLATED functions on their TRANSLATED cdfs).
    `_partial`: conditional on ONE named special-function fact each, `InvTotal.IncGammaPWithin a ε` — the `P` computed by the
    algorithm of `esl_stats_IncompleteGamma` (hand model read over `ℝ`) at shape `a` (`1/τ` resp. `τ`) is within `ε` of the
    regularised incomplete gamma INTEGRAL for every `y > 0`; that fact is not proved (series / continued fraction
    convergence), it is listed in the evidence assumptions and monitored (`ε ≈ 1e-7`).  Everything else — existence and
    uniqueness of the textbook quantiles, termination with the explicit fuel, the six-digit band — is proved. -/
theorem sxp_gam_invcdf_total_partial {μ l τ p ε : ℝ} (hl : 0 < l) (hτ : 0 < τ) (hp0 : ε < p) (hp1 : p + ε < 1) :
    (InvTotal.IncGammaPWithin (1 / τ) ε → ∃ d qlo qhi r, (μ < d ∧ GamSxpThm.sxpCdf μ l τ d = (p - ε) / 2) ∧
      (μ < qlo ∧ GamSxpThm.sxpCdf μ l τ qlo = p - ε) ∧ (μ < qhi ∧ GamSxpThm.sxpCdf μ l τ qhi = p + ε) ∧
      (∀ fuel, BisectTotal.fuelRight (qhi - μ) (d - μ) ≤ fuel → esl_sxp_invcdf fuel p μ l τ = some r) ∧
      qlo - 1e-6 * (r - μ) ≤ r ∧ r ≤ qhi + 1e-6 * (r - μ) ∧ μ ≤ r) ∧
    (InvTotal.IncGammaPWithin τ ε → ∃ d qlo qhi r, (μ < d ∧ GamSxpThm.gamCdf μ l τ d = (p - ε) / 2) ∧
      (μ < qlo ∧ GamSxpThm.gamCdf μ l τ qlo = p - ε) ∧ (μ < qhi ∧ GamSxpThm.gamCdf μ l τ qhi = p + ε) ∧
      (∀ fuel, BisectTotal.fuelGam (qhi - μ) (d - μ) (τ / l) ≤ fuel → esl_gam_invcdf fuel p μ l τ = some r) ∧
      qlo - 1e-6 * (r - μ) ≤ r ∧ r ≤ qhi + 1e-6 * (r - μ) ∧ μ ≤ r) :=
  ⟨fun hIG => InvTotal.sxp_invcdf_total hl hτ hIG hp0 hp1, fun hIG => InvTotal.gam_invcdf_total hl hτ hIG hp0 hp1⟩

/-- `esl_mixgev_invcdf` total (TRANSLATED function on its TRANSLATED cdf), for EVERY parameter structure and `p`: given a
    point left of which the cdf is `≤ p` and one right of which it is `≥ p`, one value for every
    `fuel ≥ fuelMix (min μ_k − XL) (XR − min μ_k)`, the midpoint of a final bracket obeying the C stop rule. -/
theorem mixgev_invcdf_total (mg : ESL_MIXGEV ℝ) {p XL XR : ℝ} (hL : ∀ x, x ≤ XL → esl_mixgev_cdf x mg ≤ p)
    (hR : ∀ x, XR ≤ x → p ≤ esl_mixgev_cdf x mg) :
    ∃ r, (∀ fuel, BisectTotal.fuelMix (esl_vec_DMin mg.mu mg.K - XL) (XR - esl_vec_DMin mg.mu mg.K) ≤ fuel →
        esl_mixgev_invcdf fuel p mg = some r) ∧
      ∃ a b, a ≤ b ∧ r = (a + b) / 2 ∧ esl_mixgev_cdf a mg ≤ p ∧ p ≤ esl_mixgev_cdf b mg ∧ b - a ≤ 1e-6 * ((|a| + |b|) + 1e-9) :=
  InvTotal.mixgev_invcdf_total mg hL hR

/-- non-vacuity of the `mixgev` hypotheses on the generic loop (uniform cdf, `p = 1/2`, `m = 0`) -/
example : ∃ r, ∀ fuel, BisectTotal.fuelMix (0 - 0) (1 - 0) ≤ fuel →
    Bisect.invcdfMix fuel (fun x : ℝ => max 0 (min x 1)) (1 / 2) 0 = some r := by
  obtain ⟨r, hr, _⟩ := BisectTotal.invcdfMix_total (cdf := fun x : ℝ => max 0 (min x 1)) (p := 1 / 2) (m := 0) (XL := 0) (XR := 1)
    (fun x hx => max_le (by norm_num) ((min_le_left _ _).trans (by linarith)))
    (fun x hx => le_max_of_le_right (le_min (by linarith) (by norm_num)))
  exact ⟨r, hr⟩

/-! ## Round 6: "non-decreasing FROM 0 TO 1" for the families that still lacked the limits -/

/-- Weibull: `0` at and below `μ`, `→ 1` at `+∞`.  GEV, either sign of `α`: `→ 0` at `−∞` and `→ 1` at `+∞` (on its bounded
    side the value `0` resp. `1` is attained beyond the support bound).  GEV mixture, EVERY number of components:
    `→ 0` at `−∞`, `→ Σq` at `+∞`.  (Exponential, Gumbel, normal, gamma, stretched exponential, hyperexponential: in their
    own theorems above.)  With the monotonicity already proved, every textbook cdf of the library runs from 0 to 1 (`Σq`). -/
theorem cdf_limits_wei_gev_mixgev {μ l τ α : ℝ} (hl : 0 < l) (hτ : 0 < τ) (hα : α ≠ 0) :
    ((∀ x, x ≤ μ → weiCdf μ l τ x = 0) ∧ Filter.Tendsto (weiCdf μ l τ) Filter.atTop (nhds 1)) ∧
    (Filter.Tendsto (gevCdf μ l α) Filter.atBot (nhds 0) ∧ Filter.Tendsto (gevCdf μ l α) Filter.atTop (nhds 1)) ∧
    (∀ g : ESL_MIXGEV ℝ, MixGen.MixgevOK g → Filter.Tendsto (MixGen.mixgevCdf g) Filter.atBot (nhds 0) ∧
      Filter.Tendsto (MixGen.mixgevCdf g) Filter.atTop (nhds (MixGen.mixgevQ g))) :=
  ⟨⟨fun x hx => by simp [weiCdf, hx], Limits.weiCdf_tendsto_one hl hτ⟩,
    ⟨Limits.gevCdf_tendsto_zero hl hα, Limits.gevCdf_tendsto_one hl hα⟩, fun _ ok => Limits.mixgevCdf_tendsto ok⟩

/-- GEV mixture, "the inverse cdf inverts the cdf" at L2, every `K`: for `p ∈ (0, Σq)` the bracketing + bisection ALGORITHM of
    `esl_mixgev_invcdf` (`Bisect.invcdfMix`, which the translated function is an instance of) run on the textbook mixture
    cdf from any starting point `m` is TOTAL — bracketing points `XL`, `XR` exist by the limits, the fuel bound is the
    explicit `fuelMix (m − XL) (XR − m)`, ONE value `r` for all larger fuels — and `r` is the midpoint of a final bracket
    `[a, b]` with `cdf a ≤ p ≤ cdf b` and `b − a ≤ 1e-6 (|a| + |b| + 1e-9)`.  (The mixture cdf need not be strictly
    increasing — components have different supports — so "the" quantile is the bracket, not a point.) -/
theorem mixgev_inverse_laws {g : ESL_MIXGEV ℝ} (ok : MixGen.MixgevOK g) {p : ℝ} (hp0 : 0 < p) (hp1 : p < MixGen.mixgevQ g) (m : ℝ) :
    ∃ XL XR r, (∀ x, x ≤ XL → MixGen.mixgevCdf g x ≤ p) ∧ (∀ x, XR ≤ x → p ≤ MixGen.mixgevCdf g x) ∧
      (∀ fuel, BisectTotal.fuelMix (m - XL) (XR - m) ≤ fuel → Bisect.invcdfMix fuel (MixGen.mixgevCdf g) p m = some r) ∧
      ∃ a b, a ≤ b ∧ r = (a + b) / 2 ∧ MixGen.mixgevCdf g a ≤ p ∧ p ≤ MixGen.mixgevCdf g b ∧ b - a ≤ 1e-6 * ((|a| + |b|) + 1e-9) :=
  Limits.mixgev_bisection_total ok hp0 hp1 m

/-- non-vacuity: a Fréchet-type and a Weibull-type component, `Σq = 1`, `p = 1/2` -/
example : ∃ r, ∃ N : Nat, ∀ fuel, N ≤ fuel → Bisect.invcdfMix fuel
    (MixGen.mixgevCdf ({ K := 2, q := [0.5, 0.5], mu := [0, 1], lambda := [1, 2], alpha := [0.5, -0.5], wrk := [0, 0] } : ESL_MIXGEV ℝ))
    (1 / 2) 0 = some r := by
  have ok : MixGen.MixgevOK ({ K := 2, q := [0.5, 0.5], mu := [0, 1], lambda := [1, 2], alpha := [0.5, -0.5], wrk := [0, 0] } : ESL_MIXGEV ℝ) := by
    intro k hk
    have : k = 0 ∨ k = 1 := by simp only at hk; omega
    rcases this with rfl | rfl <;> simp [MixGen.gq, MixGen.gl, MixGen.ga] <;> norm_num
  have hQ : MixGen.mixgevQ ({ K := 2, q := [0.5, 0.5], mu := [0, 1], lambda := [1, 2], alpha := [0.5, -0.5], wrk := [0, 0] } : ESL_MIXGEV ℝ) = 1 := by
    simp [MixGen.mixgevQ, MixGen.gq, Finset.sum_range_succ]; norm_num
  obtain ⟨XL, XR, r, _, _, hr, _⟩ := mixgev_inverse_laws ok (p := 1 / 2) (by norm_num) (by rw [hQ]; norm_num) 0
  exact ⟨r, _, hr⟩

/-- **The translated `esl_mixgev_invcdf` is total, unconditionally** (on its own translated cdf): admissible parameters
    (`q_k ≥ 0`, `λ_k > 0`, `α_k ≠ 0`), every `K`, every `p ∈ (0, Σq)`.  Bracketing points exist — the textbook mixture has the
    limits `0` and `Σq`, and far enough out every component is outside its `|α y| < 1e-12` Gumbel sliver, where the translated
    cdf IS the textbook mixture — so for every `fuel ≥ fuelMix (min μ_k − XL) (XR − min μ_k)` the function returns ONE value
    `r`, the midpoint of a final bracket `[a, b]` of the code's own cdf, `cdf a ≤ p ≤ cdf b`, `b − a ≤ 1e-6 (|a|+|b|+1e-9)`. -/
theorem mixgev_invcdf_total_unconditional {g : ESL_MIXGEV ℝ} (ok : MixGen.MixgevOK g) {p : ℝ} (hp0 : 0 < p) (hp1 : p < MixGen.mixgevQ g) :
    ∃ XL XR r, (∀ x, x ≤ XL → esl_mixgev_cdf x g ≤ p) ∧ (∀ x, XR ≤ x → p ≤ esl_mixgev_cdf x g) ∧
      (∀ fuel, BisectTotal.fuelMix (esl_vec_DMin g.mu g.K - XL) (XR - esl_vec_DMin g.mu g.K) ≤ fuel →
        esl_mixgev_invcdf fuel p g = some r) ∧
      ∃ a b, a ≤ b ∧ r = (a + b) / 2 ∧ esl_mixgev_cdf a g ≤ p ∧ p ≤ esl_mixgev_cdf b g ∧ b - a ≤ 1e-6 * ((|a| + |b|) + 1e-9) :=
  Limits.mixgev_invcdf_total_all ok hp0 hp1

/-- non-vacuity: the two-component GEV mixture (Fréchet-type + Weibull-type) at `p = 1/2` -/
example : ∃ r, ∃ N : Nat, ∀ fuel, N ≤ fuel → esl_mixgev_invcdf fuel (1 / 2)
    ({ K := 2, q := [0.5, 0.5], mu := [0, 1], lambda := [1, 2], alpha := [0.5, -0.5], wrk := [0, 0] } : ESL_MIXGEV ℝ) = some r := by
  have ok : MixGen.MixgevOK ({ K := 2, q := [0.5, 0.5], mu := [0, 1], lambda := [1, 2], alpha := [0.5, -0.5], wrk := [0, 0] } : ESL_MIXGEV ℝ) := by
    intro k hk
    have : k = 0 ∨ k = 1 := by simp only at hk; omega
    rcases this with rfl | rfl <;> simp [MixGen.gq, MixGen.gl, MixGen.ga] <;> norm_num
  have hQ : MixGen.mixgevQ ({ K := 2, q := [0.5, 0.5], mu := [0, 1], lambda := [1, 2], alpha := [0.5, -0.5], wrk := [0, 0] } : ESL_MIXGEV ℝ) = 1 := by
    simp [MixGen.mixgevQ, MixGen.gq, Finset.sum_range_succ]; norm_num
  obtain ⟨XL, XR, r, _, _, hr, _⟩ := mixgev_invcdf_total_unconditional ok (p := 1 / 2) (by norm_num) (by rw [hQ]; norm_num)
  exact ⟨r, _, hr⟩

/-! ## Round 6b: exact values AT the support edge `x == μ` (gamma, Weibull, stretched exponential) -/

/-- Over `ℝ`, at `x = μ` exactly, for every `λ` and shape: `esl_gam_pdf` and `esl_wei_pdf` return `+inf` / `λ` / `0` and their
    log versions `+inf` / `log λ` / `-inf` for `τ < 1` / `τ = 1` / `τ > 1` (the right-hand limits of the density; `eslINFINITY` is
    the opaque symbol `Num.inf`), with `logpdf = log pdf` where the density is finite and positive (`τ = 1`, `λ > 0`);
    `esl_sxp_pdf = λτ / e^{LogGamma(1/τ)}` (finite for every shape) with `logpdf = log pdf` exactly for `λ, τ > 0`; the gamma
    distribution functions there are `cdf = 0`, `surv = 1`, `logcdf = -inf`, `logsurv = 0` (Weibull / sxp: `wei_outside_support`,
    `gam_sxp_outside_support` at `x ≤ μ`).  The same values are DOCUMENTED expectations of the correspondence run
    (`edge-at-mu-exact`: 1190 operations compared bit-for-bit with the C functions, incl. `τ = 1 ± 1 ulp` and `μ − 1 ulp`). -/
theorem support_edge_values (μ l τ : ℝ) :
    ((τ < 1 → esl_gam_pdf μ μ l τ = Num.inf ∧ esl_gam_logpdf μ μ l τ = Num.inf) ∧
      (1 < τ → esl_gam_pdf μ μ l τ = 0 ∧ esl_gam_logpdf μ μ l τ = -Num.inf) ∧
      (τ = 1 → esl_gam_pdf μ μ l τ = l ∧ esl_gam_logpdf μ μ l τ = log l ∧ (0 < l → esl_gam_logpdf μ μ l τ = log (esl_gam_pdf μ μ l τ))) ∧
      (esl_gam_cdf μ μ l τ = 0 ∧ esl_gam_surv μ μ l τ = 1 ∧ esl_gam_logcdf μ μ l τ = -Num.inf ∧ esl_gam_logsurv μ μ l τ = 0)) ∧
    ((τ < 1 → esl_wei_pdf μ μ l τ = Num.inf ∧ esl_wei_logpdf μ μ l τ = Num.inf) ∧
      (1 < τ → esl_wei_pdf μ μ l τ = 0 ∧ esl_wei_logpdf μ μ l τ = -Num.inf) ∧
      (τ = 1 → esl_wei_pdf μ μ l τ = l ∧ esl_wei_logpdf μ μ l τ = log l ∧ (0 < l → esl_wei_logpdf μ μ l τ = log (esl_wei_pdf μ μ l τ)))) ∧
    (0 < l → 0 < τ → esl_sxp_pdf μ μ l τ = l * τ / exp (Num.logGamma (1 / τ)) ∧
      esl_sxp_logpdf μ μ l τ = log l + log τ - Num.logGamma (1 / τ) ∧
      esl_sxp_logpdf μ μ l τ = log (esl_sxp_pdf μ μ l τ) ∧ 0 < esl_sxp_pdf μ μ l τ) :=
  ⟨EdgeAtMu.gam_at_mu μ l τ, EdgeAtMu.wei_at_mu μ l τ, fun hl hτ => EdgeAtMu.sxp_at_mu hl hτ⟩

/-- …and those edge values are the RIGHT-HAND LIMITS of the textbook density (Weibull, `λ > 0`): as `x ↓ μ` the density
    `weiPdf μ λ τ` tends to `+∞` for `0 < τ < 1`, to `λ = esl_wei_pdf(μ)` for `τ = 1`, to `0 = esl_wei_pdf(μ)` for `τ > 1` — the
    `x == mu` branch of the code continues the density from the right (for `τ < 1` it returns the infinity symbol where the
    density is unbounded). -/
theorem wei_edge_is_density_limit {μ l τ : ℝ} (hl : 0 < l) :
    (0 < τ → τ < 1 → Filter.Tendsto (weiPdf μ l τ) (nhdsWithin μ (Set.Ioi μ)) Filter.atTop ∧ esl_wei_pdf μ μ l τ = Num.inf) ∧
    (Filter.Tendsto (weiPdf μ l 1) (nhdsWithin μ (Set.Ioi μ)) (nhds (esl_wei_pdf μ μ l 1)) ∧ esl_wei_pdf μ μ l 1 = l) ∧
    (1 < τ → Filter.Tendsto (weiPdf μ l τ) (nhdsWithin μ (Set.Ioi μ)) (nhds (esl_wei_pdf μ μ l τ)) ∧ esl_wei_pdf μ μ l τ = 0) := by
  refine ⟨fun h0 h1 => ⟨EdgeLimits.weiPdf_edge_top hl h0 h1, ((EdgeAtMu.wei_at_mu μ l τ).1 h1).1⟩, ?_, fun h1 => ?_⟩
  · have e := ((EdgeAtMu.wei_at_mu μ l 1).2.2 rfl).1
    exact ⟨by rw [e]; exact EdgeLimits.weiPdf_edge_one hl, e⟩
  · have e := ((EdgeAtMu.wei_at_mu μ l τ).2.1 h1).1
    exact ⟨by rw [e]; exact EdgeLimits.weiPdf_edge_zero hl h1, e⟩

/-- every carrier (so also binary64): what the `x == mu` branch of the translated densities returns, under exactly the tests
    the C code makes (`y < 0` resp. `x < mu` false, `x == mu` true, then `tau < 1`, `tau > 1`, `tau == 1` in that order) -/
theorem support_edge_branches {α : Type} [Add α] [Sub α] [Mul α] [Div α] [Neg α] [OfScientific α] [LT α] [LE α]
    [DecidableLT α] [DecidableLE α] [Num α] {x mu l t : α} (he : Num.eqb x mu = true) :
    (¬ l * (x - mu) < 0.0 →
      (t < 1.0 → esl_gam_pdf x mu l t = Num.inf ∧ esl_gam_logpdf x mu l t = Num.inf) ∧
      (¬ t < 1.0 → 1.0 < t → esl_gam_pdf x mu l t = 0.0 ∧ esl_gam_logpdf x mu l t = -Num.inf) ∧
      (¬ t < 1.0 → ¬ 1.0 < t → Num.eqb t 1.0 = true → esl_gam_pdf x mu l t = l ∧ esl_gam_logpdf x mu l t = Num.log l)) ∧
    (¬ x < mu →
      ((t < 1.0 → esl_wei_pdf x mu l t = Num.inf ∧ esl_wei_logpdf x mu l t = Num.inf) ∧
      (¬ t < 1.0 → 1.0 < t → esl_wei_pdf x mu l t = 0.0 ∧ esl_wei_logpdf x mu l t = -Num.inf) ∧
      (¬ t < 1.0 → ¬ 1.0 < t → Num.eqb t 1.0 = true → esl_wei_pdf x mu l t = l ∧ esl_wei_logpdf x mu l t = Num.log l)) ∧
      esl_sxp_pdf x mu l t = (l * t) / Num.exp (Num.logGamma (1.0 / t)) ∧
      esl_sxp_logpdf x mu l t = (Num.log l + Num.log t) - Num.logGamma (1.0 / t)) :=
  ⟨fun hy => EdgeAtMu.gam_pdf_edge hy he, fun hx => ⟨EdgeAtMu.wei_pdf_edge hx he, EdgeAtMu.sxp_pdf_edge hx he⟩⟩

/-- non-vacuity: the `τ = 1` branch over `ℝ` -/
example : esl_wei_logpdf (3 : ℝ) 3 2 1 = log (esl_wei_pdf (3 : ℝ) 3 2 1) :=
  ((support_edge_values 3 2 1).2.1.2.2 rfl).2.2 (by norm_num)

/-! ## The pdf integrates to cdf differences -/

/-- Fundamental theorem of calculus on the proved derivatives, for the four closed-form families and both mixtures:
    `∫_a^b pdf = cdf b − cdf a` — Gumbel for all `a b`; exponential and Weibull for `μ < a ≤ b` (the Weibull density is
    unbounded at `μ` when `τ < 1`, the exponential cdf has a kink at `μ`); GEV for `[a, b]` inside the support; the
    hyperexponential for `μ < a ≤ b`; the GEV mixture inside every component's support.  (A non-negative derivative is
    automatically integrable, so no separate integrability hypothesis is needed.)
    Not covered: gamma / stretched exponential (their cdf is the hand-modelled incomplete-gamma *algorithm*, not an
    integral) and the normal family unless `erfc` is interpreted (see `normal_laws_partial`). -/
theorem pdf_integrates_to_cdf_differences (μ l τ α a b : ℝ) (hab : a ≤ b) :
    (∫ x in a..b, gumbelPdf μ l x = gumbelCdf μ l b - gumbelCdf μ l a) ∧
    (μ < a → ∫ x in a..b, expPdf μ l x = expCdf μ l b - expCdf μ l a) ∧
    (0 < l → 0 ≤ τ → μ < a → ∫ x in a..b, weiPdf μ l τ x = weiCdf μ l τ b - weiCdf μ l τ a) ∧
    (0 ≤ l → α ≠ 0 → 0 < gevArg μ l α a → 0 < gevArg μ l α b → ∫ x in a..b, gevPdf μ l α x = gevCdf μ l α b - gevCdf μ l α a) ∧
    (∀ h : ESL_HYPEREXP ℝ, MixGen.HxpOK h → h.mu < a → ∫ x in a..b, MixGen.hxpPdf h x = MixGen.hxpCdf h b - MixGen.hxpCdf h a) ∧
    (∀ g : ESL_MIXGEV ℝ, MixGen.MixgevOK g →
      (∀ k < g.K, 0 < gevArg (MixGen.gm g k) (MixGen.gl g k) (MixGen.ga g k) a ∧ 0 < gevArg (MixGen.gm g k) (MixGen.gl g k) (MixGen.ga g k) b) →
      ∫ x in a..b, MixGen.mixgevPdf g x = MixGen.mixgevCdf g b - MixGen.mixgevCdf g a) :=
  ⟨IntegralThm.gumbel_integral_pdf μ l a b, fun ha => IntegralThm.exp_integral_pdf ha hab,
    fun hl hτ ha => IntegralThm.wei_integral_pdf hl hτ ha hab, fun hl hα ha hb => IntegralThm.gev_integral_pdf hl hα hab ha hb,
    fun _ ok ha => IntegralThm.hxp_integral_pdf ok ha hab, fun _ ok hs => IntegralThm.mixgev_integral_pdf ok hab hs⟩

example : ∫ x in (1 : ℝ)..2, weiPdf 0 1 0.5 x = weiCdf 0 1 0.5 2 - weiCdf 0 1 0.5 1 :=
  (pdf_integrates_to_cdf_differences 0 1 0.5 0 1 2 (by norm_num)).2.2.1 (by norm_num) (by norm_num) (by norm_num)
example : ∫ x in (-1 : ℝ)..3, gevPdf 0 1 0.5 x = gevCdf 0 1 0.5 3 - gevCdf 0 1 0.5 (-1) :=
  (pdf_integrates_to_cdf_differences 0 1 0 0.5 (-1) 3 (by norm_num)).2.2.2.1 (by norm_num) (by norm_num)
    (by unfold gevArg; norm_num) (by unfold gevArg; norm_num)

/-! ## Generic API (`esl_<d>_generic_<f>(x, void *params)`, used by the histogram module) -/

/-- every translated generic-API wrapper forwards to the scalar function with `params[0..]` (the mixtures: with the
    structure itself), for every carrier -/
theorem generic_api_forwards {α : Type} [Add α] [Sub α] [Mul α] [Div α] [Neg α] [OfScientific α] [LT α] [LE α]
    [DecidableLT α] [DecidableLE α] [Num α] (x : α) (v : List α) (h : ESL_HYPEREXP α) (g : ESL_MIXGEV α) (fuel : Nat) :
    let a := v.getD 0 0.0; let b := v.getD 1 0.0; let c := v.getD 2 0.0
    (esl_exp_generic_pdf x v = esl_exp_pdf x a b ∧ esl_exp_generic_cdf x v = esl_exp_cdf x a b ∧
      esl_exp_generic_surv x v = esl_exp_surv x a b ∧ esl_exp_generic_invcdf x v = esl_exp_invcdf x a b) ∧
    (esl_gumbel_generic_pdf x v = esl_gumbel_pdf x a b ∧ esl_gumbel_generic_cdf x v = esl_gumbel_cdf x a b ∧
      esl_gumbel_generic_surv x v = esl_gumbel_surv x a b ∧ esl_gumbel_generic_invcdf x v = esl_gumbel_invcdf x a b) ∧
    (esl_gev_generic_pdf x v = esl_gev_pdf x a b c ∧ esl_gev_generic_cdf x v = esl_gev_cdf x a b c ∧
      esl_gev_generic_surv x v = esl_gev_surv x a b c ∧ esl_gev_generic_invcdf x v = esl_gev_invcdf x a b c) ∧
    (esl_wei_generic_pdf x v = esl_wei_pdf x a b c ∧ esl_wei_generic_cdf x v = esl_wei_cdf x a b c ∧
      esl_wei_generic_surv x v = esl_wei_surv x a b c ∧ esl_wei_generic_invcdf x v = esl_wei_invcdf x a b c) ∧
    (esl_sxp_generic_pdf x v = esl_sxp_pdf x a b c ∧ esl_sxp_generic_cdf x v = esl_sxp_cdf x a b c ∧
      esl_sxp_generic_surv x v = esl_sxp_surv x a b c ∧ esl_sxp_generic_invcdf fuel x v = esl_sxp_invcdf fuel x a b c) ∧
    (esl_gam_generic_pdf x v = esl_gam_pdf x a b c ∧ esl_gam_generic_cdf x v = esl_gam_cdf x a b c ∧
      esl_gam_generic_surv x v = esl_gam_surv x a b c ∧ esl_gam_generic_invcdf fuel x v = esl_gam_invcdf fuel x a b c) ∧
    (esl_normal_generic_pdf x v = esl_normal_pdf x a b ∧ esl_normal_generic_cdf x v = esl_normal_cdf x a b ∧
      esl_normal_generic_surv x v = esl_normal_surv x a b) ∧
    (esl_hxp_generic_pdf x h = esl_hxp_pdf x h ∧ esl_hxp_generic_cdf x h = esl_hxp_cdf x h ∧
      esl_hxp_generic_surv x h = esl_hxp_surv x h ∧ esl_hxp_generic_invcdf fuel x h = esl_hxp_invcdf fuel x h) ∧
    (esl_mixgev_generic_pdf x g = esl_mixgev_pdf x g ∧ esl_mixgev_generic_cdf x g = esl_mixgev_cdf x g ∧
      esl_mixgev_generic_surv x g = esl_mixgev_surv x g ∧ esl_mixgev_generic_invcdf fuel x g = esl_mixgev_invcdf fuel x g) :=
  ⟨⟨rfl, rfl, rfl, rfl⟩, ⟨rfl, rfl, rfl, rfl⟩, ⟨rfl, rfl, rfl, rfl⟩, ⟨rfl, rfl, rfl, rfl⟩, ⟨rfl, rfl, rfl, rfl⟩,
    ⟨rfl, rfl, rfl, rfl⟩, ⟨rfl, rfl, rfl⟩, ⟨rfl, rfl, rfl, rfl⟩, ⟨rfl, rfl, rfl, rfl⟩⟩

/-! ## Sampling -/

/-- `Sample = inverse cdf ∘ positive uniform deviate`, every carrier (`esl_exp_Sample` uses `log u` for `log (1-u)`, i.e.
    the inverse *survival* of the deviate — `u` and `1-u` are both uniform deviates; either reading is accepted). -/
theorem sample_is_inverse_of_deviate {α : Type} [Add α] [Sub α] [Mul α] [Div α] [Neg α] [OfScientific α] [LT α] [LE α]
    [DecidableLT α] [DecidableLE α] [Num α] (u mu l a : α) :
    (esl_exp_Sample u mu l = esl_exp_invsurv u mu l ∨ esl_exp_Sample u mu l = esl_exp_invcdf u mu l) ∧
      esl_gumbel_Sample u mu l = esl_gumbel_invcdf u mu l ∧
      esl_gev_Sample u mu l a = esl_gev_invcdf u mu l a ∧ esl_wei_Sample u mu l a = esl_wei_invcdf u mu l a :=
  ⟨by first | exact Or.inl rfl | exact Or.inr rfl, rfl, rfl, rfl⟩

/-- the other direction of "the inverse cdf inverts the cdf", and what it means for the inversion samplers: for `p ∈ (0,1)`
    `cdf (invcdf p) = p` (exponential also `surv (invsurv p) = p`; Gumbel; Weibull, `τ ≠ 0`; GEV, `α ≠ 0`), so the
    (translated) sample made from a deviate `u ∈ (0,1)` sits exactly where the textbook cdf equals `u` (exponential: where
    the survival equals `u` — the sampler takes `log u`): a uniform deviate gives the family's distribution. -/
theorem inverse_right_and_samples {μ l t p : ℝ} (hl : 0 < l) (hp0 : 0 < p) (hp1 : p < 1) :
    (expCdf μ l (expInvCdf μ l p) = p ∧ expSurv μ l (expInvSurv μ l p) = p ∧ gumbelCdf μ l (gumbelInvCdf μ l p) = p ∧
      (t ≠ 0 → weiCdf μ l t (weiInvCdf μ l t p) = p) ∧ (t ≠ 0 → gevCdf μ l t (gevInvCdf μ l t p) = p)) ∧
    (expSurv μ l (esl_exp_Sample p μ l) = p ∧ gumbelCdf μ l (esl_gumbel_Sample p μ l) = p ∧
      (t ≠ 0 → weiCdf μ l t (esl_wei_Sample p μ l t) = p) ∧ (¬ |t| < 1e-12 → gevCdf μ l t (esl_gev_Sample p μ l t) = p)) :=
  ⟨⟨InvRight.exp_cdf_invcdf hl hp0 hp1, InvRight.exp_surv_invsurv hl hp0 hp1, InvRight.gumbel_cdf_invcdf hl.ne' hp0 hp1,
      fun ht => InvRight.wei_cdf_invcdf hl ht hp0 hp1, fun ht => InvRight.gev_cdf_invcdf hl ht hp0 hp1⟩,
    InvRight.samples_at_deviate hl hp0 hp1⟩

/-- the mixture samplers (TRANSLATED since round 4; `k` = the component `esl_rnd_DChoose` yields, `u` = the positive
    uniform deviate): the sample is the chosen component's inverse survival (hyperexponential; see above for `log u`
    vs `log (1-u)`) resp. inverse cdf (GEV mixture) of the deviate, every carrier -/
theorem mixture_sample_is_component_inverse {α : Type} [Add α] [Sub α] [Mul α] [Div α] [Neg α] [OfScientific α] [LT α] [LE α]
    [DecidableLT α] [DecidableLE α] [Num α] (u : α) (h : ESL_HYPEREXP α) (g : ESL_MIXGEV α) (k : Nat) :
    esl_hxp_Sample u h k = esl_exp_invsurv u h.mu (h.lambda.getD k 0.0) ∧
    esl_mixgev_Sample u g k = esl_gev_invcdf u (g.mu.getD k 0.0) (g.lambda.getD k 0.0) (g.alpha.getD k 0.0) :=
  ⟨rfl, rfl⟩

/-- which primitive variate the transformed samplers draw (the arguments they hand to `esl_rnd_Gamma` / `esl_rnd_Gaussian`,
    translated with the function): the stretched exponential draws a Gamma variate of shape `1/τ`, the log-normal a
    standard Gaussian `(0, 1)` — the variates `transformed_samples` is stated for.  (`esl_gam_Sample`'s shape `τ` is compared
    against the C call by the `gamsample` operation.) -/
theorem sampler_primitive_arguments {α : Type} [Add α] [Sub α] [Mul α] [Div α] [Neg α] [OfScientific α] [LT α] [LE α]
    [DecidableLT α] [DecidableLE α] [Num α] (mu l t : α) :
    esl_sxp_Sample_draw mu l t = [1.0 / t] ∧ esl_lognormal_Sample_draw mu l = [0.0, 1.0] := ⟨rfl, rfl⟩

/-- the samplers that do NOT go by inversion (TRANSLATED resp. hand-modelled since round 4; the argument is the primitive
    variate the generator yields): the transformation lands where the family's cdf equals the primitive family's cdf at
    that variate, so the sample is distributed by the family whenever the primitive variate is distributed by its own.
    * `esl_sxp_Sample t` (`t` = Gamma(1/τ) variate) `= μ + t^{1/τ}/λ > μ`, textbook `F_sxp(Sample t) = P(1/τ, t)`, and for the
      code's own cdfs `esl_sxp_cdf (Sample t) = esl_gam_cdf t 0 1 (1/τ)`;
    * `esl_lognormal_Sample g` (`g` = standard Gaussian variate) `= e^{μ+σg} > 0`, textbook `F_lognormal(Sample g) = Φ(g)`;
    * `esl_gam_Sample` (`Mix.gamSample`, the redraw loop over the stream of Gamma(τ) variates — since round 6 the TRANSLATED
      function is proved equal to it, `gam_sample_generated`): the result is
      `μ + t/λ` for a variate `t` of the stream, never `μ` itself, and `F_gam(μ + t/λ) = P(τ, t)`. -/
theorem transformed_samples {μ l τ : ℝ} (hl : 0 < l) (hτ : 0 < τ) :
    (∀ t, 0 < t → esl_sxp_Sample t μ l τ = μ + 1 / l * t ^ (1 / τ) ∧ μ < esl_sxp_Sample t μ l τ ∧
      GamSxpThm.sxpCdf μ l τ (esl_sxp_Sample t μ l τ) = IncGammaInt.P (1 / τ) t ∧
      esl_sxp_cdf (esl_sxp_Sample t μ l τ) μ l τ = esl_gam_cdf t 0 1 (1 / τ)) ∧
    (∀ g, esl_lognormal_Sample g μ l = exp (μ + l * g) ∧ 0 < esl_lognormal_Sample g μ l ∧
      NormalThm.lognormalCdf μ l (esl_lognormal_Sample g μ l) = NormalThm.normalCdf 0 1 g) ∧
    (∀ ts x, Mix.gamSample μ l ts = some x → x ≠ μ ∧ ∃ t ∈ ts, x = μ + t / l) ∧
    (∀ t, 0 < t → GamSxpThm.gamCdf μ l τ (μ + t / l) = IncGammaInt.P τ t) :=
  ⟨fun _ ht => ⟨SampleThm.sxp_sample_eq ht, (SampleThm.sxp_sample_cdf ht hl hτ).2.1, (SampleThm.sxp_sample_cdf ht hl hτ).1,
      (SampleThm.sxp_sample_cdf ht hl hτ).2.2⟩,
    fun _ => SampleThm.lognormal_sample_cdf hl, fun ts x h => SampleThm.gam_sample_spec ts x h,
    fun _ ht => SampleThm.gam_sample_cdf ht hl⟩

/-- the redraw really happens: a first variate of `0` is skipped -/
example : Mix.gamSample (3 : ℝ) 2 [0, 4] = some (3 + 4 / 2) := by
  simp [Mix.gamSample]

/-- Round 6: `esl_gam_Sample` is TRANSLATED from the working tree (its redraw loop draws inside a `do … while`: the
    generator parameter becomes the stream `u : Nat → α` of Gamma(τ) variates, iteration `i` reads `u i`; `none` = the first
    `fuel` variates are all absorbed, the C loop would draw again).  For EVERY carrier the generated function is the redraw
    loop `Mix.gamSample` (the former hand model, now only a specification) on the first `fuel` variates, and it hands `τ` to
    `esl_rnd_Gamma`; over `ℝ` a returned `x` is `μ + u i / λ ≠ μ` for the FIRST index `i` that is not absorbed, and `none`
    occurs exactly when all `fuel` variates are absorbed. -/
theorem gam_sample_generated {α : Type} [Add α] [Sub α] [Mul α] [Div α] [Neg α] [OfScientific α] [LT α] [LE α]
    [DecidableLT α] [DecidableLE α] [Num α] (fuel : Nat) (u : Nat → α) (mu l t : α) (v : Nat → ℝ) (μ lam τ : ℝ) :
    esl_gam_Sample fuel u mu l t = Mix.gamSample mu l ((List.range fuel).map u) ∧ esl_gam_Sample_draw mu l t = [t] ∧
    (∀ x, esl_gam_Sample fuel v μ lam τ = some x →
      ∃ i, i < fuel ∧ x = μ + v i / lam ∧ x ≠ μ ∧ ∀ j, j < i → μ + v j / lam = μ) ∧
    (esl_gam_Sample fuel v μ lam τ = none ↔ ∀ i, i < fuel → μ + v i / lam = μ) :=
  ⟨GamSampleGen.gam_sample_eq fuel u mu l t, rfl, (GamSampleGen.gam_sample_real fuel v).1, (GamSampleGen.gam_sample_real fuel v).2⟩

/-- the redraw really happens on the generated function: a first variate of `0` is skipped -/
example : esl_gam_Sample 2 (fun i => if i = 0 then (0 : ℝ) else 4) 3 2 1 = some (3 + 4 / 2) := by
  rw [(gam_sample_generated (α := ℝ) 2 (fun i => if i = 0 then (0 : ℝ) else 4) 3 2 1 (fun _ => 0) 0 1 1).1]
  simp [Mix.gamSample, List.range_succ]

end EaselModel.Props.C10
