import EaselModel.Dist.ExpThm
import EaselModel.Dist.Edge
/-! # C10 — each distribution's pdf, cdf, survival, log and inverse functions agree

Full statement (properties.jsonl): for every supported continuous distribution and all valid parameters and arguments
inside the documented dynamic range the functions agree with the closed-form definition and with each other: cdf is
non-decreasing from 0 to 1, cdf + survival = 1, the log versions equal the logarithms, the inverse cdf (and inverse
survival) inverts the cdf, the pdf is the derivative of the cdf; outside the support the density is 0 and the cdf is 0
or 1; a sample drawn with a generator equals the inverse cdf of the uniform deviate that generator yields.

Layers (DESIGN §3.4).  **L2**: the textbook closed forms (`Dist/Spec.lean`) satisfy the laws.  **L1**: the C code *as a
real function* — `EaselModel.Dist.Gen.esl_*`, regenerated from the working tree by `translate/c2lean.py` on every run,
instantiated at `ℝ` — equals the textbook form within an explicit ε, across its `eslSMALLX1` branch switches.
**Edge**: out-of-support values exactly, for every carrier.  **L0** (binary64 rounding of those real functions) is NOT
proved here: it is supported by the bit-exact run of the same definitions at `Float` against the C functions and by the
50-digit monitors of `props/c10.py`.

Only statements and one-line glue here; the lemmas live in `EaselModel/Dist/*.lean`. -/
noncomputable section
namespace EaselModel.Props.C10
open Real EaselModel.Dist EaselModel.Dist.Gen EaselModel.Dist.Spec

/-! ## Exponential -/

/-- L2: the exponential cdf is non-decreasing, stays in `[0,1)`, is `0` below `μ` and tends to `1`. -/
theorem exp_cdf_monotone_0_to_1 {μ l : ℝ} (hl : 0 < l) :
    Monotone (expCdf μ l) ∧ (∀ x, 0 ≤ expCdf μ l x ∧ expCdf μ l x < 1) ∧ (∀ x, x < μ → expCdf μ l x = 0) ∧
      Filter.Tendsto (expCdf μ l) Filter.atTop (nhds 1) :=
  ⟨ExpThm.expCdf_mono hl.le, fun x => ⟨ExpThm.expCdf_nonneg hl.le x, ExpThm.expCdf_lt_one μ l x⟩,
    fun _ h => ExpThm.expCdf_below h, ExpThm.expCdf_tendsto_one hl⟩

/-- L2: cdf + survival = 1; both inverses invert on the support; pdf is the derivative of the cdf away from `μ`. -/
theorem exp_textbook_laws {μ l : ℝ} (hl : l ≠ 0) :
    (∀ x, expCdf μ l x + expSurv μ l x = 1) ∧ (∀ x, μ ≤ x → expInvCdf μ l (expCdf μ l x) = x) ∧
      (∀ x, μ ≤ x → expInvSurv μ l (expSurv μ l x) = x) ∧ (∀ x, x ≠ μ → HasDerivAt (expCdf μ l) (expPdf μ l x) x) :=
  ⟨ExpThm.expCdf_add_expSurv μ l, fun _ h => ExpThm.expInvCdf_expCdf hl h, fun _ h => ExpThm.expInvSurv_expSurv hl h,
    fun _ h => (lt_or_gt_of_ne h).elim ExpThm.expCdf_hasDerivAt_below ExpThm.expCdf_hasDerivAt⟩

/-- L1: `esl_exp_pdf`, `esl_exp_surv`, `esl_exp_invcdf`, `esl_exp_invsurv` ARE the textbook functions; `esl_exp_cdf` is
    within `2.5e-17` of the textbook cdf for every `x` (the `y < eslSMALLX1` branch returns `y` for `1 - e^{-y}`). -/
theorem exp_code_eq_textbook {μ l : ℝ} (hl : 0 ≤ l) (x : ℝ) :
    esl_exp_pdf x μ l = expPdf μ l x ∧ esl_exp_surv x μ l = expSurv μ l x ∧ esl_exp_invcdf x μ l = expInvCdf μ l x ∧
      esl_exp_invsurv x μ l = expInvSurv μ l x ∧ |esl_exp_cdf x μ l - expCdf μ l x| ≤ 2.5e-17 :=
  ⟨ExpThm.code_pdf x μ l, ExpThm.code_surv x μ l, ExpThm.code_invcdf x, ExpThm.code_invsurv x, ExpThm.code_cdf hl x⟩

/-- L1: the code's own cdf and survival add up to 1 within `2.5e-17`, for every argument. -/
theorem exp_code_cdf_add_surv {μ l : ℝ} (hl : 0 ≤ l) (x : ℝ) : |esl_exp_cdf x μ l + esl_exp_surv x μ l - 1| ≤ 2.5e-17 :=
  ExpThm.code_cdf_add_surv hl x

/-- L1: the log versions are the logarithms: exactly for `logsurv` (all `x`) and `logpdf` (finite `l`), within `1e-8`
    for `logcdf` on `x > μ` (branches `log y`, `-e^{-y}`, `log(1 - e^{-y})`). -/
theorem exp_code_logs {μ l x : ℝ} (hl : 0 < l) (hfin : l ≠ (Num.inf : ℝ)) :
    (μ ≤ x → esl_exp_logsurv x μ l = log (expSurv μ l x)) ∧ (x < μ → esl_exp_logsurv x μ l = log (expSurv μ l x)) ∧
      (μ ≤ x → esl_exp_logpdf x μ l = log (expPdf μ l x)) ∧ (μ < x → |esl_exp_logcdf x μ l - log (expCdf μ l x)| ≤ 1e-8) :=
  ⟨ExpThm.code_logsurv, ExpThm.code_logsurv_below, ExpThm.code_logpdf hl hfin, ExpThm.code_logcdf hl⟩

/-- Edge, every carrier: below `μ` density `0`, cdf `0`, survival `1`, log versions `-inf`, `-inf`, `0`. -/
theorem exp_outside_support {α : Type} [Add α] [Sub α] [Mul α] [Div α] [Neg α] [OfScientific α] [LT α] [LE α]
    [DecidableLT α] [DecidableLE α] [Num α] {x mu l : α} (h : x < mu) :
    esl_exp_pdf x mu l = 0.0 ∧ esl_exp_cdf x mu l = 0.0 ∧ esl_exp_surv x mu l = 1.0 ∧ esl_exp_logpdf x mu l = -Num.inf ∧
      esl_exp_logcdf x mu l = -Num.inf ∧ esl_exp_logsurv x mu l = 0.0 :=
  ⟨Edge.exp_pdf_below h, Edge.exp_cdf_below h, Edge.exp_surv_below h, Edge.exp_logpdf_below h, Edge.exp_logcdf_below h,
    Edge.exp_logsurv_below h⟩

-- non-vacuity: the hypotheses are satisfiable and the small-x branch is really taken
example : |esl_exp_cdf (1e-9 : ℝ) 0 1 + esl_exp_surv (1e-9 : ℝ) 0 1 - 1| ≤ 2.5e-17 := exp_code_cdf_add_surv (by norm_num) _
example : esl_exp_cdf (1e-9 : ℝ) 0 1 = 1e-9 := by
  unfold esl_exp_cdf; norm_num

/-! ## Sampling -/

/-- `Sample = inverse cdf ∘ positive uniform deviate`, every carrier (`esl_exp_Sample` uses `log u` for `log (1-u)`:
    the inverse *survival* of the deviate). -/
theorem sample_is_inverse_of_deviate {α : Type} [Add α] [Sub α] [Mul α] [Div α] [Neg α] [OfScientific α] [LT α] [LE α]
    [DecidableLT α] [DecidableLE α] [Num α] (u mu l a : α) :
    esl_exp_Sample u mu l = esl_exp_invsurv u mu l ∧ esl_gumbel_Sample u mu l = esl_gumbel_invcdf u mu l ∧
      esl_gev_Sample u mu l a = esl_gev_invcdf u mu l a ∧ esl_wei_Sample u mu l a = esl_wei_invcdf u mu l a :=
  ⟨rfl, rfl, rfl, rfl⟩

end EaselModel.Props.C10
