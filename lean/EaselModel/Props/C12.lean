import EaselModel.WorkQueue.Lemmas
import EaselModel.WorkQueue.FullApi
import EaselModel.Dsqdata.CodecLemmas
import EaselModel.Dsqdata.LoaderLemmas
import EaselModel.Dsqdata.InPlace
import EaselModel.Dsqdata.RoundTrip
import EaselModel.Dsqdata.Meta
import EaselModel.Threads.Lemmas
import EaselModel.Pipeline.WakeSteps
import EaselModel.Pipeline.ConstT
import EaselModel.Dsqdata.FormatLemmas
import EaselModel.Dsqdata.OpenRejects
import EaselModel.Dsqdata.SmemLemmas
import EaselModel.Dsqdata.PackMem
import EaselModel.Pipeline.Locks
import EaselModel.Pipeline.Fatal
import EaselModel.Pipeline.Liveness
import EaselModel.Pipeline.FairWitness
import EaselModel.Dsqdata.ShortRead
import EaselModel.Dsqdata.CutLemmas
import EaselModel.Dsqdata.CutIndex
/-! # C12 — property theorems (statements + glue only; lemmas live in WorkQueue/*.lean, Dsqdata/*.lean)

Work queue (`esl_workqueue.c`): every theorem is about *all* states reachable from `esl_workqueue_Create(size)` by
*any* interleaving of one reader thread, any number of worker threads, and `esl_workqueue_Init` calls that may come from
a controller thread even while the reader already sleeps on the empty queue, one step per mutex-protected region,
spurious wake-ups allowed (`Reachable`), under the caller's contract `Admissible` (a block is handed to `Init`
once; at most `size` blocks are handed in; `Reset` is not called while a worker sleeps in `WorkerUpdate`). -/
namespace EaselModel.Props.C12
open EaselModel.WorkQueue

/-- **Conservation.** The multiset {reader queue} ∪ {worker queue} ∪ {blocks held by threads} is exactly the
    multiset of blocks handed in through `esl_workqueue_Init` - nothing is lost, nothing is duplicated. -/
theorem wq_conservation {size : Nat} (hs : 0 < size) {s : Sys} (h : Reachable size s) :
    s.allBlocks.Perm s.inited :=
  (reachable_inv hs h).cons

/-- every block is in exactly one place (one queue slot or one thread's hands) -/
theorem wq_exclusive {size : Nat} (hs : 0 < size) {s : Sys} (h : Reachable size s) : s.allBlocks.Nodup :=
  ((reachable_inv hs h).cons.nodup_iff).mpr (reachable_inv hs h).nodup

/-- **FIFO on each side** (history variables): the blocks enqueued for the workers are, in order, the blocks the
    workers have dequeued followed by the current queue contents; same for the reader side (where `Remove`
    withdraws the most recently enqueued block). Hence the i-th dequeue returns the i-th enqueued block:
    every hand-in is handed out exactly once, in order. -/
theorem wq_fifo {size : Nat} (hs : 0 < size) {s : Sys} (h : Reachable size s) :
    s.wEnq = s.wDeq ++ s.wBlocks ∧ s.rEnq = s.rDeq ++ s.rBlocks :=
  ⟨(reachable_inv hs h).fifoW, (reachable_inv hs h).fifoR⟩

theorem wq_fifo_prefix {size : Nat} (hs : 0 < size) {s : Sys} (h : Reachable size s) :
    s.wDeq <+: s.wEnq ∧ s.rDeq <+: s.rEnq :=
  ⟨⟨_, (reachable_inv hs h).fifoW.symm⟩, ⟨_, (reachable_inv hs h).fifoR.symm⟩⟩

/-- **Counters stay in range**: both counts within `[0, size]`, both heads are valid indices, every queued
    pointer is non-NULL, and `pendingWorkers` is exactly the number of workers asleep on the condition variable. -/
theorem wq_counters {size : Nat} (hs : 0 < size) {s : Sys} (h : Reachable size s) :
    s.rq.cnt ≤ s.size ∧ s.wq.cnt ≤ s.size ∧ s.rq.head < s.size ∧ s.wq.head < s.size ∧
    s.rq.slots.length = s.size ∧ s.wq.slots.length = s.size ∧
    s.pending = (s.wWait.length : Int) ∧
    s.rq.contents s.size = s.rBlocks.map some ∧ s.wq.contents s.size = s.wBlocks.map some :=
  let i := reachable_inv hs h
  ⟨i.rwf.cnt, i.wwf.cnt, i.rwf.head, i.wwf.head, i.rwf.len, i.wwf.len, i.pend, i.rsome, i.wsome⟩

/-- **No lost wake-up (workers).** A worker asleep on `workerQueueCond` that has not been signalled since it went
    to sleep implies the worker queue is empty. -/
theorem wq_no_lost_wakeup_worker {size : Nat} (hs : 0 < size) {s : Sys} (h : Reachable size s) (w : Nat)
    (hw : s.workerAsleepUnsignalled w) : s.wq.cnt = 0 :=
  (reachable_inv hs h).nlwW (w, false) hw rfl

/-- **No lost wake-up (reader).** -/
theorem wq_no_lost_wakeup_reader {size : Nat} (hs : 0 < size) {s : Sys} (h : Reachable size s)
    (hw : s.rWait = some false) : s.rq.cnt = 0 :=
  (reachable_inv hs h).nlwR hw

/-- a woken worker whose queue is non-empty leaves `WorkerUpdate` with the head block (no thread waits while a
    block it is entitled to is available: by the previous theorem it has been signalled, and its wake step succeeds) -/
theorem wq_wake_delivers {size : Nat} (hs : 0 < size) {s : Sys} (h : Reachable size s) (w : Nat) (sg : Bool)
    (hw : (w, sg) ∈ s.wWait) (hc : s.wq.cnt ≠ 0) :
    ∃ s' b bs, step s (.workerWake w) = .ok s' ∧ s.wBlocks = b :: bs ∧ s'.wBlocks = bs ∧
      s'.got = (w, some b) :: s.got ∧ (w, b) ∈ s'.held :=
  wake_delivers s w sg (reachable_inv hs h) hw hc

/-- **Reset** moves all queued blocks back to the reader's list in order: worker queue empty afterwards, reader queue =
    old reader contents followed by the old worker contents, `pendingWorkers = 0` -/
theorem wq_reset_spec {size : Nat} (hs : 0 < size) {s s' : Sys} (h : Reachable size s) (ha : Admissible s .reset)
    (hst : step s .reset = .ok s') : s'.wBlocks = [] ∧ s'.rBlocks = s.rBlocks ++ s.wBlocks ∧ s'.pending = 0 :=
  reset_spec s s' (reachable_inv hs h) ha hst

/-- the "queue overflow" exception (which would leave the mutex locked) is unreachable -/
theorem wq_no_overflow {size : Nat} (hs : 0 < size) {s : Sys} (h : Reachable size s) (l : Label)
    (ha : Admissible s l) : step s l ≠ .overflow :=
  step_no_overflow s l (reachable_inv hs h) ha

/-- list form used by the trace validator: every admissible schedule that runs to completion ends in a reachable state -/
theorem wq_run_reachable {size : Nat} (ls : List Label) (s' : Sys)
    (ha : AdmissibleRun (Sys.create size) ls) (hr : run (Sys.create size) ls = some s') : Reachable size s' :=
  run_reachable _ ls s' Reachable.create ha hr

/-! ### the FULL API: `esl_workqueue_Reset` at any moment (no contract on `Reset`)

`ReachableFull size s`: `s` is reached from `esl_workqueue_Create(size)` by any history of `Init` (each block once, at most `size`
blocks - the only contract left), `Remove`, `Reset`, `Complete`, `ReaderUpdate` / `WorkerUpdate` with every NULL / non-NULL
combination of `in` and `out`, and wake-ups, in any interleaving - `Reset` also while workers sleep and blocks are queued. -/

/-- **State conservation for every history of the full API.** Blocks are conserved and each is in exactly one place, both queues are
    FIFO (history variables), counters and heads stay in range, no NULL is queued, and the counters add up:
    `readerQueueCnt + workerQueueCnt + blocks in threads' hands = blocks handed in`. (What a `Reset` with sleeping workers does
    break is `pendingWorkers` = number of sleepers: `wq_reset_while_pending_loses_wakeup`.) -/
theorem wq_full_api_conservation {size : Nat} (hs : 0 < size) {s : Sys} (h : ReachableFull size s) :
    s.allBlocks.Perm s.inited ∧ s.allBlocks.Nodup ∧
    s.wEnq = s.wDeq ++ s.wBlocks ∧ s.rEnq = s.rDeq ++ s.rBlocks ∧
    s.rq.cnt ≤ s.size ∧ s.wq.cnt ≤ s.size ∧ s.rq.head < s.size ∧ s.wq.head < s.size ∧
    s.rq.contents s.size = s.rBlocks.map some ∧ s.wq.contents s.size = s.wBlocks.map some ∧
    s.rq.cnt + s.wq.cnt + s.held.length = s.inited.length :=
  let i : Inv s.awake := reachableFull_coreInv hs h
  ⟨i.cons, (i.cons.nodup_iff).mpr i.nodup, i.fifoW, i.fifoR, i.rwf.cnt, i.wwf.cnt, i.rwf.head, i.wwf.head, i.rsome, i.wsome, i.count⟩

/-- the "queue overflow" exception is unreachable under the full API as well -/
theorem wq_full_api_no_overflow {size : Nat} (hs : 0 < size) {s : Sys} (h : ReachableFull size s) (l : Label)
    (ha : AdmissibleCore s l) : step s l ≠ .overflow :=
  step_no_overflow_full s l (reachableFull_coreInv hs h) ha

/-- **`Reset` in every state** (blocks still queued on either side, the reader ring wrapped, workers asleep): the worker queue is
    empty afterwards, the reader queue is its old contents followed by the old worker-queue contents in order, nobody's holdings
    change; `pendingWorkers` is zeroed while the sleepers stay asleep. -/
theorem wq_reset_every_state {size : Nat} (hs : 0 < size) {s s' : Sys} (h : ReachableFull size s) (hst : step s .reset = .ok s') :
    s'.wBlocks = [] ∧ s'.rBlocks = s.rBlocks ++ s.wBlocks ∧ s'.pending = 0 ∧ s'.wWait = s.wWait ∧ s'.held = s.held := by
  obtain ⟨a, b, c, d, e, _⟩ := reset_any s s' (reachableFull_coreInv hs h) hst
  exact ⟨a, b, c, d, e⟩

/-- the contract-abiding histories are histories of the full API -/
theorem wq_reachable_full {size : Nat} {s : Sys} (h : Reachable size s) : ReachableFull size s := by
  induction h with
  | create => exact .create
  | @step s1 s2 l _ ha hst ih =>
    refine .step ih ?_ hst
    cases l with
    | init b => exact ha
    | _ => trivial

/-- non-vacuity: size 2, worker 7 asleep, block 1 with the workers, block 2 with the reader: `Reset` while 7 sleeps (not admissible
    under the contract) - the state is reachable under the full API, the blocks are back in the reader's queue -/
example : ∃ s, run (Sys.create 2) [.init 1, .init 2, .readerUpdate none true, .workerUpdate 7 none true, .readerUpdate (some 1) true,
      .reset] = some s ∧ s.rBlocks = [1] ∧ s.wBlocks = [] ∧ s.wWait ≠ [] ∧ s.pending = 0 := by
  refine ⟨_, rfl, ?_, ?_, ?_, ?_⟩ <;> decide

/-! ## non-vacuity and the two hypotheses forced by the proofs -/

/-- a concrete non-trivial reachable state: 2 blocks, one worker asleep then served, one block in flight -/
def demoRun : List Label :=
  [.init 1, .init 2, .workerUpdate 7 none true, .readerUpdate none true, .readerUpdate (some 1) true,
   .workerWake 7, .workerUpdate 7 (some 1) true]

example : (run (Sys.create 2) demoRun).isSome = true := by decide
example : AdmissibleRun (Sys.create 2) demoRun := by decide
example : ∃ s, run (Sys.create 2) demoRun = some s ∧ s.wWait = [(7, false)] ∧ s.held = [(0, 2)] ∧ s.rBlocks = [1] := by
  refine ⟨_, rfl, ?_, ?_, ?_⟩ <;> decide

/-- **Why `Reset` must not run while a worker sleeps**: `pendingWorkers = 0` is stored although worker 7 is still
    in the wait set, so the next `ReaderUpdate` does not broadcast - the worker stays asleep, unsignalled, with a
    block in its queue (a lost wake-up). -/
theorem wq_reset_while_pending_loses_wakeup :
    ∃ s, run (Sys.create 2) [.init 1, .workerUpdate 7 none true, .reset, .readerUpdate none true,
                             .readerUpdate (some 1) false] = some s
      ∧ s.workerAsleepUnsignalled 7 ∧ s.wq.cnt = 1 := by
  refine ⟨_, rfl, ?_, ?_⟩ <;> decide

/-- **DESIGN §7 item 1**: with the unrepaired index `(head + cnt) % size`, `Remove` on a non-full queue reads a
    NULL slot and still decrements the count - the last block is lost (conservation fails). -/
theorem wq_unrepaired_remove_loses_block :
    let r := ((Ring.empty 4).push 4 (some 1)).push 4 (some 2)
    r.get ((r.head + r.cnt) % 4) = none ∧ (r.popLast 4).1 = some 2 := by decide

/-! ## dsqdata packet codec (`dsqdata_pack5/pack2/unpack5/unpack2/unpack_chunk`)

Digital sequences are lists of residue codes; every code `≤ 30` (31 is the in-packet end marker; the protein
alphabet uses 0..28, the nucleic one 0..17). Length 0 is included everywhere (`d = []`). -/
open EaselModel.Dsqdata

/-- **5-bit round trip**: unpacking a packed sequence - followed by whatever packets come next in the chunk -
    returns the sequence and consumes exactly its packets -/
theorem codec_unpack5_pack5 (d : List UInt8) (hd : ∀ x ∈ d, x ≤ 30) (tail : List UInt32) :
    unpack5 (pack5 d ++ tail) = some (d, (pack5 d).length) :=
  unpack5_pack5 d hd tail

/-- **mixed 2-bit/5-bit round trip** -/
theorem codec_unpack2_pack2 (d : List UInt8) (hd : ∀ x ∈ d, x ≤ 30) (tail : List UInt32) :
    unpack2 (pack2 d ++ tail) = some (d, (pack2 d).length) :=
  unpack2_pack2 d hd tail

/-- an all-5-bit (protein) packing is also read correctly by the mixed unpacker (claimed in the C comments) -/
theorem codec_unpack2_pack5 (d : List UInt8) (hd : ∀ x ∈ d, x ≤ 30) (tail : List UInt32) :
    unpack2 (pack5 d ++ tail) = some (d, (pack5 d).length) :=
  unpack2_pack5 d hd tail

/-- **packet count**: `P = max(1, ⌈n/6⌉)` for 5-bit packing, `1 ≤ P ≤ max(1, ⌈n/6⌉)` for mixed packing
    (the bound `esl_dsqdata_Write`/`chunk_Create` size their buffers with) -/
theorem codec_packet_count (d : List UInt8) :
    (pack5 d).length = max 1 ((d.length + 5) / 6) ∧
    1 ≤ (pack2 d).length ∧ (pack2 d).length ≤ max 1 ((d.length + 5) / 6) :=
  ⟨pack5_length d, pack2_length_le d⟩

/-- **EOD bit** is set on the last packet of a packed sequence and on no other -/
theorem codec_eod_last (d : List UInt8) (hd : ∀ x ∈ d, x ≤ 30) :
    (∀ i (hi : i < (pack5 d).length), (((pack5 d)[i] &&& EOD) != 0) = decide (i + 1 = (pack5 d).length)) ∧
    (∀ i (hi : i < (pack2 d).length), (((pack2 d)[i] &&& EOD) != 0) = decide (i + 1 = (pack2 d).length)) :=
  ⟨fun i hi => pack5_eod_last d hd i hi, fun i hi => pack2_eod_last d hd i hi⟩

/-- **chunk round trip**: `dsqdata_unpack_chunk` on the concatenation of the packed sequences of a chunk returns
    exactly those sequences, in order (both packings; empty sequences and empty chunks included) -/
theorem codec_unpack_chunk (ds : List (List UInt8)) (hd : ∀ d ∈ ds, ∀ x ∈ d, x ≤ 30) :
    unpackChunk true (ds.flatMap pack5) = some ds ∧ unpackChunk false (ds.flatMap pack2) = some ds :=
  ⟨unpackChunk_pack5 ds hd, unpackChunk_pack2 ds hd⟩

/-- **Metadata round trip**: from the bytes `esl_dsqdata_Write` stores for the sequences of a chunk (`name\\0 acc\\0
    desc\\0` + 4-byte taxonomy id each), the metadata loop of `dsqdata_unpack_chunk` recovers every sequence's own name,
    accession, description and taxonomy id, in order - for every list of records whose strings are C strings. -/
theorem codec_metadata_round_trip (rs : List MetaRec) (h : ∀ r ∈ rs, r.Wf) (tail : List UInt8) :
    parseMeta rs.length (rs.flatMap encodeMeta ++ tail) = some rs :=
  parseMeta_encode rs h tail

/-- **Packing in place never overwrites an unread residue** (`esl_dsqdata_Write` packs into `sq->dsq` itself).
    Packet `j` goes to bytes `4j … 4j+3`; residue `i` lives in byte `i`. When packet `j` is stored, the residues read so
    far (`segs` mirrors the packers' loops: one entry per packet, same length as the packet list) are either all of
    them, or at least `6 (j+1) ≥ 4j + 4` - so every byte the packet covers has been read.
    (The C comment's "`4P ≤ n` or `n = 0`" is not literally true - `n = 1` gives `P = 1` - which is why the buffer
    must hold at least one packet: `ESL_DASSERT1(sq->salloc >= 4)`.) -/
theorem codec_pack_in_place (d : List UInt8) :
    (segs5 d).length = (pack5Loop d).length ∧ (segs2 d none).length = (pack2Loop d none).length ∧
    (∀ j, j < (segs5 d).length → ((segs5 d).take (j + 1)).sum = d.length ∨ 4 * j + 4 ≤ ((segs5 d).take (j + 1)).sum) ∧
    (∀ j, j < (segs2 d none).length → ((segs2 d none).take (j + 1)).sum = d.length ∨ 4 * j + 4 ≤ ((segs2 d none).take (j + 1)).sum) := by
  refine ⟨segs5_length d, segs2_length d none, fun j hj => ?_, fun j hj => ?_⟩
  · rcases goodSegs_prefix _ _ (segs5_good d) j hj with h | h
    · exact Or.inl h
    · exact Or.inr (by omega)
  · rcases goodSegs_prefix _ _ (segs2_good d none) j hj with h | h
    · exact Or.inl h
    · exact Or.inr (by omega)

/-- **`codec_pack_smem`: packing in place at BYTE level is the functional packer** (`esl_dsqdata_Write` calls
    `dsqdata_pack5/2(sq->dsq, sq->n, (uint32_t *) sq->dsq, &P)`). `packMem` runs the packers on the byte buffer itself - residue `i`
    read from byte `i` of the CURRENT contents, packet `j` stored into bytes `4j … 4j+3` of the same buffer, every store
    bounds-checked. For every sequence `d` (any codes, `n = 0` included) in a buffer of at least 4 bytes (`dsq[0 … n+1]` plus
    whatever slack `salloc` leaves): no store leaves the buffer, no residue is overwritten before it is read, and the first `4·P`
    bytes are exactly the packets `pack5 d` / `pack2 d` in native byte order, `P` their number. -/
theorem codec_pack_smem (amino : Bool) (d slack : List UInt8) (h4 : 4 ≤ (dsqBuffer d slack).length) :
    ∃ mem', packMem amino (dsqBuffer d slack) d.length = some (mem', (pk amino d).length) ∧
      mem'.take (4 * (pk amino d).length) = (pk amino d).flatMap enc32 ∧ mem'.length = (dsqBuffer d slack).length :=
  packMem_correct amino d slack h4

/-- the 4-byte minimum is needed (`ESL_DASSERT1(sq->salloc >= 4)`): a one-residue sequence in a 3-byte buffer stores outside it -/
example : packMem true (dsqBuffer [7] []) 1 = none := by decide +kernel
example : (packMem false (dsqBuffer [0, 1, 2, 3, 0, 1, 2, 3, 0, 1, 2, 3, 0, 1, 2, 15] []) 16).map (·.2) = some 2 := by decide +kernel

/-- **Unpacking in place never overwrites an unread packet** (`dsqdata_unpack_chunk` unpacks inside `smem`, the packed
    data having been read to its end: `psq = smem + U - 4·maxpacket`). For ANY packet contents (`packetResidues` is what
    `dsqdata_unpack5` / `unpack2` emit for a packet - `unpack_head_eod`, `unpack_head_more`), every chunk with at most
    `maxpacket` packets and `maxseq` sequences, and `U ≥ {6|15}·maxpacket + maxseq + 1` as `dsqdata_chunk_Create`
    allocates: when packet `p` is about to be read, all bytes written so far lie below its first byte, and at the end
    everything written fits `smem`. -/
theorem codec_unpack_in_place (mode5 : Bool) (ps : List UInt32) (maxpacket maxseq U : Nat)
    (hpn : ps.length ≤ maxpacket) (hN : eodCount ps ≤ maxseq) (hU : per mode5 * maxpacket + maxseq + 1 ≤ U) :
    (∀ p, p < ps.length → writeFront mode5 (ps.take p) 1 ≤ (U - 4 * maxpacket) + 4 * p) ∧
    writeFront mode5 ps 1 ≤ U :=
  unpack_in_place_safe mode5 ps maxpacket maxseq U hpn hN hU

/-- **`dsqdata_chunk_Create`'s buffer layout**: `U = {6|15}·maxpacket + maxseq + 1` rounded up to a multiple of 4 satisfies the
    hypothesis of `codec_unpack_in_place`; `psq = smem + U - 4·maxpacket` is 4-byte aligned (given `malloc`'s alignment of
    `smem`), lies at least one byte above `smem[0]`, and exactly `maxpacket` packets fit between it and the end of the buffer. -/
theorem codec_chunk_layout (mode5 : Bool) (maxpacket maxseq : Nat) :
    per mode5 * maxpacket + maxseq + 1 ≤ chunkU mode5 maxpacket maxseq ∧
    chunkPsqOff mode5 maxpacket maxseq + 4 * maxpacket = chunkU mode5 maxpacket maxseq ∧
    chunkPsqOff mode5 maxpacket maxseq % 4 = 0 ∧ 1 ≤ chunkPsqOff mode5 maxpacket maxseq :=
  ⟨(chunkU_ge mode5 maxpacket maxseq).1, chunk_layout mode5 maxpacket maxseq⟩

/-- **`codec_unpack_smem`: unpacking in place at BYTE level is the functional unpacker.** `unpackChunkMem` runs
    `dsqdata_unpack_chunk`'s sequence loop (with `dsqdata_unpack5` / `_unpack2` inside) on the byte buffer itself: packets are
    read from `smem + psqOff + 4·pos`, residues and sentinels are stored into the same buffer from byte 1 upwards, every access
    bounds-checked. In the buffer `dsqdata_chunk_Create` makes for `(maxpacket, maxseq)`, whatever it held before (`fill`), with
    the `pn ≤ maxpacket` packets of ANY chunk of `N ≤ maxseq` sequences that the functional `unpackChunk` accepts placed where the
    loader `fread`s them: no access leaves the buffer, no unread packet is overwritten, and afterwards `smem[0 …]` is the leading
    sentinel followed by every sequence and its sentinel, `(dsq[i] - smem, L[i])` = `segsOf 0 ds`. -/
theorem codec_unpack_smem (mode5 : Bool) (ps : List UInt32) (maxpacket maxseq : Nat) (fill : UInt8) (ds : List (List UInt8))
    (hpn : ps.length ≤ maxpacket) (hN : eodCount ps ≤ maxseq) (hds : unpackChunk mode5 ps = some ds) :
    ∃ mem', unpackChunkMem mode5 (loadedSmem mode5 maxpacket maxseq ps fill) (chunkPsqOff mode5 maxpacket maxseq) ps.length
        = some (mem', segsOf 0 ds) ∧
      mem'.length = chunkU mode5 maxpacket maxseq ∧ mem'.take (smemLayout ds).length = smemLayout ds :=
  unpackChunkMem_correct mode5 ps maxpacket maxseq fill ds hpn hN hds

/-- … in particular for the packets of any sequences that were packed (`pack5` for protein, `pack2` otherwise; codes ≤ 30,
    empty sequences included) and fit the limits: pack → loader's buffer → unpack in place returns the sequences, byte for byte. -/
theorem codec_pack_unpack_smem (amino : Bool) (ds : List (List UInt8)) (maxpacket maxseq : Nat) (fill : UInt8)
    (hd : ∀ d ∈ ds, ∀ x ∈ d, x ≤ 30) (hpn : (ds.flatMap (pk amino)).length ≤ maxpacket) (hN : ds.length ≤ maxseq) :
    ∃ mem', unpackChunkMem amino (loadedSmem amino maxpacket maxseq (ds.flatMap (pk amino)) fill)
        (chunkPsqOff amino maxpacket maxseq) (ds.flatMap (pk amino)).length = some (mem', segsOf 0 ds) ∧
      mem'.length = chunkU amino maxpacket maxseq ∧ mem'.take (smemLayout ds).length = smemLayout ds :=
  unpackChunkMem_packed amino ds maxpacket maxseq fill hd hpn hN

/-- non-vacuity: two DNA sequences (15 canonical residues = one full 2-bit packet; one degenerate residue), limits exactly met -/
example : (unpackChunkMem false (loadedSmem false 2 2 ([[0, 1, 2, 3, 0, 1, 2, 3, 0, 1, 2, 3, 0, 1, 2], [15]].flatMap (pk false)) 7)
      (chunkPsqOff false 2 2) 2).map (fun r => (r.1.take 19, r.2))
    = some (smemLayout [[0, 1, 2, 3, 0, 1, 2, 3, 0, 1, 2, 3, 0, 1, 2], [15]], [(0, 15), (16, 1)]) := by decide +kernel
/-- the limits are needed: one packet more than the buffer was made for, and the loader's `fread` lands outside / the unpacker faults -/
example : chunkPsqOff false 1 1 + 4 * 2 > chunkU false 1 1 := by decide

example : (∀ x ∈ [0, 1, 2, 3, 15, 30, 0, (7 : UInt8)], x ≤ 30) := by decide
example : unpack2 (pack2 [0, 1, 2, 3, 15, 30, 0, 7]) = some ([0, 1, 2, 3, 15, 30, 0, 7], 2) := by decide +kernel
/-- the hypothesis `≤ 30` is needed: code 31 is read back as the end marker -/
example : unpack5 (pack5 [1, 31, 2]) = some ([1], 1) := by decide +kernel

/-! ## dsqdata loader arithmetic (`dsqdata_loader_thread`: index carry-over and the `nload` computation) -/

/-- **`nload` is the largest prefix whose packets fit** (`1 ≤ nload`): under the loader's running assumption that the
    first record fits, the binary search returns `n` with record `n-1` fitting and record `n` (if any) not fitting;
    no out-of-bounds index (`some`). With strictly increasing ends (`chooseNload_max`): record `k` fits iff `k < n`. -/
theorem loader_nload_largest_prefix (idx : List Rec) (psqLast maxpacket : Int) (hne : idx ≠ [])
    (hinc : EndsIncreasing idx) (hfirst : (idx[0]'(List.length_pos_iff.mpr hne)).psqEnd - psqLast ≤ maxpacket) :
    ∃ n, chooseNload idx psqLast maxpacket = some n ∧ 1 ≤ n ∧ n ≤ idx.length ∧
      (∀ (h : n - 1 < idx.length), (idx[n-1]).psqEnd - psqLast ≤ maxpacket) ∧
      (∀ (h : n < idx.length), (idx[n]).psqEnd - psqLast > maxpacket) :=
  chooseNload_spec idx psqLast maxpacket hne hinc hfirst

/-- **The loader cuts the database into maximal contiguous chunks and never faults**, for every database
    (`ps` = packets per sequence, `ms` = metadata bytes per sequence, index as `esl_dsqdata_Write` writes it), every
    `maxseq ≥ 1` and every `maxpacket`, under the writer's guarantee that one sequence fits a chunk (`p ≤ maxpacket`):
    chunk `j` starts where chunk `j-1` ended, all sequences are covered, `1 ≤ N ≤ maxseq`, `pn ≤ maxpacket` is the
    packet sum of its sequences, and a chunk stops short of `maxseq` only if the next sequence does not fit. -/
theorem loader_chunks_partition (ps ms : List Nat) (maxseq : Nat) (maxpacket : Int) (hlen : ps.length = ms.length)
    (hps : ∀ p ∈ ps, 1 ≤ p ∧ (p : Int) ≤ maxpacket) (hms : 1 ≤ maxseq) :
    ∃ cs, loaderChunks maxseq maxpacket (ps.length + 1) (LState.init (indexOf (ps.zip ms) 0 0)) = some cs ∧
      (cs.map (·.n)).sum = ps.length ∧
      (∀ j (hj : j < cs.length), (cs[j]).i0 = ((cs.take j).map (·.n)).sum) ∧
      (∀ c ∈ cs, 1 ≤ c.n ∧ c.n ≤ maxseq ∧ c.i0 + c.n ≤ ps.length ∧ 0 ≤ c.pn ∧ c.pn ≤ maxpacket ∧
        c.pn = (((ps.drop c.i0).take c.n).sum : Nat) ∧ c.nmeta = (((ms.drop c.i0).take c.n).sum : Nat)) ∧
      (∀ c ∈ cs, c.n < maxseq → c.i0 + c.n < ps.length → c.pn + (ps.getD (c.i0 + c.n) 0 : Nat) > maxpacket) :=
  loaderChunks_spec ps ms maxseq maxpacket hlen hps hms

/-- **Write → index → loader → unpacker reproduces the database.** For every database `ds` (residue codes ≤ 30, empty
    sequences and the empty database included), either packing, every metadata size list, every `maxseq ≥ 1` and every
    `maxpacket` that holds the longest packed sequence (the writer's guarantee): the loader cuts the index into chunks
    without fault; the packets it reads for chunk `c` (the `pn` packets following those of all earlier sequences)
    unpack - by `dsqdata_unpack_chunk` - to exactly the stored sequences `i0 … i0+N-1`; and the chunks in order tile the
    database, so the concatenation of the chunks in chunk order (which `pipe_order` shows is the order `Read` hands them
    out, each once) is the list of stored sequences. -/
theorem dsq_chunks_are_the_database (amino : Bool) (ds : List (List UInt8)) (ms : List Nat) (maxseq : Nat) (maxpacket : Int)
    (hlen : ds.length = ms.length) (hd : ∀ d ∈ ds, ∀ x ∈ d, x ≤ 30) (hms : 1 ≤ maxseq)
    (hfit : ∀ d ∈ ds, ((pk amino d).length : Int) ≤ maxpacket) :
    let ps := ds.map fun d => (pk amino d).length
    ∃ cs, loaderChunks maxseq maxpacket (ds.length + 1) (LState.init (indexOf (ps.zip ms) 0 0)) = some cs ∧
      (∀ c ∈ cs, unpackChunk amino (((ds.flatMap (pk amino)).drop (pre ps c.i0)).take c.pn.toNat)
                  = some ((ds.drop c.i0).take c.n)) ∧
      (cs.map fun c => (ds.drop c.i0).take c.n).flatten = ds :=
  chunks_unpack_to_database amino ds ms maxseq maxpacket hlen hd hms hfit

/-- the guarantee is needed: a sequence with more packets than a chunk holds makes the loader overrun its buffer -/
example : loaderChunks 4 10 3 (LState.init (indexOf ([3, 11].zip [5, 5]) 0 0)) = none := by decide


/-! ## the on-disk format at byte level: `esl_dsqdata_Write` → four files → `esl_dsqdata_Open` → loader `fread`s → unpacker

`writeDb tag alphatype fname fmt db` are the BYTES of the stub, `.dsqi`, `.dsqm`, `.dsqs` files `esl_dsqdata_Write` produces
for the records `db` (`tag` = the random `uniquetag`), `openDb` is `esl_dsqdata_Open`'s validation of four byte strings,
`readDb maxseq maxpacket` runs `dsqdata_loader_thread`'s main loop (three `fread`s per chunk) and `dsqdata_unpack_chunk`
over the opened bytes. `SeqRec.Wf`: name/accession/description are C strings (no NUL), the taxonomy id fits an
`int32_t`, residue codes ≤ 30. -/
section bytes
open EaselModel.Dsqdata

/-- **`Open (Write db) = ok` with the stated counts**, for every database the writer accepts (protein, DNA or RNA; every
    sequence shorter than `6 · eslDSQDATA_CHUNK_MAXPACKET`), every tag, with or without a caller-supplied alphabet of the
    right type: the header fields read back are the tag, the alphabet type, the maximum lengths, `nseq`, `nres`
    (`writtenHeader`), 5-bit mode iff protein, and the three data files are positioned behind their headers. -/
theorem dsq_open_written (tag alphatype : Nat) (fname fmt : List UInt8) (db : List SeqRec)
    (hty : alphatype = 1 ∨ alphatype = 2 ∨ alphatype = 3) (hlen : ∀ r ∈ db, r.dsq.length < 6 * MAXPACKET)
    (expect : Option Nat) (hexp : expect = none ∨ expect = some alphatype) :
    ∃ f, writeDb tag alphatype fname fmt db = .ok f ∧
      openDb expect f = .ok (writtenHeader tag alphatype (alphatype == 3) db) ∧
      (writtenHeader tag alphatype (alphatype == 3) db).nseq = db.length % 2 ^ 64 ∧
      (writtenHeader tag alphatype (alphatype == 3) db).nres = (db.map fun r => r.dsq.length).sum % 2 ^ 64 :=
  let ⟨f, h1, h2⟩ := openDb_writeDb tag alphatype fname fmt db hty hlen expect hexp
  ⟨f, h1, h2, rfl, rfl⟩

/-- **Bytes → database, end to end.** For EVERY database of well-formed records, every tag, every `chunk_maxseq ≥ 1` and
    every `chunk_maxpacket` that holds the longest packed sequence: the files written by `esl_dsqdata_Write` are accepted by
    `esl_dsqdata_Open`, and the byte-level loader + unpacker run to the end of data without fault or short read and deliver
    chunks `out` such that
    * the concatenation of the chunks' records, in chunk order, is exactly `db` - every record once, with its own name,
      accession, description, taxonomy id (all four bytes, e.g. ids ≥ 0x80) and residues;
    * chunk `j` starts at record `i0 = Σ_{k<j} N_k`, holds `1 ≤ N ≤ maxseq` records, `pn ≤ maxpacket` packets (`Tiles`).
    (`2^63`: the index stores positions as `int64_t`.) The number of unpackers and consumers does not enter: by `pipe_order`
    the chunks are handed out in this order whatever the schedule - see `dsq_threaded_read_is_database`. -/
theorem dsq_bytes_round_trip (tag alphatype : Nat) (fname fmt : List UInt8) (db : List SeqRec) (maxseq : Nat) (maxpacket : Int)
    (hty : alphatype = 1 ∨ alphatype = 2 ∨ alphatype = 3) (hwf : ∀ r ∈ db, r.Wf)
    (hlen : ∀ r ∈ db, r.dsq.length < 6 * MAXPACKET) (hms : 1 ≤ maxseq)
    (hfit : ∀ r ∈ db, ((pk (alphatype == 3) r.dsq).length : Int) ≤ maxpacket)
    (h1 : (db.map fun r => (pk (alphatype == 3) r.dsq).length).sum < 2 ^ 63)
    (h2 : (db.map fun r => (encodeMeta (metaOf r)).length).sum < 2 ^ 63)
    (expect : Option Nat) (hexp : expect = none ∨ expect = some alphatype) :
    ∃ f o out, writeDb tag alphatype fname fmt db = .ok f ∧ openDb expect f = .ok o ∧
      readDb maxseq maxpacket o = some out ∧ out.flatMap (·.2) = db ∧
      Tiles (alphatype == 3) db maxseq maxpacket 0 out := by
  obtain ⟨f, hw, ho⟩ := openDb_writeDb tag alphatype fname fmt db hty hlen expect hexp
  obtain ⟨out, hr, ht⟩ := readDb_written tag alphatype db maxseq maxpacket hwf hms hfit h1 h2
  exact ⟨f, _, out, hw, ho, hr, by simpa using tiles_flatten_db _ db maxseq maxpacket out 0 ht, ht⟩

/-- **… and every chunk unpacks IN PLACE.** Each chunk `c` the byte-level loader delivers for the written database (`Tiles`, from
    `dsq_bytes_round_trip`), placed in the buffer `dsqdata_chunk_Create` makes for the reader's `(chunk_maxpacket, chunk_maxseq)` -
    whatever a recycled buffer still holds (`fill`) - is unpacked by the byte-level `dsqdata_unpack_chunk` without leaving the
    buffer or overwriting an unread packet, to exactly the residues of its records: `smem` = sentinel, sequence, sentinel, … -/
theorem dsq_chunks_unpack_in_place (amino : Bool) (db : List SeqRec) (maxseq : Nat) (maxpacket : Int) (hwf : ∀ r ∈ db, r.Wf)
    (fill : UInt8) (out : List (BChunk × List SeqRec)) (ht : Tiles amino db maxseq maxpacket 0 out) :
    ∀ c ∈ out, ∃ mem', unpackChunkMem amino (loadedSmem amino maxpacket.toNat maxseq c.1.psq fill)
          (chunkPsqOff amino maxpacket.toNat maxseq) c.1.pn = some (mem', segsOf 0 (c.2.map (·.dsq))) ∧
        mem'.take (smemLayout (c.2.map (·.dsq))).length = smemLayout (c.2.map (·.dsq)) :=
  tiles_unpack_in_place amino db maxseq maxpacket hwf fill out 0 ht

/-- with the library's own limits (`eslDSQDATA_CHUNK_MAXSEQ`, `eslDSQDATA_CHUNK_MAXPACKET`) the hypothesis "`maxpacket` holds
    the longest packed sequence" is the writer's guarantee `L < 6 · eslDSQDATA_CHUNK_MAXPACKET` -/
theorem dsq_bytes_round_trip_defaults (tag alphatype : Nat) (fname fmt : List UInt8) (db : List SeqRec)
    (hty : alphatype = 1 ∨ alphatype = 2 ∨ alphatype = 3) (hwf : ∀ r ∈ db, r.Wf)
    (hlen : ∀ r ∈ db, r.dsq.length < 6 * MAXPACKET)
    (h1 : (db.map fun r => (pk (alphatype == 3) r.dsq).length).sum < 2 ^ 63)
    (h2 : (db.map fun r => (encodeMeta (metaOf r)).length).sum < 2 ^ 63) :
    ∃ f o out, writeDb tag alphatype fname fmt db = .ok f ∧ openDb none f = .ok o ∧
      readDb MAXSEQ MAXPACKET o = some out ∧ out.flatMap (·.2) = db := by
  have hfit : ∀ r ∈ db, ((pk (alphatype == 3) r.dsq).length : Int) ≤ (MAXPACKET : Nat) := by
    intro r hr
    have hl := hlen r hr
    have hc := codec_packet_count r.dsq
    have : (pk (alphatype == 3) r.dsq).length ≤ MAXPACKET := by
      unfold pk; split
      · rw [hc.1]; simp only [MAXPACKET] at hl ⊢; omega
      · have := hc.2.2; simp only [MAXPACKET] at hl ⊢; omega
    exact_mod_cast this
  obtain ⟨f, o, out, a, b, c, d, _⟩ := dsq_bytes_round_trip tag alphatype fname fmt db MAXSEQ (MAXPACKET : Nat) hty hwf hlen
    (by decide) hfit h1 h2 none (Or.inl rfl)
  exact ⟨f, o, out, a, b, c, d⟩

/-- **A corrupted magic or tag is answered `eslEFORMAT`.** In the files written for any database, replace the magic `m` and/or
    the tag `t` at the head of ONE of the three data files (every 8-byte string is `le32 m ++ le32 t` for some `m`, `t`):
    `esl_dsqdata_Open` returns the documented `eslEFORMAT` - "index file has bad tag" (18), "index file has bad magic" (19),
    "metadata file has bad magic/tag" (24/25), "sequence file has bad magic/tag" (28/29) - except that the byteswapped magic
    in the index file is the `eslEUNIMPLEMENTED` exception ("cannot yet read data in different byte orders"). -/
theorem dsq_open_corrupt_header (tag alphatype : Nat) (fname fmt : List UInt8) (db : List SeqRec) (f : Files)
    (hty : alphatype = 1 ∨ alphatype = 2 ∨ alphatype = 3) (hw : writeDb tag alphatype fname fmt db = .ok f)
    (expect : Option Nat) (hexp : expect = none ∨ expect = some alphatype) (m t : Nat) :
    (t % 4294967296 ≠ tag % 4294967296 → openDb expect (patchIdx f m t) = .eformat 18) ∧
    (t % 4294967296 = tag % 4294967296 → m % 4294967296 = MAGIC_SWAP → openDb expect (patchIdx f m t) = .eunimplemented) ∧
    (t % 4294967296 = tag % 4294967296 → m % 4294967296 ≠ MAGIC_SWAP → m % 4294967296 ≠ MAGIC →
        openDb expect (patchIdx f m t) = .eformat 19) ∧
    (m % 4294967296 ≠ MAGIC → openDb expect (patchMdat f m t) = .eformat 24) ∧
    (m % 4294967296 = MAGIC → t % 4294967296 ≠ tag % 4294967296 → openDb expect (patchMdat f m t) = .eformat 25) ∧
    (m % 4294967296 ≠ MAGIC → openDb expect (patchSeq f m t) = .eformat 28) ∧
    (m % 4294967296 = MAGIC → t % 4294967296 ≠ tag % 4294967296 → openDb expect (patchSeq f m t) = .eformat 29) :=
  open_corrupt tag alphatype fname fmt db f hty hw expect hexp m t

/-- the tag line of the stub file round-trips through `fprintf` / `fgets`+`strtok`+`strtoul`, whatever follows it -/
theorem dsq_stub_tag (tag : Nat) (rest : List UInt8) : parseStub (stubLine1 tag ++ rest) = .ok (tag % 4294967296) :=
  parseStub_stubLine1 tag rest


/-- **`open_rejects`: wrong alphabet type, foreign stub.** On the files written for any database of alphabet type `alphatype`
    (with `dsq_open_corrupt_header` for the magic / tag of the three data files this covers every check `esl_dsqdata_Open` makes):
    a caller whose alphabet has another type gets `eslEFORMAT` (20, "data files use a different alphabet"); with the type field
    of the index header overwritten by `a`, a caller with the right alphabet gets the same refusal and a caller without one
    gets `eslEFORMAT` (21, "invalid alphabet type") when `a` is 0 (`eslUNKNOWN`) or above 6; a stub file whose tag line carries
    another tag than the index file gets `eslEFORMAT` (18, "index file has bad tag"), whatever follows the tag line. -/
theorem open_rejects (tag alphatype : Nat) (fname fmt : List UInt8) (db : List SeqRec) (f : Files)
    (hty : alphatype = 1 ∨ alphatype = 2 ∨ alphatype = 3) (hw : writeDb tag alphatype fname fmt db = .ok f) :
    (∀ t, t ≠ alphatype → openDb (some t) f = .eformat 20) ∧
    (∀ a, a % 4294967296 ≠ alphatype → openDb (some alphatype) (patchType f a) = .eformat 20) ∧
    (∀ a, a % 4294967296 = 0 ∨ a % 4294967296 > 6 → openDb none (patchType f a) = .eformat 21) ∧
    (∀ t rest expect, t % 4294967296 ≠ tag % 4294967296 → openDb expect (patchStub f t rest) = .eformat 18) :=
  open_rejects_lemma tag alphatype fname fmt db f hty hw

/-- non-vacuity: a DNA database of two records (a taxonomy id with a byte ≥ 0x80, an empty sequence), one record per chunk -/
def demoDb : List SeqRec := [⟨[115, 49], [65], [100, 32, 101], 9734, [0, 1, 2, 3, 15, 0]⟩, ⟨[115, 50], [], [], 4294967295, []⟩]
example : ∀ r ∈ demoDb, r.Wf := by
  intro r hr
  simp only [demoDb, List.mem_cons, List.not_mem_nil, or_false] at hr
  rcases hr with rfl | rfl <;> (unfold SeqRec.Wf; decide)
example : (match writeDb 305419896 2 [] [] demoDb with
    | .ok f => (match openDb none f with
      | .ok o => (readDb 1 4 o).map (fun out => (out.map fun c => (c.1.i0, c.1.n, c.1.pn), out.flatMap (·.2)))
      | _ => none)
    | _ => none) = some ([(0, 1, 1), (1, 1, 1)], demoDb) := by decide +kernel

/-- a wrong alphabet is refused: caller expects `t`, the files say otherwise -/
example : openDb (some 3) (match writeDb 7 2 [] [] [] with | .ok f => f | _ => ⟨[], [], [], []⟩) = .eformat 20 := by decide +kernel

/-- `open_rejects`, concretely: the type field of a DNA database overwritten by 0 / by 7, and a stub with another tag -/
example : openDb none (patchType (match writeDb 7 2 [] [] demoDb with | .ok f => f | _ => ⟨[], [], [], []⟩) 0) = .eformat 21 := by decide +kernel
example : openDb none (patchType (match writeDb 7 2 [] [] demoDb with | .ok f => f | _ => ⟨[], [], [], []⟩) 7) = .eformat 21 := by decide +kernel
example : openDb none (patchStub (match writeDb 7 2 [] [] demoDb with | .ok f => f | _ => ⟨[], [], [], []⟩) 8 [65, 10]) = .eformat 18 := by decide +kernel

end bytes

/-! ## esl_threads start rendezvous (`AddThread`, `WaitForStart`, `Started`), every schedule, any number of workers -/
section threads
open EaselModel.Threads

/-- **Barrier.** No worker returns from `esl_threads_Started` before every created worker has arrived and the
    master has given the go signal. -/
theorem th_barrier {s : Threads.Sys} (h : Threads.Reachable s) (w : Nat) (hw : w ∈ s.passed) :
    s.master = .released ∧ s.notStarted = [] := by
  have i := Threads.reachable_inv h
  have hr : s.master = .released := by
    apply Classical.byContradiction; intro hn
    have := (i.pre hn).2; rw [this] at hw; simp at hw
  exact ⟨hr, (i.post hr).2⟩

/-- until the release, `startThread` counts exactly the workers blocked at the gate; every worker is in one place -/
theorem th_counter {s : Threads.Sys} (h : Threads.Reachable s) :
    s.notStarted.length + s.wWait.length + s.passed.length = s.count ∧
    (s.master ≠ .released → s.startThread = s.wWait.length) ∧ (s.master = .released → s.startThread = 0) :=
  let i := Threads.reachable_inv h
  ⟨i.part, fun hn => (i.pre hn).1, fun hr => (i.post hr).1⟩

/-- **No lost wake-up (master).** A master asleep in `WaitForStart` without a broadcast since it went to sleep
    implies some worker has not arrived yet (and will broadcast when it does). -/
theorem th_no_lost_wakeup_master {s : Threads.Sys} (h : Threads.Reachable s) (hm : s.master = .waiting false) :
    s.notStarted ≠ [] := by
  have i := Threads.reachable_inv h
  have hlt := i.nlwM hm
  have hp := i.pre (by rw [hm]; simp)
  have := i.part
  intro hn; rw [hn, hp.2] at this; simp at this; omega

/-- **No lost wake-up (workers)** and nobody waits forever: after the release every sleeping worker has been
    signalled, and its wake step returns from `Started`; once all workers have arrived, the master's wake step
    releases; a worker that has not arrived can always arrive. -/
theorem th_progress {s : Threads.Sys} (h : Threads.Reachable s) :
    (s.master = .released → ∀ w sg, (w, sg) ∈ s.wWait → sg = true ∧ ∃ s', Threads.step s (.workerWake w) = some s' ∧ w ∈ s'.passed) ∧
    (∀ sg, s.master = .waiting sg → s.notStarted = [] → ∃ s', Threads.step s .masterWake = some s' ∧ s'.master = .released) ∧
    (∀ w ∈ s.notStarted, (Threads.step s (.arrive w)).isSome) := by
  have i := Threads.reachable_inv h
  refine ⟨fun hr w sg hw => ⟨i.nlwW hr _ hw, Threads.wake_passes s i hr w sg hw⟩,
          fun sg hm hn => Threads.master_releases s i sg hm hn, fun w hw => by simp [Threads.step, hw]⟩

/-- non-vacuity: 3 workers, the first arrives before the last one is even created -/
example : ∃ s, Threads.run Threads.Sys.create [.add, .add, .arrive 0, .add, .masterWait, .arrive 2, .workerWake 0, .arrive 1,
      .masterWake, .workerWake 1, .workerWake 0] = some s ∧ s.passed = [0, 1] ∧ s.wWait = [(2, true)] ∧ s.master = .released := by
  refine ⟨_, rfl, ?_, ?_, ?_⟩ <;> decide
end threads

/-! ## dsqdata reader pipeline (loader, `U` unpackers, any number of consumers), every schedule

`Pipeline.Reachable U T C s`: `s` is reachable from `esl_dsqdata_Open` on a database of `T` chunks with `U`
unpackers by any interleaving of loader / unpacker / consumer steps (one per mutex-protected region, spurious
wake-ups allowed, any number of consumers calling `Read` and `Recycle` in any order). -/
section pipeline
open EaselModel.Pipeline

/-- **Order, exactly once.** The chunks returned by `esl_dsqdata_Read`, in the order of the consumer-shared counter
    `nchunk`, are chunk 0, 1, 2, … - each exactly once, none skipped - whatever the schedule. -/
theorem pipe_order {U T C : Nat} (hU : 0 < U) {s : Pipeline.Sys} (h : Pipeline.Reachable U T C s) :
    s.returned = List.range s.nchunk ∧ s.nchunk ≤ s.T :=
  let i := Pipeline.reachable_inv hU h
  ⟨i.ret, Nat.le_trans i.bounds.1 i.bounds.2⟩

/-- **EOF only after everything.** A consumer is told `eslEOF` only when all `T` chunks have been returned. -/
theorem pipe_eof_after_all {U T C : Nat} (hU : 0 < U) {s : Pipeline.Sys} (h : Pipeline.Reachable U T C s)
    (he : s.eofs ≠ []) : s.returned = List.range s.T := by
  have i := Pipeline.reachable_inv hU h
  rw [i.ret, i.eof he]

/-- chunk numbers inside the pipeline: each lane `u` carries, oldest first, strictly increasing numbers `≡ u (mod U)`
    from `[nchunk, nchunkL)`, and every number of that interval is in its lane (nothing lost inside the pipeline) -/
theorem pipe_lanes {U T C : Nat} (hU : 0 < U) {s : Pipeline.Sys} (h : Pipeline.Reachable U T C s) :
    (∀ u < s.U, (s.lane u).ks.Pairwise (· < ·) ∧ ∀ k ∈ (s.lane u).ks, k % s.U = u ∧ s.nchunk ≤ k ∧ k < s.nchunkL) ∧
    (∀ k, s.nchunk ≤ k → k < s.nchunkL → k ∈ (s.lane (k % s.U)).ks) ∧ s.nchunkL ≤ s.T :=
  let i := Pipeline.reachable_inv hU h
  ⟨fun u hu => ⟨i.sorted u hu, i.range u hu⟩, i.complete, i.bounds.2⟩

/-- **No deadlock.** In every reachable state some thread can take a step that is not a wait: the loader, an
    unpacker, a consumer holding a chunk (`Recycle` never blocks), or a consumer calling `Read` (it returns a chunk or
    EOF at once). In particular the pipeline never blocks forever as long as consumers keep calling Read and Recycle,
    and when everything has finished `Read` answers EOF immediately (`readBlocked = false`). -/
theorem pipe_no_deadlock {U T C : Nat} (hU : 0 < U) {s : Pipeline.Sys} (h : Pipeline.Reachable U T C s) :
    Pipeline.loaderBlocked s = false ∨ (∃ u < s.U, Pipeline.unpBlocked s u = false) ∨ s.cheld ≠ [] ∨
      Pipeline.readBlocked s = false :=
  let i := Pipeline.reachable_inv2 hU h
  Pipeline.no_deadlock s i.1 i.2 (by rw [Pipeline.reachable_limit h]; omega)

/-- **No lost wake-up.** Whatever the schedule: a loader / unpacker / consumer that is asleep on its condition variable
    and has not been signalled since it went to sleep is still rightly waiting - the condition it waits for is false
    (`…Blocked = true`). Hence whenever a sleeper could proceed it has a signal pending, and together with
    `pipe_no_deadlock` no thread waits for ever while it could make progress. -/
theorem pipe_no_lost_wakeup {U T C : Nat} (hU : 0 < U) {s : Pipeline.Sys} (h : Pipeline.Reachable U T C s) :
    (s.lwait = some false → Pipeline.loaderBlocked s = true) ∧
    (∀ u < s.U, (s.lane u).uwait = some false → Pipeline.unpBlocked s u = true) ∧
    (s.reader.isSome = true → s.rsig = false → Pipeline.readBlocked s = true) :=
  let w := Pipeline.reachable_winv hU h
  ⟨w.lw, w.uw, w.rw⟩

/-- **EOF reaches every consumer.** In any reachable state in which all `T` chunks have been returned and the unpacker
    serving the lane of the next `Read` has exited, `esl_dsqdata_Read` by any consumer `c` returns EOF immediately, as
    often as it is called (with `pipe_no_deadlock` / `pipe_no_lost_wakeup`: the pipeline gets there). -/
theorem pipe_eof_delivered {U T C : Nat} (hU : 0 < U) {s : Pipeline.Sys} (h : Pipeline.Reachable U T C s)
    (hn : s.nchunk = s.T) (hd : (s.lane (s.nchunk % s.U)).upc = .done) (hr : s.reader = none) (c : Nat) :
    Pipeline.step s (.read c) = some { s with reader := none, eofs := c :: s.eofs } :=
  let i := Pipeline.reachable_inv2 hU h
  Pipeline.read_eof_at_end s i.1 i.2 hn hd hr c

/-- **Buffers are conserved and all destroyed at exit.** Chunk buffers created = live + destroyed; every live buffer
    is in exactly one place (a lane, the recycling stack, a consumer's hands, the loader's hands), `nalloc` counts
    them; when the loader thread has exited every buffer it created has been destroyed and none is left anywhere. -/
theorem pipe_buffers {U T C : Nat} (hU : 0 < U) {s : Pipeline.Sys} (h : Pipeline.Reachable U T C s) :
    s.live = s.nalloc ∧ s.nextBuf = s.nalloc + s.freed ∧
    (s.lpc = .done → s.freed = s.nextBuf ∧ s.recycling = [] ∧ s.cheld = [] ∧ s.nalloc = 0) := by
  have i := (Pipeline.reachable_inv2 hU h).2
  refine ⟨i.count, i.created, fun hd => ?_⟩
  have hn := Pipeline.reachable_done h hd
  have := Pipeline.loader_exit_clean s i hd hn
  exact ⟨this.1, this.2.1, this.2.2, hn⟩

/-- non-vacuity: 3 chunks through 2 unpackers, two consumers; chunk 0 and 1 returned in order -/
example : ∃ s, Pipeline.run (Pipeline.Sys.create 2 3 2)
    [.loader, .loader, .loader, .unpacker 0, .loader, .loader, .loader, .unpacker 1, .unpacker 0, .read 7, .unpacker 1, .read 8, .recycle 7 0 0]
      = some s ∧ s.returned = [0, 1] ∧ s.cheld = [(8, (1, 1))] ∧ s.recycling = [0] := by
  refine ⟨_, rfl, ?_, ?_, ?_⟩ <;> decide

/-- **The threaded reader delivers the database, from bytes, for every schedule.** Let `out` be the chunks of the byte-level
    read (`dsq_bytes_round_trip`) and `s` any state the pipeline model reaches - any number `U ≥ 1` of unpackers, any number of
    consumers, any interleaving - on a database of `out.length` chunks. Then the chunks `esl_dsqdata_Read` has handed out so
    far are, in `nchunk` order, the first `s.nchunk` chunks - their records are a prefix of `db` - and once any consumer has
    been told `eslEOF` they are all of them: the concatenation of their records is exactly `db`. -/
theorem dsq_threaded_read_is_database {U C : Nat} (hU : 0 < U) (amino : Bool) (db : List Dsqdata.SeqRec) (maxseq : Nat)
    (maxpacket : Int) (out : List (Dsqdata.BChunk × List Dsqdata.SeqRec)) (ht : Dsqdata.Tiles amino db maxseq maxpacket 0 out)
    {s : Pipeline.Sys} (h : Pipeline.Reachable U out.length C s) :
    (s.returned.flatMap fun k => (out.getD k Dsqdata.noChunk).2) = (out.take s.nchunk).flatMap (·.2) ∧
    (s.eofs ≠ [] → (s.returned.flatMap fun k => (out.getD k Dsqdata.noChunk).2) = db) := by
  have hT := Pipeline.reachable_T h
  have hord := pipe_order hU h
  refine ⟨?_, fun he => ?_⟩
  · rw [hord.1]; exact Dsqdata.range_flatMap_take out _ s.nchunk (by rw [← hT]; exact hord.2)
  · rw [pipe_eof_after_all hU h he, hT, Dsqdata.range_flatMap_take out _ out.length (Nat.le_refl _), List.take_length]
    simpa using Dsqdata.tiles_flatten_db amino db maxseq maxpacket out 0 ht

/-- **`read_written_database`: Write → four files → Open → threaded Read, for every database, every chunk limits, every
    schedule.** For every database `db` of well-formed records (any number incl. 0, lengths incl. 0, every residue code the
    packers accept (≤ 30), names / accessions / descriptions any NUL-free bytes, any 32-bit taxonomy id), every tag, every
    `chunk_maxseq ≥ 1` and `chunk_maxpacket` that holds the longest packed sequence (the documented minimum), every number of
    unpackers `U ≥ 1` and of consumers: `esl_dsqdata_Write` produces the four byte strings `f`; `esl_dsqdata_Open` accepts
    them; the byte-level loader and unpacker deliver chunks `out` whose records, chunk by chunk, are `db` in order (`Tiles`:
    chunk `j` starts at record `Σ_{k<j} N_k`, `1 ≤ N ≤ maxseq`, `pn ≤ maxpacket`), the loader then meets end of data; and in
    EVERY state `s` the pipeline reaches under ANY interleaving, what `esl_dsqdata_Read` has handed out so far is the records of
    the first `s.nchunk` chunks - a prefix of `db`, each record once with its own metadata - and as soon as any consumer has
    been told `eslEOF` it is exactly `db`. -/
theorem read_written_database {U C : Nat} (hU : 0 < U) (tag alphatype : Nat) (fname fmt : List UInt8) (db : List Dsqdata.SeqRec)
    (maxseq : Nat) (maxpacket : Int) (hty : alphatype = 1 ∨ alphatype = 2 ∨ alphatype = 3) (hwf : ∀ r ∈ db, r.Wf)
    (hlen : ∀ r ∈ db, r.dsq.length < 6 * Dsqdata.MAXPACKET) (hms : 1 ≤ maxseq)
    (hfit : ∀ r ∈ db, ((Dsqdata.pk (alphatype == 3) r.dsq).length : Int) ≤ maxpacket)
    (h1 : (db.map fun r => (Dsqdata.pk (alphatype == 3) r.dsq).length).sum < 2 ^ 63)
    (h2 : (db.map fun r => (Dsqdata.encodeMeta (Dsqdata.metaOf r)).length).sum < 2 ^ 63)
    (expect : Option Nat) (hexp : expect = none ∨ expect = some alphatype) :
    ∃ f o out, Dsqdata.writeDb tag alphatype fname fmt db = .ok f ∧ Dsqdata.openDb expect f = .ok o ∧
      Dsqdata.readDb maxseq maxpacket o = some out ∧ out.flatMap (·.2) = db ∧
      Dsqdata.Tiles (alphatype == 3) db maxseq maxpacket 0 out ∧
      ∀ s : Pipeline.Sys, Pipeline.Reachable U out.length C s →
        (s.returned.flatMap fun k => (out.getD k Dsqdata.noChunk).2) = (out.take s.nchunk).flatMap (·.2) ∧
        (∃ rest, db = ((out.take s.nchunk).flatMap (·.2)) ++ rest) ∧
        (s.eofs ≠ [] → (s.returned.flatMap fun k => (out.getD k Dsqdata.noChunk).2) = db) := by
  obtain ⟨f, o, out, a, b, c, d, e⟩ := dsq_bytes_round_trip tag alphatype fname fmt db maxseq maxpacket hty hwf hlen hms hfit h1 h2
    expect hexp
  refine ⟨f, o, out, a, b, c, d, e, fun s hs => ?_⟩
  have t := dsq_threaded_read_is_database hU (alphatype == 3) db maxseq maxpacket out e hs
  refine ⟨t.1, ⟨(out.drop s.nchunk).flatMap (·.2), ?_⟩, t.2⟩
  rw [← List.flatMap_append, List.take_append_drop]; exact d.symm

/-- non-vacuity of `read_written_database`: the two-record DNA database `demoDb` (a taxonomy id with high bytes, an empty
    sequence), one record per chunk, satisfies every hypothesis -/
example : (∀ r ∈ demoDb, r.dsq.length < 6 * Dsqdata.MAXPACKET) ∧ (∀ r ∈ demoDb, ((Dsqdata.pk ((2 : Nat) == 3) r.dsq).length : Int) ≤ 4) ∧
    (demoDb.map fun r => (Dsqdata.pk ((2 : Nat) == 3) r.dsq).length).sum < 2 ^ 63 ∧
    (demoDb.map fun r => (Dsqdata.encodeMeta (Dsqdata.metaOf r)).length).sum < 2 ^ 63 := by
  refine ⟨?_, ?_, by decide +kernel, by decide +kernel⟩
  · intro r hr
    simp only [demoDb, List.mem_cons, List.not_mem_nil, or_false] at hr
    rcases hr with rfl | rfl <;> decide
  · intro r hr
    simp only [demoDb, List.mem_cons, List.not_mem_nil, or_false] at hr
    rcases hr with rfl | rfl <;> decide +kernel

/-! ### ownership and lock discipline (what stands in for data-race freedom in the interleaving model) -/

/-- **`chunk_ownership_exclusive`.** In every state the pipeline reaches, under any interleaving: every chunk buffer `b` has
    at most one owner among {the loader, `inbox[u]`, unpacker `u`, `outbox[u]`, consumer `c`, the recycling stack}
    (`Sys.owners` lists them by name); a buffer that has not been created yet has none; and the buffers that have an owner are
    exactly the created-and-not-yet-destroyed ones (`live = nalloc`, `nextBuf = nalloc + freed`). So a chunk's contents - touched
    outside any mutex only by the thread that holds it - never have two parties. -/
theorem chunk_ownership_exclusive {U T C : Nat} (hU : 0 < U) {s : Pipeline.Sys} (h : Pipeline.Reachable U T C s) (b : Nat) :
    (s.owners b).length ≤ 1 ∧ (s.nextBuf ≤ b → s.owners b = []) ∧ s.live = s.nalloc ∧ s.nextBuf = s.nalloc + s.freed := by
  have o := Pipeline.reachable_own hU h
  have i := Pipeline.reachable_inv hU h
  have i2 := (Pipeline.reachable_inv2 hU h).2
  have hl := Pipeline.owners_length s b i.len
  refine ⟨by rw [hl]; exact o.excl b, fun hb => ?_, i2.count, i2.created⟩
  have := o.fresh b hb
  rw [← hl] at this
  exact List.eq_nil_of_length_eq_zero this

/-- **`pipe_lock_discipline`.** For every step `l` the pipeline takes from a reachable state `s`: a shared field of
    `ESL_DSQDATA` (`inbox[u]`/`inbox_eod[u]`, `outbox[u]`/`outbox_eod[u]`, `nchunk`, `recycling`) changes only if the critical
    section the step models holds the mutex guarding it (`Pipeline.held s l` - the harness checks on every observed region that
    the executing thread really holds it); thread-private variables (the loader's program counter / chunk in hand / counters,
    unpacker `u`'s program counter / chunk in hand) change only in steps of their own thread. -/
theorem pipe_lock_discipline {U T C : Nat} (hU : 0 < U) {s s' : Pipeline.Sys} (h : Pipeline.Reachable U T C s) (l : Pipeline.Label)
    (hs : Pipeline.step s l = some s') :
    Pipeline.Frame s s' (Pipeline.held s l) ∧
    (l ≠ .loader → s'.lpc = s.lpc ∧ s'.nchunkL = s.nchunkL ∧ s'.nalloc = s.nalloc) ∧
    (∀ u, l ≠ .unpacker u → (s'.lane u).upc = (s.lane u).upc) :=
  let i := Pipeline.reachable_inv hU h
  ⟨Pipeline.step_frame s s' l i hs, Pipeline.step_private s s' l i hs⟩

/-- **`pipe_wait_conditions_guarded` (reads).** The conditions of the `while (…) pthread_cond_wait(…)` loops - loader: "no buffer on
    the recycling stack" / "`inbox[u]` still full"; unpacker: "`inbox[u]` empty and not EOD" / "`outbox[u]` still full"; `Read`:
    "`outbox[u]` empty and not EOD" with `u = nchunk % n_unpackers` - are functions of the acting thread's private variables and
    of the shared fields guarded by the mutexes the step holds: two states that agree on those (`AgreeOn (held s l)`) but differ
    arbitrarily in every other shared field give the same held set and the same condition (the locality theorems below extend this to
    every read of a step). -/
theorem pipe_wait_conditions_guarded (s t : Pipeline.Sys) (l : Pipeline.Label) (h : Pipeline.AgreeOn (Pipeline.held s l) s t) :
    Pipeline.held t l = Pipeline.held s l ∧
    (l = .loader → Pipeline.loaderBlocked t = Pipeline.loaderBlocked s) ∧
    (∀ u, l = .unpacker u → Pipeline.unpBlocked t u = Pipeline.unpBlocked s u) ∧
    ((∃ c, l = .read c) ∨ l = .readWake → Pipeline.readBlocked t = Pipeline.readBlocked s) :=
  Pipeline.wait_condition_guarded s t l h

/-- **`pipe_lane_local` (reads and writes).** A step neither reads nor writes any box of a lane other than the one its critical
    section works on (`Pipeline.actsOn s l`: the lane of `inbox_mutex[u]` / `outbox_mutex[u]` it holds; none for thread-local steps
    and for the recycling stack): overwriting the WHOLE lane `v` - `inbox[v]`, `inbox_eod[v]`, `outbox[v]`, `outbox_eod[v]`, even
    unpacker `v`'s private state - with arbitrary contents `a` before the step gives the same result as overwriting it after the
    step. So what another thread does to lane `v` under lane `v`'s mutexes can neither influence nor be disturbed by the step. -/
theorem pipe_lane_local (s : Pipeline.Sys) (l : Pipeline.Label) (v : Nat) (a : Pipeline.Lane) (hv : v < s.lanes.length)
    (h : Pipeline.actsOn s l ≠ some v) :
    Pipeline.step (s.setLane v a) l = (Pipeline.step s l).map (·.setLane v a) :=
  Pipeline.step_lane_local s l v a hv h

/-- **`pipe_recycling_nchunk_local` (reads and writes).** The recycling stack is read and written only by steps holding
    `recycling_mutex`, the consumer-shared counter `nchunk` only by steps holding `nchunk_mutex`: every other step commutes with
    an arbitrary change of the field (for `nchunk`: while no consumer sleeps inside `Read` - a sleeping consumer keeps
    `nchunk_mutex`, so nobody else can change the counter then; the model's `pthread_cond_signal(&outbox_cv[u])` consults it only
    to locate that sleeper). With `pipe_lane_local`, `pipe_wait_conditions_guarded`, the write frame of `pipe_lock_discipline`
    and `pipe_half_lane_local` this is the read side of the lock discipline. -/
theorem pipe_recycling_nchunk_local (s : Pipeline.Sys) (l : Pipeline.Label) :
    (∀ R, Pipeline.Mutex.recycling ∉ Pipeline.held s l →
        Pipeline.step (s.setRecycling R) l = (Pipeline.step s l).map (·.setRecycling R)) ∧
    (∀ n, Pipeline.Mutex.nchunk ∉ Pipeline.held s l → s.reader = none →
        Pipeline.step (s.setNchunk n) l = (Pipeline.step s l).map (·.setNchunk n)) :=
  ⟨fun R h => Pipeline.step_recycling_local s l R h, fun n h hr => Pipeline.step_nchunk_local s l n h hr⟩

/-- **`pipe_half_lane_local` (reads and writes).** Inside the lane `u` its critical section works on, a step that holds
    `inbox_mutex[u]` only (loader putting a chunk / setting EOD, unpacker taking a chunk) neither reads nor writes `outbox[u]` /
    `outbox_eod[u]`, and a step that holds `outbox_mutex[u]` only (unpacker delivering, `Read`) neither reads nor writes
    `inbox[u]` / `inbox_eod[u]`: it commutes with an arbitrary change of the half it does not hold. Together with
    `pipe_lane_local` (other lanes), `pipe_recycling_nchunk_local` and the write frame: EVERY access of a step to a shared field
    of `ESL_DSQDATA` - read or write - is to a field guarded by a mutex the step holds. -/
theorem pipe_half_lane_local (s : Pipeline.Sys) (l : Pipeline.Label) (u : Nat) (hu : u < s.lanes.length)
    (ha : Pipeline.actsOn s l = some u) :
    (∀ ob oe, Pipeline.Mutex.outbox u ∉ Pipeline.held s l →
        Pipeline.step (s.pokeOut u ob oe) l = (Pipeline.step s l).map (·.pokeOut u ob oe)) ∧
    (∀ ib ie, Pipeline.Mutex.inbox u ∉ Pipeline.held s l →
        Pipeline.step (s.pokeIn u ib ie) l = (Pipeline.step s l).map (·.pokeIn u ib ie)) :=
  Pipeline.step_half_lane_local s l u hu ha

/-- non-vacuity: with 2 unpackers the loader's put of chunk 0 works on lane 0, so lane 1 may hold anything -/
example : ∃ s, Pipeline.run (Pipeline.Sys.create 2 3 2) [.loader, .loader] = some s ∧ Pipeline.actsOn s .loader = some 0 ∧
    1 < s.lanes.length := ⟨_, rfl, by decide, by decide⟩

/-- non-vacuity of `pipe_lock_discipline`: the loader's third step (putting chunk 0 into inbox 0) holds exactly `inbox_mutex[0]`,
    a consumer's `Read` holds `nchunk_mutex` and the outbox mutex of the lane it reads, creating a chunk holds nothing -/
example : Pipeline.held (Pipeline.Sys.create 2 3 2) .loader = [] ∧
    (∃ s, Pipeline.run (Pipeline.Sys.create 2 3 2) [.loader, .loader] = some s ∧ Pipeline.held s .loader = [.inbox 0]) ∧
    Pipeline.held (Pipeline.Sys.create 2 3 2) (.read 7) = [.nchunk, .outbox 0] := by
  refine ⟨by decide, ⟨_, rfl, by decide⟩, by decide⟩

/-- non-vacuity: after the run of the example above, buffer 0 is on the recycling stack, buffer 1 with consumer 8, buffer 2
    in the loader's hands, buffer 3 does not exist yet -/
example : ∃ s, Pipeline.run (Pipeline.Sys.create 2 3 2)
    [.loader, .loader, .loader, .unpacker 0, .loader, .loader, .loader, .unpacker 1, .unpacker 0, .read 7, .unpacker 1, .read 8, .recycle 7 0 0, .loader, .loader]
      = some s ∧ s.owners 0 = [.recycling] ∧ s.owners 1 = [.consumer 8] ∧ s.owners 2 = [.loader] ∧ s.owners 3 = [] := by
  refine ⟨_, rfl, ?_, ?_, ?_, ?_⟩ <;> decide

/-! ### progress: a variant function, and liveness under weak fairness (strengthens `pipe_no_deadlock`) -/

/-- **The variant.** `Pipeline.phi` (the loader's remaining program - 6 per chunk still to load plus its cleanup phase -, per lane the
    unpacker's remaining work, 2 per chunk not yet returned by `Read`, 1 per chunk in a consumer's hands) never increases, and every
    step that is not a wait - the stepping thread was not blocked, a `Read` that returns a chunk, a `Recycle` - strictly decreases
    it. Hence from a state `s` at most `phi s` non-wait steps can ever happen, whatever the schedule. -/
theorem pipe_variant {U T C : Nat} (hU : 0 < U) {s s' : Pipeline.Sys} (h : Pipeline.Reachable U T C s) (l : Pipeline.Label)
    (hs : Pipeline.step s l = some s') :
    Pipeline.phi s' ≤ Pipeline.phi s ∧ (Pipeline.isProgress s l = true → Pipeline.phi s' < Pipeline.phi s) :=
  Pipeline.step_phi s s' l (Pipeline.reachable_inv hU h) hs

/-- **A wait is a stutter.** A step that is not progress (a blocked thread going to sleep or back to sleep after a spurious wake-up,
    a `Read` that sleeps or answers EOF) changes nothing that decides whether any thread can make progress. -/
theorem pipe_wait_is_stutter {U T C : Nat} (hU : 0 < U) {s s' : Pipeline.Sys} (h : Pipeline.Reachable U T C s) (l : Pipeline.Label)
    (hs : Pipeline.step s l = some s') (hp : Pipeline.isProgress s l = false) (t : Pipeline.Thread) :
    Pipeline.canProgress s' t = Pipeline.canProgress s t :=
  Pipeline.quiet_canProgress (Pipeline.step_quiet s s' l (Pipeline.reachable_inv hU h) hs hp) t

/-- **Progress is always possible until `Read` can answer the final EOF**: in every reachable state either all `T` chunks have been
    returned and `Read` answers `eslEOF` at once, or some thread - the loader, an unpacker, a consumer calling `Read` (it gets a
    chunk), a consumer recycling - has a step that is not a wait. -/
theorem pipe_progress_enabled {U T C : Nat} (hU : 0 < U) {s : Pipeline.Sys} (h : Pipeline.Reachable U T C s) :
    (s.nchunk = s.T ∧ Pipeline.readBlocked s = false) ∨ ∃ t, Pipeline.canProgress s t = true := by
  by_cases hg : Pipeline.Goal s
  · exact Or.inl hg
  · have i := Pipeline.reachable_inv2 hU h
    exact Or.inr (Pipeline.progress_enabled s i.1 i.2 (by rw [Pipeline.reachable_limit h]; omega) hg)

/-- **Liveness under weak fairness.** Take ANY infinite execution of the pipeline from a reachable state (`Pipeline.Exec`: a state and a
    label for every step index, each step a transition - any number `U ≥ 1` of unpackers, any number of consumers, spurious wake-ups,
    any interleaving) that is weakly fair (`Pipeline.WeaklyFair`: a thread - loader, unpacker `u`, "a consumer calls `Read`", "a consumer
    recycles" - that can make progress from some point on for ever does take a step). Then some state of it has every chunk returned
    by `esl_dsqdata_Read` (`nchunk = T`; by `pipe_order` these were chunks `0 … T-1`, each once, in order) and `Read` answers
    `eslEOF` at once (and by `pipe_eof_delivered` to every consumer that asks). No thread waits for ever. -/
theorem pipe_liveness_weak_fairness {U T C : Nat} (hU : 0 < U) (e : Pipeline.Exec U T C) (hf : Pipeline.WeaklyFair e) :
    ∃ j, (e.st j).nchunk = T ∧ Pipeline.readBlocked (e.st j) = false ∧ (e.st j).returned = List.range T := by
  obtain ⟨j, h1, h2⟩ := Pipeline.fair_reaches_eof hU e hf
  exact ⟨j, h1, h2, by rw [(pipe_order hU (e.reach j)).1, h1]⟩

/-- **The hypotheses of the liveness theorem are satisfiable**: a weakly fair infinite execution exists (`Pipeline.demoExec`: one chunk
    through one unpacker to one consumer - 15 steps - then `Read` answering EOF for ever); more generally any finite schedule that
    runs the pipeline to its quiescent end, followed by `Read` calls for ever, is one (`Pipeline.execOf_fair`). -/
theorem pipe_fair_execution_exists : ∃ e : Pipeline.Exec 1 1 1, Pipeline.WeaklyFair e ∧ (e.st 15).nchunk = 1 :=
  ⟨Pipeline.demoExec, Pipeline.demoExec_fair, by decide⟩

/-- non-vacuity of the variant: 3 chunks, 2 unpackers, 2 consumers start at `phi = 39`; the run of the example further up (13 steps,
    all of them progress) has brought it down by 13 -/
example : Pipeline.phi (Pipeline.Sys.create 2 3 2) = 39 := by decide
example : ∃ s, Pipeline.run (Pipeline.Sys.create 2 3 2)
    [.loader, .loader, .loader, .unpacker 0, .loader, .loader, .loader, .unpacker 1, .unpacker 0, .read 7, .unpacker 1, .read 8, .recycle 7 0 0]
      = some s ∧ Pipeline.phi s = 26 := by
  refine ⟨_, rfl, ?_⟩; decide

/-! ### a database whose `.dsqs` / `.dsqm` was cut short behind the header: the loader's fatal branch

`Pipeline.FReachable U T C F x`: the pipeline on a database whose index announces `T` chunks while the data of chunk number `F` is
missing (`F ≥ T`: nothing is missing): any interleaving as before, except that the loader's `fread` of chunk `F` comes back short →
`ESL_XEXCEPTION` → `esl_fatal` → `exit(1)` (`x.aborted`: the process, with every unpacker and consumer in it, has ended). -/

/-- **Up to the fatal error the pipeline behaves as on the intact database**: its state is a state the intact pipeline reaches, so
    order / exactly-once, lane discipline, ownership exclusivity, lock discipline and buffer conservation (all theorems above) hold
    in every state before - and at - the moment the process ends. -/
theorem pipe_cut_safety {U T C F : Nat} {x : Pipeline.FSys} (h : Pipeline.FReachable U T C F x) :
    Pipeline.Reachable U T C x.s ∧ x.failAt = F :=
  Pipeline.freachable_base h

/-- **A cut database is never passed off as a complete one.** With the data of chunk `F < T` missing, under every schedule: what
    `esl_dsqdata_Read` has handed out is chunks `0 … nchunk-1` in order with `nchunk ≤ F` (only chunks that were read completely),
    no consumer is ever told `eslEOF`, and the loader never reaches its clean-exit path. -/
theorem pipe_cut_never_eof {U T C F : Nat} (hU : 0 < U) (hF : F < T) {x : Pipeline.FSys} (h : Pipeline.FReachable U T C F x) :
    x.s.returned = List.range x.s.nchunk ∧ x.s.nchunk ≤ F ∧ x.s.eofs = [] ∧ x.s.lpc ≠ .done := by
  obtain ⟨hb, hf⟩ := Pipeline.freachable_base h
  have i := Pipeline.reachable_inv hU hb
  have j := Pipeline.freachable_cutInv hF h
  rw [hf] at j
  have hn : x.s.nchunk ≤ F := Nat.le_trans i.bounds.1 j.nl
  refine ⟨i.ret, hn, ?_, ?_⟩
  · apply Classical.byContradiction
    intro he
    have := i.eof he
    have hT := Pipeline.reachable_T hb
    omega
  · intro hd
    have := j.past
    rw [hd] at this
    simp [Pipeline.LPc.past] at this

/-- **No consumer is left waiting for ever (no deadlock), also on a cut database.** In every state reached, either the process has
    ended with the loader's fatal error, or some thread can take a step that is not a wait - exactly as in `pipe_no_deadlock` - and a
    step is enabled in the cut pipeline exactly when it is in the intact one (the abort takes the place of the loader's `fread` step,
    which is never a wait). So a consumer blocked in `esl_dsqdata_Read` always gets an answer: a chunk, `eslEOF`, or the end of
    the process by `esl_fatal`. -/
theorem pipe_cut_no_deadlock {U T C F : Nat} (hU : 0 < U) {x : Pipeline.FSys} (h : Pipeline.FReachable U T C F x) :
    x.aborted = true ∨
      ((Pipeline.loaderBlocked x.s = false ∨ (∃ u < x.s.U, Pipeline.unpBlocked x.s u = false) ∨ x.s.cheld ≠ [] ∨
          Pipeline.readBlocked x.s = false) ∧
       ∀ l, (Pipeline.fstep x l).isSome = (Pipeline.step x.s l).isSome) := by
  cases ha : x.aborted with
  | true => exact Or.inl rfl
  | false => exact Or.inr ⟨pipe_no_deadlock hU (Pipeline.freachable_base h).1, fun l => Pipeline.fstep_isSome x l ha⟩

/-- after the abort nobody moves: `exit(1)` has ended every thread -/
theorem pipe_cut_abort_final (x : Pipeline.FSys) (ha : x.aborted = true) (l : Pipeline.Label) : Pipeline.fstep x l = none := by
  simp [Pipeline.fstep, ha]

/-- non-vacuity: 3 chunks announced, the data of chunk 1 missing, 2 unpackers: chunk 0 is delivered, then the loader's `fread` of
    chunk 1 ends the process; nobody was told EOF. -/
example : ∃ x, Pipeline.frun ⟨Pipeline.Sys.create 2 3 2, 1, false⟩
    [.loader, .loader, .loader, .unpacker 0, .unpacker 0, .read 7, .loader, .loader] = some x ∧
      x.aborted = true ∧ x.s.returned = [0] ∧ x.s.eofs = [] := by
  refine ⟨_, rfl, ?_, ?_, ?_⟩ <;> decide

/-- the byte-level loader with its outcomes kept apart (`loaderIterX`, `loaderRunX`) is the loader of `read_written_database`:
    `loaderChunksB` answers exactly when the run ends with end of data, with the same chunks; a short `fread` of packets or
    metadata is the fatal outcome, never a chunk and never end of data. -/
theorem dsq_loader_outcomes (maxseq : Nat) (maxpacket : Int) (fuel : Nat) (st : Dsqdata.BState) :
    Dsqdata.loaderChunksB maxseq maxpacket fuel st =
      if (Dsqdata.loaderRunX maxseq maxpacket fuel st).2 = .eof then some (Dsqdata.loaderRunX maxseq maxpacket fuel st).1 else none :=
  Dsqdata.loaderRunX_B maxseq maxpacket fuel st

/-- **A written database with `.dsqs` or `.dsqm` cut short behind the header, at ANY byte.** Same hypotheses as
    `dsq_bytes_round_trip`; `out` = the chunks of the intact database. `esl_dsqdata_Open` has read the headers (`o`); of the packet file
    (resp. the metadata file) only the first `m` bytes behind the header exist. Then the byte-level loader (`loaderRunX`: its main
    loop with the outcomes kept apart) either does exactly what it does on the intact files - all chunks, then end of data: the cut
    was behind the last byte - or loads a PREFIX of the intact database's chunks, byte for byte the same chunks, and then stops in
    its fatal short-read branch (`expected w, got g`, `g < w`). It never delivers a wrong or partial chunk, never faults, and never
    reports end of data early: with `pipe_cut_never_eof` / `pipe_cut_no_deadlock` (`F` = the length of that prefix) no consumer is
    handed a damaged record, told EOF, or left waiting. -/
theorem dsq_cut_data_files (tag alphatype : Nat) (fname fmt : List UInt8) (db : List Dsqdata.SeqRec) (maxseq : Nat) (maxpacket : Int)
    (hty : alphatype = 1 ∨ alphatype = 2 ∨ alphatype = 3) (hwf : ∀ r ∈ db, r.Wf)
    (hlen : ∀ r ∈ db, r.dsq.length < 6 * Dsqdata.MAXPACKET) (hms : 1 ≤ maxseq)
    (hfit : ∀ r ∈ db, ((Dsqdata.pk (alphatype == 3) r.dsq).length : Int) ≤ maxpacket)
    (h1 : (db.map fun r => (Dsqdata.pk (alphatype == 3) r.dsq).length).sum < 2 ^ 63)
    (h2 : (db.map fun r => (Dsqdata.encodeMeta (Dsqdata.metaOf r)).length).sum < 2 ^ 63)
    (expect : Option Nat) (hexp : expect = none ∨ expect = some alphatype) (m : Nat) :
    ∃ f o out, Dsqdata.writeDb tag alphatype fname fmt db = .ok f ∧ Dsqdata.openDb expect f = .ok o ∧
      Dsqdata.readDb maxseq maxpacket o = some out ∧ out.flatMap (·.2) = db ∧
      Dsqdata.loaderRunX maxseq maxpacket (o.ifp.length / 16 + 2) (Dsqdata.BState.init o) = (out.map (·.1), .eof) ∧
      (Dsqdata.loaderRunX maxseq maxpacket (o.ifp.length / 16 + 2) { Dsqdata.BState.init o with sfp := o.sfp.take m } = (out.map (·.1), .eof) ∨
        ∃ k w g, (Dsqdata.loaderRunX maxseq maxpacket (o.ifp.length / 16 + 2) { Dsqdata.BState.init o with sfp := o.sfp.take m }).1
                    = (out.map (·.1)).take k ∧
          (Dsqdata.loaderRunX maxseq maxpacket (o.ifp.length / 16 + 2) { Dsqdata.BState.init o with sfp := o.sfp.take m }).2
                    = .fatalPackets w g ∧ g < w) ∧
      (Dsqdata.loaderRunX maxseq maxpacket (o.ifp.length / 16 + 2) { Dsqdata.BState.init o with mfp := o.mfp.take m } = (out.map (·.1), .eof) ∨
        ∃ k w g, (Dsqdata.loaderRunX maxseq maxpacket (o.ifp.length / 16 + 2) { Dsqdata.BState.init o with mfp := o.mfp.take m }).1
                    = (out.map (·.1)).take k ∧
          (Dsqdata.loaderRunX maxseq maxpacket (o.ifp.length / 16 + 2) { Dsqdata.BState.init o with mfp := o.mfp.take m }).2
                    = .fatalMeta w g ∧ g < w) := by
  obtain ⟨f, o, out, a, b, c, d, _⟩ := dsq_bytes_round_trip tag alphatype fname fmt db maxseq maxpacket hty hwf hlen hms hfit h1 h2 expect hexp
  have hrun := Dsqdata.readDb_runX maxseq maxpacket o out c
  refine ⟨f, o, out, a, b, c, d, hrun, ?_, ?_⟩
  · have := Dsqdata.cut_sfp_run maxseq maxpacket (o.ifp.length / 16 + 2) (Dsqdata.BState.init o) m
    rw [hrun] at this
    exact this
  · have := Dsqdata.cut_mfp_run maxseq maxpacket (o.ifp.length / 16 + 2) (Dsqdata.BState.init o) m
    rw [hrun] at this
    exact this

/-- **… from the cut FILES.** The same, starting at the bytes on disk: in the four files written for `db`, cut `.dsqs` (resp. `.dsqm`)
    `m` bytes behind its 8-byte header. `esl_dsqdata_Open` accepts the files (the headers are intact) and the loader then delivers the
    intact database's chunks `out` - all of them followed by end of data, or a prefix of them followed by its fatal short-read error. -/
theorem dsq_cut_files (tag alphatype : Nat) (fname fmt : List UInt8) (db : List Dsqdata.SeqRec) (maxseq : Nat) (maxpacket : Int)
    (hty : alphatype = 1 ∨ alphatype = 2 ∨ alphatype = 3) (hwf : ∀ r ∈ db, r.Wf)
    (hlen : ∀ r ∈ db, r.dsq.length < 6 * Dsqdata.MAXPACKET) (hms : 1 ≤ maxseq)
    (hfit : ∀ r ∈ db, ((Dsqdata.pk (alphatype == 3) r.dsq).length : Int) ≤ maxpacket)
    (h1 : (db.map fun r => (Dsqdata.pk (alphatype == 3) r.dsq).length).sum < 2 ^ 63)
    (h2 : (db.map fun r => (Dsqdata.encodeMeta (Dsqdata.metaOf r)).length).sum < 2 ^ 63)
    (expect : Option Nat) (hexp : expect = none ∨ expect = some alphatype) (m : Nat) :
    ∃ (f : Dsqdata.Files) (out : List (Dsqdata.BChunk × List Dsqdata.SeqRec)) (os om : Dsqdata.Opened),
      Dsqdata.writeDb tag alphatype fname fmt db = .ok f ∧ out.flatMap (·.2) = db ∧
      Dsqdata.openDb expect { f with seq := f.seq.take (8 + m) } = .ok os ∧
      (Dsqdata.loaderRunX maxseq maxpacket (os.ifp.length / 16 + 2) (Dsqdata.BState.init os) = (out.map (·.1), .eof) ∨
        ∃ k w g, (Dsqdata.loaderRunX maxseq maxpacket (os.ifp.length / 16 + 2) (Dsqdata.BState.init os)).1 = (out.map (·.1)).take k ∧
          (Dsqdata.loaderRunX maxseq maxpacket (os.ifp.length / 16 + 2) (Dsqdata.BState.init os)).2 = .fatalPackets w g ∧ g < w) ∧
      Dsqdata.openDb expect { f with mdat := f.mdat.take (8 + m) } = .ok om ∧
      (Dsqdata.loaderRunX maxseq maxpacket (om.ifp.length / 16 + 2) (Dsqdata.BState.init om) = (out.map (·.1), .eof) ∨
        ∃ k w g, (Dsqdata.loaderRunX maxseq maxpacket (om.ifp.length / 16 + 2) (Dsqdata.BState.init om)).1 = (out.map (·.1)).take k ∧
          (Dsqdata.loaderRunX maxseq maxpacket (om.ifp.length / 16 + 2) (Dsqdata.BState.init om)).2 = .fatalMeta w g ∧ g < w) := by
  obtain ⟨f, hw, hos, hom⟩ := Dsqdata.openDb_cut tag alphatype fname fmt db hty hlen expect hexp m
  obtain ⟨out, hr, ht⟩ := Dsqdata.readDb_written tag alphatype db maxseq maxpacket hwf hms hfit h1 h2
  have hrun := Dsqdata.readDb_runX maxseq maxpacket _ out hr
  have hdb : out.flatMap (·.2) = db := by simpa using Dsqdata.tiles_flatten_db _ db maxseq maxpacket out 0 ht
  refine ⟨f, out, _, _, hw, hdb, hos, ?_, hom, ?_⟩
  · have := Dsqdata.cut_sfp_run maxseq maxpacket ((Dsqdata.writtenHeader tag alphatype (alphatype == 3) db).ifp.length / 16 + 2)
      (Dsqdata.BState.init (Dsqdata.writtenHeader tag alphatype (alphatype == 3) db)) m
    rw [hrun] at this
    exact this
  · have := Dsqdata.cut_mfp_run maxseq maxpacket ((Dsqdata.writtenHeader tag alphatype (alphatype == 3) db).ifp.length / 16 + 2)
      (Dsqdata.BState.init (Dsqdata.writtenHeader tag alphatype (alphatype == 3) db)) m
    rw [hrun] at this
    exact this

/-- **The loader's end-of-data check (`i0 != dd->nseq`, fix 78cbf46) passes on every written database**: with the check in the model
    (`readDbX`) the read of what `esl_dsqdata_Write` wrote still ends with end of data - the count of sequences in the chunks is the
    index header's `nseq` - for every database of fewer than `2^64` records under the hypotheses of `read_written_database`. (A `.dsqi`
    cut behind its header fails the check: the loader's fatal branch, tied by the `dsqcut` runs.) -/
theorem dsq_written_passes_nseq_check (tag alphatype : Nat) (db : List Dsqdata.SeqRec) (maxseq : Nat) (maxpacket : Int)
    (hwf : ∀ r ∈ db, r.Wf) (hms : 1 ≤ maxseq)
    (hfit : ∀ r ∈ db, ((Dsqdata.pk (alphatype == 3) r.dsq).length : Int) ≤ maxpacket)
    (h1 : (db.map fun r => (Dsqdata.pk (alphatype == 3) r.dsq).length).sum < 2 ^ 63)
    (h2 : (db.map fun r => (Dsqdata.encodeMeta (Dsqdata.metaOf r)).length).sum < 2 ^ 63) (hn : db.length < 2 ^ 64) :
    (Dsqdata.readDbX maxseq maxpacket (Dsqdata.writtenHeader tag alphatype (alphatype == 3) db)).2 = .eof :=
  Dsqdata.readDbX_written tag alphatype db maxseq maxpacket hwf hms hfit h1 h2 hn

/-- **A cut `.dsqi` ends in the loader's fatal error - never in `eslEOF`** (round 6b; the repaired loader, 78cbf46). For ANY opened
    database `o` whose index file, behind its header, holds fewer complete 16-byte records than the header's `nseq` - whatever the
    other two files contain, whatever the chunk limits: the read (`readDbX`: the loader's main loop and its end-of-data check) does
    not end with end of data. Every sequence the loader loads was read as a complete index record (`loaderRunX_loaded_le`), so the
    count it compares with `nseq` at end of data falls short: `fatalIndex` - unless a short read of packets / metadata stopped it
    before. With `pipe_cut_never_eof` / `pipe_cut_no_deadlock`: no consumer is told EOF on a truncated index, and none waits for ever. -/
theorem dsq_cut_index_never_eof (maxseq : Nat) (maxpacket : Int) (o : Dsqdata.Opened) (h : o.ifp.length / 16 < o.nseq) :
    (Dsqdata.readDbX maxseq maxpacket o).2 ≠ .eof :=
  Dsqdata.cut_index_not_eof maxseq maxpacket o h

/-- … in particular the index written for `db` (fewer than `2^64` records) cut `m` bytes behind its header with `m / 16 < db.length`:
    at least one index record is incomplete or missing -/
theorem dsq_cut_written_index (tag alphatype : Nat) (db : List Dsqdata.SeqRec) (maxseq : Nat) (maxpacket : Int) (m : Nat)
    (hn : db.length < 2 ^ 64) (hm : m / 16 < db.length) :
    (Dsqdata.readDbX maxseq maxpacket
      { Dsqdata.writtenHeader tag alphatype (alphatype == 3) db with
          ifp := (Dsqdata.writtenHeader tag alphatype (alphatype == 3) db).ifp.take m }).2 ≠ .eof := by
  apply Dsqdata.cut_index_not_eof
  have h1 : ((Dsqdata.writtenHeader tag alphatype (alphatype == 3) db).ifp.take m).length ≤ m := by
    rw [List.length_take]; exact Nat.min_le_left _ _
  have h2 : (Dsqdata.writtenHeader tag alphatype (alphatype == 3) db).nseq = db.length := by
    simp only [Dsqdata.writtenHeader]; exact Nat.mod_eq_of_lt hn
  show ((Dsqdata.writtenHeader tag alphatype (alphatype == 3) db).ifp.take m).length / 16 < (Dsqdata.writtenHeader tag alphatype (alphatype == 3) db).nseq
  rw [h2]
  exact Nat.lt_of_le_of_lt (Nat.div_le_div_right h1) hm

/-- **… from the cut FILE.** In the four files `esl_dsqdata_Write` produces for `db`, cut `.dsqi` `m` bytes behind its 52-byte header so
    that at least one index record is incomplete or missing (`m / 16 < db.length`). `esl_dsqdata_Open` accepts the files - the header,
    `nseq` included, is intact - and the read never ends with end of data, for every chunk limit. -/
theorem dsq_cut_index_files (tag alphatype : Nat) (fname fmt : List UInt8) (db : List Dsqdata.SeqRec) (maxseq : Nat) (maxpacket : Int)
    (hty : alphatype = 1 ∨ alphatype = 2 ∨ alphatype = 3) (hlen : ∀ r ∈ db, r.dsq.length < 6 * Dsqdata.MAXPACKET)
    (expect : Option Nat) (hexp : expect = none ∨ expect = some alphatype) (m : Nat) (hn : db.length < 2 ^ 64) (hm : m / 16 < db.length) :
    ∃ (f : Dsqdata.Files) (o : Dsqdata.Opened), Dsqdata.writeDb tag alphatype fname fmt db = .ok f ∧
      Dsqdata.openDb expect { f with idx := f.idx.take (52 + m) } = .ok o ∧ (Dsqdata.readDbX maxseq maxpacket o).2 ≠ .eof := by
  obtain ⟨f, hw, ho⟩ := Dsqdata.openDb_cut_idx tag alphatype fname fmt db hty hlen expect hexp m
  exact ⟨f, _, hw, ho, dsq_cut_written_index tag alphatype db maxseq maxpacket m hn hm⟩

/-- … and a cut index does not: `demoDb` with the second index record missing ends in `fatalIndex 2 1` after the first chunk -/
example : (match Dsqdata.openDb none (match Dsqdata.writeDb 7 2 [] [] demoDb with
      | .ok f => { f with idx := f.idx.take (52 + 16) } | _ => ⟨[], [], [], []⟩) with
    | .ok o => ((Dsqdata.readDbX 1 4 o).2, (Dsqdata.readDbX 1 4 o).1.length)
    | _ => (.fault, 0)) = (.fatalIndex 2 1, 1) := by decide +kernel

/-- non-vacuity: `demoDb` (2 records, one per chunk): `.dsqs` cut 4 bytes behind its header - the first chunk's packets are
    incomplete - ends in the fatal branch with no chunk delivered; cut behind everything, both chunks and end of data -/
example : (match Dsqdata.openDb none (match Dsqdata.writeDb 7 2 [] [] demoDb with | .ok f => f | _ => ⟨[], [], [], []⟩) with
    | .ok o => ((Dsqdata.loaderRunX 1 4 5 { Dsqdata.BState.init o with sfp := o.sfp.take 3 }).2.isFatal,
                (Dsqdata.loaderRunX 1 4 5 { Dsqdata.BState.init o with sfp := o.sfp.take 3 }).1.length,
                (Dsqdata.loaderRunX 1 4 5 { Dsqdata.BState.init o with sfp := o.sfp.take 1000 }).2,
                (Dsqdata.loaderRunX 1 4 5 { Dsqdata.BState.init o with sfp := o.sfp.take 1000 }).1.length)
    | _ => (false, 0, .fault, 0)) = (true, 0, .eof, 2) := by decide +kernel
end pipeline

end EaselModel.Props.C12
