import EaselModel.Pipeline.Model
/-! Basic lemmas: lane access after `setLane`, and the fact that signals only touch wait flags. -/
namespace EaselModel.Pipeline

theorem lane_setLane (s : Sys) (u v : Nat) (l : Lane) (hu : u < s.lanes.length) :
    (s.setLane u l).lane v = if v = u then l else s.lane v := by
  simp only [Sys.lane, Sys.setLane, List.getD_eq_getElem?_getD, List.getElem?_set]
  by_cases h : u = v
  · subst h; simp [hu]
  · simp [h, Ne.symm h]

@[simp] theorem setLane_lanes_length (s : Sys) (u : Nat) (l : Lane) : (s.setLane u l).lanes.length = s.lanes.length := by
  simp [Sys.setLane]

@[simp] theorem setLane_U (s : Sys) (u : Nat) (l : Lane) : (s.setLane u l).U = s.U := rfl
@[simp] theorem setLane_T (s : Sys) (u : Nat) (l : Lane) : (s.setLane u l).T = s.T := rfl
@[simp] theorem setLane_limit (s : Sys) (u : Nat) (l : Lane) : (s.setLane u l).limit = s.limit := rfl
@[simp] theorem setLane_nchunk (s : Sys) (u : Nat) (l : Lane) : (s.setLane u l).nchunk = s.nchunk := rfl
@[simp] theorem setLane_recycling (s : Sys) (u : Nat) (l : Lane) : (s.setLane u l).recycling = s.recycling := rfl
@[simp] theorem setLane_lpc (s : Sys) (u : Nat) (l : Lane) : (s.setLane u l).lpc = s.lpc := rfl
@[simp] theorem setLane_lwait (s : Sys) (u : Nat) (l : Lane) : (s.setLane u l).lwait = s.lwait := rfl
@[simp] theorem setLane_nchunkL (s : Sys) (u : Nat) (l : Lane) : (s.setLane u l).nchunkL = s.nchunkL := rfl
@[simp] theorem setLane_nalloc (s : Sys) (u : Nat) (l : Lane) : (s.setLane u l).nalloc = s.nalloc := rfl
@[simp] theorem setLane_nextBuf (s : Sys) (u : Nat) (l : Lane) : (s.setLane u l).nextBuf = s.nextBuf := rfl
@[simp] theorem setLane_freed (s : Sys) (u : Nat) (l : Lane) : (s.setLane u l).freed = s.freed := rfl
@[simp] theorem setLane_reader (s : Sys) (u : Nat) (l : Lane) : (s.setLane u l).reader = s.reader := rfl
@[simp] theorem setLane_rsig (s : Sys) (u : Nat) (l : Lane) : (s.setLane u l).rsig = s.rsig := rfl
@[simp] theorem setLane_cheld (s : Sys) (u : Nat) (l : Lane) : (s.setLane u l).cheld = s.cheld := rfl
@[simp] theorem setLane_returned (s : Sys) (u : Nat) (l : Lane) : (s.setLane u l).returned = s.returned := rfl
@[simp] theorem setLane_eofs (s : Sys) (u : Nat) (l : Lane) : (s.setLane u l).eofs = s.eofs := rfl

/-- the part of a lane that is not a wait flag -/
def Lane.core (l : Lane) : Option Chunk × Bool × Option Chunk × Bool × UPc := (l.inbox, l.inEod, l.outbox, l.outEod, l.upc)

/-- everything in the state except the wait / signalled flags -/
structure SameCore (s s' : Sys) : Prop where
  U : s'.U = s.U
  T : s'.T = s.T
  len : s'.lanes.length = s.lanes.length
  lane : ∀ v, (s'.lane v).core = (s.lane v).core
  nchunk : s'.nchunk = s.nchunk
  lpc : s'.lpc = s.lpc
  nchunkL : s'.nchunkL = s.nchunkL
  returned : s'.returned = s.returned
  eofs : s'.eofs = s.eofs

theorem SameCore.refl (s : Sys) : SameCore s s :=
  ⟨rfl, rfl, rfl, fun _ => rfl, rfl, rfl, rfl, rfl, rfl⟩

theorem sameCore_setUwait (s : Sys) (u : Nat) (w : Option Bool) (hu : u < s.lanes.length) :
    SameCore s (s.setLane u { s.lane u with uwait := w }) := by
  refine ⟨rfl, rfl, by simp, ?_, rfl, rfl, rfl, rfl, rfl⟩
  intro v
  rw [lane_setLane _ _ _ _ hu]
  split
  · subst_vars; rfl
  · rfl

theorem SameCore.trans {a b c : Sys} (h1 : SameCore a b) (h2 : SameCore b c) : SameCore a c :=
  ⟨h2.U.trans h1.U, h2.T.trans h1.T, h2.len.trans h1.len, fun v => (h2.lane v).trans (h1.lane v),
   h2.nchunk.trans h1.nchunk, h2.lpc.trans h1.lpc, h2.nchunkL.trans h1.nchunkL,
   h2.returned.trans h1.returned, h2.eofs.trans h1.eofs⟩

theorem sameCore_setLwait (s : Sys) (w : Option Bool) : SameCore s { s with lwait := w } :=
  ⟨rfl, rfl, rfl, fun _ => rfl, rfl, rfl, rfl, rfl, rfl⟩

theorem sameCore_setRsig (s : Sys) (w : Bool) : SameCore s { s with rsig := w } :=
  ⟨rfl, rfl, rfl, fun _ => rfl, rfl, rfl, rfl, rfl, rfl⟩

theorem sameCore_condUwait (s : Sys) (u : Nat) (c : Bool) (hu : u < s.lanes.length) :
    SameCore s (if c then s.setLane u { s.lane u with uwait := some true } else s) := by
  split
  · exact sameCore_setUwait s u _ hu
  · exact SameCore.refl s

theorem sameCore_signalInbox (s : Sys) (u : Nat) (hu : u < s.lanes.length) : SameCore s (signalInbox s u) := by
  unfold signalInbox
  simp only
  have h1 : SameCore s (if s.lwait.isSome && loaderOnInbox s u then { s with lwait := some true } else s) := by
    split
    · exact sameCore_setLwait s _
    · exact SameCore.refl s
  refine h1.trans (sameCore_condUwait _ u _ (by rw [h1.len]; exact hu))

theorem sameCore_signalOutbox (s : Sys) (u : Nat) (hu : u < s.lanes.length) : SameCore s (signalOutbox s u) := by
  unfold signalOutbox
  simp only
  have h1 : SameCore s (if s.reader.isSome && s.nchunk % s.U == u then { s with rsig := true } else s) := by
    split
    · exact sameCore_setRsig s _
    · exact SameCore.refl s
  refine h1.trans (sameCore_condUwait _ u _ (by rw [h1.len]; exact hu))

theorem sameCore_signalRecycling (s : Sys) : SameCore s (signalRecycling s) := by
  unfold signalRecycling
  split
  · split
    · exact sameCore_setLwait s _
    · exact SameCore.refl s
  · split
    · exact sameCore_setLwait s _
    · exact SameCore.refl s
  · exact SameCore.refl s

end EaselModel.Pipeline
