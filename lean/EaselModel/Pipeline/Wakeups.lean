import EaselModel.Pipeline.Progress
/-! No lost wake-up in the dsqdata pipeline: a thread asleep on a condition variable that has not been signalled since
    it went to sleep is still rightly waiting (its wait condition holds). -/
namespace EaselModel.Pipeline

structure WInv (s : Sys) : Prop where
  lw : s.lwait = some false → loaderBlocked s = true
  uw : ∀ u < s.U, (s.lane u).uwait = some false → unpBlocked s u = true
  rw : s.reader.isSome = true → s.rsig = false → readBlocked s = true

theorem lane_setLane' (σ s : Sys) (u v : Nat) (l : Lane) (h : σ.lanes = s.lanes) (hu : u < s.lanes.length) :
    (σ.setLane u l).lane v = if v = u then l else s.lane v := by
  have := lane_setLane σ u v l (by rw [h]; exact hu)
  rw [this]
  split
  · rfl
  · simp [Sys.lane, h]

/-! ### what the three predicates depend on -/

theorem unpBlocked_eq {s s' : Sys} (v : Nat) (h : (s'.lane v).core = (s.lane v).core) : unpBlocked s' v = unpBlocked s v := by
  simp only [Lane.core, Prod.mk.injEq] at h
  obtain ⟨h1, h2, h3, _, h5⟩ := h
  simp only [unpBlocked, h1, h2, h3, h5]

theorem readBlocked_eq {s s' : Sys} (hU : s'.U = s.U) (hn : s'.nchunk = s.nchunk)
    (h : (s'.lane (s.nchunk % s.U)).core = (s.lane (s.nchunk % s.U)).core) : readBlocked s' = readBlocked s := by
  simp only [Lane.core, Prod.mk.injEq] at h
  obtain ⟨_, _, h3, h4, _⟩ := h
  simp only [readBlocked, hU, hn, h3, h4]

theorem loaderBlocked_eq {s s' : Sys} (hU : s'.U = s.U) (hl : s'.lpc = s.lpc) (hn : s'.nalloc = s.nalloc)
    (hlim : s'.limit = s.limit) (hr : s'.recycling = s.recycling) (h : ∀ v, (s'.lane v).inbox = (s.lane v).inbox) :
    loaderBlocked s' = loaderBlocked s := by
  simp only [loaderBlocked, hU, hl, hn, hlim, hr, h]

theorem blocked_of_sameAll {s s' : Sys} (c : SameAll s s') :
    loaderBlocked s' = loaderBlocked s ∧ (∀ v, unpBlocked s' v = unpBlocked s v) ∧ readBlocked s' = readBlocked s := by
  have hin : ∀ v, (s'.lane v).inbox = (s.lane v).inbox := fun v => by
    have := c.core.lane v; simp [Lane.core] at this; exact this.1
  exact ⟨loaderBlocked_eq c.core.U c.core.lpc c.nalloc c.limit c.recycling hin,
         fun v => unpBlocked_eq v (c.core.lane v),
         readBlocked_eq c.core.U c.core.nchunk (c.core.lane _)⟩

/-! ### effect of the signals on the wait flags -/

theorem signalInbox_lwait (s : Sys) (u : Nat) :
    (signalInbox s u).lwait = if s.lwait.isSome && loaderOnInbox s u then some true else s.lwait := by
  unfold signalInbox; simp only; split <;> split <;> simp_all

theorem signalInbox_reader (s : Sys) (u : Nat) : (signalInbox s u).reader = s.reader ∧ (signalInbox s u).rsig = s.rsig := by
  unfold signalInbox; simp only; split <;> split <;> exact ⟨rfl, rfl⟩

theorem signalOutbox_lwait (s : Sys) (u : Nat) : (signalOutbox s u).lwait = s.lwait := by
  unfold signalOutbox; simp only; split <;> split <;> rfl

theorem signalOutbox_reader (s : Sys) (u : Nat) :
    (signalOutbox s u).reader = s.reader ∧
    (signalOutbox s u).rsig = (if s.reader.isSome && s.nchunk % s.U == u then true else s.rsig) := by
  unfold signalOutbox; simp only; split <;> split <;> simp_all

theorem signalRecycling_reader (s : Sys) : (signalRecycling s).reader = s.reader ∧ (signalRecycling s).rsig = s.rsig := by
  unfold signalRecycling; split <;> (try split) <;> exact ⟨rfl, rfl⟩

theorem signalRecycling_lane (s : Sys) (v : Nat) : (signalRecycling s).lane v = s.lane v := by
  unfold signalRecycling; split <;> (try split) <;> rfl

theorem signalRecycling_lwait (s : Sys) (h : (signalRecycling s).lwait = some false) :
    s.lwait = some false ∧ s.lpc ≠ .top ∧ s.lpc ≠ .drain := by
  unfold signalRecycling at h
  split at h
  · split at h
    · cases h
    · rename_i hn; simp at hn; rw [hn] at h; cases h
  · split at h
    · cases h
    · rename_i hn; simp at hn; rw [hn] at h; cases h
  · rename_i h1 h2
    exact ⟨h, fun e => h1 e, fun e => h2 e⟩

theorem uwait_condSet (s : Sys) (u v : Nat) (c : Bool) (hu : u < s.lanes.length) :
    ((if c then s.setLane u { s.lane u with uwait := some true } else s).lane v).uwait
      = if v = u ∧ c = true then some true else (s.lane v).uwait := by
  split
  · rename_i hc
    rw [lane_setLane _ _ _ _ hu]
    by_cases hv : v = u
    · subst hv; simp [hc]
    · simp [hv]
  · rename_i hc; simp [hc]

theorem signalInbox_uwait (s : Sys) (u v : Nat) (hu : u < s.lanes.length) :
    ((signalInbox s u).lane v).uwait
      = if v = u ∧ ((s.lane u).uwait.isSome && (s.lane u).upc == .get) = true then some true else (s.lane v).uwait := by
  unfold signalInbox
  simp only
  split
  · rw [uwait_condSet _ u v _ (by simpa using hu)]; rfl
  · rw [uwait_condSet _ u v _ hu]

theorem signalOutbox_uwait (s : Sys) (u v : Nat) (hu : u < s.lanes.length) :
    ((signalOutbox s u).lane v).uwait
      = if v = u ∧ ((s.lane u).uwait.isSome && (s.lane u).upc != .get) = true then some true else (s.lane v).uwait := by
  unfold signalOutbox
  simp only
  split
  · rw [uwait_condSet _ u v _ (by simpa using hu)]; rfl
  · rw [uwait_condSet _ u v _ hu]

/-! ### a signal repairs the invariant for exactly the waiters it addresses -/

/-- after `pthread_cond_signal(&inbox_cv[u])`: the loader (if it waits on inbox `u`) and unpacker `u` (if it waits at
    `get`) may have had their wait condition invalidated - they are now marked signalled -/
theorem winv_signalInbox (s : Sys) (u : Nat) (hu : u < s.lanes.length)
    (hL : s.lwait = some false → loaderBlocked s = true ∨ loaderOnInbox s u = true)
    (hU : ∀ v < s.U, (s.lane v).uwait = some false → unpBlocked s v = true ∨ (v = u ∧ (s.lane u).upc = .get))
    (hR : s.reader.isSome = true → s.rsig = false → readBlocked s = true) : WInv (signalInbox s u) := by
  obtain ⟨b1, b2, b3⟩ := blocked_of_sameAll (sameAll_signalInbox s u hu)
  have hUeq := (sameAll_signalInbox s u hu).core.U
  refine ⟨?_, ?_, ?_⟩
  · intro hw; rw [b1]; rw [signalInbox_lwait] at hw
    split at hw
    · cases hw
    · rename_i hc
      rcases hL hw with h | h
      · exact h
      · simp [hw, h] at hc
  · intro v hv hw; rw [hUeq] at hv; rw [b2]; rw [signalInbox_uwait _ _ _ hu] at hw
    split at hw
    · cases hw
    · rename_i hc
      rcases hU v hv hw with h | ⟨h1, h2⟩
      · exact h
      · subst h1; simp [hw, h2] at hc
  · intro h1 h2; rw [b3]; rw [(signalInbox_reader s u).1] at h1; rw [(signalInbox_reader s u).2] at h2; exact hR h1 h2

/-- after `pthread_cond_signal(&outbox_cv[u])`: unpacker `u` (waiting at `put`) and the consumer inside `Read` on
    lane `u` are marked signalled -/
theorem winv_signalOutbox (s : Sys) (u : Nat) (hu : u < s.lanes.length)
    (hL : s.lwait = some false → loaderBlocked s = true)
    (hU : ∀ v < s.U, (s.lane v).uwait = some false → unpBlocked s v = true ∨ (v = u ∧ (s.lane u).upc ≠ .get))
    (hR : s.reader.isSome = true → s.rsig = false → readBlocked s = true ∨ s.nchunk % s.U = u) : WInv (signalOutbox s u) := by
  obtain ⟨b1, b2, b3⟩ := blocked_of_sameAll (sameAll_signalOutbox s u hu)
  have hUeq := (sameAll_signalOutbox s u hu).core.U
  refine ⟨?_, ?_, ?_⟩
  · intro hw; rw [b1]; rw [signalOutbox_lwait] at hw; exact hL hw
  · intro v hv hw; rw [hUeq] at hv; rw [b2]; rw [signalOutbox_uwait _ _ _ hu] at hw
    split at hw
    · cases hw
    · rename_i hc
      rcases hU v hv hw with h | ⟨h1, h2⟩
      · exact h
      · subst h1; simp [hw, h2] at hc
  · intro h1 h2; rw [b3]
    rw [(signalOutbox_reader s u).1] at h1; rw [(signalOutbox_reader s u).2] at h2
    split at h2
    · cases h2
    · rename_i hc
      rcases hR h1 h2 with h | h
      · exact h
      · simp [h1, h] at hc

/-- after `pthread_cond_signal(&recycling_cv)`: the loader waiting at `top` / `drain` is marked signalled -/
theorem winv_signalRecycling (s : Sys)
    (hL : s.lwait = some false → loaderBlocked s = true ∨ s.lpc = .top ∨ s.lpc = .drain)
    (hU : ∀ v < s.U, (s.lane v).uwait = some false → unpBlocked s v = true)
    (hR : s.reader.isSome = true → s.rsig = false → readBlocked s = true) : WInv (signalRecycling s) := by
  obtain ⟨b1, b2, b3⟩ := blocked_of_sameAll (sameAll_signalRecycling s)
  have hUeq := (sameAll_signalRecycling s).core.U
  refine ⟨?_, ?_, ?_⟩
  · intro hw; rw [b1]
    obtain ⟨h1, h2, h3⟩ := signalRecycling_lwait s hw
    rcases hL h1 with h | h | h
    · exact h
    · exact absurd h h2
    · exact absurd h h3
  · intro v hv hw; rw [hUeq] at hv; rw [b2]; rw [signalRecycling_lane] at hw; exact hU v hv hw
  · intro h1 h2; rw [b3]; rw [(signalRecycling_reader s).1] at h1; rw [(signalRecycling_reader s).2] at h2; exact hR h1 h2

end EaselModel.Pipeline
