import EaselModel.Pipeline.Progress
/-! The number of chunks `T` of the database is a constant of the pipeline (same case analysis as `step_limit`). -/
namespace EaselModel.Pipeline

theorem T_signalInbox (s : Sys) (u : Nat) : (signalInbox s u).T = s.T := by
  unfold signalInbox; simp only; split <;> split <;> rfl
theorem T_signalOutbox (s : Sys) (u : Nat) : (signalOutbox s u).T = s.T := by
  unfold signalOutbox; simp only; split <;> split <;> rfl
theorem T_signalRecycling (s : Sys) : (signalRecycling s).T = s.T := by
  unfold signalRecycling; split <;> (try split) <;> rfl

theorem step_T (s s' : Sys) (l : Label) (hs : step s l = some s') : s'.T = s.T := by
  cases l with
  | loader =>
    simp only [step, stepLoader] at hs
    split at hs
    · split at hs
      · cases hs; rfl
      · split at hs <;> (cases hs; rfl)
    · split at hs <;> (cases hs; rfl)
    · split at hs
      · cases hs; rfl
      · cases hs; rw [T_signalInbox]; rfl
    · split at hs
      · cases hs; rfl
      · split at hs
        · cases hs; rfl
        · cases hs; rw [T_signalInbox]; rfl
    · split at hs
      · cases hs; rfl
      · split at hs <;> (cases hs; rfl)
    · cases hs
  | unpacker u =>
    simp only [step, stepUnpacker] at hs
    split at hs
    · cases hs
    · split at hs
      · split at hs
        · cases hs; rfl
        · cases hs; split
          · rw [T_signalInbox]; rfl
          · rfl
      · split at hs
        · cases hs; rfl
        · cases hs; rw [T_signalOutbox]; rfl
      · cases hs
  | read c =>
    simp only [step] at hs
    split at hs
    · cases hs
    · cases hs; unfold readBody; simp only; split
      · rfl
      · split
        · rw [T_signalOutbox]; rfl
        · rfl
  | readWake =>
    simp only [step] at hs
    split at hs
    · cases hs; unfold readBody; simp only; split
      · rfl
      · split
        · rw [T_signalOutbox]; rfl
        · rfl
    · cases hs
  | recycle c b k =>
    simp only [step] at hs
    split at hs
    · cases hs; rw [T_signalRecycling]
    · cases hs

theorem reachable_T {U T C : Nat} {s : Sys} (h : Reachable U T C s) : s.T = T := by
  induction h with
  | create => rfl
  | step _ hs ih => rw [step_T _ _ _ hs, ih]


end EaselModel.Pipeline
