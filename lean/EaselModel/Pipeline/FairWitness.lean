import EaselModel.Pipeline.Liveness
/-! # A weakly fair infinite execution exists (non-vacuity of `fair_reaches_eof`).

Any finite schedule that runs the pipeline to its quiescent end (loader and unpackers exited, every chunk returned and recycled),
followed by `esl_dsqdata_Read` calls of one consumer for ever (each answers EOF), is an infinite execution; it is weakly fair because
from the quiescent state on no thread can make progress any more. `demoExec`: 1 unpacker, 1 chunk, 1 consumer. -/
namespace EaselModel.Pipeline

/-- the state after `k` further `Read`s by consumer `c` that were answered EOF -/
def tailState (s : Sys) (c k : Nat) : Sys := { s with reader := none, eofs := List.replicate k c ++ s.eofs }

/-- nothing is left to do: `Read` answers EOF, nobody can make progress -/
structure Quiescent (s : Sys) : Prop where
  reader : s.reader = none
  eod : (s.lane (s.nchunk % s.U)).outEod = true
  out : (s.lane (s.nchunk % s.U)).outbox = none
  stuck : ∀ t, canProgress s t = false

theorem tailState_zero (s : Sys) (c : Nat) (h : s.reader = none) : tailState s c 0 = s := by
  cases s; simp only [tailState] at *; subst h; rfl

theorem tail_step (s : Sys) (c k : Nat) (h : Quiescent s) : step (tailState s c k) (.read c) = some (tailState s c (k + 1)) := by
  have e1 : (tailState s c k).reader = none := rfl
  have e2 : (tailState s c k).lane ((tailState s c k).nchunk % (tailState s c k).U) = s.lane (s.nchunk % s.U) := rfl
  simp only [step, e1, Option.isSome_none, Bool.false_eq_true, if_false, readBody, e2, h.eod, h.out, Option.isNone_none,
    Bool.not_true, Bool.false_and]
  rfl

theorem tail_canProgress (s : Sys) (c k : Nat) (t : Thread) : canProgress (tailState s c k) t = canProgress s t :=
  quiet_canProgress (s := s) (s' := tailState s c k) ⟨rfl, rfl, rfl, rfl, rfl, rfl, rfl, fun _ => rfl⟩ t

/-- states along a finite schedule -/
def runStates (s : Sys) : List Label → List Sys
  | [] => [s]
  | l :: ls => match step s l with
    | some s' => s :: runStates s' ls
    | none => [s]

theorem runStates_spec : ∀ (s : Sys) (ls : List Label) (sN : Sys), run s ls = some sN →
    (runStates s ls).length = ls.length + 1 ∧ (runStates s ls)[ls.length]? = some sN ∧
    ∀ i (hi : i < ls.length), ∃ a b, (runStates s ls)[i]? = some a ∧ (runStates s ls)[i + 1]? = some b ∧ step a ls[i] = some b
  | s, [], sN, h => by
    simp only [run, Option.some.injEq] at h; subst h
    exact ⟨rfl, rfl, fun i hi => absurd hi (Nat.not_lt_zero _)⟩
  | s, l :: ls, sN, h => by
    simp only [run] at h
    cases hs : step s l with
    | none => simp [hs] at h
    | some s' =>
      simp only [hs] at h
      obtain ⟨h1, h2, h3⟩ := runStates_spec s' ls sN h
      simp only [runStates, hs, List.length_cons]
      refine ⟨by omega, by simpa using h2, fun i hi => ?_⟩
      cases i with
      | zero =>
        refine ⟨s, s', rfl, ?_, by simpa using hs⟩
        cases ls with
        | nil => simp [runStates]
        | cons l2 ls2 =>
          simp only [runStates]
          split <;> simp
      | succ j =>
        obtain ⟨a, b, ha, hb, hst⟩ := h3 j (by simpa using hi)
        exact ⟨a, b, by simpa using ha, by simpa using hb, by simpa using hst⟩

/-- the infinite execution: the finite schedule `pre`, then `Read` by consumer `c` for ever -/
def stOf (s0 : Sys) (pre : List Label) (sN : Sys) (c : Nat) (i : Nat) : Sys :=
  if i < pre.length then (runStates s0 pre).getD i s0 else tailState sN c (i - pre.length)
def labOf (pre : List Label) (c : Nat) (i : Nat) : Label := if h : i < pre.length then pre[i] else .read c

theorem stOf_next (s0 : Sys) (pre : List Label) (sN : Sys) (c : Nat) (hrun : run s0 pre = some sN) (hq : Quiescent sN) (i : Nat) :
    step (stOf s0 pre sN c i) (labOf pre c i) = some (stOf s0 pre sN c (i + 1)) := by
  obtain ⟨hlen, hlast, hsteps⟩ := runStates_spec s0 pre sN hrun
  by_cases hi : i < pre.length
  · obtain ⟨a, b, ha, hb, hst⟩ := hsteps i hi
    have e1 : stOf s0 pre sN c i = a := by
      simp only [stOf, hi, if_true, List.getD_eq_getElem?_getD, ha, Option.getD_some]
    have e2 : labOf pre c i = pre[i] := by simp only [labOf, hi, dif_pos]
    have e3 : stOf s0 pre sN c (i + 1) = b := by
      by_cases hi1 : i + 1 < pre.length
      · simp only [stOf, hi1, if_true, List.getD_eq_getElem?_getD, hb, Option.getD_some]
      · have hN : i + 1 = pre.length := by omega
        have hbN : b = sN := by rw [hN, hlast] at hb; exact (Option.some.inj hb).symm
        have hirr : ¬ pre.length < pre.length := Nat.lt_irrefl _
        simp only [stOf, hN, hirr, if_false, Nat.sub_self]
        rw [tailState_zero sN c hq.reader, hbN]
    rw [e1, e2, e3]; exact hst
  · have e1 : stOf s0 pre sN c i = tailState sN c (i - pre.length) := by simp only [stOf, hi, if_false]
    have e2 : labOf pre c i = .read c := by simp only [labOf, hi, dif_neg, not_false_eq_true]
    have e3 : stOf s0 pre sN c (i + 1) = tailState sN c (i - pre.length + 1) := by
      have : ¬ i + 1 < pre.length := by omega
      simp only [stOf, this, if_false]
      congr 1; omega
    rw [e1, e2, e3]; exact tail_step sN c _ hq

/-- the execution, and its weak fairness -/
def execOf {U T C : Nat} (pre : List Label) (sN : Sys) (c : Nat) (hrun : run (Sys.create U T C) pre = some sN) (hq : Quiescent sN) :
    Exec U T C where
  st := stOf (Sys.create U T C) pre sN c
  lab := labOf pre c
  init := by
    have : stOf (Sys.create U T C) pre sN c 0 = Sys.create U T C := by
      by_cases h0 : 0 < pre.length
      · simp only [stOf, h0, if_true]
        cases pre with
        | nil => simp at h0
        | cons l ls => simp only [runStates]; split <;> rfl
      · have hp : pre = [] := List.eq_nil_of_length_eq_zero (by omega)
        subst hp
        simp only [run, Option.some.injEq] at hrun
        simp only [stOf, List.length_nil, Nat.lt_irrefl, if_false, Nat.sub_self]
        rw [tailState_zero sN c hq.reader, hrun]
    rw [this]; exact .create
  next := stOf_next _ pre sN c hrun hq

theorem execOf_fair {U T C : Nat} (pre : List Label) (sN : Sys) (c : Nat) (hrun : run (Sys.create U T C) pre = some sN)
    (hq : Quiescent sN) : WeaklyFair (execOf pre sN c hrun hq) := by
  intro t i hall
  exfalso
  have h := hall (max i pre.length) (Nat.le_max_left _ _)
  have hge : ¬ max i pre.length < pre.length := by
    have := Nat.le_max_right i pre.length; omega
  have e : (execOf pre sN c hrun hq).st (max i pre.length) = tailState sN c (max i pre.length - pre.length) := by
    show stOf _ pre sN c _ = _
    simp only [stOf, hge, if_false]
  rw [e, tail_canProgress, hq.stuck t] at h
  cases h

/-! ### the concrete witness: 1 unpacker, 1 chunk, 1 consumer -/

def demoPre : List Label :=
  [.loader, .loader, .loader, .unpacker 0, .unpacker 0, .read 0, .recycle 0 0 0, .loader, .loader, .loader, .loader, .loader, .loader,
   .unpacker 0, .unpacker 0]

def demoEnd : Sys := (run (Sys.create 1 1 1) demoPre).getD (Sys.create 1 1 1)

theorem demo_run : run (Sys.create 1 1 1) demoPre = some demoEnd := by
  have h : (run (Sys.create 1 1 1) demoPre).isSome = true := by decide
  unfold demoEnd
  cases hr : run (Sys.create 1 1 1) demoPre with
  | none => rw [hr] at h; cases h
  | some s => rfl

theorem demo_quiescent : Quiescent demoEnd := by
  refine ⟨by decide, by decide, by decide, fun t => ?_⟩
  cases t with
  | loader => decide
  | reader => decide
  | recycler => decide
  | unp u =>
    cases u with
    | zero => decide
    | succ v =>
      have hl : demoEnd.lane (v + 1) = {} := by
        have hlen : demoEnd.lanes.length = 1 := by decide
        simp only [Sys.lane, List.getD_eq_getElem?_getD]
        rw [List.getElem?_eq_none (by omega)]; rfl
      simp only [canProgress, unpBlocked, hl]
      rfl

/-- a weakly fair infinite execution: one chunk through one unpacker to one consumer, then EOF for ever -/
def demoExec : Exec 1 1 1 := execOf demoPre demoEnd 0 demo_run demo_quiescent
theorem demoExec_fair : WeaklyFair demoExec := execOf_fair demoPre demoEnd 0 demo_run demo_quiescent

end EaselModel.Pipeline
