import EaselModel.Pipeline.Progress
import EaselModel.Pipeline.ConstT
/-! # The pipeline on a database whose `.dsqs` / `.dsqm` was cut short: the loader's error branch as a transition.

`dsqdata_loader_thread`: `nread = fread(chu->psq, …); if (nread != chu->pn) ESL_XEXCEPTION(eslEOD, …)` (and the same for the
metadata) → `ERROR:` → `esl_fatal("… dsqdata loader thread failed: unrecoverable")` → `exit(1)`: the whole process ends, with
every unpacker and consumer in it (the comment at the `ERROR:` label: "we treat all exceptions as fatal … the other threads
will block waiting for chunks to come from the loader, if the loader fails, we would need a back channel").

`FSys` = the pipeline `Sys` + the number `failAt` of the chunk whose data is missing (`Dsqdata.loaderRunX` computes it from the
bytes: the number of chunks loaded before `fatalPackets` / `fatalMeta`) + `aborted`. The loader's local step "`fread` the next
chunk" (`lpc = .haveBuf _`) aborts instead when the chunk number is `failAt`; after the abort nobody steps any more. -/
namespace EaselModel.Pipeline

structure FSys where
  s : Sys
  failAt : Nat
  aborted : Bool

/-- the loader is about to `fread` the chunk whose data is missing -/
def FSys.hitsCut (x : FSys) : Bool :=
  match x.s.lpc with
  | .haveBuf _ => decide (x.s.nchunkL = x.failAt) && decide (x.s.nchunkL < x.s.T)
  | _ => false

def fstep (x : FSys) (l : Label) : Option FSys :=
  if x.aborted then none
  else if l = .loader ∧ x.hitsCut = true then some { x with aborted := true }
  else (step x.s l).map fun s' => { x with s := s' }

def frun (x : FSys) : List Label → Option FSys
  | [] => some x
  | l :: ls => match fstep x l with
    | some x' => frun x' ls
    | none => none

inductive FReachable (U T C F : Nat) : FSys → Prop
  | create : FReachable U T C F ⟨Sys.create U T C, F, false⟩
  | step {x x' : FSys} {l : Label} : FReachable U T C F x → fstep x l = some x' → FReachable U T C F x'

/-- what one `fstep` is: the abort (state untouched), or a step of the pipeline -/
theorem fstep_cases {x x' : FSys} {l : Label} (h : fstep x l = some x') :
    x.aborted = false ∧ x'.failAt = x.failAt ∧
      ((l = .loader ∧ x.hitsCut = true ∧ x'.s = x.s ∧ x'.aborted = true) ∨
       (¬ (l = .loader ∧ x.hitsCut = true) ∧ step x.s l = some x'.s ∧ x'.aborted = false)) := by
  unfold fstep at h
  by_cases ha : x.aborted = true
  · simp [ha] at h
  · have ha' : x.aborted = false := by simpa using ha
    simp only [ha', Bool.false_eq_true, if_false] at h
    by_cases hc : l = .loader ∧ x.hitsCut = true
    · rw [if_pos hc] at h
      cases h
      exact ⟨ha', rfl, Or.inl ⟨hc.1, hc.2, rfl, rfl⟩⟩
    · rw [if_neg hc] at h
      cases hs : step x.s l with
      | none => simp [hs] at h
      | some s' =>
        simp only [hs, Option.map_some, Option.some.injEq] at h
        subst h
        exact ⟨ha', rfl, Or.inr ⟨hc, rfl, rfl⟩⟩

/-- the pipeline component of a reachable state is a reachable state of the pipeline: every safety theorem of the intact
    pipeline (order, lanes, ownership, lock discipline, buffers) holds up to the moment the process ends -/
theorem freachable_base {U T C F : Nat} {x : FSys} (h : FReachable U T C F x) : Reachable U T C x.s ∧ x.failAt = F := by
  induction h with
  | create => exact ⟨.create, rfl⟩
  | step _ hs ih =>
    obtain ⟨_, hf, hc⟩ := fstep_cases hs
    rcases hc with ⟨_, _, he, _⟩ | ⟨_, hst, _⟩
    · rw [he, hf]; exact ih
    · exact ⟨.step ih.1 hst, by rw [hf]; exact ih.2⟩

/-! ### steps other than the loader's leave the loader's private variables alone -/

theorem lpcT_signalInbox (s : Sys) (u : Nat) : (signalInbox s u).lpc = s.lpc ∧ (signalInbox s u).nchunkL = s.nchunkL ∧ (signalInbox s u).T = s.T := by
  unfold signalInbox; simp only; split <;> split <;> exact ⟨rfl, rfl, rfl⟩
theorem lpcT_signalOutbox (s : Sys) (u : Nat) : (signalOutbox s u).lpc = s.lpc ∧ (signalOutbox s u).nchunkL = s.nchunkL ∧ (signalOutbox s u).T = s.T := by
  unfold signalOutbox; simp only; split <;> split <;> exact ⟨rfl, rfl, rfl⟩
theorem lpcT_signalRecycling (s : Sys) : (signalRecycling s).lpc = s.lpc ∧ (signalRecycling s).nchunkL = s.nchunkL ∧ (signalRecycling s).T = s.T := by
  unfold signalRecycling; split <;> (try split) <;> exact ⟨rfl, rfl, rfl⟩

theorem lpcT_readBody (s : Sys) (c : Nat) : (readBody s c).lpc = s.lpc ∧ (readBody s c).nchunkL = s.nchunkL ∧ (readBody s c).T = s.T := by
  unfold readBody; simp only; split
  · exact ⟨rfl, rfl, rfl⟩
  · split
    · exact lpcT_signalOutbox _ _
    · exact ⟨rfl, rfl, rfl⟩

theorem step_other_lpc (s s' : Sys) (l : Label) (hl : l ≠ .loader) (hs : step s l = some s') :
    s'.lpc = s.lpc ∧ s'.nchunkL = s.nchunkL ∧ s'.T = s.T := by
  cases l with
  | loader => exact absurd rfl hl
  | unpacker u =>
    simp only [step, stepUnpacker] at hs
    split at hs
    · cases hs
    · split at hs
      · split at hs
        · cases hs; exact ⟨rfl, rfl, rfl⟩
        · cases hs; split
          · exact lpcT_signalInbox _ _
          · exact ⟨rfl, rfl, rfl⟩
      · split at hs
        · cases hs; exact ⟨rfl, rfl, rfl⟩
        · cases hs; exact lpcT_signalOutbox _ _
      · cases hs
  | read c =>
    simp only [step] at hs
    split at hs
    · cases hs
    · cases hs; exact lpcT_readBody s c
  | readWake =>
    simp only [step] at hs
    split at hs
    · cases hs; exact lpcT_readBody s _
    · cases hs
  | recycle c b k =>
    simp only [step] at hs
    split at hs
    · cases hs; exact lpcT_signalRecycling _
    · cases hs

/-- with the data of chunk `F < T` missing: the loader never gets past chunk `F`, never leaves its main loop -/
structure CutInv (s : Sys) (F : Nat) : Prop where
  nl : s.nchunkL ≤ F
  putk : ∀ b k, s.lpc = .put b k → k < F
  past : s.lpc.past = false

theorem cutInv_loader (s s' : Sys) (F : Nat) (hF : F < s.T) (j : CutInv s F)
    (hcut : ∀ b, s.lpc = .haveBuf b → ¬ (s.nchunkL = F ∧ s.nchunkL < s.T)) (hst : stepLoader s = some s') : CutInv s' F := by
  have jn := j.nl; have jp := j.past
  simp only [stepLoader] at hst
  split at hst
  · -- top
    split at hst
    · rw [← Option.some.inj hst]; refine ⟨jn, ?_, rfl⟩; intro b k hk; simp at hk
    · split at hst
      · rw [← Option.some.inj hst]; exact ⟨jn, j.putk, jp⟩
      · rw [← Option.some.inj hst]; refine ⟨jn, ?_, rfl⟩; intro b k hk; simp at hk
  · -- haveBuf
    rename_i b hb
    have hc := hcut b hb
    split at hst
    · rename_i hlt
      rw [← Option.some.inj hst]
      refine ⟨jn, ?_, rfl⟩
      intro b' k hk
      simp only [LPc.put.injEq] at hk
      rw [← hk.2]
      have : s.nchunkL ≠ F := fun h => hc ⟨h, hlt⟩
      omega
    · omega
  · -- put
    rename_i b k hb
    have hk := j.putk b k hb
    split at hst
    · rw [← Option.some.inj hst]; exact ⟨jn, j.putk, jp⟩
    · rw [← Option.some.inj hst]
      obtain ⟨h1, h2, _⟩ := lpcT_signalInbox (Sys.setLane { s with lwait := none, lpc := LPc.top, nchunkL := k + 1 } (k % s.U)
        { s.lane (k % s.U) with inbox := some (b, k) }) (k % s.U)
      refine ⟨?_, ?_, ?_⟩
      · rw [h2]; show k + 1 ≤ F; omega
      · intro b' k' hk'; rw [h1] at hk'; simp at hk'
      · rw [h1]; rfl
  · rename_i u hb; rw [hb] at jp; simp [LPc.past] at jp
  · rename_i hb; rw [hb] at jp; simp [LPc.past] at jp
  · cases hst

theorem cutInv_step {x x' : FSys} {l : Label} (hF : x.failAt < x.s.T) (j : CutInv x.s x.failAt) (hs : fstep x l = some x') :
    CutInv x'.s x'.failAt := by
  obtain ⟨_, hf, hc⟩ := fstep_cases hs
  rw [hf]
  rcases hc with ⟨_, _, he, _⟩ | ⟨hnc, hst, _⟩
  · rw [he]; exact j
  · by_cases hl : l = .loader
    · subst hl
      refine cutInv_loader x.s x'.s x.failAt hF j ?_ hst
      intro b hb hh
      apply hnc
      refine ⟨rfl, ?_⟩
      simp only [FSys.hitsCut, hb, Bool.and_eq_true, decide_eq_true_eq]
      exact hh
    · obtain ⟨h1, h2, _⟩ := step_other_lpc _ _ _ hl hst
      exact ⟨by rw [h2]; exact j.nl, by rw [h1]; exact j.putk, by rw [h1]; exact j.past⟩

theorem freachable_cutInv {U T C F : Nat} (hF : F < T) {x : FSys} (h : FReachable U T C F x) : CutInv x.s x.failAt := by
  induction h with
  | create => exact ⟨Nat.zero_le _, by intro b k hk; simp [Sys.create] at hk, rfl⟩
  | step hx hs ih =>
    have hb := freachable_base hx
    exact cutInv_step (by rw [hb.2, reachable_T hb.1]; exact hF) ih hs

/-- not aborted: a label is enabled in the cut pipeline exactly when it is in the intact one (the abort replaces a loader step) -/
theorem fstep_isSome (x : FSys) (l : Label) (ha : x.aborted = false) : (fstep x l).isSome = (step x.s l).isSome := by
  unfold fstep
  simp only [ha, Bool.false_eq_true, if_false]
  by_cases hc : l = .loader ∧ x.hitsCut = true
  · rw [if_pos hc]
    obtain ⟨rfl, hh⟩ := hc
    simp only [FSys.hitsCut] at hh
    split at hh
    · rename_i b hb
      simp only [step, stepLoader, hb, Option.isSome_some]
      split <;> rfl
    · cases hh
  · rw [if_neg hc]; simp

end EaselModel.Pipeline
