import EaselModel.Pipeline.Wakeups
import EaselModel.Pipeline.StepOthers
import EaselModel.Pipeline.BufSteps
import EaselModel.Pipeline.ConstT
/-! # Progress of the dsqdata pipeline: a variant function, and liveness under weak fairness.

`phi s` bounds the number of non-wait steps still to come: the loader's remaining program (6 per chunk still to load, its cleanup
phase), per lane the unpacker's remaining work, two per chunk still to be returned by `Read` (the `Read` and the `Recycle`), one per
chunk in a consumer's hands.

* `step_phi`: no step increases `phi`; a step that is not a wait (`isProgress`: the stepping thread was not blocked; a `Read` that
  returns a chunk; a `Recycle`) strictly decreases it. A step that is a wait changes wait flags only.
* with `no_deadlock`: as long as `Read` cannot yet answer `eslEOF` after the last chunk, some thread has a progress step.
* `fair_reaches_eof`: on every infinite execution that is weakly fair (a thread whose progress step stays enabled eventually steps -
  loader, each unpacker, "some consumer calls `Read`", "some consumer recycles a chunk it holds"), every chunk is eventually
  returned by `Read` and `Read` eventually answers `eslEOF`. Any number of unpackers and consumers, spurious wake-ups included. -/
namespace EaselModel.Pipeline

def phiL (s : Sys) : Nat := match s.lpc with
  | .top => 6 * (s.T - s.nchunkL) + 3 + s.U + 6 + s.nalloc
  | .haveBuf _ => 6 * (s.T - s.nchunkL) + 1 + s.U + 6 + s.nalloc
  | .put _ _ => 6 * (s.T - s.nchunkL) + 0 + s.U + 6 + s.nalloc
  | .eod u => (s.U - u) + s.nalloc + 3
  | .drain => s.nalloc + 1
  | .done => 0

def phiPc : UPc → Nat
  | .get => 2
  | .put (some _) => 3
  | .put none => 1
  | .done => 0

def phiLane (l : Lane) : Nat := (if l.inbox.isSome then 2 else 0) + phiPc l.upc

def phiU (s : Sys) : Nat := ((List.range s.U).map fun u => phiLane (s.lane u)).sum

def phi (s : Sys) : Nat := phiL s + phiU s + 2 * (s.T - s.nchunk) + s.cheld.length

/-- the step is not a wait: the thread was not blocked / `Read` returns a chunk / `Recycle` -/
def isProgress (s : Sys) : Label → Bool
  | .loader => !loaderBlocked s
  | .unpacker u => !unpBlocked s u
  | .read _ => (s.lane (s.nchunk % s.U)).outbox.isSome
  | .readWake => (s.lane (s.nchunk % s.U)).outbox.isSome
  | .recycle _ _ _ => true

/-! ### sums over the lanes -/

theorem sum_range_update (f g : Nat → Nat) (u a : Nat) (hg : ∀ v, g v = if v = u then a else f v) :
    ∀ n, u < n → ((List.range n).map g).sum + f u = ((List.range n).map f).sum + a
  | 0, h => absurd h (Nat.not_lt_zero _)
  | n + 1, h => by
    rw [List.range_succ, List.map_append, List.map_append, List.sum_append, List.sum_append]
    simp only [List.map_cons, List.map_nil, List.sum_cons, List.sum_nil, Nat.add_zero]
    by_cases hu : u = n
    · subst hu
      have hsame : (List.range u).map g = (List.range u).map f := by
        apply List.map_congr_left
        intro v hv
        have : v < u := List.mem_range.mp hv
        rw [hg, if_neg (by omega)]
      rw [hsame, hg, if_pos rfl]; omega
    · have := sum_range_update f g u a hg n (by omega)
      rw [hg n, if_neg (by omega)]; omega

theorem sum_range_congr (f g : Nat → Nat) (n : Nat) (h : ∀ v < n, g v = f v) :
    ((List.range n).map g).sum = ((List.range n).map f).sum := by
  congr 1
  apply List.map_congr_left
  intro v hv
  exact h v (List.mem_range.mp hv)

/-- one lane replaced -/
theorem phiU_setLane (σ s : Sys) (u : Nat) (l' : Lane) (hl : σ.lanes = s.lanes) (hU : σ.U = s.U) (hu : u < s.U)
    (hlen : s.lanes.length = s.U) : phiU (σ.setLane u l') + phiLane (s.lane u) = phiU s + phiLane l' := by
  unfold phiU
  have e : (σ.setLane u l').U = s.U := hU
  rw [e]
  exact sum_range_update (fun v => phiLane (s.lane v)) (fun v => phiLane ((σ.setLane u l').lane v)) u (phiLane l')
    (fun v => by
      show phiLane ((σ.setLane u l').lane v) = _
      rw [lane_setLane' σ s u v l' hl (by rw [hlen]; exact hu)]
      split <;> rfl) s.U hu

/-- states that differ in wait flags only have the same measure -/
theorem phi_sameAll {s s' : Sys} (c : SameAll s s') : phi s' = phi s := by
  have hl : phiL s' = phiL s := by
    simp only [phiL, c.core.lpc, c.core.T, c.core.U, c.core.nchunkL, c.nalloc]
  have hu : phiU s' = phiU s := by
    unfold phiU
    rw [c.core.U]
    apply sum_range_congr
    intro v _
    have := c.core.lane v
    simp only [Lane.core, Prod.mk.injEq] at this
    simp only [phiLane, this.1, this.2.2.2.2]
  simp only [phi, hl, hu, c.core.T, c.core.nchunk, c.cheld]

theorem phi_signalInbox (s : Sys) (u : Nat) (hu : u < s.lanes.length) : phi (signalInbox s u) = phi s :=
  phi_sameAll (sameAll_signalInbox s u hu)
theorem phi_signalOutbox (s : Sys) (u : Nat) (hu : u < s.lanes.length) : phi (signalOutbox s u) = phi s :=
  phi_sameAll (sameAll_signalOutbox s u hu)
theorem phi_signalRecycling (s : Sys) : phi (signalRecycling s) = phi s :=
  phi_sameAll (sameAll_signalRecycling s)

/-! ### the loader's steps -/

theorem phi_setLane (σ s : Sys) (u : Nat) (l' : Lane) (hl : σ.lanes = s.lanes) (hU : σ.U = s.U) (hu : u < s.U)
    (hlen : s.lanes.length = s.U) :
    phi (σ.setLane u l') + phiLane (s.lane u) = phiL σ + (phiU s + phiLane l') + 2 * (σ.T - σ.nchunk) + σ.cheld.length := by
  have := phiU_setLane σ s u l' hl hU hu hlen
  have e : phi (σ.setLane u l') = phiL σ + phiU (σ.setLane u l') + 2 * (σ.T - σ.nchunk) + σ.cheld.length := rfl
  omega

theorem phi_split (s : Sys) : phi s = phiL s + phiU s + 2 * (s.T - s.nchunk) + s.cheld.length := rfl

theorem stepLoader_phi (s s' : Sys) (h : Inv s) (hs : stepLoader s = some s') :
    phi s' ≤ phi s ∧ (loaderBlocked s = false → phi s' < phi s) := by
  simp only [stepLoader] at hs
  split at hs
  · -- top
    rename_i hl
    split at hs
    · have hs := Option.some.inj hs
      have e1 : phiL s = 6 * (s.T - s.nchunkL) + 3 + s.U + 6 + s.nalloc := by simp only [phiL, hl]
      have e2 : phi s' = 6 * (s.T - s.nchunkL) + 1 + s.U + 6 + (s.nalloc + 1) + phiU s + 2 * (s.T - s.nchunk) + s.cheld.length := by rw [← hs]; rfl
      rw [phi_split s, e1, e2]
      exact ⟨by omega, fun _ => by omega⟩
    · rename_i hlim
      split at hs
      · rename_i hr
        cases hs
        refine ⟨Nat.le_refl _, fun hb => ?_⟩
        simp [loaderBlocked, hl, hr] at hb
        omega
      · have hs := Option.some.inj hs
        have e1 : phiL s = 6 * (s.T - s.nchunkL) + 3 + s.U + 6 + s.nalloc := by simp only [phiL, hl]
        have e2 : phi s' = 6 * (s.T - s.nchunkL) + 1 + s.U + 6 + s.nalloc + phiU s + 2 * (s.T - s.nchunk) + s.cheld.length := by rw [← hs]; rfl
        rw [phi_split s, e1, e2]
        exact ⟨by omega, fun _ => by omega⟩
  · -- haveBuf
    rename_i b hl
    have e1 : phiL s = 6 * (s.T - s.nchunkL) + 1 + s.U + 6 + s.nalloc := by simp only [phiL, hl]
    split at hs
    · have hs := Option.some.inj hs
      have e2 : phi s' = 6 * (s.T - s.nchunkL) + 0 + s.U + 6 + s.nalloc + phiU s + 2 * (s.T - s.nchunk) + s.cheld.length := by rw [← hs]; rfl
      rw [phi_split s, e1, e2]
      exact ⟨by omega, fun _ => by omega⟩
    · have hs := Option.some.inj hs
      have e2 : phi s' = (s.U - 0) + (s.nalloc - 1) + 3 + phiU s + 2 * (s.T - s.nchunk) + s.cheld.length := by rw [← hs]; rfl
      rw [phi_split s, e1, e2]
      exact ⟨by omega, fun _ => by omega⟩
  · -- put
    rename_i b k hl
    obtain ⟨hk, hkT⟩ := h.putk b k hl
    have hu : k % s.U < s.U := Nat.mod_lt _ h.upos
    split at hs
    · rename_i hfull
      cases hs
      refine ⟨Nat.le_refl _, fun hb => ?_⟩
      simp [loaderBlocked, hl, hfull] at hb
    · rename_i hfree
      cases hs
      rw [phi_signalInbox _ _ (by rw [setLane_lanes_length]; show k % s.U < s.lanes.length; rw [h.len]; exact hu)]
      have e1 : phiL s = 6 * (s.T - s.nchunkL) + 0 + s.U + 6 + s.nalloc := by simp only [phiL, hl]
      have e2 := phi_setLane { s with lwait := none, lpc := LPc.top, nchunkL := k + 1 } s (k % s.U)
        { s.lane (k % s.U) with inbox := some (b, k) } rfl rfl hu h.len
      have e3 : phiL { s with lwait := none, lpc := LPc.top, nchunkL := k + 1 } = 6 * (s.T - (k + 1)) + 3 + s.U + 6 + s.nalloc := rfl
      have e4 : phiLane { s.lane (k % s.U) with inbox := some (b, k) } = 2 + phiPc (s.lane (k % s.U)).upc := rfl
      have e5 : phiLane (s.lane (k % s.U)) = 0 + phiPc (s.lane (k % s.U)).upc := by
        simp only [phiLane]
        rw [if_neg hfree]
      rw [e3, e4] at e2
      rw [phi_split s, e1]
      simp only [] at e2
      exact ⟨by omega, fun _ => by omega⟩
  · -- eod
    rename_i u hl
    have e1 : phiL s = (s.U - u) + s.nalloc + 3 := by simp only [phiL, hl]
    split at hs
    · have hs := Option.some.inj hs
      have e2 : phi s' = s.nalloc + 1 + phiU s + 2 * (s.T - s.nchunk) + s.cheld.length := by rw [← hs]; rfl
      rw [phi_split s, e1, e2]
      exact ⟨by omega, fun _ => by omega⟩
    · rename_i hlt
      split at hs
      · rename_i hfull
        cases hs
        refine ⟨Nat.le_refl _, fun hb => ?_⟩
        simp only [loaderBlocked, hl, Bool.and_eq_false_iff, decide_eq_false_iff_not] at hb
        rcases hb with hb | hb
        · omega
        · rw [hfull] at hb; cases hb
      · cases hs
        have hu : u < s.U := by omega
        rw [phi_signalInbox _ _ (by rw [setLane_lanes_length]; show u < s.lanes.length; rw [h.len]; exact hu)]
        have e2 := phi_setLane { s with lwait := none, lpc := LPc.eod (u + 1) } s u { s.lane u with inEod := true } rfl rfl hu h.len
        have e3 : phiL { s with lwait := none, lpc := LPc.eod (u + 1) } = (s.U - (u + 1)) + s.nalloc + 3 := rfl
        have e4 : phiLane { s.lane u with inEod := true } = phiLane (s.lane u) := rfl
        rw [e3, e4] at e2
        rw [phi_split s, e1]
        simp only [] at e2
        exact ⟨by omega, fun _ => by omega⟩
  · -- drain
    rename_i hl
    have e1 : phiL s = s.nalloc + 1 := by simp only [phiL, hl]
    split at hs
    · have hs := Option.some.inj hs
      have e2 : phi s' = 0 + phiU s + 2 * (s.T - s.nchunk) + s.cheld.length := by rw [← hs]; rfl
      rw [phi_split s, e1, e2]
      exact ⟨by omega, fun _ => by omega⟩
    · rename_i hne
      split at hs
      · rename_i hr
        cases hs
        refine ⟨Nat.le_refl _, fun hb => ?_⟩
        simp [loaderBlocked, hl, hr, hne] at hb
      · rename_i bs hbs
        have hs := Option.some.inj hs
        have e2 : phi s' = (s.nalloc - s.recycling.length) + 1 + phiU s + 2 * (s.T - s.nchunk) + s.cheld.length := by
          rw [← hs, phi_split]; simp only [phiL, hl]; rfl
        rw [phi_split s, e1, e2]
        have : 0 < s.recycling.length := by
          cases hr : s.recycling with
          | nil => exact absurd hr (hbs)
          | cons a as => simp
        exact ⟨by omega, fun _ => by omega⟩
  · cases hs

/-- a blocked loader's step is the wait: only its wait flag changes -/
theorem stepLoader_blocked (s s' : Sys) (hs : stepLoader s = some s') (hb : loaderBlocked s = true) :
    s' = { s with lwait := some false } := by
  simp only [stepLoader] at hs
  simp only [loaderBlocked] at hb
  split at hs
  · rename_i hl
    simp only [hl, Bool.and_eq_true, decide_eq_true_eq, List.isEmpty_iff] at hb
    split at hs
    · omega
    · split at hs
      · exact (Option.some.inj hs).symm
      · rename_i b rest hr; rw [hr] at hb; cases hb.2
  · rename_i b hl; simp [hl] at hb
  · rename_i b k hl
    simp only [hl] at hb
    split at hs
    · exact (Option.some.inj hs).symm
    · rename_i hf; exact absurd hb hf
  · rename_i u hl
    simp only [hl, Bool.and_eq_true, decide_eq_true_eq] at hb
    split at hs
    · omega
    · split at hs
      · exact (Option.some.inj hs).symm
      · rename_i hf; exact absurd hb.2 hf
  · rename_i hl
    simp only [hl, Bool.and_eq_true, bne_iff_ne, ne_eq, List.isEmpty_iff] at hb
    split at hs
    · rename_i h0; exact absurd h0 hb.1
    · split at hs
      · exact (Option.some.inj hs).symm
      · rename_i bs hbs; exact absurd hb.2 hbs
  · cases hs

/-! ### the unpackers' steps -/

theorem stepUnpacker_phi (s s' : Sys) (u : Nat) (h : Inv s) (hs : stepUnpacker s u = some s') :
    phi s' ≤ phi s ∧ (unpBlocked s u = false → phi s' < phi s) ∧
      (unpBlocked s u = true → s' = s.setLane u { s.lane u with uwait := some false }) := by
  simp only [stepUnpacker] at hs
  split at hs
  · cases hs
  rename_i hu'
  have hu : u < s.U := by omega
  have hlen : u < s.lanes.length := by rw [h.len]; exact hu
  have hwait : phi (s.setLane u { s.lane u with uwait := some false }) = phi s :=
    phi_sameAll (sameAll_setUwait s u _ hlen)
  split at hs
  · -- get
    rename_i hpc
    split at hs
    · rename_i hw
      cases hs
      refine ⟨Nat.le_of_eq hwait, fun hb => ?_, fun _ => rfl⟩
      simp only [unpBlocked, hpc] at hb
      rw [hb] at hw; cases hw
    · rename_i hw
      have hs := Option.some.inj hs
      have hnb : unpBlocked s u = false := by
        simp only [unpBlocked, hpc]
        cases hx : (!(s.lane u).inEod && (s.lane u).inbox.isNone) with
        | false => rfl
        | true => exact absurd hx hw
      have e2 := phi_setLane s s u { s.lane u with inbox := none, upc := .put (s.lane u).inbox, uwait := none } rfl rfl hu h.len
      have e5 : phiLane (s.lane u) = (if (s.lane u).inbox.isSome then 2 else 0) + 2 := by simp only [phiLane, hpc, phiPc]
      have e4 : phiLane { s.lane u with inbox := none, upc := .put (s.lane u).inbox, uwait := none } + 1 = (if (s.lane u).inbox.isSome then 2 else 0) + 2 := by
        show (if (none : Option Chunk).isSome then 2 else 0) + phiPc (.put (s.lane u).inbox) + 1 = _
        cases (s.lane u).inbox <;> simp [phiPc]
      have e6 : phi s' = phi (s.setLane u { s.lane u with inbox := none, upc := .put (s.lane u).inbox, uwait := none }) := by
        rw [← hs]
        split
        · exact phi_signalInbox _ _ (by rw [setLane_lanes_length]; exact hlen)
        · rfl
      rw [e6, phi_split s]
      refine ⟨by omega, fun _ => by omega, fun hb => ?_⟩
      rw [hnb] at hb; cases hb
  · -- put
    rename_i c hpc
    split at hs
    · rename_i hw
      cases hs
      refine ⟨Nat.le_of_eq hwait, fun hb => ?_, fun _ => rfl⟩
      simp only [unpBlocked, hpc] at hb
      rw [hb] at hw; cases hw
    · rename_i hw
      have hs := Option.some.inj hs
      have hnb : unpBlocked s u = false := by
        simp only [unpBlocked, hpc]
        cases hx : (s.lane u).outbox.isSome with
        | false => rfl
        | true => exact absurd hx hw
      have e2 := phi_setLane s s u { s.lane u with outbox := c, outEod := (s.lane u).outEod || c.isNone, uwait := none,
                                                   upc := if c.isSome then .get else .done } rfl rfl hu h.len
      have e5 : phiLane (s.lane u) = (if (s.lane u).inbox.isSome then 2 else 0) + phiPc (.put c) := by simp only [phiLane, hpc]
      have e4 : phiLane { s.lane u with outbox := c, outEod := (s.lane u).outEod || c.isNone, uwait := none,
                                        upc := if c.isSome then .get else .done } + 1
                  = (if (s.lane u).inbox.isSome then 2 else 0) + phiPc (.put c) := by
        cases c <;> simp [phiLane, phiPc]
      have e6 : phi s' = phi (s.setLane u { s.lane u with outbox := c, outEod := (s.lane u).outEod || c.isNone, uwait := none,
                                                          upc := if c.isSome then .get else .done }) := by
        rw [← hs]
        exact phi_signalOutbox _ _ (by rw [setLane_lanes_length]; exact hlen)
      rw [e6, phi_split s]
      refine ⟨by omega, fun _ => by omega, fun hb => ?_⟩
      rw [hnb] at hb; cases hb
  · cases hs

/-! ### the consumers' steps -/

theorem readBody_phi (s : Sys) (c : Nat) (h : Inv s) :
    phi (readBody s c) ≤ phi s ∧ ((s.lane (s.nchunk % s.U)).outbox.isSome = true → phi (readBody s c) < phi s) := by
  have hu : s.nchunk % s.U < s.U := Nat.mod_lt _ h.upos
  have hlen : s.nchunk % s.U < s.lanes.length := by rw [h.len]; exact hu
  unfold readBody
  simp only
  split
  · rename_i hw
    refine ⟨Nat.le_refl _, fun ho => ?_⟩
    simp only [Bool.and_eq_true, Bool.not_eq_true', Option.isNone_iff_eq_none] at hw
    rw [hw.2] at ho; cases ho
  · split
    · rename_i b k hob
      rw [phi_signalOutbox _ _ (by rw [setLane_lanes_length]; exact hlen)]
      have hk : s.nchunk ≤ k ∧ k < s.nchunkL := (h.range _ hu k (by simp [Lane.ks, Lane.outK, hob])).2
      have hT := h.bounds.2
      have e2 := phi_setLane { s with reader := none, nchunk := s.nchunk + 1, returned := s.returned ++ [k],
                                      cheld := (c, (b, k)) :: s.cheld } s (s.nchunk % s.U)
        { s.lane (s.nchunk % s.U) with outbox := none } rfl rfl hu h.len
      have e3 : phiLane { s.lane (s.nchunk % s.U) with outbox := none } = phiLane (s.lane (s.nchunk % s.U)) := rfl
      have e4 : phiL { s with reader := none, nchunk := s.nchunk + 1, returned := s.returned ++ [k], cheld := (c, (b, k)) :: s.cheld } = phiL s := rfl
      rw [e3, e4] at e2
      simp only [List.length_cons] at e2
      rw [phi_split s]
      exact ⟨by omega, fun _ => by omega⟩
    · rename_i hob
      refine ⟨Nat.le_refl _, fun ho => ?_⟩
      rw [hob] at ho; cases ho

/-! ### every step -/

/-- **The variant.** No step increases `phi`; a step that is not a wait strictly decreases it. -/
theorem step_phi (s s' : Sys) (l : Label) (h : Inv s) (hs : step s l = some s') :
    phi s' ≤ phi s ∧ (isProgress s l = true → phi s' < phi s) := by
  cases l with
  | loader =>
    have := stepLoader_phi s s' h hs
    refine ⟨this.1, fun hp => this.2 ?_⟩
    simpa [isProgress] using hp
  | unpacker u =>
    have := stepUnpacker_phi s s' u h hs
    refine ⟨this.1, fun hp => this.2.1 ?_⟩
    simpa [isProgress] using hp
  | read c =>
    simp only [step] at hs
    split at hs
    · cases hs
    · cases hs; exact readBody_phi s c h
  | readWake =>
    simp only [step] at hs
    split at hs
    · rename_i c _; cases hs; exact readBody_phi s c h
    · cases hs
  | recycle c b k =>
    simp only [step] at hs
    split at hs
    · rename_i hm
      cases hs
      rw [phi_signalRecycling]
      have e : phi { s with cheld := s.cheld.erase (c, (b, k)), recycling := b :: s.recycling }
          = phiL s + phiU s + 2 * (s.T - s.nchunk) + (s.cheld.erase (c, (b, k))).length := rfl
      have hl := List.length_erase_of_mem hm
      have hpos : 0 < s.cheld.length := List.length_pos_of_mem hm
      rw [e, phi_split s, hl]
      exact ⟨by omega, fun _ => by omega⟩
    · cases hs

/-- what the "can this thread make progress" predicates depend on -/
structure Quiet (s s' : Sys) : Prop where
  U : s'.U = s.U
  lpc : s'.lpc = s.lpc
  nalloc : s'.nalloc = s.nalloc
  limit : s'.limit = s.limit
  recycling : s'.recycling = s.recycling
  nchunk : s'.nchunk = s.nchunk
  cheld : s'.cheld = s.cheld
  lane : ∀ v, (s'.lane v).core = (s.lane v).core

theorem Quiet.refl (s : Sys) : Quiet s s := ⟨rfl, rfl, rfl, rfl, rfl, rfl, rfl, fun _ => rfl⟩
theorem Quiet.trans {a b c : Sys} (h1 : Quiet a b) (h2 : Quiet b c) : Quiet a c :=
  ⟨h2.U.trans h1.U, h2.lpc.trans h1.lpc, h2.nalloc.trans h1.nalloc, h2.limit.trans h1.limit, h2.recycling.trans h1.recycling,
   h2.nchunk.trans h1.nchunk, h2.cheld.trans h1.cheld, fun v => (h2.lane v).trans (h1.lane v)⟩
theorem quiet_of_sameAll {s s' : Sys} (c : SameAll s s') : Quiet s s' :=
  ⟨c.core.U, c.core.lpc, c.nalloc, c.limit, c.recycling, c.core.nchunk, c.cheld, c.core.lane⟩

theorem readBody_quiet (s : Sys) (c : Nat) (ho : (s.lane (s.nchunk % s.U)).outbox.isSome = false) : Quiet s (readBody s c) := by
  unfold readBody
  simp only
  split
  · exact ⟨rfl, rfl, rfl, rfl, rfl, rfl, rfl, fun _ => rfl⟩
  · split
    · rename_i b k hob; rw [hob] at ho; cases ho
    · exact ⟨rfl, rfl, rfl, rfl, rfl, rfl, rfl, fun _ => rfl⟩

/-- **A wait is a stutter**: a step that is not progress changes nothing the progress predicates look at -/
theorem step_quiet (s s' : Sys) (l : Label) (h : Inv s) (hs : step s l = some s') (hp : isProgress s l = false) : Quiet s s' := by
  cases l with
  | loader =>
    have hb : loaderBlocked s = true := by simpa [isProgress] using hp
    rw [stepLoader_blocked s s' hs hb]
    exact ⟨rfl, rfl, rfl, rfl, rfl, rfl, rfl, fun _ => rfl⟩
  | unpacker u =>
    have hb : unpBlocked s u = true := by simpa [isProgress] using hp
    have hu : u < s.U := by
      simp only [step, stepUnpacker] at hs
      split at hs
      · cases hs
      · omega
    rw [(stepUnpacker_phi s s' u h hs).2.2 hb]
    exact quiet_of_sameAll (sameAll_setUwait s u _ (by rw [h.len]; exact hu))
  | read c =>
    simp only [step] at hs
    split at hs
    · cases hs
    · cases hs; exact readBody_quiet s c (by simpa [isProgress] using hp)
  | readWake =>
    simp only [step] at hs
    split at hs
    · rename_i c _; cases hs; exact readBody_quiet s c (by simpa [isProgress] using hp)
    · cases hs
  | recycle c b k => simp [isProgress] at hp

/-! ### threads, fairness, liveness -/

inductive Thread
  | loader
  | unp (u : Nat)
  | reader          -- "some consumer calls `esl_dsqdata_Read`" (or the one asleep inside it wakes up)
  | recycler        -- "some consumer recycles a chunk it holds"
deriving DecidableEq, Repr

def threadOf : Label → Thread
  | .loader => .loader
  | .unpacker u => .unp u
  | .read _ => .reader
  | .readWake => .reader
  | .recycle _ _ _ => .recycler

/-- thread `t` has a step that is not a wait -/
def canProgress (s : Sys) : Thread → Bool
  | .loader => !loaderBlocked s
  | .unp u => !unpBlocked s u
  | .reader => (s.lane (s.nchunk % s.U)).outbox.isSome
  | .recycler => !s.cheld.isEmpty

theorem canProgress_step (s : Sys) (l : Label) (h : canProgress s (threadOf l) = true) : isProgress s l = true := by
  cases l <;> simp_all [canProgress, threadOf, isProgress]

theorem quiet_canProgress {s s' : Sys} (q : Quiet s s') (t : Thread) : canProgress s' t = canProgress s t := by
  have hin : ∀ v, (s'.lane v).inbox = (s.lane v).inbox := fun v => by
    have := q.lane v; simp only [Lane.core, Prod.mk.injEq] at this; exact this.1
  cases t with
  | loader =>
    simp only [canProgress]
    rw [loaderBlocked_eq q.U q.lpc q.nalloc q.limit q.recycling hin]
  | unp u =>
    simp only [canProgress]
    rw [unpBlocked_eq u (q.lane u)]
  | reader =>
    simp only [canProgress, q.nchunk, q.U]
    have := q.lane (s.nchunk % s.U); simp only [Lane.core, Prod.mk.injEq] at this
    rw [this.2.2.1]
  | recycler => simp only [canProgress, q.cheld]

/-- the state `esl_dsqdata_Read` is after: every chunk has been returned and the next `Read` answers `eslEOF` at once -/
def Goal (s : Sys) : Prop := s.nchunk = s.T ∧ readBlocked s = false

theorem pastLane_past (p : LPc) (u : Nat) (h : p.pastLane u = true) : p.past = true := by
  cases p <;> simp_all [LPc.pastLane, LPc.past]

/-- **Somebody can always make progress until the goal is reached** (sharpens `no_deadlock`: a `Read` that could only answer
    EOF does not count, unless it is the EOF after the last chunk). -/
theorem progress_enabled (s : Sys) (h : Inv s) (h2 : Inv2 s) (hlim : 0 < s.limit) (hg : ¬ Goal s) : ∃ t, canProgress s t = true := by
  rcases no_deadlock s h h2 hlim with hL | ⟨u, _, hu⟩ | hC | hR
  · exact ⟨.loader, by simp [canProgress, hL]⟩
  · exact ⟨.unp u, by simp [canProgress, hu]⟩
  · refine ⟨.recycler, ?_⟩
    cases hc : s.cheld with
    | nil => exact absurd hc hC
    | cons a as => simp [canProgress, hc]
  · have hu0 : s.nchunk % s.U < s.U := Nat.mod_lt _ h.upos
    have hlt : s.nchunk < s.T := by
      have := h.bounds
      apply Classical.byContradiction
      intro hge
      exact hg ⟨by omega, hR⟩
    refine ⟨.reader, ?_⟩
    simp only [canProgress]
    cases ho : (s.lane (s.nchunk % s.U)).outbox with
    | some c => rfl
    | none =>
      exfalso
      have he : (s.lane (s.nchunk % s.U)).outEod = true := by
        simp only [readBlocked, ho, Option.isNone_none, Bool.and_true, Bool.not_eq_false'] at hR
        exact hR
      have hd := h.outEod _ hu0 he
      have hie := h.unpNone _ hu0 (Or.inr hd)
      obtain ⟨hpl, hik⟩ := h.inEod _ hu0 hie
      have hT := h.pastT (pastLane_past _ _ hpl)
      have hmem := h.complete s.nchunk (Nat.le_refl _) (by omega)
      simp [Lane.ks, Lane.outK, Lane.heldK, Lane.inK, ho, hd] at hmem
      simp [Lane.inK] at hik
      rw [hik] at hmem
      simp at hmem

/-- an infinite execution of the pipeline from a reachable state -/
structure Exec (U T C : Nat) where
  st : Nat → Sys
  lab : Nat → Label
  init : Reachable U T C (st 0)
  next : ∀ i, step (st i) (lab i) = some (st (i + 1))

/-- weak fairness: a thread that can make progress from some point on for ever does take a step -/
def WeaklyFair {U T C : Nat} (e : Exec U T C) : Prop :=
  ∀ t i, (∀ j, i ≤ j → canProgress (e.st j) t = true) → ∃ j, i ≤ j ∧ threadOf (e.lab j) = t

theorem Exec.reach {U T C : Nat} (e : Exec U T C) : ∀ i, Reachable U T C (e.st i)
  | 0 => e.init
  | i + 1 => .step (e.reach i) (e.next i)

theorem Exec.mono {U T C : Nat} (hU : 0 < U) (e : Exec U T C) (i : Nat) : ∀ d, phi (e.st (i + d)) ≤ phi (e.st i)
  | 0 => Nat.le_refl _
  | d + 1 => Nat.le_trans (step_phi _ _ _ (reachable_inv hU (e.reach (i + d))) (e.next (i + d))).1 (e.mono hU i d)

/-- on a weakly fair execution a progress step is always still to come, until the goal is reached -/
theorem Exec.progress_comes {U T C : Nat} (hU : 0 < U) (e : Exec U T C) (hf : WeaklyFair e) (i : Nat) (hg : ¬ Goal (e.st i)) :
    ∃ j, i ≤ j ∧ isProgress (e.st j) (e.lab j) = true := by
  apply Classical.byContradiction
  intro hno
  have hno' : ∀ j, i ≤ j → isProgress (e.st j) (e.lab j) = false := by
    intro j hj
    cases hp : isProgress (e.st j) (e.lab j) with
    | false => rfl
    | true => exact absurd ⟨j, hj, hp⟩ hno
  have hq : ∀ d, Quiet (e.st i) (e.st (i + d)) := by
    intro d
    induction d with
    | zero => exact Quiet.refl _
    | succ d ih =>
      exact ih.trans (step_quiet _ _ _ (reachable_inv hU (e.reach (i + d))) (e.next (i + d)) (hno' (i + d) (Nat.le_add_right _ _)))
  have hi := reachable_inv2 hU (e.reach i)
  obtain ⟨t, ht⟩ := progress_enabled (e.st i) hi.1 hi.2 (by rw [reachable_limit (e.reach i)]; omega) hg
  have hall : ∀ j, i ≤ j → canProgress (e.st j) t = true := by
    intro j hj
    obtain ⟨d, rfl⟩ := Nat.exists_eq_add_of_le hj
    rw [quiet_canProgress (hq d) t]; exact ht
  obtain ⟨j, hj, hlab⟩ := hf t i hall
  have := canProgress_step (e.st j) (e.lab j) (by rw [hlab]; exact hall j hj)
  rw [hno' j hj] at this; cases this

/-- **Liveness under weak fairness.** On every infinite weakly fair execution of the pipeline - any number of unpackers and
    consumers, spurious wake-ups, any interleaving - a state is reached in which every chunk has been returned by
    `esl_dsqdata_Read` (`nchunk = T`, and by `pipe_order` they were chunks `0 … T-1` in order) and `Read` answers `eslEOF` at once. -/
theorem fair_reaches_eof {U T C : Nat} (hU : 0 < U) (e : Exec U T C) (hf : WeaklyFair e) :
    ∃ j, (e.st j).nchunk = T ∧ readBlocked (e.st j) = false := by
  have main : ∀ n i, phi (e.st i) = n → ∃ j, Goal (e.st j) := by
    intro n
    induction n using Nat.strongRecOn with
    | _ n ih =>
      intro i hn
      by_cases hg : Goal (e.st i)
      · exact ⟨i, hg⟩
      · obtain ⟨j, hj, hp⟩ := e.progress_comes hU hf i hg
        obtain ⟨d, rfl⟩ := Nat.exists_eq_add_of_le hj
        have h1 := (step_phi _ _ _ (reachable_inv hU (e.reach (i + d))) (e.next (i + d))).2 hp
        have h2 := e.mono hU i d
        exact ih (phi (e.st (i + d + 1))) (by omega) (i + d + 1) rfl
  obtain ⟨j, hj⟩ := main _ 0 rfl
  exact ⟨j, by rw [hj.1, reachable_T (e.reach j)], hj.2⟩

end EaselModel.Pipeline

