import EaselModel.Pipeline.BufSteps
/-! Deadlock freedom of the dsqdata pipeline and clean shutdown. -/
namespace EaselModel.Pipeline

/-- the loader's next step would be a `pthread_cond_wait` (or it has exited) -/
def loaderBlocked (s : Sys) : Bool := match s.lpc with
  | .top => decide (s.nalloc ≥ s.limit) && s.recycling.isEmpty
  | .haveBuf _ => false
  | .put _ k => (s.lane (k % s.U)).inbox.isSome
  | .eod u => decide (u < s.U) && (s.lane u).inbox.isSome
  | .drain => (s.nalloc != 0) && s.recycling.isEmpty
  | .done => true

/-- unpacker `u`'s next step would be a `pthread_cond_wait` (or it has exited) -/
def unpBlocked (s : Sys) (u : Nat) : Bool := match (s.lane u).upc with
  | .get => !(s.lane u).inEod && (s.lane u).inbox.isNone
  | .put _ => (s.lane u).outbox.isSome
  | .done => true

/-- a call of `esl_dsqdata_Read` would go to sleep on the outbox -/
def readBlocked (s : Sys) : Bool := !(s.lane (s.nchunk % s.U)).outEod && (s.lane (s.nchunk % s.U)).outbox.isNone

theorem limit_signalInbox (s : Sys) (u : Nat) : (signalInbox s u).limit = s.limit := by
  unfold signalInbox; simp only; split <;> split <;> rfl
theorem limit_signalOutbox (s : Sys) (u : Nat) : (signalOutbox s u).limit = s.limit := by
  unfold signalOutbox; simp only; split <;> split <;> rfl
theorem limit_signalRecycling (s : Sys) : (signalRecycling s).limit = s.limit := by
  unfold signalRecycling; split <;> (try split) <;> rfl

theorem step_limit (s s' : Sys) (l : Label) (hs : step s l = some s') : s'.limit = s.limit := by
  cases l with
  | loader =>
    simp only [step, stepLoader] at hs
    split at hs
    · split at hs
      · cases hs; rfl
      · split at hs <;> (cases hs; rfl)
    · split at hs <;> (cases hs; rfl)
    · split at hs
      · cases hs; rfl
      · cases hs; rw [limit_signalInbox]; rfl
    · split at hs
      · cases hs; rfl
      · split at hs
        · cases hs; rfl
        · cases hs; rw [limit_signalInbox]; rfl
    · split at hs
      · cases hs; rfl
      · split at hs <;> (cases hs; rfl)
    · cases hs
  | unpacker u =>
    simp only [step, stepUnpacker] at hs
    split at hs
    · cases hs
    · split at hs
      · split at hs
        · cases hs; rfl
        · cases hs; split
          · rw [limit_signalInbox]; rfl
          · rfl
      · split at hs
        · cases hs; rfl
        · cases hs; rw [limit_signalOutbox]; rfl
      · cases hs
  | read c =>
    simp only [step] at hs
    split at hs
    · cases hs
    · cases hs; unfold readBody; simp only; split
      · rfl
      · split
        · rw [limit_signalOutbox]; rfl
        · rfl
  | readWake =>
    simp only [step] at hs
    split at hs
    · cases hs; unfold readBody; simp only; split
      · rfl
      · split
        · rw [limit_signalOutbox]; rfl
        · rfl
    · cases hs
  | recycle c b k =>
    simp only [step] at hs
    split at hs
    · cases hs; rw [limit_signalRecycling]
    · cases hs

theorem reachable_limit {U T C : Nat} {s : Sys} (h : Reachable U T C s) : s.limit = C + 3 * U + 2 := by
  induction h with
  | create => rfl
  | step _ hs ih => rw [step_limit _ _ _ hs, ih]

theorem sum_zero_of_all_zero (l : List Nat) (h : ∀ x ∈ l, x = 0) : l.sum = 0 := by
  induction l with
  | nil => rfl
  | cons a as ih =>
    have ha := h a (by simp)
    have := ih (fun x hx => h x (by simp [hx]))
    simp [ha, this]

/-- **No deadlock.** In every state satisfying the invariants some thread can take a step that is not a wait:
    the loader, an unpacker, a consumer that holds a chunk (it can `Recycle`), or a consumer calling `Read`
    (which returns a chunk or EOF at once). -/
theorem no_deadlock (s : Sys) (h : Inv s) (h2 : Inv2 s) (hlim : 0 < s.limit) :
    loaderBlocked s = false ∨ (∃ u < s.U, unpBlocked s u = false) ∨ s.cheld ≠ [] ∨ readBlocked s = false := by
  apply Classical.byContradiction
  intro hcon
  simp only [not_or, Bool.not_eq_false, not_exists, not_and, ne_eq, Decidable.not_not] at hcon
  obtain ⟨hL, hUn, hC, hR⟩ := hcon
  have hu0 : s.nchunk % s.U < s.U := Nat.mod_lt _ h.upos
  -- the lane the next Read looks at
  have hR' : (s.lane (s.nchunk % s.U)).outEod = false ∧ (s.lane (s.nchunk % s.U)).outbox = none := by
    simp only [readBlocked, Bool.and_eq_true, Bool.not_eq_true', Option.isNone_iff_eq_none] at hR; exact hR
  -- its unpacker is blocked at `get` with an empty inbox
  have hU0 := hUn _ hu0
  have hget : (s.lane (s.nchunk % s.U)).upc = .get ∧ (s.lane (s.nchunk % s.U)).inEod = false ∧ (s.lane (s.nchunk % s.U)).inbox = none := by
    simp only [unpBlocked] at hU0
    split at hU0
    · rename_i hg
      simp only [Bool.and_eq_true, Bool.not_eq_true', Option.isNone_iff_eq_none] at hU0
      exact ⟨hg, hU0.1, hU0.2⟩
    · rw [hR'.2] at hU0; cases hU0
    · rename_i hd; have := h2.doneOut _ hu0 hd; rw [hR'.1] at this; cases this
  -- so that lane is empty, hence no chunk is in flight at all
  have hks : (s.lane (s.nchunk % s.U)).ks = [] := by
    simp [Lane.ks, Lane.outK, Lane.heldK, Lane.inK, hR'.2, hget.1, hget.2.2]
  have hnone : s.nchunkL ≤ s.nchunk := by
    apply Classical.byContradiction; intro hlt
    have := h.complete s.nchunk (Nat.le_refl _) (by omega)
    rw [hks] at this; cases this
  have hempty : ∀ u < s.U, (s.lane u).ks = [] := by
    intro u hu
    cases hk : (s.lane u).ks with
    | nil => rfl
    | cons a as => have := h.range u hu a (by rw [hk]; simp); omega
  have hinEmpty : ∀ u < s.U, (s.lane u).inbox = none := by
    intro u hu
    have := hempty u hu
    cases hi : (s.lane u).inbox with
    | none => rfl
    | some c => simp [Lane.ks, Lane.inK, hi] at this
  have hnb : ∀ u < s.U, (s.lane u).nbuf = 0 := by
    intro u hu
    have := hempty u hu
    simp only [Lane.ks, Lane.outK, Lane.heldK, Lane.inK, List.append_eq_nil_iff, Option.toList_eq_nil_iff, Option.map_eq_none_iff] at this
    obtain ⟨⟨ho, hh⟩, hi⟩ := this
    simp only [Lane.nbuf, ho, hi, Option.toList_none, List.length_nil, Nat.zero_add]
    split
    · rename_i c hc; simp [hc] at hh
    · rfl
  -- the loader cannot be blocked
  simp only [loaderBlocked] at hL
  split at hL
  · -- top: all buffers would have to be in the lanes, which are empty
    rename_i hl
    simp only [Bool.and_eq_true, decide_eq_true_eq, List.isEmpty_iff] at hL
    have hcnt := h2.count
    have hsum : (s.lanes.map Lane.nbuf).sum = 0 := by
      apply sum_zero_of_all_zero
      intro x hx
      obtain ⟨l, hl', rfl⟩ := List.mem_map.mp hx
      obtain ⟨i, hi, rfl⟩ := List.getElem_of_mem hl'
      have := hnb i (by rw [← h.len]; exact hi)
      simpa [Sys.lane, List.getD_eq_getElem?_getD, hi] using this
    simp only [Sys.live, hsum, hL.2, hC, hl, LPc.nbuf, List.length_nil] at hcnt
    omega
  · cases hL
  · rename_i b k hl
    have := hinEmpty (k % s.U) (Nat.mod_lt _ h.upos)
    rw [this] at hL; cases hL
  · rename_i u hl
    simp only [Bool.and_eq_true, decide_eq_true_eq] at hL
    have := hinEmpty u hL.1
    rw [this] at hL; cases hL.2
  · rename_i hl
    have := h2.pastIn _ hu0 (by rw [hl]; rfl)
    rw [hget.2.1] at this; cases this
  · rename_i hl
    have := h2.pastIn _ hu0 (by rw [hl]; rfl)
    rw [hget.2.1] at this; cases this

/-- **Clean shutdown.** When the loader has exited, every chunk buffer it created has been destroyed and none is left
    anywhere (lanes, recycling stack, consumers). -/
theorem loader_exit_clean (s : Sys) (h2 : Inv2 s) (_hd : s.lpc = .done) (hn : s.nalloc = 0) :
    s.freed = s.nextBuf ∧ s.recycling = [] ∧ s.cheld = [] := by
  have hc := h2.count
  have hcr := h2.created
  simp only [Sys.live, hn] at hc
  refine ⟨by omega, List.eq_nil_of_length_eq_zero (by omega), List.eq_nil_of_length_eq_zero (by omega)⟩

/-- the loader's program counter and `nalloc` are its private variables: no signal and no other thread touches them -/
theorem lpc_signalInbox (s : Sys) (u : Nat) : (signalInbox s u).lpc = s.lpc ∧ (signalInbox s u).nalloc = s.nalloc := by
  unfold signalInbox; simp only; split <;> split <;> exact ⟨rfl, rfl⟩
theorem lpc_signalOutbox (s : Sys) (u : Nat) : (signalOutbox s u).lpc = s.lpc ∧ (signalOutbox s u).nalloc = s.nalloc := by
  unfold signalOutbox; simp only; split <;> split <;> exact ⟨rfl, rfl⟩
theorem lpc_signalRecycling (s : Sys) : (signalRecycling s).lpc = s.lpc ∧ (signalRecycling s).nalloc = s.nalloc := by
  unfold signalRecycling; split <;> (try split) <;> exact ⟨rfl, rfl⟩

theorem step_done (s s' : Sys) (l : Label) (hp : s.lpc = .done → s.nalloc = 0) (hs : step s l = some s') :
    s'.lpc = .done → s'.nalloc = 0 := by
  cases l with
  | loader =>
    simp only [step, stepLoader] at hs
    split at hs
    · split at hs
      · cases hs; intro hc; cases hc
      · split at hs
        · cases hs; exact hp
        · cases hs; intro hc; cases hc
    · split at hs <;> (cases hs; intro hc; cases hc)
    · split at hs
      · cases hs; exact hp
      · cases hs; intro hc; rw [(lpc_signalInbox _ _).1] at hc; cases hc
    · split at hs
      · cases hs; intro hc; cases hc
      · split at hs
        · cases hs; exact hp
        · cases hs; intro hc; rw [(lpc_signalInbox _ _).1] at hc; cases hc
    · split at hs
      · rename_i hz; cases hs; intro _; exact hz
      · split at hs
        · cases hs; exact hp
        · cases hs; intro hc; simp_all
    · cases hs
  | unpacker u =>
    simp only [step, stepUnpacker] at hs
    split at hs
    · cases hs
    · split at hs
      · split at hs
        · cases hs; exact hp
        · cases hs; split
          · rw [(lpc_signalInbox _ _).1, (lpc_signalInbox _ _).2]; exact hp
          · exact hp
      · split at hs
        · cases hs; exact hp
        · cases hs; rw [(lpc_signalOutbox _ _).1, (lpc_signalOutbox _ _).2]; exact hp
      · cases hs
  | read c =>
    simp only [step] at hs
    split at hs
    · cases hs
    · cases hs; unfold readBody; simp only; split
      · exact hp
      · split
        · rw [(lpc_signalOutbox _ _).1, (lpc_signalOutbox _ _).2]; exact hp
        · exact hp
  | readWake =>
    simp only [step] at hs
    split at hs
    · cases hs; unfold readBody; simp only; split
      · exact hp
      · split
        · rw [(lpc_signalOutbox _ _).1, (lpc_signalOutbox _ _).2]; exact hp
        · exact hp
    · cases hs
  | recycle c b k =>
    simp only [step] at hs
    split at hs
    · cases hs; rw [(lpc_signalRecycling _).1, (lpc_signalRecycling _).2]; exact hp
    · cases hs

theorem reachable_done {U T C : Nat} {s : Sys} (h : Reachable U T C s) : s.lpc = .done → s.nalloc = 0 := by
  induction h with
  | create => intro hc; cases hc
  | step _ hs ih => exact step_done _ _ _ ih hs

/-- **EOF is delivered.** Once all `T` chunks have been returned and the unpacker of the lane the next `Read` looks at
    has exited, every call of `esl_dsqdata_Read` returns EOF at once (the caller is recorded in `eofs`, nothing else
    changes but the bookkeeping) - for every consumer, any number of times. -/
theorem read_eof_at_end (s : Sys) (h : Inv s) (h2 : Inv2 s) (hn : s.nchunk = s.T)
    (hd : (s.lane (s.nchunk % s.U)).upc = .done) (hr : s.reader = none) (c : Nat) :
    step s (.read c) = some { s with reader := none, eofs := c :: s.eofs } := by
  have hu : s.nchunk % s.U < s.U := Nat.mod_lt _ h.upos
  have hoe := h2.doneOut _ hu hd
  have hob : (s.lane (s.nchunk % s.U)).outbox = none := by
    cases ho : (s.lane (s.nchunk % s.U)).outbox with
    | none => rfl
    | some ck =>
      have hm : ck.2 ∈ (s.lane (s.nchunk % s.U)).ks := by simp [Lane.ks, Lane.outK, ho]
      have := h.range _ hu _ hm
      have := h.bounds
      omega
  simp only [step, hr, Option.isSome_none, Bool.false_eq_true, ↓reduceIte, readBody, hoe, hob, Bool.not_true, Bool.false_and]

end EaselModel.Pipeline
