import EaselModel.Pipeline.Basic
/-! The inductive invariant of the dsqdata pipeline: chunk numbers in flight, their order per lane, EOD propagation. -/
namespace EaselModel.Pipeline

def Lane.outK (l : Lane) : Option Nat := l.outbox.map (·.2)
def Lane.inK (l : Lane) : Option Nat := l.inbox.map (·.2)
def Lane.heldK (l : Lane) : Option Nat := match l.upc with
  | .put (some c) => some c.2
  | _ => none
/-- chunk numbers inside lane `u`, oldest first: outbox, unpacker's hands, inbox -/
def Lane.ks (l : Lane) : List Nat := l.outK.toList ++ l.heldK.toList ++ l.inK.toList

/-- the loader has left its main loop -/
def LPc.past : LPc → Bool
  | .eod _ | .drain | .done => true
  | _ => false

/-- the loader has set (or is beyond setting) `inbox_eod[u]` -/
def LPc.pastLane : LPc → Nat → Bool
  | .eod v, u => u < v
  | .drain, _ | .done, _ => true
  | _, _ => false

structure Inv (s : Sys) : Prop where
  upos : 0 < s.U
  len : s.lanes.length = s.U
  /-- every chunk number in lane `u` is ≡ u (mod U) and lies in `[nchunk, nchunkL)` -/
  range : ∀ u < s.U, ∀ k ∈ (s.lane u).ks, k % s.U = u ∧ s.nchunk ≤ k ∧ k < s.nchunkL
  /-- lanes are FIFO: numbers strictly increase from the outbox end to the inbox end -/
  sorted : ∀ u < s.U, (s.lane u).ks.Pairwise (· < ·)
  /-- every chunk number in `[nchunk, nchunkL)` is somewhere in its lane -/
  complete : ∀ k, s.nchunk ≤ k → k < s.nchunkL → k ∈ (s.lane (k % s.U)).ks
  ret : s.returned = List.range s.nchunk
  bounds : s.nchunk ≤ s.nchunkL ∧ s.nchunkL ≤ s.T
  putk : ∀ b k, s.lpc = .put b k → k = s.nchunkL ∧ k < s.T
  pastT : s.lpc.past = true → s.nchunkL = s.T
  inEod : ∀ u < s.U, (s.lane u).inEod = true → s.lpc.pastLane u = true ∧ (s.lane u).inK = none
  unpNone : ∀ u < s.U, ((s.lane u).upc = .put none ∨ (s.lane u).upc = .done) → (s.lane u).inEod = true
  outEod : ∀ u < s.U, (s.lane u).outEod = true → (s.lane u).upc = .done
  eof : s.eofs ≠ [] → s.nchunk = s.T

theorem Lane.ks_core (l l' : Lane) (h : l'.core = l.core) : l'.ks = l.ks := by
  simp only [Lane.core, Prod.mk.injEq] at h
  obtain ⟨h1, h2, h3, h4, h5⟩ := h
  simp [Lane.ks, Lane.outK, Lane.inK, Lane.heldK, h1, h3, h5]

/-- the invariant does not mention wait flags -/
theorem Inv.of_sameCore {s s' : Sys} (h : Inv s) (c : SameCore s s') : Inv s' := by
  have hk : ∀ v, (s'.lane v).ks = (s.lane v).ks := fun v => Lane.ks_core _ _ (c.lane v)
  have hc : ∀ v, (s'.lane v).core = (s.lane v).core := c.lane
  have hin : ∀ v, (s'.lane v).inEod = (s.lane v).inEod := fun v => by have := hc v; simp [Lane.core] at this; exact this.2.1
  have hik : ∀ v, (s'.lane v).inK = (s.lane v).inK := fun v => by have := hc v; simp [Lane.core] at this; simp [Lane.inK, this.1]
  have hup : ∀ v, (s'.lane v).upc = (s.lane v).upc := fun v => by have := hc v; simp [Lane.core] at this; exact this.2.2.2.2
  have hoe : ∀ v, (s'.lane v).outEod = (s.lane v).outEod := fun v => by have := hc v; simp [Lane.core] at this; exact this.2.2.2.1
  refine ⟨by rw [c.U]; exact h.upos, by rw [c.len, c.U]; exact h.len, ?_, ?_, ?_, ?_, ?_, ?_, ?_, ?_, ?_, ?_, ?_⟩
  · intro u hu k hk'; rw [c.U] at hu; rw [hk] at hk'; rw [c.U, c.nchunk, c.nchunkL]; exact h.range u hu k hk'
  · intro u hu; rw [c.U] at hu; rw [hk]; exact h.sorted u hu
  · intro k h1 h2; rw [c.nchunk] at h1; rw [c.nchunkL] at h2; rw [c.U, hk]; exact h.complete k h1 h2
  · rw [c.returned, c.nchunk]; exact h.ret
  · rw [c.nchunk, c.nchunkL, c.T]; exact h.bounds
  · intro b k hl; rw [c.lpc] at hl; rw [c.nchunkL, c.T]; exact h.putk b k hl
  · intro hp; rw [c.lpc] at hp; rw [c.nchunkL, c.T]; exact h.pastT hp
  · intro u hu he; rw [c.U] at hu; rw [hin] at he; rw [c.lpc, hik]; exact h.inEod u hu he
  · intro u hu he; rw [c.U] at hu; rw [hup] at he; rw [hin]; exact h.unpNone u hu he
  · intro u hu he; rw [c.U] at hu; rw [hoe] at he; rw [hup]; exact h.outEod u hu he
  · intro he; rw [c.eofs] at he; rw [c.nchunk, c.T]; exact h.eof he

theorem inv_create (U T C : Nat) (hU : 0 < U) : Inv (Sys.create U T C) := by
  have hl : ∀ u, (Sys.create U T C).lane u = {} := by
    intro u
    simp only [Sys.lane, Sys.create, List.getD_eq_getElem?_getD]
    by_cases h : u < U
    · simp [List.getElem?_replicate, h]
    · simp [List.getElem?_replicate, h]
  refine ⟨hU, by simp [Sys.create], ?_, ?_, ?_, rfl, by simp [Sys.create], by simp [Sys.create], by simp [Sys.create, LPc.past], ?_, ?_, ?_, by simp [Sys.create]⟩
  · intro u _ k hk; rw [hl] at hk; simp [Lane.ks, Lane.outK, Lane.heldK, Lane.inK] at hk
  · intro u _; rw [hl]; simp [Lane.ks, Lane.outK, Lane.heldK, Lane.inK]
  · intro k h1 h2; simp [Sys.create] at h2
  · intro u _ h; rw [hl] at h; simp at h
  · intro u _ h; rw [hl] at h; simp at h
  · intro u _ h; rw [hl] at h; simp at h

end EaselModel.Pipeline
