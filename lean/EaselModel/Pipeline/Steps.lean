import EaselModel.Pipeline.Inv
/-! Every step of the pipeline preserves the invariant. -/
namespace EaselModel.Pipeline

/-- a step that only moves the loader's program counter (and fields the invariant does not mention) -/
theorem inv_lpc {s s' : Sys} (h : Inv s) (hU : s'.U = s.U) (hT : s'.T = s.T) (hl : s'.lanes = s.lanes)
    (hn : s'.nchunk = s.nchunk) (hnl : s'.nchunkL = s.nchunkL) (hr : s'.returned = s.returned) (he : s'.eofs = s.eofs)
    (hputk : ∀ b k, s'.lpc = .put b k → k = s.nchunkL ∧ k < s.T)
    (hpast : s'.lpc.past = true → s.nchunkL = s.T)
    (hmono : ∀ u, s.lpc.pastLane u = true → s'.lpc.pastLane u = true) : Inv s' := by
  have hlane : ∀ v, s'.lane v = s.lane v := fun v => by simp [Sys.lane, hl]
  refine ⟨by rw [hU]; exact h.upos, by rw [hl, hU]; exact h.len, ?_, ?_, ?_, by rw [hr, hn]; exact h.ret,
    by rw [hn, hnl, hT]; exact h.bounds, by rw [hnl, hT]; exact hputk, by rw [hnl, hT]; exact hpast, ?_, ?_, ?_,
    by rw [he, hn, hT]; exact h.eof⟩
  · intro u hu k hk; rw [hU] at hu; rw [hlane] at hk; rw [hU, hn, hnl]; exact h.range u hu k hk
  · intro u hu; rw [hU] at hu; rw [hlane]; exact h.sorted u hu
  · intro k h1 h2; rw [hn] at h1; rw [hnl] at h2; rw [hU, hlane]; exact h.complete k h1 h2
  · intro u hu hin; rw [hU] at hu; rw [hlane] at hin ⊢
    exact ⟨hmono u (h.inEod u hu hin).1, (h.inEod u hu hin).2⟩
  · intro u hu hc; rw [hU] at hu; rw [hlane] at hc ⊢; exact h.unpNone u hu hc
  · intro u hu hc; rw [hU] at hu; rw [hlane] at hc ⊢; exact h.outEod u hu hc

/-- a step that replaces lane `u` by `l'` and possibly moves counters / the loader's program counter -/
theorem inv_update {s s' : Sys} (h : Inv s) (u : Nat) (l' : Lane) (hu : u < s.U)
    (hU : s'.U = s.U) (hT : s'.T = s.T) (hl : s'.lanes = s.lanes.set u l')
    (hrange : ∀ k ∈ l'.ks, k % s.U = u ∧ s'.nchunk ≤ k ∧ k < s'.nchunkL)
    (hsorted : l'.ks.Pairwise (· < ·))
    (hother : ∀ v < s.U, v ≠ u → ∀ k ∈ (s.lane v).ks, s'.nchunk ≤ k ∧ k < s'.nchunkL)
    (hcomplete : ∀ k, s'.nchunk ≤ k → k < s'.nchunkL →
      (k % s.U = u → k ∈ l'.ks) ∧ (k % s.U ≠ u → k ∈ (s.lane (k % s.U)).ks))
    (hret : s'.returned = List.range s'.nchunk)
    (hb : s'.nchunk ≤ s'.nchunkL ∧ s'.nchunkL ≤ s.T)
    (hputk : ∀ b k, s'.lpc = .put b k → k = s'.nchunkL ∧ k < s.T)
    (hpast : s'.lpc.past = true → s'.nchunkL = s.T)
    (hinEod : l'.inEod = true → s'.lpc.pastLane u = true ∧ l'.inK = none)
    (hinEodO : ∀ v < s.U, v ≠ u → (s.lane v).inEod = true → s'.lpc.pastLane v = true)
    (hunp : (l'.upc = .put none ∨ l'.upc = .done) → l'.inEod = true)
    (hout : l'.outEod = true → l'.upc = .done)
    (heof : s'.eofs ≠ [] → s'.nchunk = s.T) : Inv s' := by
  have hlen : u < s.lanes.length := by rw [h.len]; exact hu
  have hlane : ∀ v, s'.lane v = if v = u then l' else s.lane v := by
    intro v
    have := lane_setLane s u v l' hlen
    simp only [Sys.lane, Sys.setLane] at this ⊢
    rw [hl]; exact this
  refine ⟨by rw [hU]; exact h.upos, by rw [hl, hU]; simpa using h.len, ?_, ?_, ?_, hret, by rw [hT]; exact hb,
    by rw [hT]; exact hputk, by rw [hT]; exact hpast, ?_, ?_, ?_, by rw [hT]; exact heof⟩
  · intro v hv k hk; rw [hU] at hv; rw [hlane] at hk; rw [hU]
    split at hk
    · rename_i e; subst e; exact hrange k hk
    · rename_i e; exact ⟨(h.range v hv k hk).1, hother v hv e k hk⟩
  · intro v hv; rw [hU] at hv; rw [hlane]
    split
    · exact hsorted
    · exact h.sorted v hv
  · intro k h1 h2; rw [hU, hlane]
    have := hcomplete k h1 h2
    split
    · rename_i e; exact this.1 e
    · rename_i e; exact this.2 e
  · intro v hv hi; rw [hU] at hv; rw [hlane] at hi ⊢
    split at hi
    · rename_i e; subst e; simpa using hinEod hi
    · rename_i e; simp only [e, ↓reduceIte]; exact ⟨hinEodO v hv e hi, (h.inEod v hv hi).2⟩
  · intro v hv hc; rw [hU] at hv; rw [hlane] at hc ⊢
    split at hc
    · rename_i e; subst e; simpa using hunp hc
    · rename_i e; simp only [e, ↓reduceIte]; exact h.unpNone v hv hc
  · intro v hv hc; rw [hU] at hv; rw [hlane] at hc ⊢
    split at hc
    · rename_i e; subst e; simpa using hout hc
    · rename_i e; simp only [e, ↓reduceIte]; exact h.outEod v hv hc

/-- while the loader is in its main loop no inbox is in EOD state, no unpacker has seen EOD -/
theorem Inv.noEod_of_notPast {s : Sys} (h : Inv s) (hp : ∀ u, s.lpc.pastLane u = false) (u : Nat) (hu : u < s.U) :
    (s.lane u).inEod = false ∧ (s.lane u).upc ≠ .put none ∧ (s.lane u).upc ≠ .done ∧ (s.lane u).outEod = false := by
  have h1 : (s.lane u).inEod = false := by
    cases hi : (s.lane u).inEod
    · rfl
    · have := (h.inEod u hu hi).1; rw [hp u] at this; cases this
  refine ⟨h1, ?_, ?_, ?_⟩
  · intro hc; have := h.unpNone u hu (Or.inl hc); rw [h1] at this; cases this
  · intro hc; have := h.unpNone u hu (Or.inr hc); rw [h1] at this; cases this
  · cases ho : (s.lane u).outEod
    · rfl
    · have hd := h.outEod u hu ho
      have := h.unpNone u hu (Or.inr hd); rw [h1] at this; cases this

end EaselModel.Pipeline
