import EaselModel.Pipeline.StepLoader
namespace EaselModel.Pipeline

theorem ks_get (l : Lane) (w : Option Bool) (h : l.upc = .get) :
    ({ l with inbox := none, upc := .put l.inbox, uwait := w } : Lane).ks = l.ks := by
  cases hi : l.inbox <;> simp [Lane.ks, Lane.outK, Lane.heldK, Lane.inK, h, hi]

theorem ks_put (l : Lane) (c : Option Chunk) (e : Bool) (w : Option Bool) (h : l.upc = .put c) (ho : l.outbox = none) :
    ({ l with outbox := c, outEod := e, uwait := w, upc := if c.isSome then UPc.get else UPc.done } : Lane).ks = l.ks := by
  cases c <;> simp [Lane.ks, Lane.outK, Lane.heldK, Lane.inK, h, ho]

theorem stepUnpacker_inv (s s' : Sys) (u : Nat) (h : Inv s) (hs : stepUnpacker s u = some s') : Inv s' := by
  unfold stepUnpacker at hs
  split at hs
  · cases hs
  rename_i hu'
  have hu : u < s.U := by omega
  have hlen : u < s.lanes.length := by rw [h.len]; exact hu
  simp only at hs
  split at hs
  · -- get
    rename_i hupc
    split at hs
    · cases hs; exact h.of_sameCore (sameCore_setUwait s u _ hlen)
    · rename_i hcond
      cases hs
      have hcore : Inv (s.setLane u { s.lane u with inbox := none, upc := .put (s.lane u).inbox, uwait := none }) := by
        have hk := ks_get (s.lane u) none hupc
        refine inv_update h u _ hu rfl rfl rfl ?_ ?_ ?_ ?_ h.ret h.bounds h.putk h.pastT ?_ ?_ ?_ ?_ h.eof
        · intro x hx; rw [hk] at hx; exact h.range u hu x hx
        · rw [hk]; exact h.sorted u hu
        · intro v hv _ x hx; exact (h.range v hv x hx).2
        · intro x h1 h2
          have := h.complete x h1 h2
          exact ⟨fun e => by rw [hk]; rw [e] at this; exact this, fun _ => this⟩
        · intro hi; exact ⟨(h.inEod u hu hi).1, rfl⟩
        · intro v hv _ hi; exact (h.inEod v hv hi).1
        · intro hc
          show (s.lane u).inEod = true
          simp only [reduceCtorEq, or_false] at hc
          have : (s.lane u).inbox = none := by injection hc
          simp only [this, Option.isNone_none, Bool.and_true, Bool.not_eq_true', Bool.not_eq_eq_eq_not, Bool.not_false] at hcond
          simpa using hcond
        · intro ho
          have := h.outEod u hu ho
          rw [hupc] at this; cases this
      split
      · exact hcore.of_sameCore (sameCore_signalInbox _ u (by simpa using hlen))
      · exact hcore
  · -- put c
    rename_i c hupc
    split at hs
    · cases hs; exact h.of_sameCore (sameCore_setUwait s u _ hlen)
    · rename_i ho
      have ho' : (s.lane u).outbox = none := by simpa using ho
      cases hs
      refine Inv.of_sameCore ?_ (sameCore_signalOutbox _ u (by simpa using hlen))
      have hk := ks_put (s.lane u) c ((s.lane u).outEod || c.isNone) none hupc ho'
      refine inv_update h u _ hu rfl rfl rfl ?_ ?_ ?_ ?_ h.ret h.bounds h.putk h.pastT ?_ ?_ ?_ ?_ h.eof
      · intro x hx; rw [hk] at hx; exact h.range u hu x hx
      · rw [hk]; exact h.sorted u hu
      · intro v hv _ x hx; exact (h.range v hv x hx).2
      · intro x h1 h2
        have := h.complete x h1 h2
        exact ⟨fun e => by rw [hk]; rw [e] at this; exact this, fun _ => this⟩
      · intro hi; exact h.inEod u hu hi
      · intro v hv _ hi; exact (h.inEod v hv hi).1
      · intro hc
        show (s.lane u).inEod = true
        cases c with
        | none => exact h.unpNone u hu (Or.inl hupc)
        | some ch => simp at hc
      · intro hc
        have hold : (s.lane u).outEod = false := by
          cases hoe : (s.lane u).outEod
          · rfl
          · have := h.outEod u hu hoe; rw [hupc] at this; cases this
        cases c with
        | none => rfl
        | some ch => simp [hold] at hc
  · cases hs

theorem ks_takeOut (l : Lane) (c : Chunk) (h : l.outbox = some c) : l.ks = c.2 :: ({ l with outbox := none } : Lane).ks := by
  simp [Lane.ks, Lane.outK, Lane.heldK, Lane.inK, h]

theorem readBody_inv (s : Sys) (c : Nat) (h : Inv s) : Inv (readBody s c) := by
  have hu : s.nchunk % s.U < s.U := Nat.mod_lt _ h.upos
  have hlen : s.nchunk % s.U < s.lanes.length := by rw [h.len]; exact hu
  unfold readBody
  simp only
  split
  · exact h.of_sameCore ⟨rfl, rfl, rfl, fun _ => rfl, rfl, rfl, rfl, rfl, rfl⟩
  · rename_i hcond
    split
    · -- a chunk is taken
      rename_i b k hout
      refine Inv.of_sameCore ?_ (sameCore_signalOutbox _ _ (by simpa using hlen))
      have hks := ks_takeOut (s.lane (s.nchunk % s.U)) (b, k) hout
      have hkmem : k ∈ (s.lane (s.nchunk % s.U)).ks := by rw [hks]; simp
      have hkr := h.range _ hu k hkmem
      have hsorted := h.sorted _ hu
      rw [hks] at hsorted
      have hhead : ∀ x ∈ ({ s.lane (s.nchunk % s.U) with outbox := none } : Lane).ks, k < x := (List.pairwise_cons.mp hsorted).1
      -- the head of the lane is chunk number `nchunk`
      have hkn : k = s.nchunk := by
        have := h.complete s.nchunk (Nat.le_refl _) (by omega)
        rw [hks] at this
        rcases List.mem_cons.mp this with e | hm
        · exact e.symm
        · have := hhead _ hm; omega
      subst hkn
      refine inv_update h (s.nchunk % s.U) { s.lane (s.nchunk % s.U) with outbox := none } hu rfl rfl rfl ?_ ?_ ?_ ?_ ?_ ?_ h.putk h.pastT ?_ ?_ ?_ ?_ ?_
      · intro x hx
        have hx' : x ∈ (s.lane (s.nchunk % s.U)).ks := by rw [hks]; exact List.mem_cons_of_mem _ hx
        have := h.range _ hu x hx'
        have := hhead x hx
        show x % s.U = s.nchunk % s.U ∧ s.nchunk + 1 ≤ x ∧ x < s.nchunkL
        omega
      · exact (List.pairwise_cons.mp hsorted).2
      · intro v hv hne x hx
        have := h.range v hv x hx
        show s.nchunk + 1 ≤ x ∧ x < s.nchunkL
        have hne' : x ≠ s.nchunk := by intro e; subst e; exact hne this.1.symm
        omega
      · intro x h1 h2
        have h1' : s.nchunk + 1 ≤ x := h1
        have := h.complete x (by omega) h2
        refine ⟨fun e => ?_, fun _ => this⟩
        rw [e, hks] at this
        rcases List.mem_cons.mp this with e' | hm
        · omega
        · exact hm
      · show s.returned ++ [s.nchunk] = List.range (s.nchunk + 1)
        rw [List.range_succ, h.ret]
      · have := h.bounds; show s.nchunk + 1 ≤ s.nchunkL ∧ s.nchunkL ≤ s.T; omega
      · intro hi; exact h.inEod _ hu hi
      · intro v hv _ hi; exact (h.inEod v hv hi).1
      · intro hc; exact h.unpNone _ hu hc
      · intro hc; exact h.outEod _ hu hc
      · intro he
        have := h.eof he
        have := h.bounds
        show s.nchunk + 1 = s.T
        omega
    · -- end of data
      rename_i hout
      have hoe : (s.lane (s.nchunk % s.U)).outEod = true := by
        simp only [hout, Option.isNone_none, Bool.and_true, Bool.not_eq_true', Bool.not_eq_eq_eq_not, Bool.not_false] at hcond
        simpa using hcond
      have hdone := h.outEod _ hu hoe
      have hine := h.unpNone _ hu (Or.inr hdone)
      have hpast := h.inEod _ hu hine
      have hks : (s.lane (s.nchunk % s.U)).ks = [] := by
        simp [Lane.ks, Lane.outK, Lane.heldK, hout, hdone, hpast.2]
      have hT : s.nchunkL = s.T := by
        apply h.pastT
        have := hpast.1
        cases hl : s.lpc <;> simp [hl, LPc.pastLane, LPc.past] at this ⊢
      have hn : s.nchunk = s.T := by
        have hb := h.bounds
        apply Classical.byContradiction; intro hne
        have := h.complete s.nchunk (Nat.le_refl _) (by omega)
        rw [hks] at this; cases this
      exact ⟨h.upos, h.len, h.range, h.sorted, h.complete, h.ret, h.bounds, h.putk, h.pastT, h.inEod, h.unpNone, h.outEod, fun _ => hn⟩

theorem step_inv (s s' : Sys) (l : Label) (h : Inv s) (hs : step s l = some s') : Inv s' := by
  cases l with
  | loader => exact stepLoader_inv s s' h hs
  | unpacker u => exact stepUnpacker_inv s s' u h hs
  | read c =>
    simp only [step] at hs
    split at hs
    · cases hs
    · cases hs; exact readBody_inv s c h
  | readWake =>
    simp only [step] at hs
    split at hs
    · cases hs; exact readBody_inv s _ h
    · cases hs
  | recycle c b k =>
    simp only [step] at hs
    split at hs
    · cases hs
      refine Inv.of_sameCore ?_ (sameCore_signalRecycling _)
      exact h.of_sameCore ⟨rfl, rfl, rfl, fun _ => rfl, rfl, rfl, rfl, rfl, rfl⟩
    · cases hs

inductive Reachable (U T C : Nat) : Sys → Prop
  | create : Reachable U T C (Sys.create U T C)
  | step {s s' : Sys} {l : Label} : Reachable U T C s → step s l = some s' → Reachable U T C s'

theorem reachable_inv {U T C : Nat} (hU : 0 < U) {s : Sys} (h : Reachable U T C s) : Inv s := by
  induction h with
  | create => exact inv_create U T C hU
  | step _ hs ih => exact step_inv _ _ _ ih hs

theorem run_reachable {U T C : Nat} (s : Sys) (ls : List Label) (s' : Sys) (h : Reachable U T C s) (hr : run s ls = some s') :
    Reachable U T C s' := by
  induction ls generalizing s with
  | nil => simp [run] at hr; subst hr; exact h
  | cons l ls ih =>
    simp only [run] at hr
    split at hr
    · rename_i s1 hs1; exact ih s1 (Reachable.step h hs1) hr
    · cases hr

end EaselModel.Pipeline
