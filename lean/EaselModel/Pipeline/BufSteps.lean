import EaselModel.Pipeline.Buffers
namespace EaselModel.Pipeline

theorem inv2_create (U T C : Nat) : Inv2 (Sys.create U T C) := by
  have hl : ∀ u, (Sys.create U T C).lane u = {} := by
    intro u
    simp only [Sys.lane, Sys.create, List.getD_eq_getElem?_getD]
    by_cases h : u < U <;> simp [h]
  refine ⟨?_, ?_, ?_, rfl⟩
  · intro u _ h; rw [hl] at h; cases h
  · intro u _ h; simp [Sys.create, LPc.pastLane] at h
  · simp only [Sys.live, Sys.create, List.map_replicate, LPc.nbuf, List.length_nil, Nat.add_zero]
    induction U with
    | zero => rfl
    | succ n ih => simp [List.replicate_succ, Lane.nbuf] at ih ⊢

theorem inv2_nolane {s s' : Sys} (h2 : Inv2 s) (hU : s'.U = s.U) (hl : s'.lanes = s.lanes)
    (hpast : ∀ v < s.U, s'.lpc.pastLane v = true → (s.lane v).inEod = true)
    (hcount : s'.recycling.length + s'.cheld.length + s'.lpc.nbuf + s.nalloc
            = s.recycling.length + s.cheld.length + s.lpc.nbuf + s'.nalloc)
    (hcreated : s'.nextBuf = s'.nalloc + s'.freed) : Inv2 s' := by
  have hlane : ∀ v, s'.lane v = s.lane v := fun v => by simp [Sys.lane, hl]
  refine ⟨?_, ?_, ?_, hcreated⟩
  · intro u hu hd; rw [hU] at hu; rw [hlane] at hd ⊢; exact h2.doneOut u hu hd
  · intro u hu hp; rw [hU] at hu; rw [hlane]; exact hpast u hu hp
  · have := h2.count
    simp only [Sys.live] at this ⊢
    rw [hl]; omega

theorem inv2_update {s s' : Sys} (h2 : Inv2 s) (h : Inv s) (u : Nat) (l' : Lane) (hu : u < s.U)
    (hU : s'.U = s.U) (hl : s'.lanes = s.lanes.set u l')
    (hdone : l'.upc = .done → l'.outEod = true)
    (hpastU : s'.lpc.pastLane u = true → l'.inEod = true)
    (hpastO : ∀ v < s.U, v ≠ u → s'.lpc.pastLane v = true → (s.lane v).inEod = true)
    (hcount : l'.nbuf + s'.recycling.length + s'.cheld.length + s'.lpc.nbuf + s.nalloc
            = (s.lane u).nbuf + s.recycling.length + s.cheld.length + s.lpc.nbuf + s'.nalloc)
    (hcreated : s'.nextBuf = s'.nalloc + s'.freed) : Inv2 s' := by
  have hlen : u < s.lanes.length := by rw [h.len]; exact hu
  have hlane : ∀ v, s'.lane v = if v = u then l' else s.lane v := by
    intro v
    have := lane_setLane s u v l' hlen
    simp only [Sys.lane, Sys.setLane] at this ⊢
    rw [hl]; exact this
  refine ⟨?_, ?_, ?_, hcreated⟩
  · intro v hv hd; rw [hU] at hv; rw [hlane] at hd ⊢
    split at hd
    · rename_i e; subst e; simpa using hdone hd
    · rename_i e; simp only [e, ↓reduceIte]; exact h2.doneOut v hv hd
  · intro v hv hp; rw [hU] at hv; rw [hlane]
    split
    · rename_i e; subst e; exact hpastU hp
    · rename_i e; exact hpastO v hv e hp
  · have := h2.count
    have hs := live_setLane s u l' hlen
    simp only [Sys.live, Sys.setLane] at this hs ⊢
    rw [hl]; omega

theorem nbuf_setInbox (l : Lane) (c : Chunk) (h : l.inbox = none) : ({ l with inbox := some c } : Lane).nbuf = l.nbuf + 1 := by
  simp [Lane.nbuf, h]; omega

theorem nbuf_get (l : Lane) (w : Option Bool) (h : l.upc = .get) :
    ({ l with inbox := none, upc := .put l.inbox, uwait := w } : Lane).nbuf = l.nbuf := by
  cases hi : l.inbox <;> simp [Lane.nbuf, h, hi] <;> omega

theorem nbuf_put (l : Lane) (c : Option Chunk) (e : Bool) (w : Option Bool) (h : l.upc = .put c) (ho : l.outbox = none) :
    ({ l with outbox := c, outEod := e, uwait := w, upc := if c.isSome then UPc.get else UPc.done } : Lane).nbuf = l.nbuf := by
  cases c <;> simp [Lane.nbuf, h, ho]

theorem nbuf_takeOut (l : Lane) (c : Chunk) (h : l.outbox = some c) : l.nbuf = ({ l with outbox := none } : Lane).nbuf + 1 := by
  simp [Lane.nbuf, h]; omega

theorem stepLoader_inv2 (s s' : Sys) (h : Inv s) (h2 : Inv2 s) (hs : stepLoader s = some s') : Inv2 s' := by
  have hcnt := h2.count
  have hcr := h2.created
  unfold stepLoader at hs
  split at hs
  · rename_i hl
    have hnp : ∀ u, s.lpc.pastLane u = true → False := by intro u hu; rw [hl] at hu; cases hu
    split at hs
    · cases hs
      exact inv2_nolane h2 rfl rfl (by intro v _ hp; cases hp) (by simp [hl, LPc.nbuf]; omega) (by simp; omega)
    · split at hs
      · cases hs; exact h2.of_sameAll (sameAll_setLwait s _)
      · rename_i b rest hr; cases hs
        exact inv2_nolane h2 rfl rfl (by intro v _ hp; cases hp) (by simp [hl, hr, LPc.nbuf]; omega) hcr
  · rename_i b hl
    split at hs
    · cases hs
      exact inv2_nolane h2 rfl rfl (by intro v _ hp; cases hp) (by simp [hl, LPc.nbuf]) hcr
    · cases hs
      have hpos : 0 < s.nalloc := by simp only [Sys.live, hl, LPc.nbuf] at hcnt; omega
      exact inv2_nolane h2 rfl rfl (by intro v _ hp; simp [LPc.pastLane] at hp) (by simp [hl, LPc.nbuf]; omega) (by simp; omega)
  · rename_i b k hl
    have hu : k % s.U < s.U := Nat.mod_lt _ h.upos
    simp only at hs
    split at hs
    · cases hs; exact h2.of_sameAll (sameAll_setLwait s _)
    · rename_i hin
      have hin' : (s.lane (k % s.U)).inbox = none := by simpa using hin
      cases hs
      refine Inv2.of_sameAll ?_ (sameAll_signalInbox _ _ (by simp; rw [h.len]; exact hu))
      refine inv2_update h2 h (k % s.U) { s.lane (k % s.U) with inbox := some (b, k) } hu rfl rfl ?_ ?_ ?_ ?_ hcr
      · intro hd; exact h2.doneOut _ hu hd
      · intro hp; cases hp
      · intro v _ _ hp; cases hp
      · show ({ s.lane (k % s.U) with inbox := some (b, k) } : Lane).nbuf + s.recycling.length + s.cheld.length + LPc.nbuf .top + s.nalloc = _
        rw [nbuf_setInbox _ _ hin']; simp [hl, LPc.nbuf]; omega
  · rename_i u hl
    split at hs
    · rename_i hge; cases hs
      refine inv2_nolane h2 rfl rfl ?_ (by simp [hl, LPc.nbuf]) hcr
      intro v hv _
      exact h2.pastIn v hv (by rw [hl]; simp [LPc.pastLane]; omega)
    · rename_i hult
      have hu : u < s.U := by omega
      simp only at hs
      split at hs
      · cases hs; exact h2.of_sameAll (sameAll_setLwait s _)
      · cases hs
        refine Inv2.of_sameAll ?_ (sameAll_signalInbox _ _ (by simp; rw [h.len]; exact hu))
        refine inv2_update h2 h u { s.lane u with inEod := true } hu rfl rfl ?_ ?_ ?_ ?_ hcr
        · intro hd; exact h2.doneOut _ hu hd
        · intro _; rfl
        · intro v hv hne hp
          apply h2.pastIn v hv
          rw [hl]
          have : LPc.pastLane (.eod (u + 1)) v = true := hp
          simp only [LPc.pastLane, decide_eq_true_eq] at this ⊢
          omega
        · show ({ s.lane u with inEod := true } : Lane).nbuf + s.recycling.length + s.cheld.length + LPc.nbuf (.eod (u + 1)) + s.nalloc = _
          simp [Lane.nbuf, hl, LPc.nbuf]
  · rename_i hl
    split at hs
    · cases hs
      exact inv2_nolane h2 rfl rfl (fun v hv _ => h2.pastIn v hv (by rw [hl]; rfl)) (by simp [hl, LPc.nbuf]) hcr
    · split at hs
      · cases hs; exact h2.of_sameAll (sameAll_setLwait s _)
      · rename_i hne bs hr
        cases hs
        have hle : s.recycling.length ≤ s.nalloc := by simp only [Sys.live] at hcnt; omega
        exact inv2_nolane h2 rfl rfl (fun v hv _ => h2.pastIn v hv (by rw [hl]; rfl)) (by simp [hl, LPc.nbuf]; omega) (by simp; omega)
  · cases hs

end EaselModel.Pipeline

namespace EaselModel.Pipeline

theorem stepUnpacker_inv2 (s s' : Sys) (u : Nat) (h : Inv s) (h2 : Inv2 s) (hs : stepUnpacker s u = some s') : Inv2 s' := by
  have hcr := h2.created
  unfold stepUnpacker at hs
  split at hs
  · cases hs
  rename_i hu'
  have hu : u < s.U := by omega
  have hlen : u < s.lanes.length := by rw [h.len]; exact hu
  simp only at hs
  split at hs
  · rename_i hupc
    split at hs
    · cases hs; exact h2.of_sameAll (sameAll_setUwait s u _ hlen)
    · cases hs
      have hcore : Inv2 (s.setLane u { s.lane u with inbox := none, upc := .put (s.lane u).inbox, uwait := none }) := by
        refine inv2_update h2 h u _ hu rfl rfl ?_ ?_ ?_ ?_ hcr
        · intro hd; cases hd
        · intro hp; exact h2.pastIn u hu hp
        · intro v hv _ hp; exact h2.pastIn v hv hp
        · simp only [setLane_recycling, setLane_cheld, setLane_lpc, setLane_nalloc]
          rw [nbuf_get _ _ hupc]
      split
      · exact hcore.of_sameAll (sameAll_signalInbox _ u (by simpa using hlen))
      · exact hcore
  · rename_i c hupc
    split at hs
    · cases hs; exact h2.of_sameAll (sameAll_setUwait s u _ hlen)
    · rename_i ho
      have ho' : (s.lane u).outbox = none := by simpa using ho
      cases hs
      refine Inv2.of_sameAll ?_ (sameAll_signalOutbox _ u (by simpa using hlen))
      refine inv2_update h2 h u _ hu rfl rfl ?_ ?_ ?_ ?_ hcr
      · intro hd
        cases c with
        | none => simp
        | some ch => simp at hd
      · intro hp; exact h2.pastIn u hu hp
      · intro v hv _ hp; exact h2.pastIn v hv hp
      · simp only [setLane_recycling, setLane_cheld, setLane_lpc, setLane_nalloc]
        rw [nbuf_put _ c _ _ hupc ho']
  · cases hs

theorem readBody_inv2 (s : Sys) (c : Nat) (h : Inv s) (h2 : Inv2 s) : Inv2 (readBody s c) := by
  have hu : s.nchunk % s.U < s.U := Nat.mod_lt _ h.upos
  have hlen : s.nchunk % s.U < s.lanes.length := by rw [h.len]; exact hu
  unfold readBody
  simp only
  split
  · exact h2.of_sameAll ⟨⟨rfl, rfl, rfl, fun _ => rfl, rfl, rfl, rfl, rfl, rfl⟩, rfl, rfl, rfl, rfl, rfl, rfl, rfl⟩
  · split
    · rename_i b k hout
      refine Inv2.of_sameAll ?_ (sameAll_signalOutbox _ _ (by simpa using hlen))
      refine inv2_update h2 h (s.nchunk % s.U) { s.lane (s.nchunk % s.U) with outbox := none } hu rfl rfl ?_ ?_ ?_ ?_ h2.created
      · intro hd; exact h2.doneOut _ hu hd
      · intro hp; exact h2.pastIn _ hu hp
      · intro v hv _ hp; exact h2.pastIn v hv hp
      · simp only [setLane_recycling, setLane_cheld, setLane_lpc, setLane_nalloc, List.length_cons]
        have := nbuf_takeOut _ _ hout
        omega
    · exact ⟨h2.doneOut, h2.pastIn, h2.count, h2.created⟩

theorem step_inv2 (s s' : Sys) (l : Label) (h : Inv s) (h2 : Inv2 s) (hs : step s l = some s') : Inv2 s' := by
  cases l with
  | loader => exact stepLoader_inv2 s s' h h2 hs
  | unpacker u => exact stepUnpacker_inv2 s s' u h h2 hs
  | read c =>
    simp only [step] at hs
    split at hs
    · cases hs
    · cases hs; exact readBody_inv2 s c h h2
  | readWake =>
    simp only [step] at hs
    split at hs
    · cases hs; exact readBody_inv2 s _ h h2
    · cases hs
  | recycle c b k =>
    simp only [step] at hs
    split at hs
    · rename_i hm
      cases hs
      refine Inv2.of_sameAll ?_ (sameAll_signalRecycling _)
      have hl := List.length_erase_of_mem hm
      have hp := List.length_pos_of_mem hm
      refine inv2_nolane h2 rfl rfl (fun v hv hp => h2.pastIn v hv hp) ?_ h2.created
      simp only [List.length_cons, hl]; omega
    · cases hs

theorem reachable_inv2 {U T C : Nat} (hU : 0 < U) {s : Sys} (h : Reachable U T C s) : Inv s ∧ Inv2 s := by
  induction h with
  | create => exact ⟨inv_create U T C hU, inv2_create U T C⟩
  | step _ hs ih => exact ⟨step_inv _ _ _ ih.1 hs, step_inv2 _ _ _ ih.1 ih.2 hs⟩

end EaselModel.Pipeline
