import EaselModel.Pipeline.Steps
namespace EaselModel.Pipeline

theorem ks_setInbox (l : Lane) (c : Chunk) (h : l.inbox = none) : ({ l with inbox := some c } : Lane).ks = l.ks ++ [c.2] := by
  simp [Lane.ks, Lane.outK, Lane.heldK, Lane.inK, h]

theorem ks_setInEod (l : Lane) (b : Bool) : ({ l with inEod := b } : Lane).ks = l.ks := rfl

theorem stepLoader_inv (s s' : Sys) (h : Inv s) (hs : stepLoader s = some s') : Inv s' := by
  unfold stepLoader at hs
  split at hs
  · -- top
    rename_i hl
    have hnp : ∀ u, s.lpc.pastLane u = true → False := by intro u hu; rw [hl] at hu; cases hu
    split at hs
    · cases hs
      exact inv_lpc h rfl rfl rfl rfl rfl rfl rfl (by intro _ _ hc; cases hc) (by intro hc; cases hc) (fun u hu => (hnp u hu).elim)
    · split at hs
      · cases hs; exact h.of_sameCore (sameCore_setLwait s _)
      · cases hs
        exact inv_lpc h rfl rfl rfl rfl rfl rfl rfl (by intro _ _ hc; cases hc) (by intro hc; cases hc) (fun u hu => (hnp u hu).elim)
  · -- haveBuf
    rename_i b hl
    have hnp : ∀ u, s.lpc.pastLane u = true → False := by intro u hu; rw [hl] at hu; cases hu
    split at hs
    · rename_i hlt; cases hs
      exact inv_lpc h rfl rfl rfl rfl rfl rfl rfl (by intro b' k' hc; cases hc; exact ⟨rfl, hlt⟩) (by intro hc; cases hc) (fun u hu => (hnp u hu).elim)
    · rename_i hge; cases hs
      exact inv_lpc h rfl rfl rfl rfl rfl rfl rfl (by intro _ _ hc; cases hc) (by intro _; have := h.bounds; omega) (fun u hu => (hnp u hu).elim)
  · -- put b k
    rename_i b k hl
    have hk := h.putk b k hl
    have hu : k % s.U < s.U := Nat.mod_lt _ h.upos
    have hnp : ∀ v, s.lpc.pastLane v = false := by intro v; rw [hl]; rfl
    simp only at hs
    split at hs
    · cases hs; exact h.of_sameCore (sameCore_setLwait s _)
    · rename_i hin
      have hin' : (s.lane (k % s.U)).inbox = none := by simpa using hin
      cases hs
      refine Inv.of_sameCore ?_ (sameCore_signalInbox _ _ (by simp; rw [h.len]; exact hu))
      have hb := h.bounds
      refine inv_update h (k % s.U) { s.lane (k % s.U) with inbox := some (b, k) } hu rfl rfl rfl ?_ ?_ ?_ ?_ h.ret ?_ ?_ ?_ ?_ ?_ ?_ ?_ h.eof
      · intro x hx
        rw [ks_setInbox _ _ hin'] at hx
        show x % s.U = k % s.U ∧ s.nchunk ≤ x ∧ x < k + 1
        rcases List.mem_append.mp hx with hx | hx
        · have := h.range _ hu x hx; omega
        · simp at hx; subst hx; exact ⟨rfl, by omega, by omega⟩
      · rw [ks_setInbox _ _ hin', List.pairwise_append]
        refine ⟨h.sorted _ hu, by simp, ?_⟩
        intro a ha c hc; simp at hc; subst hc
        have := h.range _ hu a ha; omega
      · intro v hv _ x hx
        have := h.range v hv x hx
        show s.nchunk ≤ x ∧ x < k + 1
        omega
      · intro x h1 h2
        have h2' : x < k + 1 := h2
        have h1' : s.nchunk ≤ x := h1
        rw [ks_setInbox _ _ hin']
        by_cases hx : x = k
        · subst hx; exact ⟨fun _ => by simp, fun hne => absurd rfl hne⟩
        · have := h.complete x h1' (by omega)
          exact ⟨fun e => by rw [e] at this; exact List.mem_append_left _ this, fun _ => this⟩
      · show s.nchunk ≤ k + 1 ∧ k + 1 ≤ s.T; omega
      · intro _ _ hc; cases hc
      · intro hc; cases hc
      · intro hi; have := (h.noEod_of_notPast hnp _ hu).1; simp [this] at hi
      · intro v hv _ hi; have := (h.noEod_of_notPast hnp v hv).1; rw [this] at hi; cases hi
      · intro hc
        have := h.noEod_of_notPast hnp _ hu
        rcases hc with hc | hc
        · exact absurd hc this.2.1
        · exact absurd hc this.2.2.1
      · intro hc; have := (h.noEod_of_notPast hnp _ hu).2.2.2; simp [this] at hc
  · -- eod u
    rename_i u hl
    split at hs
    · cases hs
      exact inv_lpc h rfl rfl rfl rfl rfl rfl rfl (by intro _ _ hc; cases hc) (by intro _; exact h.pastT (by rw [hl]; rfl))
        (fun v _ => rfl)
    · rename_i hult
      have hu : u < s.U := by omega
      simp only at hs
      split at hs
      · cases hs; exact h.of_sameCore (sameCore_setLwait s _)
      · rename_i hin
        have hin' : (s.lane u).inbox = none := by simpa using hin
        cases hs
        refine Inv.of_sameCore ?_ (sameCore_signalInbox _ _ (by simp; rw [h.len]; exact hu))
        have hpt := h.pastT (by rw [hl]; rfl)
        refine inv_update h u { s.lane u with inEod := true } hu rfl rfl rfl ?_ (h.sorted u hu) ?_ ?_ h.ret h.bounds ?_ ?_ ?_ ?_ ?_ ?_ h.eof
        · intro x hx; exact h.range u hu x hx
        · intro v hv _ x hx; exact (h.range v hv x hx).2
        · intro x h1 h2
          have := h.complete x h1 h2
          exact ⟨fun e => by rw [e] at this; exact this, fun _ => this⟩
        · intro _ _ hc; cases hc
        · intro _; exact hpt
        · intro _; exact ⟨by show LPc.pastLane (.eod (u + 1)) u = true; simp [LPc.pastLane], by simp [Lane.inK, hin']⟩
        · intro v hv _ hi
          have := (h.inEod v hv hi).1
          rw [hl] at this
          show LPc.pastLane (.eod (u + 1)) v = true
          simp only [LPc.pastLane, decide_eq_true_eq] at this ⊢
          omega
        · intro _; rfl
        · intro hc; exact h.outEod u hu hc
  · -- drain
    rename_i hl
    have hpt := h.pastT (by rw [hl]; rfl)
    split at hs
    · cases hs
      exact inv_lpc h rfl rfl rfl rfl rfl rfl rfl (by intro _ _ hc; cases hc) (fun _ => hpt) (fun v _ => rfl)
    · split at hs
      · cases hs; exact h.of_sameCore (sameCore_setLwait s _)
      · cases hs
        exact inv_lpc h rfl rfl rfl rfl rfl rfl rfl (by intro _ _ hc; rw [hl] at hc; cases hc) (fun _ => hpt) (fun v hv => hv)
  · cases hs

end EaselModel.Pipeline
