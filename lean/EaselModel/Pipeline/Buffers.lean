import EaselModel.Pipeline.StepOthers
/-! Second invariant: chunk buffers are conserved (created = live + destroyed, every live buffer is in exactly one
    place), EOD flags follow the loader's / unpackers' program counters. Used for deadlock freedom and for
    "at loader exit every chunk created has been destroyed". -/
namespace EaselModel.Pipeline

def Lane.nbuf (l : Lane) : Nat :=
  l.inbox.toList.length + l.outbox.toList.length + (match l.upc with | .put (some _) => 1 | _ => 0)

def LPc.nbuf : LPc → Nat
  | .haveBuf _ | .put _ _ => 1
  | _ => 0

/-- number of chunk buffers that exist: in the lanes, on the recycling stack, in consumers' hands, in the loader's hands -/
def Sys.live (s : Sys) : Nat := (s.lanes.map Lane.nbuf).sum + s.recycling.length + s.cheld.length + s.lpc.nbuf

structure Inv2 (s : Sys) : Prop where
  doneOut : ∀ u < s.U, (s.lane u).upc = .done → (s.lane u).outEod = true
  pastIn : ∀ u < s.U, s.lpc.pastLane u = true → (s.lane u).inEod = true
  count : s.live = s.nalloc
  created : s.nextBuf = s.nalloc + s.freed

theorem sum_map_set {α} (l : List α) (f : α → Nat) (i : Nat) (x : α) (d : α) (h : i < l.length) :
    ((l.set i x).map f).sum + f (l.getD i d) = (l.map f).sum + f x := by
  induction l generalizing i with
  | nil => simp at h
  | cons a as ih =>
    cases i with
    | zero => simp; omega
    | succ j =>
      have := ih j (by simpa using h)
      simp only [List.set_cons_succ, List.map_cons, List.sum_cons, List.getD_cons_succ]
      omega

theorem live_setLane (s : Sys) (u : Nat) (l : Lane) (hu : u < s.lanes.length) :
    ((s.setLane u l).lanes.map Lane.nbuf).sum + (s.lane u).nbuf = (s.lanes.map Lane.nbuf).sum + l.nbuf := by
  simp only [Sys.setLane, Sys.lane]
  exact sum_map_set s.lanes Lane.nbuf u l {} hu

/-- states that differ only in wait / signalled flags -/
structure SameAll (s s' : Sys) : Prop where
  core : SameCore s s'
  lanesN : (s'.lanes.map Lane.nbuf) = (s.lanes.map Lane.nbuf)
  recycling : s'.recycling = s.recycling
  cheld : s'.cheld = s.cheld
  nalloc : s'.nalloc = s.nalloc
  nextBuf : s'.nextBuf = s.nextBuf
  freed : s'.freed = s.freed
  limit : s'.limit = s.limit

theorem SameAll.refl (s : Sys) : SameAll s s := ⟨SameCore.refl s, rfl, rfl, rfl, rfl, rfl, rfl, rfl⟩

theorem SameAll.trans {a b c : Sys} (h1 : SameAll a b) (h2 : SameAll b c) : SameAll a c :=
  ⟨h1.core.trans h2.core, h2.lanesN.trans h1.lanesN, h2.recycling.trans h1.recycling, h2.cheld.trans h1.cheld,
   h2.nalloc.trans h1.nalloc, h2.nextBuf.trans h1.nextBuf, h2.freed.trans h1.freed, h2.limit.trans h1.limit⟩

theorem map_set_same {α β} (l : List α) (f : α → β) (i : Nat) (x : α) (d : α) (h : f x = f (l.getD i d)) :
    (l.set i x).map f = l.map f := by
  induction l generalizing i with
  | nil => simp
  | cons a as ih =>
    cases i with
    | zero => simp at h ⊢; exact h
    | succ j => simp only [List.set_cons_succ, List.map_cons]; rw [ih j (by simpa using h)]

theorem sameAll_setUwait (s : Sys) (u : Nat) (w : Option Bool) (hu : u < s.lanes.length) :
    SameAll s (s.setLane u { s.lane u with uwait := w }) :=
  ⟨sameCore_setUwait s u w hu, by
      simp only [Sys.setLane, Sys.lane]
      exact map_set_same _ _ _ _ {} rfl, rfl, rfl, rfl, rfl, rfl, rfl⟩

theorem sameAll_setLwait (s : Sys) (w : Option Bool) : SameAll s { s with lwait := w } :=
  ⟨sameCore_setLwait s w, rfl, rfl, rfl, rfl, rfl, rfl, rfl⟩

theorem sameAll_setRsig (s : Sys) (w : Bool) : SameAll s { s with rsig := w } :=
  ⟨sameCore_setRsig s w, rfl, rfl, rfl, rfl, rfl, rfl, rfl⟩

theorem sameAll_condUwait (s : Sys) (u : Nat) (c : Bool) (hu : u < s.lanes.length) :
    SameAll s (if c then s.setLane u { s.lane u with uwait := some true } else s) := by
  split
  · exact sameAll_setUwait s u _ hu
  · exact SameAll.refl s

theorem sameAll_signalInbox (s : Sys) (u : Nat) (hu : u < s.lanes.length) : SameAll s (signalInbox s u) := by
  unfold signalInbox
  simp only
  have h1 : SameAll s (if s.lwait.isSome && loaderOnInbox s u then { s with lwait := some true } else s) := by
    split
    · exact sameAll_setLwait s _
    · exact SameAll.refl s
  exact h1.trans (sameAll_condUwait _ u _ (by rw [h1.core.len]; exact hu))

theorem sameAll_signalOutbox (s : Sys) (u : Nat) (hu : u < s.lanes.length) : SameAll s (signalOutbox s u) := by
  unfold signalOutbox
  simp only
  have h1 : SameAll s (if s.reader.isSome && s.nchunk % s.U == u then { s with rsig := true } else s) := by
    split
    · exact sameAll_setRsig s _
    · exact SameAll.refl s
  exact h1.trans (sameAll_condUwait _ u _ (by rw [h1.core.len]; exact hu))

theorem sameAll_signalRecycling (s : Sys) : SameAll s (signalRecycling s) := by
  unfold signalRecycling
  split
  · split
    · exact sameAll_setLwait s _
    · exact SameAll.refl s
  · split
    · exact sameAll_setLwait s _
    · exact SameAll.refl s
  · exact SameAll.refl s

theorem Inv2.of_sameAll {s s' : Sys} (h : Inv2 s) (c : SameAll s s') : Inv2 s' := by
  have hc := c.core.lane
  have hup : ∀ v, (s'.lane v).upc = (s.lane v).upc := fun v => by have := hc v; simp [Lane.core] at this; exact this.2.2.2.2
  have hoe : ∀ v, (s'.lane v).outEod = (s.lane v).outEod := fun v => by have := hc v; simp [Lane.core] at this; exact this.2.2.2.1
  have hin : ∀ v, (s'.lane v).inEod = (s.lane v).inEod := fun v => by have := hc v; simp [Lane.core] at this; exact this.2.1
  refine ⟨?_, ?_, ?_, by rw [c.nextBuf, c.nalloc, c.freed]; exact h.created⟩
  · intro u hu hd; rw [c.core.U] at hu; rw [hup] at hd; rw [hoe]; exact h.doneOut u hu hd
  · intro u hu hp; rw [c.core.U] at hu; rw [c.core.lpc] at hp; rw [hin]; exact h.pastIn u hu hp
  · have := h.count
    simp only [Sys.live] at this ⊢
    rw [c.lanesN, c.recycling, c.cheld, c.core.lpc, c.nalloc]; exact this

end EaselModel.Pipeline
