import EaselModel.Pipeline.BufSteps
/-! # Chunk ownership in the dsqdata pipeline: every chunk buffer is in exactly one place, whatever the schedule

A chunk buffer (`ESL_DSQDATA_CHUNK`, identified by its creation number) is touched outside any mutex by the thread that
holds it - the loader (`fread`s into it), unpacker `u` (`dsqdata_unpack_chunk`), a consumer (between `Read` and
`Recycle`) - and is otherwise parked in a mutex-protected slot: `inbox[u]`, `outbox[u]`, the recycling stack. The third
inductive invariant `Own` says that no buffer id occurs twice among all these places and that ids not yet created occur
nowhere. With `Inv2` (`live = nalloc`, `nextBuf = nalloc + freed`) this gives: exactly `created - destroyed` buffers
exist and each has exactly one owner. Core Lean only. -/
namespace EaselModel.Pipeline

def occ (b : Nat) : Option Chunk → Nat
  | some c => if c.1 = b then 1 else 0
  | none => 0

/-- number of places inside lane `l` that hold buffer `b` -/
def Lane.cnt (l : Lane) (b : Nat) : Nat :=
  occ b l.inbox + occ b l.outbox + (match l.upc with | .put c => occ b c | _ => 0)

def LPc.cnt : LPc → Nat → Nat
  | .haveBuf b', b => if b' = b then 1 else 0
  | .put b' _, b => if b' = b then 1 else 0
  | _, _ => 0

/-- number of places in the whole system that hold buffer `b` -/
def Sys.cnt (s : Sys) (b : Nat) : Nat :=
  (s.lanes.map (·.cnt b)).sum + s.recycling.count b + (s.cheld.map (·.2.1)).count b + s.lpc.cnt b

structure Own (s : Sys) : Prop where
  excl : ∀ b, s.cnt b ≤ 1
  fresh : ∀ b, s.nextBuf ≤ b → s.cnt b = 0

theorem map_lane_congr (s s' : Sys) (f : Lane → Nat) (hlen : s'.lanes.length = s.lanes.length)
    (h : ∀ v, f (s'.lane v) = f (s.lane v)) : s'.lanes.map f = s.lanes.map f := by
  apply List.ext_getElem (by simp [hlen])
  intro i h1 h2
  simp only [List.getElem_map]
  have := h i
  simp only [Sys.lane, List.getD_eq_getElem?_getD] at this
  rw [List.getElem?_eq_getElem (by simpa using h1), List.getElem?_eq_getElem (by simpa using h2)] at this
  simpa using this

theorem Lane.cnt_core (l l' : Lane) (b : Nat) (h : l'.core = l.core) : l'.cnt b = l.cnt b := by
  simp only [Lane.core, Prod.mk.injEq] at h
  obtain ⟨h1, _, h3, _, h5⟩ := h
  simp [Lane.cnt, h1, h3, h5]

theorem cnt_of_sameAll {s s' : Sys} (c : SameAll s s') (b : Nat) : s'.cnt b = s.cnt b := by
  have hm : s'.lanes.map (·.cnt b) = s.lanes.map (·.cnt b) :=
    map_lane_congr s s' (·.cnt b) c.core.len (fun v => Lane.cnt_core _ _ b (c.core.lane v))
  simp only [Sys.cnt, hm, c.recycling, c.cheld, c.core.lpc]

theorem Own.of_sameAll {s s' : Sys} (o : Own s) (c : SameAll s s') : Own s' :=
  ⟨fun b => by rw [cnt_of_sameAll c]; exact o.excl b, fun b hb => by rw [cnt_of_sameAll c]; rw [c.nextBuf] at hb; exact o.fresh b hb⟩

theorem Own.mono {s s' : Sys} (o : Own s) (hle : ∀ b, s'.cnt b ≤ s.cnt b) (hn : s.nextBuf ≤ s'.nextBuf) : Own s' :=
  ⟨fun b => Nat.le_trans (hle b) (o.excl b), fun b hb => by have := o.fresh b (by omega); have := hle b; omega⟩

/-- a step that replaces lane `u` by `l'` -/
theorem cnt_update {s s' : Sys} (u : Nat) (l' : Lane) (b : Nat) (hu : u < s.lanes.length) (hl : s'.lanes = s.lanes.set u l') :
    s'.cnt b + (s.lane u).cnt b + s.recycling.count b + (s.cheld.map (·.2.1)).count b + s.lpc.cnt b
      = s.cnt b + l'.cnt b + s'.recycling.count b + (s'.cheld.map (·.2.1)).count b + s'.lpc.cnt b := by
  have := sum_map_set s.lanes (·.cnt b) u l' {} hu
  simp only [Sys.cnt, Sys.lane, hl] at this ⊢
  omega

theorem cnt_nolane {s s' : Sys} (b : Nat) (hl : s'.lanes = s.lanes) :
    s'.cnt b + s.recycling.count b + (s.cheld.map (·.2.1)).count b + s.lpc.cnt b
      = s.cnt b + s'.recycling.count b + (s'.cheld.map (·.2.1)).count b + s'.lpc.cnt b := by
  simp only [Sys.cnt, hl]; omega

theorem cnt_le_nolane {s s' : Sys} (b : Nat) (hl : s'.lanes = s.lanes)
    (h : s'.recycling.count b + (s'.cheld.map (·.2.1)).count b + s'.lpc.cnt b
          ≤ s.recycling.count b + (s.cheld.map (·.2.1)).count b + s.lpc.cnt b) : s'.cnt b ≤ s.cnt b := by
  have := cnt_nolane (s := s) (s' := s') b hl
  omega

theorem cnt_le_update {s s' : Sys} (u : Nat) (l' : Lane) (b : Nat) (hu : u < s.lanes.length) (hl : s'.lanes = s.lanes.set u l')
    (h : l'.cnt b + s'.recycling.count b + (s'.cheld.map (·.2.1)).count b + s'.lpc.cnt b
          ≤ (s.lane u).cnt b + s.recycling.count b + (s.cheld.map (·.2.1)).count b + s.lpc.cnt b) : s'.cnt b ≤ s.cnt b := by
  have := cnt_update (s := s) (s' := s') u l' b hu hl
  omega

theorem own_create (U T C : Nat) : Own (Sys.create U T C) := by
  have h0 : ∀ b, (Sys.create U T C).cnt b = 0 := by
    intro b
    simp only [Sys.cnt, Sys.create, List.map_replicate, LPc.cnt, List.count_nil, List.map_nil, Nat.add_zero]
    induction U with
    | zero => rfl
    | succ n ih => simp [List.replicate_succ, Lane.cnt, occ] at ih ⊢
  exact ⟨fun b => by rw [h0]; omega, fun b _ => h0 b⟩

theorem stepLoader_own (s s' : Sys) (h : Inv s) (o : Own s) (hs : stepLoader s = some s') : Own s' := by
  unfold stepLoader at hs
  split at hs
  · rename_i hl
    split at hs
    · cases hs
      refine ⟨fun b => ?_, fun b hb => ?_⟩
      · have he := o.excl b
        have hf := o.fresh b
        have := cnt_nolane (s := s) (s' := { s with lpc := .haveBuf s.nextBuf, nalloc := s.nalloc + 1, nextBuf := s.nextBuf + 1 }) b rfl
        simp only [hl, LPc.cnt] at this
        split at this <;> omega
      · have hf := o.fresh b (by simp at hb; omega)
        have := cnt_nolane (s := s) (s' := { s with lpc := .haveBuf s.nextBuf, nalloc := s.nalloc + 1, nextBuf := s.nextBuf + 1 }) b rfl
        simp only [hl, LPc.cnt] at this
        simp at hb
        split at this <;> omega
    · split at hs
      · cases hs; exact o.of_sameAll (sameAll_setLwait s _)
      · rename_i b0 rest hr; cases hs
        refine o.mono (fun b => cnt_le_nolane b rfl ?_) (Nat.le_refl _)
        simp only [hl, hr, LPc.cnt, List.count_cons, beq_iff_eq]
        omega
  · rename_i b0 hl
    split at hs
    · cases hs
      refine o.mono (fun b => cnt_le_nolane b rfl ?_) (Nat.le_refl _)
      simp only [hl, LPc.cnt]
      omega
    · cases hs
      refine o.mono (fun b => cnt_le_nolane b rfl ?_) (Nat.le_refl _)
      simp only [hl, LPc.cnt]
      omega
  · rename_i b0 k hl
    have hu : k % s.U < s.U := Nat.mod_lt _ h.upos
    have hlen : k % s.U < s.lanes.length := by rw [h.len]; exact hu
    simp only at hs
    split at hs
    · cases hs; exact o.of_sameAll (sameAll_setLwait s _)
    · rename_i hin
      have hin' : (s.lane (k % s.U)).inbox = none := by simpa using hin
      cases hs
      refine Own.of_sameAll ?_ (sameAll_signalInbox _ _ (by simpa using hlen))
      refine o.mono (fun b => cnt_le_update (k % s.U) { s.lane (k % s.U) with inbox := some (b0, k) } b hlen rfl ?_) (Nat.le_refl _)
      simp only [hl, LPc.cnt, Lane.cnt, hin', occ, setLane_recycling, setLane_cheld, setLane_lpc]
      omega
  · rename_i u hl
    split at hs
    · cases hs
      refine o.mono (fun b => cnt_le_nolane b rfl ?_) (Nat.le_refl _)
      simp only [hl, LPc.cnt]
      omega
    · rename_i hult
      have hu : u < s.U := by omega
      have hlen : u < s.lanes.length := by rw [h.len]; exact hu
      simp only at hs
      split at hs
      · cases hs; exact o.of_sameAll (sameAll_setLwait s _)
      · cases hs
        refine Own.of_sameAll ?_ (sameAll_signalInbox _ _ (by simpa using hlen))
        refine o.mono (fun b => cnt_le_update u { s.lane u with inEod := true } b hlen rfl ?_) (Nat.le_refl _)
        simp only [hl, LPc.cnt, Lane.cnt, setLane_recycling, setLane_cheld, setLane_lpc]
        omega
  · rename_i hl
    split at hs
    · cases hs
      refine o.mono (fun b => cnt_le_nolane b rfl ?_) (Nat.le_refl _)
      simp only [hl, LPc.cnt]
      omega
    · split at hs
      · cases hs; exact o.of_sameAll (sameAll_setLwait s _)
      · rename_i bs hr
        cases hs
        refine o.mono (fun b => cnt_le_nolane b rfl ?_) (Nat.le_refl _)
        simp only [hl, LPc.cnt, List.count_nil]
        omega
  · cases hs

theorem stepUnpacker_own (s s' : Sys) (u : Nat) (h : Inv s) (o : Own s) (hs : stepUnpacker s u = some s') : Own s' := by
  unfold stepUnpacker at hs
  split at hs
  · cases hs
  rename_i hu'
  have hu : u < s.U := by omega
  have hlen : u < s.lanes.length := by rw [h.len]; exact hu
  simp only at hs
  split at hs
  · rename_i hupc
    split at hs
    · cases hs; exact o.of_sameAll (sameAll_setUwait s u _ hlen)
    · cases hs
      have hcore : Own (s.setLane u { s.lane u with inbox := none, upc := .put (s.lane u).inbox, uwait := none }) := by
        refine o.mono (fun b => cnt_le_update u _ b hlen rfl ?_) (Nat.le_refl _)
        simp only [Lane.cnt, hupc, occ, setLane_recycling, setLane_cheld, setLane_lpc]
        omega
      split
      · exact hcore.of_sameAll (sameAll_signalInbox _ u (by simpa using hlen))
      · exact hcore
  · rename_i c hupc
    split at hs
    · cases hs; exact o.of_sameAll (sameAll_setUwait s u _ hlen)
    · rename_i ho
      have ho' : (s.lane u).outbox = none := by simpa using ho
      cases hs
      refine Own.of_sameAll ?_ (sameAll_signalOutbox _ u (by simpa using hlen))
      refine o.mono (fun b => cnt_le_update u _ b hlen rfl ?_) (Nat.le_refl _)
      cases c with
      | none => simp only [Lane.cnt, hupc, ho', occ, setLane_recycling, setLane_cheld, setLane_lpc, Option.isSome_none,
                  Bool.false_eq_true, if_false]; omega
      | some ch => simp only [Lane.cnt, hupc, ho', occ, setLane_recycling, setLane_cheld, setLane_lpc, Option.isSome_some,
                  if_true]; omega
  · cases hs

theorem readBody_own (s : Sys) (c : Nat) (h : Inv s) (o : Own s) : Own (readBody s c) := by
  have hu : s.nchunk % s.U < s.U := Nat.mod_lt _ h.upos
  have hlen : s.nchunk % s.U < s.lanes.length := by rw [h.len]; exact hu
  unfold readBody
  simp only
  split
  · exact o.of_sameAll ⟨⟨rfl, rfl, rfl, fun _ => rfl, rfl, rfl, rfl, rfl, rfl⟩, rfl, rfl, rfl, rfl, rfl, rfl, rfl⟩
  · split
    · rename_i b0 k hout
      refine Own.of_sameAll ?_ (sameAll_signalOutbox _ _ (by simpa using hlen))
      refine o.mono (fun b => cnt_le_update (s.nchunk % s.U) _ b hlen rfl ?_) (Nat.le_refl _)
      simp only [Lane.cnt, hout, occ, setLane_recycling, setLane_cheld, setLane_lpc, List.map_cons, List.count_cons,
        beq_iff_eq]
      omega
    · exact ⟨o.excl, o.fresh⟩

theorem step_own (s s' : Sys) (l : Label) (h : Inv s) (o : Own s) (hs : step s l = some s') : Own s' := by
  cases l with
  | loader => exact stepLoader_own s s' h o hs
  | unpacker u => exact stepUnpacker_own s s' u h o hs
  | read c =>
    simp only [step] at hs
    split at hs
    · cases hs
    · cases hs; exact readBody_own s c h o
  | readWake =>
    simp only [step] at hs
    split at hs
    · cases hs; exact readBody_own s _ h o
    · cases hs
  | recycle c b0 k =>
    simp only [step] at hs
    split at hs
    · rename_i hm
      cases hs
      refine Own.of_sameAll ?_ (sameAll_signalRecycling _)
      refine o.mono (fun b => cnt_le_nolane b rfl ?_) (Nat.le_refl _)
      have hp := ((List.perm_cons_erase hm).map (·.2.1)).count_eq b
      simp only [List.map_cons, List.count_cons, beq_iff_eq] at hp ⊢
      unfold Chunk
      omega
    · cases hs

theorem reachable_own {U T C : Nat} (hU : 0 < U) {s : Sys} (h : Reachable U T C s) : Own s := by
  induction h with
  | create => exact own_create U T C
  | step hr hs ih => exact step_own _ _ _ (reachable_inv hU hr) ih hs

/-! ## the owners of a buffer, by name -/

inductive Owner
  | loader                       -- in the loader thread's hands (being `fread` into, or about to be put into an inbox)
  | inbox (u : Nat)              -- parked in `dd->inbox[u]` (protected by `inbox_mutex[u]`)
  | unpacker (u : Nat)           -- in unpacker `u`'s hands (being unpacked, or about to be put into its outbox)
  | outbox (u : Nat)             -- parked in `dd->outbox[u]` (protected by `outbox_mutex[u]`)
  | consumer (c : Nat)           -- returned by `esl_dsqdata_Read` to consumer `c`, not yet recycled
  | recycling                    -- on the recycling stack (protected by `recycling_mutex`)
deriving Repr, DecidableEq

def ownsOpt (b : Nat) (o : Option Chunk) (w : Owner) : List Owner :=
  match o with
  | some c => if c.1 = b then [w] else []
  | none => []

def Lane.owners (l : Lane) (u b : Nat) : List Owner :=
  ownsOpt b l.inbox (.inbox u) ++ ownsOpt b l.outbox (.outbox u) ++
    (match l.upc with | .put c => ownsOpt b c (.unpacker u) | _ => [])

/-- everybody who holds chunk buffer `b` in state `s` -/
def Sys.owners (s : Sys) (b : Nat) : List Owner :=
  (List.range s.U).flatMap (fun u => (s.lane u).owners u b) ++ List.replicate (s.recycling.count b) .recycling ++
    (s.cheld.filter (fun e => e.2.1 == b)).map (fun e => .consumer e.1) ++ List.replicate (s.lpc.cnt b) .loader

theorem ownsOpt_length (b : Nat) (o : Option Chunk) (w : Owner) : (ownsOpt b o w).length = occ b o := by
  cases o with
  | none => rfl
  | some c => simp only [ownsOpt, occ]; split <;> rfl

theorem Lane.owners_length (l : Lane) (u b : Nat) : (l.owners u b).length = l.cnt b := by
  simp only [Lane.owners, Lane.cnt, List.length_append, ownsOpt_length]
  cases l.upc <;> simp [ownsOpt_length]

theorem owners_length (s : Sys) (b : Nat) (hlen : s.lanes.length = s.U) : (s.owners b).length = s.cnt b := by
  have h1 : ((List.range s.U).flatMap (fun u => (s.lane u).owners u b)).length = (s.lanes.map (·.cnt b)).sum := by
    rw [List.length_flatMap]
    congr 1
    apply List.ext_getElem (by simp [hlen])
    intro i h1 h2
    simp only [List.getElem_map, List.getElem_range, Lane.owners_length, Sys.lane, List.getD_eq_getElem?_getD]
    rw [List.getElem?_eq_getElem (by simpa using h2)]
    rfl
  have h2 : ((s.cheld.filter (fun e => e.2.1 == b)).map (fun e => Owner.consumer e.1)).length = (s.cheld.map (·.2.1)).count b := by
    rw [List.length_map, List.count_eq_countP, List.countP_map, List.countP_eq_length_filter]
    rfl
  simp only [Sys.owners, List.length_append, h1, h2, List.length_replicate, Sys.cnt]

end EaselModel.Pipeline
