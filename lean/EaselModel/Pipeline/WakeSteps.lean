import EaselModel.Pipeline.Wakeups
namespace EaselModel.Pipeline

/-- blockedness of the loader when lane `u` is replaced (`σ` agrees with `s` on everything the loader looks at) -/
theorem loaderBlocked_setLane (σ s : Sys) (u : Nat) (l' : Lane) (hu : u < s.lanes.length) (hl : σ.lanes = s.lanes) (hU : σ.U = s.U)
    (hp : σ.lpc = s.lpc) (hn : σ.nalloc = s.nalloc) (hlim : σ.limit = s.limit) (hr : σ.recycling = s.recycling)
    (h : l'.inbox = (s.lane u).inbox ∨ loaderOnInbox s u = false) :
    loaderBlocked (σ.setLane u l') = loaderBlocked s := by
  have hlane : ∀ v, ((σ.setLane u l').lane v) = if v = u then l' else s.lane v := fun v => lane_setLane' σ s u v l' hl hu
  simp only [loaderBlocked, setLane_lpc, setLane_nalloc, setLane_limit, setLane_recycling, setLane_U, hU, hp, hn, hlim, hr]
  rcases h with h | h
  · have : ∀ v, ((σ.setLane u l').lane v).inbox = (s.lane v).inbox := by
      intro v; rw [hlane]; split
      · rename_i e; subst e; exact h
      · rfl
    simp only [this]
  · cases hpc : s.lpc with
    | put b k =>
      simp only [loaderOnInbox, hpc, beq_eq_false_iff_ne, ne_eq] at h
      simp only [hlane, h, ↓reduceIte]
    | eod v =>
      simp only [loaderOnInbox, hpc, beq_eq_false_iff_ne, ne_eq] at h
      simp only [hlane, h, ↓reduceIte]
    | _ => rfl

theorem unpBlocked_setLane_ne (σ s : Sys) (u v : Nat) (l' : Lane) (hu : u < s.lanes.length) (hl : σ.lanes = s.lanes) (hv : v ≠ u) :
    unpBlocked (σ.setLane u l') v = unpBlocked s v ∧ ((σ.setLane u l').lane v).uwait = (s.lane v).uwait := by
  have : (σ.setLane u l').lane v = s.lane v := by rw [lane_setLane' σ s u v l' hl hu]; simp [hv]
  exact ⟨unpBlocked_eq v (by rw [this]), by rw [this]⟩

/-- unpacker `u`'s blockedness after its lane is replaced by `l'` which keeps the program counter and, for that program
    counter, the box it waits on -/
theorem unpBlocked_setLane_u (σ s : Sys) (u : Nat) (l' : Lane) (hu : u < s.lanes.length) (hl : σ.lanes = s.lanes)
    (hupc : l'.upc = (s.lane u).upc)
    (hget : (s.lane u).upc = .get → l'.inEod = (s.lane u).inEod ∧ l'.inbox = (s.lane u).inbox)
    (hput : (s.lane u).upc ≠ .get → l'.outbox = (s.lane u).outbox) :
    unpBlocked (σ.setLane u l') u = unpBlocked s u := by
  simp only [unpBlocked, lane_setLane' σ s u u l' hl hu, ↓reduceIte, hupc]
  cases hc : (s.lane u).upc with
  | get => simp only [(hget hc).1, (hget hc).2]
  | put c => simp only [hput (by rw [hc]; simp)]
  | done => rfl

theorem readBlocked_setLane (σ s : Sys) (u : Nat) (l' : Lane) (hu : u < s.lanes.length) (hl : σ.lanes = s.lanes) (hU : σ.U = s.U)
    (hn : σ.nchunk = s.nchunk) (h : (l'.outbox = (s.lane u).outbox ∧ l'.outEod = (s.lane u).outEod) ∨ s.nchunk % s.U ≠ u) :
    readBlocked (σ.setLane u l') = readBlocked s := by
  simp only [readBlocked, setLane_U, setLane_nchunk, hU, hn, lane_setLane' σ s u _ l' hl hu]
  split
  · rename_i e
    rcases h with h | h
    · rw [h.1, h.2, e]
    · exact absurd e h
  · rfl

theorem stepLoader_winv (s s' : Sys) (h : Inv s) (w : WInv s) (hs : stepLoader s = some s') : WInv s' := by
  unfold stepLoader at hs
  split at hs
  · rename_i hl
    split at hs
    · rename_i hlt; cases hs
      refine ⟨?_, w.uw, w.rw⟩
      intro hw; have := w.lw hw; simp [loaderBlocked, hl] at this; omega
    · rename_i hge
      split at hs
      · rename_i hr; cases hs
        exact ⟨fun _ => (by simp only [loaderBlocked, hl, hr]; simp; omega), w.uw, w.rw⟩
      · cases hs
        exact ⟨fun hc => (by cases hc), w.uw, w.rw⟩
  · rename_i b hl
    have hnw : s.lwait ≠ some false := by intro hw; have := w.lw hw; simp [loaderBlocked, hl] at this
    split at hs <;> (cases hs; exact ⟨fun hc => absurd hc hnw, w.uw, w.rw⟩)
  · rename_i b k hl
    have hu : k % s.U < s.U := Nat.mod_lt _ h.upos
    have hlen : k % s.U < s.lanes.length := by rw [h.len]; exact hu
    simp only at hs
    split at hs
    · rename_i hin; cases hs
      exact ⟨fun _ => (by simp only [loaderBlocked, hl]; exact hin), w.uw, w.rw⟩
    · cases hs
      apply winv_signalInbox _ _ (by simpa using hlen)
      · intro hc; cases hc
      · intro v hv hw
        by_cases hvu : v = k % s.U
        · subst hvu
          rw [lane_setLane' _ s _ _ _ (by rfl) hlen] at hw
          simp only [↓reduceIte] at hw
          have hold := w.uw _ hu hw
          by_cases hg : (s.lane (k % s.U)).upc = .get
          · right; refine ⟨rfl, ?_⟩; rw [lane_setLane' _ s _ _ _ (by rfl) hlen]; simpa using hg
          · left
            rw [unpBlocked_setLane_u _ s _ _ hlen (by rfl) (by rfl) (fun e => absurd e hg) (fun _ => by rfl)]
            exact hold
        · left
          rw [(unpBlocked_setLane_ne _ s (k % s.U) v _ hlen (by rfl) hvu).1]
          rw [(unpBlocked_setLane_ne _ s (k % s.U) v _ hlen (by rfl) hvu).2] at hw
          exact w.uw v hv hw
      · intro h1 h2
        rw [readBlocked_setLane _ s _ _ hlen (by rfl) (by rfl) (by rfl) (Or.inl ⟨by rfl, by rfl⟩)]
        exact w.rw h1 h2
  · rename_i u hl
    split at hs
    · rename_i hge; cases hs
      refine ⟨?_, w.uw, w.rw⟩
      intro hw; have := w.lw hw
      simp only [loaderBlocked, hl, Bool.and_eq_true, decide_eq_true_eq] at this; omega
    · rename_i hult
      have hu : u < s.U := by omega
      have hlen : u < s.lanes.length := by rw [h.len]; exact hu
      simp only at hs
      split at hs
      · rename_i hin; cases hs
        exact ⟨fun _ => (by simp only [loaderBlocked, hl, Bool.and_eq_true, decide_eq_true_eq]; exact ⟨hu, hin⟩), w.uw, w.rw⟩
      · cases hs
        apply winv_signalInbox _ _ (by simpa using hlen)
        · intro hc; cases hc
        · intro v hv hw
          by_cases hvu : v = u
          · subst hvu
            rw [lane_setLane' _ s _ _ _ (by rfl) hlen] at hw
            simp only [↓reduceIte] at hw
            have hold := w.uw _ hu hw
            by_cases hg : (s.lane v).upc = .get
            · right; refine ⟨rfl, ?_⟩; rw [lane_setLane' _ s _ _ _ (by rfl) hlen]; simpa using hg
            · left
              rw [unpBlocked_setLane_u _ s _ _ hlen (by rfl) (by rfl) (fun e => absurd e hg) (fun _ => by rfl)]
              exact hold
          · left
            rw [(unpBlocked_setLane_ne _ s u v _ hlen (by rfl) hvu).1]
            rw [(unpBlocked_setLane_ne _ s u v _ hlen (by rfl) hvu).2] at hw
            exact w.uw v hv hw
        · intro h1 h2
          rw [readBlocked_setLane _ s _ _ hlen (by rfl) (by rfl) (by rfl) (Or.inl ⟨by rfl, by rfl⟩)]
          exact w.rw h1 h2
  · rename_i hl
    split at hs
    · rename_i hz; cases hs
      refine ⟨?_, w.uw, w.rw⟩
      intro hw; have := w.lw hw
      simp [loaderBlocked, hl, hz] at this
    · rename_i hne
      split at hs
      · rename_i hr; cases hs
        exact ⟨fun _ => (by simp only [loaderBlocked, hl, hr]; simpa using hne), w.uw, w.rw⟩
      · cases hs
        exact ⟨fun hc => (by cases hc), w.uw, w.rw⟩
  · cases hs

theorem stepUnpacker_winv (s s' : Sys) (u : Nat) (h : Inv s) (w : WInv s) (hs : stepUnpacker s u = some s') : WInv s' := by
  unfold stepUnpacker at hs
  split at hs
  · cases hs
  rename_i hu'
  have hu : u < s.U := by omega
  have hlen : u < s.lanes.length := by rw [h.len]; exact hu
  -- facts shared by all branches: other lanes, the loader (when the inbox is kept), the consumer (when the outbox is kept)
  simp only at hs
  split at hs
  · -- get
    rename_i hupc
    split at hs
    · -- goes to sleep
      rename_i hcond
      cases hs
      refine ⟨?_, ?_, ?_⟩
      · intro hw
        rw [loaderBlocked_setLane s s u _ hlen rfl rfl rfl rfl rfl rfl (Or.inl (by rfl))]
        exact w.lw hw
      · intro v hv hw
        by_cases hvu : v = u
        · subst hvu
          simp only [unpBlocked, lane_setLane' s s _ _ _ rfl hlen, ↓reduceIte, hupc]
          simpa using hcond
        · rw [(unpBlocked_setLane_ne s s u v _ hlen rfl hvu).1]
          rw [(unpBlocked_setLane_ne s s u v _ hlen rfl hvu).2] at hw
          exact w.uw v hv hw
      · intro h1 h2
        rw [readBlocked_setLane s s u _ hlen rfl rfl rfl (Or.inl ⟨by rfl, by rfl⟩)]
        exact w.rw h1 h2
    · -- takes the inbox content (or sees EOD)
      cases hs
      have hU' : ∀ v < s.U, ((s.setLane u { s.lane u with inbox := none, upc := .put (s.lane u).inbox, uwait := none }).lane v).uwait = some false →
          unpBlocked (s.setLane u { s.lane u with inbox := none, upc := .put (s.lane u).inbox, uwait := none }) v = true := by
        intro v hv hw
        by_cases hvu : v = u
        · subst hvu; rw [lane_setLane' s s _ _ _ rfl hlen] at hw; simp at hw
        · rw [(unpBlocked_setLane_ne s s u v _ hlen rfl hvu).1]
          rw [(unpBlocked_setLane_ne s s u v _ hlen rfl hvu).2] at hw
          exact w.uw v hv hw
      have hR' : s.reader.isSome = true → s.rsig = false →
          readBlocked (s.setLane u { s.lane u with inbox := none, upc := .put (s.lane u).inbox, uwait := none }) = true := by
        intro h1 h2
        rw [readBlocked_setLane s s u _ hlen rfl rfl rfl (Or.inl ⟨by rfl, by rfl⟩)]
        exact w.rw h1 h2
      split
      · -- a chunk was taken: signal the loader
        apply winv_signalInbox _ _ (by simpa using hlen)
        · intro hw
          have hold := w.lw hw
          by_cases hon : loaderOnInbox s u = true
          · right; exact hon
          · left
            rw [loaderBlocked_setLane s s u _ hlen rfl rfl rfl rfl rfl rfl (Or.inr (by simpa using hon))]
            exact hold
        · intro v hv hw; exact Or.inl (hU' v hv hw)
        · exact hR'
      · -- EOD: nothing changed for the loader
        rename_i hnone
        refine ⟨?_, hU', hR'⟩
        intro hw
        have e : (s.lane u).inbox = none := by simpa using hnone
        rw [loaderBlocked_setLane s s u _ hlen rfl rfl rfl rfl rfl rfl (Or.inl (by show (none : Option Chunk) = (s.lane u).inbox; exact e.symm))]
        exact w.lw hw
  · -- put c
    rename_i c hupc
    split at hs
    · rename_i hcond
      cases hs
      refine ⟨?_, ?_, ?_⟩
      · intro hw
        rw [loaderBlocked_setLane s s u _ hlen rfl rfl rfl rfl rfl rfl (Or.inl (by rfl))]
        exact w.lw hw
      · intro v hv hw
        by_cases hvu : v = u
        · subst hvu
          simp only [unpBlocked, lane_setLane' s s _ _ _ rfl hlen, ↓reduceIte, hupc]
          exact hcond
        · rw [(unpBlocked_setLane_ne s s u v _ hlen rfl hvu).1]
          rw [(unpBlocked_setLane_ne s s u v _ hlen rfl hvu).2] at hw
          exact w.uw v hv hw
      · intro h1 h2
        rw [readBlocked_setLane s s u _ hlen rfl rfl rfl (Or.inl ⟨by rfl, by rfl⟩)]
        exact w.rw h1 h2
    · cases hs
      apply winv_signalOutbox _ _ (by simpa using hlen)
      · intro hw
        rw [loaderBlocked_setLane s s u _ hlen rfl rfl rfl rfl rfl rfl (Or.inl (by rfl))]
        exact w.lw hw
      · intro v hv hw
        by_cases hvu : v = u
        · subst hvu; rw [lane_setLane' s s _ _ _ rfl hlen] at hw; simp at hw
        · left
          rw [(unpBlocked_setLane_ne s s u v _ hlen rfl hvu).1]
          rw [(unpBlocked_setLane_ne s s u v _ hlen rfl hvu).2] at hw
          exact w.uw v hv hw
      · intro h1 h2
        by_cases hn : s.nchunk % s.U = u
        · right; exact hn
        · left
          rw [readBlocked_setLane s s u _ hlen rfl rfl rfl (Or.inr hn)]
          exact w.rw h1 h2
  · cases hs

theorem readBody_winv (s : Sys) (c : Nat) (h : Inv s) (w : WInv s) :
    WInv (readBody s c) := by
  have hu : s.nchunk % s.U < s.U := Nat.mod_lt _ h.upos
  have hlen : s.nchunk % s.U < s.lanes.length := by rw [h.len]; exact hu
  unfold readBody
  simp only
  split
  · rename_i hcond
    refine ⟨w.lw, w.uw, fun _ _ => ?_⟩
    show readBlocked s = true
    simpa [readBlocked] using hcond
  · split
    · rename_i b k hout
      apply winv_signalOutbox _ _ (by simpa using hlen)
      · intro hw
        rw [loaderBlocked_setLane _ s _ _ hlen (by rfl) (by rfl) (by rfl) (by rfl) (by rfl) (by rfl) (Or.inl (by rfl))]
        exact w.lw hw
      · intro v hv hw
        by_cases hvu : v = s.nchunk % s.U
        · subst hvu
          rw [lane_setLane' _ s _ _ _ (by rfl) hlen] at hw
          simp only [↓reduceIte] at hw
          have hold := w.uw _ hu hw
          by_cases hg : (s.lane (s.nchunk % s.U)).upc = .get
          · left
            rw [unpBlocked_setLane_u _ s _ _ hlen (by rfl) (by rfl) (fun _ => ⟨by rfl, by rfl⟩) (fun e => absurd hg e)]
            exact hold
          · right; refine ⟨rfl, ?_⟩; rw [lane_setLane' _ s _ _ _ (by rfl) hlen]; simpa using hg
        · left
          rw [(unpBlocked_setLane_ne _ s (s.nchunk % s.U) v _ hlen (by rfl) hvu).1]
          rw [(unpBlocked_setLane_ne _ s (s.nchunk % s.U) v _ hlen (by rfl) hvu).2] at hw
          exact w.uw v hv hw
      · intro h1 _; simp at h1
    · exact ⟨w.lw, w.uw, fun h1 _ => by simp at h1⟩

theorem step_winv (s s' : Sys) (l : Label) (h : Inv s) (w : WInv s) (hs : step s l = some s') : WInv s' := by
  cases l with
  | loader => exact stepLoader_winv s s' h w hs
  | unpacker u => exact stepUnpacker_winv s s' u h w hs
  | read c =>
    simp only [step] at hs
    split at hs
    · cases hs
    · rename_i hn; cases hs; exact readBody_winv s c h w
  | readWake =>
    simp only [step] at hs
    split at hs
    · rename_i c hc; cases hs; exact readBody_winv s c h w
    · cases hs
  | recycle c b k =>
    simp only [step] at hs
    split at hs
    · cases hs
      apply winv_signalRecycling
      · intro hw
        have hold := w.lw hw
        cases hpc : s.lpc with
        | top => right; left; rfl
        | drain => right; right; rfl
        | haveBuf b' => left; simp only [loaderBlocked, hpc] at hold ⊢; exact hold
        | put b' k' => left; simp only [loaderBlocked, hpc] at hold ⊢; exact hold
        | eod v => left; simp only [loaderBlocked, hpc] at hold ⊢; exact hold
        | done => left; simp only [loaderBlocked, hpc]
      · exact w.uw
      · exact w.rw
    · cases hs

theorem winv_create (U T C : Nat) : WInv (Sys.create U T C) := by
  have hl : ∀ u, (Sys.create U T C).lane u = {} := by
    intro u
    simp only [Sys.lane, Sys.create, List.getD_eq_getElem?_getD]
    by_cases h : u < U <;> simp [h]
  refine ⟨by simp [Sys.create], ?_, by simp [Sys.create]⟩
  intro u _ h; rw [hl] at h; cases h

theorem reachable_winv {U T C : Nat} (hU : 0 < U) {s : Sys} (h : Reachable U T C s) : WInv s := by
  induction h with
  | create => exact winv_create U T C
  | step hr hs ih => exact step_winv _ _ _ (reachable_inv hU hr) ih hs

end EaselModel.Pipeline
