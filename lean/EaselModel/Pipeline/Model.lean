/-! # The dsqdata reader pipeline as a transition system (executable model, core Lean only)

`esl_dsqdata.c`: one loader thread, `U` unpacker threads, any number of consumer threads calling
`esl_dsqdata_Read` / `esl_dsqdata_Recycle`.  Shared state: `inbox[u]`, `inbox_eod[u]`, `outbox[u]`, `outbox_eod[u]`
(one mutex + one condition variable per box), the consumer-shared counter `nchunk` (its mutex is held for a whole
`Read`, including the wait on the outbox), the recycling stack (mutex + condition variable).

One step per mutex-protected region (from lock / return of `pthread_cond_wait` to unlock / next `pthread_cond_wait`);
thread-local work between regions (creating a chunk, `fread`ing the next chunk, unpacking, destroying) is a
separate local step of that thread.  A `pthread_cond_signal` issued right after the unlock is part of the step.
Wait flags: `some sg` = asleep on the condition variable its program counter implies, `sg` = signalled since.

A chunk in flight is `(buffer id, chunk number)`; the database yields chunks `0 … T-1`, then end of data. -/
namespace EaselModel.Pipeline

abbrev Chunk := Nat × Nat

inductive UPc
  | get                          -- about to take from its inbox
  | put (c : Option Chunk)       -- holds an unpacked chunk (or `none` = EOD) for its outbox
  | done
deriving Repr, DecidableEq, Inhabited

structure Lane where
  inbox : Option Chunk := none
  inEod : Bool := false
  outbox : Option Chunk := none
  outEod : Bool := false
  upc : UPc := .get
  uwait : Option Bool := none
deriving Repr, DecidableEq, Inhabited

inductive LPc
  | top                          -- needs a chunk buffer
  | haveBuf (b : Nat)            -- has a buffer, about to refill the index / load
  | put (b k : Nat)              -- loaded chunk `k` into buffer `b`, about to put it into inbox[k % U]
  | eod (u : Nat)                -- cleanup: setting inbox_eod[u]
  | drain                        -- cleanup: collecting the buffers from the recycling stack
  | done
deriving Repr, DecidableEq, Inhabited

structure Sys where
  U : Nat
  T : Nat
  limit : Nat                    -- nconsumers + 3 * n_unpackers + 2
  lanes : List Lane
  nchunk : Nat
  recycling : List Nat           -- stack of buffer ids, head = top
  lpc : LPc
  lwait : Option Bool
  nchunkL : Nat                  -- the loader's private chunk counter
  nalloc : Nat
  nextBuf : Nat                  -- buffers created so far (ghost: fresh ids)
  freed : Nat                    -- buffers destroyed so far (ghost)
  reader : Option Nat            -- consumer asleep inside Read (holding nchunk_mutex)
  rsig : Bool
  cheld : List (Nat × Chunk)     -- chunks in consumers' hands
  returned : List Nat            -- chunk numbers returned by Read, in order (ghost)
  eofs : List Nat                -- consumers that were told EOF, most recent first (ghost)
deriving Repr

def Sys.create (U T nconsumers : Nat) : Sys :=
  { U := U, T := T, limit := nconsumers + 3 * U + 2, lanes := List.replicate U {}, nchunk := 0, recycling := [],
    lpc := .top, lwait := none, nchunkL := 0, nalloc := 0, nextBuf := 0, freed := 0, reader := none, rsig := false,
    cheld := [], returned := [], eofs := [] }

def Sys.lane (s : Sys) (u : Nat) : Lane := s.lanes.getD u {}
def Sys.setLane (s : Sys) (u : Nat) (l : Lane) : Sys := { s with lanes := s.lanes.set u l }

/-- does the loader currently wait on `inbox_cv[u]`? -/
def loaderOnInbox (s : Sys) (u : Nat) : Bool :=
  match s.lpc with
  | .put _ k => k % s.U == u
  | .eod v => v == u
  | _ => false

/-- `pthread_cond_signal(&inbox_cv[u])`: the (at most one) waiter is the loader or unpacker `u` -/
def signalInbox (s : Sys) (u : Nat) : Sys :=
  let s := if s.lwait.isSome && loaderOnInbox s u then { s with lwait := some true } else s
  let l := s.lane u
  if l.uwait.isSome && l.upc == .get then s.setLane u { l with uwait := some true } else s

/-- `pthread_cond_signal(&outbox_cv[u])`: the waiter is unpacker `u` or the consumer inside `Read` -/
def signalOutbox (s : Sys) (u : Nat) : Sys :=
  let s := if s.reader.isSome && s.nchunk % s.U == u then { s with rsig := true } else s
  let l := s.lane u
  if l.uwait.isSome && l.upc != .get then s.setLane u { l with uwait := some true } else s

/-- `pthread_cond_signal(&recycling_cv)`: only the loader ever waits there -/
def signalRecycling (s : Sys) : Sys :=
  match s.lpc with
  | .top | .drain => if s.lwait.isSome then { s with lwait := some true } else s
  | _ => s

inductive Label
  | loader                       -- the loader's next step (a wake-up and re-check if it is asleep)
  | unpacker (u : Nat)
  | read (c : Nat)               -- consumer `c` calls esl_dsqdata_Read
  | readWake                     -- the consumer asleep inside Read wakes up
  | recycle (c : Nat) (b k : Nat)
deriving Repr, DecidableEq

/-- is the loader's next step thread-local (no mutex region)? -/
def loaderLocal (s : Sys) : Bool :=
  match s.lpc with
  | .top => s.nalloc < s.limit
  | .haveBuf _ => true
  | .eod u => u ≥ s.U
  | .drain => s.nalloc == 0
  | _ => false

def stepLoader (s : Sys) : Option Sys :=
  match s.lpc with
  | .top =>
    if s.nalloc < s.limit then       -- dsqdata_chunk_Create
      some { s with lpc := .haveBuf s.nextBuf, nalloc := s.nalloc + 1, nextBuf := s.nextBuf + 1 }
    else
      match s.recycling with
      | [] => some { s with lwait := some false }
      | b :: rest => some { s with recycling := rest, lpc := .haveBuf b, lwait := none }
  | .haveBuf b =>
    if s.nchunkL < s.T then some { s with lpc := .put b s.nchunkL }
    else some { s with lpc := .eod 0, nalloc := s.nalloc - 1, freed := s.freed + 1 }    -- nidx == 0: destroy, break
  | .put b k =>
    let u := k % s.U
    let l := s.lane u
    if l.inbox.isSome then some { s with lwait := some false }
    else
      let s1 : Sys := { s with lwait := none, lpc := .top, nchunkL := k + 1 }
      some (signalInbox (s1.setLane u { l with inbox := some (b, k) }) u)
  | .eod u =>
    if u ≥ s.U then some { s with lpc := .drain }
    else
      let l := s.lane u
      if l.inbox.isSome then some { s with lwait := some false }
      else
        let s1 : Sys := { s with lwait := none, lpc := .eod (u + 1) }
        some (signalInbox (s1.setLane u { l with inEod := true }) u)
  | .drain =>
    if s.nalloc = 0 then some { s with lpc := .done }
    else
      match s.recycling with
      | [] => some { s with lwait := some false }
      | bs => some { s with recycling := [], nalloc := s.nalloc - bs.length, freed := s.freed + bs.length, lwait := none }
  | .done => none

def stepUnpacker (s : Sys) (u : Nat) : Option Sys :=
  if u ≥ s.U then none else
  let l := s.lane u
  match l.upc with
  | .get =>
    if !l.inEod && l.inbox.isNone then some (s.setLane u { l with uwait := some false })
    else
      let s' := s.setLane u { l with inbox := none, upc := .put l.inbox, uwait := none }
      some (if l.inbox.isSome then signalInbox s' u else s')
  | .put c =>
    if l.outbox.isSome then some (s.setLane u { l with uwait := some false })
    else
      let next : UPc := if c.isSome then .get else .done
      let l' : Lane := { l with outbox := c, outEod := l.outEod || c.isNone, uwait := none, upc := next }
      some (signalOutbox (s.setLane u l') u)
  | .done => none

/-- body of `esl_dsqdata_Read` once `nchunk_mutex` and `outbox_mutex[u]` are held (first entry or after a wake-up) -/
def readBody (s : Sys) (c : Nat) : Sys :=
  let u := s.nchunk % s.U
  let l := s.lane u
  if !l.outEod && l.outbox.isNone then { s with reader := some c, rsig := false }
  else
    match l.outbox with
    | some (b, k) =>
      let s1 : Sys := { s with reader := none, nchunk := s.nchunk + 1, returned := s.returned ++ [k], cheld := (c, (b, k)) :: s.cheld }
      signalOutbox (s1.setLane u { l with outbox := none }) u
    | none => { s with reader := none, eofs := c :: s.eofs }

def step (s : Sys) : Label → Option Sys
  | .loader => stepLoader s
  | .unpacker u => stepUnpacker s u
  | .read c => if s.reader.isSome then none else some (readBody s c)
  | .readWake => match s.reader with
    | some c => some (readBody s c)
    | none => none
  | .recycle c b k =>
    if (c, (b, k)) ∈ s.cheld then
      some (signalRecycling { s with cheld := s.cheld.erase (c, (b, k)), recycling := b :: s.recycling })
    else none

def run (s : Sys) : List Label → Option Sys
  | [] => some s
  | l :: ls => match step s l with
    | some s' => run s' ls
    | none => none

end EaselModel.Pipeline
