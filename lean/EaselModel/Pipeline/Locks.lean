import EaselModel.Pipeline.Ownership
/-! # Lock discipline of the dsqdata pipeline model

Each shared field of `ESL_DSQDATA` has one guarding mutex: `inbox[u]`, `inbox_eod[u]` ← `inbox_mutex[u]`; `outbox[u]`,
`outbox_eod[u]` ← `outbox_mutex[u]`; `nchunk` ← `nchunk_mutex`; `recycling` (and the `nxt` links of the chunks on the
stack) ← `recycling_mutex`. `held s l` is the set of mutexes the C code holds during the critical section that the atomic
step `l` models when taken from state `s` (thread-local steps hold none). The frame theorem `step_frame` says that a step
changes a shared field only while holding its guard; `step_private` that the thread-private variables (the loader's
program counter, `nchunk` counter, `nalloc`; an unpacker's program counter and the chunk in its hands) change only in
steps of their own thread. Together with `Own` (a chunk's contents are touched only by its unique owner) this is the
lock-discipline / ownership invariant that stands in for data-race freedom in the interleaving model; the harness checks on
every observed region that the executing thread really holds `held` (its wrappers track the mutexes each thread holds).
Core Lean only. -/
namespace EaselModel.Pipeline

inductive Mutex
  | inbox (u : Nat)
  | outbox (u : Nat)
  | nchunk
  | recycling
deriving Repr, DecidableEq

/-- the mutexes held during the critical section modelled by step `l` from state `s` -/
def held (s : Sys) : Label → List Mutex
  | .loader => match s.lpc with
    | .top => if s.nalloc < s.limit then [] else [.recycling]
    | .haveBuf _ => []
    | .put _ k => [.inbox (k % s.U)]
    | .eod u => if u ≥ s.U then [] else [.inbox u]
    | .drain => if s.nalloc = 0 then [] else [.recycling]
    | .done => []
  | .unpacker u => match (s.lane u).upc with
    | .get => [.inbox u]
    | .put _ => [.outbox u]
    | .done => []
  | .read _ => [.nchunk, .outbox (s.nchunk % s.U)]
  | .readWake => [.nchunk, .outbox (s.nchunk % s.U)]
  | .recycle _ _ _ => [.recycling]

/-- shared fields whose guard is not in `L` are the same in `s` and `s'` -/
structure Frame (s s' : Sys) (L : List Mutex) : Prop where
  inbox : ∀ u, Mutex.inbox u ∉ L → (s'.lane u).inbox = (s.lane u).inbox ∧ (s'.lane u).inEod = (s.lane u).inEod
  outbox : ∀ u, Mutex.outbox u ∉ L → (s'.lane u).outbox = (s.lane u).outbox ∧ (s'.lane u).outEod = (s.lane u).outEod
  nchunk : Mutex.nchunk ∉ L → s'.nchunk = s.nchunk
  recycling : Mutex.recycling ∉ L → s'.recycling = s.recycling

theorem Frame.of_sameAll {s s2 s' : Sys} {L : List Mutex} (f : Frame s s2 L) (c : SameAll s2 s') : Frame s s' L := by
  have hc : ∀ v, (s'.lane v).core = (s2.lane v).core := c.core.lane
  have e : ∀ v, (s'.lane v).inbox = (s2.lane v).inbox ∧ (s'.lane v).inEod = (s2.lane v).inEod ∧
      (s'.lane v).outbox = (s2.lane v).outbox ∧ (s'.lane v).outEod = (s2.lane v).outEod := by
    intro v; have := hc v; simp only [Lane.core, Prod.mk.injEq] at this; exact ⟨this.1, this.2.1, this.2.2.1, this.2.2.2.1⟩
  exact ⟨fun u hu => by rw [(e u).1, (e u).2.1]; exact f.inbox u hu,
         fun u hu => by rw [(e u).2.2.1, (e u).2.2.2]; exact f.outbox u hu,
         fun h => by rw [c.core.nchunk]; exact f.nchunk h,
         fun h => by rw [c.recycling]; exact f.recycling h⟩

theorem frame_nolane {s s' : Sys} (L : List Mutex) (hl : s'.lanes = s.lanes)
    (hn : Mutex.nchunk ∉ L → s'.nchunk = s.nchunk) (hr : Mutex.recycling ∉ L → s'.recycling = s.recycling) : Frame s s' L := by
  have hlane : ∀ v, s'.lane v = s.lane v := fun v => by simp [Sys.lane, hl]
  exact ⟨fun u _ => by rw [hlane]; exact ⟨rfl, rfl⟩, fun u _ => by rw [hlane]; exact ⟨rfl, rfl⟩, hn, hr⟩

theorem frame_update {s s' : Sys} (L : List Mutex) (u : Nat) (l' : Lane) (hu : u < s.lanes.length)
    (hl : s'.lanes = s.lanes.set u l')
    (hi : Mutex.inbox u ∉ L → l'.inbox = (s.lane u).inbox ∧ l'.inEod = (s.lane u).inEod)
    (ho : Mutex.outbox u ∉ L → l'.outbox = (s.lane u).outbox ∧ l'.outEod = (s.lane u).outEod)
    (hn : Mutex.nchunk ∉ L → s'.nchunk = s.nchunk) (hr : Mutex.recycling ∉ L → s'.recycling = s.recycling) : Frame s s' L := by
  have hlane : ∀ v, s'.lane v = if v = u then l' else s.lane v := by
    intro v
    have := lane_setLane s u v l' hu
    simp only [Sys.lane, Sys.setLane] at this ⊢
    rw [hl]; exact this
  refine ⟨fun v hv => ?_, fun v hv => ?_, hn, hr⟩
  · rw [hlane]; split
    · rename_i e; subst e; exact hi hv
    · exact ⟨rfl, rfl⟩
  · rw [hlane]; split
    · rename_i e; subst e; exact ho hv
    · exact ⟨rfl, rfl⟩

theorem frame_refl (s : Sys) (L : List Mutex) : Frame s s L :=
  ⟨fun _ _ => ⟨rfl, rfl⟩, fun _ _ => ⟨rfl, rfl⟩, fun _ => rfl, fun _ => rfl⟩

theorem stepLoader_frame (s s' : Sys) (h : Inv s) (hs : stepLoader s = some s') : Frame s s' (held s .loader) := by
  unfold stepLoader at hs
  split at hs
  · rename_i hl
    split at hs
    · cases hs; exact frame_nolane _ rfl (fun _ => rfl) (fun _ => rfl)
    · rename_i hlim
      split at hs
      · cases hs; exact (frame_refl s _).of_sameAll (sameAll_setLwait s _)
      · cases hs
        refine frame_nolane _ rfl (fun _ => rfl) (fun hn => ?_)
        simp [held, hl, hlim] at hn
  · rename_i b hl
    split at hs
    · cases hs; exact frame_nolane _ rfl (fun _ => rfl) (fun _ => rfl)
    · cases hs; exact frame_nolane _ rfl (fun _ => rfl) (fun _ => rfl)
  · rename_i b k hl
    have hu : k % s.U < s.U := Nat.mod_lt _ h.upos
    have hlen : k % s.U < s.lanes.length := by rw [h.len]; exact hu
    simp only at hs
    split at hs
    · cases hs; exact (frame_refl s _).of_sameAll (sameAll_setLwait s _)
    · cases hs
      refine Frame.of_sameAll ?_ (sameAll_signalInbox _ _ (by simpa using hlen))
      refine frame_update _ (k % s.U) { s.lane (k % s.U) with inbox := some (b, k) } hlen rfl (fun hn => ?_) (fun _ => ⟨rfl, rfl⟩)
        (fun _ => rfl) (fun _ => rfl)
      simp [held, hl] at hn
  · rename_i u hl
    split at hs
    · cases hs; exact frame_nolane _ rfl (fun _ => rfl) (fun _ => rfl)
    · rename_i hult
      have hu : u < s.U := by omega
      have hlen : u < s.lanes.length := by rw [h.len]; exact hu
      simp only at hs
      split at hs
      · cases hs; exact (frame_refl s _).of_sameAll (sameAll_setLwait s _)
      · cases hs
        refine Frame.of_sameAll ?_ (sameAll_signalInbox _ _ (by simpa using hlen))
        refine frame_update _ u { s.lane u with inEod := true } hlen rfl (fun hn => ?_) (fun _ => ⟨rfl, rfl⟩)
          (fun _ => rfl) (fun _ => rfl)
        simp [held, hl, hult] at hn
  · rename_i hl
    split at hs
    · cases hs; exact frame_nolane _ rfl (fun _ => rfl) (fun _ => rfl)
    · rename_i hna
      split at hs
      · cases hs; exact (frame_refl s _).of_sameAll (sameAll_setLwait s _)
      · cases hs
        refine frame_nolane _ rfl (fun _ => rfl) (fun hn => ?_)
        simp [held, hl, hna] at hn
  · cases hs

theorem stepUnpacker_frame (s s' : Sys) (u : Nat) (h : Inv s) (hs : stepUnpacker s u = some s') :
    Frame s s' (held s (.unpacker u)) := by
  unfold stepUnpacker at hs
  split at hs
  · cases hs
  rename_i hu'
  have hu : u < s.U := by omega
  have hlen : u < s.lanes.length := by rw [h.len]; exact hu
  simp only at hs
  split at hs
  · rename_i hupc
    split at hs
    · cases hs; exact (frame_refl s _).of_sameAll (sameAll_setUwait s u _ hlen)
    · cases hs
      have hcore : Frame s (s.setLane u { s.lane u with inbox := none, upc := .put (s.lane u).inbox, uwait := none })
          (held s (.unpacker u)) := by
        refine frame_update _ u _ hlen rfl (fun hn => ?_) (fun _ => ⟨rfl, rfl⟩) (fun _ => rfl) (fun _ => rfl)
        simp [held, hupc] at hn
      split
      · exact hcore.of_sameAll (sameAll_signalInbox _ u (by simpa using hlen))
      · exact hcore
  · rename_i c hupc
    split at hs
    · cases hs; exact (frame_refl s _).of_sameAll (sameAll_setUwait s u _ hlen)
    · cases hs
      refine Frame.of_sameAll ?_ (sameAll_signalOutbox _ u (by simpa using hlen))
      refine frame_update _ u _ hlen rfl (fun _ => ⟨rfl, rfl⟩) (fun hn => ?_) (fun _ => rfl) (fun _ => rfl)
      simp [held, hupc] at hn
  · cases hs

theorem readBody_frame (s : Sys) (c : Nat) (h : Inv s) : Frame s (readBody s c) [.nchunk, .outbox (s.nchunk % s.U)] := by
  have hu : s.nchunk % s.U < s.U := Nat.mod_lt _ h.upos
  have hlen : s.nchunk % s.U < s.lanes.length := by rw [h.len]; exact hu
  unfold readBody
  simp only
  split
  · exact frame_nolane _ rfl (fun _ => rfl) (fun _ => rfl)
  · split
    · refine Frame.of_sameAll ?_ (sameAll_signalOutbox _ _ (by simpa using hlen))
      refine frame_update _ (s.nchunk % s.U) _ hlen rfl (fun _ => ⟨rfl, rfl⟩) (fun hn => ?_) (fun hn => ?_) (fun _ => rfl)
      · simp at hn
      · simp at hn
    · exact frame_nolane _ rfl (fun _ => rfl) (fun _ => rfl)

/-- **Writes happen under the guard.** A step changes a shared field of `ESL_DSQDATA` only if the critical section it
    models holds the mutex that guards the field. -/
theorem step_frame (s s' : Sys) (l : Label) (h : Inv s) (hs : step s l = some s') : Frame s s' (held s l) := by
  cases l with
  | loader => exact stepLoader_frame s s' h hs
  | unpacker u => exact stepUnpacker_frame s s' u h hs
  | read c =>
    simp only [step] at hs
    split at hs
    · cases hs
    · cases hs; exact readBody_frame s c h
  | readWake =>
    simp only [step] at hs
    split at hs
    · cases hs; exact readBody_frame s _ h
    · cases hs
  | recycle c b k =>
    simp only [step] at hs
    split at hs
    · cases hs
      refine Frame.of_sameAll ?_ (sameAll_signalRecycling _)
      refine frame_nolane _ rfl (fun _ => rfl) (fun hn => ?_)
      simp [held] at hn
    · cases hs

/-- a thread-local step (no mutex held) changes no shared field at all -/
theorem local_step_no_shared (s s' : Sys) (l : Label) (h : Inv s) (hs : step s l = some s') (hl : held s l = []) :
    (∀ u, (s'.lane u).inbox = (s.lane u).inbox ∧ (s'.lane u).inEod = (s.lane u).inEod ∧
          (s'.lane u).outbox = (s.lane u).outbox ∧ (s'.lane u).outEod = (s.lane u).outEod) ∧
    s'.nchunk = s.nchunk ∧ s'.recycling = s.recycling := by
  have f := step_frame s s' l h hs
  rw [hl] at f
  exact ⟨fun u => ⟨(f.inbox u (by simp)).1, (f.inbox u (by simp)).2, (f.outbox u (by simp)).1, (f.outbox u (by simp)).2⟩,
    f.nchunk (by simp), f.recycling (by simp)⟩

/-! ## thread-private variables change only in steps of their own thread -/

/-- the loader's private variables (`lpc` stands for its program counter and the chunk in its hands) are unchanged unless
    `ld`; unpacker `u`'s program counter / chunk in hand is unchanged unless `up = some u` -/
structure Priv (s s' : Sys) (ld : Bool) (up : Option Nat) : Prop where
  loader : ld = false → s'.lpc = s.lpc ∧ s'.nchunkL = s.nchunkL ∧ s'.nalloc = s.nalloc
  unp : ∀ u, up ≠ some u → (s'.lane u).upc = (s.lane u).upc

theorem Priv.of_sameAll {s s2 s' : Sys} {ld : Bool} {up : Option Nat} (f : Priv s s2 ld up) (c : SameAll s2 s') : Priv s s' ld up := by
  refine ⟨fun h => ?_, fun u hu => ?_⟩
  · rw [c.core.lpc, c.core.nchunkL, c.nalloc]; exact f.loader h
  · have := c.core.lane u
    simp only [Lane.core, Prod.mk.injEq] at this
    rw [this.2.2.2.2]; exact f.unp u hu

theorem priv_refl (s : Sys) (ld : Bool) (up : Option Nat) : Priv s s ld up := ⟨fun _ => ⟨rfl, rfl, rfl⟩, fun _ _ => rfl⟩

theorem priv_nolane {s s' : Sys} (ld : Bool) (up : Option Nat) (hl : s'.lanes = s.lanes)
    (hld : ld = false → s'.lpc = s.lpc ∧ s'.nchunkL = s.nchunkL ∧ s'.nalloc = s.nalloc) : Priv s s' ld up :=
  ⟨hld, fun u _ => by simp [Sys.lane, hl]⟩

theorem priv_update {s s' : Sys} (ld : Bool) (up : Option Nat) (v : Nat) (l' : Lane) (hv : v < s.lanes.length)
    (hl : s'.lanes = s.lanes.set v l') (hupc : up ≠ some v → l'.upc = (s.lane v).upc)
    (hld : ld = false → s'.lpc = s.lpc ∧ s'.nchunkL = s.nchunkL ∧ s'.nalloc = s.nalloc) : Priv s s' ld up := by
  refine ⟨hld, fun u hu => ?_⟩
  have := lane_setLane s v u l' hv
  simp only [Sys.lane, Sys.setLane] at this ⊢
  rw [hl, this]
  split
  · rename_i e; subst e; exact hupc hu
  · rfl

theorem stepLoader_priv (s s' : Sys) (h : Inv s) (hs : stepLoader s = some s') : Priv s s' true none := by
  unfold stepLoader at hs
  split at hs
  · split at hs
    · cases hs; exact priv_nolane _ _ rfl (fun e => by cases e)
    · split at hs
      · cases hs; exact priv_nolane _ _ rfl (fun e => by cases e)
      · cases hs; exact priv_nolane _ _ rfl (fun e => by cases e)
  · split at hs
    · cases hs; exact priv_nolane _ _ rfl (fun e => by cases e)
    · cases hs; exact priv_nolane _ _ rfl (fun e => by cases e)
  · rename_i b k hl
    have hu : k % s.U < s.U := Nat.mod_lt _ h.upos
    have hlen : k % s.U < s.lanes.length := by rw [h.len]; exact hu
    simp only at hs
    split at hs
    · cases hs; exact priv_nolane _ _ rfl (fun e => by cases e)
    · cases hs
      refine Priv.of_sameAll ?_ (sameAll_signalInbox _ _ (by simpa using hlen))
      exact priv_update _ _ (k % s.U) { s.lane (k % s.U) with inbox := some (b, k) } hlen rfl (fun _ => rfl) (fun e => by cases e)
  · rename_i u hl
    split at hs
    · cases hs; exact priv_nolane _ _ rfl (fun e => by cases e)
    · rename_i hult
      have hu : u < s.U := by omega
      have hlen : u < s.lanes.length := by rw [h.len]; exact hu
      simp only at hs
      split at hs
      · cases hs; exact priv_nolane _ _ rfl (fun e => by cases e)
      · cases hs
        refine Priv.of_sameAll ?_ (sameAll_signalInbox _ _ (by simpa using hlen))
        exact priv_update _ _ u { s.lane u with inEod := true } hlen rfl (fun _ => rfl) (fun e => by cases e)
  · split at hs
    · cases hs; exact priv_nolane _ _ rfl (fun e => by cases e)
    · split at hs
      · cases hs; exact priv_nolane _ _ rfl (fun e => by cases e)
      · cases hs; exact priv_nolane _ _ rfl (fun e => by cases e)
  · cases hs

theorem stepUnpacker_priv (s s' : Sys) (u : Nat) (h : Inv s) (hs : stepUnpacker s u = some s') : Priv s s' false (some u) := by
  unfold stepUnpacker at hs
  split at hs
  · cases hs
  rename_i hu'
  have hu : u < s.U := by omega
  have hlen : u < s.lanes.length := by rw [h.len]; exact hu
  simp only at hs
  split at hs
  · split at hs
    · cases hs; exact (priv_refl s _ _).of_sameAll (sameAll_setUwait s u _ hlen)
    · cases hs
      have hcore : Priv s (s.setLane u { s.lane u with inbox := none, upc := .put (s.lane u).inbox, uwait := none }) false (some u) :=
        priv_update _ _ u _ hlen rfl (fun e => absurd rfl e) (fun _ => ⟨rfl, rfl, rfl⟩)
      split
      · exact hcore.of_sameAll (sameAll_signalInbox _ u (by simpa using hlen))
      · exact hcore
  · split at hs
    · cases hs; exact (priv_refl s _ _).of_sameAll (sameAll_setUwait s u _ hlen)
    · cases hs
      refine Priv.of_sameAll ?_ (sameAll_signalOutbox _ u (by simpa using hlen))
      exact priv_update _ _ u _ hlen rfl (fun e => absurd rfl e) (fun _ => ⟨rfl, rfl, rfl⟩)
  · cases hs

theorem readBody_priv (s : Sys) (c : Nat) (h : Inv s) : Priv s (readBody s c) false none := by
  have hu : s.nchunk % s.U < s.U := Nat.mod_lt _ h.upos
  have hlen : s.nchunk % s.U < s.lanes.length := by rw [h.len]; exact hu
  unfold readBody
  simp only
  split
  · exact priv_nolane _ _ rfl (fun _ => ⟨rfl, rfl, rfl⟩)
  · split
    · refine Priv.of_sameAll ?_ (sameAll_signalOutbox _ _ (by simpa using hlen))
      exact priv_update _ _ (s.nchunk % s.U) _ hlen rfl (fun _ => rfl) (fun _ => ⟨rfl, rfl, rfl⟩)
    · exact priv_nolane _ _ rfl (fun _ => ⟨rfl, rfl, rfl⟩)

/-- **Thread-private variables.** The loader's program counter (with the chunk in its hands), its private chunk counter
    and `nalloc` change only in loader steps; unpacker `u`'s program counter (with the chunk in its hands) only in steps
    of unpacker `u`. -/
theorem step_private (s s' : Sys) (l : Label) (h : Inv s) (hs : step s l = some s') :
    (l ≠ .loader → s'.lpc = s.lpc ∧ s'.nchunkL = s.nchunkL ∧ s'.nalloc = s.nalloc) ∧
    (∀ u, l ≠ .unpacker u → (s'.lane u).upc = (s.lane u).upc) := by
  cases l with
  | loader =>
    have p := stepLoader_priv s s' h hs
    exact ⟨fun e => absurd rfl e, fun u _ => p.unp u (by simp)⟩
  | unpacker v =>
    have p := stepUnpacker_priv s s' v h hs
    exact ⟨fun _ => p.loader rfl, fun u hu => p.unp u (by intro e; cases e; exact hu rfl)⟩
  | read c =>
    simp only [step] at hs
    split at hs
    · cases hs
    · cases hs
      have p := readBody_priv s c h
      exact ⟨fun _ => p.loader rfl, fun u _ => p.unp u (by simp)⟩
  | readWake =>
    simp only [step] at hs
    split at hs
    · rename_i c0 _
      cases hs
      have p := readBody_priv s c0 h
      exact ⟨fun _ => p.loader rfl, fun u _ => p.unp u (by simp)⟩
    · cases hs
  | recycle c b k =>
    simp only [step] at hs
    split at hs
    · cases hs
      have p : Priv s (signalRecycling { s with cheld := s.cheld.erase (c, (b, k)), recycling := b :: s.recycling }) false none :=
        Priv.of_sameAll (s2 := { s with cheld := s.cheld.erase (c, (b, k)), recycling := b :: s.recycling })
          (priv_nolane _ _ rfl (fun _ => ⟨rfl, rfl, rfl⟩)) (sameAll_signalRecycling _)
      exact ⟨fun _ => p.loader rfl, fun u _ => p.unp u (by simp)⟩
    · cases hs

end EaselModel.Pipeline
